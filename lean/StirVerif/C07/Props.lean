/-
C07 — "OSMAPOSL sub-iterations follow the EM update and are restartable".
Property theorems over the model of `Model.lean` (numbers: ℚ — every float is a dyadic rational, so the statements
cover every float input exactly; float *rounding* is outside the model and handled by the correspondence check).
All statements are for every number of voxels / bins / subsets / sub-iterations (no bounds).

The subset gradient-plus-sensitivity, the subset sensitivities and the prior gradient are what the real objective
function / prior deliver (fields of `Cfg`); where a theorem needs to know what they *are*, it says so by an explicit
hypothesis `c.gps S (List.ofFn λ) = List.ofFn (gpsSpec P y a S λ)` (the statement of property C05 on the regular
region of `divide_and_truncate`).
-/
import StirVerif.C07.ProofsRun
import StirVerif.C07.ProofsPost
import StirVerif.C07.ProofsLogLikCast
import StirVerif.C07.ProofsZeroEnd
import StirVerif.C07.ProofsSlots
import Mathlib.Data.Fin.VecNotation
import Mathlib.Tactic.FinCases
import Mathlib.Algebra.BigOperators.Fin

namespace StirVerif.C07
open Finset

/-! ## EM formula -/

/-- "Without prior and filters, one OSMAPOSL sub-iteration on subset S maps the image lambda to
    lambda * A_S^T[y / (A_S lambda + a)] / s_S voxelwise (zero where the subset sensitivity s_S is zero)."
    One voxel: no prior (division threshold 0), relative-change limits inactive (first sub-iteration or quotient within
    the limits), numerator zero where the sensitivity is zero. -/
theorem C07_em_formula_voxel (n : Nat) (limit : Bool) (minRel maxRel lam g s pg : Rat)
    (hlim : limit = false ∨ (minRel ≤ g / s ∧ g / s ≤ maxRel)) (hcons : s = 0 → g = 0) :
    updVoxel .none n 0 limit minRel maxRel lam g s pg = .fin (if s = 0 then 0 else lam * g / s) :=
  updVoxel_em n limit minRel maxRel lam g s pg hlim hcons

/-- … the same for the whole image, with the data given by an explicit non-negative system matrix `P`, counts `y`,
    additive term `a`, efficiencies `eff` and the bins `S` of the subset: `update_estimate` produces exactly
    `emStep = λ_j · Σ_{b∈S} P_bj y_b / ((Pλ)_b + a_b) / Σ_{b∈S} P_bj eff_b` (0 where the denominator is 0).
    (`updateEstimate` is validated against the real class on span-1 and span-3, view-mashed and time-of-flight geometries.
    The theorem is stated for ONE matrix `P` in `hg` and `hs`: non-TOF data, or TOF data with TOF sensitivities.  With STIR's
    default `use time-of-flight sensitivities := 0` the sensitivity of TOF data comes from the non-TOF matrix, so `hs`
    holds for another matrix than `hg`; the harness then evaluates the formula with exactly these two matrices.)
    `S` is ANY set of bins: with `zero end planes of segment 0 := 1` (covered by the harness since round 3) it is the set
    of bins of the subset WITHOUT the first and last sinogram of segment 0 — the same `S` in `hg` and `hs`
    (`C07_zero_end_planes_removes_rows` below proves, for the executable explicit-matrix model `emExplicit` that the
    correspondence check compares with the real class, that the code's zeroing of the three viewgrams is exactly that). -/
theorem C07_em_formula {nb nv : ℕ} (c : Cfg) (k : Nat)
    (P : Fin nb → Fin nv → ℚ) (y a eff : Fin nb → ℚ) (S : Finset (Fin nb)) (lam : Fin nv → ℚ)
    (hmap : c.map = .none) (hfilt : c.interUpdateFilter = none)
    (hg : c.gps (subsetNum k c.startSubset c.numSubsets) (List.ofFn lam) = List.ofFn (gpsSpec P y a S lam))
    (hs : c.sens (subsetNum k c.startSubset c.numSubsets) = List.ofFn (sensSpec P eff S))
    (hP : ∀ b j, 0 ≤ P b j) (he : ∀ b, 0 < eff b)
    (hlim : k = 1 ∨ ∀ j, c.minRel ≤ gpsSpec P y a S lam j / sensSpec P eff S j ∧
                          gpsSpec P y a S lam j / sensSpec P eff S j ≤ c.maxRel) :
    updateEstimate c k (List.ofFn lam) = List.ofFn fun j => Ext.fin (emStep P y a eff S lam j) :=
  updateEstimate_em c k P y a eff S lam hmap hfilt hg hs hP he hlim

/-- … and hence, without inter-iteration filter, the sub-iteration as a whole -/
theorem C07_em_formula_subIter {nb nv : ℕ} (c : Cfg) (k : Nat)
    (P : Fin nb → Fin nv → ℚ) (y a eff : Fin nb → ℚ) (S : Finset (Fin nb)) (lam : Fin nv → ℚ)
    (hmap : c.map = .none) (hfilt : c.interUpdateFilter = none) (hfilt2 : c.interIterationFilter = none)
    (hg : c.gps (subsetNum k c.startSubset c.numSubsets) (List.ofFn lam) = List.ofFn (gpsSpec P y a S lam))
    (hs : c.sens (subsetNum k c.startSubset c.numSubsets) = List.ofFn (sensSpec P eff S))
    (hP : ∀ b j, 0 ≤ P b j) (he : ∀ b, 0 < eff b)
    (hlim : k = 1 ∨ ∀ j, c.minRel ≤ gpsSpec P y a S lam j / sensSpec P eff S j ∧
                          gpsSpec P y a S lam j / sensSpec P eff S j ≤ c.maxRel) :
    subIter c k (List.ofFn lam) = some (List.ofFn (emStep P y a eff S lam)) := by
  simp only [subIter, C07_em_formula c k P y a eff S lam hmap hfilt hg hs hP he hlim, allFin_ofFn, endOfIteration,
    hfilt2, Option.map_some]

/-! ## Non-negativity -/

/-- "Hence non-negative images stay non-negative": one voxel, every branch (no prior / additive / multiplicative MAP
    model, with and without relative-change limits). -/
theorem C07_nonneg_preserved_voxel (m : MapModel) (n : Nat) (small : Rat) (limit : Bool) (minRel maxRel lam g s pg : Rat)
    (hsm : 0 ≤ small) (hmin : 0 ≤ minRel) (hmm : minRel ≤ maxRel)
    (hl : 0 ≤ lam) (hg : 0 ≤ g) (hs : 0 ≤ s) (hcons : s = 0 → g = 0) :
    ∃ q, updVoxel m n small limit minRel maxRel lam g s pg = .fin q ∧ 0 ≤ q :=
  updVoxel_nonneg m n small limit minRel maxRel lam g s pg hsm hmin hmm hl hg hs hcons

/-- … a whole sub-iteration, *arbitrary* inter-update / inter-iteration filters included (the positivity thresholding
    chained behind them makes their output strictly positive): if the data for this image are non-negative and
    consistent (`DataOK`), a non-negative image is mapped to a finite non-negative image.
    (`c.interUpdateFilter` / `c.interIterationFilter` are arbitrary functions: since round 4 the model of the filter SLOTS
    (`Slots`, `C07_filter_slots_any_number_of_setups` below) ties this theorem to objects whose slots hold the user's own
    `ChainedDataProcessor`s and that were set up several times, and the correspondence check exercises exactly those.) -/
theorem C07_nonneg_preserved (c : Cfg) (k : Nat) (img : Img)
    (hmin : 0 ≤ c.minRel) (hmm : c.minRel ≤ c.maxRel) (himg : ∀ x ∈ img, (0 : Rat) ≤ x)
    (hdata : DataOK (c.gps (subsetNum k c.startSubset c.numSubsets) img) (c.sens (subsetNum k c.startSubset c.numSubsets))) :
    ∃ img', subIter c k img = some img' ∧ ∀ x ∈ img', (0 : Rat) ≤ x :=
  subIter_nonneg c k img hmin hmm himg hdata

/-- … the data are non-negative and consistent when `λ, y, a, P ≥ 0` and the efficiencies are positive -/
theorem C07_nonneg_data {nb nv : ℕ} (P : Fin nb → Fin nv → ℚ) (y a eff : Fin nb → ℚ) (S : Finset (Fin nb))
    (lam : Fin nv → ℚ) (hP : ∀ b j, 0 ≤ P b j) (hy : ∀ b, 0 ≤ y b) (ha : ∀ b, 0 ≤ a b) (he : ∀ b, 0 < eff b)
    (hl : ∀ j, 0 ≤ lam j) : DataOK (List.ofFn (gpsSpec P y a S lam)) (List.ofFn (sensSpec P eff S)) :=
  dataOK_spec P y a eff S lam hP hy ha he hl

/-- … and every iterate of a whole run (any number of sub-iterations, any start) is non-negative and finite
    (user filters of any kind, user chains included: see `C07_filter_slots_any_number_of_setups`). -/
theorem C07_nonneg_run (c : Cfg) (hmin : 0 ≤ c.minRel) (hmm : c.minRel ≤ c.maxRel)
    (hdata : ∀ S img, (∀ x ∈ img, (0 : Rat) ≤ x) → DataOK (c.gps S img) (c.sens S))
    (start last : Nat) (img : Img) (himg : ∀ x ∈ img, (0 : Rat) ≤ x) :
    (reconstruct c start last img).length = last + 1 - start ∧
      ∀ im ∈ reconstruct c start last img, ∀ x ∈ im, (0 : Rat) ≤ x :=
  runFrom_nonneg c hmin hmm hdata _ _ img himg

/-! ## Count preservation -/

/-- "without additive term the sensitivity-weighted image sum equals the total of the measured counts after every
    full-data update": one subset (all bins), `a = 0`, every bin with counts has a non-zero estimated projection
    (regular region): `Σ_j s_j λ'_j = Σ_b y_b`. -/
theorem C07_count_preservation {nb nv : ℕ} (P : Fin nb → Fin nv → ℚ) (y eff : Fin nb → ℚ) (lam : Fin nv → ℚ)
    (hP : ∀ b j, 0 ≤ P b j) (he : ∀ b, 0 < eff b) (hreg : ∀ b, y b ≠ 0 → fwd P lam b ≠ 0) :
    ∑ j, sensSpec P eff univ j * emStep P y (fun _ => 0) eff univ lam j = ∑ b, y b :=
  count_preservation P y eff lam hP he hreg

/-- … the same for ANY set `S` of bins in place of "all bins": `Σ_j s_S,j λ'_j = Σ_{b∈S} y_b`.  This is the clause for
    `zero end planes of segment 0 := 1` ("every full-data update" is then the update with all bins but the first and the last
    sinogram of segment 0: numerator, sensitivity and counts over the same `S`; a sensitivity that still contained the
    end planes would break it), and it also says what a sub-iteration of several subsets preserves: the counts of its
    own subset, weighted with the subset sensitivity.  (`C07_count_preservation` is the case `S = univ`.) -/
theorem C07_count_preservation_subset {nb nv : ℕ} (P : Fin nb → Fin nv → ℚ) (y eff : Fin nb → ℚ) (S : Finset (Fin nb))
    (lam : Fin nv → ℚ) (hP : ∀ b j, 0 ≤ P b j) (he : ∀ b, 0 < eff b) (hreg : ∀ b ∈ S, y b ≠ 0 → fwd P lam b ≠ 0) :
    ∑ j, sensSpec P eff S j * emStep P y (fun _ => 0) eff S lam j = ∑ b ∈ S, y b :=
  count_preservation_subset P y eff S lam hP he hreg

/-! ## The explicit system and `zero end planes of segment 0`

`emExplicit` (Model.lean) is the update with numerator and sensitivity formed by the model itself from an explicit system
matrix (one `Row` per bin with its counts, additive term, multiplicative viewgram value), the bins chosen as
`distributable_computation` chooses them and — option `zero end planes of segment 0` — the three viewgrams of the first
and last sinogram of segment 0 set to zero as `get_viewgrams` / `zero_end_sinograms` (distributable.cxx) do.  The
correspondence check compares it with the real class (operation `emx`). -/

/-- "maps the image lambda to lambda * A_S^T[y / (A_S lambda + a)] / s_S voxelwise": with the option on, numerator AND
    sensitivity are those of the system WITHOUT the rows of the first and the last sinogram of segment 0 (option off on the
    reduced system) — the same set of bins in `A_S^T[…]` and in `s_S`, for subset and for total sensitivities. -/
theorem C07_zero_end_planes_removes_rows (c : Cfg) (z useSubsetSens : Bool) (maxSeg : Int) (rows : List Row) (k : Nat)
    (lam : Img) (js : List Nat) :
    emExplicit c z useSubsetSens maxSeg rows k lam js
      = emExplicit c false useSubsetSens maxSeg (rows.filter fun r => !zeroedEndPlane z r) k lam js :=
  emExplicit_zeroed c z useSubsetSens maxSeg rows k lam js

/-- … and `emExplicit` IS the formula of the property (subset sensitivities; non-negative matrix, positive multiplicative
    viewgrams, relative-change limits inactive or first sub-iteration): voxel `j` becomes
    `λ_j · Σ_{b∈S} P_bj y_b/((Pλ)_b + a_b) / Σ_{b∈S} P_bj eff_b`, `0` where the subset sensitivity is zero — with the
    option on or off (no extra hypothesis: a zeroed bin has zero counts, so "numerator zero where the sensitivity is zero"
    still holds). -/
theorem C07_em_formula_explicit (c : Cfg) (z : Bool) (maxSeg : Int) (rows : List Row) (k : Nat) (lam : Img) (js : List Nat)
    (hrows : ∀ r ∈ rows, (∀ e ∈ r.elems, (0 : Rat) ≤ e.2) ∧ 0 < r.eff)
    (hlim : k = 1 ∨ ∀ j ∈ js,
      c.minRel ≤ gpsExplicit z maxSeg c.numSubsets (subsetNum k c.startSubset c.numSubsets) rows lam j /
          sensExplicit z true maxSeg c.numSubsets (subsetNum k c.startSubset c.numSubsets) rows j ∧
        gpsExplicit z maxSeg c.numSubsets (subsetNum k c.startSubset c.numSubsets) rows lam j /
          sensExplicit z true maxSeg c.numSubsets (subsetNum k c.startSubset c.numSubsets) rows j ≤ c.maxRel) :
    emExplicit c z true maxSeg rows k lam js =
      js.map fun j => Ext.fin
        (if sensExplicit z true maxSeg c.numSubsets (subsetNum k c.startSubset c.numSubsets) rows j = 0 then 0
         else voxelOf lam j * gpsExplicit z maxSeg c.numSubsets (subsetNum k c.startSubset c.numSubsets) rows lam j /
           sensExplicit z true maxSeg c.numSubsets (subsetNum k c.startSubset c.numSubsets) rows j) :=
  emExplicit_em c z maxSeg rows k lam js hrows hlim

/-- non-vacuity, computed: 3 bins of segment 0 (axial positions 0, 1, 2 of 0..2), 2 voxels, one subset; bin 0 (an end plane)
    sees voxel 0 only, bin 1 both, bin 2 (the other end plane) voxel 1 only; `λ = [1, 1]`.
    Option off: `g = [4/1 + 6/2, 6/2 + 2/1] = [7, 5]`, `s = [2, 2]`, `λ' = [7/2, 5/2]`;
    option on: only bin 1 is left: `g = [3, 3]`, `s = [1, 1]`, `λ' = [3, 3]`. -/
def exRows : List Row :=
  [ { seg := 0, basicView := 0, ax := 0, minAx := 0, maxAx := 2, y := 4, a := 0, eff := 1, elems := [(0, 1)] },
    { seg := 0, basicView := 0, ax := 1, minAx := 0, maxAx := 2, y := 6, a := 0, eff := 1, elems := [(0, 1), (1, 1)] },
    { seg := 0, basicView := 0, ax := 2, minAx := 0, maxAx := 2, y := 2, a := 0, eff := 1, elems := [(1, 1)] } ]

def exCfg : Cfg :=
  { numSubsets := 1, startSubset := 0, map := .none, minRel := 0, maxRel := 1000000,
    interUpdateInterval := 0, interIterationInterval := 0, enforceInitialPositivity := true,
    gps := fun _ _ => [], sens := fun _ => [], priorGrad := fun _ => [],
    interUpdateFilter := none, interIterationFilter := none }

example : emExplicit exCfg false true 0 exRows 1 [1, 1] [0, 1] = [.fin (7 / 2), .fin (5 / 2)] ∧
    emExplicit exCfg true true 0 exRows 1 [1, 1] [0, 1] = [.fin 3, .fin 3] := by
  constructor <;>
  norm_num [emExplicit, exCfg, exRows, subsetViewgrams, rowInSubset, zeroEndSinograms, zeroedEndPlane, subsetNum, ratioRow,
    fwdRow, voxelOf, coeff, sumR, sensVoxel, updVoxel, denom, divide1, absR, mulExt]

/-- the hypothesis `hrows` of `C07_em_formula_explicit` holds for it -/
example : ∀ r ∈ exRows, (∀ e ∈ r.elems, (0 : Rat) ≤ e.2) ∧ 0 < r.eff := by
  intro r hr
  simp only [exRows, List.mem_cons, List.not_mem_nil, or_false] at hr
  rcases hr with rfl | rfl | rfl <;> constructor <;> simp

/-! ## MAP: one-step-late update and the documented bounds on the denominator -/

/-- "with a prior the one-step-late update with the documented bounds on the denominator holds": the denominator is
    within `[s/10, 10 s]` for both MAP models (and without prior) … -/
theorem C07_map_denominator_bounds (m : MapModel) (n : Nat) (pg s : Rat) (hs : 0 ≤ s) :
    s / 10 ≤ denom m n pg s ∧ denom m n pg s ≤ s * 10 :=
  denom_bounds m n pg s hs

/-- … inside the bounds it *is* the one-step-late denominator `s + ∇R/num_subsets` resp. `s·(1 + ∇R)` … -/
theorem C07_map_denominator_osl (n : Nat) (pg s : Rat) :
    (s / 10 ≤ pg / n + s → pg / n + s ≤ s * 10 → denom .additive n pg s = pg / n + s) ∧
    (1 / 10 ≤ pg + 1 → pg + 1 ≤ 10 → denom .multiplicative n pg s = (1 + pg) * s) :=
  ⟨denAdditive_eq n pg s, denMultiplicative_eq pg s⟩

/-- … and the voxel is updated to `λ · g / denominator` wherever the division is above the threshold of `stir::divide`
    and the relative-change limits are not active. -/
theorem C07_map_update (m : MapModel) (n : Nat) (small : Rat) (limit : Bool) (minRel maxRel lam g s pg : Rat)
    (hs : 0 < s) (hreg : small < g ∨ small < denom m n pg s) (hg : 0 ≤ g)
    (hlim : limit = false ∨ (minRel ≤ g / denom m n pg s ∧ g / denom m n pg s ≤ maxRel)) :
    updVoxel m n small limit minRel maxRel lam g s pg = .fin (lam * g / denom m n pg s) :=
  updVoxel_map m n small limit minRel maxRel lam g s pg hs hreg hg hlim

/-! ## Restart -/

/-- `set_up` leaves the start image alone iff it has nothing to lift: `enforce_initial_positivity = false` or the
    image is strictly positive; with the option on, whatever comes in, the result is strictly positive. -/
theorem C07_setUp_id (c : Cfg) (img : Img) (h : c.enforceInitialPositivity = false ∨ ∀ x ∈ img, 0 < x) :
    setUp c img = img :=
  setUp_id c img h

theorem C07_setUp_pos (c : Cfg) (img : Img) (h : c.enforceInitialPositivity = true) : ∀ x ∈ setUp c img, 0 < x :=
  setUp_pos c img h

/-- … so the side condition of the restart theorem below is not merely sufficient: it is *exactly* "`set_up` of the
    resumed run does not change the saved image". -/
theorem C07_setUp_id_iff (c : Cfg) (img : Img) :
    setUp c img = img ↔ (c.enforceInitialPositivity = false ∨ ∀ x ∈ img, 0 < x) := by
  constructor
  · intro h
    cases hb : c.enforceInitialPositivity with
    | false => exact Or.inl rfl
    | true =>
      right
      intro x hx
      rw [← h] at hx
      exact setUp_pos c img hb x hx
  · exact setUp_id c img

/-- "A reconstruction resumed at sub-iteration k+1 from the image saved after sub-iteration k produces the same
    images as the uninterrupted run."  The state after sub-iteration `k` is `(image_k, k)` only (the model has no other
    state, and the correspondence check validates exactly this model), so the uninterrupted run is the run to `k`
    followed by the run from `k+1` over `set_up image_k` — PROVIDED `set_up` of the resumed run does not change the
    image: `enforce_initial_positivity = false`, or image_k strictly positive (by `C07_setUp_id_iff` this is exactly
    "`set_up` leaves image_k alone"; the inputs excluded are those of the known finding
    `restart:enforce-initial-positivity-lifts-exact-zeros`, see the negative witnesses below).
    (`hfull`: no non-finite value occurred up to `k`.)  Fixed subset order only (randomised order: C06).
    `reconstruct c = reconstructPost c none` (`C07_reconstructPost_none`) and the no-argument `reconstruct()` driven by a
    parameter file is `reconstructNoArg = reconstructPost ∘ setUp ∘ initialData`, so this is also the statement for
    restarts made with `initial estimate` / `start at subiteration number` (spelled out, with a post-filter, in
    `C07_restart_eq_post_partial` and `C07_restart_eq_noarg_partial`). -/
theorem C07_restart_eq_partial (c : Cfg) (start k last : Nat) (img : Img) (h1 : start ≤ k + 1) (h2 : k ≤ last)
    (hfull : (reconstruct c start k img).length = k + 1 - start)
    (hpos : c.enforceInitialPositivity = false ∨ ∀ x ∈ (reconstruct c start k img).getLastD img, 0 < x) :
    reconstruct c start last img =
      reconstruct c start k img ++
        reconstruct c (k + 1) last (setUp c ((reconstruct c start k img).getLastD img)) := by
  rw [setUp_id c _ hpos]
  exact reconstruct_split c start k last img h1 h2 hfull

/-- `enforce_initial_positivity` acts in `set_up` only: the sub-iterations of a reconstruction do not depend on it (so the
    whole effect of the option on a resumed run is what `setUp` does to the saved image; the harness checks the same on
    the real class: the resumed run with the option on = the run with the option off from the lifted image, bitwise). -/
theorem C07_enforce_only_in_setUp (c : Cfg) (b : Bool) (start last : Nat) (img : Img) :
    reconstruct { c with enforceInitialPositivity := b } start last img = reconstruct c start last img := by
  simp only [reconstruct]
  exact runFrom_enforce_irrelevant c b _ _ img

/-- "A reconstruction resumed at sub-iteration k+1 from the image saved after sub-iteration k produces the same
    images as the uninterrupted run" — at full strength (every configuration, every image, zeros included) when the
    resumed run is made with `enforce initial positivity condition := 0` (what STIR's own restarting scripts and test
    parameter files do): the state after sub-iteration `k` is `(image_k, k)` and nothing else.
    (`hfull`: no non-finite value occurred up to `k`.)  Fixed subset order only (randomised order: C06). -/
theorem C07_restart_eq_option_off (c : Cfg) (start k last : Nat) (img : Img) (h1 : start ≤ k + 1) (h2 : k ≤ last)
    (hfull : (reconstruct c start k img).length = k + 1 - start) :
    reconstruct c start last img =
      reconstruct c start k img ++
        reconstruct { c with enforceInitialPositivity := false } (k + 1) last
          (setUp { c with enforceInitialPositivity := false } ((reconstruct c start k img).getLastD img)) := by
  rw [setUp_id _ _ (Or.inl rfl)]
  simp only [reconstruct] at hfull ⊢
  rw [runFrom_enforce_irrelevant c false]
  exact reconstruct_split c start k last img h1 h2 hfull

/-- witness for the side condition: 2 voxels, 2 subsets, voxel 1 has zero counts in subset 0 (numerator 0), default
    `enforce_initial_positivity = true` -/
def restartWitness : Cfg :=
  { numSubsets := 2, startSubset := 0, map := .none, minRel := 0, maxRel := 1000000,
    interUpdateInterval := 0, interIterationInterval := 0, enforceInitialPositivity := true,
    gps := fun S _ => if S = 0 then [2, 0] else [1, 1],
    sens := fun _ => [1, 1], priorGrad := fun _ => [0, 0],
    interUpdateFilter := none, interIterationFilter := none }

/-- **negative witness** (the class is found on the real code by the harness: KNOWN-CANDIDATE
    `restart:enforce-initial-positivity-lifts-exact-zeros`; zeros from zero counts occur in its random Poisson cases,
    zeros from a zero subset sensitivity in its deterministic reproduction): the uninterrupted run gives `[2,0], [2,0]`; resuming at
    sub-iteration 2 from the saved `[2,0]` gives `[2, 2·10⁻⁶]` because `set_up` lifts the exact zero. -/
theorem C07_restart_fails_with_enforced_positivity :
    reconstruct restartWitness 1 2 [1, 1] = [[2, 0], [2, 0]] ∧
    reconstruct restartWitness 2 2 (setUp restartWitness [2, 0]) = [[2, 1 / 500000]] ∧
    reconstruct restartWitness 1 2 [1, 1] ≠
      reconstruct restartWitness 1 1 [1, 1] ++ reconstruct restartWitness 2 2 (setUp restartWitness [2, 0]) := by
  have e1 : reconstruct restartWitness 1 2 [1, 1] = [[2, 0], [2, 0]] := by
    norm_num [reconstruct, runFrom, subIter, updateEstimate, restartWitness, subsetNum, smallValue, maxElem,
      divideSmallNum, interUpdateFiltered, zip4With, updVoxel, denom, divide1, absR, mulExt, thresholdUpperLower, allFin,
      endOfIteration]
  have e2 : reconstruct restartWitness 2 2 (setUp restartWitness [2, 0]) = [[2, 1 / 500000]] := by
    norm_num [reconstruct, runFrom, subIter, updateEstimate, restartWitness, subsetNum, smallValue, maxElem,
      divideSmallNum, interUpdateFiltered, zip4With, updVoxel, denom, divide1, absR, mulExt, thresholdUpperLower, allFin,
      endOfIteration, setUp, thresholdMinToSmallPositive, minPositive, smallNum]
  have e3 : reconstruct restartWitness 1 1 [1, 1] = [[2, 0]] := by
    norm_num [reconstruct, runFrom, subIter, updateEstimate, restartWitness, subsetNum, smallValue, maxElem,
      divideSmallNum, interUpdateFiltered, zip4With, updVoxel, denom, divide1, absR, mulExt, thresholdUpperLower, allFin,
      endOfIteration]
  refine ⟨e1, e2, ?_⟩
  rw [e1, e2, e3]
  norm_num

/-- the same with the zero produced by the clause "(zero where the subset sensitivity s_S is zero)" of the property
    itself instead of zero counts: voxel 1 is not seen by subset 0 (sensitivity 0, numerator 0), seen by subset 1 -/
def restartWitnessSens : Cfg :=
  { restartWitness with sens := fun S => if S = 0 then [1, 0] else [1, 1] }

/-- **negative witness**, zero-subset-sensitivity flavour (this is the flavour of the deterministic reproduction on the
    real class in `run_restart_witness` of the harness: uniform counts, all defaults) -/
theorem C07_restart_fails_zero_subset_sensitivity :
    reconstruct restartWitnessSens 1 2 [1, 1] = [[2, 0], [2, 0]] ∧
    reconstruct restartWitnessSens 2 2 (setUp restartWitnessSens [2, 0]) = [[2, 1 / 500000]] ∧
    reconstruct restartWitnessSens 1 2 [1, 1] ≠
      reconstruct restartWitnessSens 1 1 [1, 1] ++ reconstruct restartWitnessSens 2 2 (setUp restartWitnessSens [2, 0]) := by
  have e1 : reconstruct restartWitnessSens 1 2 [1, 1] = [[2, 0], [2, 0]] := by
    norm_num [reconstruct, runFrom, subIter, updateEstimate, restartWitnessSens, restartWitness, subsetNum, smallValue, maxElem,
      divideSmallNum, interUpdateFiltered, zip4With, updVoxel, denom, divide1, absR, mulExt, thresholdUpperLower, allFin,
      endOfIteration]
  have e2 : reconstruct restartWitnessSens 2 2 (setUp restartWitnessSens [2, 0]) = [[2, 1 / 500000]] := by
    norm_num [reconstruct, runFrom, subIter, updateEstimate, restartWitnessSens, restartWitness, subsetNum, smallValue, maxElem,
      divideSmallNum, interUpdateFiltered, zip4With, updVoxel, denom, divide1, absR, mulExt, thresholdUpperLower, allFin,
      endOfIteration, setUp, thresholdMinToSmallPositive, minPositive, smallNum]
  have e3 : reconstruct restartWitnessSens 1 1 [1, 1] = [[2, 0]] := by
    norm_num [reconstruct, runFrom, subIter, updateEstimate, restartWitnessSens, restartWitness, subsetNum, smallValue, maxElem,
      divideSmallNum, interUpdateFiltered, zip4With, updVoxel, denom, divide1, absR, mulExt, thresholdUpperLower, allFin,
      endOfIteration]
  refine ⟨e1, e2, ?_⟩
  rw [e1, e2, e3]
  norm_num

/-- … and on both witnesses the resumed run with the option off reproduces the uninterrupted run (instance of
    `C07_restart_eq_option_off`; computed) -/
example : reconstruct restartWitnessSens 1 2 [1, 1] =
    reconstruct restartWitnessSens 1 1 [1, 1] ++
      reconstruct { restartWitnessSens with enforceInitialPositivity := false } 2 2
        (setUp { restartWitnessSens with enforceInitialPositivity := false } [2, 0]) := by
  norm_num [reconstruct, runFrom, subIter, updateEstimate, restartWitnessSens, restartWitness, subsetNum, smallValue, maxElem,
    divideSmallNum, interUpdateFiltered, zip4With, updVoxel, denom, divide1, absR, mulExt, thresholdUpperLower, allFin,
    endOfIteration, setUp]

/-! ## Post-filter, the no-argument `reconstruct()` of parameter files, the written update image

The model functions `endOfIterationPost` / `reconstructPost` (post-filter of `Reconstruction::set_post_processor_sptr`, key
`post-filter type`), `initialData` / `reconstructNoArg` (`get_initial_data_ptr` + the no-argument `reconstruct()`, keys
`initial estimate` and `start at subiteration number`) and `updateImage` (`write update image`) extend the model to the
way users run OSMAPOSL.  `reconstructPost c none = reconstruct c` (`C07_reconstructPost_none`), so every theorem above
about `reconstruct` (non-negativity of every iterate, restart) is a theorem about the run as the executable makes it
when no post-filter is set; the theorems below are the restart clause with a post-filter and through parameter files. -/

/-- without a post-filter the extended run is the run of the theorems above -/
theorem C07_reconstructPost_none (c : Cfg) (start last : Nat) (img : Img) :
    reconstructPost c none start last img = reconstruct c start last img :=
  reconstructPost_none c start last img

/-- The post-filter touches the LAST iterate only ("produces the same images": all saved iterates before the last one are
    those of the run without post-filter, the last one is the post-filtered last iterate of that run): for a run from
    `start ≥ 1` to `last ≥ start` whose first `last - start` sub-iterations stay finite (`hfull`), with
    `x` the iterate `last - 1`,
    `reconstructPost = reconstruct start (last-1) ++ [post (subIter last x)]` and
    `reconstruct     = reconstruct start (last-1) ++ [subIter last x]`. -/
theorem C07_post_filter_only_last (c : Cfg) (post : Option (Img → Img)) (start last : Nat) (img : Img)
    (h0 : 1 ≤ start) (h : start ≤ last)
    (hfull : (reconstruct c start (last - 1) img).length = last - start) :
    reconstructPost c post start last img =
        reconstruct c start (last - 1) img ++
          ((subIter c last ((reconstruct c start (last - 1) img).getLastD img)).map (postApply post)).toList ∧
      reconstruct c start last img =
        reconstruct c start (last - 1) img ++
          (subIter c last ((reconstruct c start (last - 1) img).getLastD img)).toList := by
  have e : last - 1 + 1 = last := by omega
  have hf : (reconstruct c start (last - 1) img).length = last - 1 + 1 - start := by rw [hfull]; omega
  constructor
  · rw [reconstructPost_split c post start (last - 1) last img (by omega) (by omega) hf, e, reconstructPost_last]
  · rw [reconstruct_split c start (last - 1) last img (by omega) (by omega) hf, e, reconstruct_last]

/-- "A reconstruction resumed at sub-iteration k+1 from the image saved after sub-iteration k produces the same images as
    the uninterrupted run" WITH a post-filter set in both runs, resuming before the last sub-iteration (`k < last`; the
    image saved after the last sub-iteration is post-filtered and is not a state of the iteration): the images saved up
    to `k` are those of the run without post-filter, and the resumed run (post-filter set) gives the rest, the
    post-filtered last one included.  Side condition as in `C07_restart_eq_partial`: `set_up` of the resumed run must not
    change the saved image. -/
theorem C07_restart_eq_post_partial (c : Cfg) (post : Option (Img → Img)) (start k last : Nat) (img : Img)
    (h1 : start ≤ k + 1) (h2 : k < last)
    (hfull : (reconstruct c start k img).length = k + 1 - start)
    (hpos : c.enforceInitialPositivity = false ∨ ∀ x ∈ (reconstruct c start k img).getLastD img, 0 < x) :
    reconstructPost c post start last img =
      reconstruct c start k img ++
        reconstructPost c post (k + 1) last (setUp c ((reconstruct c start k img).getLastD img)) := by
  rw [setUp_id c _ hpos]
  exact reconstructPost_split c post start k last img h1 h2 hfull

/-- … at full strength (zeros in the saved image included) when the resumed run is made with
    `enforce initial positivity condition := 0` -/
theorem C07_restart_eq_post_option_off (c : Cfg) (post : Option (Img → Img)) (start k last : Nat) (img : Img)
    (h1 : start ≤ k + 1) (h2 : k < last)
    (hfull : (reconstruct c start k img).length = k + 1 - start) :
    reconstructPost c post start last img =
      reconstruct c start k img ++
        reconstructPost { c with enforceInitialPositivity := false } post (k + 1) last
          (setUp { c with enforceInitialPositivity := false } ((reconstruct c start k img).getLastD img)) := by
  rw [setUp_id _ _ (Or.inl rfl)]
  simp only [reconstructPost]
  rw [runFromPost_enforce_irrelevant c post last false]
  exact reconstructPost_split c post start k last img h1 h2 hfull

/-- The restart as users make it: a parameter file with `initial estimate := <image saved after k>` and
    `start at subiteration number := k+1`, run by the no-argument `reconstruct()` (`reconstructNoArg`:
    `get_initial_data_ptr`, `set_up`, `reconstruct(target)`), continues the run that a parameter file with
    `initial estimate := 0 | 1 | <file>` started at sub-iteration 1: with `x₀ = set_up (initial image)` and
    `image_k` the image saved after `k < last`,
    `reconstructNoArg init 1 last = (iterates 1..k) ++ reconstructNoArg (file image_k) (k+1) last`
    — under the side condition of `C07_restart_eq_partial` on `image_k` (the excluded inputs are those of the known
    finding `restart:enforce-initial-positivity-lifts-exact-zeros`). -/
theorem C07_restart_eq_noarg_partial (c : Cfg) (post : Option (Img → Img)) (nvox : Nat) (init : InitialEstimate)
    (k last : Nat) (h2 : k < last)
    (hfull : (reconstruct c 1 k (setUp c (initialData nvox init))).length = k)
    (hpos : c.enforceInitialPositivity = false ∨
      ∀ x ∈ (reconstruct c 1 k (setUp c (initialData nvox init))).getLastD (setUp c (initialData nvox init)), 0 < x) :
    reconstructNoArg c post nvox init 1 last =
      reconstruct c 1 k (setUp c (initialData nvox init)) ++
        reconstructNoArg c post nvox
          (.file ((reconstruct c 1 k (setUp c (initialData nvox init))).getLastD (setUp c (initialData nvox init))))
          (k + 1) last := by
  unfold reconstructNoArg
  have e : ∀ x, initialData nvox (.file x) = x := fun _ => rfl
  rw [e]
  exact C07_restart_eq_post_partial c post 1 k last _ (by omega) h2 (by rw [hfull]; omega) hpos

/-- The image written by `write update image` is the multiplicative update that is applied: the image after
    `update_estimate` is, voxel by voxel, the (inter-update filtered) image before times the written update limited to
    `[minimum relative change, maximum relative change]` (limits from sub-iteration 2 on) — "maps the image lambda to
    lambda * A_S^T[y / (A_S lambda + a)] / s_S voxelwise" with the second factor observable in a file. -/
theorem C07_update_image_applied (c : Cfg) (k : Nat) (img : Img) :
    updateEstimate c k img =
      List.zipWith (fun lam u => mulExt lam (limitUpdate c k u)) (interUpdateFiltered c k img) (updateImage c k img) :=
  updateEstimate_eq_updateImage c k img

/-- non-vacuity, computed: witness configuration with the option off and the post-filter "+1": the uninterrupted run
    saves `[2,0]` and the post-filtered `[3,1]`; the run resumed at 2 from `[2,0]` saves `[3,1]` -/
example : reconstructPost { restartWitness with enforceInitialPositivity := false } (some (List.map (· + 1))) 1 2 [1, 1]
      = [[2, 0], [3, 1]] ∧
    reconstructPost { restartWitness with enforceInitialPositivity := false } (some (List.map (· + 1))) 2 2
      (setUp { restartWitness with enforceInitialPositivity := false } [2, 0]) = [[3, 1]] ∧
    reconstructNoArg { restartWitness with enforceInitialPositivity := false } (some (List.map (· + 1))) 2 .ones 1 2
      = [[2, 0], [3, 1]] := by
  refine ⟨?_, ?_, ?_⟩ <;>
  norm_num [reconstructNoArg, initialData, reconstructPost, runFromPost, subIterPost, endOfIterationPost, updateEstimate,
    restartWitness, subsetNum, smallValue, maxElem, divideSmallNum, interUpdateFiltered, zip4With, updVoxel, denom, divide1,
    absR, mulExt, thresholdUpperLower, allFin, endOfIteration, setUp, List.replicate]

/-- the hypotheses of `C07_restart_eq_noarg_partial` hold there (`k = 1 < last = 2`, one finite iterate, option off) -/
example : (reconstruct { restartWitness with enforceInitialPositivity := false } 1 1
    (setUp { restartWitness with enforceInitialPositivity := false } (initialData 2 .ones))).length = 1 := by
  norm_num [initialData, reconstruct, runFrom, subIter, updateEstimate, restartWitness, subsetNum, smallValue, maxElem,
    divideSmallNum, interUpdateFiltered, zip4With, updVoxel, denom, divide1, absR, mulExt, thresholdUpperLower, allFin,
    endOfIteration, setUp, List.replicate]

/-! ## The filter slots as objects: user chains (`Chained Data Processor`), repeated `set_up`

`Filt` / `Slots` / `updateEstimateS` / `endOfIterationS` / `subIterS` (Model.lean) transcribe what the class holds and does:
three `DataProcessor` slots, of which EVERY call of `OSMAPOSLReconstruction::set_up` re-wraps the inter-update and the
inter-iteration one into `ChainedDataProcessor(content, ThresholdMinToSmallPositiveValueDataProcessor)` without looking at
the content, and `update_estimate` / `end_of_iteration_processing` apply the slot's object as it is.  The correspondence
check compares THIS model with the real class for user filters that are single registered filters, user-made
`ChainedDataProcessor`s of 2 and 3 members (smoothing + sharpening in both orders, with a thresholding member, nested, with a
null member), given through the setters and parsed from parameter files, with 1-3 consecutive `set_up` calls. -/

/-- "inter-update / inter-iteration filters off and on (positivity only)": for EVERY content of the three slots (single
    filters, user chains of any shape, thresholding members, null members, empty slots), after ANY number `n ≥ 1` of
    consecutive `set_up` calls on the object, a sub-iteration of the object is the sub-iteration of the model
    `subIterPost` with the slots' original contents as user filters — each followed by exactly one positivity thresholding
    (the `n` thresholding stages that `n` calls stack up act as one).  Hence every theorem of this file about
    `updateEstimate` / `subIter` / `subIterPost` / `reconstruct…` with arbitrary `interUpdateFilter` /
    `interIterationFilter` (non-negativity of every iterate, restart, post-filter at the last sub-iteration only) is a
    theorem about objects holding user chains and set up several times. -/
theorem C07_filter_slots_any_number_of_setups (c : Cfg) (s : Slots) (n : Nat) (hn : 1 ≤ n) (last k : Nat) (img : Img) :
    updateEstimateS c (Slots.setUpN c n s) k img = updateEstimate (Cfg.ofSlots c s) k img ∧
    subIterS c (Slots.setUpN c n s) last k img = subIterPost (Cfg.ofSlots c s) s.post.toOption last k img :=
  ⟨updateEstimateS_setUpN c s n hn k img, subIterS_setUpN c s n hn last k img⟩

/-- "with filters on, non-negative images stay non-negative", the filter stage: whatever data processor the user put
    into an inter-update / inter-iteration slot (`f` is any non-null `Filt`: a filter with negative lobes, a user
    `ChainedDataProcessor`, a chain of chains …) and whatever image comes in, after `n ≥ 1` calls of `set_up` with the
    filter switched on (`interval > 0`) the slot's object delivers a strictly positive image — the thresholding stage is
    added for EVERY kind of content.  (A `set_up` that skipped the wrapping for a content that is a `ChainedDataProcessor`
    would make this false: `C07_unwrapped_user_chain_goes_negative` below.) -/
theorem C07_filter_slot_output_positive (interval n : Nat) (hi : 0 < interval) (hn : 1 ≤ n) (f : Filt)
    (hf : f.isNull = false) (img : Img) : ∀ x ∈ (setUpSlotN interval n f).apply img, 0 < x :=
  setUpSlotN_pos interval n hi hn f hf img

/-- … and the sub-iteration as a whole, for an object with any user slots after `n ≥ 1` calls of `set_up` (before the last
    sub-iteration, or without post-filter: the post-filter is the user's and is not thresholded): a non-negative image is
    mapped to a finite non-negative image (data non-negative and consistent, as in `C07_nonneg_preserved`). -/
theorem C07_nonneg_preserved_slots (c : Cfg) (s : Slots) (n : Nat) (hn : 1 ≤ n) (last k : Nat) (img : Img)
    (hpost : s.post.isNull = true ∨ k ≠ last)
    (hmin : 0 ≤ c.minRel) (hmm : c.minRel ≤ c.maxRel) (himg : ∀ x ∈ img, (0 : Rat) ≤ x)
    (hdata : DataOK (c.gps (subsetNum k c.startSubset c.numSubsets) img) (c.sens (subsetNum k c.startSubset c.numSubsets))) :
    ∃ img', subIterS c (Slots.setUpN c n s) last k img = some img' ∧ ∀ x ∈ img', (0 : Rat) ≤ x := by
  rw [subIterS_setUpN c s n hn]
  have key : subIterPost (Cfg.ofSlots c s) s.post.toOption last k img = subIter (Cfg.ofSlots c s) k img := by
    rcases hpost with h | h
    · simp only [Filt.toOption, h, if_true]
      unfold subIterPost subIter
      cases allFin (updateEstimate (Cfg.ofSlots c s) k img) with
      | none => rfl
      | some im => simp [endOfIterationPost_none]
    · exact subIterPost_ne _ _ last k img h
  rw [key]
  exact subIter_nonneg (Cfg.ofSlots c s) k img hmin hmm himg hdata

/-- a user chain with a sharpening-like second member: `x ↦ x + 1` followed by `x ↦ x − 3` -/
def exUserChain : Filt := .chain (.user (List.map (· + 1))) (.user (List.map (· - 3)))

/-- non-vacuity, computed: the chain alone turns the positive image `[1, 4]` into `[-1, 2]`; in a slot with interval 1
    after one, two and three `set_up` calls the object delivers `[2·10⁻⁶, 2]` -/
example : exUserChain.apply [1, 4] = [-1, 2] ∧
    (setUpSlotN 1 1 exUserChain).apply [1, 4] = [1 / 500000, 2] ∧
    (setUpSlotN 1 2 exUserChain).apply [1, 4] = [1 / 500000, 2] ∧
    (setUpSlotN 1 3 exUserChain).apply [1, 4] = [1 / 500000, 2] := by
  refine ⟨?_, ?_, ?_, ?_⟩ <;>
  norm_num [exUserChain, setUpSlotN, setUpSlot, Filt.isNull, Filt.apply, thresholdMinToSmallPositive, minPositive, smallNum]

/-- **negative witness for a guarded `set_up`** ("do not chain the thresholding again when the slot already holds a
    `ChainedDataProcessor`"): such a `set_up` leaves the user chain `exUserChain` as it is, and the slot then delivers a
    negative value for the positive image `[1, 4]` — the wrapping must not depend on the kind of the content. -/
theorem C07_unwrapped_user_chain_goes_negative :
    (∃ x ∈ exUserChain.apply [1, 4], x < 0) ∧ ∀ x ∈ (setUpSlot 1 exUserChain).apply [1, 4], 0 < x := by
  constructor
  · exact ⟨-1, by norm_num [exUserChain, Filt.apply], by norm_num⟩
  · exact setUpSlotN_pos 1 1 (by norm_num) (le_refl _) exUserChain rfl [1, 4]

/-! ## `divide_and_truncate`: the quotient `y / (A_S lambda + a)` in viewgram space -/

/-- "A_S^T[y / (A_S lambda + a)]": the quotient that `divide_and_truncate` leaves in the numerator viewgram is, for EVERY
    numerator and denominator (zeros, negatives, `0/0`, `x/0` included), a number in `[0, max_quotient]` — no division by
    zero is ever made (so a NaN or a negative quotient in a viewgram cannot come from this function) … -/
theorem C07_divide_and_truncate_bounds (num den : List Rat) :
    ∀ q ∈ divideAndTruncate num den, 0 ≤ q ∧ q ≤ maxQuotient :=
  divideAndTruncate_bounds num den

/-- … a bin without counts gives `0` whatever the denominator (`0/0 = 0`), and on the regular region
    (`small_value < y ≤ max_quotient · ȳ`) the quotient is `y / ȳ`: the `ratioRow` that `emExplicit` back projects. -/
theorem C07_divide_and_truncate_regular (num : List Rat) (y ybar : Rat) :
    divideAndTruncate1 (dtSmallValue num) 0 ybar = 0 ∧
    (dtSmallValue num < y → y ≤ maxQuotient * ybar → divideAndTruncate1 (dtSmallValue num) y ybar = y / ybar) :=
  ⟨divideAndTruncate1_zero _ _ (dtSmallValue_nonneg num), divideAndTruncate1_regular _ _ _⟩

/-- non-vacuity, computed: numerator `[0, 4, 8, 2]`, denominator `[0, 2, 0, 1]`: `0/0 → 0`, `4/2 → 2`, `8/0 → 10000`, `2/1 → 2` -/
example : divideAndTruncate [0, 4, 8, 2] [0, 2, 0, 1] = [0, 2, 10000, 2] := by
  norm_num [divideAndTruncate, divideAndTruncate1, dtSmallValue, dtSmallNum, maxQuotient, maxElem, stdMax, List.zipWith]

/-! ## Non-vacuity: concrete instances satisfying the hypotheses -/

/-- a 3-bin × 2-voxel system: bin 0 sees both voxels, bin 1 only voxel 1, bin 2 nothing -/
def exP : Fin 3 → Fin 2 → ℚ := ![![1, 2], ![0, 3], ![0, 0]]
def exY : Fin 3 → ℚ := ![5, 0, 0]
def exEff : Fin 3 → ℚ := ![1, 1 / 2, 1]
def exLam : Fin 2 → ℚ := ![1, 2]

example : (∀ b j, 0 ≤ exP b j) ∧ (∀ b, 0 < exEff b) ∧ (∀ b, exY b ≠ 0 → fwd exP exLam b ≠ 0) := by
  refine ⟨?_, ?_, ?_⟩
  · intro b j; fin_cases b <;> fin_cases j <;> norm_num [exP]
  · intro b; fin_cases b <;> norm_num [exEff]
  · intro b; fin_cases b <;> norm_num [exY, fwd, exP, exLam, Fin.sum_univ_succ]

/-- the count-preservation identity on this instance, computed: `Σ_j s_j λ'_j = 5 = Σ_b y_b` -/
example : ∑ j, sensSpec exP exEff univ j * emStep exP exY (fun _ => 0) exEff univ exLam j = 5 := by
  rw [C07_count_preservation exP exY exEff exLam
    (by intro b j; fin_cases b <;> fin_cases j <;> norm_num [exP])
    (by intro b; fin_cases b <;> norm_num [exEff])
    (by intro b; fin_cases b <;> norm_num [exY, fwd, exP, exLam, Fin.sum_univ_succ])]
  norm_num [exY, Fin.sum_univ_succ]

/-- voxel level: an additive-MAP voxel whose prior gradient would push the denominator below `s/10` is clamped,
    and the update stays non-negative (`λ = 2, g = 3, s = 1, ∇R = -5, 1 subset`: denominator `1/10`, `λ' = 60`) -/
example : updVoxel .additive 1 (1 / 1000000) false 0 1000 2 3 1 (-5) = .fin 60 := by
  norm_num [updVoxel, denom, denAdditive, stdMin, stdMax, divide1, absR, mulExt]

/-- the restart theorem's hypotheses hold for the witness configuration with the option switched off -/
example : ({ restartWitness with enforceInitialPositivity := false } : Cfg).enforceInitialPositivity = false := rfl

/-- `DataOK` is satisfiable with zeros in it -/
example : DataOK [2, 0, 1] [1, 0, 3] := by
  intro p hp
  simp only [List.zip_cons_cons, List.zip_nil_right, List.mem_cons, List.not_mem_nil, or_false] at hp
  rcases hp with rfl | rfl | rfl <;> norm_num

/-! ## Monotone log-likelihood (single subset) -/

/-- "with a single subset the Poisson log-likelihood never decreases": the classical EM theorem over ℝ,
    `L(λ) = Σ_b y_b log(eff_b ((Pλ)_b + a_b)) − eff_b ((Pλ)_b + a_b)`, `EM(λ)_j = λ_j · Σ_b P_bj y_b/((Pλ)_b+a_b) / Σ_b P_bj eff_b`
    (0 where the sensitivity is 0): for `P, y, a ≥ 0`, efficiencies `> 0`, a strictly positive image and strictly positive
    estimated data (regular region of `divide_and_truncate`), `L(EM(λ)) ≥ L(λ)`.  (Jensen per bin, `x log x − x + 1 ≥ 0`
    per voxel; no further assumption — in particular voxels with zero sensitivity and bins without counts are allowed.)
    The theorem is for every system `(nb, P, y, a, eff)`: with `zero end planes of segment 0 := 1` it is the theorem for the
    system without the rows of the first and last sinogram of segment 0, which is the system the update uses
    (`C07_zero_end_planes_removes_rows`) and the one `compute_objective_function` evaluates (harness oracle `loglik-value`). -/
theorem C07_loglik_monotone_real {nb nv : ℕ} (P : Fin nb → Fin nv → ℝ) (y a eff : Fin nb → ℝ) (lam : Fin nv → ℝ)
    (hP : ∀ b j, 0 ≤ P b j) (hy : ∀ b, 0 ≤ y b) (ha : ∀ b, 0 ≤ a b) (he : ∀ b, 0 < eff b) (hl : ∀ j, 0 < lam j)
    (hq : ∀ b, 0 < Real.ybar P a lam b) :
    Real.logLik P y a eff lam ≤ Real.logLik P y a eff (Real.em P y a eff lam) :=
  Real.loglik_monotone' P y a eff lam hP hy ha he hl hq

/-- … and for the rational quantities of the model: the image `emStep` that `C07_em_formula_subIter` shows the
    sub-iteration to produce has a log-likelihood (evaluated in ℝ) not below that of the image before. -/
theorem C07_loglik_monotone {nb nv : ℕ} (P : Fin nb → Fin nv → ℚ) (y a eff : Fin nb → ℚ) (lam : Fin nv → ℚ)
    (hP : ∀ b j, 0 ≤ P b j) (hy : ∀ b, 0 ≤ y b) (ha : ∀ b, 0 ≤ a b) (he : ∀ b, 0 < eff b) (hl : ∀ j, 0 < lam j)
    (hq : ∀ b, 0 < fwd P lam b + a b) :
    Real.logLik (fun b j => (P b j : ℝ)) (fun b => (y b : ℝ)) (fun b => (a b : ℝ)) (fun b => (eff b : ℝ))
        (fun j => (lam j : ℝ)) ≤
      Real.logLik (fun b j => (P b j : ℝ)) (fun b => (y b : ℝ)) (fun b => (a b : ℝ)) (fun b => (eff b : ℝ))
        (fun j => ((emStep P y a eff univ lam j : ℚ) : ℝ)) :=
  loglik_monotone_rat P y a eff lam hP hy ha he hl hq

/-- non-vacuity: a 2-bin × 2-voxel system with counts, no additive term, satisfying every hypothesis -/
def exP2 : Fin 2 → Fin 2 → ℚ := ![![1, 2], ![0, 3]]

example : (∀ b j, 0 ≤ exP2 b j) ∧ (∀ b, (0 : ℚ) ≤ (![5, 0] : Fin 2 → ℚ) b) ∧ (∀ j, (0 : ℚ) < exLam j) ∧
    (∀ b, 0 < fwd exP2 exLam b + (fun _ => (0 : ℚ)) b) := by
  refine ⟨?_, ?_, ?_, ?_⟩
  · intro b j; fin_cases b <;> fin_cases j <;> norm_num [exP2]
  · intro b; fin_cases b <;> norm_num
  · intro j; fin_cases j <;> norm_num [exLam]
  · intro b; fin_cases b <;> norm_num [fwd, exP2, exLam, Fin.sum_univ_succ]

end StirVerif.C07
