/-
C07 — the EM monotonicity theorem: with all data in one subset, one EM update does not decrease the Poisson
log-likelihood.  Over ℝ (needs `log`), classical argument: Jensen for `log` per bin + `x log x - x + 1 ≥ 0` per voxel.
-/
import Mathlib.Analysis.Convex.Jensen
import Mathlib.Analysis.Convex.SpecificFunctions.Basic
import Mathlib.Analysis.SpecialFunctions.Log.Basic
import Mathlib.Algebra.BigOperators.Field
import Mathlib.Algebra.Order.BigOperators.Group.Finset
import Mathlib.Tactic.Ring
import Mathlib.Tactic.Linarith
import Mathlib.Tactic.FieldSimp
import Mathlib.Tactic.Positivity

namespace StirVerif.C07.Real
open Finset

variable {nb nv : ℕ}

/-- estimated data `(Pλ)_b + a_b` (STIR convention: the additive term sits inside the brackets) -/
noncomputable def ybar (P : Fin nb → Fin nv → ℝ) (a : Fin nb → ℝ) (lam : Fin nv → ℝ) (b : Fin nb) : ℝ :=
  ∑ j, P b j * lam j + a b

/-- sensitivity `Σ_b P_bj eff_b` -/
noncomputable def sens (P : Fin nb → Fin nv → ℝ) (eff : Fin nb → ℝ) (j : Fin nv) : ℝ := ∑ b, P b j * eff b

/-- `Σ_b P_bj y_b / ybar_b` -/
noncomputable def gps (P : Fin nb → Fin nv → ℝ) (y a : Fin nb → ℝ) (lam : Fin nv → ℝ) (j : Fin nv) : ℝ :=
  ∑ b, P b j * (y b / ybar P a lam b)

/-- relative update `g_j / s_j` (0 where the sensitivity is 0) -/
noncomputable def ratio (P : Fin nb → Fin nv → ℝ) (y a eff : Fin nb → ℝ) (lam : Fin nv → ℝ) (j : Fin nv) : ℝ :=
  if sens P eff j = 0 then 0 else gps P y a lam j / sens P eff j

/-- the EM update (all data in one subset) -/
noncomputable def em (P : Fin nb → Fin nv → ℝ) (y a eff : Fin nb → ℝ) (lam : Fin nv → ℝ) (j : Fin nv) : ℝ :=
  lam j * ratio P y a eff lam j

/-- Poisson log-likelihood (without the `log y!` constant), mean `eff_b · ybar_b` -/
noncomputable def logLik (P : Fin nb → Fin nv → ℝ) (y a eff : Fin nb → ℝ) (lam : Fin nv → ℝ) : ℝ :=
  ∑ b, (y b * Real.log (eff b * ybar P a lam b) - eff b * ybar P a lam b)

theorem xlogx_ge (x : ℝ) (hx : 0 ≤ x) : 0 ≤ x * Real.log x - x + 1 := by
  rcases eq_or_lt_of_le hx with h | h
  · subst h; simp
  · have := Real.one_sub_inv_le_log_of_pos h
    have h2 : x * (1 - x⁻¹) ≤ x * Real.log x := mul_le_mul_of_nonneg_left this hx
    have h3 : x * (1 - x⁻¹) = x - 1 := by field_simp
    linarith

/-- Jensen for one bin: `log(Σ_j w_j r_j + v) ≥ Σ_j w_j log r_j` for weights `w_j ≥ 0`, `v ≥ 0`, `Σ w + v = 1`,
    where `r_j > 0` is only needed where `w_j ≠ 0`. -/
theorem jensen_bin (w r : Fin nv → ℝ) (v : ℝ) (hw : ∀ j, 0 ≤ w j) (hv : 0 ≤ v) (hsum : v + ∑ j, w j = 1)
    (hr : ∀ j, w j ≠ 0 → 0 < r j) :
    ∑ j, w j * Real.log (r j) ≤ Real.log (∑ j, w j * r j + v) := by
  let p : Fin nv → ℝ := fun j => if 0 < r j then r j else 1
  have hp : ∀ j, p j ∈ Set.Ioi (0 : ℝ) := by
    intro j; simp only [p, Set.mem_Ioi]; split_ifs with h
    · exact h
    · exact one_pos
  have hwp : ∀ j, w j * p j = w j * r j := by
    intro j
    by_cases h : w j = 0
    · simp [h]
    · simp only [p, if_pos (hr j h)]
  have hwl : ∀ j, w j * Real.log (p j) = w j * Real.log (r j) := by
    intro j
    by_cases h : w j = 0
    · simp [h]
    · simp only [p, if_pos (hr j h)]
  have J := strictConcaveOn_log_Ioi.concaveOn.map_add_sum_le (t := univ) (w := w) (p := p) (v := v) (q := 1)
    (fun j _ => hw j) hsum (fun j _ => hp j) hv (by simp)
  simp only [smul_eq_mul, Real.log_one, mul_zero, zero_add, mul_one] at J
  calc ∑ j, w j * Real.log (r j) = ∑ j, w j * Real.log (p j) := by simp only [hwl]
    _ ≤ Real.log (v + ∑ j, w j * p j) := J
    _ = Real.log (∑ j, w j * r j + v) := by simp only [hwp]; rw [add_comm]

/-- **EM monotonicity**: `P, y, a ≥ 0`, efficiencies `> 0`, current image strictly positive, estimated data strictly
    positive before the update and (on bins with counts) after it: `L(EM(λ)) ≥ L(λ)`. -/
theorem loglik_monotone (P : Fin nb → Fin nv → ℝ) (y a eff : Fin nb → ℝ) (lam : Fin nv → ℝ)
    (hP : ∀ b j, 0 ≤ P b j) (hy : ∀ b, 0 ≤ y b) (ha : ∀ b, 0 ≤ a b) (he : ∀ b, 0 < eff b) (hl : ∀ j, 0 < lam j)
    (hq : ∀ b, 0 < ybar P a lam b)
    (hq' : ∀ b, 0 < y b → 0 < ybar P a (em P y a eff lam) b) :
    logLik P y a eff lam ≤ logLik P y a eff (em P y a eff lam) := by
  set r := ratio P y a eff lam with hr_def
  set q := ybar P a lam with hq_def
  set q' := ybar P a (em P y a eff lam) with hq'_def
  have hs0 : ∀ j, 0 ≤ sens P eff j := fun j => sum_nonneg fun b _ => mul_nonneg (hP b j) (le_of_lt (he b))
  have hg0 : ∀ j, 0 ≤ gps P y a lam j := fun j =>
    sum_nonneg fun b _ => mul_nonneg (hP b j) (div_nonneg (hy b) (le_of_lt (hq b)))
  have hr0 : ∀ j, 0 ≤ r j := by
    intro j; simp only [hr_def, ratio]; split_ifs
    · exact le_refl _
    · exact div_nonneg (hg0 j) (hs0 j)
  -- s_j r_j = g_j (also where s_j = 0, since then g_j = 0)
  have hsr : ∀ j, sens P eff j * r j = gps P y a lam j := by
    intro j
    simp only [hr_def, ratio]
    split_ifs with h
    · have hz : ∀ b ∈ univ, P b j * eff b = 0 :=
        (sum_eq_zero_iff_of_nonneg fun b _ => mul_nonneg (hP b j) (le_of_lt (he b))).mp h
      have : gps P y a lam j = 0 := by
        apply sum_eq_zero
        intro b hb
        rcases mul_eq_zero.mp (hz b hb) with h0 | h0
        · rw [h0, zero_mul]
        · exact absurd h0 (ne_of_gt (he b))
      rw [this, mul_zero]
    · field_simp
  -- weights
  let w : Fin nb → Fin nv → ℝ := fun b j => P b j * lam j / q b
  have hw0 : ∀ b j, 0 ≤ w b j := fun b j => div_nonneg (mul_nonneg (hP b j) (le_of_lt (hl j))) (le_of_lt (hq b))
  have hwsum : ∀ b, a b / q b + ∑ j, w b j = 1 := by
    intro b
    have : ∑ j, w b j = (∑ j, P b j * lam j) / q b := by simp only [w, sum_div]
    rw [this, ← add_div, add_comm]
    exact div_self (ne_of_gt (hq b))
  have hq'_eq : ∀ b, q' b / q b = ∑ j, w b j * r j + a b / q b := by
    intro b
    simp only [hq'_def, ybar, em, add_div, sum_div, w]
    congr 1
    apply sum_congr rfl
    intro j _
    ring
  -- per-bin inequality
  have hbin : ∀ b, ∑ j, y b * (w b j * Real.log (r j)) ≤
      y b * Real.log (eff b * q' b) - y b * Real.log (eff b * q b) := by
    intro b
    rcases eq_or_lt_of_le (hy b) with h | h
    · simp [← h]
    · have hq'b := hq' b h
      have hpos : ∀ j, w b j ≠ 0 → 0 < r j := by
        intro j hwj
        have hPpos : 0 < P b j := by
          rcases eq_or_lt_of_le (hP b j) with h0 | h0
          · exfalso; apply hwj; simp [w, ← h0]
          · exact h0
        have hspos : 0 < sens P eff j :=
          lt_of_lt_of_le (mul_pos hPpos (he b))
            (single_le_sum (f := fun b => P b j * eff b) (fun b _ => mul_nonneg (hP b j) (le_of_lt (he b))) (mem_univ b))
        have hgpos : 0 < gps P y a lam j :=
          lt_of_lt_of_le (mul_pos hPpos (div_pos h (hq b)))
            (single_le_sum (f := fun b => P b j * (y b / ybar P a lam b))
              (fun b _ => mul_nonneg (hP b j) (div_nonneg (hy b) (le_of_lt (hq b)))) (mem_univ b))
        simp only [hr_def, ratio, if_neg (ne_of_gt hspos)]
        exact div_pos hgpos hspos
      have J := jensen_bin (w b) r (a b / q b) (hw0 b) (div_nonneg (ha b) (le_of_lt (hq b))) (hwsum b) hpos
      rw [← hq'_eq b] at J
      have hlog : Real.log (eff b * q' b) - Real.log (eff b * q b) = Real.log (q' b / q b) := by
        rw [Real.log_mul (ne_of_gt (he b)) (ne_of_gt hq'b), Real.log_mul (ne_of_gt (he b)) (ne_of_gt (hq b)),
          Real.log_div (ne_of_gt hq'b) (ne_of_gt (hq b))]
        ring
      rw [← mul_sub, hlog, ← mul_sum]
      exact mul_le_mul_of_nonneg_left J (le_of_lt h)
  -- Σ_b y_b w_bj = λ_j g_j
  have hyw : ∀ j, ∑ b, y b * w b j = lam j * gps P y a lam j := by
    intro j
    simp only [gps, mul_sum, w]
    apply sum_congr rfl
    intro b _
    simp only [hq_def]
    ring
  -- linear part: Σ_b eff_b (q'_b - q_b) = Σ_j s_j λ_j (r_j - 1)
  have hlin : ∑ b, eff b * q' b - ∑ b, eff b * q b = ∑ j, sens P eff j * lam j * (r j - 1) := by
    rw [← sum_sub_distrib]
    have : ∀ b, eff b * q' b - eff b * q b = ∑ j, P b j * eff b * lam j * (r j - 1) := by
      intro b
      simp only [hq'_def, hq_def, ybar, em]
      rw [← mul_sub]
      have : (∑ j, P b j * (lam j * r j) + a b) - (∑ j, P b j * lam j + a b) = ∑ j, P b j * lam j * (r j - 1) := by
        rw [add_sub_add_right_eq_sub, ← sum_sub_distrib]
        apply sum_congr rfl; intro j _; ring
      rw [this, mul_sum]
      apply sum_congr rfl; intro j _; ring
    simp only [this]
    rw [sum_comm]
    apply sum_congr rfl
    intro j _
    simp only [sens, sum_mul]
  -- assemble
  have hmain : ∑ j, sens P eff j * lam j * (r j * Real.log (r j) - r j + 1) ≤
      logLik P y a eff (em P y a eff lam) - logLik P y a eff lam := by
    have e1 : logLik P y a eff (em P y a eff lam) - logLik P y a eff lam =
        ∑ b, (y b * Real.log (eff b * q' b) - y b * Real.log (eff b * q b)) - (∑ b, eff b * q' b - ∑ b, eff b * q b) := by
      simp only [logLik, ← hq_def, ← hq'_def, sum_sub_distrib]
      ring
    have e2 : ∑ b, ∑ j, y b * (w b j * Real.log (r j)) = ∑ j, sens P eff j * lam j * (r j * Real.log (r j)) := by
      rw [sum_comm]
      apply sum_congr rfl
      intro j _
      have : ∑ b, y b * (w b j * Real.log (r j)) = (∑ b, y b * w b j) * Real.log (r j) := by
        rw [sum_mul]; apply sum_congr rfl; intro b _; ring
      rw [this, hyw j, ← hsr j]
      ring
    rw [e1, hlin]
    have h3 : ∑ b, ∑ j, y b * (w b j * Real.log (r j)) ≤
        ∑ b, (y b * Real.log (eff b * q' b) - y b * Real.log (eff b * q b)) := sum_le_sum fun b _ => hbin b
    rw [e2] at h3
    have e4 : ∑ j, sens P eff j * lam j * (r j * Real.log (r j) - r j + 1) =
        ∑ j, sens P eff j * lam j * (r j * Real.log (r j)) - ∑ j, sens P eff j * lam j * (r j - 1) := by
      rw [← sum_sub_distrib]; apply sum_congr rfl; intro j _; ring
    rw [e4]
    linarith
  have hnonneg : 0 ≤ ∑ j, sens P eff j * lam j * (r j * Real.log (r j) - r j + 1) :=
    sum_nonneg fun j _ => mul_nonneg (mul_nonneg (hs0 j) (le_of_lt (hl j))) (xlogx_ge (r j) (hr0 j))
  linarith

/-- the second positivity hypothesis follows from the first: a bin with counts keeps a positive estimate -/
theorem ybar_em_pos (P : Fin nb → Fin nv → ℝ) (y a eff : Fin nb → ℝ) (lam : Fin nv → ℝ)
    (hP : ∀ b j, 0 ≤ P b j) (hy : ∀ b, 0 ≤ y b) (ha : ∀ b, 0 ≤ a b) (he : ∀ b, 0 < eff b) (hl : ∀ j, 0 < lam j)
    (hq : ∀ b, 0 < ybar P a lam b) (b : Fin nb) (hyb : 0 < y b) : 0 < ybar P a (em P y a eff lam) b := by
  have hs0 : ∀ j, 0 ≤ sens P eff j := fun j => sum_nonneg fun b _ => mul_nonneg (hP b j) (le_of_lt (he b))
  have hg0 : ∀ j, 0 ≤ gps P y a lam j := fun j =>
    sum_nonneg fun b _ => mul_nonneg (hP b j) (div_nonneg (hy b) (le_of_lt (hq b)))
  have hem0 : ∀ j, 0 ≤ em P y a eff lam j := by
    intro j; simp only [em, ratio]
    apply mul_nonneg (le_of_lt (hl j))
    split_ifs
    · exact le_refl _
    · exact div_nonneg (hg0 j) (hs0 j)
  have hsum0 : 0 ≤ ∑ j, P b j * em P y a eff lam j := sum_nonneg fun j _ => mul_nonneg (hP b j) (hem0 j)
  rcases eq_or_lt_of_le (ha b) with h0 | h0
  · -- no additive term in this bin: some voxel with P_bj λ_j > 0
    have hq_b := hq b
    simp only [ybar, ← h0, add_zero] at hq_b ⊢
    obtain ⟨j, _, hj⟩ : ∃ j ∈ univ, 0 < P b j * lam j := by
      by_contra hcon
      push Not at hcon
      have : ∑ j, P b j * lam j ≤ 0 := sum_nonpos hcon
      linarith
    have hPpos : 0 < P b j := by
      rcases eq_or_lt_of_le (hP b j) with h1 | h1
      · rw [← h1, zero_mul] at hj; exact absurd hj (lt_irrefl _)
      · exact h1
    have hspos : 0 < sens P eff j :=
      lt_of_lt_of_le (mul_pos hPpos (he b))
        (single_le_sum (f := fun b => P b j * eff b) (fun b _ => mul_nonneg (hP b j) (le_of_lt (he b))) (mem_univ b))
    have hgpos : 0 < gps P y a lam j :=
      lt_of_lt_of_le (mul_pos hPpos (div_pos hyb (hq b)))
        (single_le_sum (f := fun b => P b j * (y b / ybar P a lam b))
          (fun b _ => mul_nonneg (hP b j) (div_nonneg (hy b) (le_of_lt (hq b)))) (mem_univ b))
    have hempos : 0 < em P y a eff lam j := by
      simp only [em, ratio, if_neg (ne_of_gt hspos)]
      exact mul_pos (hl j) (div_pos hgpos hspos)
    exact lt_of_lt_of_le (mul_pos hPpos hempos)
      (single_le_sum (f := fun j => P b j * em P y a eff lam j) (fun j _ => mul_nonneg (hP b j) (hem0 j)) (mem_univ j))
  · simp only [ybar]; linarith

/-- **EM monotonicity**, hypotheses on the input only -/
theorem loglik_monotone' (P : Fin nb → Fin nv → ℝ) (y a eff : Fin nb → ℝ) (lam : Fin nv → ℝ)
    (hP : ∀ b j, 0 ≤ P b j) (hy : ∀ b, 0 ≤ y b) (ha : ∀ b, 0 ≤ a b) (he : ∀ b, 0 < eff b) (hl : ∀ j, 0 < lam j)
    (hq : ∀ b, 0 < ybar P a lam b) :
    logLik P y a eff lam ≤ logLik P y a eff (em P y a eff lam) :=
  loglik_monotone P y a eff lam hP hy ha he hl hq (ybar_em_pos P y a eff lam hP hy ha he hl hq)

end StirVerif.C07.Real
