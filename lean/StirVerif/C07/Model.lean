/-
C07 — "OSMAPOSL sub-iterations follow the EM update and are restartable".

Executable model (core Lean only) of

* `stir::divide`                                       src/include/stir/numerics/divide.inl:27-47
* `threshold_upper_lower`, `threshold_lower`,
  `threshold_min_to_small_positive_value`               src/include/stir/thresholding.h
  (+ `min_positive_element`, src/include/stir/min_positive_element.h:45-60)
* `OSMAPOSLReconstruction::set_up` (the part that touches the image, l.291-292),
  `::update_estimate` (l.373-512), `::apply_multiplicative_update` (l.356-369)
                                                        src/iterative/OSMAPOSL/OSMAPOSLReconstruction.cxx
* `IterativeReconstruction::set_up` range checks (l.440-487), `::get_subset_num` (fixed order, l.637-638),
  `::reconstruct(target)` loop (l.414-419),
  `::end_of_iteration_processing` (inter-iteration filter, l.545-550)
                                                        src/recon_buildblock/IterativeReconstruction.cxx

Numbers are `Rat` (every float is a dyadic rational; float *rounding* is not modelled, the correspondence check
compares with a derived tolerance).  Where float arithmetic leaves the rationals (non-zero / 0) the model uses `Ext`.

What the objective function, the prior and user filters deliver is DATA for this model (fields `gps`, `sens`,
`priorGrad`, `interUpdateFilter`, `interIterationFilter` of `Cfg`): their correctness is the business of properties C05
and C09; the harness takes them from the real objects.  Images are the list of voxel values in `begin_all()` order.
-/
namespace StirVerif.C07

abbrev Img := List Rat

/-- value of a float expression: a rational, or what IEEE arithmetic gives for `x/0` and its consequences -/
inductive Ext where
  | fin (q : Rat)
  | pinf
  | ninf
  | nan
  deriving Repr, DecidableEq, Inhabited

/-- `std::fabs` -/
def absR (x : Rat) : Rat := if x < 0 then -x else x

/-- `std::min(a,b)` = `(b < a) ? b : a` -/
def stdMin (a b : Rat) : Rat := if b < a then b else a

/-- `std::max(a,b)` = `(a < b) ? b : a` -/
def stdMax (a b : Rat) : Rat := if a < b then b else a

/-- `*std::max_element(begin, end)` (first largest element; the range is never empty for an image: `0` stands for
    the undefined behaviour of dereferencing `end`) -/
def maxElem : Img → Rat
  | [] => 0
  | x :: xs => xs.foldl (fun m y => if m < y then y else m) x

/-- `small_value` in `stir::divide` (divide.inl:33-34):
    `small_value = *max_element(num) * small_num; small_value = (small_value > 0) ? small_value : 0` -/
def smallValue (num : Img) (smallNum : Rat) : Rat :=
  let v := maxElem num * smallNum
  if v > 0 then v else 0

/-- loop body of `stir::divide` (divide.inl:40-43):
    `if (fabs(den) <= small_value && fabs(num) <= small_value) num = 0; else num /= den;`
    with IEEE semantics for a zero denominator. -/
def divide1 (small num den : Rat) : Ext :=
  if absR den ≤ small ∧ absR num ≤ small then .fin 0
  else if den = 0 then (if 0 < num then .pinf else if num < 0 then .ninf else .nan)
  else .fin (num / den)

/-- `MAP_model` together with `prior_is_zero()` (OSMAPOSLReconstruction.cxx:402, 419, 436) -/
inductive MapModel where
  | none            -- `objective_function_sptr->prior_is_zero()`
  | additive
  | multiplicative
  deriving Repr, DecidableEq, Inhabited

/-- additive MAP denominator (OSMAPOSLReconstruction.cxx:427-429):
    `d = d / num_subsets + s;  d = std::max(std::min(d, s * 10), s / 10);` -/
def denAdditive (numSubsets : Nat) (pg s : Rat) : Rat :=
  let d := pg / (numSubsets : Rat) + s
  stdMax (stdMin d (s * 10)) (s / 10)

/-- multiplicative MAP denominator (OSMAPOSLReconstruction.cxx:445-449):
    `d += 1;  d = std::max(std::min(d, 10.F), 1 / 10.F);  d *= s;` -/
def denMultiplicative (pg s : Rat) : Rat :=
  let d := pg + 1
  stdMax (stdMin d 10) (1 / 10) * s

/-- the denominator the gradient-plus-sensitivity is divided by (l.404-407 resp. l.460-463) -/
def denom (m : MapModel) (numSubsets : Nat) (pg s : Rat) : Rat :=
  match m with
  | .none => s
  | .additive => denAdditive numSubsets pg s
  | .multiplicative => denMultiplicative pg s

/-- the `small_num` passed to `stir::divide`: `0.F` without prior (l.407), `small_num = 0.000001F` with (l.463) -/
def divideSmallNum (m : MapModel) : Rat :=
  match m with
  | .none => 0
  | _ => 1 / 1000000

/-- one element of `threshold_upper_lower(begin, end, new_min, new_max)` (thresholding.h):
    `if (*iter > new_max) *iter = new_max; else if (new_min > *iter) *iter = new_min;` -/
def thresholdUpperLower (newMin newMax : Rat) : Ext → Ext
  | .fin q => if newMax < q then .fin newMax else if q < newMin then .fin newMin else .fin q
  | .pinf => .fin newMax
  | .ninf => .fin newMin
  | .nan => .nan

/-- `*current_image_estimate_iter *= *multiplicative_update_image_iter` (l.365) -/
def mulExt (l : Rat) : Ext → Ext
  | .fin q => .fin (l * q)
  | .pinf => if 0 < l then .pinf else if l < 0 then .ninf else .nan
  | .ninf => if 0 < l then .ninf else if l < 0 then .pinf else .nan
  | .nan => .nan

/-- the whole update of one voxel: divide by the (MAP) denominator, limit the relative change when
    `subiteration_num != 1` (l.490-503), multiply the (possibly filtered) current value (l.506). -/
def updVoxel (m : MapModel) (numSubsets : Nat) (small : Rat) (limit : Bool) (minRel maxRel : Rat)
    (lam g s pg : Rat) : Ext :=
  let u := divide1 small g (denom m numSubsets pg s)
  let u := if limit then thresholdUpperLower minRel maxRel u else u
  mulExt lam u

/-- `min_positive_element` (min_positive_element.h:45-60): value of the smallest strictly positive element -/
def minPositive : Img → Option Rat
  | [] => none
  | x :: xs =>
    match minPositive xs with
    | none => if 0 < x then some x else none
    | some m => if 0 < x ∧ x ≤ m then some x else some m

/-- `threshold_min_to_small_positive_value(begin, end, small_number)` (thresholding.h):
    `threshold_lower(begin, end, *min_positive_element * small_number)`, or fill with `small_number` if there is
    no positive element. -/
def thresholdMinToSmallPositive (img : Img) (small : Rat) : Img :=
  match minPositive img with
  | some m => let t := m * small; img.map fun x => if x < t then t else x
  | none => img.map fun _ => small

/-- `small_num = 0.000001F` of `set_up` / `update_estimate` / ThresholdMinToSmallPositiveValueDataProcessor -/
def smallNum : Rat := 1 / 1000000

/-- `IterativeReconstruction::get_subset_num`, fixed subset order (IterativeReconstruction.cxx:638):
    `(subiteration_num + start_subset_num - 1) % num_subsets` (sub-iteration numbers start at 1) -/
def subsetNum (k startSubset numSubsets : Nat) : Nat := (k + startSubset - 1) % numSubsets

/-- configuration of a reconstruction and the data its collaborators deliver -/
structure Cfg where
  numSubsets : Nat
  startSubset : Nat
  map : MapModel
  minRel : Rat                       -- `static_cast<float>(minimum_relative_change)`, default 0
  maxRel : Rat                       -- `static_cast<float>(maximum_relative_change)`, default FLT_MAX
  interUpdateInterval : Nat          -- 0 = off (negative values are refused by `set_up`)
  interIterationInterval : Nat
  enforceInitialPositivity : Bool    -- default true
  /-- `compute_sub_gradient_without_penalty_plus_sensitivity(·, image, subset)` -/
  gps : Nat → Img → Img
  /-- `get_subset_sensitivity(subset)` -/
  sens : Nat → Img
  /-- `get_prior_ptr()->compute_gradient(·, image)` -/
  priorGrad : Img → Img
  /-- user filters (before the positivity thresholding that `set_up` chains behind them, l.300-330) -/
  interUpdateFilter : Option (Img → Img)
  interIterationFilter : Option (Img → Img)

/-- a (user) filter chained with ThresholdMinToSmallPositiveValueDataProcessor -/
def chained (f : Img → Img) (img : Img) : Img := thresholdMinToSmallPositive (f img) smallNum

/-- l.469-474: `if (interval > 0 && filter && !(subiteration_num % interval)) filter->apply(current_image_estimate)` -/
def interUpdateFiltered (c : Cfg) (k : Nat) (img : Img) : Img :=
  match c.interUpdateFilter with
  | some f => if c.interUpdateInterval > 0 ∧ k % c.interUpdateInterval = 0 then chained f img else img
  | none => img

def zip4With {α : Type} (f : Rat → Rat → Rat → Rat → α) : Img → Img → Img → Img → List α
  | a :: as, b :: bs, c :: cs, d :: ds => f a b c d :: zip4With f as bs cs ds
  | _, _, _, _ => []

/-- `OSMAPOSLReconstruction::update_estimate` at `subiteration_num = k` (l.373-512).  The update image is computed from
    the *unfiltered* estimate (l.391), the inter-update filter is applied to the estimate afterwards (l.473). -/
def updateEstimate (c : Cfg) (k : Nat) (img : Img) : List Ext :=
  let S := subsetNum k c.startSubset c.numSubsets
  let g := c.gps S img
  let s := c.sens S
  let pg := match c.map with
    | .none => g.map fun _ => 0
    | _ => c.priorGrad img
  let small := smallValue g (divideSmallNum c.map)
  let img1 := interUpdateFiltered c k img
  zip4With (updVoxel c.map c.numSubsets small (k != 1) c.minRel c.maxRel) img1 g s pg

/-- all voxels finite? (otherwise the float image is no longer a rational image and the model stops) -/
def allFin : List Ext → Option Img
  | [] => some []
  | .fin q :: r => (allFin r).map (q :: ·)
  | _ :: _ => none

/-- inter-iteration filtering of `IterativeReconstruction::end_of_iteration_processing` (l.545-550) -/
def endOfIteration (c : Cfg) (k : Nat) (img : Img) : Img :=
  match c.interIterationFilter with
  | some f => if c.interIterationInterval > 0 ∧ k % c.interIterationInterval = 0 then chained f img else img
  | none => img

/-- one pass of the loop body of `IterativeReconstruction::reconstruct(target)` (l.417-418) -/
def subIter (c : Cfg) (k : Nat) (img : Img) : Option Img :=
  (allFin (updateEstimate c k img)).map (endOfIteration c k)

/-- the images after sub-iterations `k, k+1, …` (`n` of them), i.e. what is saved with `save_interval = 1` -/
def runFrom (c : Cfg) : Nat → Nat → Img → List Img
  | _, 0, _ => []
  | k, n + 1, img =>
    match subIter c k img with
    | none => []
    | some img' => img' :: runFrom c (k + 1) n img'

/-- `reconstruct(target)`: `for (k = start_subiteration_num; k <= num_subiterations; ++k)` -/
def reconstruct (c : Cfg) (start last : Nat) (img : Img) : List Img := runFrom c start (last + 1 - start) img

/-- what `OSMAPOSLReconstruction::set_up` does to the start image (l.291-292) -/
def setUp (c : Cfg) (img : Img) : Img :=
  if c.enforceInitialPositivity then thresholdMinToSmallPositive img smallNum else img

/-- the range checks of `IterativeReconstruction::set_up` (IterativeReconstruction.cxx:440-487) and
    `OSMAPOSLReconstruction::set_up` (OSMAPOSLReconstruction.cxx:294-298): `true` = accepted.  (Whether the subsets are
    balanced is a separate refusal, property C06.)  `set_start_subset_num` makes the same check on its argument. -/
def setUpRangesOk (numSubsets startSubset numSubiterations startSubiteration saveInterval
    interIterationInterval interUpdateInterval : Int) : Bool :=
  decide (1 ≤ numSubsets) && decide (1 ≤ numSubiterations) &&
  decide (0 ≤ startSubset) && decide (startSubset < numSubsets) &&
  decide (1 ≤ saveInterval) && decide (saveInterval ≤ numSubiterations) &&
  decide (0 ≤ interIterationInterval) && decide (1 ≤ startSubiteration) && decide (0 ≤ interUpdateInterval)

end StirVerif.C07
