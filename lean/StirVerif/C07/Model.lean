/-
C07 — "OSMAPOSL sub-iterations follow the EM update and are restartable".

Executable model (core Lean only) of

* `stir::divide`                                       src/include/stir/numerics/divide.inl:27-47
* `threshold_upper_lower`, `threshold_lower`,
  `threshold_min_to_small_positive_value`               src/include/stir/thresholding.h
  (+ `min_positive_element`, src/include/stir/min_positive_element.h:45-60)
* `OSMAPOSLReconstruction::set_up` (the part that touches the image, l.291-292),
  `::update_estimate` (l.373-512), `::apply_multiplicative_update` (l.356-369)
                                                        src/iterative/OSMAPOSL/OSMAPOSLReconstruction.cxx
* `IterativeReconstruction::set_up` range checks (l.440-487), `::get_subset_num` (fixed order, l.637-638),
  `::reconstruct(target)` loop (l.414-419), `::reconstruct()` (l.384-398), `::get_initial_data_ptr` (l.351-378),
  `::end_of_iteration_processing` (inter-iteration filter l.545-550, post-filter l.556-563)
                                                        src/recon_buildblock/IterativeReconstruction.cxx

* `get_viewgrams` / `zero_end_sinograms` (l.148-228: the option `zero end planes of segment 0`), the choice of the bins of a
  subset in `distributable_computation` (l.398-399)        src/recon_buildblock/distributable.cxx
  and what `RPC_process_related_viewgrams_gradient` / `…_sensitivity_computation` back project
  (PoissonLogLikelihoodWithLinearModelForMeanAndProjData.cxx:1447-1563), over an explicit system matrix: `emExplicit`

* the filter slots as objects (end of this file): `ChainedDataProcessor::virtual_apply` (src/buildblock/ChainedDataProcessor.cxx:47-54),
  `ThresholdMinToSmallPositiveValueDataProcessor::virtual_apply` (….cxx:38-52), the wrapping of the inter-update /
  inter-iteration slot by EVERY call of `OSMAPOSLReconstruction::set_up` (l.300-305, 316-322): `Filt`, `setUpSlot`, `Slots`,
  `updateEstimateS`, `endOfIterationS`
* `divide_and_truncate(Viewgram&, const Viewgram&, …)`   src/buildblock/recon_array_functions.cxx:172-266: `divideAndTruncate`

Numbers are `Rat` (every float is a dyadic rational; float *rounding* is not modelled, the correspondence check
compares with a derived tolerance).  Where float arithmetic leaves the rationals (non-zero / 0) the model uses `Ext`.

What the objective function, the prior and user filters deliver is DATA for this model (fields `gps`, `sens`,
`priorGrad`, `interUpdateFilter`, `interIterationFilter` of `Cfg`): their correctness is the business of properties C05
and C09; the harness takes them from the real objects — except in `emExplicit` (end of this file), where the model forms
numerator and sensitivity itself from an explicit system matrix (the matrix ELEMENTS are then the data: C04).
Images are the list of voxel values in `begin_all()` order.
-/
namespace StirVerif.C07

abbrev Img := List Rat

/-- value of a float expression: a rational, or what IEEE arithmetic gives for `x/0` and its consequences -/
inductive Ext where
  | fin (q : Rat)
  | pinf
  | ninf
  | nan
  deriving Repr, DecidableEq, Inhabited

/-- `std::fabs` -/
def absR (x : Rat) : Rat := if x < 0 then -x else x

/-- `std::min(a,b)` = `(b < a) ? b : a` -/
def stdMin (a b : Rat) : Rat := if b < a then b else a

/-- `std::max(a,b)` = `(a < b) ? b : a` -/
def stdMax (a b : Rat) : Rat := if a < b then b else a

/-- `*std::max_element(begin, end)` (first largest element; the range is never empty for an image: `0` stands for
    the undefined behaviour of dereferencing `end`) -/
def maxElem : Img → Rat
  | [] => 0
  | x :: xs => xs.foldl (fun m y => if m < y then y else m) x

/-- `small_value` in `stir::divide` (divide.inl:33-34):
    `small_value = *max_element(num) * small_num; small_value = (small_value > 0) ? small_value : 0` -/
def smallValue (num : Img) (smallNum : Rat) : Rat :=
  let v := maxElem num * smallNum
  if v > 0 then v else 0

/-- loop body of `stir::divide` (divide.inl:40-43):
    `if (fabs(den) <= small_value && fabs(num) <= small_value) num = 0; else num /= den;`
    with IEEE semantics for a zero denominator. -/
def divide1 (small num den : Rat) : Ext :=
  if absR den ≤ small ∧ absR num ≤ small then .fin 0
  else if den = 0 then (if 0 < num then .pinf else if num < 0 then .ninf else .nan)
  else .fin (num / den)

/-- `MAP_model` together with `prior_is_zero()` (OSMAPOSLReconstruction.cxx:402, 419, 436) -/
inductive MapModel where
  | none            -- `objective_function_sptr->prior_is_zero()`
  | additive
  | multiplicative
  deriving Repr, DecidableEq, Inhabited

/-- additive MAP denominator (OSMAPOSLReconstruction.cxx:427-429):
    `d = d / num_subsets + s;  d = std::max(std::min(d, s * 10), s / 10);` -/
def denAdditive (numSubsets : Nat) (pg s : Rat) : Rat :=
  let d := pg / (numSubsets : Rat) + s
  stdMax (stdMin d (s * 10)) (s / 10)

/-- multiplicative MAP denominator (OSMAPOSLReconstruction.cxx:445-449):
    `d += 1;  d = std::max(std::min(d, 10.F), 1 / 10.F);  d *= s;` -/
def denMultiplicative (pg s : Rat) : Rat :=
  let d := pg + 1
  stdMax (stdMin d 10) (1 / 10) * s

/-- the denominator the gradient-plus-sensitivity is divided by (l.404-407 resp. l.460-463) -/
def denom (m : MapModel) (numSubsets : Nat) (pg s : Rat) : Rat :=
  match m with
  | .none => s
  | .additive => denAdditive numSubsets pg s
  | .multiplicative => denMultiplicative pg s

/-- the `small_num` passed to `stir::divide`: `0.F` without prior (l.407), `small_num = 0.000001F` with (l.463) -/
def divideSmallNum (m : MapModel) : Rat :=
  match m with
  | .none => 0
  | _ => 1 / 1000000

/-- one element of `threshold_upper_lower(begin, end, new_min, new_max)` (thresholding.h):
    `if (*iter > new_max) *iter = new_max; else if (new_min > *iter) *iter = new_min;` -/
def thresholdUpperLower (newMin newMax : Rat) : Ext → Ext
  | .fin q => if newMax < q then .fin newMax else if q < newMin then .fin newMin else .fin q
  | .pinf => .fin newMax
  | .ninf => .fin newMin
  | .nan => .nan

/-- `*current_image_estimate_iter *= *multiplicative_update_image_iter` (l.365) -/
def mulExt (l : Rat) : Ext → Ext
  | .fin q => .fin (l * q)
  | .pinf => if 0 < l then .pinf else if l < 0 then .ninf else .nan
  | .ninf => if 0 < l then .ninf else if l < 0 then .pinf else .nan
  | .nan => .nan

/-- the whole update of one voxel: divide by the (MAP) denominator, limit the relative change when
    `subiteration_num != 1` (l.490-503), multiply the (possibly filtered) current value (l.506). -/
def updVoxel (m : MapModel) (numSubsets : Nat) (small : Rat) (limit : Bool) (minRel maxRel : Rat)
    (lam g s pg : Rat) : Ext :=
  let u := divide1 small g (denom m numSubsets pg s)
  let u := if limit then thresholdUpperLower minRel maxRel u else u
  mulExt lam u

/-- `min_positive_element` (min_positive_element.h:45-60): value of the smallest strictly positive element -/
def minPositive : Img → Option Rat
  | [] => none
  | x :: xs =>
    match minPositive xs with
    | none => if 0 < x then some x else none
    | some m => if 0 < x ∧ x ≤ m then some x else some m

/-- `threshold_min_to_small_positive_value(begin, end, small_number)` (thresholding.h):
    `threshold_lower(begin, end, *min_positive_element * small_number)`, or fill with `small_number` if there is
    no positive element. -/
def thresholdMinToSmallPositive (img : Img) (small : Rat) : Img :=
  match minPositive img with
  | some m => let t := m * small; img.map fun x => if x < t then t else x
  | none => img.map fun _ => small

/-- `small_num = 0.000001F` of `set_up` / `update_estimate` / ThresholdMinToSmallPositiveValueDataProcessor -/
def smallNum : Rat := 1 / 1000000

/-- `IterativeReconstruction::get_subset_num`, fixed subset order (IterativeReconstruction.cxx:638):
    `(subiteration_num + start_subset_num - 1) % num_subsets` (sub-iteration numbers start at 1) -/
def subsetNum (k startSubset numSubsets : Nat) : Nat := (k + startSubset - 1) % numSubsets

/-- configuration of a reconstruction and the data its collaborators deliver -/
structure Cfg where
  numSubsets : Nat
  startSubset : Nat
  map : MapModel
  minRel : Rat                       -- `static_cast<float>(minimum_relative_change)`, default 0
  maxRel : Rat                       -- `static_cast<float>(maximum_relative_change)`, default FLT_MAX
  interUpdateInterval : Nat          -- 0 = off (negative values are refused by `set_up`)
  interIterationInterval : Nat
  enforceInitialPositivity : Bool    -- default true
  /-- `compute_sub_gradient_without_penalty_plus_sensitivity(·, image, subset)` -/
  gps : Nat → Img → Img
  /-- `get_subset_sensitivity(subset)` -/
  sens : Nat → Img
  /-- `get_prior_ptr()->compute_gradient(·, image)` -/
  priorGrad : Img → Img
  /-- user filters (before the positivity thresholding that `set_up` chains behind them, l.300-330) -/
  interUpdateFilter : Option (Img → Img)
  interIterationFilter : Option (Img → Img)

/-- a (user) filter chained with ThresholdMinToSmallPositiveValueDataProcessor -/
def chained (f : Img → Img) (img : Img) : Img := thresholdMinToSmallPositive (f img) smallNum

/-- l.469-474: `if (interval > 0 && filter && !(subiteration_num % interval)) filter->apply(current_image_estimate)` -/
def interUpdateFiltered (c : Cfg) (k : Nat) (img : Img) : Img :=
  match c.interUpdateFilter with
  | some f => if c.interUpdateInterval > 0 ∧ k % c.interUpdateInterval = 0 then chained f img else img
  | none => img

def zip4With {α : Type} (f : Rat → Rat → Rat → Rat → α) : Img → Img → Img → Img → List α
  | a :: as, b :: bs, c :: cs, d :: ds => f a b c d :: zip4With f as bs cs ds
  | _, _, _, _ => []

/-- `OSMAPOSLReconstruction::update_estimate` at `subiteration_num = k` (l.373-512).  The update image is computed from
    the *unfiltered* estimate (l.391), the inter-update filter is applied to the estimate afterwards (l.473). -/
def updateEstimate (c : Cfg) (k : Nat) (img : Img) : List Ext :=
  let S := subsetNum k c.startSubset c.numSubsets
  let g := c.gps S img
  let s := c.sens S
  let pg := match c.map with
    | .none => g.map fun _ => 0
    | _ => c.priorGrad img
  let small := smallValue g (divideSmallNum c.map)
  let img1 := interUpdateFiltered c k img
  zip4With (updVoxel c.map c.numSubsets small (k != 1) c.minRel c.maxRel) img1 g s pg

/-- all voxels finite? (otherwise the float image is no longer a rational image and the model stops) -/
def allFin : List Ext → Option Img
  | [] => some []
  | .fin q :: r => (allFin r).map (q :: ·)
  | _ :: _ => none

/-- inter-iteration filtering of `IterativeReconstruction::end_of_iteration_processing` (l.545-550) -/
def endOfIteration (c : Cfg) (k : Nat) (img : Img) : Img :=
  match c.interIterationFilter with
  | some f => if c.interIterationInterval > 0 ∧ k % c.interIterationInterval = 0 then chained f img else img
  | none => img

/-- one pass of the loop body of `IterativeReconstruction::reconstruct(target)` (l.417-418) -/
def subIter (c : Cfg) (k : Nat) (img : Img) : Option Img :=
  (allFin (updateEstimate c k img)).map (endOfIteration c k)

/-- the images after sub-iterations `k, k+1, …` (`n` of them), i.e. what is saved with `save_interval = 1` -/
def runFrom (c : Cfg) : Nat → Nat → Img → List Img
  | _, 0, _ => []
  | k, n + 1, img =>
    match subIter c k img with
    | none => []
    | some img' => img' :: runFrom c (k + 1) n img'

/-- `reconstruct(target)`: `for (k = start_subiteration_num; k <= num_subiterations; ++k)` -/
def reconstruct (c : Cfg) (start last : Nat) (img : Img) : List Img := runFrom c start (last + 1 - start) img

/-- what `OSMAPOSLReconstruction::set_up` does to the start image (l.291-292) -/
def setUp (c : Cfg) (img : Img) : Img :=
  if c.enforceInitialPositivity then thresholdMinToSmallPositive img smallNum else img

/-! ### the multiplicative update image (`write update image`), the post-filter, the no-argument `reconstruct()` -/

def zip3With {α : Type} (f : Rat → Rat → Rat → α) : Img → Img → Img → List α
  | a :: as, b :: bs, c :: cs => f a b c :: zip3With f as bs cs
  | _, _, _ => []

/-- one voxel of `*multiplicative_update_image_ptr` after the division (OSMAPOSLReconstruction.cxx:404-463), i.e. of the
    image that `write_update_image` writes (l.478-488), before the relative-change limits of l.490-503 -/
def updImgVoxel (m : MapModel) (numSubsets : Nat) (small g s pg : Rat) : Ext :=
  divide1 small g (denom m numSubsets pg s)

/-- the image written as `<prefix>_update_<k>` when `write_update_image` is set (l.478-488).  It is computed from the
    *unfiltered* estimate and does not depend on the inter-update filter. -/
def updateImage (c : Cfg) (k : Nat) (img : Img) : List Ext :=
  let S := subsetNum k c.startSubset c.numSubsets
  let g := c.gps S img
  let s := c.sens S
  let pg := match c.map with
    | .none => g.map fun _ => 0
    | _ => c.priorGrad img
  zip3With (updImgVoxel c.map c.numSubsets (smallValue g (divideSmallNum c.map))) g s pg

/-- l.490-503: `if (subiteration_num != 1) threshold_upper_lower(update, new_min, new_max)` -/
def limitUpdate (c : Cfg) (k : Nat) (u : Ext) : Ext :=
  if k != 1 then thresholdUpperLower c.minRel c.maxRel u else u

/-- `IterativeReconstruction::end_of_iteration_processing` with a post-filter (`Reconstruction::set_post_processor_sptr`,
    key `post-filter type`), IterativeReconstruction.cxx:545-563: inter-iteration filter, then
    `if (subiteration_num == num_subiterations && post_filter_sptr) post_filter_sptr->apply(current_estimate)`; the result
    is what is saved (l.568-572) and what stays in memory.  `last` is `num_subiterations`.  Unlike the inter-update /
    inter-iteration filters the post-filter is NOT chained with a positivity threshold. -/
def endOfIterationPost (c : Cfg) (post : Option (Img → Img)) (last k : Nat) (img : Img) : Img :=
  let img1 := endOfIteration c k img
  match post with
  | some f => if k = last then f img1 else img1
  | none => img1

/-- loop body of `reconstruct(target)` with a post-filter set -/
def subIterPost (c : Cfg) (post : Option (Img → Img)) (last k : Nat) (img : Img) : Option Img :=
  (allFin (updateEstimate c k img)).map (endOfIterationPost c post last k)

def runFromPost (c : Cfg) (post : Option (Img → Img)) (last : Nat) : Nat → Nat → Img → List Img
  | _, 0, _ => []
  | k, n + 1, img =>
    match subIterPost c post last k img with
    | none => []
    | some img' => img' :: runFromPost c post last (k + 1) n img'

/-- `reconstruct(target)` with a post-filter: the images saved with `save_interval = 1` -/
def reconstructPost (c : Cfg) (post : Option (Img → Img)) (start last : Nat) (img : Img) : List Img :=
  runFromPost c post last start (last + 1 - start) img

/-- the value of the key `initial estimate` (`initial_data_filename`, default "1") -/
inductive InitialEstimate where
  | zeros                -- "0"
  | ones                 -- "1"
  | file (img : Img)     -- any other value: the name of an image file (its voxel values)

/-- `IterativeReconstruction::get_initial_data_ptr` (IterativeReconstruction.cxx:351-378); `nvox` is the size of
    `objective_function_sptr->construct_target_ptr()` -/
def initialData (nvox : Nat) : InitialEstimate → Img
  | .zeros => List.replicate nvox 0
  | .ones => List.replicate nvox 1
  | .file img => img

/-- the no-argument `IterativeReconstruction::reconstruct()` (l.384-398), what a parameter file drives:
    `target = get_initial_data_ptr(); set_up(target); reconstruct(target)` — also for `start at subiteration number > 1` -/
def reconstructNoArg (c : Cfg) (post : Option (Img → Img)) (nvox : Nat) (init : InitialEstimate) (start last : Nat) :
    List Img :=
  reconstructPost c post start last (setUp c (initialData nvox init))

/-- the range checks of `IterativeReconstruction::set_up` (IterativeReconstruction.cxx:440-487) and
    `OSMAPOSLReconstruction::set_up` (OSMAPOSLReconstruction.cxx:294-298): `true` = accepted.  (Whether the subsets are
    balanced is a separate refusal: `setUpAcceptsSubsets` below.)  `set_start_subset_num` makes the same check on its argument. -/
def setUpRangesOk (numSubsets startSubset numSubiterations startSubiteration saveInterval
    interIterationInterval interUpdateInterval : Int) : Bool :=
  decide (1 ≤ numSubsets) && decide (1 ≤ numSubiterations) &&
  decide (0 ≤ startSubset) && decide (startSubset < numSubsets) &&
  decide (1 ≤ saveInterval) && decide (saveInterval ≤ numSubiterations) &&
  decide (0 ≤ interIterationInterval) && decide (1 ≤ startSubiteration) && decide (0 ≤ interUpdateInterval)

/-! ### the refusal of unbalanced subsets by `set_up`

`OSMAPOSLReconstruction::set_up` (OSMAPOSLReconstruction.cxx:281-289) fails unless
`objective_function().subsets_are_approximately_balanced()`; for projection data this is
`PoissonLogLikelihoodWithLinearModelForMeanAndProjData::actual_subsets_are_approximately_balanced`
(PoissonLogLikelihoodWithLinearModelForMeanAndProjData.cxx:494-533), which counts, per subset, the view/segment pairs
related by the symmetries of the back projector to the basic pairs of the subset
(`DataSymmetriesForBins_PET_CartesianGrid`, .cxx:236-365 and .inl:398, :677).  The same transcription as in the model of
property C06 (whose theorems are about the partition); here it decides `set_up` for every geometry of the harness
(span, view mashing, time-of-flight). -/

structure Sym where
  V : Int            -- num_views (after view mashing)
  d90 : Bool         -- do_symmetry_90degrees_min_phi (effective)
  d180 : Bool        -- do_symmetry_180degrees_min_phi (effective)
  swapSeg : Bool     -- do_symmetry_swap_segment (effective)

/-- requested flags → effective flags (constructor, .cxx:236-365; square voxels, centred image):
    `d180 := d90 || d180`; `num_views % 4 != 0` switches the 90-degree symmetry off, `num_views % 2 != 0` the 180-degree one;
    `phiOffset` (`|get_phi(Bin(0,0,0,0))| > 1e-4`: scanner tilt, or the offset `ProjDataInfoCylindrical` adds for view
    mashing, ProjDataInfoCylindrical.cxx:69-91) switches both off; for TOF data all of them are switched off -/
def Sym.effective (V : Int) (d90v d180v swap tof phiOffset : Bool) : Sym :=
  let d180 := d90v || d180v
  let d90 := if V.tmod 4 != 0 then false else d90v
  let d180 := if V.tmod 2 != 0 then false else d180
  let d90 := if phiOffset then false else d90
  let d180 := if phiOffset then false else d180
  if tof then { V := V, d90 := false, d180 := false, swapSeg := false }
  else { V := V, d90 := d90, d180 := d180, swapSeg := swap }

/-- `find_basic_view_segment_numbers` (.inl:398): does the pair change? (`is_basic` = it does not) -/
def isBasic (y : Sym) (view seg : Int) : Bool :=
  let view90 := y.V / 2          -- num_views >> 1
  let view45 := view90 / 2
  let view135 := view90 + view45
  let change := y.swapSeg && seg < 0
  if y.d90 then
    if view ≥ view135 then false
    else if view ≥ view90 then false
    else if view > view45 then false
    else !change
  else if y.d180 then
    if view > view90 then false else !change
  else !change

/-- `num_related_view_segment_numbers` (.inl:677) -/
def numRelated (y : Sym) (view seg : Int) : Nat :=
  let n := if y.d180 && (view.tmod (y.V.tdiv 2)) != 0 then 2 else 1
  let n := if y.d90 && (view.tmod (y.V.tdiv 2)) != y.V.tdiv 4 then n * 2 else n
  if y.swapSeg && seg != 0 then n * 2 else n

/-- views visited by `for (view = minV + i; view <= maxV; view += n)` -/
def viewsOfSubset (minV maxV : Int) (i n : Nat) : List Int :=
  if minV + i > maxV then []
  else (List.range (((maxV - (minV + i)) / n).toNat + 1)).map fun (k : Nat) => minV + i + n * (k : Int)

/-- integers `lo, lo+1, …, hi` -/
def intRange (lo hi : Int) : List Int := (List.range (hi - lo + 1).toNat).map fun (k : Nat) => lo + (k : Int)

/-- `num_vs_in_subset[i]` of `actual_subsets_are_approximately_balanced` (segments `-maxSeg … maxSeg`) -/
def numVSInSubset (y : Sym) (minV maxV maxSeg : Int) (i n : Nat) : Nat :=
  ((intRange (-maxSeg) maxSeg).flatMap fun seg =>
    ((viewsOfSubset minV maxV i n).filter fun v => isBasic y v seg).map fun v => numRelated y v seg).sum

/-- `actual_subsets_are_approximately_balanced` -/
def balanced (y : Sym) (minV maxV maxSeg : Int) (n : Nat) : Bool :=
  (List.range n).all fun i => numVSInSubset y minV maxV maxSeg i n == numVSInSubset y minV maxV maxSeg 0 n

/-- does `OSMAPOSLReconstruction::set_up` accept `n` subsets (all other parameters legal)?  `n < 1` is refused by the
    range check, unbalanced subsets by l.281-289 (and before that by the objective function when it is to use the total
    sensitivity) -/
def setUpAcceptsSubsets (y : Sym) (minV maxV maxSeg : Int) (n : Int) : Bool :=
  decide (1 ≤ n) && balanced y minV maxV maxSeg n.toNat

/-! ### the explicit system: the EM update from a system matrix, `zero end planes of segment 0`

The data that `Cfg.gps` / `Cfg.sens` stand for, written out for projection data with an explicit system matrix (one `Row`
per bin), as `PoissonLogLikelihoodWithLinearModelForMeanAndProjData` computes them through `distributable_computation`
(src/recon_buildblock/distributable.cxx): per basic view/segment of the subset, `get_viewgrams` (l.165-228) fetches the
measured viewgrams `y`, the additive viewgrams and the multiplicative viewgrams (normalisation undone on ones; ones when
there is no normalisation but `zero_seg0_end_planes` is set), and — the option `zero end planes of segment 0`
(`set_zero_seg0_end_planes`) — for segment 0 sets the first and the last axial position of ALL THREE to zero
(`zero_end_sinograms`, l.148-163, called l.222-227).  The numerator of the update back projects `y / (forward projection +
additive)` of these viewgrams (`RPC_process_related_viewgrams_gradient`, PoissonLogLikelihoodWithLinearModelForMeanAndProjData.cxx:1447-1507),
the sensitivity back projects the multiplicative viewgrams (`RPC_process_related_viewgrams_sensitivity_computation`, l.1543-1563). -/

/-- one bin of the projection data = one row of the system matrix, with what the viewgrams hold for it -/
structure Row where
  seg : Int                   -- segment number
  basicView : Int             -- view number of the basic (view, segment) pair its viewgram is related to
  ax : Int                    -- axial position number
  minAx : Int                 -- `get_min_axial_pos_num()` of its viewgram
  maxAx : Int                 -- `get_max_axial_pos_num()` of its viewgram
  y : Rat                     -- measured counts
  a : Rat                     -- additive term
  eff : Rat                   -- multiplicative viewgram: `1 / normalisation factor`, `1` without normalisation
  elems : List (Nat × Rat)    -- (voxel index j, P_bj)

/-- is the bin in one of the sinograms that `get_viewgrams` zeroes (distributable.cxx:222-227 with l.154-160):
    `segment_num() == 0 && zero_seg0_end_planes`, axial position `min_ax_pos_num` or `max_ax_pos_num` -/
def zeroedEndPlane (zeroSeg0EndPlanes : Bool) (r : Row) : Bool :=
  zeroSeg0EndPlanes && r.seg == 0 && (r.ax == r.minAx || r.ax == r.maxAx)

/-- `zero_end_sinograms(y); zero_end_sinograms(additive_binwise_correction_viewgrams); zero_end_sinograms(mult_viewgrams_sptr)`:
    the three viewgrams are zeroed, the bin stays where it is -/
def zeroEndSinograms (zeroSeg0EndPlanes : Bool) (r : Row) : Row :=
  if zeroedEndPlane zeroSeg0EndPlanes r then { r with y := 0, a := 0, eff := 0 } else r

/-- the bins `distributable_computation` visits for subset `subset` of `numSubsets` (l.398-399,
    `detail::find_basic_vs_nums_in_subset`: segments `-maxSeg … maxSeg`, basic views `subset, subset + numSubsets, …`, and
    everything related to them by the symmetries of the projector) -/
def rowInSubset (maxSeg : Int) (numSubsets subset : Nat) (r : Row) : Bool :=
  decide (-maxSeg ≤ r.seg) && decide (r.seg ≤ maxSeg) && r.basicView.tmod (numSubsets : Int) == (subset : Int)

/-- `P_bj` -/
def coeff (r : Row) (j : Nat) : Rat := (r.elems.filter fun e => e.1 == j).foldr (fun e acc => e.2 + acc) 0

/-- the image as a function of the voxel index -/
def voxelOf (lam : Img) (j : Nat) : Rat := lam.getD j 0

/-- forward projection of the bin, `(Pλ)_b` -/
def fwdRow (lam : Img) (r : Row) : Rat := r.elems.foldr (fun e acc => e.2 * voxelOf lam e.1 + acc) 0

/-- the quotient `y_b / ((Pλ)_b + a_b)` of `divide_and_truncate` on its regular region (the quotient of a bin without
    counts is 0 whatever the denominator) -/
def ratioRow (lam : Img) (r : Row) : Rat := if r.y = 0 then 0 else r.y / (fwdRow lam r + r.a)

def sumR (l : List Rat) : Rat := l.foldr (fun x acc => x + acc) 0

/-- voxel `j` of the back projection of the quotients of `rows`: `Σ_b P_bj y_b / ((Pλ)_b + a_b)` -/
def gpsVoxel (rows : List Row) (lam : Img) (j : Nat) : Rat := sumR (rows.map fun r => coeff r j * ratioRow lam r)

/-- voxel `j` of the back projection of the multiplicative viewgrams of `rows`: `Σ_b P_bj eff_b` -/
def sensVoxel (rows : List Row) (j : Nat) : Rat := sumR (rows.map fun r => coeff r j * r.eff)

/-- the viewgrams one call of `distributable_computation` works on: bins of the subset, end planes of segment 0 zeroed
    when the option is set -/
def subsetViewgrams (zeroSeg0EndPlanes : Bool) (maxSeg : Int) (numSubsets subset : Nat) (rows : List Row) : List Row :=
  (rows.filter (rowInSubset maxSeg numSubsets subset)).map (zeroEndSinograms zeroSeg0EndPlanes)

/-- voxel `j` of `compute_sub_gradient_without_penalty_plus_sensitivity(·, λ, subset)` (regular region) -/
def gpsExplicit (zeroSeg0EndPlanes : Bool) (maxSeg : Int) (numSubsets subset : Nat) (rows : List Row) (lam : Img) (j : Nat) : Rat :=
  gpsVoxel (subsetViewgrams zeroSeg0EndPlanes maxSeg numSubsets subset rows) lam j

/-- voxel `j` of `get_subset_sensitivity(subset)`: with `use_subset_sensitivities` the back projection of the
    multiplicative viewgrams of the subset (`add_subset_sensitivity`), otherwise the sum over all subsets divided by
    `num_subsets` (`set_total_or_subset_sensitivities`) -/
def sensExplicit (zeroSeg0EndPlanes useSubsetSens : Bool) (maxSeg : Int) (numSubsets subset : Nat) (rows : List Row) (j : Nat) : Rat :=
  if useSubsetSens then sensVoxel (subsetViewgrams zeroSeg0EndPlanes maxSeg numSubsets subset rows) j
  else sensVoxel (subsetViewgrams zeroSeg0EndPlanes maxSeg 1 0 rows) j / (numSubsets : Rat)

/-- the voxels `js` of the image after `update_estimate` at sub-iteration `k`, no prior, no inter-update filter, data from
    the explicit system: `updVoxel` (the model of the update above) fed with `gpsExplicit` and `sensExplicit` -/
def emExplicit (c : Cfg) (zeroSeg0EndPlanes useSubsetSens : Bool) (maxSeg : Int) (rows : List Row) (k : Nat) (lam : Img)
    (js : List Nat) : List Ext :=
  let S := subsetNum k c.startSubset c.numSubsets
  let used := subsetViewgrams zeroSeg0EndPlanes maxSeg c.numSubsets S rows
  let sensRows := if useSubsetSens then used else subsetViewgrams zeroSeg0EndPlanes maxSeg 1 0 rows
  let ratios := used.map fun r => (r, ratioRow lam r)
  js.map fun j =>
    let g := sumR (ratios.map fun p => coeff p.1 j * p.2)
    let s := if useSubsetSens then sensVoxel sensRows j else sensVoxel sensRows j / (c.numSubsets : Rat)
    updVoxel .none c.numSubsets 0 (k != 1) c.minRel c.maxRel (voxelOf lam j) g s 0

/-- is the sub-iteration on the regular region of `divide_and_truncate`: every bin of the subset with counts has a non-zero
    estimate -/
def regularStep (zeroSeg0EndPlanes : Bool) (maxSeg : Int) (numSubsets subset : Nat) (rows : List Row) (lam : Img) : Bool :=
  (subsetViewgrams zeroSeg0EndPlanes maxSeg numSubsets subset rows).all fun r => r.y == 0 || fwdRow lam r + r.a != 0

/-! ### the filter slots as OBJECTS: user chains, what `set_up` does to a slot, repeated `set_up`

`Cfg.interUpdateFilter` / `Cfg.interIterationFilter` above are "the user's filter, thresholding chained behind it once".
What the class really holds are `shared_ptr<DataProcessor<TargetT>>` slots (`inter_update_filter_ptr`,
`inter_iteration_filter_ptr`, `post_filter_sptr`) whose content EVERY call of `OSMAPOSLReconstruction::set_up` replaces
by `ChainedDataProcessor(content, ThresholdMinToSmallPositiveValueDataProcessor)` (OSMAPOSLReconstruction.cxx:300-305,
316-322) — whatever the content is: a single filter, a `ChainedDataProcessor` the USER made (registered name
`Chained Data Processor`, keys `Data Processor to apply first` / `Data Processor to apply second`), a chain of chains, or
the wrapper of an earlier `set_up`.  `update_estimate` (l.469-474) and `end_of_iteration_processing`
(IterativeReconstruction.cxx:545-563) then `apply` the slot's object as it is. -/

/-- a `DataProcessor<TargetT>` object as it sits in a filter slot -/
inductive Filt where
  /-- any data processor other than the two below: what it does to an image is data for this model (C09) -/
  | user (f : Img → Img)
  /-- `ThresholdMinToSmallPositiveValueDataProcessor` (ThresholdMinToSmallPositiveValueDataProcessor.cxx:38-52):
      `threshold_min_to_small_positive_value(begin_all, end_all, 0.000001F)` -/
  | threshold
  /-- `ChainedDataProcessor(apply_first, apply_second)` -/
  | chain (first second : Filt)
  /-- a null pointer (an empty slot; a member of a chain that was not given) -/
  | null

/-- `is_null_ptr` -/
def Filt.isNull : Filt → Bool
  | .null => true
  | _ => false

/-- `DataProcessor::apply(data)` (in place).  `ChainedDataProcessor::virtual_apply` (ChainedDataProcessor.cxx:47-54):
    `if (!is_null_ptr(apply_first)) apply_first->apply(data); if (!is_null_ptr(apply_second)) apply_second->apply(data);` -/
def Filt.apply : Filt → Img → Img
  | .user f, img => f img
  | .threshold, img => thresholdMinToSmallPositive img smallNum
  | .chain a b, img => b.apply (a.apply img)
  | .null, img => img

/-- what ONE call of `OSMAPOSLReconstruction::set_up` does to a filter slot (l.300-305 resp. l.316-322):
    `if (interval > 0 && !is_null_ptr(ptr)) ptr.reset(new ChainedDataProcessor(ptr, thresholding_sptr));`
    — no look at what `ptr` is. -/
def setUpSlot (interval : Nat) (f : Filt) : Filt :=
  if interval > 0 && !f.isNull then .chain f .threshold else f

/-- the slot after `n` consecutive calls of `set_up` -/
def setUpSlotN (interval : Nat) : Nat → Filt → Filt
  | 0, f => f
  | n + 1, f => setUpSlotN interval n (setUpSlot interval f)

/-- the three filter slots of an `OSMAPOSLReconstruction` -/
structure Slots where
  interUpdate : Filt := .null        -- `inter_update_filter_ptr` (key `inter-update filter type`)
  interIteration : Filt := .null     -- `inter_iteration_filter_ptr` (key `inter-iteration filter type`)
  post : Filt := .null               -- `post_filter_sptr` (key `post-filter type`): `set_up` does not wrap it

/-- `OSMAPOSLReconstruction::set_up` on the slots -/
def Slots.setUp (c : Cfg) (s : Slots) : Slots :=
  { interUpdate := setUpSlot c.interUpdateInterval s.interUpdate,
    interIteration := setUpSlot c.interIterationInterval s.interIteration,
    post := s.post }

/-- `n` consecutive calls of `set_up` on one object -/
def Slots.setUpN (c : Cfg) : Nat → Slots → Slots
  | 0, s => s
  | n + 1, s => Slots.setUpN c n (Slots.setUp c s)

/-- `if (interval > 0 && !is_null_ptr(ptr) && !(subiteration_num % interval)) ptr->apply(image)`
    (OSMAPOSLReconstruction.cxx:469-474, IterativeReconstruction.cxx:545-550) -/
def slotFiltered (interval : Nat) (slot : Filt) (k : Nat) (img : Img) : Img :=
  if interval > 0 ∧ k % interval = 0 then slot.apply img else img

/-- `update_estimate` (l.373-512) of an object whose slots hold `s` (`c.interUpdateFilter` is not looked at) -/
def updateEstimateS (c : Cfg) (s : Slots) (k : Nat) (img : Img) : List Ext :=
  let S := subsetNum k c.startSubset c.numSubsets
  let g := c.gps S img
  let sens := c.sens S
  let pg := match c.map with
    | .none => g.map fun _ => 0
    | _ => c.priorGrad img
  let small := smallValue g (divideSmallNum c.map)
  let img1 := slotFiltered c.interUpdateInterval s.interUpdate k img
  zip4With (updVoxel c.map c.numSubsets small (k != 1) c.minRel c.maxRel) img1 g sens pg

/-- `end_of_iteration_processing` (IterativeReconstruction.cxx:545-563) of an object whose slots hold `s`: inter-iteration
    filter, then `if (subiteration_num == num_subiterations && !is_null_ptr(post_filter_sptr)) post_filter_sptr->apply(…)` -/
def endOfIterationS (c : Cfg) (s : Slots) (last k : Nat) (img : Img) : Img :=
  let img1 := slotFiltered c.interIterationInterval s.interIteration k img
  if k = last then s.post.apply img1 else img1

/-- loop body of `reconstruct(target)` of an object whose slots hold `s` -/
def subIterS (c : Cfg) (s : Slots) (last k : Nat) (img : Img) : Option Img :=
  (allFin (updateEstimateS c s k img)).map (endOfIterationS c s last k)

/-- the slot's content as the "user filter" of `Cfg` -/
def Filt.toOption (f : Filt) : Option (Img → Img) := if f.isNull then none else some f.apply

/-- the configuration of the model above that an object with user slots `s` stands for -/
def Cfg.ofSlots (c : Cfg) (s : Slots) : Cfg :=
  { c with interUpdateFilter := s.interUpdate.toOption, interIterationFilter := s.interIteration.toOption }

/-! ### `divide_and_truncate` on viewgrams (src/buildblock/recon_array_functions.cxx:172-266, `rim_truncation_sino = 0`) -/

/-- `SMALL_NUM` (recon_array_functions.cxx:44) -/
def dtSmallNum : Rat := 1 / 1000000

/-- `max_quotient` (l.227) -/
def maxQuotient : Rat := 10000

/-- `small_value = max(numerator.find_max() * SMALL_NUM, 0.F)` (l.185) -/
def dtSmallValue (num : List Rat) : Rat := stdMax (maxElem num * dtSmallNum) 0

/-- one bin (l.219-249): `if (num <= small_value) num = 0; else if (num > max_quotient * denom) num = max_quotient;
    else num = num / denom;` — no division by zero on any path (`0/0` is `0`, `x/0` with `x > small_value` is `max_quotient`) -/
def divideAndTruncate1 (small num den : Rat) : Rat :=
  if num ≤ small then 0 else if num > maxQuotient * den then maxQuotient else num / den

/-- one viewgram: numerator and denominator in the same bin order -/
def divideAndTruncate (num den : List Rat) : List Rat :=
  List.zipWith (divideAndTruncate1 (dtSmallValue num)) num den

end StirVerif.C07
