/-
C07 — helper lemmas tying the list model to the finite-sum specification, and the whole run.
-/
import StirVerif.C07.ProofsSum

namespace StirVerif.C07

theorem allFin_ofFn {n : Nat} (f : Fin n → Rat) : allFin (List.ofFn fun j => Ext.fin (f j)) = some (List.ofFn f) := by
  induction n with
  | zero => simp [allFin]
  | succ n ih =>
    simp only [List.ofFn_succ, allFin]
    rw [ih (fun j => f j.succ)]
    rfl

theorem mem_zip_ofFn {n : Nat} (g s : Fin n → Rat) (p : Rat × Rat) (hp : p ∈ (List.ofFn g).zip (List.ofFn s)) :
    ∃ j, p = (g j, s j) := by
  induction n with
  | zero => simp at hp
  | succ n ih =>
    simp only [List.ofFn_succ, List.zip_cons_cons, List.mem_cons] at hp
    rcases hp with rfl | hp
    · exact ⟨0, rfl⟩
    · obtain ⟨j, hj⟩ := ih (fun j => g j.succ) (fun j => s j.succ) hp
      exact ⟨j.succ, hj⟩

/-- the textbook data are non-negative and consistent -/
theorem dataOK_spec {nb nv : ℕ} (P : Fin nb → Fin nv → ℚ) (y a eff : Fin nb → ℚ) (S : Finset (Fin nb)) (lam : Fin nv → ℚ)
    (hP : ∀ b j, 0 ≤ P b j) (hy : ∀ b, 0 ≤ y b) (ha : ∀ b, 0 ≤ a b) (he : ∀ b, 0 < eff b) (hl : ∀ j, 0 ≤ lam j) :
    DataOK (List.ofFn (gpsSpec P y a S lam)) (List.ofFn (sensSpec P eff S)) := by
  intro p hp
  obtain ⟨j, rfl⟩ := mem_zip_ofFn _ _ p hp
  exact ⟨gpsSpec_nonneg S hP hy ha hl j, sensSpec_nonneg S hP he j, gpsSpec_eq_zero_of_sens S hP he j⟩

/-- EM formula, image level (see `C07_em_formula`) -/
theorem updateEstimate_em {nb nv : ℕ} (c : Cfg) (k : Nat)
    (P : Fin nb → Fin nv → ℚ) (y a eff : Fin nb → ℚ) (S : Finset (Fin nb)) (lam : Fin nv → ℚ)
    (hmap : c.map = .none) (hfilt : c.interUpdateFilter = none)
    (hg : c.gps (subsetNum k c.startSubset c.numSubsets) (List.ofFn lam) = List.ofFn (gpsSpec P y a S lam))
    (hs : c.sens (subsetNum k c.startSubset c.numSubsets) = List.ofFn (sensSpec P eff S))
    (hP : ∀ b j, 0 ≤ P b j) (he : ∀ b, 0 < eff b)
    (hlim : k = 1 ∨ ∀ j, c.minRel ≤ gpsSpec P y a S lam j / sensSpec P eff S j ∧
                          gpsSpec P y a S lam j / sensSpec P eff S j ≤ c.maxRel) :
    updateEstimate c k (List.ofFn lam) = List.ofFn fun j => Ext.fin (emStep P y a eff S lam j) := by
  simp only [updateEstimate, hg, hs, hmap, interUpdateFiltered, hfilt, divideSmallNum, smallValue_zero, List.map_ofFn]
  rw [show ((fun _ => (0 : Rat)) ∘ gpsSpec P y a S lam) = fun _ : Fin nv => (0 : Rat) from rfl]
  rw [zip4With_ofFn]
  congr 1
  funext j
  rw [updVoxel_em]
  · rfl
  · rcases hlim with h | h
    · left; simp [h]
    · right; exact h j
  · exact gpsSpec_eq_zero_of_sens S hP he j

/-- every image of a run is non-negative -/
theorem runFrom_nonneg (c : Cfg) (hmin : 0 ≤ c.minRel) (hmm : c.minRel ≤ c.maxRel)
    (hdata : ∀ S img, (∀ x ∈ img, (0 : Rat) ≤ x) → DataOK (c.gps S img) (c.sens S)) :
    ∀ (n k : Nat) (img : Img), (∀ x ∈ img, (0 : Rat) ≤ x) →
      (runFrom c k n img).length = n ∧ ∀ im ∈ runFrom c k n img, ∀ x ∈ im, (0 : Rat) ≤ x
  | 0, _, _, _ => by simp [runFrom]
  | n + 1, k, img, himg => by
    obtain ⟨img', h1, h2⟩ := subIter_nonneg c k img hmin hmm himg (hdata _ img himg)
    obtain ⟨ih1, ih2⟩ := runFrom_nonneg c hmin hmm hdata n (k + 1) img' h2
    simp only [runFrom, h1]
    refine ⟨by simp [ih1], ?_⟩
    intro im him
    rcases List.mem_cons.mp him with rfl | h
    · exact h2
    · exact ih2 im h

end StirVerif.C07
