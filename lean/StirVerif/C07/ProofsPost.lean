/-
C07 — helper lemmas for the post-filter (`endOfIterationPost`, `reconstructPost`), the no-argument `reconstruct()`
(`reconstructNoArg`) and the written update image (`updateImage`).
-/
import StirVerif.C07.ProofsImage

namespace StirVerif.C07

/-! ### the update image is what is applied -/

theorem zip4With_eq_zipWith_zip3With {α β : Type} (f : Rat → Rat → Rat → α) (h : Rat → α → β) :
    ∀ (a b c d : Img), zip4With (fun x y z w => h x (f y z w)) a b c d = List.zipWith h a (zip3With f b c d)
  | [], _, _, _ => by simp [zip4With]
  | _ :: _, [], _, _ => by simp [zip4With, zip3With]
  | _ :: _, _ :: _, [], _ => by simp [zip4With, zip3With]
  | _ :: _, _ :: _, _ :: _, [] => by simp [zip4With, zip3With]
  | a :: as, b :: bs, c :: cs, d :: ds => by
    simp [zip4With, zip3With, zip4With_eq_zipWith_zip3With f h as bs cs ds]

theorem updateEstimate_eq_updateImage (c : Cfg) (k : Nat) (img : Img) :
    updateEstimate c k img =
      List.zipWith (fun lam u => mulExt lam (limitUpdate c k u)) (interUpdateFiltered c k img) (updateImage c k img) := by
  unfold updateEstimate updateImage
  simp only
  rw [← zip4With_eq_zipWith_zip3With]
  rfl

/-! ### the post-filter acts at the last sub-iteration only -/

theorem endOfIterationPost_none (c : Cfg) (last k : Nat) (img : Img) :
    endOfIterationPost c none last k img = endOfIteration c k img := rfl

theorem endOfIterationPost_ne (c : Cfg) (post : Option (Img → Img)) (last k : Nat) (img : Img) (h : k ≠ last) :
    endOfIterationPost c post last k img = endOfIteration c k img := by
  unfold endOfIterationPost
  cases post with
  | none => rfl
  | some f => simp [h]

theorem subIterPost_ne (c : Cfg) (post : Option (Img → Img)) (last k : Nat) (img : Img) (h : k ≠ last) :
    subIterPost c post last k img = subIter c k img := by
  unfold subIterPost subIter
  cases allFin (updateEstimate c k img) with
  | none => rfl
  | some im => simp [endOfIterationPost_ne c post last k im h]

/-- what the post-filter does to an image: nothing when there is none -/
def postApply (post : Option (Img → Img)) (img : Img) : Img :=
  match post with
  | some f => f img
  | none => img

theorem subIterPost_last (c : Cfg) (post : Option (Img → Img)) (last : Nat) (img : Img) :
    subIterPost c post last last img = (subIter c last img).map (postApply post) := by
  unfold subIterPost subIter
  cases allFin (updateEstimate c last img) with
  | none => rfl
  | some im =>
    cases post with
    | none => rfl
    | some f => simp [endOfIterationPost, postApply]

theorem runFromPost_none (c : Cfg) (last : Nat) :
    ∀ (n k : Nat) (img : Img), runFromPost c none last k n img = runFrom c k n img
  | 0, _, _ => rfl
  | n + 1, k, img => by
    have hs : subIterPost c none last k img = subIter c k img := rfl
    simp only [runFromPost, runFrom, hs]
    cases subIter c k img with
    | none => rfl
    | some img' => simp only [runFromPost_none c last n (k + 1) img']

/-- sub-iterations before the last one do not see the post-filter -/
theorem runFromPost_lt (c : Cfg) (post : Option (Img → Img)) (last : Nat) :
    ∀ (n k : Nat) (img : Img), k + n ≤ last → runFromPost c post last k n img = runFrom c k n img
  | 0, _, _, _ => rfl
  | n + 1, k, img, h => by
    have hk : k ≠ last := by omega
    simp only [runFromPost, runFrom, subIterPost_ne c post last k img hk]
    cases subIter c k img with
    | none => rfl
    | some img' => simp only [runFromPost_lt c post last n (k + 1) img' (by omega)]

theorem runFromPost_add (c : Cfg) (post : Option (Img → Img)) (last : Nat) : ∀ (m n k : Nat) (img : Img),
    (runFromPost c post last k m img).length = m →
    runFromPost c post last k (m + n) img =
      runFromPost c post last k m img ++
        runFromPost c post last (k + m) n ((runFromPost c post last k m img).getLastD img)
  | 0, n, k, img, _ => by simp [runFromPost]
  | m + 1, n, k, img, h => by
    have e : m + 1 + n = (m + n) + 1 := by omega
    rw [e]
    simp only [runFromPost] at h ⊢
    cases hs : subIterPost c post last k img with
    | none => rw [hs] at h; simp at h
    | some img' =>
      rw [hs] at h
      simp only [List.length_cons, Nat.add_right_cancel_iff] at h
      simp only
      rw [runFromPost_add c post last m n (k + 1) img' h]
      have e2 : k + 1 + m = k + (m + 1) := by omega
      rw [e2]
      simp only [List.cons_append, List.cons.injEq, true_and]
      congr 2
      cases hr : runFromPost c post last (k + 1) m img' with
      | nil => simp
      | cons a as => simp [List.getLastD]

/-- restart decomposition with a post-filter: the part up to `k < last` is the run without post-filter -/
theorem reconstructPost_split (c : Cfg) (post : Option (Img → Img)) (start k last : Nat) (img : Img)
    (h1 : start ≤ k + 1) (h2 : k < last)
    (hfull : (reconstruct c start k img).length = k + 1 - start) :
    reconstructPost c post start last img =
      reconstruct c start k img ++ reconstructPost c post (k + 1) last ((reconstruct c start k img).getLastD img) := by
  unfold reconstructPost reconstruct at *
  have hlt : runFromPost c post last start (k + 1 - start) img = runFrom c start (k + 1 - start) img :=
    runFromPost_lt c post last _ _ img (by omega)
  have e : last + 1 - start = (k + 1 - start) + (last + 1 - (k + 1)) := by omega
  rw [e, runFromPost_add c post last _ _ _ _ (by rw [hlt]; exact hfull), hlt]
  have e2 : start + (k + 1 - start) = k + 1 := by omega
  rw [e2]

theorem reconstructPost_none (c : Cfg) (start last : Nat) (img : Img) :
    reconstructPost c none start last img = reconstruct c start last img :=
  runFromPost_none c last _ _ img

/-- one sub-iteration, the last one -/
theorem reconstructPost_last (c : Cfg) (post : Option (Img → Img)) (last : Nat) (img : Img) :
    reconstructPost c post last last img = ((subIter c last img).map (postApply post)).toList := by
  unfold reconstructPost
  have e : last + 1 - last = 1 := by omega
  rw [e]
  simp only [runFromPost, subIterPost_last]
  cases subIter c last img with
  | none => rfl
  | some y => simp

theorem reconstruct_last (c : Cfg) (last : Nat) (img : Img) :
    reconstruct c last last img = (subIter c last img).toList := by
  unfold reconstruct
  have e : last + 1 - last = 1 := by omega
  rw [e]
  simp only [runFrom]
  cases subIter c last img with
  | none => rfl
  | some y => simp

theorem runFromPost_enforce_irrelevant (c : Cfg) (post : Option (Img → Img)) (last : Nat) (b : Bool) :
    ∀ (n k : Nat) (img : Img),
      runFromPost { c with enforceInitialPositivity := b } post last k n img = runFromPost c post last k n img
  | 0, _, _ => rfl
  | n + 1, k, img => by
    have hs : subIterPost { c with enforceInitialPositivity := b } post last k img = subIterPost c post last k img := rfl
    simp only [runFromPost, hs]
    cases subIterPost c post last k img with
    | none => rfl
    | some img' => simp only [runFromPost_enforce_irrelevant c post last b n (k + 1) img']

end StirVerif.C07
