/-
C07 — helper lemmas, image level: the positivity thresholding, non-negativity of a whole sub-iteration (filters
included), the run as a fold and its restart decomposition.
-/
import StirVerif.C07.ProofsVoxel
import Mathlib.Data.List.Basic
import Mathlib.Data.List.OfFn

namespace StirVerif.C07

/-! ### `zip4With` -/

theorem zip4With_mem {α : Type} (f : Rat → Rat → Rat → Rat → α) :
    ∀ (a b c d : Img) (x : α), x ∈ zip4With f a b c d →
      ∃ aj ∈ a, ∃ p ∈ b.zip c, ∃ dj ∈ d, x = f aj p.1 p.2 dj
  | [], _, _, _, x, h => by simp [zip4With] at h
  | _ :: _, [], _, _, x, h => by simp [zip4With] at h
  | _ :: _, _ :: _, [], _, x, h => by simp [zip4With] at h
  | _ :: _, _ :: _, _ :: _, [], x, h => by simp [zip4With] at h
  | a :: as, b :: bs, c :: cs, d :: ds, x, h => by
    simp only [zip4With, List.mem_cons] at h
    rcases h with rfl | h
    · exact ⟨a, by simp, (b, c), by simp, d, by simp, rfl⟩
    · obtain ⟨aj, ha, p, hp, dj, hd, rfl⟩ := zip4With_mem f as bs cs ds x h
      exact ⟨aj, List.mem_cons_of_mem _ ha, p, by simp [hp], dj, List.mem_cons_of_mem _ hd, rfl⟩

theorem zip4With_ofFn {α : Type} (f : Rat → Rat → Rat → Rat → α) :
    ∀ (n : Nat) (a b c d : Fin n → Rat),
      zip4With f (List.ofFn a) (List.ofFn b) (List.ofFn c) (List.ofFn d) = List.ofFn fun j => f (a j) (b j) (c j) (d j)
  | 0, _, _, _, _ => by simp [zip4With]
  | n + 1, a, b, c, d => by
    simp only [List.ofFn_succ, zip4With]
    rw [zip4With_ofFn f n]

/-! ### `threshold_min_to_small_positive_value` -/

theorem minPositive_some {img : Img} {m : Rat} (h : minPositive img = some m) :
    0 < m ∧ m ∈ img ∧ ∀ x ∈ img, 0 < x → m ≤ x := by
  induction img generalizing m with
  | nil => simp [minPositive] at h
  | cons a as ih =>
    simp only [minPositive] at h
    cases hrec : minPositive as with
    | none =>
      rw [hrec] at h
      simp only at h
      split_ifs at h with ha
      · cases h
        refine ⟨ha, by simp, ?_⟩
        intro x hx hx0
        rcases List.mem_cons.mp hx with rfl | hx'
        · exact le_refl _
        · exfalso
          -- no positive element in the tail
          have : ∀ l : Img, minPositive l = none → ∀ y ∈ l, y ≤ 0 := by
            intro l
            induction l with
            | nil => simp
            | cons b bs ihb =>
              intro hl y hy
              simp only [minPositive] at hl
              cases hb : minPositive bs with
              | none =>
                rw [hb] at hl; simp only at hl
                split_ifs at hl with hb0
                rcases List.mem_cons.mp hy with rfl | hy'
                · exact not_lt.mp hb0
                · exact ihb hb y hy'
              | some m' =>
                rw [hb] at hl; simp only at hl
                split_ifs at hl
          exact absurd hx0 (not_lt.mpr (this as hrec x hx'))
    | some m' =>
      rw [hrec] at h
      simp only at h
      obtain ⟨hm0, hmem, hmin⟩ := ih hrec
      split_ifs at h with ha
      · cases h
        refine ⟨ha.1, by simp, ?_⟩
        intro x hx hx0
        rcases List.mem_cons.mp hx with rfl | hx'
        · exact le_refl _
        · exact le_trans ha.2 (hmin x hx' hx0)
      · cases h
        refine ⟨hm0, List.mem_cons_of_mem _ hmem, ?_⟩
        intro x hx hx0
        rcases List.mem_cons.mp hx with rfl | hx'
        · by_contra hlt
          exact ha ⟨hx0, le_of_lt (not_le.mp hlt)⟩
        · exact hmin x hx' hx0

theorem minPositive_none {img : Img} (h : minPositive img = none) : ∀ x ∈ img, x ≤ 0 := by
  induction img with
  | nil => simp
  | cons b bs ihb =>
    intro y hy
    simp only [minPositive] at h
    cases hb : minPositive bs with
    | none =>
      rw [hb] at h; simp only at h
      split_ifs at h with hb0
      rcases List.mem_cons.mp hy with rfl | hy'
      · exact not_lt.mp hb0
      · exact ihb hb y hy'
    | some m' =>
      rw [hb] at h; simp only at h
      split_ifs at h

/-- the thresholded image is strictly positive, whatever went in -/
theorem thresholdMinToSmallPositive_pos (img : Img) {small : Rat} (hs : 0 < small) :
    ∀ x ∈ thresholdMinToSmallPositive img small, 0 < x := by
  intro x hx
  unfold thresholdMinToSmallPositive at hx
  cases h : minPositive img with
  | none =>
    rw [h] at hx
    obtain ⟨_, _, rfl⟩ := List.mem_map.mp hx
    exact hs
  | some m =>
    rw [h] at hx
    obtain ⟨y, _, rfl⟩ := List.mem_map.mp hx
    have hm := (minPositive_some h).1
    have ht : 0 < m * small := mul_pos hm hs
    split_ifs with hlt
    · exact ht
    · exact lt_of_lt_of_le ht (not_lt.mp hlt)

/-- a strictly positive image is not changed -/
theorem thresholdMinToSmallPositive_id (img : Img) {small : Rat} (_hs : 0 < small) (hs1 : small ≤ 1)
    (hpos : ∀ x ∈ img, 0 < x) : thresholdMinToSmallPositive img small = img := by
  unfold thresholdMinToSmallPositive
  cases h : minPositive img with
  | none =>
    cases img with
    | nil => simp
    | cons a as =>
      exfalso
      have := minPositive_none h a (by simp)
      exact absurd (hpos a (by simp)) (not_lt.mpr this)
  | some m =>
    obtain ⟨hm0, _, hmin⟩ := minPositive_some h
    simp only
    conv_rhs => rw [← List.map_id img]
    apply List.map_congr_left
    intro x hx
    have h1 : m ≤ x := hmin x hx (hpos x hx)
    have h2 : m * small ≤ m := by nlinarith
    simp only [id]
    rw [if_neg]
    exact not_lt.mpr (le_trans h2 h1)

/-- values that were positive are kept, values `≤ 0` are lifted -/
theorem thresholdMinToSmallPositive_length (img : Img) (small : Rat) :
    (thresholdMinToSmallPositive img small).length = img.length := by
  unfold thresholdMinToSmallPositive
  cases minPositive img <;> simp

theorem smallNum_pos : 0 < smallNum := by unfold smallNum; norm_num
theorem smallNum_le_one : smallNum ≤ 1 := by unfold smallNum; norm_num

theorem chained_pos (f : Img → Img) (img : Img) : ∀ x ∈ chained f img, 0 < x :=
  thresholdMinToSmallPositive_pos _ smallNum_pos

/-! ### `set_up` -/

theorem setUp_id (c : Cfg) (img : Img) (h : c.enforceInitialPositivity = false ∨ ∀ x ∈ img, 0 < x) :
    setUp c img = img := by
  unfold setUp
  rcases h with h | h
  · simp [h]
  · split_ifs
    · exact thresholdMinToSmallPositive_id img smallNum_pos smallNum_le_one h
    · rfl

theorem setUp_pos (c : Cfg) (img : Img) (h : c.enforceInitialPositivity = true) : ∀ x ∈ setUp c img, 0 < x := by
  unfold setUp; rw [if_pos h]; exact thresholdMinToSmallPositive_pos _ smallNum_pos

/-! ### non-negativity of a whole sub-iteration -/

theorem allFin_of_forall : ∀ (l : List Ext), (∀ e ∈ l, ∃ q, e = .fin q ∧ 0 ≤ q) →
    ∃ img, allFin l = some img ∧ ∀ x ∈ img, (0 : Rat) ≤ x
  | [], _ => ⟨[], rfl, by simp⟩
  | e :: r, h => by
    obtain ⟨q, rfl, hq⟩ := h e (by simp)
    obtain ⟨img, himg, hpos⟩ := allFin_of_forall r (fun e he => h e (List.mem_cons_of_mem _ he))
    refine ⟨q :: img, by simp [allFin, himg], ?_⟩
    intro x hx
    rcases List.mem_cons.mp hx with rfl | hx
    · exact hq
    · exact hpos x hx

theorem interUpdateFiltered_nonneg (c : Cfg) (k : Nat) (img : Img) (h : ∀ x ∈ img, (0 : Rat) ≤ x) :
    ∀ x ∈ interUpdateFiltered c k img, (0 : Rat) ≤ x := by
  unfold interUpdateFiltered
  cases c.interUpdateFilter with
  | none => exact h
  | some f =>
    simp only
    split_ifs
    · intro x hx; exact le_of_lt (chained_pos f img x hx)
    · exact h

theorem endOfIteration_nonneg (c : Cfg) (k : Nat) (img : Img) (h : ∀ x ∈ img, (0 : Rat) ≤ x) :
    ∀ x ∈ endOfIteration c k img, (0 : Rat) ≤ x := by
  unfold endOfIteration
  cases c.interIterationFilter with
  | none => exact h
  | some f =>
    simp only
    split_ifs
    · intro x hx; exact le_of_lt (chained_pos f img x hx)
    · exact h

/-- data of one sub-iteration are non-negative and consistent: `g ≥ 0`, `s ≥ 0`, `s_j = 0 → g_j = 0` -/
def DataOK (g s : Img) : Prop := ∀ p ∈ g.zip s, 0 ≤ p.1 ∧ 0 ≤ p.2 ∧ (p.2 = 0 → p.1 = 0)

theorem subIter_nonneg (c : Cfg) (k : Nat) (img : Img)
    (hmin : 0 ≤ c.minRel) (hmm : c.minRel ≤ c.maxRel)
    (himg : ∀ x ∈ img, (0 : Rat) ≤ x)
    (hdata : DataOK (c.gps (subsetNum k c.startSubset c.numSubsets) img) (c.sens (subsetNum k c.startSubset c.numSubsets))) :
    ∃ img', subIter c k img = some img' ∧ ∀ x ∈ img', (0 : Rat) ≤ x := by
  have hall : ∀ e ∈ updateEstimate c k img, ∃ q, e = .fin q ∧ 0 ≤ q := by
    intro e he
    simp only [updateEstimate] at he
    obtain ⟨lam, hlam, p, hp, pg, _, rfl⟩ := zip4With_mem _ _ _ _ _ e he
    obtain ⟨hg, hs, hcons⟩ := hdata p hp
    exact updVoxel_nonneg _ _ _ _ _ _ _ _ _ _ (smallValue_nonneg _ _) hmin hmm
      (interUpdateFiltered_nonneg c k img himg lam hlam) hg hs hcons
  obtain ⟨img1, h1, hpos⟩ := allFin_of_forall _ hall
  exact ⟨endOfIteration c k img1, by simp [subIter, h1], endOfIteration_nonneg c k img1 hpos⟩

/-! ### the run as a fold; restart -/

theorem runFrom_length_le (c : Cfg) : ∀ (n k : Nat) (img : Img), (runFrom c k n img).length ≤ n
  | 0, _, _ => by simp [runFrom]
  | n + 1, k, img => by
    simp only [runFrom]
    cases subIter c k img with
    | none => simp
    | some img' => simp [runFrom_length_le c n (k + 1) img']

/-- the fold over `m + n` sub-iterations is the fold over `m`, continued from its last image at `k + m` -/
theorem runFrom_add (c : Cfg) : ∀ (m n k : Nat) (img : Img),
    (runFrom c k m img).length = m →
    runFrom c k (m + n) img = runFrom c k m img ++ runFrom c (k + m) n ((runFrom c k m img).getLastD img)
  | 0, n, k, img, _ => by simp [runFrom]
  | m + 1, n, k, img, h => by
    have e : m + 1 + n = (m + n) + 1 := by omega
    rw [e]
    simp only [runFrom] at h ⊢
    cases hs : subIter c k img with
    | none => rw [hs] at h; simp at h
    | some img' =>
      rw [hs] at h
      simp only [List.length_cons, Nat.add_right_cancel_iff] at h
      simp only
      rw [runFrom_add c m n (k + 1) img' h]
      have e2 : k + 1 + m = k + (m + 1) := by omega
      rw [e2]
      simp only [List.cons_append, List.cons.injEq, true_and]
      congr 2
      cases hr : runFrom c (k + 1) m img' with
      | nil => simp
      | cons a as => simp [List.getLastD]

/-- restart decomposition for `reconstruct` -/
theorem reconstruct_split (c : Cfg) (start k last : Nat) (img : Img) (h1 : start ≤ k + 1) (h2 : k ≤ last)
    (hfull : (reconstruct c start k img).length = k + 1 - start) :
    reconstruct c start last img =
      reconstruct c start k img ++ reconstruct c (k + 1) last ((reconstruct c start k img).getLastD img) := by
  unfold reconstruct at *
  have e : last + 1 - start = (k + 1 - start) + (last + 1 - (k + 1)) := by omega
  rw [e, runFrom_add c _ _ _ _ hfull]
  have e2 : start + (k + 1 - start) = k + 1 := by omega
  rw [e2]

/-- the sub-iterations themselves never look at `enforce_initial_positivity` (only `set_up` does) -/
theorem runFrom_enforce_irrelevant (c : Cfg) (b : Bool) :
    ∀ (n k : Nat) (img : Img), runFrom { c with enforceInitialPositivity := b } k n img = runFrom c k n img
  | 0, _, _ => rfl
  | n + 1, k, img => by
    have hs : subIter { c with enforceInitialPositivity := b } k img = subIter c k img := rfl
    simp only [runFrom, hs]
    cases subIter c k img with
    | none => rfl
    | some img' => simp only [runFrom_enforce_irrelevant c b n (k + 1) img']

end StirVerif.C07
