/-
C07 — helper lemmas for the explicit system (`Row`, `gpsExplicit`, `sensExplicit`, `emExplicit`) and the option
`zero end planes of segment 0` (`zeroEndSinograms`): zeroing the three viewgrams of a bin is the same as removing the bin
from the system, for the numerator and for the sensitivity alike; count preservation for an arbitrary set of bins.
-/
import StirVerif.C07.ProofsSum

namespace StirVerif.C07
open Finset

/-! ### zeroed viewgrams = removed rows -/

theorem zeroEndSinograms_off (r : Row) : zeroEndSinograms false r = r := by
  simp [zeroEndSinograms, zeroedEndPlane]

theorem zeroEndSinograms_elems (z : Bool) (r : Row) : (zeroEndSinograms z r).elems = r.elems := by
  unfold zeroEndSinograms; split <;> rfl

theorem coeff_zeroEndSinograms (z : Bool) (r : Row) (j : Nat) : coeff (zeroEndSinograms z r) j = coeff r j := by
  simp [coeff, zeroEndSinograms_elems]

theorem sumR_cons (x : Rat) (l : List Rat) : sumR (x :: l) = x + sumR l := rfl

theorem sumR_nil : sumR [] = 0 := rfl

/-- the term of a zeroed bin in the numerator is zero (`y = 0`: quotient 0) … -/
theorem gps_term_zeroed (z : Bool) (r : Row) (lam : Img) (j : Nat) (h : zeroedEndPlane z r = true) :
    coeff (zeroEndSinograms z r) j * ratioRow lam (zeroEndSinograms z r) = 0 := by
  simp [zeroEndSinograms, h, ratioRow]

/-- … and so is its term in the sensitivity (multiplicative viewgram 0) -/
theorem sens_term_zeroed (z : Bool) (r : Row) (j : Nat) (h : zeroedEndPlane z r = true) :
    coeff (zeroEndSinograms z r) j * (zeroEndSinograms z r).eff = 0 := by
  simp [zeroEndSinograms, h]

theorem zeroEndSinograms_of_not (z : Bool) (r : Row) (h : zeroedEndPlane z r = false) : zeroEndSinograms z r = r := by
  simp [zeroEndSinograms, h]

theorem gpsVoxel_zeroed (z : Bool) (rows : List Row) (lam : Img) (j : Nat) :
    gpsVoxel (rows.map (zeroEndSinograms z)) lam j = gpsVoxel (rows.filter fun r => !zeroedEndPlane z r) lam j := by
  induction rows with
  | nil => rfl
  | cons r rs ih =>
    unfold gpsVoxel at ih ⊢
    cases h : zeroedEndPlane z r with
    | true =>
      simp only [List.map_cons, sumR_cons, gps_term_zeroed z r lam j h, List.filter_cons, h, Bool.not_true]
      simpa using ih
    | false =>
      simp only [List.map_cons, sumR_cons, List.filter_cons, h, Bool.not_false, zeroEndSinograms_of_not z r h, if_true]
      rw [ih]

theorem sensVoxel_zeroed (z : Bool) (rows : List Row) (j : Nat) :
    sensVoxel (rows.map (zeroEndSinograms z)) j = sensVoxel (rows.filter fun r => !zeroedEndPlane z r) j := by
  induction rows with
  | nil => rfl
  | cons r rs ih =>
    unfold sensVoxel at ih ⊢
    cases h : zeroedEndPlane z r with
    | true =>
      simp only [List.map_cons, sumR_cons, sens_term_zeroed z r j h, List.filter_cons, h, Bool.not_true]
      simpa using ih
    | false =>
      simp only [List.map_cons, sumR_cons, List.filter_cons, h, Bool.not_false, zeroEndSinograms_of_not z r h, if_true]
      rw [ih]

/-- the viewgrams of a subset with the option on, as far as sums over them go: those of the system without the zeroed bins
    with the option off -/
theorem subsetViewgrams_off (maxSeg : Int) (n S : Nat) (rows : List Row) :
    subsetViewgrams false maxSeg n S rows = rows.filter (rowInSubset maxSeg n S) := by
  unfold subsetViewgrams
  rw [List.map_congr_left (fun r _ => zeroEndSinograms_off r)]
  simp

theorem gpsExplicit_zeroed (z : Bool) (maxSeg : Int) (n S : Nat) (rows : List Row) (lam : Img) (j : Nat) :
    gpsExplicit z maxSeg n S rows lam j
      = gpsExplicit false maxSeg n S (rows.filter fun r => !zeroedEndPlane z r) lam j := by
  unfold gpsExplicit
  rw [subsetViewgrams_off]
  unfold subsetViewgrams
  rw [gpsVoxel_zeroed, List.filter_filter, List.filter_filter]
  congr 1
  apply List.filter_congr
  intro r _
  exact Bool.and_comm _ _

theorem sensVoxel_subsetViewgrams_zeroed (z : Bool) (maxSeg : Int) (n S : Nat) (rows : List Row) (j : Nat) :
    sensVoxel (subsetViewgrams z maxSeg n S rows) j
      = sensVoxel (subsetViewgrams false maxSeg n S (rows.filter fun r => !zeroedEndPlane z r)) j := by
  rw [subsetViewgrams_off]
  unfold subsetViewgrams
  rw [sensVoxel_zeroed, List.filter_filter, List.filter_filter]
  congr 1
  apply List.filter_congr
  intro r _
  exact Bool.and_comm _ _

theorem sensExplicit_zeroed (z u : Bool) (maxSeg : Int) (n S : Nat) (rows : List Row) (j : Nat) :
    sensExplicit z u maxSeg n S rows j
      = sensExplicit false u maxSeg n S (rows.filter fun r => !zeroedEndPlane z r) j := by
  unfold sensExplicit
  rw [sensVoxel_subsetViewgrams_zeroed z maxSeg n S, sensVoxel_subsetViewgrams_zeroed z maxSeg 1 0]

/-- `emExplicit` is `updVoxel` fed with `gpsExplicit` / `sensExplicit` (the sharing of the quotients in its definition is
    an optimisation only) -/
theorem emExplicit_eq (c : Cfg) (z u : Bool) (maxSeg : Int) (rows : List Row) (k : Nat) (lam : Img) (js : List Nat) :
    emExplicit c z u maxSeg rows k lam js =
      js.map fun j => updVoxel .none c.numSubsets 0 (k != 1) c.minRel c.maxRel (voxelOf lam j)
        (gpsExplicit z maxSeg c.numSubsets (subsetNum k c.startSubset c.numSubsets) rows lam j)
        (sensExplicit z u maxSeg c.numSubsets (subsetNum k c.startSubset c.numSubsets) rows j) 0 := by
  unfold emExplicit gpsExplicit sensExplicit gpsVoxel
  simp only [List.map_map]
  apply List.map_congr_left
  intro j _
  cases u <;> simp [Function.comp_def]

theorem emExplicit_zeroed (c : Cfg) (z u : Bool) (maxSeg : Int) (rows : List Row) (k : Nat) (lam : Img) (js : List Nat) :
    emExplicit c z u maxSeg rows k lam js
      = emExplicit c false u maxSeg (rows.filter fun r => !zeroedEndPlane z r) k lam js := by
  rw [emExplicit_eq, emExplicit_eq]
  apply List.map_congr_left
  intro j _
  rw [gpsExplicit_zeroed, sensExplicit_zeroed]

/-! ### a voxel that no bin of the subset sees has a zero numerator -/

/-- what the viewgrams of a bin satisfy: non-negative matrix elements; the multiplicative viewgram is positive, or the bin
    was zeroed (multiplicative viewgram AND counts zero) -/
def RowOK (r : Row) : Prop := (∀ e ∈ r.elems, (0 : Rat) ≤ e.2) ∧ (0 < r.eff ∨ (r.eff = 0 ∧ r.y = 0))

theorem coeff_nonneg (r : Row) (j : Nat) (h : ∀ e ∈ r.elems, (0 : Rat) ≤ e.2) : 0 ≤ coeff r j := by
  unfold coeff
  have : ∀ l : List (Nat × Rat), (∀ e ∈ l, (0 : Rat) ≤ e.2) → 0 ≤ l.foldr (fun e acc => e.2 + acc) 0 := by
    intro l
    induction l with
    | nil => intro _; simp
    | cons a as ih =>
      intro hl
      simp only [List.foldr_cons]
      exact add_nonneg (hl a (by simp)) (ih fun e he => hl e (List.mem_cons_of_mem _ he))
  exact this _ fun e he => h e (List.mem_filter.mp he).1

theorem zeroEndSinograms_ok (z : Bool) (r : Row) (h : (∀ e ∈ r.elems, (0 : Rat) ≤ e.2) ∧ 0 < r.eff) :
    RowOK (zeroEndSinograms z r) := by
  unfold zeroEndSinograms
  split
  · exact ⟨h.1, Or.inr ⟨rfl, rfl⟩⟩
  · exact ⟨h.1, Or.inl h.2⟩

theorem gpsVoxel_eq_zero_of_sens (rows : List Row) (lam : Img) (j : Nat) (hok : ∀ r ∈ rows, RowOK r)
    (h : sensVoxel rows j = 0) : gpsVoxel rows lam j = 0 := by
  induction rows with
  | nil => rfl
  | cons r rs ih =>
    unfold sensVoxel at h ih
    unfold gpsVoxel at ih ⊢
    simp only [List.map_cons, sumR_cons] at h ⊢
    have hr := hok r (by simp)
    have hc := coeff_nonneg r j hr.1
    have ht : 0 ≤ coeff r j * r.eff := by
      rcases hr.2 with he | ⟨he, _⟩
      · exact mul_nonneg hc (le_of_lt he)
      · rw [he]; simp
    have hrest : 0 ≤ sumR (rs.map fun r => coeff r j * r.eff) := by
      have : ∀ l : List Row, (∀ r ∈ l, RowOK r) → 0 ≤ sumR (l.map fun r => coeff r j * r.eff) := by
        intro l
        induction l with
        | nil => intro _; simp [sumR]
        | cons a as iha =>
          intro hl
          simp only [List.map_cons, sumR_cons]
          have ha := hl a (by simp)
          refine add_nonneg ?_ (iha fun r hr => hl r (List.mem_cons_of_mem _ hr))
          rcases ha.2 with he | ⟨he, _⟩
          · exact mul_nonneg (coeff_nonneg a j ha.1) (le_of_lt he)
          · rw [he]; simp
      exact this rs fun r hr => hok r (List.mem_cons_of_mem _ hr)
    have h1 : coeff r j * r.eff = 0 := by linarith
    have h2 : sumR (rs.map fun r => coeff r j * r.eff) = 0 := by linarith
    rw [ih (fun r hr => hok r (List.mem_cons_of_mem _ hr)) h2, add_zero]
    rcases hr.2 with he | ⟨_, hy⟩
    · rcases mul_eq_zero.mp h1 with h0 | h0
      · rw [h0, zero_mul]
      · exact absurd h0 (ne_of_gt he)
    · simp [ratioRow, hy]

/-- the EM formula for the explicit system (subset sensitivities): `λ_j g_j / s_j`, `0` where `s_j = 0` -/
theorem emExplicit_em (c : Cfg) (z : Bool) (maxSeg : Int) (rows : List Row) (k : Nat) (lam : Img) (js : List Nat)
    (hrows : ∀ r ∈ rows, (∀ e ∈ r.elems, (0 : Rat) ≤ e.2) ∧ 0 < r.eff)
    (hlim : k = 1 ∨ ∀ j ∈ js,
      c.minRel ≤ gpsExplicit z maxSeg c.numSubsets (subsetNum k c.startSubset c.numSubsets) rows lam j /
          sensExplicit z true maxSeg c.numSubsets (subsetNum k c.startSubset c.numSubsets) rows j ∧
        gpsExplicit z maxSeg c.numSubsets (subsetNum k c.startSubset c.numSubsets) rows lam j /
          sensExplicit z true maxSeg c.numSubsets (subsetNum k c.startSubset c.numSubsets) rows j ≤ c.maxRel) :
    emExplicit c z true maxSeg rows k lam js =
      js.map fun j => Ext.fin
        (if sensExplicit z true maxSeg c.numSubsets (subsetNum k c.startSubset c.numSubsets) rows j = 0 then 0
         else voxelOf lam j * gpsExplicit z maxSeg c.numSubsets (subsetNum k c.startSubset c.numSubsets) rows lam j /
           sensExplicit z true maxSeg c.numSubsets (subsetNum k c.startSubset c.numSubsets) rows j) := by
  rw [emExplicit_eq]
  apply List.map_congr_left
  intro j hj
  apply updVoxel_em
  · rcases hlim with h1 | h2
    · left; simp [h1]
    · right; exact h2 j hj
  · intro hs
    unfold sensExplicit at hs
    simp only [if_true] at hs
    unfold gpsExplicit
    apply gpsVoxel_eq_zero_of_sens _ lam j _ hs
    intro r hr
    unfold subsetViewgrams at hr
    obtain ⟨r0, hr0, rfl⟩ := List.mem_map.mp hr
    exact zeroEndSinograms_ok z r0 (hrows r0 (List.mem_filter.mp hr0).1)

/-! ### count preservation for an arbitrary set of bins -/

variable {nb nv : ℕ}

/-- **count preservation**, any set `S` of bins (a subset; all bins but the end planes of segment 0; …), no additive term,
    every bin of `S` with counts has a non-zero estimated projection: `Σ_j s_S,j λ'_j = Σ_{b∈S} y_b`. -/
theorem count_preservation_subset (P : Fin nb → Fin nv → ℚ) (y eff : Fin nb → ℚ) (S : Finset (Fin nb)) (lam : Fin nv → ℚ)
    (hP : ∀ b j, 0 ≤ P b j) (he : ∀ b, 0 < eff b)
    (hreg : ∀ b ∈ S, y b ≠ 0 → fwd P lam b ≠ 0) :
    ∑ j, sensSpec P eff S j * emStep P y (fun _ => 0) eff S lam j = ∑ b ∈ S, y b := by
  have step1 : ∀ j, sensSpec P eff S j * emStep P y (fun _ => 0) eff S lam j
      = lam j * gpsSpec P y (fun _ => 0) S lam j := by
    intro j
    unfold emStep
    split_ifs with h
    · rw [gpsSpec_eq_zero_of_sens S hP he j h]; simp
    · field_simp
  simp only [step1, gpsSpec, add_zero]
  simp only [Finset.mul_sum]
  rw [Finset.sum_comm]
  apply Finset.sum_congr rfl
  intro b hb
  have : ∑ j, lam j * (P b j * (y b / fwd P lam b)) = (y b / fwd P lam b) * fwd P lam b := by
    unfold fwd
    rw [Finset.mul_sum]
    apply Finset.sum_congr rfl
    intro j _
    ring
  rw [this]
  by_cases hy : y b = 0
  · simp [hy]
  · exact div_mul_cancel₀ _ (hreg b hb hy)

end StirVerif.C07
