/-
C07 — helper lemmas: the filter slots as objects (`Filt`, `setUpSlot`, `Slots`): user chains of any shape, repeated
`set_up`; `divide_and_truncate` on viewgrams.
-/
import StirVerif.C07.ProofsPost

namespace StirVerif.C07

/-! ### the thresholding stage is idempotent -/

/-- `ThresholdMinToSmallPositiveValueDataProcessor` applied to its own output changes nothing -/
theorem threshold_idem (img : Img) :
    thresholdMinToSmallPositive (thresholdMinToSmallPositive img smallNum) smallNum = thresholdMinToSmallPositive img smallNum :=
  thresholdMinToSmallPositive_id _ smallNum_pos smallNum_le_one (thresholdMinToSmallPositive_pos img smallNum_pos)

/-- `n` thresholding stages in a row -/
def thrIter : Nat → Img → Img
  | 0, img => img
  | n + 1, img => thrIter n (thresholdMinToSmallPositive img smallNum)

theorem thrIter_succ (n : Nat) (img : Img) : thrIter (n + 1) img = thresholdMinToSmallPositive img smallNum := by
  induction n generalizing img with
  | zero => rfl
  | succ n ih =>
    show thrIter (n + 1) (thresholdMinToSmallPositive img smallNum) = _
    rw [ih, threshold_idem]

/-! ### the slot after `n` calls of `set_up` -/

theorem setUpSlot_null (interval : Nat) : setUpSlot interval .null = .null := by
  simp [setUpSlot, Filt.isNull]

theorem setUpSlotN_null (interval : Nat) : ∀ n, setUpSlotN interval n .null = .null
  | 0 => rfl
  | n + 1 => by rw [setUpSlotN, setUpSlot_null, setUpSlotN_null interval n]

theorem setUpSlot_zero (f : Filt) : setUpSlot 0 f = f := by simp [setUpSlot]

theorem setUpSlotN_zero (f : Filt) : ∀ n, setUpSlotN 0 n f = f
  | 0 => rfl
  | n + 1 => by rw [setUpSlotN, setUpSlot_zero, setUpSlotN_zero f n]

theorem setUpSlot_wrap (interval : Nat) (f : Filt) (hi : 0 < interval) (hf : f.isNull = false) :
    setUpSlot interval f = .chain f .threshold := by
  simp [setUpSlot, hi, hf]

/-- every call adds one stage: after `n` calls the slot's object applies the user's content and then `n` thresholdings -/
theorem setUpSlotN_apply (interval : Nat) (hi : 0 < interval) :
    ∀ (n : Nat) (f : Filt), f.isNull = false → ∀ img, (setUpSlotN interval n f).apply img = thrIter n (f.apply img)
  | 0, _, _, _ => rfl
  | n + 1, f, hf, img => by
    rw [setUpSlotN, setUpSlot_wrap interval f hi hf, setUpSlotN_apply interval hi n (.chain f .threshold) rfl]
    rfl

/-- … which is the user's content and then ONE thresholding, for every number `n ≥ 1` of calls -/
theorem setUpSlotN_apply_chained (interval n : Nat) (hi : 0 < interval) (hn : 1 ≤ n) (f : Filt) (hf : f.isNull = false)
    (img : Img) : (setUpSlotN interval n f).apply img = chained f.apply img := by
  obtain ⟨m, rfl⟩ : ∃ m, n = m + 1 := ⟨n - 1, by omega⟩
  rw [setUpSlotN_apply interval hi (m + 1) f hf, thrIter_succ]
  rfl

theorem setUpSlotN_isNull (interval : Nat) : ∀ (n : Nat) (f : Filt), (setUpSlotN interval n f).isNull = f.isNull
  | 0, _ => rfl
  | n + 1, f => by
    rw [setUpSlotN, setUpSlotN_isNull interval n]
    unfold setUpSlot
    split_ifs with h
    · simp only [Bool.and_eq_true, Bool.not_eq_true', decide_eq_true_eq] at h
      show false = f.isNull
      rw [h.2]
    · rfl

/-- the output of a set-up slot is strictly positive, whatever the user put into it -/
theorem setUpSlotN_pos (interval n : Nat) (hi : 0 < interval) (hn : 1 ≤ n) (f : Filt) (hf : f.isNull = false) (img : Img) :
    ∀ x ∈ (setUpSlotN interval n f).apply img, 0 < x := by
  rw [setUpSlotN_apply_chained interval n hi hn f hf]
  exact chained_pos _ _

theorem slots_setUpN_fields (c : Cfg) : ∀ (n : Nat) (s : Slots),
    (Slots.setUpN c n s).interUpdate = setUpSlotN c.interUpdateInterval n s.interUpdate ∧
    (Slots.setUpN c n s).interIteration = setUpSlotN c.interIterationInterval n s.interIteration ∧
    (Slots.setUpN c n s).post = s.post
  | 0, _ => ⟨rfl, rfl, rfl⟩
  | n + 1, s => by
    obtain ⟨h1, h2, h3⟩ := slots_setUpN_fields c n (Slots.setUp c s)
    exact ⟨h1, h2, h3⟩

/-- the slot of the object after `n ≥ 1` calls of `set_up`, fired at sub-iteration `k`, does what the model of the
    sub-iteration (`interUpdateFiltered` / `endOfIteration`: "user filter, thresholding chained behind it") does with the
    slot's ORIGINAL content as user filter -/
theorem slotFiltered_setUpSlotN (interval n : Nat) (hn : 1 ≤ n) (f : Filt) (k : Nat) (img : Img) :
    slotFiltered interval (setUpSlotN interval n f) k img =
      match f.toOption with
      | some g => if interval > 0 ∧ k % interval = 0 then chained g img else img
      | none => img := by
  unfold slotFiltered Filt.toOption
  cases hf : f.isNull with
  | true =>
    have : f = .null := by cases f <;> simp_all [Filt.isNull]
    subst this
    simp [setUpSlotN_null, Filt.apply]
  | false =>
    simp only [Bool.false_eq_true, if_false]
    split_ifs with h
    · exact setUpSlotN_apply_chained interval n h.1 hn f hf img
    · rfl

theorem updateEstimateS_setUpN (c : Cfg) (s : Slots) (n : Nat) (hn : 1 ≤ n) (k : Nat) (img : Img) :
    updateEstimateS c (Slots.setUpN c n s) k img = updateEstimate (Cfg.ofSlots c s) k img := by
  unfold updateEstimateS updateEstimate interUpdateFiltered Cfg.ofSlots
  simp only
  rw [(slots_setUpN_fields c n s).1, slotFiltered_setUpSlotN _ n hn]
  rfl

theorem endOfIterationS_setUpN (c : Cfg) (s : Slots) (n : Nat) (hn : 1 ≤ n) (last k : Nat) (img : Img) :
    endOfIterationS c (Slots.setUpN c n s) last k img = endOfIterationPost (Cfg.ofSlots c s) s.post.toOption last k img := by
  unfold endOfIterationS endOfIterationPost endOfIteration Cfg.ofSlots
  simp only
  rw [(slots_setUpN_fields c n s).2.1, (slots_setUpN_fields c n s).2.2, slotFiltered_setUpSlotN _ n hn]
  unfold Filt.toOption
  cases hp : s.post.isNull with
  | true =>
    have : s.post = .null := by cases h : s.post <;> simp_all [Filt.isNull]
    rw [this]
    simp only [Filt.apply, ite_self]
    rfl
  | false =>
    simp only [Bool.false_eq_true, if_false]
    rfl

theorem subIterS_setUpN (c : Cfg) (s : Slots) (n : Nat) (hn : 1 ≤ n) (last k : Nat) (img : Img) :
    subIterS c (Slots.setUpN c n s) last k img = subIterPost (Cfg.ofSlots c s) s.post.toOption last k img := by
  unfold subIterS subIterPost
  rw [updateEstimateS_setUpN c s n hn]
  cases allFin (updateEstimate (Cfg.ofSlots c s) k img) with
  | none => rfl
  | some im => simp [endOfIterationS_setUpN c s n hn]

/-! ### `divide_and_truncate` -/

theorem dtSmallValue_nonneg (num : List Rat) : 0 ≤ dtSmallValue num := by
  unfold dtSmallValue stdMax
  split_ifs with h
  · exact le_refl _
  · exact not_lt.mp h

theorem divideAndTruncate1_bounds (small num den : Rat) (hs : 0 ≤ small) :
    0 ≤ divideAndTruncate1 small num den ∧ divideAndTruncate1 small num den ≤ maxQuotient := by
  unfold divideAndTruncate1 maxQuotient
  split_ifs with h1 h2
  · norm_num
  · norm_num
  · have hn : 0 < num := lt_of_le_of_lt hs (not_le.mp h1)
    have h2' : num ≤ 10000 * den := not_lt.mp h2
    have hd : 0 < den := by nlinarith
    constructor
    · exact div_nonneg hn.le hd.le
    · rw [div_le_iff₀ hd]; exact h2'

theorem forall_mem_zipWith {α β γ : Type} (f : α → β → γ) (P : γ → Prop) (h : ∀ a b, P (f a b)) :
    ∀ (l1 : List α) (l2 : List β), ∀ q ∈ List.zipWith f l1 l2, P q
  | [], _, q, hq => by simp at hq
  | _ :: _, [], q, hq => by simp at hq
  | a :: as, b :: bs, q, hq => by
    simp only [List.zipWith_cons_cons, List.mem_cons] at hq
    rcases hq with rfl | hq
    · exact h a b
    · exact forall_mem_zipWith f P h as bs q hq

theorem divideAndTruncate_bounds (num den : List Rat) :
    ∀ q ∈ divideAndTruncate num den, 0 ≤ q ∧ q ≤ maxQuotient :=
  forall_mem_zipWith _ _ (fun a b => divideAndTruncate1_bounds _ a b (dtSmallValue_nonneg num)) num den

theorem divideAndTruncate1_zero (small den : Rat) (hs : 0 ≤ small) : divideAndTruncate1 small 0 den = 0 := by
  unfold divideAndTruncate1; rw [if_pos hs]

theorem divideAndTruncate1_regular (small num den : Rat) (h1 : small < num) (h2 : num ≤ maxQuotient * den) :
    divideAndTruncate1 small num den = num / den := by
  unfold divideAndTruncate1
  rw [if_neg (not_le.mpr h1), if_neg (not_lt.mpr h2)]

end StirVerif.C07
