/-
C07 — bridge between the rational specification of the EM step (`emStep`, ProofsSum.lean) and the real-number
EM monotonicity theorem (ProofsLogLik.lean).
-/
import StirVerif.C07.ProofsRun
import StirVerif.C07.ProofsLogLik
import Mathlib.Data.Rat.Cast.Order
import Mathlib.Data.Real.Basic

namespace StirVerif.C07
open Finset

/-- the rational EM step of the model's specification, read in ℝ, is the real EM step -/
theorem emStep_cast {nb nv : ℕ} (P : Fin nb → Fin nv → ℚ) (y a eff : Fin nb → ℚ) (lam : Fin nv → ℚ) (j : Fin nv) :
    ((emStep P y a eff univ lam j : ℚ) : ℝ) =
      Real.em (fun b j => (P b j : ℝ)) (fun b => (y b : ℝ)) (fun b => (a b : ℝ)) (fun b => (eff b : ℝ))
        (fun j => (lam j : ℝ)) j := by
  have hs : Real.sens (fun b j => (P b j : ℝ)) (fun b => (eff b : ℝ)) j = ((sensSpec P eff univ j : ℚ) : ℝ) := by
    simp only [Real.sens, sensSpec]; push_cast; rfl
  have hg : Real.gps (fun b j => (P b j : ℝ)) (fun b => (y b : ℝ)) (fun b => (a b : ℝ)) (fun j => (lam j : ℝ)) j
      = ((gpsSpec P y a univ lam j : ℚ) : ℝ) := by
    simp only [Real.gps, Real.ybar, gpsSpec, fwd]; push_cast; rfl
  simp only [Real.em, Real.ratio, hs, hg, emStep]
  by_cases h : sensSpec P eff univ j = 0
  · simp [h]
  · have h' : ((sensSpec P eff univ j : ℚ) : ℝ) ≠ 0 := by exact_mod_cast h
    rw [if_neg h, if_neg h']
    push_cast
    ring

/-- EM monotonicity for rational inputs: the log-likelihood (evaluated in ℝ) of the EM step of the specification -/
theorem loglik_monotone_rat {nb nv : ℕ} (P : Fin nb → Fin nv → ℚ) (y a eff : Fin nb → ℚ) (lam : Fin nv → ℚ)
    (hP : ∀ b j, 0 ≤ P b j) (hy : ∀ b, 0 ≤ y b) (ha : ∀ b, 0 ≤ a b) (he : ∀ b, 0 < eff b) (hl : ∀ j, 0 < lam j)
    (hq : ∀ b, 0 < fwd P lam b + a b) :
    Real.logLik (fun b j => (P b j : ℝ)) (fun b => (y b : ℝ)) (fun b => (a b : ℝ)) (fun b => (eff b : ℝ))
        (fun j => (lam j : ℝ)) ≤
      Real.logLik (fun b j => (P b j : ℝ)) (fun b => (y b : ℝ)) (fun b => (a b : ℝ)) (fun b => (eff b : ℝ))
        (fun j => ((emStep P y a eff univ lam j : ℚ) : ℝ)) := by
  have e : (fun j => ((emStep P y a eff univ lam j : ℚ) : ℝ)) =
      Real.em (fun b j => (P b j : ℝ)) (fun b => (y b : ℝ)) (fun b => (a b : ℝ)) (fun b => (eff b : ℝ))
        (fun j => (lam j : ℝ)) := funext fun j => emStep_cast P y a eff lam j
  rw [e]
  apply Real.loglik_monotone'
  · intro b j; exact_mod_cast hP b j
  · intro b; exact_mod_cast hy b
  · intro b; exact_mod_cast ha b
  · intro b; exact_mod_cast he b
  · intro j; exact_mod_cast hl j
  · intro b
    have := hq b
    have h2 : Real.ybar (fun b j => (P b j : ℝ)) (fun b => (a b : ℝ)) (fun j => (lam j : ℝ)) b
        = ((fwd P lam b + a b : ℚ) : ℝ) := by
      simp only [Real.ybar, fwd]; push_cast; rfl
    rw [h2]
    exact_mod_cast this

end StirVerif.C07
