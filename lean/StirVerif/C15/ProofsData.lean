/-
C15 — proofs, part 5: from the output geometry of `SSRB(ProjDataInfo…)` to the sinogram matching of `SSRB(ProjData&…)`.
-/
import StirVerif.C15.ProofsGroup

namespace StirVerif.C15
open StirVerif.C01

/-! ### list indexing -/

theorem irange_length (lo hi : Int) : (irange lo hi).length = (hi - lo + 1).toNat := by
  unfold irange; simp

theorem irange_getElem? (lo hi : Int) (k : Nat) (hk : k < (hi - lo + 1).toNat) : (irange lo hi)[k]? = some (lo + k) := by
  unfold irange
  rw [List.getElem?_map, List.getElem?_range hk]
  rfl

theorem collect_getElem (f : Int → Option Seg) (l : List Int) (g : List Seg) (h : collect f l = some g) :
    ∀ (k : Nat) (i : Int), l[k]? = some i → ∃ s, f i = some s ∧ g[k]? = some s := by
  induction l generalizing g with
  | nil => intro k i hk; simp at hk
  | cons a r ih =>
    unfold collect at h
    split at h
    · rename_i s l' hs hl
      simp only [Option.some.injEq] at h
      subst h
      intro k i hk
      cases k with
      | zero =>
        simp only [List.getElem?_cons_zero, Option.some.injEq] at hk
        subst hk
        exact ⟨s, hs, by simp⟩
      | succ k' =>
        simp only [List.getElem?_cons_succ] at hk
        obtain ⟨s', h1, h2⟩ := ih l' hl k' i hk
        exact ⟨s', h1, by simpa using h2⟩
    · exact absurd h (by simp)

theorem collect_length (f : Int → Option Seg) (l : List Int) (g : List Seg) (h : collect f l = some g) : g.length = l.length := by
  induction l generalizing g with
  | nil => simp only [collect, Option.some.injEq] at h; subst h; rfl
  | cons a r ih =>
    unfold collect at h
    split at h
    · rename_i s l' hs hl
      simp only [Option.some.injEq] at h
      subst h
      simp [ih l' hl]
    · exact absurd h (by simp)

/-! ### the output geometry, segment by segment -/

/-- every segment of the geometry returned by `SSRB(ProjDataInfo…)` is the `ssrbOutSeg` of its number -/
theorem ssrbInfo_seg (p o : PDI) (kSeg kView trim maxSegArg kTof : Int) (h : ssrbInfo p kSeg kView trim maxSegArg kTof = some o) :
    o.R = p.R ∧ o.N = p.N ∧ o.numViews = p.numViews.tdiv kView ∧
    ∀ os og, o.seg? os = some og → ssrbOutSeg p kSeg os = some og := by
  unfold ssrbInfo at h
  generalize ssrbOutMax p kSeg maxSegArg = outMax at h
  split at h
  · exact absurd h (by simp)
  · split at h
    · rename_i segs tofMash minTof maxTof hsegs _
      simp only [Option.some.injEq] at h
      subst h
      refine ⟨rfl, rfl, rfl, ?_⟩
      intro os og hog
      unfold PDI.seg? at hog
      simp only at hog
      split at hog
      · exact absurd hog (by simp)
      · rename_i hlt
        have hlen := collect_length _ _ _ hsegs
        rw [irange_length] at hlen
        have hk : (os - -outMax).toNat < (outMax - -outMax + 1).toNat := by
          have := (List.getElem?_eq_some_iff.mp hog).1
          omega
        obtain ⟨s, hs1, hs2⟩ := collect_getElem _ _ _ hsegs (os - -outMax).toNat (-outMax + ((os - -outMax).toNat : Int))
          (irange_getElem? _ _ _ hk)
        rw [hog] at hs2
        cases hs2
        have : -outMax + ((os - -outMax).toNat : Int) = os := by omega
        rw [this] at hs1
        exact hs1
    · exact absurd h (by simp)

/-! ### `get_segment_axial_pos_num_for_ring_pair` spelled out -/

theorem segAx_spec (g : Geom) (r1 r2 s a : Int) (h : g.segAxOfRingPair r1 r2 = some (s, a)) :
    ∃ sg off, g.seg? s = some sg ∧ sg.axOff g.R = some off ∧ a = sg.axOf off r1 r2 ∧ sg.minRD ≤ r2 - r1 ∧ r2 - r1 ≤ sg.maxRD := by
  unfold Geom.segAxOfRingPair at h
  simp only [Option.bind_eq_bind, Option.bind_eq_some_iff, Option.pure_def, Option.some.injEq, Prod.mk.injEq] at h
  obtain ⟨s', hs', sg, hsg, off, hoff, rfl, rfl⟩ := h
  refine ⟨sg, off, hsg, hoff, rfl, ?_⟩
  unfold Geom.segOfRingDiff at hs'
  split at hs'
  · split at hs'
    · exact absurd hs' (by simp)
    · cases hf : List.findIdx? (fun s => decide (r2 - r1 ≥ s.minRD) && decide (r2 - r1 ≤ s.maxRD)) g.segs with
      | none => rw [hf] at hs'; simp at hs'
      | some k =>
        rw [hf] at hs'
        simp at hs'
        subst hs'
        rw [List.findIdx?_eq_some_iff_getElem] at hf
        obtain ⟨hlt, hp, _⟩ := hf
        unfold Geom.seg? at hsg
        have hnn : ¬ (g.minSeg + (k : Int) < g.minSeg) := by omega
        simp only [hnn, if_false] at hsg
        have hidx : (g.minSeg + (k : Int) - g.minSeg).toNat = k := by omega
        rw [hidx, List.getElem?_eq_getElem hlt] at hsg
        cases hsg
        simp only [Bool.and_eq_true, decide_eq_true_eq] at hp
        exact hp
  · exact absurd hs' (by simp)

/-! ### the scan over the input segments -/

def contained (og sg : Seg) : Prop := sg.minRD ≥ og.minRD ∧ sg.maxRD ≤ og.maxRD
def disjointRD (og sg : Seg) : Prop := sg.minRD > og.maxRD ∨ sg.maxRD < og.minRD

theorem inSegRange_fold (og : Seg) (l : List (Int × Seg)) (acc : Int × Int)
    (hcls : ∀ x ∈ l, contained og x.2 ∨ disjointRD og x.2) :
    ∃ r, l.foldlM (inSegStep og) acc = some r ∧ r.1 ≤ acc.1 ∧ acc.2 ≤ r.2 ∧
      ∀ x ∈ l, contained og x.2 → r.1 ≤ x.1 ∧ x.1 ≤ r.2 := by
  induction l generalizing acc with
  | nil => exact ⟨acc, rfl, Int.le_refl _, Int.le_refl _, fun x hx => absurd hx (by simp)⟩
  | cons a rest ih =>
    simp only [List.foldlM_cons, Option.bind_eq_bind]
    have ha := hcls a (by simp)
    by_cases hc : contained og a.2
    · have hstep : inSegStep og acc a = some (if acc.1 > a.1 then a.1 else acc.1, if acc.2 < a.1 then a.1 else acc.2) := by
        unfold inSegStep; unfold contained at hc; simp [hc]
      rw [hstep]
      obtain ⟨r, hr, h1, h2, h3⟩ := ih (if acc.1 > a.1 then a.1 else acc.1, if acc.2 < a.1 then a.1 else acc.2)
        (fun x hx => hcls x (by simp [hx]))
      refine ⟨r, hr, ?_, ?_, ?_⟩
      · simp only at h1; split at h1 <;> omega
      · simp only at h2; split at h2 <;> omega
      · intro x hx hxc
        rcases List.mem_cons.mp hx with rfl | hx'
        · simp only at h1 h2
          constructor
          · split at h1 <;> omega
          · split at h2 <;> omega
        · exact h3 x hx' hxc
    · have hd : disjointRD og a.2 := by
        rcases ha with h | h
        · exact absurd h hc
        · exact h
      have hstep : inSegStep og acc a = some acc := by
        unfold inSegStep; unfold contained at hc; unfold disjointRD at hd; simp [hc, hd]
      rw [hstep]
      obtain ⟨r, hr, h1, h2, h3⟩ := ih acc (fun x hx => hcls x (by simp [hx]))
      refine ⟨r, hr, h1, h2, ?_⟩
      intro x hx hxc
      rcases List.mem_cons.mp hx with rfl | hx'
      · exact absurd hxc hc
      · exact h3 x hx' hxc

theorem mem_zip_segs (p : PDI) (i : Int) (s : Seg) :
    (i, s) ∈ List.zip (irange p.minSeg p.maxSeg) p.segs ↔ p.seg? i = some s := by
  have hlen : (p.maxSeg - p.minSeg + 1).toNat = p.segs.length := by unfold PDI.maxSeg; omega
  rw [List.mem_iff_getElem?]
  constructor
  · rintro ⟨k, hk⟩
    rw [List.getElem?_zip_eq_some] at hk
    obtain ⟨h1, h2⟩ := hk
    simp only at h1 h2
    have hk' : k < p.segs.length := (List.getElem?_eq_some_iff.mp h2).1
    rw [irange_getElem? _ _ _ (by omega)] at h1
    simp only [Option.some.injEq] at h1
    subst h1
    unfold PDI.seg?
    have : ¬ (p.minSeg + (k : Int) < p.minSeg) := by omega
    simp only [this, if_false]
    have : (p.minSeg + (k : Int) - p.minSeg).toNat = k := by omega
    rw [this]; exact h2
  · intro h
    unfold PDI.seg? at h
    split at h
    · exact absurd h (by simp)
    · rename_i hlt
      have hk' : (i - p.minSeg).toNat < p.segs.length := (List.getElem?_eq_some_iff.mp h).1
      refine ⟨(i - p.minSeg).toNat, ?_⟩
      rw [List.getElem?_zip_eq_some]
      refine ⟨?_, h⟩
      rw [irange_getElem? _ _ _ (by omega)]
      simp only [Option.some.injEq]
      omega

/-- the ring-difference range and the input segments of one output segment -/
theorem ssrbOutSeg_rd (p : PDI) (kSeg os : Int) (og : Seg) (h : ssrbOutSeg p kSeg os = some og) :
    ∃ a a1, p.seg? (os * kSeg - kSeg.tdiv 2) = some a ∧ p.seg? (os * kSeg + kSeg.tdiv 2) = some a1 ∧
      og.minRD = a.minRD ∧ og.maxRD = a1.maxRD ∧
      ∀ i, os * kSeg - kSeg.tdiv 2 ≤ i → i ≤ os * kSeg + kSeg.tdiv 2 → ∃ s, p.seg? i = some s := by
  unfold ssrbOutSeg at h
  simp only [Option.bind_eq_bind, Option.bind_eq_some_iff] at h
  obtain ⟨a, ha, a1, ha1, grp, hgrp, h⟩ := h
  have key : ∀ (c : Bool) (x : Seg), (if c = true then none else some x) = some og → x = og := by
    intro c x hx; cases c <;> simp_all
  have hog := key _ _ h
  refine ⟨a, a1, ha, ha1, by rw [← hog], by rw [← hog], ?_⟩
  · intro i h1 h2
    obtain ⟨s, hs, _⟩ := (collect_spec _ _ _ hgrp).1 i (by rw [mem_irange]; exact ⟨h1, h2⟩)
    exact ⟨s, hs⟩

/-- what is assumed of the whole input geometry: the facts `ProjDataInfoCylindrical` checks, plus `Exact` (C01's `WFb` contains all of them) -/
structure PDI.WF (p : PDI) : Prop where
  offs : ∀ i s, p.seg? i = some s → ∃ off, s.axOff p.R = some off ∧ s.Exact off
  pos : ∀ i s, p.seg? i = some s → 1 ≤ s.numAx
  rd : ∀ i s, p.seg? i = some s → s.minRD ≤ s.maxRD
  sorted : ∀ i j si sj, i < j → p.seg? i = some si → p.seg? j = some sj → si.maxRD < sj.minRD

theorem PDI.WF.group (p : PDI) (wf : p.WF) (lo hi : Int) : GroupWF p lo hi :=
  { offs := fun i s _ _ h => (wf.offs i s h).imp fun _ h' => h'.1
    pos := fun i s _ _ h => wf.pos i s h
    rd := fun i s _ _ h => wf.rd i s h
    sorted := fun i j si sj _ hij _ h1 h2 => wf.sorted i j si sj hij h1 h2 }

/-- **`ssrb_commutes_with_binning`, axial part, on the real data structures**: `pout` the geometry returned by
    `SSRB(pin, kSeg, …)`; a ring pair that the input geometry bins into sinogram `(is, ia)` (inside the input's axial range) and the
    output geometry into `(os, oa)`: then `(os, oa)` is inside the output's range and is exactly the output sinogram into which the
    loops of `SSRB(out, in)` add input sinogram `(is, ia)`. -/
theorem ssrb_pulls_axial (pin pout : PDI) (kSeg kView trim maxSegArg kTof : Int)
    (hinfo : ssrbInfo pin kSeg kView trim maxSegArg kTof = some pout) (hk : 0 ≤ kSeg.tdiv 2) (wf : pin.WF)
    (r1 r2 is ia os oa : Int)
    (hin : pin.toGeom.segAxOfRingPair r1 r2 = some (is, ia))
    (hia : ∀ sg, pin.seg? is = some sg → 0 ≤ ia ∧ ia < sg.numAx)
    (hout : pout.toGeom.segAxOfRingPair r1 r2 = some (os, oa)) :
    ∃ og sg lo hi, pout.seg? os = some og ∧ pin.seg? is = some sg ∧ inSegRange pin og = some (lo, hi) ∧ lo ≤ is ∧ is ≤ hi ∧
      0 ≤ oa ∧ oa < og.numAx ∧ firstAxWithM sg (og.m4 oa) = some ia := by
  obtain ⟨hR, _, _, hsegs⟩ := ssrbInfo_seg pin pout kSeg kView trim maxSegArg kTof hinfo
  obtain ⟨sg, off, hsg, hoff, hia', hrd1, hrd2⟩ := segAx_spec _ _ _ _ _ hin
  obtain ⟨og, offO, hog, hoffO, hoa', hord1, hord2⟩ := segAx_spec _ _ _ _ _ hout
  have hsg' : pin.seg? is = some sg := hsg
  have hog' : pout.seg? os = some og := hog
  have hoffO' : og.axOff pin.R = some offO := by rw [← hR]; exact hoffO
  have hoff' : sg.axOff pin.R = some off := hoff
  have hout' := hsegs os og hog'
  obtain ⟨a, a1, ha, ha1, hmin, hmax, hall⟩ := ssrbOutSeg_rd pin kSeg os og hout'
  generalize hlo : os * kSeg - kSeg.tdiv 2 = lo at *
  generalize hhi : os * kSeg + kSeg.tdiv 2 = hi at *
  -- the input segment lies in the group of the output segment
  have hge : lo ≤ is := by
    rcases Int.lt_or_le is lo with hlt | hle
    · have := wf.sorted is lo sg a hlt hsg' ha
      omega
    · exact hle
  have hle : is ≤ hi := by
    rcases Int.lt_or_le hi is with hlt | hle
    · have := wf.sorted hi is a1 sg hlt ha1 hsg'
      omega
    · exact hle
  obtain ⟨off2, hoff2, hex⟩ := wf.offs is sg hsg'
  rw [hoff'] at hoff2
  cases hoff2
  have hiar := hia sg hsg'
  rw [hia'] at hiar
  obtain ⟨offO', h1, _, _, _, h5, h6, h7⟩ := ssrbOutSeg_commutes pin kSeg os og hk hout'
    (by rw [hlo, hhi]; exact wf.group pin lo hi) is (by rw [hlo, hhi]; exact ⟨hge, hle⟩) sg hsg' off hoff' hex r1 r2 ⟨hrd1, hrd2⟩ hiar
  rw [hoffO'] at h1
  cases h1
  -- the scan over the input segments
  have hcls : ∀ x ∈ List.zip (irange pin.minSeg pin.maxSeg) pin.segs, contained og x.2 ∨ disjointRD og x.2 := by
    rintro ⟨i, s⟩ hx
    have hs : pin.seg? i = some s := (mem_zip_segs pin i s).mp hx
    simp only
    unfold contained disjointRD
    have hsrd := wf.rd i s hs
    rcases Int.lt_or_le i lo with h1 | h1
    · right; right
      have := wf.sorted i lo s a h1 hs ha
      omega
    · rcases Int.lt_or_le hi i with h2 | h2
      · right; left
        have := wf.sorted hi i a1 s h2 ha1 hs
        omega
      · left
        constructor
        · rcases Int.lt_or_le lo i with h3 | h3
          · have := wf.sorted lo i a s h3 ha hs
            have := wf.rd lo a ha
            omega
          · have : i = lo := by omega
            subst this
            rw [ha] at hs; cases hs; omega
        · rcases Int.lt_or_le i hi with h3 | h3
          · have := wf.sorted i hi s a1 h3 hs ha1
            have := wf.rd hi a1 ha1
            omega
          · have : i = hi := by omega
            subst this
            rw [ha1] at hs; cases hs; omega
  obtain ⟨r, hr, _, _, hr3⟩ := inSegRange_fold og _ (pin.maxSeg, pin.minSeg) hcls
  have hcont : contained og sg := by
    unfold contained
    constructor
    · rcases Int.lt_or_le lo is with h3 | h3
      · have := wf.sorted lo is a sg h3 ha hsg'
        have := wf.rd lo a ha
        omega
      · have : is = lo := by omega
        subst this
        rw [ha] at hsg'; cases hsg'; omega
    · rcases Int.lt_or_le is hi with h3 | h3
      · have := wf.sorted is hi sg a1 h3 hsg' ha1
        have := wf.rd hi a1 ha1
        omega
      · have : is = hi := by omega
        subst this
        rw [ha1] at hsg'; cases hsg'; omega
  have hin2 := hr3 (is, sg) ((mem_zip_segs pin is sg).mpr hsg') hcont
  refine ⟨og, sg, r.1, r.2, hog', hsg', hr, hin2.1, hin2.2, ?_, ?_, ?_⟩
  · rw [hoa']; exact h5
  · rw [hoa']; exact h6
  · rw [hoa', h7, hia']
    exact firstAxWithM_eq sg _ hiar

/-- in terms of the loop body of `SSRB(out, in)`: for such a ring pair, whether input sinogram `(is, ia, it)` is added to output
    sinogram `(os, oa, ot)` is decided by the TOF window alone -/
theorem ssrb_pullsSino_eq_tof (pin pout : PDI) (kSeg kView trim maxSegArg kTof : Int)
    (hinfo : ssrbInfo pin kSeg kView trim maxSegArg kTof = some pout) (hk : 0 ≤ kSeg.tdiv 2) (wf : pin.WF)
    (r1 r2 is ia os oa it ot : Int)
    (hin : pin.toGeom.segAxOfRingPair r1 r2 = some (is, ia))
    (hia : ∀ sg, pin.seg? is = some sg → 0 ≤ ia ∧ ia < sg.numAx)
    (hout : pout.toGeom.segAxOfRingPair r1 r2 = some (os, oa)) :
    pullsSino pin pout os oa ot is ia it = tofInWindow pin.tofMash pout.tofMash it ot := by
  obtain ⟨og, sg, lo, hi, h1, h2, h3, h4, h5, _, _, h8⟩ :=
    ssrb_pulls_axial pin pout kSeg kView trim maxSegArg kTof hinfo hk wf r1 r2 is ia os oa hin hia hout
  unfold pullsSino
  rw [h1, h2]
  simp only [h3, h8, h4, h5, and_self, decide_true, beq_self_eq_true, Bool.true_and]

/-! ### uniqueness of the receiving output sinogram -/

theorem inSegRange_fold_tight (og : Seg) (l : List (Int × Seg)) (acc : Int × Int) (r : Int × Int)
    (h : l.foldlM (inSegStep og) acc = some r) :
    (r.1 = acc.1 ∨ ∃ x ∈ l, contained og x.2 ∧ r.1 = x.1) ∧ (r.2 = acc.2 ∨ ∃ x ∈ l, contained og x.2 ∧ r.2 = x.1) := by
  induction l generalizing acc with
  | nil =>
    simp only [List.foldlM_nil, Option.pure_def, Option.some.injEq] at h
    subst h
    exact ⟨Or.inl rfl, Or.inl rfl⟩
  | cons a rest ih =>
    simp only [List.foldlM_cons, Option.bind_eq_bind, Option.bind_eq_some_iff] at h
    obtain ⟨acc', hstep, hrest⟩ := h
    obtain ⟨h1, h2⟩ := ih acc' hrest
    unfold inSegStep at hstep
    split at hstep
    · rename_i hc
      simp only [Option.some.injEq] at hstep
      subst hstep
      simp only at h1 h2
      constructor
      · rcases h1 with h1 | ⟨x, hx, hxc, hx1⟩
        · split at h1
          · right; exact ⟨a, by simp, hc, h1⟩
          · left; exact h1
        · right; exact ⟨x, by simp [hx], hxc, hx1⟩
      · rcases h2 with h2 | ⟨x, hx, hxc, hx1⟩
        · split at h2
          · right; exact ⟨a, by simp, hc, h2⟩
          · left; exact h2
        · right; exact ⟨x, by simp [hx], hxc, hx1⟩
    · split at hstep
      · simp only [Option.some.injEq] at hstep
        subst hstep
        constructor
        · rcases h1 with h1 | ⟨x, hx, hxc, hx1⟩
          · left; exact h1
          · right; exact ⟨x, by simp [hx], hxc, hx1⟩
        · rcases h2 with h2 | ⟨x, hx, hxc, hx1⟩
          · left; exact h2
          · right; exact ⟨x, by simp [hx], hxc, hx1⟩
      · exact absurd hstep (by simp)

/-- for a well-formed input and an output segment built by `SSRB(ProjDataInfo…)`, the scan of `SSRB(ProjData&…)` finds exactly
    the group of input segments the output segment was built from -/
theorem inSegRange_group (pin : PDI) (wf : pin.WF) (kSeg os : Int) (og : Seg) (hk : 0 ≤ kSeg.tdiv 2)
    (h : ssrbOutSeg pin kSeg os = some og) :
    inSegRange pin og = some (os * kSeg - kSeg.tdiv 2, os * kSeg + kSeg.tdiv 2) := by
  obtain ⟨a, a1, ha, ha1, hmin, hmax, hall⟩ := ssrbOutSeg_rd pin kSeg os og h
  generalize hlo : os * kSeg - kSeg.tdiv 2 = lo at *
  generalize hhi : os * kSeg + kSeg.tdiv 2 = hi at *
  have hlohi : lo ≤ hi := by omega
  -- classification of every input segment
  have hcls : ∀ i s, pin.seg? i = some s →
      (lo ≤ i ∧ i ≤ hi ∧ contained og s) ∨ ((i < lo ∨ hi < i) ∧ disjointRD og s ∧ ¬ contained og s) := by
    intro i s hs
    unfold contained disjointRD
    have hsrd := wf.rd i s hs
    have hard := wf.rd lo a ha
    have ha1rd := wf.rd hi a1 ha1
    rcases Int.lt_or_le i lo with h1 | h1
    · right
      have := wf.sorted i lo s a h1 hs ha
      exact ⟨Or.inl h1, Or.inr (by omega), by omega⟩
    · rcases Int.lt_or_le hi i with h2 | h2
      · right
        have := wf.sorted hi i a1 s h2 ha1 hs
        exact ⟨Or.inr h2, Or.inl (by omega), by omega⟩
      · left
        refine ⟨h1, h2, ?_, ?_⟩
        · rcases Int.lt_or_le lo i with h3 | h3
          · have := wf.sorted lo i a s h3 ha hs
            omega
          · have : i = lo := by omega
            subst this
            rw [ha] at hs; cases hs; omega
        · rcases Int.lt_or_le i hi with h3 | h3
          · have := wf.sorted i hi s a1 h3 hs ha1
            omega
          · have : i = hi := by omega
            subst this
            rw [ha1] at hs; cases hs; omega
  have hcls' : ∀ x ∈ List.zip (irange pin.minSeg pin.maxSeg) pin.segs, contained og x.2 ∨ disjointRD og x.2 := by
    rintro ⟨i, s⟩ hx
    rcases hcls i s ((mem_zip_segs pin i s).mp hx) with h | h
    · exact Or.inl h.2.2
    · exact Or.inr h.2.1
  obtain ⟨r, hr, _, _, hr3⟩ := inSegRange_fold og _ (pin.maxSeg, pin.minSeg) hcls'
  obtain ⟨ht1, ht2⟩ := inSegRange_fold_tight og _ _ r hr
  -- bounds of the table
  have hbound : ∀ i s, pin.seg? i = some s → pin.minSeg ≤ i ∧ i ≤ pin.maxSeg := by
    intro i s hs
    unfold PDI.seg? at hs
    split at hs
    · exact absurd hs (by simp)
    · have := (List.getElem?_eq_some_iff.mp hs).1
      unfold PDI.maxSeg
      omega
  have hcl : contained og a := by
    rcases hcls lo a ha with h | h
    · exact h.2.2
    · omega
  have hch : contained og a1 := by
    rcases hcls hi a1 ha1 with h | h
    · exact h.2.2
    · omega
  have h1 := hr3 (lo, a) ((mem_zip_segs pin lo a).mpr ha) hcl
  have h2 := hr3 (hi, a1) ((mem_zip_segs pin hi a1).mpr ha1) hch
  simp only at h1 h2
  have e1 : r.1 = lo := by
    rcases ht1 with h | ⟨⟨i, s⟩, hx, hxc, hx1⟩
    · simp only at h
      have := (hbound lo a ha).2
      omega
    · simp only at hxc hx1
      rcases hcls i s ((mem_zip_segs pin i s).mp hx) with h | h
      · omega
      · exact absurd hxc h.2.2
  have e2 : r.2 = hi := by
    rcases ht2 with h | ⟨⟨i, s⟩, hx, hxc, hx1⟩
    · simp only at h
      have := (hbound hi a1 ha1).1
      omega
    · simp only at hxc hx1
      rcases hcls i s ((mem_zip_segs pin i s).mp hx) with h | h
      · omega
      · exact absurd hxc h.2.2
  unfold inSegRange
  rw [hr]
  cases r
  simp only at e1 e2
  rw [e1, e2]

/-- the TOF windows of different output bins are disjoint -/
theorem tofInWindow_unique (m mk it ot ot' : Int) (hmk : 0 < mk) (h : tofInWindow m mk it ot = true) (h' : tofInWindow m mk it ot' = true) :
    ot = ot' := by
  unfold tofInWindow at h h'
  rw [if_neg (by omega)] at h h'
  simp only [decide_eq_true_eq] at h h'
  have e : ∀ x : Int, 2 * x * mk = 2 * (x * mk) := fun x => Int.mul_assoc 2 x mk
  rw [e ot] at h
  rw [e ot'] at h'
  rcases Int.lt_trichotomy ot ot' with hlt | heq | hgt
  · exfalso
    have : (ot + 1) * mk ≤ ot' * mk := Int.mul_le_mul_of_nonneg_right (by omega) (by omega)
    rw [Int.add_mul] at this
    omega
  · exact heq
  · exfalso
    have : (ot' + 1) * mk ≤ ot * mk := Int.mul_le_mul_of_nonneg_right (by omega) (by omega)
    rw [Int.add_mul] at this
    omega

/-- **no double counting**: an input sinogram is added into at most one output sinogram
    (`num_segments_to_combine` odd and positive; TOF output, or an output with a single TOF position) -/
theorem pullsSino_unique (pin pout : PDI) (kSeg kView trim maxSegArg kTof : Int)
    (hinfo : ssrbInfo pin kSeg kView trim maxSegArg kTof = some pout) (hk : 0 < kSeg) (hodd : kSeg % 2 = 1) (wf : pin.WF)
    (os oa ot os' oa' ot' is ia it : Int)
    (htof : 0 < pout.tofMash ∨ (pout.minTof = pout.maxTof ∧ pout.minTof ≤ ot ∧ ot ≤ pout.maxTof ∧ pout.minTof ≤ ot' ∧ ot' ≤ pout.maxTof))
    (h : pullsSino pin pout os oa ot is ia it = true) (h' : pullsSino pin pout os' oa' ot' is ia it = true) :
    os = os' ∧ oa = oa' ∧ ot = ot' := by
  obtain ⟨_, _, _, hsegs⟩ := ssrbInfo_seg pin pout kSeg kView trim maxSegArg kTof hinfo
  have hk2 : 0 ≤ kSeg.tdiv 2 := by rw [Int.tdiv_eq_ediv_of_nonneg (by omega)]; omega
  have hk2' : kSeg.tdiv 2 = (kSeg - 1) / 2 := by rw [Int.tdiv_eq_ediv_of_nonneg (by omega)]; omega
  unfold pullsSino at h h'
  cases hog : pout.seg? os with
  | none => rw [hog] at h; simp at h
  | some og =>
    cases hog' : pout.seg? os' with
    | none => rw [hog'] at h'; simp at h'
    | some og' =>
      cases hsg : pin.seg? is with
      | none => rw [hog, hsg] at h; simp at h
      | some sg =>
        simp only [hog, hsg, inSegRange_group pin wf kSeg os og hk2 (hsegs os og hog)] at h
        simp only [hog', hsg, inSegRange_group pin wf kSeg os' og' hk2 (hsegs os' og' hog')] at h'
        simp only [Bool.and_eq_true, decide_eq_true_eq, beq_iff_eq] at h h'
        obtain ⟨⟨⟨h1, h2⟩, h3⟩, h4⟩ := h
        obtain ⟨⟨⟨h1', h2'⟩, h3'⟩, h4'⟩ := h'
        have hos : os = os' := by
          have e1 : os * kSeg = kSeg * os := Int.mul_comm _ _
          have e2 : os' * kSeg = kSeg * os' := Int.mul_comm _ _
          rcases Int.lt_trichotomy os os' with hlt | heq | hgt
          · exfalso
            have : kSeg * (os + 1) ≤ kSeg * os' := Int.mul_le_mul_of_nonneg_left (by omega) (by omega)
            rw [Int.mul_add] at this
            omega
          · exact heq
          · exfalso
            have : kSeg * (os' + 1) ≤ kSeg * os := Int.mul_le_mul_of_nonneg_left (by omega) (by omega)
            rw [Int.mul_add] at this
            omega
        subst hos
        rw [hog] at hog'
        cases hog'
        refine ⟨rfl, ?_, ?_⟩
        rotate_left
        · rcases htof with ht | ht
          · exact tofInWindow_unique _ _ _ _ _ ht h4 h4'
          · omega
        -- both axial positions have the m of input position `ia`
        unfold firstAxWithM at h3 h3'
        have m1 := List.find?_some h3
        have m2 := List.find?_some h3'
        simp only [beq_iff_eq] at m1 m2
        rw [m4_def, m4_def] at m1 m2
        rcases mfac_eq og with ⟨_, hf⟩ | ⟨_, hf⟩ <;> rcases mfac_eq sg with ⟨_, hg⟩ | ⟨_, hg⟩ <;> rw [hf, hg] at m1 m2 <;> omega

/-! ### a decidable form of the well-formedness hypothesis -/

/-- Boolean check of `PDI.WF` (what C01's `Geom.WFb` checks of a segment table, without the ring-pair enumeration) -/
def PDI.wfb (p : PDI) : Bool :=
  p.segs.all (fun s => match s.axOff p.R with
    | none => false
    | some off => decide (s.minRD = s.maxRD → (s.minRD - off) % 2 = 0) && decide (1 ≤ s.numAx) && decide (s.minRD ≤ s.maxRD)) &&
  decide (p.segs.Pairwise fun a b => a.maxRD < b.minRD)

theorem seg?_getElem (p : PDI) (i : Int) (s : Seg) (h : p.seg? i = some s) :
    ∃ k : Nat, i = p.minSeg + k ∧ ∃ hk : k < p.segs.length, p.segs[k] = s := by
  unfold PDI.seg? at h
  split at h
  · exact absurd h (by simp)
  · obtain ⟨hk, hs⟩ := List.getElem?_eq_some_iff.mp h
    exact ⟨(i - p.minSeg).toNat, by omega, hk, hs⟩

theorem PDI.wfb_sound (p : PDI) (h : p.wfb = true) : p.WF := by
  unfold PDI.wfb at h
  simp only [Bool.and_eq_true, List.all_eq_true, decide_eq_true_eq] at h
  obtain ⟨hall, hpw⟩ := h
  have hmem : ∀ i s, p.seg? i = some s → s ∈ p.segs := by
    intro i s hs
    obtain ⟨k, _, hk, rfl⟩ := seg?_getElem p i s hs
    exact List.getElem_mem hk
  have hone : ∀ i s, p.seg? i = some s → ∃ off, s.axOff p.R = some off ∧ s.Exact off ∧ 1 ≤ s.numAx ∧ s.minRD ≤ s.maxRD := by
    intro i s hs
    have := hall s (hmem i s hs)
    split at this
    · exact absurd this (by simp)
    · rename_i off hoff
      simp only [Bool.and_eq_true, decide_eq_true_eq] at this
      exact ⟨off, hoff, this.1.1, this.1.2, this.2⟩
  constructor
  · intro i s hs
    obtain ⟨off, h1, h2, _, _⟩ := hone i s hs
    exact ⟨off, h1, h2⟩
  · intro i s hs
    obtain ⟨_, _, _, h3, _⟩ := hone i s hs
    exact h3
  · intro i s hs
    obtain ⟨_, _, _, _, h4⟩ := hone i s hs
    exact h4
  · intro i j si sj hij hsi hsj
    obtain ⟨ki, hi, hki, rfl⟩ := seg?_getElem p i si hsi
    obtain ⟨kj, hj, hkj, rfl⟩ := seg?_getElem p j sj hsj
    exact (List.pairwise_iff_getElem.mp hpw) ki kj hki hkj (by omega)

end StirVerif.C15
