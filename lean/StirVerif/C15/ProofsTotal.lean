/-
C15 — proofs, part 7: totals.  `SSRB(out, in, do_norm = false)` adds every input value once for every target bin; the enumeration of
output sinograms has no duplicates; hence (with `ProofsBins`) counts are conserved when nothing is trimmed.
-/
import StirVerif.C15.ProofsBins
import Mathlib.Tactic.Ring
import Mathlib.Tactic.Linarith
import Mathlib.Data.List.Nodup
import Mathlib.Algebra.Order.Field.Rat

namespace StirVerif.C15
open StirVerif.C01

def total (l : List (Bin × Rat)) : Rat := (l.map (·.2)).sum

theorem total_accum (l : List (Bin × Rat)) (b : Bin) (v : Rat) : total (accum l b v) = total l + v := by
  induction l with
  | nil => simp [accum, total]
  | cons a r ih =>
    obtain ⟨b', v'⟩ := a
    unfold accum
    split
    · simp only [total, List.map_cons, List.sum_cons]; ring
    · simp only [total, List.map_cons, List.sum_cons] at ih ⊢
      rw [ih]; ring

theorem total_foldl_accum (ts : List Bin) (acc : List (Bin × Rat)) (v : Rat) :
    total (ts.foldl (fun a t => accum a t v) acc) = total acc + v * (ts.length : Rat) := by
  induction ts generalizing acc with
  | nil => simp
  | cons t r ih =>
    simp only [List.foldl_cons, List.length_cons]
    rw [ih, total_accum]
    push_cast
    ring

/-- **exact account of totals** for `SSRB` without normalisation: the output total is the sum over the input bins of the value times the
    number of output bins the loops add it to (`0` = trimmed away, `1` = conserved). -/
theorem ssrbData_total (pin pout : PDI) (data out : List (Bin × Rat)) (h : ssrbData pin pout false data = some out) :
    total out = (data.map fun bv => bv.2 * ((targets pin pout bv.1).length : Rat)).sum := by
  unfold ssrbData at h
  split at h
  · exact absurd h (by simp)
  · simp only [Bool.false_eq_true, if_false, Option.some.injEq] at h
    subst h
    have gen : ∀ (acc : List (Bin × Rat)),
        total (data.foldl (fun acc (bv : Bin × Rat) => (targets pin pout bv.1).foldl (fun a t => accum a t bv.2) acc) acc)
          = total acc + (data.map fun bv => bv.2 * ((targets pin pout bv.1).length : Rat)).sum := by
      induction data with
      | nil => intro acc; simp
      | cons d r ih =>
        intro acc
        simp only [List.foldl_cons, List.map_cons, List.sum_cons]
        rw [ih, total_foldl_accum]
        ring
    have := gen []
    simpa [total] using this

/-! ### the enumeration of output sinograms has no duplicates -/

theorem irange_nodup (lo hi : Int) : (irange lo hi).Nodup := by
  unfold irange
  apply List.Nodup.map _ List.nodup_range
  intro a b h
  simp only at h
  omega

theorem outSinos_nodup (pout : PDI) : (outSinos pout).Nodup := by
  unfold outSinos
  rw [List.nodup_flatMap]
  constructor
  · rintro ⟨os, og⟩ _
    simp only
    rw [List.nodup_flatMap]
    constructor
    · intro ot _
      apply List.Nodup.map _ (irange_nodup _ _)
      intro a b h
      simp only [Prod.mk.injEq] at h
      exact h.2.1
    · apply List.Pairwise.imp _ (irange_nodup pout.minTof pout.maxTof)
      intro a b hab
      simp only [Function.onFun]
      rw [List.disjoint_left]
      intro x hx hx'
      simp only [List.mem_map] at hx hx'
      obtain ⟨_, _, rfl⟩ := hx
      obtain ⟨_, _, h⟩ := hx'
      simp only [Prod.mk.injEq] at h
      exact hab h.2.2.symm
  · have hlen : (irange pout.minSeg pout.maxSeg).length ≤ pout.segs.length := by
      rw [irange_length]; unfold PDI.maxSeg; omega
    have hfst : (List.zip (irange pout.minSeg pout.maxSeg) pout.segs).map Prod.fst = irange pout.minSeg pout.maxSeg :=
      List.map_fst_zip hlen
    have hpw : List.Pairwise (fun x y : Int × Seg => x.1 ≠ y.1) (List.zip (irange pout.minSeg pout.maxSeg) pout.segs) := by
      have := irange_nodup pout.minSeg pout.maxSeg
      rw [← hfst] at this
      exact List.pairwise_map.mp this
    apply List.Pairwise.imp _ hpw
    rintro ⟨os, og⟩ ⟨os', og'⟩ hne
    simp only [Function.onFun]
    rw [List.disjoint_left]
    intro x hx hx'
    simp only [List.mem_flatMap, List.mem_map] at hx hx'
    obtain ⟨_, _, _, _, rfl⟩ := hx
    obtain ⟨_, _, _, _, h⟩ := hx'
    simp only [Prod.mk.injEq] at h
    exact hne h.1.symm

theorem length_le_one_of_nodup_of_eq {α : Type} (l : List α) (hn : l.Nodup) (h : ∀ x ∈ l, ∀ y ∈ l, x = y) : l.length ≤ 1 := by
  match l, hn, h with
  | [], _, _ => simp
  | [_], _, _ => simp
  | a :: b :: r, hn, h =>
    exfalso
    have hab : a = b := h a (by simp) b (by simp)
    rw [List.nodup_cons] at hn
    exact hn.1 (by simp [hab])

theorem length_filterMap_ite {α β : Type} (p : α → Bool) (g : α → β) (l : List α) :
    (l.filterMap fun x => if p x = true then some (g x) else none).length = (l.filter p).length := by
  induction l with
  | nil => simp
  | cons a r ih =>
    simp only [List.filterMap_cons, List.filter_cons]
    cases hp : p a <;> simp [ih]

/-- **at most one target**: with odd `kSeg` (TOF output, or a single TOF position as in non-TOF data), the loops of `SSRB(out, in)` add every input bin into at most one output bin -/
theorem targets_length_le_one (pin pout : PDI) (kSeg kView trim maxSegArg kTof : Int)
    (hinfo : ssrbInfo pin kSeg kView trim maxSegArg kTof = some pout) (hk : 0 < kSeg) (hodd : kSeg % 2 = 1) (wf : pin.WF)
    (htof : 0 < pout.tofMash ∨ pout.minTof = pout.maxTof) (b : Bin) : (targets pin pout b).length ≤ 1 := by
  unfold targets
  simp only
  split
  · simp
  · have e := length_filterMap_ite (fun x : Int × Int × Int => pullsSino pin pout x.1 x.2.1 x.2.2 b.seg b.ax b.tof)
      (fun x => (⟨x.1, b.view.tdiv (pin.numViews.tdiv pout.numViews), x.2.1, b.tang, x.2.2⟩ : Bin)) (outSinos pout)
    rw [e]
    apply length_le_one_of_nodup_of_eq _ ((outSinos_nodup pout).filter _)
    rintro ⟨os, oa, ot⟩ hx ⟨os', oa', ot'⟩ hy
    simp only [List.mem_filter] at hx hy
    have hxm := (mem_outSinos pout os oa ot).mp hx.1
    have hym := (mem_outSinos pout os' oa' ot').mp hy.1
    obtain ⟨_, _, _, _, hx5, hx6⟩ := hxm
    obtain ⟨_, _, _, _, hy5, hy6⟩ := hym
    have htof' : 0 < pout.tofMash ∨ (pout.minTof = pout.maxTof ∧ pout.minTof ≤ ot ∧ ot ≤ pout.maxTof ∧ pout.minTof ≤ ot' ∧ ot' ≤ pout.maxTof) :=
      htof.imp id fun h => ⟨h, hx5, hx6, hy5, hy6⟩
    obtain ⟨e1, e2, e3⟩ := pullsSino_unique pin pout kSeg kView trim maxSegArg kTof hinfo hk hodd wf _ _ _ _ _ _ _ _ _ htof' hx.2 hy.2
    simp only [Prod.mk.injEq]
    exact ⟨e1, e2, e3⟩

/-- **`ssrb_conserves_total`.**  `SSRB` without normalisation of data whose every (non-zero) bin has a target — which
    `ssrb_targets_exact` gives for the bin of every detector pair whose output bin lies inside the output ranges, i.e. when nothing is
    trimmed — conserves the total; in general the total that is lost is exactly the content of the bins without a target. -/
theorem ssrb_conserves_total (pin pout : PDI) (kSeg kView trim maxSegArg kTof : Int)
    (hinfo : ssrbInfo pin kSeg kView trim maxSegArg kTof = some pout) (hk : 0 < kSeg) (hodd : kSeg % 2 = 1) (wf : pin.WF)
    (htof : 0 < pout.tofMash ∨ pout.minTof = pout.maxTof) (data out : List (Bin × Rat)) (h : ssrbData pin pout false data = some out) :
    total out = total (data.filter fun bv => (targets pin pout bv.1).length != 0) ∧
    ((∀ bv ∈ data, targets pin pout bv.1 ≠ []) → total out = total data) := by
  have hlen := targets_length_le_one pin pout kSeg kView trim maxSegArg kTof hinfo hk hodd wf htof
  rw [ssrbData_total pin pout data out h]
  have key : ∀ (l : List (Bin × Rat)),
      (l.map fun bv => bv.2 * ((targets pin pout bv.1).length : Rat)).sum
        = total (l.filter fun bv => (targets pin pout bv.1).length != 0) := by
    intro l
    induction l with
    | nil => simp [total]
    | cons a r ih =>
      simp only [List.map_cons, List.sum_cons, List.filter_cons]
      have h1 := hlen a.1
      rcases Nat.eq_zero_or_pos (targets pin pout a.1).length with h0 | hp
      · simp only [h0, Nat.cast_zero, mul_zero, zero_add, bne_self_eq_false, Bool.false_eq_true, if_false]
        exact ih
      · have h1' : (targets pin pout a.1).length = 1 := by omega
        simp only [h1', Nat.cast_one, mul_one]
        have : ((1 : Nat) != 0) = true := rfl
        simp only [this, if_true, total, List.map_cons, List.sum_cons]
        rw [ih]
        rfl
  constructor
  · exact key data
  · intro hall
    rw [key data]
    congr 1
    apply List.filter_eq_self.mpr
    intro bv hbv
    have := hall bv hbv
    cases htg : targets pin pout bv.1 with
    | nil => exact absurd htg this
    | cons _ _ => simp

end StirVerif.C15
