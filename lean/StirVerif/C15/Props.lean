/-
C15 — rebinning and resampling conserve counts and physical positions: the property theorems.
Proofs are in `ProofsSSRB`, `ProofsGroup`, `ProofsData`, `ProofsTof`, `ProofsBins`, `ProofsTotal`, `ProofsPhi`, `ProofsZoom`, `ProofsInverse`, `ProofsViewgram`, `ProofsIdentity`, `ProofsAxialGrid`, `ProofsVoxels`; this file only states them.

Units: axial coordinate `m` in quarter ring spacings (`Seg.m4`), TOF positions in unmashed TOF bins, image coordinates in `ℚ`.
-/
import StirVerif.C15.ProofsGroup
import StirVerif.C15.ProofsBins
import StirVerif.C15.ProofsTotal
import StirVerif.C15.ProofsTof
import StirVerif.C15.ProofsPhi
import StirVerif.C15.ProofsZoom
import StirVerif.C15.ProofsInverse
import StirVerif.C15.ProofsViewgram
import StirVerif.C15.ProofsIdentity
import StirVerif.C15.ProofsAxialGrid
import StirVerif.C15.ProofsVoxels

namespace StirVerif.C15
open StirVerif.C01 Finset

/-! ## SSRB

The theorems of this section are about `ssrbInfo` (`SSRB(ProjDataInfo, …)`) and `ssrbData` (`SSRB(ProjData& out, const ProjData& in, do_norm)`).
The third overload, `SSRB(output_filename, in, num_segments_to_combine, …, do_norm, max_in_segment_num_to_process, num_tof_bins_to_combine)`
(SSRB.cxx:144-163), is their composition — `ssrbData pin pout` with `ssrbInfo pin … = some pout` — which is exactly the hypothesis
`hinfo` of `C15_ssrb_commutes_with_binning`, `C15_ssrb_targets_exact`, `C15_ssrb_conserves_total`; the correspondence run answers the
`ssrbdata` operation a second time from the file that overload writes.

All theorems of this section hold for every legal argument list, in particular for the IDENTITY-LIKE ones (`num_segments_to_combine = 1`,
`num_views_to_combine = 1`, `num_tang_poss_to_trim = 0`, `num_tof_bins_to_combine = 1`, one at a time or all together) and for geometries
with a single segment and / or a single axial position per segment (one ring; direct sinograms only; span 1 with all ring differences;
all ring differences in one segment): since round 3 the correspondence run drives the real `SSRB` overloads with exactly these argument
lists and geometries (harness `run_ssrb_identity_like`, `gen_degenerate_cfg`), so the code these theorems are tied to now includes those
paths; what the identity-like settings mean for the result is stated separately below (`C15_ssrb_identity_*`).

Round 4: the axial coordinate `m` of the model is an exact integer number of quarter ring spacings, so every theorem of this section holds
for ANY ring spacing; the correspondence run now drives the real `SSRB` overloads on the predefined scanners of `Scanner.cxx` with their
true numbers of rings and ring spacings (6.54, 4.85, 3.29114, 5.56, 5.52296 … mm: not dyadic rationals, so the float quotient
`m-range / axial sampling` of the source is not exact) and on generated scanners with such ring spacings and 2 … 64 rings, and compares
the number of axial positions and the first / last `m` and the axial sampling in millimetres of every output segment (operation `ssrbm`)
with the model.  What the axial bookkeeping must deliver for every ring spacing is stated in `C15_ssrb_number_of_ms_any_ring_spacing`,
`C15_ssrb_no_input_position_lost`, `C15_ssrb_output_grid_spans_input`, `C15_ssrb_legal_request_served` below. -/

/-- "puts the counts of every detector pair into the bin that the output geometry assigns to that pair" — the axial coordinate:
    in any segment whose axial positions sit on the physical rings, the `m` of the axial position assigned to ring pair `(r1, r2)`
    is the physical mid-point `2·(r1 + r2 − (R−1))` (quarter ring spacings), for every number of rings `R`. -/
theorem C15_m_of_ring_pair (R : Int) (s : Seg) (off r1 r2 : Int) (hoff : s.axOff R = some off) (hex : s.Exact off)
    (hrd : s.minRD ≤ r2 - r1 ∧ r2 - r1 ≤ s.maxRD) :
    s.m4 (s.axOf off r1 r2) = 2 * (r1 + r2 - (R - 1)) :=
  m4_axOf R s off r1 r2 hoff hex hrd

/-- `ssrb_commutes_with_binning`, axial (ring-pair) part, for every number of rings and every `num_segments_to_combine` (its half `≥ 0`):
    let `og` be the output segment `os` built by `SSRB(ProjDataInfo…)` from the input segments `os·k − k/2 … os·k + k/2`; for every ring
    pair binned by the input geometry into `(is, ia)` with `is` in that group, the *output geometry's own* binning of the pair
    (`og.axOf`) exists, is in range, has the same `m`, and lies in the ring-difference range of `og`. -/
theorem C15_ssrb_axial_commutes (p : PDI) (kSeg os : Int) (og : Seg) (hk : 0 ≤ kSeg.tdiv 2)
    (h : ssrbOutSeg p kSeg os = some og)
    (wf : GroupWF p (os * kSeg - kSeg.tdiv 2) (os * kSeg + kSeg.tdiv 2))
    (is : Int) (his : os * kSeg - kSeg.tdiv 2 ≤ is ∧ is ≤ os * kSeg + kSeg.tdiv 2) (sg : Seg) (hsg : p.seg? is = some sg)
    (off : Int) (hoff : sg.axOff p.R = some off) (hex : sg.Exact off)
    (r1 r2 : Int) (hrd : sg.minRD ≤ r2 - r1 ∧ r2 - r1 ≤ sg.maxRD)
    (hax : 0 ≤ sg.axOf off r1 r2 ∧ sg.axOf off r1 r2 < sg.numAx) :
    ∃ offO, og.axOff p.R = some offO ∧ og.Exact offO ∧ og.minRD ≤ r2 - r1 ∧ r2 - r1 ≤ og.maxRD ∧
      0 ≤ og.axOf offO r1 r2 ∧ og.axOf offO r1 r2 < og.numAx ∧
      og.m4 (og.axOf offO r1 r2) = sg.m4 (sg.axOf off r1 r2) :=
  ssrbOutSeg_commutes p kSeg os og hk h wf is his sg hsg off hoff hex r1 r2 hrd hax

/-- the scan of `SSRB(ProjData&…)` over the axial positions (first position with equal `m`, then `break`) selects exactly the
    position with that `m`: no sinogram is added twice, none is missed. -/
theorem C15_ssrb_axial_target_unique (sg : Seg) (a : Int) (ha : 0 ≤ a ∧ a < sg.numAx) : firstAxWithM sg (sg.m4 a) = some a :=
  firstAxWithM_eq sg a ha

/-- `ssrb_commutes_with_binning`, view part: `in_view / num_views_to_combine` is the view the output geometry (mashing `m·k`) assigns -/
theorem C15_ssrb_view_commutes (u m k : Int) (hu : 0 ≤ u) (hm : 0 < m) (hk : 0 < k) : (u.tdiv m).tdiv k = u.tdiv (m * k) :=
  view_commutes u m k hu hm hk

/-- `ssrb_commutes_with_binning`, TOF part (odd mashing factor, odd number of TOF bins to combine) -/
theorem C15_ssrb_tof_commutes (t m k ot : Int) (hm : 0 < m) (hmo : m % 2 = 1) (hk : 0 < k) (hko : k % 2 = 1) :
    tofInWindow m (m * k) (roundDiv t m) ot = true ↔ ot = roundDiv t (m * k) :=
  tof_commutes t m k ot hm hmo hk hko


/-- **`ssrb_commutes_with_binning`** (full bins, real data structures, every number of rings / detectors / segments).
    `pout = SSRB(pin, kSeg, kView, trim, maxSeg, kTof)`, `kSeg > 0`; `pin` well formed (`PDI.WF`; decidable form `PDI.wfb`, see
    `C15_wfb_sound`); views `N/2 = V·mIn`, `kView ∣ V`; TOF: non-TOF input, or TOF scanner with odd mashing factor and odd `kTof`.
    For every detector-position pair `dp` (its azimuthal index `≥ 0`: C01 proves this for valid detector numbers) binned by the input
    geometry into `bi` (inside the input's axial range) and by the output geometry into `bo`: the loop nest of `SSRB(out, in)` adds input
    sinogram `(bi.seg, bi.ax, bi.tof)` into output sinogram `(bo.seg, bo.ax, bo.tof)`, view `bi.view / kView = bo.view`, same tangential position. -/
theorem C15_ssrb_commutes_with_binning (pin pout : PDI) (kSeg kView trim maxSegArg kTof : Int)
    (hinfo : ssrbInfo pin kSeg kView trim maxSegArg kTof = some pout) (hk : 0 < kSeg) (wf : pin.WF)
    (mIn W : Int) (hmash : pin.N.tdiv 2 = pin.numViews * mIn) (hmIn : 0 < mIn) (hV : pin.numViews = W * kView) (hW : 0 < W)
    (hkV : 0 < kView)
    (htof0 : pin.tofMash = 0 ∨ (0 < pin.tofMash ∧ pin.tofMash % 2 = 1 ∧ kTof % 2 = 1 ∧ 0 < pin.T))
    (dp : DetPair) (hv : 0 ≤ (detToViewTang pin.N dp.d1 dp.d2).1) (bi bo : Bin)
    (hbi : pin.toGeom.binForDetPair dp = some bi) (hbir : ∀ sg, pin.seg? bi.seg = some sg → 0 ≤ bi.ax ∧ bi.ax < sg.numAx)
    (hbo : pout.toGeom.binForDetPair dp = some bo) :
    pullsSino pin pout bo.seg bo.ax bo.tof bi.seg bi.ax bi.tof = true ∧ bo.view = bi.view.tdiv kView ∧ bo.tang = bi.tang :=
  ssrb_commutes_with_binning pin pout kSeg kView trim maxSegArg kTof hinfo hk wf mIn W hmash hmIn hV hW hkV htof0 dp hv bi bo hbi hbir hbo

/-- "histogramming at the coarse sampling equals histogramming finely and then rebinning", bin by bin, with the exact account of
    trimming: the output geometry's bin `bo` of the pair is written (`∈ targets`) exactly when it lies inside the output's tangential and
    TOF ranges; and (`kSeg` odd; TOF output or non-TOF output with TOF range 0..0) nothing but `bo` is written for that input bin. -/
theorem C15_ssrb_targets_exact (pin pout : PDI) (kSeg kView trim maxSegArg kTof : Int)
    (hinfo : ssrbInfo pin kSeg kView trim maxSegArg kTof = some pout) (hk : 0 < kSeg) (hodd : kSeg % 2 = 1) (wf : pin.WF)
    (mIn W : Int) (hmash : pin.N.tdiv 2 = pin.numViews * mIn) (hmIn : 0 < mIn) (hV : pin.numViews = W * kView) (hW : 0 < W)
    (hkV : 0 < kView)
    (htof0 : pin.tofMash = 0 ∨ (0 < pin.tofMash ∧ pin.tofMash % 2 = 1 ∧ kTof % 2 = 1 ∧ 0 < pin.T))
    (dp : DetPair) (hv : 0 ≤ (detToViewTang pin.N dp.d1 dp.d2).1) (bi bo : Bin)
    (hbi : pin.toGeom.binForDetPair dp = some bi) (hbir : ∀ sg, pin.seg? bi.seg = some sg → 0 ≤ bi.ax ∧ bi.ax < sg.numAx)
    (hbit : pin.minTang ≤ bi.tang ∧ bi.tang ≤ pin.maxTang)
    (hbo : pout.toGeom.binForDetPair dp = some bo) :
    (bo ∈ targets pin pout bi ↔ (pout.minTang ≤ bo.tang ∧ bo.tang ≤ pout.maxTang ∧ pout.minTof ≤ bo.tof ∧ bo.tof ≤ pout.maxTof)) ∧
    ((0 < pout.tofMash ∨ (pout.minTof = 0 ∧ pout.maxTof = 0)) → ∀ x ∈ targets pin pout bi, x = bo) :=
  ssrb_targets_exact pin pout kSeg kView trim maxSegArg kTof hinfo hk hodd wf mIn W hmash hmIn hV hW hkV htof0 dp hv bi bo hbi hbir hbit hbo

/-- no double counting: an input sinogram is added into at most one output sinogram (odd `kSeg`; TOF output or a single output TOF position) -/
theorem C15_ssrb_no_double_counting (pin pout : PDI) (kSeg kView trim maxSegArg kTof : Int)
    (hinfo : ssrbInfo pin kSeg kView trim maxSegArg kTof = some pout) (hk : 0 < kSeg) (hodd : kSeg % 2 = 1) (wf : pin.WF)
    (os oa ot os' oa' ot' is ia it : Int)
    (htof : 0 < pout.tofMash ∨ (pout.minTof = pout.maxTof ∧ pout.minTof ≤ ot ∧ ot ≤ pout.maxTof ∧ pout.minTof ≤ ot' ∧ ot' ≤ pout.maxTof))
    (h : pullsSino pin pout os oa ot is ia it = true) (h' : pullsSino pin pout os' oa' ot' is ia it = true) :
    os = os' ∧ oa = oa' ∧ ot = ot' :=
  pullsSino_unique pin pout kSeg kView trim maxSegArg kTof hinfo hk hodd wf os oa ot os' oa' ot' is ia it htof h h'

/-- the scan of `SSRB(out, in)` over the input segments recovers exactly the group each output segment was built from -/
theorem C15_ssrb_segment_group (pin : PDI) (wf : pin.WF) (kSeg os : Int) (og : Seg) (hk : 0 ≤ kSeg.tdiv 2)
    (h : ssrbOutSeg pin kSeg os = some og) :
    inSegRange pin og = some (os * kSeg - kSeg.tdiv 2, os * kSeg + kSeg.tdiv 2) :=
  inSegRange_group pin wf kSeg os og hk h

/-- the well-formedness hypothesis is decidable: a Boolean check implies it -/
theorem C15_wfb_sound (p : PDI) (h : p.wfb = true) : p.WF := p.wfb_sound h

/-- exact account of totals for `SSRB` without normalisation (any geometries): output total = Σ over input bins of
    value × (number of output bins the loops add it to) -/
theorem C15_ssrb_total_account (pin pout : PDI) (data out : List (Bin × Rat)) (h : ssrbData pin pout false data = some out) :
    total out = (data.map fun bv => bv.2 * ((targets pin pout bv.1).length : Rat)).sum :=
  ssrbData_total pin pout data out h

/-- every input bin is added into at most one output bin (odd `kSeg`; TOF output or a single output TOF position) -/
theorem C15_ssrb_at_most_one_target (pin pout : PDI) (kSeg kView trim maxSegArg kTof : Int)
    (hinfo : ssrbInfo pin kSeg kView trim maxSegArg kTof = some pout) (hk : 0 < kSeg) (hodd : kSeg % 2 = 1) (wf : pin.WF)
    (htof : 0 < pout.tofMash ∨ pout.minTof = pout.maxTof) (b : Bin) : (targets pin pout b).length ≤ 1 :=
  targets_length_le_one pin pout kSeg kView trim maxSegArg kTof hinfo hk hodd wf htof b

/-- **`ssrb_conserves_total`** "total counts are conserved when no range is trimmed", with the exact account otherwise: the output total
    is the total of the input bins that have a target; if every input bin has one (by `C15_ssrb_targets_exact`: the bin of every detector
    pair whose output bin lies inside the output's tangential / TOF ranges), the total is conserved.  (TOF output, or a single output TOF position as for non-TOF data.) -/
theorem C15_ssrb_conserves_total (pin pout : PDI) (kSeg kView trim maxSegArg kTof : Int)
    (hinfo : ssrbInfo pin kSeg kView trim maxSegArg kTof = some pout) (hk : 0 < kSeg) (hodd : kSeg % 2 = 1) (wf : pin.WF)
    (htof : 0 < pout.tofMash ∨ pout.minTof = pout.maxTof) (data out : List (Bin × Rat)) (h : ssrbData pin pout false data = some out) :
    total out = total (data.filter fun bv => (targets pin pout bv.1).length != 0) ∧
    ((∀ bv ∈ data, targets pin pout bv.1 ≠ []) → total out = total data) :=
  ssrb_conserves_total pin pout kSeg kView trim maxSegArg kTof hinfo hk hodd wf htof data out h

/-- "physical positions": the azimuthal angle of an output view is the mean of the angles of the views mashed into it -/
theorem C15_ssrb_phi_mean (offIn sampIn : ℚ) (W : ℤ) (k : ℕ) (hW : 0 < W) (hk : 0 < k) (ov : ℤ) :
    (ssrbPhi offIn sampIn (W * k) k).1 + ov * (ssrbPhi offIn sampIn (W * k) k).2
      = (∑ j ∈ range k, (offIn + ((ov * k + j : ℤ) : ℚ) * sampIn)) / k :=
  ssrb_phi_mean offIn sampIn W k hW hk ov

/-! ### identity-like settings are the identity

"total counts are conserved when no range is trimmed" / "puts the counts of every detector pair into the bin that the output geometry
assigns to that pair" in the degenerate case where nothing is combined and nothing is trimmed: the output geometry IS the input geometry
and every bin comes back.  One argument at a time: the part of the geometry whose argument is at its identity value is unchanged whatever
the other arguments are (the harness evaluates the same statements on the implementation for every `ssrbinfo` / `ssrbdata` operation). -/

/-- identity-like settings ONE AT A TIME, for any successful call `SSRB(p, kSeg, kView, trim, maxSeg, kTof) = o`:
    scanner data are kept; `num_segments_to_combine = 1` ⇒ every output segment is the input segment of the same number, unchanged
    (ring differences, number of axial positions) — and with all segments processed the segment table is the input's;
    `num_views_to_combine = 1` ⇒ the number of views is kept; `num_tang_poss_to_trim = 0` ⇒ a centred tangential range is kept;
    `num_tof_bins_to_combine = 1` ⇒ TOF mashing factor and TOF range are kept. -/
theorem C15_ssrb_identity_settings (p o : PDI) (kSeg kView trim maxSegArg kTof : Int)
    (h : ssrbInfo p kSeg kView trim maxSegArg kTof = some o) :
    (o.N = p.N ∧ o.R = p.R ∧ o.T = p.T) ∧
    (kSeg = 1 → ∀ os og, o.seg? os = some og → p.seg? os = some og) ∧
    (kSeg = 1 → maxSegArg = -1 → p.minSeg = -p.maxSeg → o.minSeg = p.minSeg ∧ o.segs = p.segs) ∧
    (kView = 1 → o.numViews = p.numViews) ∧
    (trim = 0 → p.minTang = -(p.numTang.tdiv 2) → o.minTang = p.minTang ∧ o.maxTang = p.maxTang) ∧
    (kTof = 1 → o.tofMash = p.tofMash ∧ o.minTof = p.minTof ∧ o.maxTof = p.maxTof) :=
  ssrbInfo_identity_settings p o kSeg kView trim maxSegArg kTof h

/-- the full identity request `SSRB(p, 1, 1, 0, -1, 1)` succeeds and returns the input geometry — for every geometry with segments
    `-S … S` (`S ≥ 0`: also a single segment), any numbers of axial positions (also a single one), a non-empty centred tangential range -/
theorem C15_ssrb_identity_geometry (p : PDI) (hsym : p.minSeg = -p.maxSeg) (hseg : 0 ≤ p.maxSeg) (hnt : 0 < p.numTang)
    (hc : p.minTang = -(p.numTang.tdiv 2)) : ssrbInfo p 1 1 0 (-1) 1 = some p :=
  ssrbInfo_identity p hsym hseg hnt hc

/-- … and the azimuthal angles (offset, sampling) of the views are kept when one view is "combined" -/
theorem C15_ssrb_identity_phi (off samp : ℚ) (V : Int) (hV : V ≠ 0) : ssrbPhi off samp V 1 = (off, samp) :=
  ssrbPhi_identity off samp V hV

/-- **identity-like settings must be the identity, bin by bin**: with the identity request the loops of `SSRB(out, in)` add the bin of
    every detector pair (inside the ranges of the geometry) into exactly that bin and nowhere else — the data come back as they are.
    (Well-formed geometry, `N/2 = V·m`; non-TOF, or TOF scanner with an odd mashing factor.) -/
theorem C15_ssrb_identity_data (p : PDI) (hsym : p.minSeg = -p.maxSeg) (hseg : 0 ≤ p.maxSeg) (hnt : 0 < p.numTang)
    (hc : p.minTang = -(p.numTang.tdiv 2)) (wf : p.WF)
    (mIn : Int) (hmash : p.N.tdiv 2 = p.numViews * mIn) (hmIn : 0 < mIn) (hV : 0 < p.numViews)
    (htof0 : p.tofMash = 0 ∨ (0 < p.tofMash ∧ p.tofMash % 2 = 1 ∧ 0 < p.T))
    (htr : 0 < p.tofMash ∨ (p.minTof = 0 ∧ p.maxTof = 0))
    (dp : DetPair) (hv : 0 ≤ (detToViewTang p.N dp.d1 dp.d2).1) (bi : Bin)
    (hbi : p.toGeom.binForDetPair dp = some bi) (hbir : ∀ sg, p.seg? bi.seg = some sg → 0 ≤ bi.ax ∧ bi.ax < sg.numAx)
    (hbit : p.minTang ≤ bi.tang ∧ bi.tang ≤ p.maxTang) (hbif : p.minTof ≤ bi.tof ∧ bi.tof ≤ p.maxTof) :
    targets p p bi = [bi] :=
  ssrb_identity_targets p hsym hseg hnt hc wf mIn hmash hmIn hV htof0 htr dp hv bi hbi hbir hbit hbif

/-! ### the axial grid of the output segments for ANY ring spacing (round 4)

"total counts are conserved when no range is trimmed" / "puts the counts of every detector pair into the bin that the output geometry
assigns to that pair" need the output segments of `SSRB(ProjDataInfo…)` to have exactly the axial positions of their input segments.
The source finds their number from float millimetres (`number_of_ms = (max_m − min_m)/axial_sampling + 1`, SSRB.cxx:126-130); for a ring
spacing that is not a dyadic rational the float quotient is an ulp off the integer, and the result must not depend on that. -/

/-- the source's `number_of_ms`, evaluated EXACTLY in millimetres for any ring spacing `rs > 0`, is the integer number of axial positions
    that the model (`ssrbOutSeg`, quarter ring spacings) gives the output segment: the ring spacing cancels.  So `round(number_of_ms) − 1` is
    the last axial position whatever the scanner, and a conversion that turns a float quotient an ulp below the integer into one
    position fewer is wrong for that scanner (the correspondence run compares the axial counts of every output segment). -/
theorem C15_ssrb_number_of_ms_any_ring_spacing (p : PDI) (kSeg os : Int) (og : Seg)
    (h : ssrbOutSeg p kSeg os = some og) (rs : ℚ) (hrs : 0 < rs) :
    ∃ first grp, p.seg? (os * kSeg - kSeg.tdiv 2) = some first ∧
      collect p.seg? (irange (os * kSeg - kSeg.tdiv 2) (os * kSeg + kSeg.tdiv 2)) = some grp ∧
      ssrbNumberOfMs grp first og.inc rs = (og.numAx : ℚ) :=
  ssrbNumberOfMs_is_numAx p kSeg os og h rs hrs

/-- **no input sinogram without a receiving output sinogram**: every axial position of every input segment of the group of output
    segment `os` has an axial position of the output segment with the same `m` — in quarter ring spacings and in millimetres for every
    ring spacing.  (`SSRB(out, in)` moves sinograms by equal `m`: a position without a partner would lose its counts.) -/
theorem C15_ssrb_no_input_position_lost (p : PDI) (kSeg os : Int) (og : Seg) (hk : 0 ≤ kSeg.tdiv 2)
    (h : ssrbOutSeg p kSeg os = some og)
    (wf : GroupWF p (os * kSeg - kSeg.tdiv 2) (os * kSeg + kSeg.tdiv 2))
    (is : Int) (his : os * kSeg - kSeg.tdiv 2 ≤ is ∧ is ≤ os * kSeg + kSeg.tdiv 2) (sg : Seg) (hsg : p.seg? is = some sg)
    (ia : Int) (hia : 0 ≤ ia ∧ ia < sg.numAx) :
    ∃ oa, 0 ≤ oa ∧ oa < og.numAx ∧ og.m4 oa = sg.m4 ia ∧ ∀ rs : ℚ, og.mMm rs oa = sg.mMm rs ia :=
  ssrbOutSeg_position_has_target_mm p kSeg os og hk h wf is his sg hsg ia hia

/-- the output grid ends where the inputs end: the first / last axial position of the output segment has the smallest / largest `m` of
    the axial positions of its input segments -/
theorem C15_ssrb_output_grid_spans_input (p : PDI) (kSeg os : Int) (og : Seg) (hk : 0 ≤ kSeg.tdiv 2)
    (h : ssrbOutSeg p kSeg os = some og)
    (wf : GroupWF p (os * kSeg - kSeg.tdiv 2) (os * kSeg + kSeg.tdiv 2)) :
    (∀ is sg, os * kSeg - kSeg.tdiv 2 ≤ is → is ≤ os * kSeg + kSeg.tdiv 2 → p.seg? is = some sg →
        og.m4 0 ≤ sg.m4 0 ∧ sg.m4 (sg.numAx - 1) ≤ og.m4 (og.numAx - 1)) ∧
    (∃ is sg, os * kSeg - kSeg.tdiv 2 ≤ is ∧ is ≤ os * kSeg + kSeg.tdiv 2 ∧ p.seg? is = some sg ∧
        og.m4 0 = sg.m4 0 ∧ sg.m4 (sg.numAx - 1) = og.m4 (og.numAx - 1)) :=
  ssrbOutSeg_ends p kSeg os og hk h wf

/-- **a legal request is served**: when the input has all the (well-formed) segments of the group, the loop body of
    `SSRB(ProjDataInfo…)` for that output segment does not call `error` — in exact arithmetic the m-range of the group is a whole
    number of output samples, for every ring spacing (the harness demands the same of the implementation: `ssrbinfo` must not answer
    `err` for a legal request). -/
theorem C15_ssrb_legal_request_served (p : PDI) (kSeg os : Int) (hk : 0 ≤ kSeg.tdiv 2)
    (wf : GroupWF p (os * kSeg - kSeg.tdiv 2) (os * kSeg + kSeg.tdiv 2))
    (hex : ∀ i, os * kSeg - kSeg.tdiv 2 ≤ i → i ≤ os * kSeg + kSeg.tdiv 2 → ∃ s, p.seg? i = some s) :
    ∃ og, ssrbOutSeg p kSeg os = some og :=
  ssrbOutSeg_succeeds p kSeg os hk wf hex

/-! ### the violation on the unchanged tree (C01's "LORs shifted" geometries): negative witness -/

/-- 16 detectors, 4 rings, span 3, max ring difference 2 (`ProjDataInfo::construct_proj_data_info` builds it with a warning) -/
def witnessIn : PDI :=
  { N := 16, R := 4, T := 0, minSeg := -1, segs := [⟨-2, -2, 3⟩, ⟨-1, 1, 7⟩, ⟨2, 2, 3⟩], numViews := 8, minTang := -3, maxTang := 3,
    tofMash := 0, minTof := 0, maxTof := 0 }
def witnessOut : PDI := { witnessIn with minSeg := 0, segs := [⟨-2, 2, 7⟩] }

theorem C15_witness_is_ssrb_output : ssrbInfo witnessIn 3 1 0 (-1) 1 = some witnessOut := by decide

/-- detector pair (det 0, ring 0)–(det 8, ring 2): histogrammed into input bin (seg 1, ax 0), which `SSRB` adds into output
    (seg 0, ax 1) — while the output geometry bins the same pair into (seg 0, ax 2).  Replayed on the implementation by the harness
    (`KNOWN-CANDIDATE ssrb:single-ring-difference-segment-with-axial-positions-of-odd-parity`). -/
theorem C15_ssrb_shifted_segment_fails :
    witnessIn.toGeom.binForDetPair ⟨0, 0, 8, 2, 0⟩ = some ⟨1, 0, 0, 0, 0⟩ ∧
    targets witnessIn witnessOut ⟨1, 0, 0, 0, 0⟩ = [⟨0, 0, 1, 0, 0⟩] ∧
    witnessOut.toGeom.binForDetPair ⟨0, 0, 8, 2, 0⟩ = some ⟨0, 0, 2, 0, 0⟩ := by decide

/-- the hypothesis of `C15_m_of_ring_pair` that excludes it: segment 1 of the witness is not `Exact` -/
theorem C15_witness_not_exact : ¬ (⟨2, 2, 3⟩ : Seg).Exact 1 ∧ (⟨2, 2, 3⟩ : Seg).axOff 4 = some 1 := by
  constructor
  · intro h; exact absurd (h rfl) (by decide)
  · decide

/-! ## overlap interpolation / zoom (specification level; the transcribed loops `overlapVec`, `overlapIter` are compared with
`specBox` on every operation of the correspondence run by the driver — that link is not a theorem).

The same holds for the rows of `zoomViewgram` / `zoomViewgramInPlace` (`zoom_viewgram`, `zoom_viewgrams` on arc-corrected viewgrams,
operation `zvg` of the correspondence): every row is `overlapVec` with `zoom = in_bin/out_bin` and
`offset = (x cos φ + y sin φ)/in_bin` (`C15_zoom_viewgram_rows`), and the driver compares every row with `overlapSpecVec`.  So the
one-axis theorems `C15_zoom_axis_preserve_sum`, `C15_zoom_axis_uniform`, `C15_zoom_axis_com_bound` below are, with `vin` = the input's
tangential sampling, also the statements "counts of a row are conserved when the new tangential range covers the data", "uniform rows
stay uniform (value · zoom)" and "the centroid of a row moves by at most half the sum of the bin sizes" for zoomed viewgrams. -/

/-- `overlap_spec` + `zoom_preserve_sum` (any box boundaries): consecutive output boxes covering the input ⇒ the total is conserved -/
theorem C15_overlap_conserves (n m : ℕ) (inv ic oc : ℕ → ℚ)
    (hic : ∀ j < n, ic j ≤ ic (j + 1)) (hoc : ∀ i < m, oc i ≤ oc (i + 1)) (hl : oc 0 ≤ ic 0) (hr : ic n ≤ oc m) :
    ∑ i ∈ range m, specBox n inv ic (oc i) (oc (i + 1)) = ∑ j ∈ range n, inv j * (ic (j + 1) - ic j) :=
  spec_conserves n m inv ic oc hic hoc hl hr

/-- exact account of what a non-covering output range removes: each input box keeps its part inside `[oc 0, oc m]` -/
theorem C15_overlap_trimmed_account (n m : ℕ) (inv ic oc : ℕ → ℚ)
    (hic : ∀ j < n, ic j ≤ ic (j + 1)) (hoc : ∀ i < m, oc i ≤ oc (i + 1)) :
    ∑ i ∈ range m, specBox n inv ic (oc i) (oc (i + 1))
      = ∑ j ∈ range n, inv j * (clamp (ic j) (ic (j + 1)) (oc m) - clamp (ic j) (ic (j + 1)) (oc 0)) :=
  spec_sum_general n m inv ic oc hic hoc

/-- `zoom_preserve_values_uniform` (any box boundaries) -/
theorem C15_overlap_uniform (n : ℕ) (inv ic : ℕ → ℚ) (l r c : ℚ) (hlr : l ≤ r)
    (hic : ∀ j < n, ic j ≤ ic (j + 1)) (hl : ic 0 ≤ l) (hr : r ≤ ic n)
    (hc : ∀ j < n, ovLen (ic j) (ic (j + 1)) l r ≠ 0 → inv j = c) :
    specBox n inv ic l r = c * (r - l) :=
  spec_uniform n inv ic l r c hlr hic hl hr hc

/-- `zoom_com_bound` (any box boundaries, non-negative data): the centre of mass moves by at most half the sum of the box sizes -/
theorem C15_overlap_com_bound (n m : ℕ) (inv ic oc : ℕ → ℚ) (win wout : ℚ)
    (hic : ∀ j < n, ic j ≤ ic (j + 1)) (hoc : ∀ i < m, oc i ≤ oc (i + 1))
    (hl : oc 0 ≤ ic 0) (hr : ic n ≤ oc m) (hpos : ∀ j < n, 0 ≤ inv j)
    (hwin : ∀ j < n, ic (j + 1) - ic j ≤ win) (hwout : ∀ i < m, oc (i + 1) - oc i ≤ wout)
    (htot : 0 < ∑ j ∈ range n, inv j * (ic (j + 1) - ic j)) :
    |(∑ i ∈ range m, specBox n inv ic (oc i) (oc (i + 1)) * ((oc i + oc (i + 1)) / 2)) / (∑ i ∈ range m, specBox n inv ic (oc i) (oc (i + 1)))
        - (∑ j ∈ range n, inv j * (ic (j + 1) - ic j) * ((ic j + ic (j + 1)) / 2)) / (∑ j ∈ range n, inv j * (ic (j + 1) - ic j))|
      ≤ (win + wout) / 2 :=
  spec_com_shift n m inv ic oc win wout hic hoc hl hr hpos hwin hwout htot

/-- `zoom_preserve_sum` on the regular grids of `zoom_image`, one axis -/
theorem C15_zoom_axis_preserve_sum (n m : ℕ) (inv : ℕ → ℚ) (ilo olo : ℤ) (zoom offset : ℚ) (hz : 0 < zoom)
    (hl : outEdge olo zoom offset 0 ≤ inEdge ilo 0) (hr : inEdge ilo n ≤ outEdge olo zoom offset m) :
    ∑ i ∈ range m, specBox n inv (inEdge ilo) (outEdge olo zoom offset i) (outEdge olo zoom offset (i + 1)) = ∑ j ∈ range n, inv j :=
  zoom_axis_preserve_sum n m inv ilo olo zoom offset hz hl hr

/-- `zoom_preserve_values_uniform` on the regular grids, one axis: `zoom · out_i = c` -/
theorem C15_zoom_axis_uniform (n : ℕ) (inv : ℕ → ℚ) (ilo olo : ℤ) (zoom offset c : ℚ) (hz : 0 < zoom) (i : ℕ)
    (hl : inEdge ilo 0 ≤ outEdge olo zoom offset i) (hr : outEdge olo zoom offset (i + 1) ≤ inEdge ilo n)
    (hc : ∀ j < n, ovLen (inEdge ilo j) (inEdge ilo (j + 1)) (outEdge olo zoom offset i) (outEdge olo zoom offset (i + 1)) ≠ 0 → inv j = c) :
    zoom * specBox n inv (inEdge ilo) (outEdge olo zoom offset i) (outEdge olo zoom offset (i + 1)) = c :=
  zoom_axis_uniform n inv ilo olo zoom offset c hz i hl hr hc

/-- `zoom_com_bound` on the regular grids, one axis, in millimetres: `≤ ½(v_in + v_out)` with `v_out = v_in/zoom` -/
theorem C15_zoom_axis_com_bound (n m : ℕ) (inv : ℕ → ℚ) (ilo olo : ℤ) (zoom offset vin : ℚ) (hz : 0 < zoom) (hv : 0 < vin)
    (hl : outEdge olo zoom offset 0 ≤ inEdge ilo 0) (hr : inEdge ilo n ≤ outEdge olo zoom offset m)
    (hpos : ∀ j < n, 0 ≤ inv j) (htot : 0 < ∑ j ∈ range n, inv j) :
    let out := fun i => specBox n inv (inEdge ilo) (outEdge olo zoom offset i) (outEdge olo zoom offset (i + 1))
    let cOut := fun i => vin * ((outEdge olo zoom offset i + outEdge olo zoom offset (i + 1)) / 2)
    let cIn := fun j => vin * ((inEdge ilo j + inEdge ilo (j + 1)) / 2)
    |(∑ i ∈ range m, out i * cOut i) / (∑ i ∈ range m, out i) - (∑ j ∈ range n, inv j * cIn j) / (∑ j ∈ range n, inv j)|
      ≤ (vin + vin / zoom) / 2 :=
  zoom_axis_com_bound n m inv ilo olo zoom offset vin hz hv hl hr hpos htot


/-! ## `zoom_image`: degenerate requests (zoom exactly 1 and / or no offset along some axes)

`zoomImage3` (`zoom_image(VoxelsOnCartesianGrid& out, in, options)`: behind the one-call 3-D-parameter, in-place and two-step variants),
`zoomImage2` (`zoom_image(PixelsOnCartesianGrid& out, in, options)`: behind the transaxial one-call and in-place variants) and
`overlapVec` are compared with the implementation on every operation `zoom 3d|2d|out|pl`; since round 3 the requests include, per axis
independently, zoom exactly 1 with offset 0 / ≠ 0 and offsets along one axis only, into grids of the same and of another size, with all
three scalings (harness `run_zoom_degenerate`; operation `zoom pl` drives the transaxial two-step call directly, plane by plane into a
re-used plane).  Both image functions have a plain-copy shortcut; the theorems below say when it is taken and what a pure shift does. -/

/-- "the result does not depend on [the variant]" / conservation in the simplest case: zooming an image onto its own grid gives back
    the voxel values, with every `ZoomOptions` scaling (3-D two-step call; any non-zero voxel sizes) -/
theorem C15_zoom_image_identity (im : Img) (opt : ZoomOpt) (hx : im.g.vx ≠ 0) (hy : im.g.vy ≠ 0) (hz : im.g.vz ≠ 0) :
    zoomImage3 im.g im opt = im.d :=
  zoomImage3_identity im opt hx hy hz

/-- the same for the transaxial two-step call on a plane -/
theorem C15_zoom_image2_identity (g : Grid) (pl : List (List ℚ)) (opt : ZoomOpt) (hx : g.vx ≠ 0) (hy : g.vy ≠ 0) :
    zoomImage2 g g pl opt = pl :=
  zoomImage2_identity g pl opt hx hy

/-- and for the transaxial one-call variant `zoom_image(image, 1, 0, 0, x_size, options)` -/
theorem C15_zoom_image_params2_identity (im : Img) (opt : ZoomOpt) : zoomImageParams2 im 1 0 0 im.g.nx opt = im :=
  zoomImageParams2_identity im opt

/-- **the plain-copy shortcut of the transaxial `zoom_image` is taken for the identity request only**: if ANY of the two zooms differs
    from 1, any of the two offsets (x OR y, in voxels of the input) differs from 0, or the index ranges differ, the plane goes through the
    two `overlap_interpolate` passes — x with `(zoom_x, x_offset)`, then y with `(zoom_y, y_offset)` — and the option scaling.
    (A shortcut that tests the y condition on the x offset copies planes unshifted when only the y offset is non-zero: round-3 seed.) -/
theorem C15_zoom_image2_shortcut_only_identity (gout gi : Grid) (pl : List (List ℚ)) (opt : ZoomOpt)
    (h : fl32 (gi.vx / gout.vx) ≠ 1 ∨ fl32 (gi.vy / gout.vy) ≠ 1 ∨ fl32 (fl32 (gout.ox - gi.ox) / gi.vx) ≠ 0 ∨
         fl32 (fl32 (gout.oy - gi.oy) / gi.vy) ≠ 0 ∨ gi.ymin ≠ gout.ymin ∨ gi.xmin ≠ gout.xmin ∨ gi.ny ≠ gout.ny ∨ gi.nx ≠ gout.nx) :
    zoomImage2 gout gi pl opt =
      let zx := fl32 (gi.vx / gout.vx)
      let zy := fl32 (gi.vy / gout.vy)
      let t1 := pl.map (ovl gout.xmin gout.nx gi.xmin zx (fl32 (fl32 (gout.ox - gi.ox) / gi.vx)))
      let t2 := transpose2 gout.ny ((transpose2 gout.nx t1).map (ovl gout.ymin gout.ny gi.ymin zy (fl32 (fl32 (gout.oy - gi.oy) / gi.vy))))
      let scale : ℚ := match opt with
        | 1 => fl32 (zx * zy)
        | 2 => zy
        | _ => 1
      if scale != 1 then t2.map fun row => row.map (· * scale) else t2 :=
  zoomImage2_not_shortcut gout gi pl opt h

/-- **pure shift** ("keeps the centre of mass in millimetres", exactly): `overlap_interpolate` with zoom exactly 1 and an offset of a whole
    number `k` of boxes — the pass that every axis of `zoom_image` / every row of `zoom_viewgram` makes for a shift by whole voxels / bins —
    copies the values: box `i` of the result is box `i + k` of the input (0 outside the input), whatever the two index ranges are.
    Nothing is blurred, lost inside the new range, or moved by anything but the shift.  (`hfl`: the first index of the output is a float.) -/
theorem C15_overlap_pure_shift (out inp : Vec) (k : Int) (hfl : fl32 (out.lo : ℚ) = out.lo) :
    (overlapVec out inp 1 (k : ℚ) true).vals = (List.range out.vals.length).map fun (j : Nat) => inp.get (out.lo + (j : Int) + k) :=
  overlapVec_pure_shift out inp k hfl

/-- **pure shift of a plane** — the transaxial `zoom_image(PixelsOnCartesianGrid& out, in, options)` (behind
    `zoom_image(image, zoom, x_offset, y_offset, size)` and its in-place variant) with both zooms exactly 1 and offsets of `kx`, `ky` whole
    pixels, not both 0 unless the index ranges differ: pixel `(j, c)` of the new plane holds the input pixel at the same position in mm,
    `(ymin' + j + ky, xmin' + c + kx)`, 0 outside the input — for EVERY `ZoomOptions` scaling (the factor is 1), whatever the two index
    ranges are.  In particular a shift along y only (`kx = 0`, `ky ≠ 0`, same size) moves every row by exactly `ky`: the centre of mass in
    mm stays where it is, the plane is not copied unshifted.  (`hflx`, `hfly`: the first indices of the new plane are floats.) -/
theorem C15_zoom_image2_pure_shift (gout gi : Grid) (pl : List (List ℚ)) (opt : ZoomOpt) (ky kx : Int)
    (hzx : fl32 (gi.vx / gout.vx) = 1) (hzy : fl32 (gi.vy / gout.vy) = 1)
    (hxo : fl32 (fl32 (gout.ox - gi.ox) / gi.vx) = kx) (hyo : fl32 (fl32 (gout.oy - gi.oy) / gi.vy) = ky)
    (hne : ky ≠ 0 ∨ kx ≠ 0 ∨ gi.ymin ≠ gout.ymin ∨ gi.xmin ≠ gout.xmin ∨ gi.ny ≠ gout.ny ∨ gi.nx ≠ gout.nx)
    (hflx : fl32 (gout.xmin : ℚ) = gout.xmin) (hfly : fl32 (gout.ymin : ℚ) = gout.ymin) :
    zoomImage2 gout gi pl opt =
      (List.range gout.ny).map fun (j : Nat) => (List.range gout.nx).map fun (c : Nat) =>
        planeAt gi pl (gout.ymin + (j : Int) + ky) (gout.xmin + (c : Int) + kx) :=
  zoomImage2_pure_shift gout gi pl opt ky kx hzx hzy hxo hyo hne hflx hfly

/-- non-vacuity: three boxes −1, 0, 1 holding 1, 2, 3 shifted by one box into the same range: 2, 3 and a zero; into the range 0 … 3: 3, 0, 0, 0 -/
example : (overlapVec ⟨-1, [7, 7, 7]⟩ ⟨-1, [1, 2, 3]⟩ 1 1 true).vals = [2, 3, 0] ∧
    (overlapVec ⟨0, [7, 7, 7, 7]⟩ ⟨-1, [1, 2, 3]⟩ 1 1 true).vals = [3, 0, 0, 0] ∧ fl32 ((-1 : Int) : ℚ) = ((-1 : Int) : ℚ) := by decide +kernel
/-- non-vacuity of the shortcut theorem: a 2 × 2 plane, voxel size 2 mm, the new grid 2 mm further along y only (one voxel): the y offset
    is 1 voxel, the x offset 0 — the rows move by one, the plane is not copied -/
example : zoomImage2 { zmin := 0, ymin := -1, xmin := -1, nz := 1, ny := 2, nx := 2, vz := 1, vy := 2, vx := 2, oz := 0, oy := 2, ox := 0 }
      { zmin := 0, ymin := -1, xmin := -1, nz := 1, ny := 2, nx := 2, vz := 1, vy := 2, vx := 2, oz := 0, oy := 0, ox := 0 } [[1, 2], [3, 4]] 0
    = [[3, 4], [0, 0]] := by decide +kernel
/-- … and the hypotheses of `C15_zoom_image2_pure_shift` hold for that request with `ky = 1`, `kx = 0`, preserve_values -/
example : fl32 ((2 : ℚ) / 2) = 1 ∧ fl32 (fl32 ((0 : ℚ) - 0) / 2) = ((0 : Int) : ℚ) ∧ fl32 (fl32 ((2 : ℚ) - 0) / 2) = ((1 : Int) : ℚ) ∧
    fl32 ((-1 : Int) : ℚ) = ((-1 : Int) : ℚ) := by decide +kernel

/-! ## image grid sizes derived from float zooms (round 4)

`VoxelsOnCartesianGrid(exam_info, proj_data_info, zooms, origin, sizes)` derives the x / y size of the image from the zoom when the size
is given as `-1`: `2·(int)ceil(fov / voxel_size) + 1` with `voxel_size = bin_size / zoom`, everything in binary32 — for zooms like 1/3, 0.3,
2.2 the quotient is an ulp off an integer.  The model (`voxelsFromProjData`) transcribes the float operations; the correspondence run
(operation `voxsize`) compares index ranges, sizes and voxel sizes exactly. -/

/-- "whenever the new grid covers the object": a size derived from the zoom gives the centred odd grid `-h … h` whose half-width `h`
    (voxels) is the smallest integer not below the field-of-view radius in voxels as the source computes it (`fl32 (fov / voxel_size)`):
    it covers that radius and exceeds it by less than one voxel.  (Stated for x; y is the same expression with `zy`.) -/
theorem C15_voxels_size_from_zoom (rs bin fov : ℚ) (seg0 : Seg) (zz zy zx : ℚ) (sz sy : Int) (g : Grid)
    (h : voxelsFromProjData rs bin fov seg0 zz zy zx sz sy (-1) = some g) (hq : 0 ≤ fl32 (fov / fl32 (bin / zx))) :
    g.vx = fl32 (bin / zx) ∧
    ∃ hx : Int, (g.nx : Int) = 2 * hx + 1 ∧ g.xmin = -hx ∧ fl32 (fov / g.vx) ≤ (hx : ℚ) ∧ (hx : ℚ) < fl32 (fov / g.vx) + 1 :=
  voxels_derived_x rs bin fov seg0 zz zy zx sz sy g h hq

/-- non-vacuity, and the float conversion "as it is": bin size 2 mm, zoom 0.6 (the binary32 number `5033165/2^23`, a hair above 3/5),
    field of view 10 mm: the voxel size `fl32(2/zoom)` is 3.3333333, the binary32 quotient `10/voxel` rounds to exactly 3 and the size is
    2·3+1 = 7 — exact arithmetic on the same inputs gives a quotient a hair above 3, i.e. `ceil` = 4 and size 9 -/
example : (voxelsFromProjData 4 2 10 ⟨0, 0, 4⟩ 1 (5033165 / 8388608) (5033165 / 8388608) (-1) (-1) (-1)).map
    (fun g => (g.zmin, g.ymin, g.xmin, g.nz, g.ny, g.nx)) = some (0, -3, -3, 7, 7, 7) ∧
    ceilQ ((10 : ℚ) / (2 / (5033165 / 8388608))) = 4 := by decide +kernel
example : (0 : ℚ) ≤ fl32 (10 / fl32 (2 / (5033165 / 8388608))) := by decide +kernel

/-! ## `zoom_viewgram` / `zoom_viewgrams` -/

/-- "the result does not depend on whether it is produced in one call or composed through the in-place and two-step variants", for
    viewgrams: `zoom_viewgram(viewgram, zoom, min_tang, max_tang, x, y)` (and, viewgram by viewgram, `zoom_viewgrams`) is
    `zoom_viewgram(out, in, x, y)` on the geometry it constructs — tangential range `minT … maxT`, tangential sampling
    `fl32 (in_bin / zoom)` — including the request that it short-cuts (`inBin`: any non-zero float). -/
theorem C15_zoom_viewgram_variants_agree (zoom : ℚ) (minT maxT inLo : Int) (rows : List (List ℚ)) (inBin xoff yoff c s : ℚ)
    (hb : inBin ≠ 0) (hfl : fl32 inBin = inBin) :
    zoomViewgramInPlace zoom minT maxT inLo rows inBin xoff yoff c s
      = (minT, fl32 (inBin / zoom),
         zoomViewgram minT (maxT - minT + 1).toNat inLo rows inBin (fl32 (inBin / zoom)) xoff yoff c s) :=
  zoomViewgramInPlace_eq zoom minT maxT inLo rows inBin xoff yoff c s hb hfl

/-- "total counts are conserved" / "uniform regions stay uniform" in the simplest case: zoom 1, no shift, the same tangential range gives
    back the data (`zoom_viewgram(out, in, 0, 0)`: "replacing out_viewgram with the new data").  The implementation at the pinned
    revision returns without writing `out_viewgram` here; the harness oracle reports it (docs/fixes/C15-1.diff). -/
theorem C15_zoom_viewgram_identity (lo : Int) (n : Nat) (rows : List (List ℚ)) (b c s : ℚ) (hb : b ≠ 0)
    (hrows : ∀ r ∈ rows, r.length = n) : zoomViewgram lo n lo rows b b 0 0 c s = rows :=
  zoomViewgram_identity lo n rows b c s hb hrows

/-- every axial position of a viewgram is zoomed on its own by the 1-D `overlap_interpolate` (`overlapVec`) along the tangential
    direction, with `zoom = in_bin/out_bin` and the offset `(x cos φ + y sin φ)/in_bin` of the view -/
theorem C15_zoom_viewgram_rows (outLo : Int) (outN : Nat) (inLo : Int) (rows : List (List ℚ)) (inBin outBin xoff yoff c s : ℚ)
    (hne : ¬ (outLo == inLo ∧ rows.all (fun r => r.length == outN) ∧ fl32 (inBin / outBin) == 1 ∧ xoff == 0 ∧ yoff == 0)) :
    zoomViewgram outLo outN inLo rows inBin outBin xoff yoff c s
      = rows.map fun r =>
          (overlapVec ⟨outLo, List.replicate outN 0⟩ ⟨inLo, r⟩ (fl32 (inBin / outBin)) (zoomViewgramOffset xoff yoff c s inBin) true).vals :=
  zoomViewgram_rows outLo outN inLo rows inBin outBin xoff yoff c s hne

/-- non-vacuity: two rows over the tangential positions −1, 0, 1 (bin size 2 mm), zoom 2 into positions −3 … 3, no shift:
    the replacing overload gives tangential sampling 1 mm; the seven output bins (half an input bin wide) cover the three input bins, an
    output bin straddling two input bins gets a quarter of each; the row sums 6 and 9 are conserved -/
example : zoomViewgramInPlace 2 (-3) 3 (-1) [[1, 2, 3], [4, 4, 1]] 2 0 0 1 0
    = (-3, 1, [[1 / 4, 1 / 2, 3 / 4, 1, 5 / 4, 3 / 2, 3 / 4], [1, 2, 2, 2, 5 / 4, 1 / 2, 1 / 4]]) := by decide +kernel
example : (2 : ℚ) ≠ 0 ∧ fl32 2 = 2 := by decide +kernel
example : zoomViewgram (-1) 3 (-1) [[1, 2, 3], [4, 4, 1]] 2 2 0 0 1 0 = [[1, 2, 3], [4, 4, 1]] :=
  C15_zoom_viewgram_identity (-1) 3 _ 2 1 0 (by norm_num) (by decide)

/-! ## `inverse_SSRB` -/

/-- every output sinogram of `inverse_SSRB` is a convex combination of direct sinograms (non-negative weights summing to one) -/
theorem C15_inverse_ssrb_convex (ms : List ℚ) (outM tol : ℚ) (htol : 0 ≤ tol) (ws : List (Nat × ℚ))
    (h : inverseSsrbWeights ms outM tol = some ws) : (∀ w ∈ ws, 0 ≤ w.2) ∧ (ws.map (·.2)).sum = 1 :=
  (inverseSsrb_shape ms outM tol htol ws h).convex

/-- "physical positions": a copy comes from the direct sinogram within `tol` of the output's `m`; a combination of two direct
    sinograms has weighted mean axial position equal to the output's `m` whenever that lies between the two -/
theorem C15_inverse_ssrb_position (ms : List ℚ) (outM tol : ℚ) (htol : 0 ≤ tol) (ws : List (Nat × ℚ))
    (h : inverseSsrbWeights ms outM tol = some ws) :
    (∃ a, ws = [(a, 1)] ∧ |outM - ms.getD a 0| ≤ tol) ∨
    (∃ a b wa wb, ws = [(a, wa), (b, wb)] ∧
      ((ms.getD a 0 ≤ outM ∧ outM ≤ ms.getD b 0) ∨ (ms.getD b 0 ≤ outM ∧ outM ≤ ms.getD a 0) →
        wa * ms.getD a 0 + wb * ms.getD b 0 = outM)) :=
  (inverseSsrb_shape ms outM tol htol ws h).position

/-- **`inverse_SSRB`, every bin** (the correspondence compares every bin of every output sinogram, operation `invssrb`): with
    `sinos` the direct sinograms (one list of `n` bins per axial position of `ms`), the output sinogram exists whenever the weights do,
    has `n` bins, each bin is the combination of the bins at the *same* (view, tangential position) of the selected direct sinograms with
    the weights of `C15_inverse_ssrb_convex` / `C15_inverse_ssrb_position`, and its total is the same combination of their totals
    ("counts are neither created nor lost", "physical positions": nothing moves in view or tangential position). -/
theorem C15_inverse_ssrb_bins (ms : List ℚ) (outM tol : ℚ) (htol : 0 ≤ tol) (sinos : List (List ℚ)) (n : Nat)
    (hnum : sinos.length = ms.length) (hlen : ∀ r ∈ sinos, r.length = n) (ws : List (Nat × ℚ))
    (h : inverseSsrbWeights ms outM tol = some ws) :
    ∃ out, inverseSsrbSino ms outM tol sinos = some out ∧ out.length = n ∧
      (∀ i, out.getD i 0 = (ws.map fun w => w.2 * (sinos.getD w.1 []).getD i 0).sum) ∧
      out.sum = (ws.map fun w => w.2 * (sinos.getD w.1 []).sum).sum :=
  inverseSsrbSino_bins ms outM tol htol sinos n hnum hlen ws h

/-- the direct sinograms that `inverse_SSRB` reads exist (their axial position is inside the input) -/
theorem C15_inverse_ssrb_reads_inside (ms : List ℚ) (outM tol : ℚ) (ws : List (Nat × ℚ))
    (h : inverseSsrbWeights ms outM tol = some ws) : ∀ w ∈ ws, w.1 < ms.length :=
  inverseSsrb_index ms outM tol ws h

/-- three direct sinograms of two bins at m = 0, 4, 8; output at m = 3: bin by bin ¼ of the first + ¾ of the second -/
example : inverseSsrbSino [0, 4, 8] 3 (1 / 10000) [[4, 8], [8, 0], [1, 1]] = some [7, 2] := by decide +kernel

/-- direct sinograms at m = 0, 4, 8 and an output sinogram at m = 3: weights ¾ on m = 4 and ¼ on m = 0 -/
example : inverseSsrbWeights [0, 4, 8] 3 (1 / 10000) = some [(0, 1 / 4), (1, 3 / 4)] := by decide +kernel

/-! ## non-vacuity -/

/-- 5 rings, span 1 (segments −4 … 4), three segments combined: the group of output segment 1 (input segments 2, 3, 4) -/
def exampleIn : PDI :=
  { N := 16, R := 5, T := 0, minSeg := -4,
    segs := [⟨-4, -4, 1⟩, ⟨-3, -3, 2⟩, ⟨-2, -2, 3⟩, ⟨-1, -1, 4⟩, ⟨0, 0, 5⟩, ⟨1, 1, 4⟩, ⟨2, 2, 3⟩, ⟨3, 3, 2⟩, ⟨4, 4, 1⟩],
    numViews := 8, minTang := -3, maxTang := 3, tofMash := 0, minTof := 0, maxTof := 0 }

example : ssrbOutSeg exampleIn 3 1 = some ⟨2, 4, 5⟩ := by decide

example : GroupWF exampleIn (1 * 3 - (3 : Int).tdiv 2) (1 * 3 + (3 : Int).tdiv 2) := by
  have key : ∀ i s, (1 * 3 - (3 : Int).tdiv 2) ≤ i → i ≤ (1 * 3 + (3 : Int).tdiv 2) → exampleIn.seg? i = some s →
      (i = 2 ∧ s = ⟨2, 2, 3⟩) ∨ (i = 3 ∧ s = ⟨3, 3, 2⟩) ∨ (i = 4 ∧ s = ⟨4, 4, 1⟩) := by
    intro i s h1 h2 h3
    have h1' : (2 : Int) ≤ i := h1
    have h2' : i ≤ (4 : Int) := h2
    have : i = 2 ∨ i = 3 ∨ i = 4 := by omega
    rcases this with rfl | rfl | rfl
    · left; exact ⟨rfl, (Option.some.inj h3).symm⟩
    · right; left; exact ⟨rfl, (Option.some.inj h3).symm⟩
    · right; right; exact ⟨rfl, (Option.some.inj h3).symm⟩
  constructor
  · intro i s h1 h2 h3
    rcases key i s h1 h2 h3 with ⟨_, rfl⟩ | ⟨_, rfl⟩ | ⟨_, rfl⟩
    · exact ⟨2, by decide⟩
    · exact ⟨3, by decide⟩
    · exact ⟨4, by decide⟩
  · intro i s h1 h2 h3
    rcases key i s h1 h2 h3 with ⟨_, rfl⟩ | ⟨_, rfl⟩ | ⟨_, rfl⟩ <;> decide
  · intro i s h1 h2 h3
    rcases key i s h1 h2 h3 with ⟨_, rfl⟩ | ⟨_, rfl⟩ | ⟨_, rfl⟩ <;> decide
  · intro i j si sj h1 hij h2 h3 h4
    rcases key i si h1 (by omega) h3 with ⟨rfl, rfl⟩ | ⟨rfl, rfl⟩ | ⟨rfl, rfl⟩ <;>
      rcases key j sj (by omega) h2 h4 with ⟨rfl, rfl⟩ | ⟨rfl, rfl⟩ | ⟨rfl, rfl⟩ <;>
      first | decide | omega


/-- (round 4) the same group for the ring spacing of the GE Discovery ST family, 6.54 mm = the binary32 number `6857687/2^20`: the
    source's `number_of_ms` evaluated exactly is 5, the number of axial positions of the output segment; input (segment 3, axial
    position 1) has `m = 2` quarter ring spacings = `6857687/2^21` mm and so has output axial position 3 -/
example : ssrbNumberOfMs [⟨2, 2, 3⟩, ⟨3, 3, 2⟩, ⟨4, 4, 1⟩] ⟨2, 2, 3⟩ (⟨2, 4, 5⟩ : Seg).inc (6857687 / 1048576) = 5 := by decide +kernel
example : (⟨3, 3, 2⟩ : Seg).m4 1 = 2 ∧ (⟨2, 4, 5⟩ : Seg).m4 3 = 2 ∧
    (⟨2, 4, 5⟩ : Seg).mMm (6857687 / 1048576) 3 = 6857687 / 2097152 ∧ (⟨3, 3, 2⟩ : Seg).mMm (6857687 / 1048576) 1 = 6857687 / 2097152 := by
  decide +kernel
example : ∀ i, 1 * 3 - (3 : Int).tdiv 2 ≤ i → i ≤ 1 * 3 + (3 : Int).tdiv 2 → ∃ s, exampleIn.seg? i = some s := by
  intro i h1 h2
  have h1' : (2 : Int) ≤ i := h1
  have h2' : i ≤ (4 : Int) := h2
  have : i = 2 ∨ i = 3 ∨ i = 4 := by omega
  rcases this with rfl | rfl | rfl <;> exact ⟨_, rfl⟩

/-- the same geometry rebinned with 3 segments, 2 views combined, no trimming: hypotheses of `C15_ssrb_commutes_with_binning` hold -/
def exampleOut : PDI :=
  { exampleIn with minSeg := -1, segs := [⟨-4, -2, 5⟩, ⟨-1, 1, 9⟩, ⟨2, 4, 5⟩], numViews := 4 }

example : ssrbInfo exampleIn 3 2 0 (-1) 1 = some exampleOut := by decide
example : exampleIn.WF := C15_wfb_sound exampleIn (by decide)
example : exampleIn.N.tdiv 2 = exampleIn.numViews * 1 ∧ exampleIn.numViews = 4 * 2 := by decide
/-- detector pair (det 3, ring 0)–(det 11, ring 3): input bin (seg 3, view 3, ax 0, tang 0), output bin (seg 1, view 1, ax 1, tang 0);
    `SSRB` writes exactly that bin -/
example : exampleIn.toGeom.binForDetPair ⟨3, 0, 11, 3, 0⟩ = some ⟨3, 3, 0, 0, 0⟩ ∧
    exampleOut.toGeom.binForDetPair ⟨3, 0, 11, 3, 0⟩ = some ⟨1, 1, 1, 0, 0⟩ ∧
    0 ≤ (detToViewTang exampleIn.N 3 11).1 ∧
    targets exampleIn exampleOut ⟨3, 3, 0, 0, 0⟩ = [⟨1, 1, 1, 0, 0⟩] := by decide

/-- the identity request on that geometry: the hypotheses of `C15_ssrb_identity_geometry` / `C15_ssrb_identity_data` hold, the geometry and
    the bin of the detector pair above come back -/
example : exampleIn.minSeg = -exampleIn.maxSeg ∧ 0 ≤ exampleIn.maxSeg ∧ 0 < exampleIn.numTang ∧
    exampleIn.minTang = -(exampleIn.numTang.tdiv 2) ∧ ssrbInfo exampleIn 1 1 0 (-1) 1 = some exampleIn ∧
    targets exampleIn exampleIn ⟨3, 3, 0, 0, 0⟩ = [⟨3, 3, 0, 0, 0⟩] := by decide
/-- one ring: a single segment with a single axial position; the identity request gives it back, and so does every bin -/
def exampleOneRing : PDI :=
  { N := 8, R := 1, T := 0, minSeg := 0, segs := [⟨0, 0, 1⟩], numViews := 4, minTang := -1, maxTang := 1, tofMash := 0, minTof := 0, maxTof := 0 }
example : ssrbInfo exampleOneRing 1 1 0 (-1) 1 = some exampleOneRing :=
  C15_ssrb_identity_geometry exampleOneRing (by decide) (by decide) (by decide) (by decide)
example : exampleOneRing.WF ∧ exampleOneRing.toGeom.binForDetPair ⟨0, 0, 5, 0, 0⟩ = some ⟨0, 1, 0, -1, 0⟩ ∧
    targets exampleOneRing exampleOneRing ⟨0, 1, 0, -1, 0⟩ = [⟨0, 1, 0, -1, 0⟩] :=
  ⟨C15_wfb_sound exampleOneRing (by decide), by decide, by decide⟩

/-- ring pair (0, 3) of that geometry: input (seg 3, ax 0), `m = -2`; output (seg 1, ax 1) has `m = -2` too -/
example : (⟨3, 3, 2⟩ : Seg).axOff 5 = some 3 ∧ (⟨3, 3, 2⟩ : Seg).Exact 3 ∧ (⟨3, 3, 2⟩ : Seg).axOf 3 0 3 = 0 ∧ (⟨3, 3, 2⟩ : Seg).m4 0 = -2 ∧
    (⟨2, 4, 5⟩ : Seg).axOff 5 = some 2 ∧ (⟨2, 4, 5⟩ : Seg).axOf 2 0 3 = 1 ∧ (⟨2, 4, 5⟩ : Seg).m4 1 = -2 := by
  refine ⟨by decide, ?_, by decide, by decide, by decide, by decide, by decide⟩
  intro _; decide

/-- TOF: 9 unmashed bins, mashing 1, three bins combined: `t = 4 ↦` input bin 4, output bin 1; window accepts exactly that -/
example : tofInWindow 1 (1 * 3) (roundDiv 4 1) 1 = true ∧ roundDiv 4 (1 * 3) = 1 ∧ tofInWindow 1 (1 * 3) (roundDiv 4 1) 2 = false := by decide

/-- overlap conservation, centre of mass, uniform data: 3 input boxes `[0,1],[1,2],[2,3]` with values 1, 2, 3 into two output boxes
    `[-1, 1.5], [1.5, 4]` -/
def exIn : ℕ → ℚ := fun j => (j : ℚ) + 1
def exIc : ℕ → ℚ := fun j => (j : ℚ)
def exOc : ℕ → ℚ := fun i => -1 + 5 / 2 * (i : ℚ)

example : ∑ i ∈ range 2, specBox 3 exIn exIc (exOc i) (exOc (i + 1)) = ∑ j ∈ range 3, exIn j * (exIc (j + 1) - exIc j) := by
  apply C15_overlap_conserves 3 2 exIn exIc exOc
  · intro j _; simp only [exIc]; push_cast; linarith
  · intro i _; simp only [exOc]; push_cast; linarith
  · simp only [exOc, exIc]; norm_num
  · simp only [exOc, exIc]; norm_num

example : (∀ j < 3, 0 ≤ exIn j) ∧ 0 < ∑ j ∈ range 3, exIn j * (exIc (j + 1) - exIc j) ∧ (∀ j < 3, exIc (j + 1) - exIc j ≤ 1) ∧
    (∀ i < 2, exOc (i + 1) - exOc i ≤ 5 / 2) := by
  refine ⟨fun j _ => by simp only [exIn]; positivity, ?_, fun j _ => by simp only [exIc]; push_cast; linarith,
    fun i _ => by simp only [exOc]; push_cast; linarith⟩
  simp only [exIn, exIc, sum_range_succ, sum_range_zero]; norm_num

end StirVerif.C15
