import StirVerif.C15.Model
namespace StirVerif.C15
end StirVerif.C15
