import StirVerif.C15.ProofsSSRB
import Mathlib.Tactic.Ring
import Mathlib.Tactic.Linarith

namespace StirVerif.C15
open StirVerif.C01

/-- **TOF**: with odd mashing factor `m` of the input and an odd number `k` of TOF bins to combine, the half-open window test
    of `SSRB` (`in_k ∈ [out_k − Δ/2, out_k + Δ/2)`) accepts input TOF bin `round(t/m)` for output bin `ot` exactly when
    `ot = round(t/(m·k))`, the TOF bin the output geometry assigns to the unmashed timing position `t`. -/
theorem tof_commutes (t m k ot : Int) (hm : 0 < m) (hmo : m % 2 = 1) (hk : 0 < k) (hko : k % 2 = 1) :
    tofInWindow m (m * k) (roundDiv t m) ot = true ↔ ot = roundDiv t (m * k) := by
  have hP : 0 < m * k := Int.mul_pos hm hk
  have hPo : (m * k) % 2 = 1 := by
    rw [Int.mul_emod, hmo, hko]; rfl
  obtain ⟨h1, h2⟩ := (roundDiv_odd t m (roundDiv t m) hm hmo).mp rfl
  generalize roundDiv t m = a at *
  rw [show (ot = roundDiv t (m * k)) ↔ (roundDiv t (m * k) = ot) from eq_comm, roundDiv_odd t (m * k) ot hP hPo]
  unfold tofInWindow
  rw [if_neg (by omega)]
  simp only [decide_eq_true_eq]
  -- parity: 2·ot·k ± k is odd, 2·a is even
  have e1 : 2 * ot * (m * k) - m * k = (2 * (ot * k) - k) * m := by ring
  have e2 : 2 * ot * (m * k) + m * k = (2 * (ot * k) + k) * m := by ring
  have e3 : 2 * a * m - m = (2 * a - 1) * m := by ring
  have e4 : 2 * a * m + m = (2 * a + 1) * m := by ring
  rw [e1, e2]
  generalize ot * k = x at *
  rw [e3] at h1
  rw [e4] at h2
  constructor
  · rintro ⟨w1, w2⟩
    have c1 : 2 * x - k ≤ 2 * a := le_of_mul_le_mul_right w1 hm
    have c2 : 2 * a < 2 * x + k := lt_of_mul_lt_mul_right w2 (le_of_lt hm)
    have c1' : 2 * x - k + 1 ≤ 2 * a := by omega
    have c2' : 2 * a + 1 ≤ 2 * x + k := by omega
    constructor
    · have : (2 * x - k) * m ≤ (2 * a - 1) * m := mul_le_mul_of_nonneg_right (by omega) (le_of_lt hm)
      linarith
    · have : (2 * a + 1) * m ≤ (2 * x + k) * m := mul_le_mul_of_nonneg_right c2' (le_of_lt hm)
      linarith
  · rintro ⟨w1, w2⟩
    have c1 : 2 * x - k < 2 * a + 1 := lt_of_mul_lt_mul_right (lt_trans w1 h2) (le_of_lt hm)
    have c2 : 2 * a - 1 < 2 * x + k := lt_of_mul_lt_mul_right (lt_trans h1 w2) (le_of_lt hm)
    constructor
    · exact mul_le_mul_of_nonneg_right (by omega) (le_of_lt hm)
    · exact mul_lt_mul_of_pos_right (by omega) hm

end StirVerif.C15
