/-
C15 — executable model of rebinning (`SSRB`) and resampling (`overlap_interpolate`, `zoom_image`).

Sources (pinned tree):
* `SSRB(const ProjDataInfo&, num_segments_to_combine, num_views_to_combine, num_tang_poss_to_trim,
  max_in_segment_num_to_process, num_tof_bins_to_combine)`: src/buildblock/SSRB.cxx:42-142  (`ssrbInfo`);
* `SSRB(ProjData& out, const ProjData& in, bool do_norm)`: src/buildblock/SSRB.cxx:165-310 (`pullsSino`, `targets`, `ssrbData`);
* `ProjDataInfoCylindrical::get_m`, `get_axial_sampling`, `initialise_ring_diff_arrays` (m_offset):
  src/include/stir/ProjDataInfoCylindrical.inl:72, :134, src/buildblock/ProjDataInfoCylindrical.cxx:138-150 (`Seg.m4`);
  and, in millimetres for a given ring spacing, `Seg.mMm`, `Seg.axialSampling` (round 4: scanners whose ring spacing is not a dyadic rational);
* `VoxelsOnCartesianGrid::construct_from_projdata_info` with `find_sampling_and_z_size`: src/buildblock/VoxelsOnCartesianGrid.cxx:53-150, :215-283
  (`voxelsFromProjData`: grid sizes derived from float zooms);
* `ProjDataInfo::set_tof_mash_factor`, `get_k`, `get_sampling_in_k`, `set_num_tangential_poss`, `set_num_views`:
  src/buildblock/ProjDataInfo.cxx:69-90, :117-129, :174-255 (`setTofMash`, `tofInWindow`, `setNumTang`);
* `overlap_interpolate(VectorWithOffset&, const VectorWithOffset&, zoom, offset, assign_rest_with_zeroes)`:
  src/buildblock/overlap_interpolate.cxx:100-313 (`overlapVec`);
* iterator `overlap_interpolate`: src/include/stir/numerics/overlap_interpolate.inl:22-157 (`overlapIter`);
* `zoom_image` family: src/buildblock/zoom.cxx:212-478 (`newGridFromZoom`, `zoomImage3`, `zoomImage2`, `zoomImageParams3`, `zoomImageParams2`);
* `zoom_viewgram` (both overloads), `zoom_viewgrams`: src/buildblock/zoom.cxx:97-210 (`zoomViewgramOffset`, `zoomViewgram`, `zoomViewgramInPlace`);
* `find_centre_of_gravity_in_mm`: src/buildblock/centre_of_gravity.cxx:32-128 (`cogMm`);
* `inverse_SSRB`: src/buildblock/inverse_SSRB.cxx:33-131 (`inverseSsrbCompatible`, `inverseSsrbWeights`, `inverseSsrbSino`);
* `extend_segment`: src/buildblock/extend_projdata.cxx:36-150 (`extendModeK`, `extendSegment`).

The ring pair ↔ (segment, axial position) and detector pair → bin model is the one of C01 (`StirVerif.C01.Seg`,
`Geom.binForDetPair`, …), imported, not copied, so that the C01 theorems apply.

Numbers.  Axial coordinates `m` are exact integers in units of ring_spacing/4 (`Seg.m4`); the source compares
floats with `fabs(out_m - in_m) < 1E-4` (mm).  TOF bin positions `k` are exact in units of the unmashed TOF bin.
Image values / coordinates are `Rat` (every float is a dyadic rational); the float roundings of the implementation
are not modelled except `fl32` for the single division of the normalised SSRB.  32-bit overflow is not modelled.
Core Lean only.
-/
import StirVerif.C01.Model

namespace StirVerif.C15
open StirVerif.C01

/-! ## small numeric helpers -/

def pow2 (e : Int) : Rat := if e ≥ 0 then ((2 ^ e.toNat : Nat) : Rat) else 1 / ((2 ^ (-e).toNat : Nat) : Rat)

def absQ (q : Rat) : Rat := if q < 0 then -q else q

/-- round to the nearest IEEE binary32 (ties to even); overflow and subnormals are not handled (never reached) -/
def fl32 (q : Rat) : Rat :=
  if q == 0 then 0
  else
    let a := absQ q
    let e0 : Int := (Nat.log2 a.num.natAbs : Int) - (Nat.log2 a.den : Int)
    let e := if pow2 e0 > a then e0 - 1 else if pow2 (e0 + 1) ≤ a then e0 + 1 else e0
    let scaled := a / pow2 (e - 23)
    let fl := scaled.floor
    let frac := scaled - (fl : Rat)
    let n : Int := if frac > 1 / 2 then fl + 1 else if frac < 1 / 2 then fl else (if fl % 2 == 0 then fl else fl + 1)
    let r := (n : Rat) * pow2 (e - 23)
    if q < 0 then -r else r

/-- the integers `lo, lo+1, …, hi` -/
def irange (lo hi : Int) : List Int := (List.range (hi - lo + 1).toNat).map fun (k : Nat) => lo + (k : Int)

/-! ## projection-data geometry as far as `SSRB` reads / writes it -/

structure PDI where
  N : Int            -- detectors per ring
  R : Int            -- rings
  T : Int            -- scanner: max_num_of_timing_poss (≤ 0: scanner not TOF ready)
  minSeg : Int
  segs : List Seg    -- segment `minSeg + k` is `segs[k]`; min_axial_pos_num is 0 (always, after construction and after SSRB)
  numViews : Int     -- min_view_num = 0
  minTang : Int
  maxTang : Int
  tofMash : Int      -- 0: non-TOF
  minTof : Int
  maxTof : Int
  deriving Repr, DecidableEq, Inhabited

def PDI.maxSeg (p : PDI) : Int := p.minSeg + p.segs.length - 1

def PDI.seg? (p : PDI) (s : Int) : Option Seg :=
  if s < p.minSeg then none else p.segs[(s - p.minSeg).toNat]?

def PDI.numTang (p : PDI) : Int := p.maxTang - p.minTang + 1

/-- the C01 view of the same geometry (`get_view_mashing_factor` = N/2/num_views) -/
def PDI.toGeom (p : PDI) : Geom :=
  { N := p.N, R := p.R, minSeg := p.minSeg, segs := p.segs,
    viewMash := (p.N.tdiv 2).tdiv p.numViews, tofMash := p.tofMash }

/-- `ProjDataInfoCylindrical::get_m(Bin(seg,·,a,·))` in units of ring_spacing/4:
    `a*axial_sampling - m_offset` with `axial_sampling = ring_spacing/inc`, `m_offset = (max_ax+min_ax)*axial_sampling/2`, `min_ax = 0` -/
def _root_.StirVerif.C01.Seg.m4 (s : Seg) (a : Int) : Int := (2 * a - (s.numAx - 1)) * (if s.inc == 2 then 1 else 2)

/-- `ProjDataInfoCylindrical::get_m(Bin(seg,·,a,·))` in millimetres for a scanner with ring spacing `rs` (exact; the source evaluates
    `a*axial_sampling - m_offset` in binary32).  The ring spacing of most predefined scanners (6.54, 4.85, 3.29114, 5.56 … mm) is not a dyadic
    rational: `rs` is then the exact value of the binary32 number the scanner holds. -/
def _root_.StirVerif.C01.Seg.mMm (s : Seg) (rs : Rat) (a : Int) : Rat := ((s.m4 a : Int) : Rat) * rs / 4

/-- `ProjDataInfoCylindrical::get_axial_sampling(segment)` = `ring_spacing / get_num_axial_poss_per_ring_inc(segment)` in millimetres -/
def _root_.StirVerif.C01.Seg.axialSampling (s : Seg) (rs : Rat) : Rat := rs / ((s.inc : Int) : Rat)

/-- `ProjDataInfo::set_num_tangential_poss` -/
def setNumTang (n : Int) : Int × Int := (-(n.tdiv 2), -(n.tdiv 2) + n - 1)

/-- `ProjDataInfo::set_tof_mash_factor(new)` for a scanner with `T` timing positions: (mash, min_tof, max_tof), `none` = `error` -/
def setTofMash (T new : Int) : Option (Int × Int × Int) :=
  if T > 0 ∧ new > 0 then
    if new > T then none
    else
      let nb := T.tdiv new
      let mn := (-nb).tdiv 2
      let mx := mn + nb - 1
      if (mx - mn + 1).tmod 2 == 0 then none else some (new, mn, mx)
  else some (0, 0, 0)

/-! ## `SSRB(const ProjDataInfo&, …)`: the output geometry -/

/-- the segments with the listed numbers; `none` if one of them does not exist -/
def collect (f : Int → Option Seg) : List Int → Option (List Seg)
  | [] => some []
  | i :: r =>
    match f i, collect f r with
    | some s, some l => some (s :: l)
    | _, _ => none

/-- one iteration of the loop over `out_segment_num` (SSRB.cxx:95-132): ring-difference range and number of axial
    positions of output segment `os`.  `none`: the source calls `error` ("non-integer") — or reads a segment the
    input does not have (undefined behaviour in the source: there is no check). -/
def ssrbOutSeg (p : PDI) (kSeg os : Int) : Option Seg := do
  let inMinS := os * kSeg - kSeg.tdiv 2
  let inMaxS := os * kSeg + kSeg.tdiv 2
  let sMin ← p.seg? inMinS
  let sMax ← p.seg? inMaxS
  let minRD := sMin.minRD
  let maxRD := sMax.maxRD
  -- min_m / max_m over the input segments (1.E37F / -1.E37F initial values are never the result: the loop is not empty)
  let grp ← collect p.seg? (irange inMinS inMaxS)
  let minM := grp.foldl (fun acc s => min acc (s.m4 0)) (sMin.m4 0)
  let maxM := grp.foldl (fun acc s => max acc (s.m4 (s.numAx - 1))) (sMin.m4 (sMin.numAx - 1))
  let outInc : Int := if maxRD != minRD then 2 else 1
  -- number_of_ms = (max_m - min_m)/axial_sampling(out) + 1, axial_sampling(out) = 4/outInc quarter ring spacings
  let num := (maxM - minM) * outInc
  if num.tmod 4 != 0 then none
  else some { minRD := minRD, maxRD := maxRD, numAx := num.tdiv 4 + 1 }

/-- `SSRB(in_proj_data_info, num_segments_to_combine, num_views_to_combine, num_tang_poss_to_trim,
    max_in_segment_num_to_process, num_tof_bins_to_combine)`; `none` = `error(...)`.
    The azimuthal offset / sampling (floats) are `ssrbPhi`. -/
def ssrbMaxIn (p : PDI) (maxSegArg : Int) : Int := if maxSegArg ≥ 0 then maxSegArg else p.maxSeg

/-- `out_max_segment_num` (SSRB.cxx:84-87; C division truncates towards zero) -/
def ssrbOutMax (p : PDI) (kSeg maxSegArg : Int) : Int :=
  ((if ssrbMaxIn p maxSegArg == -1 then p.maxSeg else ssrbMaxIn p maxSegArg) - kSeg.tdiv 2).tdiv kSeg

/-- TOF part (SSRB.cxx:134-140) -/
def ssrbTof (p : PDI) (kTof : Int) : Option (Int × Int × Int) :=
  if kTof != 1 then (if kTof < 1 then none else setTofMash p.T (p.tofMash * kTof))
  else some (p.tofMash, p.minTof, p.maxTof)

def ssrbInfo (p : PDI) (kSeg kView trim maxSegArg kTof : Int) : Option PDI :=
  -- the four `error` calls before the segment loop (their order is immaterial here)
  if kSeg.tmod 2 == 0 ∨ p.maxSeg < ssrbMaxIn p maxSegArg ∨ p.numTang ≤ trim ∨ ssrbOutMax p kSeg maxSegArg < 0 then none
  else
    match collect (ssrbOutSeg p kSeg) (irange (-(ssrbOutMax p kSeg maxSegArg)) (ssrbOutMax p kSeg maxSegArg)), ssrbTof p kTof with
    | some segs, some (tofMash, minTof, maxTof) =>
      some { p with minSeg := -(ssrbOutMax p kSeg maxSegArg), segs := segs, numViews := p.numViews.tdiv kView,
                    minTang := (setNumTang (p.numTang - trim)).1, maxTang := (setNumTang (p.numTang - trim)).2,
                    tofMash := tofMash, minTof := minTof, maxTof := maxTof }
    | _, _ => none

/-- `number_of_ms` of SSRB.cxx:126 evaluated EXACTLY in millimetres for ring spacing `rs`: `(max_m - min_m)/axial_sampling(out) + 1` with
    `min_m`/`max_m` the smallest / largest `get_m` of the first / last axial positions of the input segments `lo … hi` and the axial
    sampling of an output segment with increment `outInc`.  The source computes this quotient in binary32 and converts it with `round`
    (after checking that it is within 1E-3 of an integer); `ssrbOutSeg` computes the same number in quarter ring spacings, where the ring
    spacing cancels (`C15_ssrb_number_of_ms_any_ring_spacing`). -/
def ssrbNumberOfMs (grp : List Seg) (first : Seg) (outInc : Int) (rs : Rat) : Rat :=
  let minM := grp.foldl (fun acc s => min acc (s.mMm rs 0)) (first.mMm rs 0)
  let maxM := grp.foldl (fun acc s => max acc (s.mMm rs (s.numAx - 1))) (first.mMm rs (first.numAx - 1))
  (maxM - minM) / (rs / ((outInc : Int) : Rat)) + 1

/-- azimuthal angle (offset, sampling) of the output (SSRB.cxx:72-79, `ProjDataInfoCylindrical::set_num_views`),
    exact in `Rat` from the input's float offset and sampling -/
def ssrbPhi (offIn sampIn : Rat) (numViewsIn kView : Int) : Rat × Rat :=
  let numViewsOut := numViewsIn.tdiv kView
  let samp := sampIn * numViewsIn / numViewsOut
  let off := if kView > 1 then offIn + sampIn * (kView - 1) / 2 else offIn
  (off, samp)

/-! ## `SSRB(ProjData& out, const ProjData& in, do_norm)`: the data -/

/-- one step of the scan over the input segments (SSRB.cxx:201-230): `(in_min_segment_num, in_max_segment_num)` so far -/
def inSegStep (og : Seg) (acc : Int × Int) (x : Int × Seg) : Option (Int × Int) :=
  if x.2.minRD ≥ og.minRD ∧ x.2.maxRD ≤ og.maxRD then
    some (if acc.1 > x.1 then x.1 else acc.1, if acc.2 < x.1 then x.1 else acc.2)
  else if x.2.minRD > og.maxRD ∨ x.2.maxRD < og.minRD then some acc
  else none

/-- range of input segments rebinned into output segment `os` (SSRB.cxx:194-230):
    `some (in_min_segment_num, in_max_segment_num)`; `none` = `error` (overlapping ring-difference ranges) -/
def inSegRange (pin : PDI) (og : Seg) : Option (Int × Int) :=
  (List.zip (irange pin.minSeg pin.maxSeg) pin.segs).foldlM (inSegStep og) (pin.maxSeg, pin.minSeg)

/-- the first input axial position (the `break`) whose `m` equals `m4` (SSRB.cxx:268-274) -/
def firstAxWithM (sg : Seg) (m4 : Int) : Option Int :=
  (irange 0 (sg.numAx - 1)).find? fun a => sg.m4 a == m4

/-- `in_k < out_lower_k || in_k >= out_higher_k` negated (SSRB.cxx:255-282); positions in units of the unmashed TOF
    bin: `in_k = it*inMash`, `out_k = ot*outMash`, `sampling_in_k(out) = outMash`.  Non-TOF output: always inside. -/
def tofInWindow (inMash outMash it ot : Int) : Bool :=
  if outMash ≤ 0 then true
  else decide (2 * ot * outMash - outMash ≤ 2 * it * inMash ∧ 2 * it * inMash < 2 * ot * outMash + outMash)

/-- is input sinogram `(is, ia, it)` added into output sinogram `(os, oa, ot)`?  (body of the loop nest SSRB.cxx:238-298) -/
def pullsSino (pin pout : PDI) (os oa ot is ia it : Int) : Bool :=
  match pout.seg? os, pin.seg? is with
  | some og, some sg =>
    match inSegRange pin og with
    | some (lo, hi) =>
      decide (lo ≤ is ∧ is ≤ hi) && (firstAxWithM sg (og.m4 oa) == some ia) && tofInWindow pin.tofMash pout.tofMash it ot
    | none => false
  | _, _ => false

/-- all output sinograms `(segment, axial position, TOF position)` in the loop order of the source -/
def outSinos (pout : PDI) : List (Int × Int × Int) :=
  (List.zip (irange pout.minSeg pout.maxSeg) pout.segs).flatMap fun (os, og) =>
    (irange pout.minTof pout.maxTof).flatMap fun ot =>
      (irange 0 (og.numAx - 1)).map fun oa => (os, oa, ot)

/-- the output bins that input bin `b` is added to (0 or 1 in a legal call; computed by scanning like the source) -/
def targets (pin pout : PDI) (b : Bin) : List Bin :=
  let kView := pin.numViews.tdiv pout.numViews
  if b.tang < max pin.minTang pout.minTang ∨ b.tang > min pin.maxTang pout.maxTang then []
  else
    (outSinos pout).filterMap fun (os, oa, ot) =>
      if pullsSino pin pout os oa ot b.seg b.ax b.tof then some ⟨os, b.view.tdiv kView, oa, b.tang, ot⟩ else none

/-- `num_in_ax_pos` of output sinogram `(os, oa)`: number of input segments in the range having an axial position with
    equal `m` (counted for the first input TOF position only, regardless of the TOF window) -/
def numInAxPos (pin pout : PDI) (os oa : Int) : Int :=
  match pout.seg? os with
  | none => 0
  | some og =>
    match inSegRange pin og with
    | none => 0
    | some (lo, hi) =>
      ((irange lo hi).filter fun is =>
        match pin.seg? is with
        | some sg => (firstAxWithM sg (og.m4 oa)).isSome
        | none => false).length

/-- add `v` at key `b` in an association list -/
def accum (l : List (Bin × Rat)) (b : Bin) (v : Rat) : List (Bin × Rat) :=
  match l with
  | [] => [(b, v)]
  | (b', v') :: r => if b' == b then (b', v' + v) :: r else (b', v') :: accum r b v

/-- does the call error out?  (SSRB.cxx:185-188 and the overlap `error`) -/
def ssrbDataErr (pin pout : PDI) : Bool :=
  pout.numViews == 0 || pin.numViews.tmod pout.numViews != 0 || pout.segs.any fun og => (inSegRange pin og).isNone

/-- `SSRB(out, in, do_norm)` on sparse data (list of (input bin, value), bins inside the input ranges):
    the non-zero output bins.  `none` = `error`. -/
def ssrbData (pin pout : PDI) (doNorm : Bool) (data : List (Bin × Rat)) : Option (List (Bin × Rat)) :=
  if ssrbDataErr pin pout then none
  else
    let kView := pin.numViews.tdiv pout.numViews
    let sums := data.foldl (fun acc (bv : Bin × Rat) => (targets pin pout bv.1).foldl (fun a t => accum a t bv.2) acc) []
    some (if doNorm then
      sums.map fun (b, v) =>
        let n := numInAxPos pin pout b.seg b.ax
        (b, if n != 0 then fl32 (v / ((n * kView : Int) : Rat)) else v)
    else sums)

/-- histogramming: the input bin of a detector-position pair, when inside the ranges of the geometry -/
def binInRange (p : PDI) (b : Bin) : Bool :=
  match p.seg? b.seg with
  | none => false
  | some sg =>
    decide (0 ≤ b.ax ∧ b.ax < sg.numAx ∧ 0 ≤ b.view ∧ b.view < p.numViews ∧ p.minTang ≤ b.tang ∧ b.tang ≤ p.maxTang ∧
            p.minTof ≤ b.tof ∧ b.tof ≤ p.maxTof)

def histBin (p : PDI) (dp : DetPair) : Option Bin :=
  match p.toGeom.binForDetPair dp with
  | some b => if binInRange p b then some b else none
  | none => none

/-! ## `overlap_interpolate` on a `VectorWithOffset` (overlap_interpolate.cxx:100-313)

A 1-D array is a first index and a list of values.  `get i` reads, `set i v` writes inside the range. -/

structure Vec where
  lo : Int
  vals : List Rat
  deriving Repr, Inhabited

def Vec.hi (v : Vec) : Int := v.lo + v.vals.length - 1
def Vec.get (v : Vec) (i : Int) : Rat := if i < v.lo then 0 else v.vals.getD (i - v.lo).toNat 0
def Vec.set (v : Vec) (i : Int) (x : Rat) : Vec :=
  if i < v.lo then v else { v with vals := v.vals.set (i - v.lo).toNat x }

/-- zoom ≥ 1 ("shrinking to a smaller bin size"): the loop over `x2` with the state `(x1, diff_between_right_edges)` -/
def overlapVecShrink (zoom : Rat) (assign : Bool) (inp : Vec) : Nat → Int → Int → Rat → Vec → Vec
  | 0, _, _, _, out => out
  | fuel + 1, x2, x1, d, out =>
    if x2 > out.hi then out
    else if x1 > inp.hi then
      overlapVecShrink zoom assign inp fuel (x2 + 1) x1 (d - 1) (if assign then out.set x2 0 else out)
    else if d ≥ 0 then
      let out := if x1 ≥ inp.lo then out.set x2 (inp.get x1 / zoom) else if assign then out.set x2 0 else out
      overlapVecShrink zoom assign inp fuel (x2 + 1) x1 (d - 1) out
    else
      let v0 := if x1 ≥ inp.lo then inp.get x1 * (1 / d + 1) else if assign then 0 else out.get x2
      let v1 := if x1 + 1 ≤ inp.hi ∧ x1 + 1 ≥ inp.lo then v0 - inp.get (x1 + 1) else v0
      let v2 := v1 * (d / zoom)
      overlapVecShrink zoom assign inp fuel (x2 + 1) (x1 + 1) (d + zoom - 1) (out.set x2 v2)

/-- zoom < 1 ("stretching the bin size"): the loop over `x1` with the state `(x2, diff_between_right_edges)`;
    returns the array and the last `x2` (for the zero-fill of the rest) -/
def overlapVecStretch (inv : Rat) (assign : Bool) (inp : Vec) : Nat → Int → Int → Rat → Vec → Vec × Int
  | 0, _, x2, _, out => (out, x2)
  | fuel + 1, x1, x2, d, out =>
    if x1 > inp.hi then (out, x2)
    else if d ≤ 0 then
      let out := if x1 ≥ inp.lo then out.set x2 (out.get x2 + inp.get x1) else out
      overlapVecStretch inv assign inp fuel (x1 + 1) x2 (d + 1) out
    else
      let dx := 1 - d
      let out := if x1 ≥ inp.lo ∧ absQ dx > 1 / 100000 then out.set x2 ((out.get x2 / dx + inp.get x1) * dx) else out
      let x2 := x2 + 1
      let d := d - inv
      if x2 ≤ out.hi then
        let out := if x1 ≥ inp.lo then out.set x2 (inp.get x1 * (1 - dx)) else if assign then out.set x2 0 else out
        overlapVecStretch inv assign inp fuel (x1 + 1) x2 (d + 1) out
      else (out, x2)

/-- `overlap_interpolate(out_data, in_data, zoom, offset, assign_rest_with_zeroes)`; `zoom > 0`.
    `out` carries the previous contents of `out_data`. -/
def overlapVec (out inp : Vec) (zoom offset : Rat) (assign : Bool) : Vec :=
  if out.vals.isEmpty then out
  else if zoom == 1 ∧ offset == 0 ∧ inp.lo == out.lo ∧ inp.hi == out.hi then { out with vals := inp.vals }
  else if zoom ≥ 1 then
    let x2 := out.lo
    let x1 := (((x2 : Rat) - 1 / 2) / zoom + offset + 1 / 2).floor
    let d := zoom * (fl32 ((x1 : Rat) - offset) + 1 / 2) - ((x2 : Rat) + 1 / 2)   -- `x1 - offset` is an `int - float` = float operation
    overlapVecShrink zoom assign inp (out.vals.length + 1) x2 x1 d out
  else
    let inv := fl32 (1 / zoom)
    let x2 := out.lo
    let x1 := (((x2 : Rat) - 1 / 2) * inv + offset + 1 / 2).floor
    let d := (fl32 ((x1 : Rat) - offset) + 1 / 2) - ((x2 : Rat) + 1 / 2) * inv
    let dl := d - 1 + inv
    let out := if dl < 0 ∧ x1 ≥ inp.lo ∧ x1 ≤ inp.hi then out.set x2 (inp.get x1 * dl) else if assign then out.set x2 0 else out
    let (out, x2) := overlapVecStretch inv assign inp ((inp.hi - x1 + 2).toNat) x1 x2 d out
    if assign then (irange (x2 + 1) out.hi).foldl (fun o i => o.set i 0) out else out

/-! ## the iterator version (numerics/overlap_interpolate.inl:22-157): arbitrary box boundaries -/

/-- the main walk: `i`/`j` index the current in-box and out-box, `cur` = `current_coord`, `first` = `first_time_for_this_out_box`.
    Returns the output and the index of the out-box reached when the input ran out (`none`: all out-boxes done). -/
def overlapIterWalk (oc ic inv : Array Rat) (eps : Rat) (onlyAdd : Bool) :
    Nat → Nat → Nat → Rat → Bool → Array Rat → Array Rat × Option Nat
  | 0, _, j, _, _, out => (out, some j)
  | fuel + 1, i, j, cur, first, out =>
    let inBeyond := ic[i + 1]! > oc[j + 1]!
    let newc := if inBeyond then oc[j + 1]! else ic[i + 1]!
    let ov := newc - cur
    let out :=
      if !onlyAdd && first then
        (if ov > eps then out.set! j (inv[i]! * ov) else out.set! j 0)
      else
        (if ov > eps then out.set! j (out[j]! + inv[i]! * ov) else out)
    let first := if !onlyAdd && first then false else first
    if inBeyond then
      if j + 1 == out.size then (out, none)
      else overlapIterWalk oc ic inv eps onlyAdd fuel i (j + 1) newc true out
    else
      if i + 1 == inv.size then (out, some j)
      else overlapIterWalk oc ic inv eps onlyAdd fuel (i + 1) j newc first out

/-- `overlap_interpolate(out_begin, out_end, out_coord_begin, out_coord_end, in_begin, in_end, in_coord_begin, in_coord_end,
    only_add_to_output, assign_rest_with_zeroes)`; `oc` has one element more than `out`, `ic` one more than `inv` -/
def overlapIter (out oc inv ic : Array Rat) (onlyAdd assign : Bool) : Array Rat :=
  if out.size == 0 ∨ inv.size == 0 then out
  else
    -- skip input to the left of the output range
    let rec skipIn : Nat → Nat → Option Nat
      | 0, i => some i
      | f + 1, i => if ic[i + 1]! ≤ oc[0]! then (if i + 2 == ic.size then none else skipIn f (i + 1)) else some i
    match skipIn inv.size 0 with
    | none => out
    | some i =>
      -- skip output to the left of the input range
      let rec skipOut : Nat → Nat → Array Rat → Array Rat × Option Nat
        | 0, j, o => (o, some j)
        | f + 1, j, o =>
          if oc[j + 1]! ≤ ic[i]! then
            let o := if !onlyAdd && assign then o.set! j 0 else o
            if j + 2 == oc.size then (o, none) else skipOut f (j + 1) o
          else (o, some j)
      match skipOut out.size 0 out with
      | (o, none) => o
      | (o, some j) =>
        let eps := min ((oc[oc.size - 1]! - oc[0]!) / (((oc.size - 1) * 10000 : Nat) : Rat))
                       ((ic[ic.size - 1]! - ic[0]!) / (((ic.size - 1) * 10000 : Nat) : Rat))
        let cur := max ic[i]! oc[j]!
        match overlapIterWalk oc ic inv eps onlyAdd (out.size + inv.size + 2) i j cur true o with
        | (o, none) => o
        | (o, some j) =>
          if !onlyAdd && assign then (List.range (o.size - (j + 1))).foldl (fun o k => o.set! (j + 1 + k) 0) o else o


/-! ## specification of overlap interpolation (what the two implementations above are meant to compute) -/

/-- length of `[a, b] ∩ [c, d]` -/
def ovLen (a b c d : Rat) : Rat := max 0 (min b d - max a c)

/-- value of the output box `[l, r]`: `Σ_j in_j · |[ic j, ic (j+1)] ∩ [l, r]|` over the `n` input boxes -/
def specBox (n : Nat) (inv ic : Nat → Rat) (l r : Rat) : Rat :=
  ((List.range n).map fun j => inv j * ovLen (ic j) (ic (j + 1)) l r).sum

/-- the specification for explicit box boundaries (iterator version; the implementation additionally drops overlaps `≤ epsilon`) -/
def overlapSpecIter (oc inv ic : Array Rat) : List Rat :=
  (List.range (oc.size - 1)).map fun i => specBox inv.size (fun j => inv[j]!) (fun j => ic[j]!) oc[i]! oc[i + 1]!

/-- the specification for `overlap_interpolate(out, in, zoom, offset)`: input box `j` is `[j-½, j+½]`, output box `i` is
    `[(i-½)/zoom + offset, (i+½)/zoom + offset]` (in input index units) -/
def overlapSpecVec (outLo : Int) (outN : Nat) (inp : Vec) (zoom offset : Rat) : List Rat :=
  (List.range outN).map fun (k : Nat) =>
    let i : Int := outLo + (k : Int)
    specBox inp.vals.length (fun j => inp.vals.getD j 0) (fun (j : Nat) => ((inp.lo + (j : Int) : Int) : Rat) - 1 / 2)
      (((i : Rat) - 1 / 2) / zoom + offset) (((i : Rat) + 1 / 2) / zoom + offset)

/-! ## images and `zoom_image` (zoom.cxx) -/

structure Grid where
  zmin : Int
  ymin : Int
  xmin : Int
  nz : Nat
  ny : Nat
  nx : Nat
  vz : Rat
  vy : Rat
  vx : Rat
  oz : Rat
  oy : Rat
  ox : Rat
  deriving Repr, Inhabited

/-- voxel values `[z][y][x]` -/
abbrev Vol := List (List (List Rat))

structure Img where
  g : Grid
  d : Vol
  deriving Repr, Inhabited

def transpose2 (n : Nat) (m : List (List Rat)) : List (List Rat) :=
  (List.range n).map fun k => m.map fun row => row.getD k 0

/-- apply a 1-D operation along x of every row -/
def alongX (f : List Rat → List Rat) (v : Vol) : Vol := v.map fun pl => pl.map f
/-- along y (rows of a plane are the elements; the scalar algorithm acts element-wise on them) -/
def alongY (nx : Nat) (nyOut : Nat) (f : List Rat → List Rat) (v : Vol) : Vol :=
  v.map fun pl => transpose2 nyOut ((transpose2 nx pl).map f)
/-- along z -/
def alongZ (ny nx : Nat) (nzOut : Nat) (f : List Rat → List Rat) (v : Vol) : Vol :=
  -- columns [y][x] → list over z
  let cols : List (List (List Rat)) := (List.range ny).map fun y => (List.range nx).map fun x =>
    f (v.map fun pl => (pl.getD y []).getD x 0)
  (List.range nzOut).map fun z => cols.map fun row => row.map fun col => col.getD z 0

def ovl (outLo : Int) (outN : Nat) (inLo : Int) (zoom offset : Rat) (vals : List Rat) : List Rat :=
  (overlapVec ⟨outLo, List.replicate outN 0⟩ ⟨inLo, vals⟩ zoom offset true).vals

/-- `ZoomOptions::Scaling`: 0 preserve_sum, 1 preserve_values, 2 preserve_projections -/
abbrev ZoomOpt := Nat

/-- `zoom_image(VoxelsOnCartesianGrid& image_out, const VoxelsOnCartesianGrid& image_in, ZoomOptions)` (zoom.cxx:329-423):
    three separable `overlap_interpolate` passes (x, then y, then z) and the option scaling.  `gout` is the geometry of
    `image_out`; its previous contents are overwritten. -/
def zoomImage3 (gout : Grid) (im : Img) (opt : ZoomOpt) : Vol :=
  let gi := im.g
  let zx := fl32 (gi.vx / gout.vx)
  let zy := fl32 (gi.vy / gout.vy)
  let zz := fl32 (gi.vz / gout.vz)
  let xo := fl32 (fl32 (gout.ox - gi.ox) / gi.vx)
  let yo := fl32 (fl32 (gout.oy - gi.oy) / gi.vy)
  let zo := fl32 (fl32 (gout.oz - gi.oz) / gi.vz)
  if zx == 1 ∧ zy == 1 ∧ zz == 1 ∧ xo == 0 ∧ yo == 0 ∧ zo == 0 ∧
     gi.zmin == gout.zmin ∧ gi.ymin == gout.ymin ∧ gi.xmin == gout.xmin ∧ gi.nz == gout.nz ∧ gi.ny == gout.ny ∧ gi.nx == gout.nx then im.d
  else
    let t1 := alongX (ovl gout.xmin gout.nx gi.xmin zx xo) im.d
    let t2 := alongY gout.nx gout.ny (ovl gout.ymin gout.ny gi.ymin zy yo) t1
    let t3 := alongZ gout.ny gout.nx gout.nz (ovl gout.zmin gout.nz gi.zmin zz zo) t2
    let scale : Rat := match opt with
      | 1 => fl32 (fl32 (zx * zy) * zz)
      | 2 => fl32 (zy * zz)
      | _ => 1
    if scale != 1 then t3.map fun pl => pl.map fun row => row.map (· * scale) else t3

/-- `zoom_image(PixelsOnCartesianGrid& out, const PixelsOnCartesianGrid& in, ZoomOptions)` (zoom.cxx:425-478) on one plane.
    The plain-copy shortcut needs BOTH offsets to be 0 (and both zooms 1, equal index ranges): `C15_zoom_image2_shortcut_only_identity`.
    Compared with the implementation through the transaxial one-call variant (`zoom 2d`) and directly, plane by plane into a re-used
    output plane (`zoom pl`). -/
def zoomImage2 (gout : Grid) (gi : Grid) (pl : List (List Rat)) (opt : ZoomOpt) : List (List Rat) :=
  let zx := fl32 (gi.vx / gout.vx)
  let zy := fl32 (gi.vy / gout.vy)
  let xo := fl32 (fl32 (gout.ox - gi.ox) / gi.vx)
  let yo := fl32 (fl32 (gout.oy - gi.oy) / gi.vy)
  if zx == 1 ∧ zy == 1 ∧ xo == 0 ∧ yo == 0 ∧ gi.ymin == gout.ymin ∧ gi.xmin == gout.xmin ∧ gi.ny == gout.ny ∧ gi.nx == gout.nx then pl
  else
    let t1 := pl.map (ovl gout.xmin gout.nx gi.xmin zx xo)
    let t2 := transpose2 gout.ny ((transpose2 gout.nx t1).map (ovl gout.ymin gout.ny gi.ymin zy yo))
    let scale : Rat := match opt with
      | 1 => fl32 (zx * zy)
      | 2 => zy
      | _ => 1
    if scale != 1 then t2.map fun row => row.map (· * scale) else t2

/-- `construct_new_image_from_zoom_parameters` (zoom.cxx:212-262): grid of the new image (float operations as in the source) -/
def newGridFromZoom (gi : Grid) (zz zy zx offz offy offx : Rat) (nz ny nx : Int) : Grid :=
  let vz := fl32 (gi.vz / zz)
  let vy := fl32 (gi.vy / zy)
  let vx := fl32 (gi.vx / zx)
  let ymin := -(ny.tdiv 2)
  let xmin := -(nx.tdiv 2)
  -- middle = (phys(min) + phys(max))/2, phys(i) = spacing*i + origin
  let mid (v o : Rat) (lo : Int) (n : Int) : Rat :=
    fl32 (fl32 (fl32 (fl32 (v * lo) + o) + fl32 (fl32 (v * (lo + n - 1)) + o)) / 2)
  let org (off vin oin : Rat) (loIn : Int) (nIn : Int) (vnew : Rat) (loNew : Int) (nNew : Int) : Rat :=
    fl32 (fl32 (off + mid vin oin loIn nIn) - mid vnew 0 loNew nNew)
  { zmin := 0, ymin := ymin, xmin := xmin, nz := nz.toNat, ny := ny.toNat, nx := nx.toNat, vz := vz, vy := vy, vx := vx,
    oz := org offz gi.vz gi.oz gi.zmin gi.nz vz 0 nz,
    oy := org offy gi.vy gi.oy gi.ymin gi.ny vy ymin ny,
    ox := org offx gi.vx gi.ox gi.xmin gi.nx vx xmin nx }

/-- `zoom_image(image, zooms, offsets_in_mm, new_sizes, options)` (zoom.cxx:316-327) -/
def zoomImageParams3 (im : Img) (zz zy zx offz offy offx : Rat) (nz ny nx : Int) (opt : ZoomOpt) : Img :=
  let g := newGridFromZoom im.g zz zy zx offz offy offx nz ny nx
  ⟨g, zoomImage3 g im opt⟩

/-- `zoom_image(image, zoom, x_offset_in_mm, y_offset_in_mm, new_size, options)` (zoom.cxx:275-303): plane by plane.
    Plane numbering: the new image has the planes `0 … nz-1` (`newGridFromZoom`; its z-origin puts plane `k` at the physical position of
    input plane `zmin + k`), and plane `k` of the result is the zoomed input plane `zmin + k`.  The source at the pinned revision stores
    the zoomed input plane `p` with `new_image.set_plane(…, p)`, i.e. under the *input's* plane number: the same thing when `zmin = 0`,
    an access outside the new image (undefined behaviour, not modelled) otherwise; the harness runs that call in a child process and its
    oracle reports it (repair: docs/fixes/C15-3.diff).  The early return ignores the y size (as the source does). -/
def zoomImageParams2 (im : Img) (zoom xoff yoff : Rat) (newSize : Int) (opt : ZoomOpt) : Img :=
  if zoom == 1 ∧ xoff == 0 ∧ yoff == 0 ∧ newSize == im.g.nx then im
  else
    let g := newGridFromZoom im.g 1 zoom zoom 0 yoff xoff im.g.nz newSize newSize
    ⟨g, im.d.map fun pl => zoomImage2 g im.g pl opt⟩

/-! ## grid sizes derived from float zooms: `VoxelsOnCartesianGrid(exam_info, proj_data_info, zooms, origin, sizes)` -/

/-- `ceil` of a rational -/
def ceilQ (q : Rat) : Int := -((-q).floor)

/-- `VoxelsOnCartesianGrid::construct_from_projdata_info` (VoxelsOnCartesianGrid.cxx:215-283) with `find_sampling_and_z_size`
    (:53-150) for cylindrical projection data: ring spacing `rs`, default bin size `binSize > 0` of the scanner, segment 0 `seg0`,
    `fov` = the largest `|get_s|` of the outermost tangential positions over the views (a float found by the source; an input here).
    Voxel sizes are the binary32 quotients `(rs/2, binSize, binSize) / zooms`; the number of planes comes from segment 0 (all its axial
    positions with axial compression, `2n-1` without) unless given; an x / y size given as `-1` is derived from the zoom:
    `2 * static_cast<int>(ceil(fov / voxel_size)) + 1` with the quotient evaluated in binary32 — it is an ulp above or below an integer
    for zooms like 1/3, 0.3, 2.2, and the conversion is transcribed as it is (`ceil` of the ROUNDED quotient).  `none` = `error`
    (negative size).  Index ranges: planes from 0, y and x centred (`-(n/2) …`). The origin is the argument (not modelled: copied). -/
def voxelsFromProjData (rs binSize fov : Rat) (seg0 : Seg) (zz zy zx : Rat) (sz sy sx : Int) : Option Grid :=
  let zSize : Int := if sz < 0 then (if seg0.maxRD > seg0.minRD then seg0.numAx else 2 * seg0.numAx - 1) else sz
  let vz := fl32 (fl32 (rs / 2) / zz)
  let vy := fl32 (binSize / zy)
  let vx := fl32 (binSize / zx)
  let derive : Bool := sx == -1 || sy == -1
  let xs : Int := if derive && sx == -1 then 2 * ceilQ (fl32 (fov / vx)) + 1 else sx
  let ys : Int := if derive && sy == -1 then 2 * ceilQ (fl32 (fov / vy)) + 1 else sy
  if xs < 0 ∨ ys < 0 then none
  else some { zmin := 0, ymin := -(ys.tdiv 2), xmin := -(xs.tdiv 2), nz := zSize.toNat, ny := ys.toNat, nx := xs.toNat,
              vz := vz, vy := vy, vx := vx, oz := 0, oy := 0, ox := 0 }

/-! ## `zoom_viewgram` / `zoom_viewgrams` (zoom.cxx:97-210): arc-corrected viewgrams, tangential direction

A viewgram is a list of rows (one per axial position) over the tangential positions `lo … lo+n-1`; every row is zoomed by the same
1-D `overlap_interpolate`, so the one-axis theorems `C15_zoom_axis_*` are statements about each row. -/

/-- offset in units of the input's tangential sampling (zoom.cxx:201-204):
    `(x_offset_in_mm*cos(phi) + y_offset_in_mm*sin(phi)) / in_bin_size`, `c = cos phi`, `s = sin phi` of the view
    (the result is stored in a `float`; the roundings of the intermediate operations are bounded by the driver, not modelled) -/
def zoomViewgramOffset (xoff yoff c s inBin : Rat) : Rat := fl32 ((xoff * c + yoff * s) / inBin)

/-- `zoom_viewgram(Viewgram& out_view, const Viewgram& in_view, x_offset_in_mm, y_offset_in_mm)` (zoom.cxx:169-210).
    `out_view` has the tangential positions `outLo … outLo+outN-1` and tangential sampling `outBin`; `rows` are the rows of `in_view`
    (first tangential position `inLo`, sampling `inBin`).  The documented contract is "zoom in_viewgram, replacing out_viewgram with
    the new data".  In the identity case (same range, zoom 1, no offsets) the source at the pinned revision `return`s *without*
    copying `in_view` into `out_view` (zoom.cxx:196-199; `zoom_image` does `image_out = image_in` in the same place): the model states
    the documented behaviour (the copy), which is what `overlap_interpolate` itself does for the identity request; the harness oracle
    reports the difference on the implementation (repair: docs/fixes/C15-1.diff). -/
def zoomViewgram (outLo : Int) (outN : Nat) (inLo : Int) (rows : List (List Rat)) (inBin outBin xoff yoff c s : Rat) :
    List (List Rat) :=
  let zoom := fl32 (inBin / outBin)
  if outLo == inLo ∧ rows.all (fun r => r.length == outN) ∧ zoom == 1 ∧ xoff == 0 ∧ yoff == 0 then rows
  else rows.map (ovl outLo outN inLo zoom (zoomViewgramOffset xoff yoff c s inBin))

/-- `zoom_viewgram(Viewgram& in_view, zoom, min_tang_pos_num, max_tang_pos_num, x_offset_in_mm, y_offset_in_mm)` (zoom.cxx:137-167)
    and, viewgram by viewgram (each with the `phi` of its own view), `zoom_viewgrams(RelatedViewgrams&, …)` (zoom.cxx:97-135):
    new first tangential position, new tangential sampling `in_bin/zoom` (a float division) and the new rows. -/
def zoomViewgramInPlace (zoom : Rat) (minT maxT inLo : Int) (rows : List (List Rat)) (inBin xoff yoff c s : Rat) :
    Int × Rat × List (List Rat) :=
  if minT == inLo ∧ rows.all (fun r => maxT == inLo + r.length - 1) ∧ zoom == 1 ∧ xoff == 0 ∧ yoff == 0 then (inLo, inBin, rows)
  else
    let outBin := fl32 (inBin / zoom)
    (minT, outBin, zoomViewgram minT (maxT - minT + 1).toNat inLo rows inBin outBin xoff yoff c s)

/-! ## `find_centre_of_gravity_in_mm` (centre_of_gravity.cxx:32-128) -/

def volSum (v : Vol) : Rat := v.foldl (fun a pl => pl.foldl (fun a row => row.foldl (· + ·) a) a) 0

/-- Σ index·value along the three axes -/
def volMoments (g : Grid) (v : Vol) : Rat × Rat × Rat :=
  let idx {α : Type} (lo : Int) (l : List α) : List (Int × α) := (List.range l.length).map (fun (k : Nat) => lo + (k : Int)) |>.zip l
  (idx g.zmin v).foldl (fun acc (z, pl) =>
    (idx g.ymin pl).foldl (fun acc (y, row) =>
      (idx g.xmin row).foldl (fun (mz, my, mx) (x, val) => (mz + z * val, my + y * val, mx + x * val)) acc) acc) (0, 0, 0)

/-- centre of gravity in mm (z, y, x); `none` when the data sum to 0 (`error`) -/
def cogMm (im : Img) : Option (Rat × Rat × Rat) :=
  let s := volSum im.d
  if s == 0 then none
  else
    let (mz, my, mx) := volMoments im.g im.d
    some (im.g.vz * (mz / s) + im.g.oz, im.g.vy * (my / s) + im.g.oy, im.g.vx * (mx / s) + im.g.ox)

/-! ## `inverse_SSRB` (inverse_SSRB.cxx:33-131) -/

/-- the input (direct, segment 0) sinograms and weights that make up the output sinogram with axial coordinate `outM`;
    `ms` = the `m` of the input axial positions in order (any common unit).  `none`: no position selected (`error`),
    or the source reads a sinogram outside the input range (single input position not matching). -/
def inverseSsrbWeights (ms : List Rat) (outM : Rat) (tol : Rat) : Option (List (Nat × Rat)) :=
  let n := ms.length
  let dist (k : Nat) : Rat := absQ (outM - ms.getD k 0)
  let rec go : Nat → Nat → Option (List (Nat × Rat))
    | 0, _ => none
    | fuel + 1, a =>
      if a ≥ n then none
      else
        let cur := dist a
        let prevOk := a == 0 || cur ≤ dist (a - 1)          -- first slice: distance_to_previous = FLT_MAX
        let nextOk := a + 1 == n || cur ≤ dist (a + 1)      -- last slice: distance_to_next = FLT_MAX
        if prevOk && nextOk then
          if cur ≤ tol then some [(a, 1)]
          else if a != 0 && (a + 1 == n || dist (a - 1) < dist (a + 1)) then
            let p := dist (a - 1)
            some [(a - 1, cur / (p + cur)), (a, p / (p + cur))]
          else if a + 1 == n then none     -- reads sinogram `a+1` which does not exist
          else
            let nx := dist (a + 1)
            some [(a + 1, cur / (nx + cur)), (a, nx / (nx + cur))]
        else go fuel (a + 1)
  go n 0

/-- the compatibility guards of `inverse_SSRB` (inverse_SSRB.cxx:40-51): `false` = `Succeeded::no`.  The source at the pinned revision
    compares `get_min_view_num()` (and `get_min_tangential_pos_num()`) twice, so that the maxima are never looked at: data with another
    number of views / tangential positions but the same first index are accepted and views of other azimuthal angles are added together.
    The model states the intended guard (first and last view, first and last tangential position agree; repair: docs/fixes/C15-2.diff). -/
def inverseSsrbCompatible (minV3 maxV3 minT3 maxT3 minV4 maxV4 minT4 maxT4 : Int) : Bool :=
  minV3 == minV4 && maxV3 == maxV4 && minT3 == minT4 && maxT3 == maxT4

/-- one output sinogram of `inverse_SSRB` bin by bin: `sinos[a]` = the bins (any fixed order) of the direct sinogram at axial position `a`
    of the same TOF position; copy (`sino_4D += sino_3D_1` into zeros) or `sapyb` of the two selected sinograms -/
def inverseSsrbSino (ms : List Rat) (outM tol : Rat) (sinos : List (List Rat)) : Option (List Rat) :=
  match inverseSsrbWeights ms outM tol with
  | none => none
  | some ws =>
    match ws with
    | [(a, _)] => some (sinos.getD a [])
    | [(a, wa), (b, wb)] => some (List.zipWith (fun x y => wa * x + wb * y) (sinos.getD a []) (sinos.getD b []))
    | _ => none

/-! ## `extend_segment` (extend_projdata.cxx:36-150) -/

/-- a 3-D array `[axial][view][tang]` with its first indices -/
structure Arr3 where
  a0 : Int
  v0 : Int
  t0 : Int
  d : Array (Array (Array Rat))
  deriving Repr, Inhabited

def Arr3.get (x : Arr3) (a v t : Int) : Rat := ((x.d.getD (a - x.a0).toNat #[]).getD (v - x.v0).toNat #[]).getD (t - x.t0).toNat 0
def Arr3.set (x : Arr3) (a v t : Int) (q : Rat) : Arr3 :=
  let i := (a - x.a0).toNat
  let j := (v - x.v0).toNat
  let k := (t - x.t0).toNat
  { x with d := x.d.modify i (fun pl => pl.modify j (fun row => row.set! k q)) }

/-- view handling: 0 = wrap around (360°), 1 = wrap with tangential flip (180°, segment 0), 2 = nearest neighbour.
    `numViews` views with azimuthal sampling `k·π/numViews`, `k = kn/kd > 0` (`k = 1`: the 180° of PET data, `k = 2`: 360° as for SPECT),
    i.e. `phi_range = (numViews-1)·k·π/numViews`; the source compares `|phi_range − 2π|` and `|phi_range − π|` with 5 samplings
    (extend_projdata.cxx:73-86); both sides multiplied by `numViews·kd/π` here.  (Equality is decided by float rounding in the source: not generated.) -/
def extendModeK (numViews segNum kn kd : Int) : Nat :=
  if numViews < 2 then 2          -- 0/0 sampling: every comparison is false
  else if ((numViews - 1) * kn - 2 * numViews * kd).natAbs < (5 * kn).natAbs then 0
  else if ((numViews - 1) * kn - numViews * kd).natAbs < (5 * kn).natAbs ∧ segNum == 0 then 1
  else 2

/-- the PET case `k = 1`: `|range − 2π| < 5·sampling ⇔ numViews + 1 < 5` -/
def extendMode (numViews segNum : Int) : Nat := extendModeK numViews segNum 1 1

def extendSegment (seg : Arr3) (na nv nt : Nat) (ve ae te : Int) (mode : Nat) : Arr3 :=
  let min1 := seg.a0 - ae
  let min2 := seg.v0 - ve
  let min3 := seg.t0 - te
  let max1 := seg.a0 + na - 1 + ae
  let max2 := seg.v0 + nv - 1 + ve
  let max3 := seg.t0 + nt - 1 + te
  let axs := irange min1 max1
  let vs := irange min2 max2
  let ts := irange min3 max3
  -- out.grow(...): old values kept, new entries 0
  let d0 := (axs.map fun a => (vs.map fun v => (ts.map fun t =>
      if seg.a0 ≤ a ∧ a < seg.a0 + na ∧ seg.v0 ≤ v ∧ v < seg.v0 + nv ∧ seg.t0 ≤ t ∧ t < seg.t0 + nt then seg.get a v t else 0).toArray).toArray).toArray
  let out : Arr3 := { a0 := min1, v0 := min2, t0 := min3, d := d0 }
  let copyVT (o : Arr3) (dst src : Int) : Arr3 := vs.foldl (fun o v => ts.foldl (fun o t => o.set dst v t (o.get src v t)) o) o
  let out := (irange 0 (ae - 1)).foldl (fun o e => copyVT (copyVT o (min1 + e) (min1 + ae)) (max1 - e) (max1 - ae)) out
  let copyT (o : Arr3) (a dst src : Int) (flip : Bool) (tsel : List Int) : Arr3 :=
    tsel.foldl (fun o t => o.set a dst t (o.get a src (if flip then -t else t))) o
  let out := (irange 0 (ve - 1)).foldl (fun o e => axs.foldl (fun o a =>
      match mode with
      | 2 =>
        let o := copyT o a (min2 + e) (min2 + ve) false ts
        copyT o a (max2 - e) (max2 - ve) false ts
      | 1 =>
        -- `sym_dim` and the two "asymmetric" loops over the tangential range of the INPUT (`seg.t0 … seg.t0+nt-1`): the documented
        -- behaviour ("fill in asymmetric tangential positions at the end by just picking the nearest existing element").  The source at
        -- the pinned revision takes the EXTENDED range (`min_dim[3]`, `max_dim[3]`) here, whose added positions are still empty (they are
        -- filled by the last loop): the same result for a symmetric tangential range or without tangential extension, zeros in the added
        -- views for data with an even number of tangential positions (`-n/2 … n/2-1`) and `tangential_extension > 0`; the harness reports
        -- that class on the implementation (repair: docs/fixes/C15-5.diff) and compares the other cases with this model.
        let tmin := seg.t0
        let tmax := seg.t0 + nt - 1
        let sym := min (if tmin < 0 then -tmin else tmin) tmax
        let min3 := tmin
        let max3 := tmax
        let o := (irange (-sym) sym).foldl (fun o t =>
          let o := o.set a (min2 + e) t (o.get a (max2 - 2 * ve + e + 1) (-t))
          o.set a (max2 - ve + 1 + e) t (o.get a (min2 + ve + e) (-t))) o
        let o := (irange min3 (-sym - 1)).foldl (fun o t =>
          let o := o.set a (min2 + e) t (o.get a (max2 - 2 * ve + e + 1) sym)
          o.set a (max2 - ve + 1 + e) t (o.get a (min2 + ve + e) sym)) o
        (irange (sym + 1) max3).reverse.foldl (fun o t =>
          let o := o.set a (min2 + e) t (o.get a (max2 - 2 * ve + e + 1) (-sym))
          o.set a (max2 - ve + 1 + e) t (o.get a (min2 + ve + e) (-sym))) o
      | _ =>
        let o := copyT o a (min2 + e) (max2 - 2 * ve + e + 1) false ts
        copyT o a (max2 - ve + 1 + e) (min2 + ve + e) false ts) o) out
  (irange 0 (te - 1)).foldl (fun o e => axs.foldl (fun o a => vs.foldl (fun o v =>
      let o := o.set a v (min3 + e) (o.get a v (min3 + te))
      o.set a v (max3 - e) (o.get a v (max3 - te))) o) o) out

end StirVerif.C15
