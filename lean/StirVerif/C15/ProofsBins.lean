/-
C15 — proofs, part 6: `SSRB` commutes with detector-pair binning (full bins: segment, axial position, view, tangential position, TOF).
-/
import StirVerif.C15.ProofsData
import StirVerif.C15.ProofsTof

namespace StirVerif.C15
open StirVerif.C01

theorem roundDiv_neg (t m : Int) (hm : 0 < m) : roundDiv (-t) m = -roundDiv t m := by
  unfold roundDiv
  rcases Int.lt_trichotomy t 0 with h | h | h
  · rw [if_pos (by omega), if_neg (by omega)]; simp
  · subst h
    simp only [Int.neg_zero, Int.mul_zero, Int.zero_add, ge_iff_le, Int.le_refl, if_true]
    rw [Int.tdiv_eq_ediv_of_nonneg (by omega)]
    have : m / (2 * m) = 0 := Int.ediv_eq_zero_of_lt (by omega) (by omega)
    omega
  · rw [if_neg (by omega), if_pos (by omega)]; simp

/-- TOF bins of a detector pair in the input and output geometries are accepted by the window test of `SSRB`
    (both for the pair as given and with the detectors exchanged, where the TOF index is negated) -/
theorem tof_window_of_pair (t m k : Int) (hm : 0 < m) (hmo : m % 2 = 1) (hk : 0 < k) (hko : k % 2 = 1) :
    tofInWindow m (m * k) (roundDiv t m) (roundDiv t (m * k)) = true ∧
    tofInWindow m (m * k) (-roundDiv t m) (-roundDiv t (m * k)) = true := by
  constructor
  · exact (tof_commutes t m k _ hm hmo hk hko).mpr rfl
  · rw [← roundDiv_neg t m hm, ← roundDiv_neg t (m * k) (Int.mul_pos hm hk)]
    exact (tof_commutes (-t) m k _ hm hmo hk hko).mpr rfl

/-- `get_bin_for_det_pos_pair` spelled out -/
theorem binForDetPair_spec (g : Geom) (dp : DetPair) (b : Bin) (h : g.binForDetPair dp = some b) :
    b.view = (detToViewTang g.N dp.d1 dp.d2).1.tdiv g.viewMash ∧ b.tang = (detToViewTang g.N dp.d1 dp.d2).2.1 ∧
    (((detToViewTang g.N dp.d1 dp.d2).2.2 = true ∧ g.segAxOfRingPair dp.r1 dp.r2 = some (b.seg, b.ax) ∧
        b.tof = (if g.tofMash == 0 then 0 else roundDiv dp.t g.tofMash)) ∨
     ((detToViewTang g.N dp.d1 dp.d2).2.2 = false ∧ g.segAxOfRingPair dp.r2 dp.r1 = some (b.seg, b.ax) ∧
        b.tof = -(if g.tofMash == 0 then 0 else roundDiv dp.t g.tofMash))) := by
  unfold Geom.binForDetPair at h
  generalize detToViewTang g.N dp.d1 dp.d2 = vt at *
  obtain ⟨v, tp, keep⟩ := vt
  simp only at h ⊢
  cases keep with
  | true =>
    simp only [if_true, Option.map_eq_some_iff] at h
    obtain ⟨⟨s, a⟩, hs, rfl⟩ := h
    exact ⟨rfl, rfl, Or.inl ⟨rfl, hs, rfl⟩⟩
  | false =>
    simp only [Bool.false_eq_true, if_false, Option.map_eq_some_iff] at h
    obtain ⟨⟨s, a⟩, hs, rfl⟩ := h
    exact ⟨rfl, rfl, Or.inr ⟨rfl, hs, rfl⟩⟩

/-- the TOF mashing factor of the geometry returned by `SSRB(ProjDataInfo…)` -/
theorem ssrbInfo_tofMash (p o : PDI) (kSeg kView trim maxSegArg kTof : Int) (h : ssrbInfo p kSeg kView trim maxSegArg kTof = some o) :
    (p.tofMash = 0 → o.tofMash = 0) ∧ (0 < p.tofMash → 0 < p.T → o.tofMash = p.tofMash * kTof ∧ 0 < kTof) := by
  unfold ssrbInfo at h
  split at h
  · exact absurd h (by simp)
  · split at h
    · rename_i segs tofMash minTof maxTof _ htof
      simp only [Option.some.injEq] at h
      subst h
      simp only
      unfold ssrbTof at htof
      by_cases h1 : kTof = 1
      · subst h1
        simp only [bne_self_eq_false, Bool.false_eq_true, if_false, Option.some.injEq, Prod.mk.injEq] at htof
        obtain ⟨rfl, _, _⟩ := htof
        exact ⟨fun h => h, fun _ _ => ⟨by omega, by omega⟩⟩
      · have hb : (kTof != 1) = true := by simp [h1]
        simp only [hb, if_true] at htof
        split at htof
        · exact absurd htof (by simp)
        · rename_i hk
          unfold setTofMash at htof
          constructor
          · intro hz
            rw [hz] at htof
            simp only [Int.zero_mul, Int.lt_irrefl, and_false, if_false, Option.some.injEq, Prod.mk.injEq] at htof
            exact htof.1.symm
          · intro hm hT
            have hpos : 0 < p.tofMash * kTof := Int.mul_pos hm (by omega)
            simp only [hT, hpos, and_self, if_true] at htof
            split at htof
            · exact absurd htof (by simp)
            · split at htof
              · exact absurd htof (by simp)
              · simp only [Option.some.injEq, Prod.mk.injEq] at htof
                exact ⟨htof.1.symm, by omega⟩
    · exact absurd h (by simp)

/-- **`ssrb_commutes_with_binning`.**  `pout = SSRB(pin, kSeg, kView, trim, maxSeg, kTof)` with `kSeg` odd; the input geometry is
    well formed (`PDI.WF`, decidable as `PDI.wfb`), its views are `N/2 = V·mIn`, `kView ∣ V`; TOF: either non-TOF input or a TOF scanner, odd mashing
    `m` and odd `kTof`.  For every detector-position pair `dp` (azimuthal index `v ≥ 0`, which C01 proves for
    valid detectors) that the input geometry bins into `bi` (inside the input's axial range) and the output geometry into `bo`:
    the loops of `SSRB(out, in)` add input sinogram `(bi.seg, bi.ax, bi.tof)` into output sinogram `(bo.seg, bo.ax, bo.tof)`, at view
    `bi.view / kView = bo.view` and the same tangential position — so the count of `dp` lands in the bin the output geometry assigns to `dp`. -/
theorem ssrb_commutes_with_binning (pin pout : PDI) (kSeg kView trim maxSegArg kTof : Int)
    (hinfo : ssrbInfo pin kSeg kView trim maxSegArg kTof = some pout) (hk : 0 < kSeg) (wf : pin.WF)
    (mIn W : Int) (hmash : pin.N.tdiv 2 = pin.numViews * mIn) (hmIn : 0 < mIn) (hV : pin.numViews = W * kView) (hW : 0 < W)
    (hkV : 0 < kView)
    (htof0 : pin.tofMash = 0 ∨ (0 < pin.tofMash ∧ pin.tofMash % 2 = 1 ∧ kTof % 2 = 1 ∧ 0 < pin.T))
    (dp : DetPair) (hv : 0 ≤ (detToViewTang pin.N dp.d1 dp.d2).1) (bi bo : Bin)
    (hbi : pin.toGeom.binForDetPair dp = some bi) (hbir : ∀ sg, pin.seg? bi.seg = some sg → 0 ≤ bi.ax ∧ bi.ax < sg.numAx)
    (hbo : pout.toGeom.binForDetPair dp = some bo) :
    pullsSino pin pout bo.seg bo.ax bo.tof bi.seg bi.ax bi.tof = true ∧ bo.view = bi.view.tdiv kView ∧ bo.tang = bi.tang := by
  obtain ⟨_, hN, hviews, _⟩ := ssrbInfo_seg pin pout kSeg kView trim maxSegArg kTof hinfo
  have htof : (pin.tofMash = 0 ∧ pout.tofMash = 0) ∨
      (0 < pin.tofMash ∧ pin.tofMash % 2 = 1 ∧ 0 < kTof ∧ kTof % 2 = 1 ∧ pout.tofMash = pin.tofMash * kTof) := by
    obtain ⟨t0, t1⟩ := ssrbInfo_tofMash pin pout kSeg kView trim maxSegArg kTof hinfo
    rcases htof0 with h | ⟨h1, h2, h3, h4⟩
    · exact Or.inl ⟨h, t0 h⟩
    · obtain ⟨e, hk'⟩ := t1 h1 h4
      exact Or.inr ⟨h1, h2, hk', h3, e⟩
  have hk2 : 0 ≤ kSeg.tdiv 2 := by rw [Int.tdiv_eq_ediv_of_nonneg (by omega)]; omega
  -- view mashing factors
  have hVpos : 0 < pin.numViews := by rw [hV]; exact Int.mul_pos hW hkV
  have hmi : (pin.N.tdiv 2).tdiv pin.numViews = mIn := by
    rw [hmash, Int.mul_comm, Int.mul_tdiv_cancel _ (by omega)]
  have hVo : pout.numViews = W := by
    rw [hviews, hV, Int.mul_tdiv_cancel _ (by omega)]
  have hmo : (pout.N.tdiv 2).tdiv pout.numViews = mIn * kView := by
    rw [hN, hVo, hmash, hV]
    have : W * kView * mIn = (kView * mIn) * W := by
      rw [Int.mul_comm W kView, Int.mul_assoc, Int.mul_comm W mIn, ← Int.mul_assoc]
    rw [this, Int.mul_tdiv_cancel _ (by omega), Int.mul_comm]
  obtain ⟨hvi, hti, hci⟩ := binForDetPair_spec _ dp bi hbi
  obtain ⟨hvo, hto, hco⟩ := binForDetPair_spec _ dp bo hbo
  have eN : pout.toGeom.N = pin.toGeom.N := hN
  have eNi : pin.toGeom.N = pin.N := rfl
  have evi : pin.toGeom.viewMash = mIn := hmi
  have evo : pout.toGeom.viewMash = mIn * kView := hmo
  have eti : pin.toGeom.tofMash = pin.tofMash := rfl
  have eto : pout.toGeom.tofMash = pout.tofMash := rfl
  rw [eN] at hvo hto hco
  rw [eNi] at hvi hti hci hvo hto hco
  rw [evi] at hvi
  rw [evo] at hvo
  rw [eti] at hci
  rw [eto] at hco
  have hview : bo.view = bi.view.tdiv kView := by
    rw [hvi, hvo]; exact (view_commutes _ mIn kView hv hmIn hkV).symm
  refine ⟨?_, hview, by rw [hti, hto]⟩
  -- the TOF indices
  have htofw :
      tofInWindow pin.tofMash pout.tofMash (if (pin.tofMash == 0) = true then 0 else roundDiv dp.t pin.tofMash)
        (if (pout.tofMash == 0) = true then 0 else roundDiv dp.t pout.tofMash) = true ∧
      tofInWindow pin.tofMash pout.tofMash (-(if (pin.tofMash == 0) = true then 0 else roundDiv dp.t pin.tofMash))
        (-(if (pout.tofMash == 0) = true then 0 else roundDiv dp.t pout.tofMash)) = true := by
    rcases htof with ⟨h1, h2⟩ | ⟨h1, h2, h3, h4, h5⟩
    · rw [h1, h2]
      unfold tofInWindow
      simp
    · have hne : (pin.tofMash == 0) = false := by simp; omega
      have hpos : 0 < pin.tofMash * kTof := Int.mul_pos h1 h3
      have hne' : (pout.tofMash == 0) = false := by rw [h5]; simp; omega
      rw [hne, hne', h5]
      simpa using tof_window_of_pair dp.t pin.tofMash kTof h1 h2 h3 h4
  rcases hci with ⟨k1, hin, ht1⟩ | ⟨k1, hin, ht1⟩ <;> rcases hco with ⟨k2, hout, ht2⟩ | ⟨k2, hout, ht2⟩
  · rw [ssrb_pullsSino_eq_tof pin pout kSeg kView trim maxSegArg kTof hinfo hk2 wf dp.r1 dp.r2 _ _ _ _ _ _ hin hbir hout, ht1, ht2]
    exact htofw.1
  · rw [k1] at k2; exact absurd k2 (by simp)
  · rw [k1] at k2; exact absurd k2 (by simp)
  · rw [ssrb_pullsSino_eq_tof pin pout kSeg kView trim maxSegArg kTof hinfo hk2 wf dp.r2 dp.r1 _ _ _ _ _ _ hin hbir hout, ht1, ht2]
    exact htofw.2

/-! ### in terms of `targets` (the bins actually written by the loops) -/

theorem mem_outSinos (pout : PDI) (os oa ot : Int) :
    (os, oa, ot) ∈ outSinos pout ↔ ∃ og, pout.seg? os = some og ∧ 0 ≤ oa ∧ oa < og.numAx ∧ pout.minTof ≤ ot ∧ ot ≤ pout.maxTof := by
  unfold outSinos
  simp only [List.mem_flatMap, List.mem_map, mem_irange, Prod.mk.injEq, Prod.exists]
  constructor
  · rintro ⟨s, og, hz, t, ht, a, ha, rfl, rfl, rfl⟩
    exact ⟨og, (mem_zip_segs pout s og).mp hz, ha.1, by omega, ht.1, ht.2⟩
  · rintro ⟨og, hog, h1, h2, h3, h4⟩
    exact ⟨os, og, (mem_zip_segs pout os og).mpr hog, ot, ⟨h3, h4⟩, oa, ⟨h1, by omega⟩, rfl, rfl, rfl⟩

theorem mem_targets (pin pout : PDI) (b x : Bin) :
    x ∈ targets pin pout b ↔
      (max pin.minTang pout.minTang ≤ b.tang ∧ b.tang ≤ min pin.maxTang pout.maxTang) ∧
      (x.seg, x.ax, x.tof) ∈ outSinos pout ∧ pullsSino pin pout x.seg x.ax x.tof b.seg b.ax b.tof = true ∧
      x.view = b.view.tdiv (pin.numViews.tdiv pout.numViews) ∧ x.tang = b.tang := by
  unfold targets
  simp only
  split
  · rename_i hout
    constructor
    · intro h; exact absurd h (by simp)
    · rintro ⟨⟨h1, h2⟩, _⟩
      omega
  · rename_i hin
    simp only [List.mem_filterMap, Prod.exists]
    constructor
    · rintro ⟨os, oa, ot, hmem, hx⟩
      split at hx
      · rename_i hp
        simp only [Option.some.injEq] at hx
        subst hx
        exact ⟨by omega, hmem, hp, rfl, rfl⟩
      · exact absurd hx (by simp)
    · rintro ⟨_, hmem, hp, hv, ht⟩
      refine ⟨x.seg, x.ax, x.tof, hmem, ?_⟩
      rw [if_pos hp]
      cases x
      simp only at hv ht
      simp only [Option.some.injEq, Bin.mk.injEq, true_and, and_true]
      exact ⟨hv.symm, ht.symm⟩

/-- **histogram-then-SSRB = histogram with the output geometry, bin by bin.**  Under the hypotheses of
    `ssrb_commutes_with_binning` (TOF output for the uniqueness part): every bin that `SSRB(out, in)` adds the input bin `bi` of a
    detector pair to is the output geometry's bin `bo` of that pair; and `bo` *is* written exactly when it lies inside the output's
    tangential and TOF ranges (the account of what trimming removes). -/
theorem ssrb_targets_exact (pin pout : PDI) (kSeg kView trim maxSegArg kTof : Int)
    (hinfo : ssrbInfo pin kSeg kView trim maxSegArg kTof = some pout) (hk : 0 < kSeg) (hodd : kSeg % 2 = 1) (wf : pin.WF)
    (mIn W : Int) (hmash : pin.N.tdiv 2 = pin.numViews * mIn) (hmIn : 0 < mIn) (hV : pin.numViews = W * kView) (hW : 0 < W)
    (hkV : 0 < kView)
    (htof0 : pin.tofMash = 0 ∨ (0 < pin.tofMash ∧ pin.tofMash % 2 = 1 ∧ kTof % 2 = 1 ∧ 0 < pin.T))
    (dp : DetPair) (hv : 0 ≤ (detToViewTang pin.N dp.d1 dp.d2).1) (bi bo : Bin)
    (hbi : pin.toGeom.binForDetPair dp = some bi) (hbir : ∀ sg, pin.seg? bi.seg = some sg → 0 ≤ bi.ax ∧ bi.ax < sg.numAx)
    (hbit : pin.minTang ≤ bi.tang ∧ bi.tang ≤ pin.maxTang)
    (hbo : pout.toGeom.binForDetPair dp = some bo) :
    (bo ∈ targets pin pout bi ↔ (pout.minTang ≤ bo.tang ∧ bo.tang ≤ pout.maxTang ∧ pout.minTof ≤ bo.tof ∧ bo.tof ≤ pout.maxTof)) ∧
    ((0 < pout.tofMash ∨ (pout.minTof = 0 ∧ pout.maxTof = 0)) → ∀ x ∈ targets pin pout bi, x = bo) := by
  obtain ⟨hp, hview, htang⟩ := ssrb_commutes_with_binning pin pout kSeg kView trim maxSegArg kTof hinfo hk wf mIn W hmash hmIn hV hW hkV
    htof0 dp hv bi bo hbi hbir hbo
  obtain ⟨_, _, hviews, _⟩ := ssrbInfo_seg pin pout kSeg kView trim maxSegArg kTof hinfo
  have hk2 : 0 ≤ kSeg.tdiv 2 := by rw [Int.tdiv_eq_ediv_of_nonneg (by omega)]; omega
  have hkv : pin.numViews.tdiv pout.numViews = kView := by
    rw [hviews, hV, Int.mul_tdiv_cancel _ (by omega), Int.mul_comm, Int.mul_tdiv_cancel _ (by omega)]
  -- the output sinogram exists and the axial position is in range
  obtain ⟨_, hN', _, _⟩ := ssrbInfo_seg pin pout kSeg kView trim maxSegArg kTof hinfo
  obtain ⟨_, _, hci⟩ := binForDetPair_spec _ dp bi hbi
  obtain ⟨_, _, hco⟩ := binForDetPair_spec _ dp bo hbo
  have eN : pout.toGeom.N = pin.toGeom.N := hN'
  rw [eN] at hco
  have hax : ∃ og, pout.seg? bo.seg = some og ∧ 0 ≤ bo.ax ∧ bo.ax < og.numAx := by
    rcases hci with ⟨k1, hin, _⟩ | ⟨k1, hin, _⟩ <;> rcases hco with ⟨k2, hout, _⟩ | ⟨k2, hout, _⟩
    · obtain ⟨og, _, _, _, h1, _, _, _, _, h6, h7, _⟩ :=
        ssrb_pulls_axial pin pout kSeg kView trim maxSegArg kTof hinfo hk2 wf _ _ _ _ _ _ hin hbir hout
      exact ⟨og, h1, h6, h7⟩
    · rw [k1] at k2; exact absurd k2 (by simp)
    · rw [k1] at k2; exact absurd k2 (by simp)
    · obtain ⟨og, _, _, _, h1, _, _, _, _, h6, h7, _⟩ :=
        ssrb_pulls_axial pin pout kSeg kView trim maxSegArg kTof hinfo hk2 wf _ _ _ _ _ _ hin hbir hout
      exact ⟨og, h1, h6, h7⟩
  constructor
  · rw [mem_targets, mem_outSinos, hkv]
    constructor
    · rintro ⟨⟨h1, h2⟩, ⟨og, _, _, _, h5, h6⟩, _⟩
      rw [htang]
      exact ⟨by omega, by omega, h5, h6⟩
    · rintro ⟨h1, h2, h3, h4⟩
      obtain ⟨og, hog, ha1, ha2⟩ := hax
      rw [htang] at h1 h2
      exact ⟨⟨by omega, by omega⟩, ⟨og, hog, ha1, ha2, h3, h4⟩, hp, hview, htang⟩
  · intro hTof x hx
    rw [mem_targets, hkv] at hx
    obtain ⟨_, hxm, hpx, hvx, htx⟩ := hx
    rw [mem_outSinos] at hxm
    obtain ⟨_, _, _, _, hx5, hx6⟩ := hxm
    have hpo : pout.tofMash = 0 ∨ 0 < pout.tofMash := by
      obtain ⟨t0, t1⟩ := ssrbInfo_tofMash pin pout kSeg kView trim maxSegArg kTof hinfo
      rcases htof0 with h | ⟨h1', _, _, h4'⟩
      · exact Or.inl (t0 h)
      · right
        rw [(t1 h1' h4').1]
        exact Int.mul_pos h1' (t1 h1' h4').2
    have hTof' : 0 < pout.tofMash ∨ (pout.minTof = pout.maxTof ∧ pout.minTof ≤ x.tof ∧ x.tof ≤ pout.maxTof ∧ pout.minTof ≤ bo.tof ∧ bo.tof ≤ pout.maxTof) := by
      rcases hTof with h | ⟨h1, h2⟩
      · exact Or.inl h
      · rcases hpo with hz | hpos
        · right
          have eto : pout.toGeom.tofMash = 0 := hz
          have hbt : bo.tof = 0 := by
            rcases hco with ⟨_, _, ht⟩ | ⟨_, _, ht⟩ <;> rw [ht, eto] <;> simp
          omega
        · exact Or.inl hpos
    obtain ⟨e1, e2, e3⟩ := pullsSino_unique pin pout kSeg kView trim maxSegArg kTof hinfo hk hodd wf _ _ _ _ _ _ _ _ _ hTof' hpx hp
    cases x; cases bo
    simp only at e1 e2 e3 hvx htx hview htang
    simp only [Bin.mk.injEq]
    exact ⟨e1, by rw [hvx, hview], e2, by rw [htx, htang], e3⟩

end StirVerif.C15
