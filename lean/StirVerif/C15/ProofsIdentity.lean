/-
C15 — proofs, part 10: DEGENERATE requests.  Identity-like settings are the identity (`SSRB` with nothing to combine and nothing to trim,
one argument at a time and all together, geometry and data; `zoom_image` with zoom 1, no offsets, the same grid), the plain-copy
shortcut of the transaxial `zoom_image` is taken for the identity request only, and a PURE SHIFT (zoom exactly 1, an offset of a whole
number of boxes) copies every value to the box at the same position.
-/
import StirVerif.C15.ProofsTotal
import StirVerif.C15.ProofsViewgram
import Mathlib.Tactic.Ring
import Mathlib.Tactic.Linarith

set_option linter.unusedSimpArgs false

namespace StirVerif.C15
open StirVerif.C01

/-! ## `SSRB` with identity-like settings -/

theorem collect_single (f : Int → Option Seg) (i : Int) : collect f (irange i i) = (f i).map fun s => [s] := by
  have : irange i i = [i] := by
    unfold irange
    simp
  rw [this]
  unfold collect
  cases f i <;> simp [collect]

theorem m4_span (s : Seg) : (s.m4 (s.numAx - 1) - s.m4 0) * s.inc = 4 * (s.numAx - 1) := by
  rw [m4_def, m4_def]
  rcases inc_eq s with ⟨h, hi⟩ | ⟨h, hi⟩
  · rcases mfac_eq s with ⟨_, hf⟩ | ⟨h', _⟩
    · rw [hi, hf]; ring
    · exact absurd h' h
  · rcases mfac_eq s with ⟨h', _⟩ | ⟨_, hf⟩
    · exact absurd h h'
    · rw [hi, hf]; ring

theorem ssrbOutSeg_one (p : PDI) (os : Int) : ssrbOutSeg p 1 os = p.seg? os := by
  unfold ssrbOutSeg
  have h2 : (1 : Int).tdiv 2 = 0 := by decide
  simp only [h2, Int.mul_one, Int.sub_zero, Int.add_zero]
  cases hs : p.seg? os with
  | none => rfl
  | some s =>
    simp only [Option.bind_eq_bind, Option.bind_some, collect_single, hs, Option.map_some, List.foldl_cons, List.foldl_nil]
    have hspan : (max (s.m4 (s.numAx - 1)) (s.m4 (s.numAx - 1)) - min (s.m4 0) (s.m4 0)) * (if (s.maxRD != s.minRD) = true then 2 else 1)
        = 4 * (s.numAx - 1) := by
      rw [Int.max_self, Int.min_self]
      exact m4_span s
    simp only [hspan]
    have h4 : (4 * (s.numAx - 1)).tmod 4 = 0 := Int.mul_tmod_right 4 _
    have h5 : (4 * (s.numAx - 1)).tdiv 4 = s.numAx - 1 := Int.mul_tdiv_cancel_left _ (by decide)
    simp [h4, h5]

theorem collect_range (f : Int → Option Seg) (segs : List Seg) (lo : Int)
    (hf : ∀ k : Nat, k < segs.length → f (lo + (k : Int)) = segs[k]?) :
    collect f ((List.range segs.length).map fun (k : Nat) => lo + (k : Int)) = some segs := by
  induction segs generalizing lo with
  | nil => rfl
  | cons s r ih =>
    rw [List.length_cons, List.range_succ_eq_map, List.map_cons, List.map_map]
    unfold collect
    have h0 := hf 0 (by simp)
    simp only [Int.natCast_zero, Int.add_zero, List.getElem?_cons_zero] at h0
    have hr : collect f (List.map ((fun (k : Nat) => lo + (k : Int)) ∘ Nat.succ) (List.range r.length)) = some r := by
      have := ih (lo + 1) (fun k hk => by
        have := hf (k + 1) (by simpa using hk)
        simp only [List.getElem?_cons_succ] at this
        rw [← this]
        congr 1
        push_cast
        omega)
      rw [← this]
      congr 1
      apply List.map_congr_left
      intro k _
      simp only [Function.comp, Nat.succ_eq_add_one]
      push_cast
      omega
    simp only [Nat.cast_zero, Int.add_zero] at *
    rw [h0, hr]

theorem collect_seg_all (p : PDI) : collect p.seg? (irange p.minSeg p.maxSeg) = some p.segs := by
  unfold irange
  have hn : (p.maxSeg - p.minSeg + 1).toNat = p.segs.length := by
    unfold PDI.maxSeg
    omega
  rw [hn]
  apply collect_range
  intro k hk
  unfold PDI.seg?
  have : ¬ (p.minSeg + (k : Int) < p.minSeg) := by omega
  simp only [this, if_false]
  congr 1
  omega

theorem ssrbInfo_identity_settings (p o : PDI) (kSeg kView trim maxSegArg kTof : Int)
    (h : ssrbInfo p kSeg kView trim maxSegArg kTof = some o) :
    (o.N = p.N ∧ o.R = p.R ∧ o.T = p.T) ∧
    (kSeg = 1 → ∀ os og, o.seg? os = some og → p.seg? os = some og) ∧
    (kSeg = 1 → maxSegArg = -1 → p.minSeg = -p.maxSeg → o.minSeg = p.minSeg ∧ o.segs = p.segs) ∧
    (kView = 1 → o.numViews = p.numViews) ∧
    (trim = 0 → p.minTang = -(p.numTang.tdiv 2) → o.minTang = p.minTang ∧ o.maxTang = p.maxTang) ∧
    (kTof = 1 → o.tofMash = p.tofMash ∧ o.minTof = p.minTof ∧ o.maxTof = p.maxTof) := by
  have hseg := ssrbInfo_seg p o kSeg kView trim maxSegArg kTof h
  unfold ssrbInfo at h
  split at h
  · exact absurd h (by simp)
  · split at h
    · rename_i segs tofMash minTof maxTof hsegs htof
      simp only [Option.some.injEq] at h
      subst h
      refine ⟨⟨rfl, rfl, rfl⟩, ?_, ?_, ?_, ?_, ?_⟩
      · intro hk os og hog
        have := hseg.2.2.2 os og hog
        rw [hk, ssrbOutSeg_one] at this
        exact this
      · intro hk hm hsym
        subst hk hm
        have hmax : ssrbOutMax p 1 (-1) = p.maxSeg := by
          unfold ssrbOutMax ssrbMaxIn
          simp
        rw [hmax] at hsegs
        simp only [hmax]
        refine ⟨hsym.symm, ?_⟩
        have e : collect (ssrbOutSeg p 1) (irange (-p.maxSeg) p.maxSeg) = collect p.seg? (irange p.minSeg p.maxSeg) := by
          rw [hsym]
          congr 1
          funext os
          exact ssrbOutSeg_one p os
        rw [e, collect_seg_all] at hsegs
        exact (Option.some.inj hsegs).symm
      · intro hk
        subst hk
        simp
      · intro ht hc
        subst ht
        simp only [Int.sub_zero]
        unfold setNumTang
        simp only
        unfold PDI.numTang at hc ⊢
        constructor <;> omega
      · intro hk
        subst hk
        unfold ssrbTof at htof
        simp at htof
        obtain ⟨h1, h2, h3⟩ := htof
        exact ⟨h1.symm, h2.symm, h3.symm⟩
    · exact absurd h (by simp)


/-- the full identity request gives back the geometry -/
theorem ssrbInfo_identity (p : PDI) (hsym : p.minSeg = -p.maxSeg) (hseg : 0 ≤ p.maxSeg) (hnt : 0 < p.numTang)
    (hc : p.minTang = -(p.numTang.tdiv 2)) : ssrbInfo p 1 1 0 (-1) 1 = some p := by
  have hmax : ssrbOutMax p 1 (-1) = p.maxSeg := by
    unfold ssrbOutMax ssrbMaxIn
    simp
  have hcol : collect (ssrbOutSeg p 1) (irange (-p.maxSeg) p.maxSeg) = some p.segs := by
    rw [← collect_seg_all p, hsym]
    congr 1
    funext os
    exact ssrbOutSeg_one p os
  have htof : ssrbTof p 1 = some (p.tofMash, p.minTof, p.maxTof) := by
    unfold ssrbTof
    simp
  unfold ssrbInfo
  rw [hmax, hcol, htof]
  have h1 : ¬ ((1 : Int).tmod 2 == 0 ∨ p.maxSeg < ssrbMaxIn p (-1) ∨ p.numTang ≤ 0 ∨ p.maxSeg < 0) := by
    unfold ssrbMaxIn
    simp
    omega
  simp only [h1, if_false]
  unfold setNumTang
  have e1 : -(p.numTang - 0).tdiv 2 = p.minTang := by rw [Int.sub_zero]; omega
  have e2 : p.minTang + (p.numTang - 0) - 1 = p.maxTang := by
    rw [Int.sub_zero]
    unfold PDI.numTang
    omega
  simp only [e1, e2, Int.tdiv_one, ← hsym]

/-- `SSRB` with the identity settings gives back the data bin by bin -/
theorem ssrb_identity_targets (p : PDI) (hsym : p.minSeg = -p.maxSeg) (hseg : 0 ≤ p.maxSeg) (hnt : 0 < p.numTang)
    (hc : p.minTang = -(p.numTang.tdiv 2)) (wf : p.WF)
    (mIn : Int) (hmash : p.N.tdiv 2 = p.numViews * mIn) (hmIn : 0 < mIn) (hV : 0 < p.numViews)
    (htof0 : p.tofMash = 0 ∨ (0 < p.tofMash ∧ p.tofMash % 2 = 1 ∧ 0 < p.T))
    (htr : 0 < p.tofMash ∨ (p.minTof = 0 ∧ p.maxTof = 0))
    (dp : DetPair) (hv : 0 ≤ (detToViewTang p.N dp.d1 dp.d2).1) (bi : Bin)
    (hbi : p.toGeom.binForDetPair dp = some bi) (hbir : ∀ sg, p.seg? bi.seg = some sg → 0 ≤ bi.ax ∧ bi.ax < sg.numAx)
    (hbit : p.minTang ≤ bi.tang ∧ bi.tang ≤ p.maxTang) (hbif : p.minTof ≤ bi.tof ∧ bi.tof ≤ p.maxTof) :
    targets p p bi = [bi] := by
  have hid := ssrbInfo_identity p hsym hseg hnt hc
  have hex := ssrb_targets_exact p p 1 1 0 (-1) 1 hid (by decide) (by decide) wf mIn p.numViews hmash hmIn (by simp) hV (by decide)
    (htof0.imp id fun h => ⟨h.1, h.2.1, by decide, h.2.2⟩) dp hv bi bi hbi hbir hbit hbi
  have hmem : bi ∈ targets p p bi := hex.1.mpr ⟨hbit.1, hbit.2, hbif.1, hbif.2⟩
  have hall := hex.2 htr
  have hlen := targets_length_le_one p p 1 1 0 (-1) 1 hid (by decide) (by decide) wf
    (htr.imp id fun h => by rw [h.1, h.2]) bi
  match hl : targets p p bi, hmem, hall, hlen with
  | [], hm, _, _ => simp at hm
  | [x], _, ha, _ => rw [ha x (by simp)]
  | _ :: _ :: _, _, _, hl' => simp at hl'

theorem ssrbPhi_identity (off samp : Rat) (V : Int) (hV : V ≠ 0) : ssrbPhi off samp V 1 = (off, samp) := by
  unfold ssrbPhi
  have hq : ((V : Int) : Rat) ≠ 0 := by exact_mod_cast hV
  simp only [Int.tdiv_one]
  have : ¬ ((1 : Int) > 1) := by decide
  simp only [this, if_false]
  congr 1
  exact mul_div_cancel_right₀ samp hq


/-! ## `zoom_image`: the identity request and the shortcut -/

theorem fl32_zero : fl32 0 = 0 := by decide +kernel

private theorem zoom_one (v : ℚ) (hv : v ≠ 0) : fl32 (v / v) = 1 := by rw [div_self hv]; exact fl32_one
private theorem off_zero (v : ℚ) : fl32 (fl32 0 / v) = 0 := by rw [fl32_zero, zero_div, fl32_zero]

theorem zoomImage3_identity (im : Img) (opt : ZoomOpt) (hx : im.g.vx ≠ 0) (hy : im.g.vy ≠ 0) (hz : im.g.vz ≠ 0) :
    zoomImage3 im.g im opt = im.d := by
  unfold zoomImage3
  simp [zoom_one _ hx, zoom_one _ hy, zoom_one _ hz, off_zero]

theorem zoomImage2_identity (g : Grid) (pl : List (List ℚ)) (opt : ZoomOpt) (hx : g.vx ≠ 0) (hy : g.vy ≠ 0) :
    zoomImage2 g g pl opt = pl := by
  unfold zoomImage2
  simp [zoom_one _ hx, zoom_one _ hy, off_zero]

theorem zoomImageParams2_identity (im : Img) (opt : ZoomOpt) : zoomImageParams2 im 1 0 0 im.g.nx opt = im := by
  unfold zoomImageParams2
  simp

/-- the plain-copy shortcut of the transaxial `zoom_image` is taken only for the identity request -/
theorem zoomImage2_not_shortcut (gout gi : Grid) (pl : List (List ℚ)) (opt : ZoomOpt)
    (h : fl32 (gi.vx / gout.vx) ≠ 1 ∨ fl32 (gi.vy / gout.vy) ≠ 1 ∨ fl32 (fl32 (gout.ox - gi.ox) / gi.vx) ≠ 0 ∨
         fl32 (fl32 (gout.oy - gi.oy) / gi.vy) ≠ 0 ∨ gi.ymin ≠ gout.ymin ∨ gi.xmin ≠ gout.xmin ∨ gi.ny ≠ gout.ny ∨ gi.nx ≠ gout.nx) :
    zoomImage2 gout gi pl opt =
      let zx := fl32 (gi.vx / gout.vx)
      let zy := fl32 (gi.vy / gout.vy)
      let t1 := pl.map (ovl gout.xmin gout.nx gi.xmin zx (fl32 (fl32 (gout.ox - gi.ox) / gi.vx)))
      let t2 := transpose2 gout.ny ((transpose2 gout.nx t1).map (ovl gout.ymin gout.ny gi.ymin zy (fl32 (fl32 (gout.oy - gi.oy) / gi.vy))))
      let scale : ℚ := match opt with
        | 1 => fl32 (zx * zy)
        | 2 => zy
        | _ => 1
      if scale != 1 then t2.map fun row => row.map (· * scale) else t2 := by
  unfold zoomImage2
  have hne : ¬ (fl32 (gi.vx / gout.vx) == 1 ∧ fl32 (gi.vy / gout.vy) == 1 ∧ fl32 (fl32 (gout.ox - gi.ox) / gi.vx) == 0 ∧
      fl32 (fl32 (gout.oy - gi.oy) / gi.vy) == 0 ∧ gi.ymin == gout.ymin ∧ gi.xmin == gout.xmin ∧ gi.ny == gout.ny ∧ gi.nx == gout.nx) := by
    simp only [beq_iff_eq]
    rintro ⟨h1, h2, h3, h4, h5, h6, h7, h8⟩
    rcases h with h | h | h | h | h | h | h | h <;> exact h (by assumption)
  simp only [hne, if_false]
  rfl


/-! ## pure shift: `overlap_interpolate` with zoom 1 and an offset of a whole number of boxes -/

/-! ### `Vec` -/

theorem Vec.set_lo (v : Vec) (i : Int) (x : ℚ) : (v.set i x).lo = v.lo := by
  unfold Vec.set; split <;> rfl

theorem Vec.set_length (v : Vec) (i : Int) (x : ℚ) : (v.set i x).vals.length = v.vals.length := by
  unfold Vec.set; split <;> simp

theorem Vec.set_hi (v : Vec) (i : Int) (x : ℚ) : (v.set i x).hi = v.hi := by
  unfold Vec.hi; rw [Vec.set_lo, Vec.set_length]

theorem Vec.get_set_same (v : Vec) (i : Int) (x : ℚ) (h1 : v.lo ≤ i) (h2 : i ≤ v.hi) : (v.set i x).get i = x := by
  unfold Vec.hi at h2
  unfold Vec.set Vec.get
  have hn : ¬ i < v.lo := by omega
  simp only [hn, if_false]
  have : (i - v.lo).toNat < v.vals.length := by omega
  simp [List.getD_eq_getElem?_getD, this]

theorem Vec.get_set_ne (v : Vec) (i j : Int) (x : ℚ) (h : j ≠ i) : (v.set i x).get j = v.get j := by
  unfold Vec.set
  split
  · rfl
  · rename_i hi
    unfold Vec.get
    simp only
    split
    · rfl
    · rename_i hj
      have : (i - v.lo).toNat ≠ (j - v.lo).toNat := by omega
      simp [List.getD_eq_getElem?_getD, this]

theorem Vec.get_out (v : Vec) (i : Int) (h : i < v.lo ∨ v.hi < i) : v.get i = 0 := by
  unfold Vec.get
  split
  · rfl
  · rename_i hi
    unfold Vec.hi at h
    have : v.vals.length ≤ (i - v.lo).toNat := by omega
    simp [List.getD_eq_getElem?_getD, List.getElem?_eq_none this]


/-- `R` is `out` with the positions `x2 … out.hi` replaced by the values `f` -/
def Filled (R out : Vec) (x2 : Int) (f : Int → ℚ) : Prop :=
  R.lo = out.lo ∧ R.vals.length = out.vals.length ∧ (∀ i, i < x2 → R.get i = out.get i) ∧ (∀ i, x2 ≤ i → i ≤ out.hi → R.get i = f i)

theorem Filled.done (out : Vec) (x2 : Int) (f : Int → ℚ) (h : out.hi < x2) : Filled out out x2 f :=
  ⟨rfl, rfl, fun _ _ => rfl, fun i h1 h2 => by omega⟩

theorem Filled.step (R out : Vec) (x2 : Int) (f : Int → ℚ) (v : ℚ) (h : Filled R (out.set x2 v) (x2 + 1) f)
    (h1 : out.lo ≤ x2) (h2 : x2 ≤ out.hi) (hv : f x2 = v) : Filled R out x2 f := by
  obtain ⟨a, b, c, d⟩ := h
  refine ⟨by rw [a, Vec.set_lo], by rw [b, Vec.set_length], ?_, ?_⟩
  · intro i hi
    rw [c i (by omega), Vec.get_set_ne _ _ _ _ (by omega)]
  · intro i hi1 hi2
    by_cases e : i = x2
    · subst e
      rw [c i (by omega), Vec.get_set_same _ _ _ h1 h2, hv]
    · exact d i (by omega) (by rw [Vec.set_hi]; exact hi2)

/-- the input is exhausted: the rest of the output is zero-filled -/
theorem shrink_zero (inp : Vec) (x1 : Int) (hx1 : x1 > inp.hi) (fuel : Nat) : ∀ (x2 : Int) (d : ℚ) (out : Vec), out.lo ≤ x2 →
    (out.hi - x2 + 1).toNat ≤ fuel → Filled (overlapVecShrink 1 true inp fuel x2 x1 d out) out x2 (fun _ => 0) := by
  induction fuel with
  | zero =>
    intro x2 d out _ hf
    unfold overlapVecShrink
    exact Filled.done out x2 _ (by omega)
  | succ n ih =>
    intro x2 d out hlo hf
    unfold overlapVecShrink
    split
    · rename_i h; exact Filled.done out x2 _ (by omega)
    · rename_i h
      simp only [hx1, if_true]
      apply Filled.step _ out x2 _ 0 _ hlo (by omega) rfl
      exact ih (x2 + 1) (d - 1) (out.set x2 0) (by rw [Vec.set_lo]; omega) (by rw [Vec.set_hi]; omega)

/-- the regular regime of a pure shift: `d = -1`, `x1 = x2 - 1 + k` -/
theorem shrink_shift (inp : Vec) (k : Int) (fuel : Nat) : ∀ (x2 : Int) (out : Vec), out.lo ≤ x2 →
    (out.hi - x2 + 1).toNat ≤ fuel →
    Filled (overlapVecShrink 1 true inp fuel x2 (x2 - 1 + k) (-1) out) out x2 (fun i => inp.get (i + k)) := by
  induction fuel with
  | zero =>
    intro x2 out _ hf
    unfold overlapVecShrink
    exact Filled.done out x2 _ (by omega)
  | succ n ih =>
    intro x2 out hlo hf
    by_cases hx1 : x2 - 1 + k > inp.hi
    · have := shrink_zero inp (x2 - 1 + k) hx1 (n + 1) x2 (-1) out hlo hf
      obtain ⟨a, b, c, d⟩ := this
      refine ⟨a, b, c, ?_⟩
      intro i h1 h2
      rw [d i h1 h2]
      show (0 : ℚ) = inp.get (i + k)
      rw [Vec.get_out inp (i + k) (Or.inr (by omega))]
    · unfold overlapVecShrink
      split
      · rename_i h; exact Filled.done out x2 _ (by omega)
      · rename_i h
        simp only [hx1, if_false]
        have hd : ¬ ((-1 : ℚ) ≥ 0) := by norm_num
        simp only [hd, if_false]
        have hnext : x2 - 1 + k + 1 = x2 + 1 - 1 + k := by ring
        have hdn : (-1 : ℚ) + 1 - 1 = -1 := by norm_num
        rw [hnext, hdn]
        · -- the value written at x2 is `inp.get (x2 + k)`
          have hv : ((if x2 + 1 - 1 + k ≤ inp.hi ∧ x2 + 1 - 1 + k ≥ inp.lo then
              (if x2 - 1 + k ≥ inp.lo then inp.get (x2 - 1 + k) * (1 / -1 + 1) else if True then 0 else out.get x2) -
                inp.get (x2 + 1 - 1 + k)
              else if x2 - 1 + k ≥ inp.lo then inp.get (x2 - 1 + k) * (1 / -1 + 1) else if True then 0 else out.get x2) * (-1 / 1) : ℚ)
              = inp.get (x2 + k) := by
            have e : x2 + 1 - 1 + k = x2 + k := by ring
            rw [e]
            have z : (if x2 - 1 + k ≥ inp.lo then inp.get (x2 - 1 + k) * (1 / -1 + 1) else if True then 0 else out.get x2 : ℚ) = 0 := by
              split
              · norm_num
              · simp
            rw [z]
            split
            · norm_num
            · rename_i hr
              rw [Vec.get_out inp (x2 + k) (by omega)]
              norm_num
          rw [hv]
          refine Filled.step _ out x2 _ (inp.get (x2 + k)) ?_ hlo (by omega) rfl
          exact ih (x2 + 1) _ (by rw [Vec.set_lo]; omega) (by rw [Vec.set_hi]; omega)


/-- the first step of a pure shift (`d = 0`, `x1 = x2 + k`), then the regular regime -/
theorem shrink_start (inp out : Vec) (k : Int) (hne : out.lo ≤ out.hi) :
    Filled (overlapVecShrink 1 true inp (out.vals.length + 1) out.lo (out.lo + k) 0 out) out out.lo (fun i => inp.get (i + k)) := by
  by_cases hx1 : out.lo + k > inp.hi
  · have := shrink_zero inp (out.lo + k) hx1 (out.vals.length + 1) out.lo 0 out (le_refl _) (by unfold Vec.hi; omega)
    obtain ⟨a, b, c, d⟩ := this
    refine ⟨a, b, c, ?_⟩
    intro i h1 h2
    rw [d i h1 h2]
    show (0 : ℚ) = inp.get (i + k)
    rw [Vec.get_out inp (i + k) (Or.inr (by omega))]
  · unfold overlapVecShrink
    have h1 : ¬ out.lo > out.hi := by omega
    have hd : (0 : ℚ) ≥ 0 := le_refl _
    simp only [h1, hx1, hd, if_false, if_true]
    have hv : (if out.lo + k ≥ inp.lo then out.set out.lo (inp.get (out.lo + k) / 1) else out.set out.lo 0)
        = out.set out.lo (inp.get (out.lo + k)) := by
      split
      · rw [div_one]
      · rename_i h
        rw [Vec.get_out inp (out.lo + k) (Or.inl (by omega))]
    rw [hv]
    refine Filled.step _ out out.lo _ (inp.get (out.lo + k)) ?_ (le_refl _) hne rfl
    have e1 : out.lo + k = out.lo + 1 - 1 + k := by ring
    have e2 : (0 : ℚ) - 1 = -1 := by norm_num
    rw [e1, e2]
    have e3 : out.lo + 1 - 1 + k - 1 + 1 = out.lo + 1 - 1 + k := by ring
    exact shrink_shift inp k out.vals.length (out.lo + 1) _ (by rw [Vec.set_lo]; omega) (by rw [Vec.set_hi]; unfold Vec.hi; omega)

theorem Filled.vals (R out : Vec) (f : Int → ℚ) (h : Filled R out out.lo f) :
    R.vals = (List.range out.vals.length).map fun (j : Nat) => f (out.lo + (j : Int)) := by
  obtain ⟨a, b, _, d⟩ := h
  apply List.ext_getElem
  · simp [b]
  · intro j h1 h2
    have hj : j < out.vals.length := by rw [← b]; exact h1
    have := d (out.lo + j) (by omega) (by unfold Vec.hi; omega)
    simp only [List.getElem_map, List.getElem_range]
    rw [← this]
    unfold Vec.get
    have hn : ¬ (out.lo + (j : Int) < R.lo) := by omega
    simp only [hn, if_false]
    have e : (out.lo + (j : Int) - R.lo).toNat = j := by omega
    rw [e]
    simp [List.getD_eq_getElem?_getD, h1]

/-- **pure shift.**  `overlap_interpolate` with zoom exactly 1 and an offset of a whole number `k` of boxes copies the values:
    box `i` of the result is box `i + k` of the input (0 outside the input), whatever the two index ranges are.
    (`hfl`: the first index of the output is a float, as every index below 2^24.) -/
theorem overlapVec_pure_shift (out inp : Vec) (k : Int) (hfl : fl32 (out.lo : ℚ) = out.lo) :
    (overlapVec out inp 1 (k : ℚ) true).vals = (List.range out.vals.length).map fun (j : Nat) => inp.get (out.lo + (j : Int) + k) := by
  unfold overlapVec
  split
  · rename_i he
    have : out.vals = [] := by simpa using he
    simp [this]
  · rename_i hne
    have hlen : 0 < out.vals.length := by
      cases hv : out.vals with
      | nil => simp [hv] at hne
      | cons _ _ => simp
    split
    · rename_i hs
      obtain ⟨_, hk, hlo, hhi⟩ := hs
      have hk0 : k = 0 := by
        have : (k : ℚ) = 0 := by simpa using hk
        exact_mod_cast this
      have hlo' : inp.lo = out.lo := by simpa using hlo
      have hhi' : inp.hi = out.hi := by simpa using hhi
      subst hk0
      unfold Vec.hi at hhi'
      have hl : inp.vals.length = out.vals.length := by omega
      apply List.ext_getElem
      · simp [hl]
      · intro j h1 h2
        simp only [List.getElem_map, List.getElem_range, Int.add_zero]
        unfold Vec.get
        have hn : ¬ (out.lo + (j : Int) < inp.lo) := by omega
        simp only [hn, if_false]
        have e : (out.lo + (j : Int) - inp.lo).toNat = j := by omega
        rw [e]
        simp [List.getD_eq_getElem?_getD, h1]
    · have h1 : (1 : ℚ) ≥ 1 := le_refl _
      simp only [h1, if_true]
      have hx1 : (((out.lo : ℚ) - 1 / 2) / 1 + (k : ℚ) + 1 / 2).floor = out.lo + k := by
        have : ((out.lo : ℚ) - 1 / 2) / 1 + (k : ℚ) + 1 / 2 = ((out.lo + k : Int) : ℚ) := by push_cast; ring
        rw [this, Rat.floor_intCast]
      rw [hx1]
      have hd : (1 : ℚ) * (fl32 (((out.lo + k : Int) : ℚ) - (k : ℚ)) + 1 / 2) - ((out.lo : ℚ) + 1 / 2) = 0 := by
        have : ((out.lo + k : Int) : ℚ) - (k : ℚ) = (out.lo : ℚ) := by push_cast; ring
        rw [this, hfl]; ring
      rw [hd]
      have := Filled.vals _ out _ (shrink_start inp out k (by unfold Vec.hi; omega))
      rw [this]


/-! ## pure shift of a plane: the transaxial `zoom_image` with zoom 1 and offsets of whole pixels -/

/-- the pixel `(y, x)` of a plane with first indices `(gi.ymin, gi.xmin)`; 0 outside the plane -/
def planeAt (gi : Grid) (pl : List (List ℚ)) (y x : Int) : ℚ :=
  Vec.get ⟨gi.xmin, if y < gi.ymin then [] else pl.getD (y - gi.ymin).toNat []⟩ x

theorem getD_map_range {α : Type} (n j : Nat) (f : Nat → α) (d : α) (h : j < n) : ((List.range n).map f).getD j d = f j := by
  simp [List.getD_eq_getElem?_getD, List.getElem?_map, List.getElem?_range h]

theorem ovl_pure_shift (outLo : Int) (outN : Nat) (inLo : Int) (k : Int) (vals : List ℚ) (hfl : fl32 (outLo : ℚ) = outLo) :
    ovl outLo outN inLo 1 (k : ℚ) vals = (List.range outN).map fun (j : Nat) => Vec.get ⟨inLo, vals⟩ (outLo + (j : Int) + k) := by
  unfold ovl
  have := overlapVec_pure_shift ⟨outLo, List.replicate outN 0⟩ ⟨inLo, vals⟩ k hfl
  simpa using this

theorem transpose2_range (n m : Nat) (f : Nat → Nat → ℚ) :
    transpose2 n ((List.range m).map fun c => (List.range n).map fun j => f c j) = (List.range n).map fun j => (List.range m).map fun c => f c j := by
  unfold transpose2
  apply List.map_congr_left
  intro j hj
  rw [List.map_map]
  apply List.map_congr_left
  intro c _
  simp only [Function.comp]
  exact getD_map_range n j _ 0 (List.mem_range.mp hj)

theorem zoomImage2_pure_shift (gout gi : Grid) (pl : List (List ℚ)) (opt : ZoomOpt) (ky kx : Int)
    (hzx : fl32 (gi.vx / gout.vx) = 1) (hzy : fl32 (gi.vy / gout.vy) = 1)
    (hxo : fl32 (fl32 (gout.ox - gi.ox) / gi.vx) = kx) (hyo : fl32 (fl32 (gout.oy - gi.oy) / gi.vy) = ky)
    (hne : ky ≠ 0 ∨ kx ≠ 0 ∨ gi.ymin ≠ gout.ymin ∨ gi.xmin ≠ gout.xmin ∨ gi.ny ≠ gout.ny ∨ gi.nx ≠ gout.nx)
    (hflx : fl32 (gout.xmin : ℚ) = gout.xmin) (hfly : fl32 (gout.ymin : ℚ) = gout.ymin) :
    zoomImage2 gout gi pl opt =
      (List.range gout.ny).map fun (j : Nat) => (List.range gout.nx).map fun (c : Nat) =>
        planeAt gi pl (gout.ymin + (j : Int) + ky) (gout.xmin + (c : Int) + kx) := by
  rw [zoomImage2_not_shortcut gout gi pl opt (by
    rw [hxo, hyo]
    rcases hne with h | h | h | h | h | h
    · right; right; right; left; exact_mod_cast h
    · right; right; left; exact_mod_cast h
    · right; right; right; right; left; exact h
    · right; right; right; right; right; left; exact h
    · right; right; right; right; right; right; left; exact h
    · right; right; right; right; right; right; right; exact h)]
  simp only [hzx, hzy, hxo, hyo]
  have hstep : ∀ t2 : List (List ℚ),
      (if ((match opt with | 1 => fl32 ((1 : ℚ) * 1) | 2 => (1 : ℚ) | _ => 1) != 1) = true then
        t2.map fun row => row.map (· * (match opt with | 1 => fl32 ((1 : ℚ) * 1) | 2 => (1 : ℚ) | _ => 1)) else t2) = t2 := by
    intro t2
    rcases opt with _ | _ | _ | n <;> simp [fl32_one]
  refine Eq.trans (hstep _) ?_
  -- the x pass: every row is shifted by kx
  have hx : List.map (ovl gout.xmin gout.nx gi.xmin 1 (kx : ℚ)) pl
      = pl.map fun r => (List.range gout.nx).map fun (c : Nat) => Vec.get ⟨gi.xmin, r⟩ (gout.xmin + (c : Int) + kx) := by
    apply List.map_congr_left
    intro r _
    exact ovl_pure_shift gout.xmin gout.nx gi.xmin kx r hflx
  rw [hx]
  -- its transpose: column c
  have ht : transpose2 gout.nx (pl.map fun r => (List.range gout.nx).map fun (c : Nat) => Vec.get ⟨gi.xmin, r⟩ (gout.xmin + (c : Int) + kx))
      = (List.range gout.nx).map fun (c : Nat) => pl.map fun r => Vec.get ⟨gi.xmin, r⟩ (gout.xmin + (c : Int) + kx) := by
    unfold transpose2
    apply List.map_congr_left
    intro c hc
    rw [List.map_map]
    apply List.map_congr_left
    intro r _
    simp only [Function.comp]
    exact getD_map_range gout.nx c _ 0 (List.mem_range.mp hc)
  rw [ht, List.map_map]
  -- the y pass on every column
  have hy : (List.range gout.nx).map ((ovl gout.ymin gout.ny gi.ymin 1 (ky : ℚ)) ∘ fun (c : Nat) => pl.map fun r => Vec.get ⟨gi.xmin, r⟩ (gout.xmin + (c : Int) + kx))
      = (List.range gout.nx).map fun (c : Nat) => (List.range gout.ny).map fun (j : Nat) =>
          planeAt gi pl (gout.ymin + (j : Int) + ky) (gout.xmin + (c : Int) + kx) := by
    apply List.map_congr_left
    intro c _
    simp only [Function.comp]
    rw [ovl_pure_shift gout.ymin gout.ny gi.ymin ky _ hfly]
    apply List.map_congr_left
    intro j _
    unfold planeAt
    have hempty : ∀ x : Int, Vec.get ⟨gi.xmin, []⟩ x = 0 := by
      intro x; unfold Vec.get; split <;> simp
    generalize gout.ymin + (j : Int) + ky = Y
    generalize gout.xmin + (c : Int) + kx = X
    show (if Y < gi.ymin then 0 else (pl.map fun r => Vec.get ⟨gi.xmin, r⟩ X).getD (Y - gi.ymin).toNat 0) = _
    split
    · exact (hempty X).symm
    · by_cases hn : (Y - gi.ymin).toNat < pl.length
      · simp [List.getD_eq_getElem?_getD, List.getElem?_map, List.getElem?_eq_getElem hn]
      · have hn' : pl.length ≤ (Y - gi.ymin).toNat := Nat.le_of_not_lt hn
        simp [List.getD_eq_getElem?_getD, List.getElem?_map, List.getElem?_eq_none hn', hempty]
  rw [hy]
  exact transpose2_range gout.ny gout.nx fun c j => planeAt gi pl (gout.ymin + (j : Int) + ky) (gout.xmin + (c : Int) + kx)

end StirVerif.C15
