/-
C15 — proofs, part 4: azimuthal angle of the mashed views.
-/
import StirVerif.C15.Model
import Mathlib.Tactic.Ring
import Mathlib.Tactic.Linarith
import Mathlib.Tactic.FieldSimp
import Mathlib.Tactic.Push
import Mathlib.Algebra.BigOperators.Group.Finset.Basic
import Mathlib.Algebra.BigOperators.Ring.Finset
import Mathlib.Algebra.Order.Field.Rat

namespace StirVerif.C15
open Finset

theorem sum_range_cast (n : ℕ) : ∑ j ∈ range n, (j : ℚ) = (n : ℚ) * ((n : ℚ) - 1) / 2 := by
  induction n with
  | zero => simp
  | succ k ih => rw [sum_range_succ, ih]; push_cast; ring

/-- **physical azimuthal position**: with `k ∣ V` views combined, the azimuthal angle `offset' + ov·sampling'` that the output geometry
    assigns to output view `ov` is the mean of the angles `offset + v·sampling` of the `k` input views `v = ov·k, …, ov·k + k − 1`
    that `SSRB` adds into it. -/
theorem ssrb_phi_mean (offIn sampIn : ℚ) (W : ℤ) (k : ℕ) (hW : 0 < W) (hk : 0 < k) (ov : ℤ) :
    (ssrbPhi offIn sampIn (W * k) k).1 + ov * (ssrbPhi offIn sampIn (W * k) k).2
      = (∑ j ∈ range k, (offIn + ((ov * k + j : ℤ) : ℚ) * sampIn)) / k := by
  have hk0 : (k : ℚ) ≠ 0 := by exact_mod_cast (Nat.pos_iff_ne_zero.mp hk)
  have hW0 : (W : ℚ) ≠ 0 := by exact_mod_cast (ne_of_gt hW)
  have hkz : (k : ℤ) ≠ 0 := by exact_mod_cast (Nat.pos_iff_ne_zero.mp hk)
  have hdiv : (W * (k : ℤ)).tdiv k = W := Int.mul_tdiv_cancel _ hkz
  have hsum : ∑ j ∈ range k, (offIn + ((ov * k + j : ℤ) : ℚ) * sampIn)
      = k * offIn + k * (ov * k) * sampIn + sampIn * ((k : ℚ) * ((k : ℚ) - 1) / 2) := by
    rw [← sum_range_cast k, mul_sum]
    have : ∀ j ∈ range k, offIn + ((ov * k + j : ℤ) : ℚ) * sampIn = (offIn + (ov * k) * sampIn) + sampIn * (j : ℚ) := by
      intro j _; push_cast; ring
    rw [sum_congr rfl this, sum_add_distrib, sum_const, card_range, nsmul_eq_mul]
    ring
  rw [hsum]
  unfold ssrbPhi
  simp only [hdiv]
  by_cases h1 : (k : ℤ) > 1
  · simp only [h1, if_true]
    push_cast
    field_simp
    ring
  · have : k = 1 := by omega
    subst this
    simp
    left
    field_simp
end StirVerif.C15
