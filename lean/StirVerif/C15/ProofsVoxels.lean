/-
C15 — proofs, round 4: image grid sizes derived from float zooms (`voxelsFromProjData`,
`VoxelsOnCartesianGrid::construct_from_projdata_info`).
-/
import StirVerif.C15.Model
import Mathlib.Tactic.Ring
import Mathlib.Tactic.Linarith
import Mathlib.Tactic.Push
import Mathlib.Algebra.Order.Field.Rat
import Mathlib.Algebra.Order.Floor.Ring
import Mathlib.Data.Rat.Floor

namespace StirVerif.C15
open StirVerif.C01

theorem le_ceilQ (q : ℚ) : q ≤ (ceilQ q : ℚ) := by
  unfold ceilQ
  have := Rat.floor_le (-q)
  push_cast
  linarith

theorem ceilQ_lt (q : ℚ) : (ceilQ q : ℚ) < q + 1 := by
  unfold ceilQ
  have h : -q < ((-q).floor : ℚ) + 1 := by
    have := Int.lt_floor_add_one (-q)
    exact this
  push_cast
  linarith

/-- **x size derived from the zoom** (`sizes.x() == -1`): the grid is `-h … h` (odd size, centred on index 0) where `h` is the
    smallest integer not below the field-of-view radius in voxels *as the source computes it* (the binary32 quotient
    `fov / voxel_size`): the half-width in voxels covers that radius and exceeds it by less than one voxel.  The same holds for y. -/
theorem voxels_derived_x (rs bin fov : ℚ) (seg0 : Seg) (zz zy zx : ℚ) (sz sy : Int) (g : Grid)
    (h : voxelsFromProjData rs bin fov seg0 zz zy zx sz sy (-1) = some g) (hq : 0 ≤ fl32 (fov / fl32 (bin / zx))) :
    g.vx = fl32 (bin / zx) ∧
    ∃ hx : Int, (g.nx : Int) = 2 * hx + 1 ∧ g.xmin = -hx ∧ fl32 (fov / g.vx) ≤ (hx : ℚ) ∧ (hx : ℚ) < fl32 (fov / g.vx) + 1 := by
  unfold voxelsFromProjData at h
  simp only [beq_self_eq_true, Bool.true_or, Bool.and_self, if_true] at h
  have h0 : (0 : ℚ) ≤ (ceilQ (fl32 (fov / fl32 (bin / zx))) : ℚ) := le_trans hq (le_ceilQ _)
  have h1 : 0 ≤ ceilQ (fl32 (fov / fl32 (bin / zx))) := by exact_mod_cast h0
  have ht : (2 * ceilQ (fl32 (fov / fl32 (bin / zx))) + 1).tdiv 2 = ceilQ (fl32 (fov / fl32 (bin / zx))) := by
    rw [Int.tdiv_eq_ediv_of_nonneg (by omega)]; omega
  repeat' split at h
  all_goals first
    | (exfalso; simp at h; done)
    | (simp only [Option.some.injEq] at h
       subst h
       simp only
       exact ⟨trivial, ceilQ (fl32 (fov / fl32 (bin / zx))), by omega, by omega, le_ceilQ _, ceilQ_lt _⟩)

end StirVerif.C15
