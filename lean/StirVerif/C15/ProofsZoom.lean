/-
C15 — proofs, part 3: the overlap-interpolation specification conserves the integral, reproduces uniform data and
moves the centre of mass by at most half the sum of the box sizes.  Statements are re-exported by `Props.lean`.
-/
import StirVerif.C15.Model
import Mathlib.Tactic.Ring
import Mathlib.Tactic.Linarith
import Mathlib.Algebra.BigOperators.Group.Finset.Basic
import Mathlib.Algebra.BigOperators.Ring.Finset
import Mathlib.Algebra.Order.BigOperators.Group.Finset
import Mathlib.Algebra.Order.Field.Rat
import Mathlib.Algebra.Order.Ring.Abs
import Mathlib.Tactic.FieldSimp
import Mathlib.Tactic.Positivity
import Mathlib.Tactic.Push

namespace StirVerif.C15
open Finset

theorem list_sum_range (f : ℕ → ℚ) (n : ℕ) : ((List.range n).map f).sum = ∑ j ∈ range n, f j := by
  induction n with
  | zero => simp
  | succ k ih => rw [List.range_succ, List.map_append, List.sum_append, ih, sum_range_succ]; simp

theorem specBox_eq (n : ℕ) (inv ic : ℕ → ℚ) (l r : ℚ) :
    specBox n inv ic l r = ∑ j ∈ range n, inv j * ovLen (ic j) (ic (j + 1)) l r := by
  unfold specBox
  exact list_sum_range _ n

/-- `x` clamped to `[a, b]` -/
def clamp (a b x : ℚ) : ℚ := max a (min b x)

theorem ovLen_eq_clamp (a b c d : ℚ) (hab : a ≤ b) (hcd : c ≤ d) : ovLen a b c d = clamp a b d - clamp a b c := by
  unfold ovLen clamp
  rcases le_total b d with h1 | h1 <;> rcases le_total a c with h2 | h2 <;> rcases le_total b c with h3 | h3 <;>
    rcases le_total a d with h4 | h4 <;>
    simp only [min_eq_left, min_eq_right, max_eq_left, max_eq_right, h1, h2, h3, h4, hab, hcd, sub_nonneg, sub_nonpos,
      sub_self] <;>
    linarith

theorem ovLen_comm (a b c d : ℚ) : ovLen a b c d = ovLen c d a b := by
  unfold ovLen
  rw [min_comm b d, max_comm a c]

theorem ovLen_nonneg (a b c d : ℚ) : 0 ≤ ovLen a b c d := le_max_left _ _

theorem clamp_mono (a b : ℚ) {x y : ℚ} (h : x ≤ y) : clamp a b x ≤ clamp a b y :=
  max_le_max le_rfl (min_le_min le_rfl h)

theorem clamp_of_le (a b x : ℚ) (hab : a ≤ b) (h : x ≤ a) : clamp a b x = a := by
  unfold clamp
  rw [min_eq_right (le_trans h hab), max_eq_left h]

theorem clamp_of_ge (a b x : ℚ) (hab : a ≤ b) (h : b ≤ x) : clamp a b x = b := by
  unfold clamp
  rw [min_eq_left h, max_eq_right hab]

/-- the overlaps of one box `[a, b]` with consecutive boxes `[c i, c (i+1)]`, `i < m`, telescope -/
theorem sum_ovLen_telescope (a b : ℚ) (hab : a ≤ b) (c : ℕ → ℚ) (m : ℕ) (hc : ∀ i < m, c i ≤ c (i + 1)) :
    ∑ i ∈ range m, ovLen a b (c i) (c (i + 1)) = clamp a b (c m) - clamp a b (c 0) := by
  rw [← sum_range_sub (fun i => clamp a b (c i)) m]
  apply sum_congr rfl
  intro i hi
  exact ovLen_eq_clamp a b _ _ hab (hc i (mem_range.mp hi))

theorem mono_of_steps (c : ℕ → ℚ) (m : ℕ) (hc : ∀ i < m, c i ≤ c (i + 1)) : ∀ i j, i ≤ j → j ≤ m → c i ≤ c j := by
  intro i j hij hjm
  induction j with
  | zero =>
    have : i = 0 := by omega
    subst this; exact le_rfl
  | succ k ih =>
    rcases Nat.lt_or_ge i (k + 1) with h | h
    · exact le_trans (ih (by omega) (by omega)) (hc k (by omega))
    · have : i = k + 1 := by omega
      subst this; exact le_rfl

/-- **conservation** (`overlap_conserves`): when the output boxes `[oc i, oc (i+1)]`, `i < m`, are consecutive and cover all
    input boxes, the sum of the outputs is the integral of the input step function. -/
theorem spec_conserves (n m : ℕ) (inv ic oc : ℕ → ℚ)
    (hic : ∀ j < n, ic j ≤ ic (j + 1)) (hoc : ∀ i < m, oc i ≤ oc (i + 1))
    (hl : oc 0 ≤ ic 0) (hr : ic n ≤ oc m) :
    ∑ i ∈ range m, specBox n inv ic (oc i) (oc (i + 1)) = ∑ j ∈ range n, inv j * (ic (j + 1) - ic j) := by
  simp only [specBox_eq]
  rw [sum_comm]
  apply sum_congr rfl
  intro j hj
  have hj' := mem_range.mp hj
  rw [← mul_sum, sum_ovLen_telescope _ _ (hic j hj') oc m hoc]
  have h0 : oc 0 ≤ ic j := le_trans hl (mono_of_steps ic n hic 0 j (by omega) (by omega))
  have h1 : ic (j + 1) ≤ oc m := le_trans (mono_of_steps ic n hic (j + 1) n (by omega) (by omega)) hr
  rw [clamp_of_ge _ _ _ (hic j hj') h1, clamp_of_le _ _ _ (hic j hj') h0]

/-- what is lost otherwise: every input box contributes exactly the part of it inside the output range -/
theorem spec_sum_general (n m : ℕ) (inv ic oc : ℕ → ℚ)
    (hic : ∀ j < n, ic j ≤ ic (j + 1)) (hoc : ∀ i < m, oc i ≤ oc (i + 1)) :
    ∑ i ∈ range m, specBox n inv ic (oc i) (oc (i + 1))
      = ∑ j ∈ range n, inv j * (clamp (ic j) (ic (j + 1)) (oc m) - clamp (ic j) (ic (j + 1)) (oc 0)) := by
  simp only [specBox_eq]
  rw [sum_comm]
  apply sum_congr rfl
  intro j hj
  rw [← mul_sum, sum_ovLen_telescope _ _ (hic j (mem_range.mp hj)) oc m hoc]

/-- **uniform regions stay uniform**: if every input box that meets the output box `[l, r]` holds the value `c` and `[l, r]`
    lies inside the input range, the output is `c · (r − l)` — i.e. `c` after the `preserve_values` scaling by `zoom = 1/(r−l)`. -/
theorem spec_uniform (n : ℕ) (inv ic : ℕ → ℚ) (l r c : ℚ) (hlr : l ≤ r)
    (hic : ∀ j < n, ic j ≤ ic (j + 1)) (hl : ic 0 ≤ l) (hr : r ≤ ic n)
    (hc : ∀ j < n, ovLen (ic j) (ic (j + 1)) l r ≠ 0 → inv j = c) :
    specBox n inv ic l r = c * (r - l) := by
  rw [specBox_eq]
  have : ∀ j ∈ range n, inv j * ovLen (ic j) (ic (j + 1)) l r = c * ovLen l r (ic j) (ic (j + 1)) := by
    intro j hj
    rw [ovLen_comm l r]
    by_cases h0 : ovLen (ic j) (ic (j + 1)) l r = 0
    · rw [h0]; ring
    · rw [hc j (mem_range.mp hj) h0]
  rw [sum_congr rfl this, ← mul_sum, sum_ovLen_telescope l r hlr ic n hic, clamp_of_ge _ _ _ hlr hr, clamp_of_le _ _ _ hlr hl]

/-- centres of two boxes with a non-degenerate overlap are closer than half the sum of their lengths -/
theorem centre_dist (a b c d : ℚ) (h : ovLen a b c d ≠ 0) : |(c + d) / 2 - (a + b) / 2| ≤ ((b - a) + (d - c)) / 2 := by
  unfold ovLen at h
  have hpos : 0 < min b d - max a c := by
    rcases lt_or_ge 0 (min b d - max a c) with h1 | h1
    · exact h1
    · exact absurd (max_eq_left h1) h
  have h1 : max a c < min b d := by linarith
  have ha : a < b := lt_of_le_of_lt (le_max_left a c) (lt_of_lt_of_le h1 (min_le_left b d))
  have hb : a < d := lt_of_le_of_lt (le_max_left a c) (lt_of_lt_of_le h1 (min_le_right b d))
  have hc : c < b := lt_of_le_of_lt (le_max_right a c) (lt_of_lt_of_le h1 (min_le_left b d))
  have hd : c < d := lt_of_le_of_lt (le_max_right a c) (lt_of_lt_of_le h1 (min_le_right b d))
  rw [abs_le]
  constructor <;> linarith

/-- **centre of mass** (`zoom_com_bound`, one axis): for non-negative data and output boxes covering the input, the first
    moment computed with the output box centres differs from the first moment with the input box centres by at most
    `½(w_in + w_out)` times the total, `w_in`/`w_out` bounding the box lengths. -/
theorem spec_com_bound (n m : ℕ) (inv ic oc : ℕ → ℚ) (win wout : ℚ)
    (hic : ∀ j < n, ic j ≤ ic (j + 1)) (hoc : ∀ i < m, oc i ≤ oc (i + 1))
    (hl : oc 0 ≤ ic 0) (hr : ic n ≤ oc m) (hpos : ∀ j < n, 0 ≤ inv j)
    (hwin : ∀ j < n, ic (j + 1) - ic j ≤ win) (hwout : ∀ i < m, oc (i + 1) - oc i ≤ wout) :
    |∑ i ∈ range m, specBox n inv ic (oc i) (oc (i + 1)) * ((oc i + oc (i + 1)) / 2)
        - ∑ j ∈ range n, inv j * (ic (j + 1) - ic j) * ((ic j + ic (j + 1)) / 2)|
      ≤ (win + wout) / 2 * ∑ j ∈ range n, inv j * (ic (j + 1) - ic j) := by
  -- write both moments as double sums over (i, j)
  have hsplit : ∀ j ∈ range n, inv j * (ic (j + 1) - ic j) * ((ic j + ic (j + 1)) / 2)
      = ∑ i ∈ range m, inv j * ovLen (ic j) (ic (j + 1)) (oc i) (oc (i + 1)) * ((ic j + ic (j + 1)) / 2) := by
    intro j hj
    have hj' := mem_range.mp hj
    rw [← sum_mul, ← mul_sum, sum_ovLen_telescope _ _ (hic j hj') oc m hoc]
    have h0 : oc 0 ≤ ic j := le_trans hl (mono_of_steps ic n hic 0 j (by omega) (by omega))
    have h1 : ic (j + 1) ≤ oc m := le_trans (mono_of_steps ic n hic (j + 1) n (by omega) (by omega)) hr
    rw [clamp_of_ge _ _ _ (hic j hj') h1, clamp_of_le _ _ _ (hic j hj') h0]
  have hmass : ∀ j ∈ range n, inv j * (ic (j + 1) - ic j)
      = ∑ i ∈ range m, inv j * ovLen (ic j) (ic (j + 1)) (oc i) (oc (i + 1)) := by
    intro j hj
    have hj' := mem_range.mp hj
    rw [← mul_sum, sum_ovLen_telescope _ _ (hic j hj') oc m hoc]
    have h0 : oc 0 ≤ ic j := le_trans hl (mono_of_steps ic n hic 0 j (by omega) (by omega))
    have h1 : ic (j + 1) ≤ oc m := le_trans (mono_of_steps ic n hic (j + 1) n (by omega) (by omega)) hr
    rw [clamp_of_ge _ _ _ (hic j hj') h1, clamp_of_le _ _ _ (hic j hj') h0]
  rw [sum_congr rfl hsplit, sum_congr rfl hmass]
  simp only [specBox_eq, sum_mul]
  rw [sum_comm, ← sum_sub_distrib, mul_sum]
  refine le_trans (abs_sum_le_sum_abs _ _) (sum_le_sum ?_)
  intro j hj
  rw [← sum_sub_distrib, mul_sum]
  refine le_trans (abs_sum_le_sum_abs _ _) (sum_le_sum ?_)
  intro i hi
  have hj' := mem_range.mp hj
  have hi' := mem_range.mp hi
  have hov := ovLen_nonneg (ic j) (ic (j + 1)) (oc i) (oc (i + 1))
  have hinv := hpos j hj'
  rw [← mul_sub, abs_mul, abs_of_nonneg (mul_nonneg hinv hov)]
  by_cases h0 : ovLen (ic j) (ic (j + 1)) (oc i) (oc (i + 1)) = 0
  · rw [h0]; simp
  · have hd := centre_dist _ _ _ _ h0
    have hw : (ic (j + 1) - ic j + (oc (i + 1) - oc i)) / 2 ≤ (win + wout) / 2 := by
      have := hwin j hj'
      have := hwout i hi'
      linarith
    calc inv j * ovLen (ic j) (ic (j + 1)) (oc i) (oc (i + 1)) * |(oc i + oc (i + 1)) / 2 - (ic j + ic (j + 1)) / 2|
        ≤ inv j * ovLen (ic j) (ic (j + 1)) (oc i) (oc (i + 1)) * ((win + wout) / 2) :=
          mul_le_mul_of_nonneg_left (le_trans hd hw) (mul_nonneg hinv hov)
      _ = (win + wout) / 2 * (inv j * ovLen (ic j) (ic (j + 1)) (oc i) (oc (i + 1))) := by ring

/-- the centre of mass itself: with positive total it moves by at most `½(w_in + w_out)` -/
theorem spec_com_shift (n m : ℕ) (inv ic oc : ℕ → ℚ) (win wout : ℚ)
    (hic : ∀ j < n, ic j ≤ ic (j + 1)) (hoc : ∀ i < m, oc i ≤ oc (i + 1))
    (hl : oc 0 ≤ ic 0) (hr : ic n ≤ oc m) (hpos : ∀ j < n, 0 ≤ inv j)
    (hwin : ∀ j < n, ic (j + 1) - ic j ≤ win) (hwout : ∀ i < m, oc (i + 1) - oc i ≤ wout)
    (htot : 0 < ∑ j ∈ range n, inv j * (ic (j + 1) - ic j)) :
    |(∑ i ∈ range m, specBox n inv ic (oc i) (oc (i + 1)) * ((oc i + oc (i + 1)) / 2)) / (∑ i ∈ range m, specBox n inv ic (oc i) (oc (i + 1)))
        - (∑ j ∈ range n, inv j * (ic (j + 1) - ic j) * ((ic j + ic (j + 1)) / 2)) / (∑ j ∈ range n, inv j * (ic (j + 1) - ic j))|
      ≤ (win + wout) / 2 := by
  rw [spec_conserves n m inv ic oc hic hoc hl hr]
  have hb := spec_com_bound n m inv ic oc win wout hic hoc hl hr hpos hwin hwout
  generalize (∑ j ∈ range n, inv j * (ic (j + 1) - ic j)) = M at *
  rw [← sub_div, abs_div, abs_of_pos htot, div_le_iff₀ htot]
  exact hb

/-! ### the regular grids of `zoom_image` (one axis) -/

/-- input boxes of `overlap_interpolate(out, in, zoom, offset)`: box of index `lo + j` is `[lo + j − ½, lo + j + ½]` -/
def inEdge (lo : ℤ) (j : ℕ) : ℚ := ((lo + j : ℤ) : ℚ) - 1 / 2
/-- output boxes in input index units: box of index `lo + i` is `[(lo+i−½)/zoom + offset, (lo+i+½)/zoom + offset]` -/
def outEdge (lo : ℤ) (zoom offset : ℚ) (i : ℕ) : ℚ := (((lo + i : ℤ) : ℚ) - 1 / 2) / zoom + offset

theorem inEdge_step (lo : ℤ) (j : ℕ) : inEdge lo (j + 1) - inEdge lo j = 1 := by
  unfold inEdge; push_cast; ring

theorem outEdge_step (lo : ℤ) (zoom offset : ℚ) (i : ℕ) : outEdge lo zoom offset (i + 1) - outEdge lo zoom offset i = 1 / zoom := by
  unfold outEdge; push_cast; ring

/-- **`zoom_com_bound`, one axis, in millimetres.**  Input voxel size `vin`, zoom `z = vin/vout`: for non-negative data whose grid is
    covered by the new grid, the centre of mass (voxel centres, physical coordinates `vin·(index units)`) moves by at most `½(vin + vout)`. -/
theorem zoom_axis_com_bound (n m : ℕ) (inv : ℕ → ℚ) (ilo olo : ℤ) (zoom offset vin : ℚ) (hz : 0 < zoom) (hv : 0 < vin)
    (hl : outEdge olo zoom offset 0 ≤ inEdge ilo 0) (hr : inEdge ilo n ≤ outEdge olo zoom offset m)
    (hpos : ∀ j < n, 0 ≤ inv j) (htot : 0 < ∑ j ∈ range n, inv j) :
    let out := fun i => specBox n inv (inEdge ilo) (outEdge olo zoom offset i) (outEdge olo zoom offset (i + 1))
    let cOut := fun i => vin * ((outEdge olo zoom offset i + outEdge olo zoom offset (i + 1)) / 2)
    let cIn := fun j => vin * ((inEdge ilo j + inEdge ilo (j + 1)) / 2)
    |(∑ i ∈ range m, out i * cOut i) / (∑ i ∈ range m, out i) - (∑ j ∈ range n, inv j * cIn j) / (∑ j ∈ range n, inv j)|
      ≤ (vin + vin / zoom) / 2 := by
  intro out cOut cIn
  have hic : ∀ j < n, inEdge ilo j ≤ inEdge ilo (j + 1) := fun j _ => by have := inEdge_step ilo j; linarith
  have hpz : 0 < 1 / zoom := by positivity
  have hoc : ∀ i < m, outEdge olo zoom offset i ≤ outEdge olo zoom offset (i + 1) := fun i _ => by
    have := outEdge_step olo zoom offset i; linarith
  have hmass : ∑ j ∈ range n, inv j * (inEdge ilo (j + 1) - inEdge ilo j) = ∑ j ∈ range n, inv j := by
    apply sum_congr rfl; intro j _; rw [inEdge_step]; ring
  have h := spec_com_shift n m inv (inEdge ilo) (outEdge olo zoom offset) 1 (1 / zoom) hic hoc hl hr hpos
    (fun j _ => le_of_eq (inEdge_step ilo j)) (fun i _ => le_of_eq (outEdge_step olo zoom offset i)) (by rw [hmass]; exact htot)
  rw [hmass] at h
  have e1 : ∑ i ∈ range m, out i * cOut i
      = vin * ∑ i ∈ range m, specBox n inv (inEdge ilo) (outEdge olo zoom offset i) (outEdge olo zoom offset (i + 1))
          * ((outEdge olo zoom offset i + outEdge olo zoom offset (i + 1)) / 2) := by
    rw [mul_sum]; apply sum_congr rfl; intro i _; simp only [out, cOut]; ring
  have e2 : ∑ j ∈ range n, inv j * cIn j
      = vin * ∑ j ∈ range n, inv j * (inEdge ilo (j + 1) - inEdge ilo j) * ((inEdge ilo j + inEdge ilo (j + 1)) / 2) := by
    rw [mul_sum]; apply sum_congr rfl; intro j _; simp only [cIn]; rw [inEdge_step]; ring
  rw [e1, e2, mul_div_assoc, mul_div_assoc, ← mul_sub, abs_mul, abs_of_pos hv]
  calc vin * _ ≤ vin * ((1 + 1 / zoom) / 2) := mul_le_mul_of_nonneg_left h (le_of_lt hv)
    _ = (vin + vin / zoom) / 2 := by ring

/-- **`zoom_preserve_sum`, one axis**: the new grid covers the old one ⇒ the sum is conserved -/
theorem zoom_axis_preserve_sum (n m : ℕ) (inv : ℕ → ℚ) (ilo olo : ℤ) (zoom offset : ℚ) (hz : 0 < zoom)
    (hl : outEdge olo zoom offset 0 ≤ inEdge ilo 0) (hr : inEdge ilo n ≤ outEdge olo zoom offset m) :
    ∑ i ∈ range m, specBox n inv (inEdge ilo) (outEdge olo zoom offset i) (outEdge olo zoom offset (i + 1)) = ∑ j ∈ range n, inv j := by
  have hic : ∀ j < n, inEdge ilo j ≤ inEdge ilo (j + 1) := fun j _ => by have := inEdge_step ilo j; linarith
  have hpz : 0 < 1 / zoom := by positivity
  have hoc : ∀ i < m, outEdge olo zoom offset i ≤ outEdge olo zoom offset (i + 1) := fun i _ => by
    have := outEdge_step olo zoom offset i; linarith
  rw [spec_conserves n m inv (inEdge ilo) (outEdge olo zoom offset) hic hoc hl hr]
  apply sum_congr rfl; intro j _; rw [inEdge_step]; ring

/-- **`zoom_preserve_values_uniform`, one axis**: an output voxel lying inside the input grid, all of whose overlapping input voxels hold `c`,
    gets `c/zoom`, hence `c` after the `preserve_values` scaling by `zoom`. -/
theorem zoom_axis_uniform (n : ℕ) (inv : ℕ → ℚ) (ilo olo : ℤ) (zoom offset c : ℚ) (hz : 0 < zoom) (i : ℕ)
    (hl : inEdge ilo 0 ≤ outEdge olo zoom offset i) (hr : outEdge olo zoom offset (i + 1) ≤ inEdge ilo n)
    (hc : ∀ j < n, ovLen (inEdge ilo j) (inEdge ilo (j + 1)) (outEdge olo zoom offset i) (outEdge olo zoom offset (i + 1)) ≠ 0 → inv j = c) :
    zoom * specBox n inv (inEdge ilo) (outEdge olo zoom offset i) (outEdge olo zoom offset (i + 1)) = c := by
  have hic : ∀ j < n, inEdge ilo j ≤ inEdge ilo (j + 1) := fun j _ => by have := inEdge_step ilo j; linarith
  have hpz : 0 < 1 / zoom := by positivity
  have hstep := outEdge_step olo zoom offset i
  rw [spec_uniform n inv (inEdge ilo) _ _ c (by linarith) hic hl hr hc, hstep]
  field_simp

end StirVerif.C15
