/-
C15 — proofs, part 8: `inverse_SSRB` forms convex combinations of (at most two) direct sinograms, placed at the output's axial position
when that position lies between them.
-/
import StirVerif.C15.Model
import Mathlib.Tactic.Ring
import Mathlib.Tactic.Linarith
import Mathlib.Tactic.FieldSimp
import Mathlib.Algebra.Order.Field.Rat
import Mathlib.Algebra.Order.Ring.Abs

namespace StirVerif.C15

theorem absQ_eq_abs (q : ℚ) : absQ q = |q| := by
  unfold absQ
  split
  · rename_i h; rw [abs_of_neg h]
  · rename_i h; rw [abs_of_nonneg (not_lt.mp h)]

/-- the three shapes of the result of `inverse_SSRB` for one output sinogram -/
inductive InvShape (ms : List ℚ) (outM tol : ℚ) : List (Nat × ℚ) → Prop
  | copy (a : Nat) (h : |outM - ms.getD a 0| ≤ tol) : InvShape ms outM tol [(a, 1)]
  | two (a b : Nat) (hne : 0 < |outM - ms.getD a 0| + |outM - ms.getD b 0|) :
      InvShape ms outM tol [(a, |outM - ms.getD b 0| / (|outM - ms.getD a 0| + |outM - ms.getD b 0|)),
                            (b, |outM - ms.getD a 0| / (|outM - ms.getD a 0| + |outM - ms.getD b 0|))]

theorem inverseSsrb_go_shape (ms : List ℚ) (outM tol : ℚ) (htol : 0 ≤ tol) (fuel a : Nat) (ws : List (Nat × ℚ))
    (h : inverseSsrbWeights.go tol ms.length (fun k => absQ (outM - ms.getD k 0)) fuel a = some ws) :
    InvShape ms outM tol ws := by
  induction fuel generalizing a with
  | zero => simp [inverseSsrbWeights.go] at h
  | succ f ih =>
    unfold inverseSsrbWeights.go at h
    split at h
    · exact absurd h (by simp)
    · simp only at h
      split at h
      · split at h
        · rename_i hc
          simp only [Option.some.injEq] at h
          subst h
          rw [absQ_eq_abs] at hc
          exact InvShape.copy a hc
        · rename_i hc
          have hpos : 0 < |outM - ms.getD a 0| := by
            rw [absQ_eq_abs] at hc
            linarith [not_le.mp hc]
          split at h
          · simp only [Option.some.injEq] at h
            subst h
            simp only [absQ_eq_abs]
            have := InvShape.two (ms := ms) (outM := outM) (tol := tol) (a - 1) a
              (by have := abs_nonneg (outM - ms.getD (a - 1) 0); linarith)
            convert this using 3
          · split at h
            · exact absurd h (by simp)
            · simp only [Option.some.injEq] at h
              subst h
              simp only [absQ_eq_abs]
              have := InvShape.two (ms := ms) (outM := outM) (tol := tol) (a + 1) a
                (by have := abs_nonneg (outM - ms.getD (a + 1) 0); linarith)
              convert this using 3
      · exact ih _ h

/-- every result of `inverse_SSRB` for one output sinogram is a copy of the direct sinogram at the same `m` (within `tol`) or
    the combination of two direct sinograms `a`, `b` with weights `|outM − m_b| / (|outM − m_a| + |outM − m_b|)` and vice versa -/
theorem inverseSsrb_shape (ms : List ℚ) (outM tol : ℚ) (htol : 0 ≤ tol) (ws : List (Nat × ℚ))
    (h : inverseSsrbWeights ms outM tol = some ws) : InvShape ms outM tol ws := by
  unfold inverseSsrbWeights at h
  exact inverseSsrb_go_shape ms outM tol htol _ _ ws h

/-- **convex combination**: non-negative weights summing to one (counts / values are neither created nor lost per output sinogram) -/
theorem InvShape.convex {ms : List ℚ} {outM tol : ℚ} {ws : List (Nat × ℚ)} (h : InvShape ms outM tol ws) :
    (∀ w ∈ ws, 0 ≤ w.2) ∧ (ws.map (·.2)).sum = 1 := by
  cases h with
  | copy a _ => simp
  | two a b hne =>
    have ha := abs_nonneg (outM - ms.getD a 0)
    have hb := abs_nonneg (outM - ms.getD b 0)
    constructor
    · intro w hw
      simp only [List.mem_cons, List.mem_nil_iff, or_false] at hw
      rcases hw with rfl | rfl <;> exact div_nonneg (by assumption) (le_of_lt hne)
    · simp only [List.map_cons, List.map_nil, List.sum_cons, List.sum_nil, add_zero]
      field_simp
      ring

/-- **physical position**: the weighted mean of the `m` of the contributing direct sinograms is the output's `m` whenever the
    output position lies between the two (and within `tol` of it for a copy) -/
theorem InvShape.position {ms : List ℚ} {outM tol : ℚ} {ws : List (Nat × ℚ)} (h : InvShape ms outM tol ws) :
    (∃ a, ws = [(a, 1)] ∧ |outM - ms.getD a 0| ≤ tol) ∨
    (∃ a b wa wb, ws = [(a, wa), (b, wb)] ∧
      ((ms.getD a 0 ≤ outM ∧ outM ≤ ms.getD b 0) ∨ (ms.getD b 0 ≤ outM ∧ outM ≤ ms.getD a 0) →
        wa * ms.getD a 0 + wb * ms.getD b 0 = outM)) := by
  cases h with
  | copy a ha => exact Or.inl ⟨a, rfl, ha⟩
  | two a b hne =>
    right
    refine ⟨a, b, _, _, rfl, ?_⟩
    intro hbr
    rcases hbr with ⟨h1, h2⟩ | ⟨h1, h2⟩
    · rw [abs_of_nonneg (by linarith : 0 ≤ outM - ms.getD a 0), abs_of_nonpos (by linarith : outM - ms.getD b 0 ≤ 0)] at hne ⊢
      field_simp
      ring
    · rw [abs_of_nonpos (by linarith : outM - ms.getD a 0 ≤ 0), abs_of_nonneg (by linarith : 0 ≤ outM - ms.getD b 0)] at hne ⊢
      field_simp
      ring

end StirVerif.C15
