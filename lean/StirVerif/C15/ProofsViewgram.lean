/-
C15 — proofs, part 9: `zoom_viewgram` (the call variants agree; the identity request is the identity) and `inverse_SSRB` bin by bin
(every bin of an output sinogram is the same convex combination of the bins of the selected direct sinograms).
-/
import StirVerif.C15.ProofsInverse
import Mathlib.Tactic.Ring
import Mathlib.Tactic.Linarith
import Mathlib.Algebra.Order.Field.Rat

namespace StirVerif.C15

/-! ## `zoom_viewgram` -/

theorem fl32_one : fl32 1 = 1 := by decide +kernel

private theorem all_len {rows : List (List ℚ)} {n : Nat} (h : ∀ r ∈ rows, r.length = n) :
    rows.all (fun r => r.length == n) = true := by
  rw [List.all_eq_true]
  intro r hr
  simp [h r hr]

/-- zoom 1, no offsets, the same tangential range: `zoom_viewgram(out, in, 0, 0)` is the identity on the data -/
theorem zoomViewgram_identity (lo : Int) (n : Nat) (rows : List (List ℚ)) (b c s : ℚ) (hb : b ≠ 0)
    (hrows : ∀ r ∈ rows, r.length = n) : zoomViewgram lo n lo rows b b 0 0 c s = rows := by
  unfold zoomViewgram
  have hz : fl32 (b / b) = 1 := by rw [div_self hb]; exact fl32_one
  simp [hz, all_len hrows]

/-- every row (axial position) is zoomed on its own, by the 1-D `overlap_interpolate` with the zoom and the offset of the view -/
theorem zoomViewgram_rows (outLo : Int) (outN : Nat) (inLo : Int) (rows : List (List ℚ)) (inBin outBin xoff yoff c s : ℚ)
    (hne : ¬ (outLo == inLo ∧ rows.all (fun r => r.length == outN) ∧ fl32 (inBin / outBin) == 1 ∧ xoff == 0 ∧ yoff == 0)) :
    zoomViewgram outLo outN inLo rows inBin outBin xoff yoff c s
      = rows.map fun r =>
          (overlapVec ⟨outLo, List.replicate outN 0⟩ ⟨inLo, r⟩ (fl32 (inBin / outBin)) (zoomViewgramOffset xoff yoff c s inBin) true).vals := by
  unfold zoomViewgram
  simp only [hne, if_false]
  rfl

/-- the replacing overload (and `zoom_viewgrams`) is the two-step overload on the geometry it constructs: new range `minT … maxT`,
    new tangential sampling `in_bin / zoom` (`inBin` a non-zero float) -/
theorem zoomViewgramInPlace_eq (zoom : ℚ) (minT maxT inLo : Int) (rows : List (List ℚ)) (inBin xoff yoff c s : ℚ)
    (hb : inBin ≠ 0) (hfl : fl32 inBin = inBin) :
    zoomViewgramInPlace zoom minT maxT inLo rows inBin xoff yoff c s
      = (minT, fl32 (inBin / zoom),
         zoomViewgram minT (maxT - minT + 1).toNat inLo rows inBin (fl32 (inBin / zoom)) xoff yoff c s) := by
  unfold zoomViewgramInPlace
  split
  · rename_i h
    obtain ⟨h1, h2, h3, h4, h5⟩ := h
    have e1 : minT = inLo := by simpa using h1
    have e3 : zoom = 1 := by simpa using h3
    have e4 : xoff = 0 := by simpa using h4
    have e5 : yoff = 0 := by simpa using h5
    subst e1 e3 e4 e5
    have hrows : ∀ r ∈ rows, r.length = (maxT - minT + 1).toNat := by
      intro r hr
      have := (List.all_eq_true.mp h2) r hr
      have hm : maxT = minT + r.length - 1 := by simpa using this
      rw [hm]
      have : minT + (r.length : Int) - 1 - minT + 1 = (r.length : Int) := by ring
      rw [this]
      simp
    rw [div_one, hfl, zoomViewgram_identity minT _ rows inBin c s hb hrows]
  · rfl

/-! ## `inverse_SSRB`, bin by bin -/

/-- the direct sinograms selected by `inverse_SSRB` exist: their axial positions are inside the input -/
theorem inverseSsrb_go_index (tol : ℚ) (n : Nat) (dist : Nat → ℚ) (fuel a : Nat) (ws : List (Nat × ℚ))
    (h : inverseSsrbWeights.go tol n dist fuel a = some ws) : ∀ w ∈ ws, w.1 < n := by
  induction fuel generalizing a with
  | zero => simp [inverseSsrbWeights.go] at h
  | succ f ih =>
    unfold inverseSsrbWeights.go at h
    split at h
    · exact absurd h (by simp)
    · rename_i han
      have han' : a < n := Nat.lt_of_not_ge han
      simp only at h
      split at h
      · split at h
        · simp only [Option.some.injEq] at h
          subst h
          intro w hw
          simp only [List.mem_cons, List.mem_nil_iff, or_false] at hw
          subst hw
          exact han'
        · split at h
          · simp only [Option.some.injEq] at h
            subst h
            intro w hw
            simp only [List.mem_cons, List.mem_nil_iff, or_false] at hw
            rcases hw with rfl | rfl
            · exact Nat.lt_of_le_of_lt (Nat.sub_le a 1) han'
            · exact han'
          · split at h
            · exact absurd h (by simp)
            · rename_i hlast
              simp only [Option.some.injEq] at h
              subst h
              intro w hw
              simp only [List.mem_cons, List.mem_nil_iff, or_false] at hw
              rcases hw with rfl | rfl
              · have : a + 1 ≠ n := by simpa using hlast
                show a + 1 < n
                omega
              · exact han'
      · exact ih _ h

theorem inverseSsrb_index (ms : List ℚ) (outM tol : ℚ) (ws : List (Nat × ℚ))
    (h : inverseSsrbWeights ms outM tol = some ws) : ∀ w ∈ ws, w.1 < ms.length := by
  unfold inverseSsrbWeights at h
  exact inverseSsrb_go_index tol ms.length _ _ _ ws h

private theorem getD_zipWith (f : ℚ → ℚ → ℚ) (l1 l2 : List ℚ) (hlen : l1.length = l2.length) (hf : f 0 0 = 0) (i : Nat) :
    (List.zipWith f l1 l2).getD i 0 = f (l1.getD i 0) (l2.getD i 0) := by
  induction l1 generalizing l2 i with
  | nil =>
    cases l2 with
    | nil => simp [hf]
    | cons _ _ => simp at hlen
  | cons x xs ih =>
    cases l2 with
    | nil => simp at hlen
    | cons y ys =>
      cases i with
      | zero => simp
      | succ j =>
        simp only [List.zipWith_cons_cons, List.getD_cons_succ]
        exact ih ys (by simpa using hlen) j

private theorem sum_zipWith_lin (wa wb : ℚ) (l1 l2 : List ℚ) (hlen : l1.length = l2.length) :
    (List.zipWith (fun x y => wa * x + wb * y) l1 l2).sum = wa * l1.sum + wb * l2.sum := by
  induction l1 generalizing l2 with
  | nil =>
    cases l2 with
    | nil => simp
    | cons _ _ => simp at hlen
  | cons x xs ih =>
    cases l2 with
    | nil => simp at hlen
    | cons y ys =>
      simp only [List.zipWith_cons_cons, List.sum_cons]
      rw [ih ys (by simpa using hlen)]
      ring

/-- **`inverse_SSRB` bin by bin.**  `sinos` = the direct sinograms (one list of bins per axial position, all with `n` bins, as many as there
    are axial positions `ms`).  Whenever the weights exist, the output sinogram exists, has `n` bins, every bin is the combination of
    the bins *at the same (view, tangential position)* of the selected direct sinograms with the weights of `inverseSsrbWeights`
    (non-negative, summing to one: `C15_inverse_ssrb_convex`), and so is its total. -/
theorem inverseSsrbSino_bins (ms : List ℚ) (outM tol : ℚ) (htol : 0 ≤ tol) (sinos : List (List ℚ)) (n : Nat)
    (hnum : sinos.length = ms.length) (hlen : ∀ r ∈ sinos, r.length = n) (ws : List (Nat × ℚ))
    (h : inverseSsrbWeights ms outM tol = some ws) :
    ∃ out, inverseSsrbSino ms outM tol sinos = some out ∧ out.length = n ∧
      (∀ i, out.getD i 0 = (ws.map fun w => w.2 * (sinos.getD w.1 []).getD i 0).sum) ∧
      out.sum = (ws.map fun w => w.2 * (sinos.getD w.1 []).sum).sum := by
  have hidx := inverseSsrb_index ms outM tol ws h
  have hl : ∀ a, a < ms.length → (sinos.getD a []).length = n := by
    intro a ha
    have ha' : a < sinos.length := by rw [hnum]; exact ha
    have e : sinos.getD a [] = sinos[a] := by simp [List.getD_eq_getElem?_getD, List.getElem?_eq_getElem ha']
    rw [e]
    exact hlen _ (List.getElem_mem ha')
  have hshape := inverseSsrb_shape ms outM tol htol ws h
  unfold inverseSsrbSino
  rw [h]
  cases hshape with
  | copy a _ =>
    refine ⟨sinos.getD a [], rfl, hl a (hidx (a, 1) (by simp)), ?_, ?_⟩
    · intro i; simp
    · simp
  | two a b hne =>
    have ha := hl a (hidx _ (List.mem_cons_self))
    have hb := hl b (hidx _ (List.mem_cons_of_mem _ (List.mem_cons_self)))
    refine ⟨_, rfl, ?_, ?_, ?_⟩
    · rw [List.length_zipWith, ha, hb, Nat.min_self]
    · intro i
      rw [getD_zipWith _ _ _ (by rw [ha, hb]) (by simp)]
      simp
    · rw [sum_zipWith_lin _ _ _ _ (by rw [ha, hb])]
      simp

end StirVerif.C15
