/-
C15 — proofs, part 1: the axial / azimuthal / TOF bookkeeping of `SSRB`.
Statements are re-exported by `Props.lean`.
-/
import StirVerif.C15.Model
import StirVerif.C01.ProofsAxial

namespace StirVerif.C15
open StirVerif.C01

/-! ### small facts -/

theorem mem_irange (lo hi i : Int) : i ∈ irange lo hi ↔ lo ≤ i ∧ i ≤ hi := by
  unfold irange
  simp only [List.mem_map, List.mem_range]
  constructor
  · rintro ⟨k, hk, rfl⟩
    omega
  · rintro ⟨h1, h2⟩
    exact ⟨(i - lo).toNat, by omega, by omega⟩

theorem inc_eq (s : Seg) : (s.maxRD ≠ s.minRD ∧ s.inc = 2) ∨ (s.maxRD = s.minRD ∧ s.inc = 1) := by
  unfold Seg.inc
  by_cases h : s.maxRD = s.minRD
  · right; simp [h]
  · left; simp [h]

/-- the factor `2/inc` of `m4` -/
def mfac (s : Seg) : Int := if s.inc == 2 then 1 else 2

theorem mfac_eq (s : Seg) : (s.maxRD ≠ s.minRD ∧ mfac s = 1) ∨ (s.maxRD = s.minRD ∧ mfac s = 2) := by
  unfold mfac
  rcases inc_eq s with ⟨h, hi⟩ | ⟨h, hi⟩
  · left; simp [h, hi]
  · right; simp [h, hi]

theorem m4_def (s : Seg) (a : Int) : s.m4 a = (2 * a - (s.numAx - 1)) * mfac s := rfl

/-- `axOff` spelled out -/
theorem axOff_spec (R : Int) (s : Seg) (off : Int) (h : s.axOff R = some off) :
    (s.maxRD ≠ s.minRD ∧ s.numAx - 1 = 2 * (R - 1 - off)) ∨ (s.maxRD = s.minRD ∧ s.numAx - 1 = R - 1 - off) := by
  unfold Seg.axOff at h
  rcases inc_eq s with ⟨hne, hi⟩ | ⟨he, hi⟩
  · left
    refine ⟨hne, ?_⟩
    rw [hi] at h
    have hm := tmod2_spec (s.numAx - 1)
    split at h
    · exact absurd h (by simp)
    · rename_i hz
      simp only [bne_iff_ne, ne_eq, Decidable.not_not] at hz
      simp only [Option.some.injEq] at h
      omega
  · right
    refine ⟨he, ?_⟩
    rw [hi] at h
    simp only [Int.tmod_one, Int.tdiv_one] at h
    split at h
    · rename_i hz; simp at hz
    · simp only [Option.some.injEq] at h
      omega

/-- **m of a ring pair.**  For a segment whose axial positions sit on the physical rings (`axOff` integral, `Exact`),
    the `m` coordinate (in quarter ring spacings) of the axial position that `get_segment_axial_pos_num_for_ring_pair`
    assigns to ring pair `(r1, r2)` is `2·(r1 + r2 − (R−1))`: the physical axial mid-point of the pair. -/
theorem m4_axOf (R : Int) (s : Seg) (off r1 r2 : Int) (hoff : s.axOff R = some off) (hex : s.Exact off)
    (hrd : s.minRD ≤ r2 - r1 ∧ r2 - r1 ≤ s.maxRD) :
    s.m4 (s.axOf off r1 r2) = 2 * (r1 + r2 - (R - 1)) := by
  rw [m4_def]
  unfold Seg.axOf
  rcases axOff_spec R s off hoff with ⟨hne, hn⟩ | ⟨he, hn⟩
  · rcases inc_eq s with ⟨_, hi⟩ | ⟨he', _⟩
    · rcases mfac_eq s with ⟨_, hf⟩ | ⟨he', _⟩
      · rw [hi, hf]
        have : ((r1 + r2 - off) * 2).tdiv 2 = r1 + r2 - off := by
          rw [Int.mul_tdiv_cancel _ (by decide)]
        rw [this]
        omega
      · exact absurd he' hne
    · exact absurd he' hne
  · rcases inc_eq s with ⟨hne', _⟩ | ⟨_, hi⟩
    · exact absurd he hne'
    · rcases mfac_eq s with ⟨hne', _⟩ | ⟨_, hf⟩
      · exact absurd he hne'
      · rw [hi, hf]
        have hE := hex (by omega)
        have hq := tdiv2_spec ((r1 + r2 - off) * 1)
        omega

/-! ### folds, `collect`, `find?` -/

theorem foldl_max_ge (g : Seg → Int) (l : List Seg) (init : Int) :
    init ≤ l.foldl (fun acc s => max acc (g s)) init ∧ ∀ s ∈ l, g s ≤ l.foldl (fun acc s => max acc (g s)) init := by
  induction l generalizing init with
  | nil => simp
  | cons a r ih =>
    simp only [List.foldl_cons, List.mem_cons, forall_eq_or_imp]
    have h := ih (max init (g a))
    refine ⟨by omega, by omega, fun s hs => h.2 s hs⟩

theorem foldl_max_ind (P : Int → Prop) (g : Seg → Int) (l : List Seg) (init : Int) (h0 : P init) (h : ∀ s ∈ l, P (g s)) :
    P (l.foldl (fun acc s => max acc (g s)) init) := by
  induction l generalizing init with
  | nil => simpa using h0
  | cons a r ih =>
    simp only [List.foldl_cons]
    apply ih
    · rcases Int.le_total init (g a) with hle | hle
      · rw [Int.max_eq_right hle]; exact h a (by simp)
      · rw [Int.max_eq_left hle]; exact h0
    · intro s hs; exact h s (by simp [hs])

theorem foldl_min_neg (g k : Seg → Int) (l : List Seg) (init : Int) (h : ∀ s ∈ l, k s = -(g s)) :
    l.foldl (fun acc s => min acc (k s)) (-init) = -(l.foldl (fun acc s => max acc (g s)) init) := by
  induction l generalizing init with
  | nil => simp
  | cons a r ih =>
    simp only [List.foldl_cons]
    have ha := h a (by simp)
    have : min (-init) (k a) = -(max init (g a)) := by rw [ha]; omega
    rw [this]
    exact ih _ (fun s hs => h s (by simp [hs]))

theorem collect_spec (f : Int → Option Seg) (l : List Int) (g : List Seg) (h : collect f l = some g) :
    (∀ i ∈ l, ∃ s, f i = some s ∧ s ∈ g) ∧ (∀ s ∈ g, ∃ i ∈ l, f i = some s) := by
  induction l generalizing g with
  | nil =>
    simp only [collect, Option.some.injEq] at h
    subst h
    simp
  | cons a r ih =>
    unfold collect at h
    split at h
    · rename_i s l' hs hl
      simp only [Option.some.injEq] at h
      subst h
      have := ih l' hl
      constructor
      · intro i hi
        rcases List.mem_cons.mp hi with rfl | hi
        · exact ⟨s, hs, by simp⟩
        · obtain ⟨s', h1, h2⟩ := this.1 i hi
          exact ⟨s', h1, by simp [h2]⟩
      · intro s' hs'
        rcases List.mem_cons.mp hs' with rfl | hs'
        · exact ⟨a, by simp, hs⟩
        · obtain ⟨i, h1, h2⟩ := this.2 s' hs'
          exact ⟨i, by simp [h1], h2⟩
    · exact absurd h (by simp)

theorem find?_unique {α : Type} (p : α → Bool) (l : List α) (b : α) (hb : b ∈ l) (hp : p b = true)
    (hu : ∀ a ∈ l, p a = true → a = b) : l.find? p = some b := by
  induction l with
  | nil => simp at hb
  | cons a r ih =>
    simp only [List.find?_cons]
    by_cases ha : p a = true
    · simp only [ha]
      rw [hu a (by simp) ha]
    · simp only [Bool.not_eq_true] at ha
      simp only [ha]
      rcases List.mem_cons.mp hb with rfl | hb'
      · rw [hp] at ha; exact absurd ha (by simp)
      · exact ih hb' (fun a' ha' => hu a' (by simp [ha']))

/-- **unique target axial position**: `m4` is strictly increasing, so the scan of `SSRB` (first position with equal `m`,
    then `break`) finds exactly the position with that `m`. -/
theorem firstAxWithM_eq (sg : Seg) (a : Int) (ha : 0 ≤ a ∧ a < sg.numAx) : firstAxWithM sg (sg.m4 a) = some a := by
  unfold firstAxWithM
  apply find?_unique
  · rw [mem_irange]; omega
  · simp
  · intro a' _ h
    simp only [beq_iff_eq] at h
    rw [m4_def, m4_def] at h
    rcases mfac_eq sg with ⟨_, hf⟩ | ⟨_, hf⟩ <;> rw [hf] at h <;> omega

/-! ### views and TOF -/

/-- **views**: mashing `k` views of data already mashed by `m` is mashing by `m·k`
    (`in_view_num / num_views_to_combine` against `view / get_view_mashing_factor()` of the output geometry). -/
theorem view_commutes (u m k : Int) (hu : 0 ≤ u) (hm : 0 < m) (hk : 0 < k) : (u.tdiv m).tdiv k = u.tdiv (m * k) := by
  rw [Int.tdiv_eq_ediv_of_nonneg hu, Int.tdiv_eq_ediv_of_nonneg (Int.ediv_nonneg hu (by omega)),
    Int.tdiv_eq_ediv_of_nonneg hu, Int.ediv_ediv_of_nonneg (by omega)]

/-- `roundDiv` (round half away from zero) characterised for an odd divisor: the nearest multiple -/
theorem roundDiv_odd (t m q : Int) (hm : 0 < m) (hodd : m % 2 = 1) : roundDiv t m = q ↔ 2 * q * m - m < 2 * t ∧ 2 * t < 2 * q * m + m := by
  unfold roundDiv
  have hnl : (2 * q * m - m : Int) = (2 * q - 1) * m := by rw [Int.sub_mul]; omega
  have hnr : (2 * q * m + m : Int) = (2 * q + 1) * m := by rw [Int.add_mul]; omega
  split
  · rename_i ht
    rw [Int.tdiv_eq_ediv_of_nonneg (by omega)]
    have hd := Int.mul_ediv_add_emod (2 * t + m) (2 * m)
    have hr := Int.emod_nonneg (2 * t + m) (show (2 * m : Int) ≠ 0 by omega)
    have hr2 := Int.emod_lt_of_pos (2 * t + m) (show (0 : Int) < 2 * m by omega)
    generalize (2 * t + m) / (2 * m) = d at *
    generalize (2 * t + m) % (2 * m) = r at *
    have hdm : 2 * m * d = 2 * (d * m) := by rw [Int.mul_comm d m, Int.mul_assoc]
    have hqm : 2 * q * m = 2 * (q * m) := Int.mul_assoc 2 q m
    -- r is odd·… : r ≠ 0 would be needed only for strictness; use parity of m
    constructor
    · rintro rfl
      refine ⟨by omega, ?_⟩
      -- 2t + m = 2m d + r, r < 2m, and r ≡ m (mod 2) so r ≤ 2m - 1
      omega
    · rintro ⟨h1, h2⟩
      -- q*m and d*m : compare
      have : d = q := by
        rcases Int.lt_trichotomy d q with hlt | heq | hgt
        · exfalso
          have : (d + 1) * m ≤ q * m := Int.mul_le_mul_of_nonneg_right (by omega) (by omega)
          rw [Int.add_mul] at this
          omega
        · exact heq
        · exfalso
          have : (q + 1) * m ≤ d * m := Int.mul_le_mul_of_nonneg_right (by omega) (by omega)
          rw [Int.add_mul] at this
          omega
      exact this
  · rename_i ht
    rw [Int.tdiv_eq_ediv_of_nonneg (by omega)]
    have hd := Int.mul_ediv_add_emod (2 * (-t) + m) (2 * m)
    have hr := Int.emod_nonneg (2 * (-t) + m) (show (2 * m : Int) ≠ 0 by omega)
    have hr2 := Int.emod_lt_of_pos (2 * (-t) + m) (show (0 : Int) < 2 * m by omega)
    generalize (2 * (-t) + m) / (2 * m) = d at *
    generalize (2 * (-t) + m) % (2 * m) = r at *
    have hdm : 2 * m * d = 2 * (d * m) := by rw [Int.mul_comm d m, Int.mul_assoc]
    have hqm : 2 * q * m = 2 * (q * m) := Int.mul_assoc 2 q m
    constructor
    · intro hq
      have : q = -d := by omega
      subst this
      have : -d * m = -(d * m) := Int.neg_mul d m
      refine ⟨?_, by omega⟩
      -- r odd-parity argument: r ≠ 0 because 2(-t)+m is odd·… use r ≡ m mod 2
      omega
    · rintro ⟨h1, h2⟩
      have : d = -q := by
        rcases Int.lt_trichotomy d (-q) with hlt | heq | hgt
        · exfalso
          have : (d + 1) * m ≤ (-q) * m := Int.mul_le_mul_of_nonneg_right (by omega) (by omega)
          rw [Int.add_mul, Int.neg_mul] at this
          omega
        · exact heq
        · exfalso
          have : (-q + 1) * m ≤ d * m := Int.mul_le_mul_of_nonneg_right (by omega) (by omega)
          rw [Int.add_mul, Int.neg_mul] at this
          omega
      omega

end StirVerif.C15
