/-
C15 — proofs, round 4: the axial grid of the output segments of `SSRB(ProjDataInfo…)` for ANY ring spacing.

`ssrbOutSeg` finds the number of axial positions of an output segment from the m-range of its input segments in quarter ring
spacings (integers).  The source evaluates `(max_m - min_m)/axial_sampling + 1` in binary32 millimetres, where the quotient is not
exact unless the ring spacing is a dyadic rational (it is not for most predefined scanners: 6.54, 4.85, 3.29114, 5.56 … mm).  Here:
* `ssrbOutSeg_shape`: what `ssrbOutSeg` returns (the largest last-`m` of the group decides);
* `ssrbOutSeg_position_has_target`: every axial position of every input segment of the group has an output axial position with the
  same `m` (no input sinogram can be lost by `SSRB(out, in)`), and `ssrbOutSeg_ends`: the output grid ends where the inputs end;
* `ssrbNumberOfMs_eq`: the source's expression, evaluated exactly in millimetres for any ring spacing `rs > 0`, IS the model's
  integer count — the ring spacing cancels.
-/
import StirVerif.C15.ProofsGroup
import Mathlib.Tactic.Ring
import Mathlib.Tactic.Linarith
import Mathlib.Tactic.FieldSimp
import Mathlib.Tactic.Push
import Mathlib.Algebra.Order.Field.Rat

namespace StirVerif.C15
open StirVerif.C01

/-- what `ssrbOutSeg` returns for a well-formed group `lo … hi`: with `Mx` the largest `m` (quarter ring spacings) of the last axial
    positions of the group — even and `≥ 0` — the output segment ends at `Mx`, and either it has the half-ring sampling with `Mx + 1`
    positions, or the group is a single segment holding one ring difference and the output segment is that segment. -/
theorem ssrbOutSeg_shape (p : PDI) (kSeg os : Int) (og : Seg) (hk : 0 ≤ kSeg.tdiv 2)
    (h : ssrbOutSeg p kSeg os = some og)
    (wf : GroupWF p (os * kSeg - kSeg.tdiv 2) (os * kSeg + kSeg.tdiv 2)) :
    ∃ Mx : Int, Mx % 2 = 0 ∧ 0 ≤ Mx ∧
      (∀ is sg, os * kSeg - kSeg.tdiv 2 ≤ is → is ≤ os * kSeg + kSeg.tdiv 2 → p.seg? is = some sg → sg.m4 (sg.numAx - 1) ≤ Mx) ∧
      (∃ is sg, os * kSeg - kSeg.tdiv 2 ≤ is ∧ is ≤ os * kSeg + kSeg.tdiv 2 ∧ p.seg? is = some sg ∧ sg.m4 (sg.numAx - 1) = Mx) ∧
      og.m4 (og.numAx - 1) = Mx ∧ 1 ≤ og.numAx ∧
      ((mfac og = 1 ∧ og.numAx = Mx + 1) ∨
       (∀ is sg, os * kSeg - kSeg.tdiv 2 ≤ is → is ≤ os * kSeg + kSeg.tdiv 2 → p.seg? is = some sg → sg = og)) := by
  unfold ssrbOutSeg at h
  simp only [Option.bind_eq_bind, Option.bind_eq_some_iff] at h
  obtain ⟨a, ha, a1, ha1, grp, hgrp, h⟩ := h
  generalize hlo : os * kSeg - kSeg.tdiv 2 = lo at *
  generalize hhi : os * kSeg + kSeg.tdiv 2 = hi at *
  have hlohi : lo ≤ hi := by omega
  obtain ⟨hc1, hc2⟩ := collect_spec _ _ _ hgrp
  have hmem : ∀ s ∈ grp, ∃ i, lo ≤ i ∧ i ≤ hi ∧ p.seg? i = some s := by
    intro s hs
    obtain ⟨i, hi', hs'⟩ := hc2 s hs
    rw [mem_irange] at hi'
    exact ⟨i, hi'.1, hi'.2, hs'⟩
  have hin : ∀ is sg, lo ≤ is → is ≤ hi → p.seg? is = some sg → sg ∈ grp := by
    intro is sg h1 h2 hsg
    obtain ⟨s, h3, h4⟩ := hc1 is (by rw [mem_irange]; exact ⟨h1, h2⟩)
    rw [hsg] at h3
    cases h3
    exact h4
  generalize hMx : List.foldl (fun acc s => max acc (s.m4 (s.numAx - 1))) (a.m4 (a.numAx - 1)) grp = Mx at h
  generalize hMn : List.foldl (fun acc s => min acc (s.m4 0)) (a.m4 0) grp = Mn at h
  have hMnMx : Mn = -Mx := by
    rw [← hMn, ← hMx, m4_zero_neg a]
    exact foldl_min_neg _ _ _ _ (fun s _ => m4_zero_neg s)
  have hle : ∀ is sg, lo ≤ is → is ≤ hi → p.seg? is = some sg → sg.m4 (sg.numAx - 1) ≤ Mx := by
    intro is sg h1 h2 hsg
    have := (foldl_max_ge (fun s => s.m4 (s.numAx - 1)) grp (a.m4 (a.numAx - 1))).2 sg (hin is sg h1 h2 hsg)
    rw [hMx] at this
    exact this
  have hatt : ∃ is sg, lo ≤ is ∧ is ≤ hi ∧ p.seg? is = some sg ∧ sg.m4 (sg.numAx - 1) = Mx := by
    rw [← hMx]
    apply foldl_max_ind (fun x => ∃ is sg, lo ≤ is ∧ is ≤ hi ∧ p.seg? is = some sg ∧ sg.m4 (sg.numAx - 1) = x)
    · exact ⟨lo, a, by omega, hlohi, ha, rfl⟩
    · intro s hs
      obtain ⟨i, h1, h2, h3⟩ := hmem s hs
      exact ⟨i, s, h1, h2, h3, rfl⟩
  have hEven : Mx % 2 = 0 ∧ 0 ≤ Mx := by
    rw [← hMx]
    apply foldl_max_ind (fun x => x % 2 = 0 ∧ 0 ≤ x)
    · obtain ⟨o, ho⟩ := wf.offs lo a (by omega) hlohi ha
      exact m4_last_even_nonneg p.R a o ho (wf.pos lo a (by omega) hlohi ha)
    · intro s hs
      obtain ⟨i, h1, h2, h3⟩ := hmem s hs
      obtain ⟨o, ho⟩ := wf.offs i s h1 h2 h3
      exact m4_last_even_nonneg p.R s o ho (wf.pos i s h1 h2 h3)
  refine ⟨Mx, hEven.1, hEven.2, hle, hatt, ?_⟩
  by_cases hne : a1.maxRD = a.minRD
  · -- a single input segment holding one ring difference: the output segment is that segment
    have hlh : lo = hi := by
      rcases Int.lt_or_le lo hi with hlt | hge'
      · have := wf.sorted lo hi a a1 (by omega) hlt (by omega) ha ha1
        have := wf.rd lo a (by omega) hlohi ha
        have := wf.rd hi a1 hlohi (by omega) ha1
        omega
      · omega
    subst hlh
    rw [ha] at ha1
    cases ha1
    have hsrd := wf.rd lo a (by omega) (by omega) ha
    have hMxa : Mx = a.m4 (a.numAx - 1) := by
      rw [← hMx]
      apply foldl_max_ind (fun x => x = a.m4 (a.numAx - 1))
      · rfl
      · intro s hs
        obtain ⟨i, h1, h2, h3⟩ := hmem s hs
        have : i = lo := by omega
        subst this
        rw [ha] at h3; cases h3; rfl
    have hf : mfac a = 2 := by
      rcases mfac_eq a with ⟨hne', _⟩ | ⟨_, hf⟩
      · exact absurd hne hne'
      · exact hf
    have hMx2 : Mx = 2 * (a.numAx - 1) := by rw [hMxa, m4_def, hf]; omega
    have hpos := wf.pos lo a (by omega) (by omega) ha
    simp only [hne, bne_self_eq_false, Bool.false_eq_true, if_false] at h
    have hnum : (Mx - Mn) * 1 = 4 * (a.numAx - 1) := by omega
    rw [hnum] at h
    rw [Int.tmod_eq_emod_of_nonneg (by omega), Int.tdiv_eq_ediv_of_nonneg (by omega)] at h
    have : (4 * (a.numAx - 1)) % 4 = 0 := by omega
    simp only [this, bne_self_eq_false, Bool.false_eq_true, if_false, Option.some.injEq] at h
    have hog : og = a := by
      rw [← h]
      cases a
      simp only [Seg.mk.injEq] at *
      refine ⟨trivial, hne.symm, by omega⟩
    subst hog
    refine ⟨hMxa.symm, hpos, Or.inr ?_⟩
    intro is sg h1 h2 hsg
    have : is = lo := by omega
    subst this
    rw [ha] at hsg
    cases hsg
    rfl
  · -- the general case: the output segment has axial sampling ring_spacing/2
    have hb : (a1.maxRD != a.minRD) = true := by simp [hne]
    simp only [hb, if_true] at h
    have hnum : (Mx - Mn) * 2 = 4 * Mx := by omega
    rw [hnum] at h
    rw [Int.tmod_eq_emod_of_nonneg (by omega), Int.tdiv_eq_ediv_of_nonneg (by omega)] at h
    have : (4 * Mx) % 4 = 0 := by omega
    simp only [this, bne_self_eq_false, Bool.false_eq_true, if_false, Option.some.injEq] at h
    have hq : 4 * Mx / 4 = Mx := by omega
    rw [hq] at h
    subst h
    have hinc : ({ minRD := a.minRD, maxRD := a1.maxRD, numAx := Mx + 1 } : Seg).inc = 2 := by
      unfold Seg.inc; simp [hne]
    have hfac : mfac { minRD := a.minRD, maxRD := a1.maxRD, numAx := Mx + 1 } = 1 := by
      unfold mfac; rw [hinc]; rfl
    refine ⟨?_, by simp only; omega, Or.inl ⟨hfac, rfl⟩⟩
    rw [m4_def, hfac]
    simp only
    omega

/-- **no input position without a target**: every axial position of every input segment of the group of output segment `os` has an
    axial position of the output segment with the same `m` — whatever the ring spacing, `SSRB(out, in)` finds a receiving sinogram
    for every input sinogram of the processed segments. -/
theorem ssrbOutSeg_position_has_target (p : PDI) (kSeg os : Int) (og : Seg) (hk : 0 ≤ kSeg.tdiv 2)
    (h : ssrbOutSeg p kSeg os = some og)
    (wf : GroupWF p (os * kSeg - kSeg.tdiv 2) (os * kSeg + kSeg.tdiv 2))
    (is : Int) (his : os * kSeg - kSeg.tdiv 2 ≤ is ∧ is ≤ os * kSeg + kSeg.tdiv 2) (sg : Seg) (hsg : p.seg? is = some sg)
    (ia : Int) (hia : 0 ≤ ia ∧ ia < sg.numAx) :
    ∃ oa, 0 ≤ oa ∧ oa < og.numAx ∧ og.m4 oa = sg.m4 ia := by
  obtain ⟨Mx, hev, hnn, hle, _, hlast, hpos, hcase⟩ := ssrbOutSeg_shape p kSeg os og hk h wf
  rcases hcase with ⟨hf, hn⟩ | hsingle
  · -- half-ring sampling: og.m4 oa = 2*oa - Mx
    have hup := m4_mono sg ia (sg.numAx - 1) (by omega)
    have hdn := m4_mono sg 0 ia hia.1
    rw [m4_zero_neg sg] at hdn
    have hmx := hle is sg his.1 his.2 hsg
    -- parity of sg.m4 ia
    have hpar : sg.m4 ia % 2 = 0 := by
      obtain ⟨off, hoff⟩ := wf.offs is sg his.1 his.2 hsg
      rw [m4_def]
      rcases axOff_spec p.R sg off hoff with ⟨hne, hn'⟩ | ⟨he, hn'⟩
      · rcases mfac_eq sg with ⟨_, hf'⟩ | ⟨he', _⟩
        · rw [hf']; omega
        · exact absurd he' hne
      · rcases mfac_eq sg with ⟨hne', _⟩ | ⟨_, hf'⟩
        · exact absurd he hne'
        · rw [hf']; omega
    refine ⟨(sg.m4 ia + Mx) / 2, by omega, by omega, ?_⟩
    rw [m4_def og, hf, hn]
    omega
  · have := hsingle is sg his.1 his.2 hsg
    subst this
    exact ⟨ia, hia.1, hia.2, rfl⟩

/-- **the output grid ends where the inputs end**: the first / last axial position of the output segment has the smallest / largest
    `m` of the axial positions of its input segments (no empty output sinograms beyond the data, none missing). -/
theorem ssrbOutSeg_ends (p : PDI) (kSeg os : Int) (og : Seg) (hk : 0 ≤ kSeg.tdiv 2)
    (h : ssrbOutSeg p kSeg os = some og)
    (wf : GroupWF p (os * kSeg - kSeg.tdiv 2) (os * kSeg + kSeg.tdiv 2)) :
    (∀ is sg, os * kSeg - kSeg.tdiv 2 ≤ is → is ≤ os * kSeg + kSeg.tdiv 2 → p.seg? is = some sg →
        og.m4 0 ≤ sg.m4 0 ∧ sg.m4 (sg.numAx - 1) ≤ og.m4 (og.numAx - 1)) ∧
    (∃ is sg, os * kSeg - kSeg.tdiv 2 ≤ is ∧ is ≤ os * kSeg + kSeg.tdiv 2 ∧ p.seg? is = some sg ∧
        og.m4 0 = sg.m4 0 ∧ sg.m4 (sg.numAx - 1) = og.m4 (og.numAx - 1)) := by
  obtain ⟨Mx, _, _, hle, hatt, hlast, _, _⟩ := ssrbOutSeg_shape p kSeg os og hk h wf
  constructor
  · intro is sg h1 h2 hsg
    have := hle is sg h1 h2 hsg
    rw [m4_zero_neg og, m4_zero_neg sg, hlast]
    omega
  · obtain ⟨is, sg, h1, h2, hsg, hm⟩ := hatt
    refine ⟨is, sg, h1, h2, hsg, ?_, by rw [hlast, hm]⟩
    rw [m4_zero_neg og, m4_zero_neg sg, hlast, hm]

/-! ### the source's expression in millimetres -/

theorem mMm_def (s : Seg) (rs : ℚ) (a : Int) : s.mMm rs a = ((s.m4 a : Int) : ℚ) * rs / 4 := rfl

theorem foldl_max_scale (g : Seg → Int) (c : ℚ) (hc : 0 ≤ c) (l : List Seg) (init : Int) :
    l.foldl (fun acc s => max acc (((g s : Int) : ℚ) * c)) ((init : ℚ) * c) = ((l.foldl (fun acc s => max acc (g s)) init : Int) : ℚ) * c := by
  induction l generalizing init with
  | nil => simp
  | cons a r ih =>
    simp only [List.foldl_cons]
    have : max ((init : ℚ) * c) (((g a : Int) : ℚ) * c) = ((max init (g a) : Int) : ℚ) * c := by
      rcases Int.le_total init (g a) with hle | hle
      · rw [Int.max_eq_right hle, max_eq_right]
        exact mul_le_mul_of_nonneg_right (by exact_mod_cast hle) hc
      · rw [Int.max_eq_left hle, max_eq_left]
        exact mul_le_mul_of_nonneg_right (by exact_mod_cast hle) hc
    rw [this]
    exact ih _

theorem foldl_min_scale (g : Seg → Int) (c : ℚ) (hc : 0 ≤ c) (l : List Seg) (init : Int) :
    l.foldl (fun acc s => min acc (((g s : Int) : ℚ) * c)) ((init : ℚ) * c) = ((l.foldl (fun acc s => min acc (g s)) init : Int) : ℚ) * c := by
  induction l generalizing init with
  | nil => simp
  | cons a r ih =>
    simp only [List.foldl_cons]
    have : min ((init : ℚ) * c) (((g a : Int) : ℚ) * c) = ((min init (g a) : Int) : ℚ) * c := by
      rcases Int.le_total init (g a) with hle | hle
      · rw [Int.min_eq_left hle, min_eq_left]
        exact mul_le_mul_of_nonneg_right (by exact_mod_cast hle) hc
      · rw [Int.min_eq_right hle, min_eq_right]
        exact mul_le_mul_of_nonneg_right (by exact_mod_cast hle) hc
    rw [this]
    exact ih _

/-- the source's `number_of_ms` evaluated exactly in millimetres is the quarter-ring-spacing expression of `ssrbOutSeg`:
    the ring spacing cancels (`rs > 0`, `outInc ≠ 0`) -/
theorem ssrbNumberOfMs_eq (grp : List Seg) (first : Seg) (outInc : Int) (rs : ℚ) (hrs : 0 < rs) (hinc : outInc ≠ 0) :
    ssrbNumberOfMs grp first outInc rs =
      (((grp.foldl (fun acc s => max acc (s.m4 (s.numAx - 1))) (first.m4 (first.numAx - 1))
        - grp.foldl (fun acc s => min acc (s.m4 0)) (first.m4 0)) * outInc : Int) : ℚ) / 4 + 1 := by
  unfold ssrbNumberOfMs
  have hc : (0 : ℚ) ≤ rs / 4 := div_nonneg hrs.le (by norm_num)
  have e1 : ∀ (s : Seg) (a : Int), s.mMm rs a = ((s.m4 a : Int) : ℚ) * (rs / 4) := by
    intro s a; rw [mMm_def]; ring
  simp only [e1]
  rw [foldl_max_scale (fun s => s.m4 (s.numAx - 1)) (rs / 4) hc, foldl_min_scale (fun s => s.m4 0) (rs / 4) hc]
  have hi : ((outInc : Int) : ℚ) ≠ 0 := by exact_mod_cast hinc
  have hr : rs ≠ 0 := ne_of_gt hrs
  push_cast
  field_simp

/-- **the number of axial positions for any ring spacing**: whenever `ssrbOutSeg` succeeds, the source's `number_of_ms`, evaluated exactly in
    millimetres for ANY ring spacing `rs > 0`, is the integer number of axial positions that `ssrbOutSeg` gives the output segment
    (so `round(number_of_ms) - 1` is the last axial position, and a float quotient an ulp away from it must not change that). -/
theorem ssrbNumberOfMs_is_numAx (p : PDI) (kSeg os : Int) (og : Seg)
    (h : ssrbOutSeg p kSeg os = some og) (rs : ℚ) (hrs : 0 < rs) :
    ∃ first grp, p.seg? (os * kSeg - kSeg.tdiv 2) = some first ∧
      collect p.seg? (irange (os * kSeg - kSeg.tdiv 2) (os * kSeg + kSeg.tdiv 2)) = some grp ∧
      ssrbNumberOfMs grp first og.inc rs = (og.numAx : ℚ) := by
  unfold ssrbOutSeg at h
  simp only [Option.bind_eq_bind, Option.bind_eq_some_iff] at h
  obtain ⟨a, ha, a1, ha1, grp, hgrp, h⟩ := h
  refine ⟨a, grp, ha, hgrp, ?_⟩
  have hincne : og.inc ≠ 0 := by
    rcases inc_eq og with ⟨_, hi⟩ | ⟨_, hi⟩ <;> rw [hi] <;> decide
  rw [ssrbNumberOfMs_eq grp a og.inc rs hrs hincne]
  -- the model's own computation: `num.tmod 4 = 0`, `numAx = num.tdiv 4 + 1`, with `outInc` = the increment of the result
  generalize hMx : List.foldl (fun acc s => max acc (s.m4 (s.numAx - 1))) (a.m4 (a.numAx - 1)) grp = Mx at h ⊢
  generalize hMn : List.foldl (fun acc s => min acc (s.m4 0)) (a.m4 0) grp = Mn at h ⊢
  -- the increment of the output segment, as `ssrbOutSeg` chooses it
  obtain ⟨k, hk2, hif⟩ : ∃ k : Int, (k = 2 ∨ k = 1) ∧ (if a1.maxRD != a.minRD then (2 : Int) else 1) = k ∧
      (({ minRD := a.minRD, maxRD := a1.maxRD, numAx := 0 } : Seg).inc = k) := by
    by_cases hne : a1.maxRD = a.minRD
    · exact ⟨1, Or.inr rfl, by simp [hne], by unfold Seg.inc; simp [hne]⟩
    · exact ⟨2, Or.inl rfl, by simp [hne], by unfold Seg.inc; simp [hne]⟩
  rw [hif.1] at h
  split at h
  · exact absurd h (by simp)
  · rename_i hz
    simp only [bne_iff_ne, ne_eq, Decidable.not_not] at hz
    simp only [Option.some.injEq] at h
    have hinc : og.inc = k := by
      rw [← h, ← hif.2]
      rfl
    have hnum : og.numAx = ((Mx - Mn) * k).tdiv 4 + 1 := by
      rw [← h]
    rw [hinc]
    have hdiv : (Mx - Mn) * k = 4 * ((Mx - Mn) * k).tdiv 4 := by
      have := Int.tmod_def ((Mx - Mn) * k) 4
      omega
    rw [hnum]
    generalize ((Mx - Mn) * k).tdiv 4 = q at hdiv ⊢
    rw [hdiv]
    push_cast
    ring

/-! ### a legal request is served -/

theorem collect_isSome (f : Int → Option Seg) (l : List Int) (h : ∀ i ∈ l, ∃ s, f i = some s) : ∃ g, collect f l = some g := by
  induction l with
  | nil => exact ⟨[], rfl⟩
  | cons a r ih =>
    obtain ⟨s, hs⟩ := h a (by simp)
    obtain ⟨g, hg⟩ := ih (fun i hi => h i (by simp [hi]))
    exact ⟨s :: g, by simp [collect, hs, hg]⟩

/-- **a legal request is served**: when the input has all the segments `os·k − k/2 … os·k + k/2` and they are well formed, the loop
    body of `SSRB(ProjDataInfo…)` for output segment `os` does not call `error`: the m-range of the group is a whole number of output
    samples (in exact arithmetic: `ssrbNumberOfMs_is_numAx`; the "non-integer" branch of the source can only be reached through float
    rounding). -/
theorem ssrbOutSeg_succeeds (p : PDI) (kSeg os : Int) (hk : 0 ≤ kSeg.tdiv 2)
    (wf : GroupWF p (os * kSeg - kSeg.tdiv 2) (os * kSeg + kSeg.tdiv 2))
    (hex : ∀ i, os * kSeg - kSeg.tdiv 2 ≤ i → i ≤ os * kSeg + kSeg.tdiv 2 → ∃ s, p.seg? i = some s) :
    ∃ og, ssrbOutSeg p kSeg os = some og := by
  generalize hlo : os * kSeg - kSeg.tdiv 2 = lo at *
  generalize hhi : os * kSeg + kSeg.tdiv 2 = hi at *
  have hlohi : lo ≤ hi := by omega
  obtain ⟨a, ha⟩ := hex lo (by omega) hlohi
  obtain ⟨a1, ha1⟩ := hex hi hlohi (by omega)
  obtain ⟨grp, hgrp⟩ := collect_isSome p.seg? (irange lo hi) (fun i hi' => by rw [mem_irange] at hi'; exact hex i hi'.1 hi'.2)
  obtain ⟨hc1, hc2⟩ := collect_spec _ _ _ hgrp
  have hmem : ∀ s ∈ grp, ∃ i, lo ≤ i ∧ i ≤ hi ∧ p.seg? i = some s := by
    intro s hs
    obtain ⟨i, hi', hs'⟩ := hc2 s hs
    rw [mem_irange] at hi'
    exact ⟨i, hi'.1, hi'.2, hs'⟩
  unfold ssrbOutSeg
  simp only [Option.bind_eq_bind, hlo, hhi, ha, ha1, hgrp, Option.bind_some]
  generalize hMx : List.foldl (fun acc s => max acc (s.m4 (s.numAx - 1))) (a.m4 (a.numAx - 1)) grp = Mx
  generalize hMn : List.foldl (fun acc s => min acc (s.m4 0)) (a.m4 0) grp = Mn
  have hMnMx : Mn = -Mx := by
    rw [← hMn, ← hMx, m4_zero_neg a]
    exact foldl_min_neg _ _ _ _ (fun s _ => m4_zero_neg s)
  have hEven : Mx % 2 = 0 ∧ 0 ≤ Mx := by
    rw [← hMx]
    apply foldl_max_ind (fun x => x % 2 = 0 ∧ 0 ≤ x)
    · obtain ⟨o, ho⟩ := wf.offs lo a (by omega) hlohi ha
      exact m4_last_even_nonneg p.R a o ho (wf.pos lo a (by omega) hlohi ha)
    · intro s hs
      obtain ⟨i, h1, h2, h3⟩ := hmem s hs
      obtain ⟨o, ho⟩ := wf.offs i s h1 h2 h3
      exact m4_last_even_nonneg p.R s o ho (wf.pos i s h1 h2 h3)
  by_cases hne : a1.maxRD = a.minRD
  · have hlh : lo = hi := by
      rcases Int.lt_or_le lo hi with hlt | hge'
      · have := wf.sorted lo hi a a1 (by omega) hlt (by omega) ha ha1
        have := wf.rd lo a (by omega) hlohi ha
        have := wf.rd hi a1 hlohi (by omega) ha1
        omega
      · omega
    subst hlh
    have hMxa : Mx = a.m4 (a.numAx - 1) := by
      rw [← hMx]
      apply foldl_max_ind (fun x => x = a.m4 (a.numAx - 1))
      · rfl
      · intro s hs
        obtain ⟨i, h1, h2, h3⟩ := hmem s hs
        have : i = lo := by omega
        subst this
        rw [ha] at h3; cases h3; rfl
    rw [ha] at ha1
    cases ha1
    have hf : mfac a = 2 := by
      rcases mfac_eq a with ⟨hne', _⟩ | ⟨_, hf⟩
      · exact absurd hne hne'
      · exact hf
    have hMx2 : Mx = 2 * (a.numAx - 1) := by rw [hMxa, m4_def, hf]; omega
    have hpos := wf.pos lo a (by omega) (by omega) ha
    simp only [hne, bne_self_eq_false, Bool.false_eq_true, if_false]
    have hnum : (Mx - Mn) * 1 = 4 * (a.numAx - 1) := by omega
    rw [hnum, Int.tmod_eq_emod_of_nonneg (by omega)]
    have : (4 * (a.numAx - 1)) % 4 = 0 := by omega
    simp [this]
  · have hb : (a1.maxRD != a.minRD) = true := by simp [hne]
    simp only [hb, if_true]
    have hnum : (Mx - Mn) * 2 = 4 * Mx := by omega
    rw [hnum, Int.tmod_eq_emod_of_nonneg (by omega)]
    have : (4 * Mx) % 4 = 0 := by omega
    simp [this]

/-- `ssrbOutSeg_position_has_target` in millimetres: the receiving axial position has the same `get_m` for every ring spacing -/
theorem ssrbOutSeg_position_has_target_mm (p : PDI) (kSeg os : Int) (og : Seg) (hk : 0 ≤ kSeg.tdiv 2)
    (h : ssrbOutSeg p kSeg os = some og)
    (wf : GroupWF p (os * kSeg - kSeg.tdiv 2) (os * kSeg + kSeg.tdiv 2))
    (is : Int) (his : os * kSeg - kSeg.tdiv 2 ≤ is ∧ is ≤ os * kSeg + kSeg.tdiv 2) (sg : Seg) (hsg : p.seg? is = some sg)
    (ia : Int) (hia : 0 ≤ ia ∧ ia < sg.numAx) :
    ∃ oa, 0 ≤ oa ∧ oa < og.numAx ∧ og.m4 oa = sg.m4 ia ∧ ∀ rs : ℚ, og.mMm rs oa = sg.mMm rs ia := by
  obtain ⟨oa, h1, h2, h3⟩ := ssrbOutSeg_position_has_target p kSeg os og hk h wf is his sg hsg ia hia
  exact ⟨oa, h1, h2, h3, fun rs => by rw [mMm_def, mMm_def, h3]⟩

end StirVerif.C15
