import StirVerif.C15.ProofsSSRB
namespace StirVerif.C15
open StirVerif.C01

/-- what is assumed of the input segments `lo..hi` that one output segment combines
    (facts that `ProjDataInfoCylindrical` establishes or checks for every geometry it constructs, and that C01's `WFb` contains) -/
structure GroupWF (p : PDI) (lo hi : Int) : Prop where
  /-- axial offsets are integers (`initialise_ring_diff_arrays` calls `error` otherwise) -/
  offs : ∀ i s, lo ≤ i → i ≤ hi → p.seg? i = some s → ∃ off, s.axOff p.R = some off
  pos : ∀ i s, lo ≤ i → i ≤ hi → p.seg? i = some s → 1 ≤ s.numAx
  rd : ∀ i s, lo ≤ i → i ≤ hi → p.seg? i = some s → s.minRD ≤ s.maxRD
  /-- ring-difference ranges increase with the segment number and do not overlap -/
  sorted : ∀ i j si sj, lo ≤ i → i < j → j ≤ hi → p.seg? i = some si → p.seg? j = some sj → si.maxRD < sj.minRD

theorem m4_zero_neg (s : Seg) : s.m4 0 = -(s.m4 (s.numAx - 1)) := by
  rw [m4_def, m4_def]
  rcases mfac_eq s with ⟨_, hf⟩ | ⟨_, hf⟩ <;> rw [hf] <;> omega

theorem m4_mono (s : Seg) (a b : Int) (h : a ≤ b) : s.m4 a ≤ s.m4 b := by
  rw [m4_def, m4_def]
  rcases mfac_eq s with ⟨_, hf⟩ | ⟨_, hf⟩ <;> rw [hf] <;> omega

theorem m4_last_even_nonneg (R : Int) (s : Seg) (off : Int) (h : s.axOff R = some off) (hp : 1 ≤ s.numAx) :
    s.m4 (s.numAx - 1) % 2 = 0 ∧ 0 ≤ s.m4 (s.numAx - 1) := by
  rw [m4_def]
  rcases axOff_spec R s off h with ⟨hne, hn⟩ | ⟨he, hn⟩
  · rcases mfac_eq s with ⟨_, hf⟩ | ⟨he', _⟩
    · rw [hf]; omega
    · exact absurd he' hne
  · rcases mfac_eq s with ⟨hne', _⟩ | ⟨_, hf⟩
    · exact absurd he hne'
    · rw [hf]; omega

theorem ssrbOutSeg_commutes (p : PDI) (kSeg os : Int) (og : Seg) (hk : 0 ≤ kSeg.tdiv 2)
    (h : ssrbOutSeg p kSeg os = some og)
    (wf : GroupWF p (os * kSeg - kSeg.tdiv 2) (os * kSeg + kSeg.tdiv 2))
    (is : Int) (his : os * kSeg - kSeg.tdiv 2 ≤ is ∧ is ≤ os * kSeg + kSeg.tdiv 2) (sg : Seg) (hsg : p.seg? is = some sg)
    (off : Int) (hoff : sg.axOff p.R = some off) (hex : sg.Exact off)
    (r1 r2 : Int) (hrd : sg.minRD ≤ r2 - r1 ∧ r2 - r1 ≤ sg.maxRD)
    (hax : 0 ≤ sg.axOf off r1 r2 ∧ sg.axOf off r1 r2 < sg.numAx) :
    ∃ offO, og.axOff p.R = some offO ∧ og.Exact offO ∧ og.minRD ≤ r2 - r1 ∧ r2 - r1 ≤ og.maxRD ∧
      0 ≤ og.axOf offO r1 r2 ∧ og.axOf offO r1 r2 < og.numAx ∧
      og.m4 (og.axOf offO r1 r2) = sg.m4 (sg.axOf off r1 r2) := by
  unfold ssrbOutSeg at h
  simp only [Option.bind_eq_bind, Option.bind_eq_some_iff] at h
  obtain ⟨a, ha, a1, ha1, grp, hgrp, h⟩ := h
  generalize hlo : os * kSeg - kSeg.tdiv 2 = lo at *
  generalize hhi : os * kSeg + kSeg.tdiv 2 = hi at *
  have hlohi : lo ≤ hi := by omega
  obtain ⟨hc1, hc2⟩ := collect_spec _ _ _ hgrp
  -- members of the group
  have hmem : ∀ s ∈ grp, ∃ i, lo ≤ i ∧ i ≤ hi ∧ p.seg? i = some s := by
    intro s hs
    obtain ⟨i, hi', hs'⟩ := hc2 s hs
    rw [mem_irange] at hi'
    exact ⟨i, hi'.1, hi'.2, hs'⟩
  have hsgmem : sg ∈ grp := by
    obtain ⟨s, h1, h2⟩ := hc1 is (by rw [mem_irange]; exact his)
    rw [hsg] at h1
    cases h1
    exact h2
  -- the two folds
  generalize hMx : List.foldl (fun acc s => max acc (s.m4 (s.numAx - 1))) (a.m4 (a.numAx - 1)) grp = Mx at h
  generalize hMn : List.foldl (fun acc s => min acc (s.m4 0)) (a.m4 0) grp = Mn at h
  have hMnMx : Mn = -Mx := by
    rw [← hMn, ← hMx, m4_zero_neg a]
    exact foldl_min_neg _ _ _ _ (fun s _ => m4_zero_neg s)
  have hge := (foldl_max_ge (fun s => s.m4 (s.numAx - 1)) grp (a.m4 (a.numAx - 1))).2 sg hsgmem
  rw [hMx] at hge
  have hEven : Mx % 2 = 0 ∧ 0 ≤ Mx := by
    rw [← hMx]
    apply foldl_max_ind (fun x => x % 2 = 0 ∧ 0 ≤ x)
    · obtain ⟨o, ho⟩ := wf.offs lo a (by omega) hlohi ha
      exact m4_last_even_nonneg p.R a o ho (wf.pos lo a (by omega) hlohi ha)
    · intro s hs
      obtain ⟨i, h1, h2, h3⟩ := hmem s hs
      obtain ⟨o, ho⟩ := wf.offs i s h1 h2 h3
      exact m4_last_even_nonneg p.R s o ho (wf.pos i s h1 h2 h3)
  -- the m of the pair, and its range
  have hm := m4_axOf p.R sg off r1 r2 hoff hex hrd
  have hup := m4_mono sg _ _ (show sg.axOf off r1 r2 ≤ sg.numAx - 1 by omega)
  have hdn := m4_mono sg _ _ hax.1
  rw [m4_zero_neg sg] at hdn
  -- ring-difference containment
  have hrdlo : a.minRD ≤ sg.minRD := by
    rcases Int.lt_or_le lo is with hlt | hge'
    · have := wf.sorted lo is a sg (by omega) hlt his.2 ha hsg
      have := wf.rd lo a (by omega) hlohi ha
      omega
    · have : is = lo := by omega
      subst this
      rw [ha] at hsg; cases hsg; omega
  have hrdhi : sg.maxRD ≤ a1.maxRD := by
    rcases Int.lt_or_le is hi with hlt | hge'
    · have := wf.sorted is hi sg a1 his.1 hlt (by omega) hsg ha1
      have := wf.rd hi a1 hlohi (by omega) ha1
      omega
    · have : is = hi := by omega
      subst this
      rw [ha1] at hsg; cases hsg; omega
  by_cases hne : a1.maxRD = a.minRD
  · -- a single input segment holding one ring difference: the output segment is that segment
    have hlh : lo = hi := by
      rcases Int.lt_or_le lo hi with hlt | hge'
      · have := wf.sorted lo hi a a1 (by omega) hlt (by omega) ha ha1
        have := wf.rd lo a (by omega) hlohi ha
        have := wf.rd hi a1 hlohi (by omega) ha1
        omega
      · omega
    subst hlh
    have hisl : is = lo := by omega
    subst hisl
    rw [hsg] at ha ha1
    cases ha; cases ha1
    have hsrd := wf.rd is sg (by omega) (by omega) hsg
    have hMxsg : Mx = sg.m4 (sg.numAx - 1) := by
      rw [← hMx]
      apply foldl_max_ind (fun x => x = sg.m4 (sg.numAx - 1))
      · rfl
      · intro s hs
        obtain ⟨i, h1, h2, h3⟩ := hmem s hs
        have : i = is := by omega
        subst this
        rw [hsg] at h3; cases h3; rfl
    have hf : mfac sg = 2 := by
      rcases mfac_eq sg with ⟨hne', _⟩ | ⟨_, hf⟩
      · exact absurd hne hne'
      · exact hf
    have hMx2 : Mx = 2 * (sg.numAx - 1) := by rw [hMxsg, m4_def, hf]; omega
    have hpos := wf.pos is sg (by omega) (by omega) hsg
    simp only [hne, bne_self_eq_false, Bool.false_eq_true, if_false] at h
    have hnum : (Mx - Mn) * 1 = 4 * (sg.numAx - 1) := by omega
    rw [hnum] at h
    rw [Int.tmod_eq_emod_of_nonneg (by omega), Int.tdiv_eq_ediv_of_nonneg (by omega)] at h
    have : (4 * (sg.numAx - 1)) % 4 = 0 := by omega
    simp only [this, bne_self_eq_false, Bool.false_eq_true, if_false, Option.some.injEq] at h
    have hog : og = sg := by
      rw [← h]
      cases sg
      simp only [Seg.mk.injEq] at *
      refine ⟨trivial, hne.symm, by omega⟩
    subst hog
    exact ⟨off, hoff, hex, hrd.1, hrd.2, hax.1, hax.2, rfl⟩
  · -- the general case: the output segment has axial sampling ring_spacing/2
    have hb : (a1.maxRD != a.minRD) = true := by simp [hne]
    simp only [hb, if_true] at h
    have hnum : (Mx - Mn) * 2 = 4 * Mx := by omega
    rw [hnum] at h
    rw [Int.tmod_eq_emod_of_nonneg (by omega), Int.tdiv_eq_ediv_of_nonneg (by omega)] at h
    have : (4 * Mx) % 4 = 0 := by omega
    simp only [this, bne_self_eq_false, Bool.false_eq_true, if_false, Option.some.injEq] at h
    have hq : 4 * Mx / 4 = Mx := by omega
    rw [hq] at h
    subst h
    have hinc : ({ minRD := a.minRD, maxRD := a1.maxRD, numAx := Mx + 1 } : Seg).inc = 2 := by
      unfold Seg.inc; simp [hne]
    have hfac : mfac { minRD := a.minRD, maxRD := a1.maxRD, numAx := Mx + 1 } = 1 := by
      unfold mfac; rw [hinc]; rfl
    refine ⟨p.R - 1 - Mx / 2, ?_, ?_, by simpa using (by omega : a.minRD ≤ r2 - r1), by simpa using (by omega : r2 - r1 ≤ a1.maxRD), ?_⟩
    · unfold Seg.axOff
      rw [hinc]
      simp only [Int.add_sub_cancel]
      rw [Int.tmod_eq_emod_of_nonneg hEven.2, Int.tdiv_eq_ediv_of_nonneg hEven.2]
      simp [hEven.1]
    · intro hcontra
      simp only at hcontra
      exact absurd hcontra.symm hne
    · have hoa : ({ minRD := a.minRD, maxRD := a1.maxRD, numAx := Mx + 1 } : Seg).axOf (p.R - 1 - Mx / 2) r1 r2
          = r1 + r2 - (p.R - 1 - Mx / 2) := by
        unfold Seg.axOf
        rw [hinc, Int.mul_tdiv_cancel _ (by decide)]
      rw [hoa, m4_def, hfac]
      simp only
      refine ⟨by omega, by omega, by omega⟩

end StirVerif.C15
