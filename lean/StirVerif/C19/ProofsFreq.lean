/-
C19 — proofs, part 6: `pos_frequencies_to_all` (1-D) rebuilds a Hermitian-symmetric spectrum from its
non-negative frequencies: the index map `i ↦ modulo(2n - i, 2n)` is the Hermitian partner.
-/
import StirVerif.C19.ProofsCirc

namespace StirVerif.C19

theorem posFreqToAll1_hermitian {K : Type} [Inhabited K] (conj : K → K) (n : Nat) (hn : 0 < n) (c : Array K)
    (hc : c.size = n + 1) (F : Nat → K)
    (hF : ∀ i, i ≤ n → c[i]? = some (F i))
    (hherm : ∀ i, 0 < i → i ≤ n → F (2 * n - i) = conj (F i)) :
    (posFreqToAll1 conj c).size = 2 * n ∧ ∀ p, p < 2 * n → (posFreqToAll1 conj c)[p]? = some (F p) := by
  unfold posFreqToAll1
  have hn1 : c.size - 1 = n := by omega
  simp only [hn1]
  -- invariant of the loop over i
  have inv : ∀ t, t ≤ n + 1 →
      let res := (List.range t).foldl (fun (res : Array K) i =>
        let res := res.setIfInBounds i c[i]!
        if i > 0 then res.setIfInBounds (modulo (Int.ofNat (2 * n) - Int.ofNat i) (Int.ofNat (2 * n))).toNat (conj c[i]!) else res)
        (Array.replicate (2 * n) default)
      res.size = 2 * n ∧ ∀ p, p < 2 * n → (p < t ∨ 2 * n - t < p) → res[p]? = some (F p) := by
    intro t
    induction t with
    | zero => intro _; exact ⟨by simp, fun p hp h => by omega⟩
    | succ t ih =>
      intro ht
      obtain ⟨hsz, hget⟩ := ih (by omega)
      rw [List.range_succ, List.foldl_append]
      simp only [List.foldl_cons, List.foldl_nil]
      generalize (List.range t).foldl (fun (res : Array K) i =>
        let res := res.setIfInBounds i c[i]!
        if i > 0 then res.setIfInBounds (modulo (Int.ofNat (2 * n) - Int.ofNat i) (Int.ofNat (2 * n))).toNat (conj c[i]!) else res)
        (Array.replicate (2 * n) default) = res at hsz hget ⊢
      have hct : c[t]! = F t := by
        have := hF t (by omega)
        rw [getElem!_pos c t (by omega)]
        rw [Array.getElem?_eq_getElem (by omega)] at this
        exact Option.some.inj this
      rw [hct]
      by_cases ht0 : t > 0
      · rw [if_pos ht0]
        have hmod : (modulo (Int.ofNat (2 * n) - Int.ofNat t) (Int.ofNat (2 * n))).toNat = 2 * n - t := by
          have := modulo_eq_emod (Int.ofNat (2 * n) - Int.ofNat t) (2 * n) (by omega)
          simp only [Int.ofNat_eq_natCast] at this ⊢
          rw [this, Int.emod_eq_of_lt (by omega) (by omega)]
          omega
        rw [hmod]
        refine ⟨by simp [hsz], fun p hp h => ?_⟩
        rw [Array.getElem?_setIfInBounds, Array.getElem?_setIfInBounds, Array.size_setIfInBounds, hsz]
        by_cases h1 : 2 * n - t = p
        · rw [if_pos h1, if_pos (by omega), ← h1, hherm t ht0 (by omega)]
        · rw [if_neg h1]
          by_cases h2 : t = p
          · rw [if_pos h2, if_pos (by omega), h2]
          · rw [if_neg h2]
            exact hget p hp (by omega)
      · rw [if_neg ht0]
        refine ⟨by simp [hsz], fun p hp h => ?_⟩
        rw [Array.getElem?_setIfInBounds, hsz]
        by_cases h2 : t = p
        · rw [if_pos h2, if_pos (by omega), h2]
        · rw [if_neg h2]
          exact hget p hp (by omega)
  have h := inv (n + 1) (le_refl _)
  rw [hc]
  exact ⟨h.1, fun p hp => h.2 p hp (by omega)⟩

end StirVerif.C19
