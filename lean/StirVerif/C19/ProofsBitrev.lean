/-
C19 — proofs, part 5: `bitreversal` (the `j`-counter loop of fourier.cxx) permutes the data by the bit-reversal
permutation of `0 … 2^b - 1`, which is an involution.
-/
import StirVerif.C19.Model
import Mathlib.Data.Nat.Basic
import Mathlib.Tactic.Ring
import Mathlib.Tactic.Linarith

namespace StirVerif.C19

/-- the bit reversal of the `b`-bit number `i` (lowest bit of `i` becomes the highest) -/
def rev : Nat → Nat → Nat
  | 0, _ => 0
  | b + 1, i => (i % 2) * 2 ^ b + rev b (i / 2)

theorem rev_lt (b i : Nat) : rev b i < 2 ^ b := by
  induction b generalizing i with
  | zero => simp [rev]
  | succ b ih =>
    have h := ih (i / 2)
    have h2 : i % 2 < 2 := Nat.mod_lt _ (by decide)
    simp only [rev, pow_succ]
    nlinarith

/-- the same permutation peeling the highest bit instead -/
theorem rev_succ_high (b i : Nat) : rev (b + 1) i = 2 * rev b (i % 2 ^ b) + (i / 2 ^ b) % 2 := by
  induction b generalizing i with
  | zero => simp [rev]
  | succ b ih =>
    have e1 : i % 2 ^ (b + 1) % 2 = i % 2 := Nat.mod_mod_of_dvd i (by rw [pow_succ]; exact Dvd.intro_left _ rfl)
    have e2 : i % 2 ^ (b + 1) / 2 = i / 2 % 2 ^ b := by
      rw [pow_succ, mul_comm]; exact Nat.mod_mul_right_div_self i 2 (2 ^ b)
    have e3 : i / 2 / 2 ^ b = i / 2 ^ (b + 1) := by rw [Nat.div_div_eq_div_mul, pow_succ, mul_comm]
    calc rev (b + 1 + 1) i = (i % 2) * 2 ^ (b + 1) + rev (b + 1) (i / 2) := rfl
      _ = (i % 2) * 2 ^ (b + 1) + (2 * rev b (i / 2 % 2 ^ b) + (i / 2 / 2 ^ b) % 2) := by rw [ih]
      _ = 2 * ((i % 2 ^ (b + 1) % 2) * 2 ^ b + rev b (i % 2 ^ (b + 1) / 2)) + (i / 2 ^ (b + 1)) % 2 := by
          rw [e1, e2, e3, pow_succ]; ring
      _ = 2 * rev (b + 1) (i % 2 ^ (b + 1)) + (i / 2 ^ (b + 1)) % 2 := rfl

/-- **bitReversal_involutive** (index level) -/
theorem rev_rev (b i : Nat) (hi : i < 2 ^ b) : rev b (rev b i) = i := by
  induction b generalizing i with
  | zero => simp at hi; simp [rev, hi]
  | succ b ih =>
    have hh : i / 2 < 2 ^ b := by rw [pow_succ] at hi; omega
    have hr := rev_lt b (i / 2)
    have hl : i % 2 < 2 := Nat.mod_lt _ (by decide)
    rw [rev_succ_high]
    have e1 : rev (b + 1) i % 2 ^ b = rev b (i / 2) := by
      show ((i % 2) * 2 ^ b + rev b (i / 2)) % 2 ^ b = _
      rw [Nat.mul_add_mod_of_lt hr]
    have e2 : rev (b + 1) i / 2 ^ b = i % 2 := by
      show ((i % 2) * 2 ^ b + rev b (i / 2)) / 2 ^ b = _
      rw [Nat.add_comm, Nat.add_mul_div_right _ _ (by positivity), Nat.div_eq_of_lt hr, Nat.zero_add]
    rw [e1, e2, ih _ hh, Nat.mod_mod]
    omega

/-- the `while` loop of `bitreversal` performs the reversed-carry increment -/
theorem brNext_rev (b i : Nat) (hi : i + 1 < 2 ^ b) : brNext (2 ^ b) (2 * rev b i + 1) = 2 * rev b (i + 1) + 1 := by
  unfold brNext
  induction b generalizing i with
  | zero => simp at hi
  | succ b ih =>
    have hr := rev_lt b (i / 2)
    have hpow : 2 ^ (b + 1) = 2 * 2 ^ b := by rw [pow_succ]; ring
    have hpos : 0 < 2 ^ b := by positivity
    rcases Nat.mod_two_eq_zero_or_one i with he | ho
    · -- i even: no carry
      have hrev : rev (b + 1) i = rev b (i / 2) := by simp [rev, he]
      have hrev' : rev (b + 1) (i + 1) = 2 ^ b + rev b (i / 2) := by
        have h1 : (i + 1) % 2 = 1 := by omega
        have h2 : (i + 1) / 2 = i / 2 := by omega
        simp [rev, h1, h2]
      rw [brInner, dif_neg (by rw [hrev]; omega), hrev, hrev']
      simp only []
      omega
    · -- i odd: the top bit is cleared and the loop continues one level down
      have hrev : rev (b + 1) i = 2 ^ b + rev b (i / 2) := by simp [rev, ho]
      have hrev' : rev (b + 1) (i + 1) = rev b (i / 2 + 1) := by
        have h1 : (i + 1) % 2 = 0 := by omega
        have h2 : (i + 1) / 2 = i / 2 + 1 := by omega
        simp [rev, h1, h2]
      have hi' : i / 2 + 1 < 2 ^ b := by omega
      rw [brInner, dif_pos (by rw [hrev]; omega)]
      have e1 : 2 * rev (b + 1) i + 1 - 2 ^ (b + 1) = 2 * rev b (i / 2) + 1 := by rw [hrev]; omega
      have e2 : 2 ^ (b + 1) / 2 = 2 ^ b := by omega
      rw [e1, e2, ih (i / 2) hi', hrev']

/-- swapping two valid positions, read through `[·]?` -/
theorem getElem?_swapIfInBounds' {K : Type} (xs : Array K) (i j k : Nat) (hi : i < xs.size) (hj : j < xs.size) :
    (xs.swapIfInBounds i j)[k]? = if k = i then xs[j]? else if k = j then xs[i]? else xs[k]? := by
  unfold Array.swapIfInBounds
  rw [dif_pos hi, dif_pos hj, Array.getElem?_swap]
  by_cases h1 : k = i
  · subst h1
    by_cases h2 : j = k
    · subst h2; simp
    · simp [h2, hj]
  · by_cases h2 : k = j
    · subst h2; simp [h1, hi]
    · have : ¬ j = k := fun h => h2 h.symm
      have : ¬ i = k := fun h => h1 h.symm
      simp [*]

/-- state of the `for (i …)` loop of `bitreversal` after `t` iterations -/
theorem bitReversal_loop {K : Type} (b : Nat) (a : Array K) (ha : a.size = 2 ^ b) (t : Nat) (ht : t ≤ 2 ^ b) :
    let st := (List.range t).foldl (fun (st : Nat × Array K) i =>
      (brNext a.size st.1, if st.1 / 2 > i then st.2.swapIfInBounds (st.1 / 2) i else st.2)) (1, a)
    (t < 2 ^ b → st.1 = 2 * rev b t + 1) ∧ st.2.size = 2 ^ b ∧
      ∀ p, p < 2 ^ b → st.2[p]? = if p < t ∨ rev b p < t then a[rev b p]? else a[p]? := by
  induction t with
  | zero =>
    refine ⟨fun h => ?_, ha, fun p _ => by simp⟩
    have : rev b 0 = 0 := by
      clear h ha ht
      induction b with
      | zero => rfl
      | succ b ih => simp [rev, ih]
    simp [this]
  | succ t ih =>
    obtain ⟨hj, hsz, hget⟩ := ih (by omega)
    have htl : t < 2 ^ b := by omega
    rw [List.range_succ, List.foldl_append]
    simp only [List.foldl_cons, List.foldl_nil]
    generalize (List.range t).foldl (fun (st : Nat × Array K) i =>
      (brNext a.size st.1, if st.1 / 2 > i then st.2.swapIfInBounds (st.1 / 2) i else st.2)) (1, a) = st at hj hsz hget ⊢
    have hj' := hj htl
    have hq : st.1 / 2 = rev b t := by omega
    have hrl := rev_lt b t
    refine ⟨fun h => ?_, ?_, ?_⟩
    · show brNext a.size st.1 = _
      rw [ha, hj', brNext_rev b t h]
    · show (if st.1 / 2 > t then st.2.swapIfInBounds (st.1 / 2) t else st.2).size = _
      split
      · rw [Array.size_swapIfInBounds, hsz]
      · exact hsz
    · intro p hp
      show (if st.1 / 2 > t then st.2.swapIfInBounds (st.1 / 2) t else st.2)[p]? = _
      rw [hq]
      by_cases hgt : rev b t > t
      · rw [if_pos hgt, getElem?_swapIfInBounds' _ _ _ _ (by omega) (by omega)]
        have hrr : rev b (rev b t) = t := rev_rev b t htl
        by_cases h1 : p = rev b t
        · -- position rev t receives the old element of position t, which is data[t] = data[rev (rev t)]
          rw [if_pos h1, hget t htl, if_neg (by omega)]
          subst h1
          rw [hrr, if_pos (by omega)]
        · by_cases h2 : p = t
          · rw [if_neg h1, if_pos h2, hget _ hrl, if_neg (by rw [hrr]; omega)]
            subst h2
            rw [if_pos (by omega)]
          · rw [if_neg h1, if_neg h2, hget p hp]
            have hne : rev b p ≠ t := by
              intro h; apply h1; rw [← h, rev_rev b p hp]
            by_cases h3 : p < t ∨ rev b p < t
            · rw [if_pos h3, if_pos (by omega)]
            · rw [if_neg h3, if_neg (by omega)]
      · rw [if_neg hgt, hget p hp]
        by_cases h3 : p < t ∨ rev b p < t
        · rw [if_pos h3, if_pos (by omega)]
        · rw [if_neg h3]
          by_cases h4 : p = t
          · subst h4
            have : rev b p = p := by omega
            rw [if_pos (by omega), this]
          · have hne : rev b p ≠ t := by
              intro h
              have := rev_rev b p hp
              rw [h] at this
              omega
            rw [if_neg (by omega)]

/-- **bitReversal_perm**: for a power-of-two length the loop moves `data[rev p]` to position `p` -/
theorem bitReversal_getElem? {K : Type} (b : Nat) (a : Array K) (ha : a.size = 2 ^ b) (p : Nat) (hp : p < 2 ^ b) :
    (bitReversal a).size = 2 ^ b ∧ (bitReversal a)[p]? = a[rev b p]? := by
  have h := bitReversal_loop b a ha (2 ^ b) (le_refl _)
  unfold bitReversal
  rw [ha]
  rw [ha] at h
  refine ⟨h.2.1, ?_⟩
  rw [h.2.2 p hp, if_pos (Or.inl hp)]

end StirVerif.C19
