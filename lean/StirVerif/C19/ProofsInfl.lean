/-
C19 — proofs, part 8: the index-range queries of the filter classes (`get_influencing_indices`, `get_influenced_indices`)
are sound for the filters they belong to, and `set_padding_range` recovers the padding range from the index range of a
kernel in frequency space.
-/
import StirVerif.C19.Proofs

namespace StirVerif.C19
open Finset

theorem influencedRange_eq (kr inp : R) :
    influencedRange kr inp = if kr.hi + 1 - kr.lo = 0 then inp else ⟨inp.lo + kr.lo, inp.hi + kr.hi⟩ := by
  unfold influencedRange R.len
  by_cases h : kr.hi + 1 - kr.lo = 0 <;> simp [h]

theorem influencingRange_eq (kr out : R) :
    influencingRange kr out = if kr.hi + 1 - kr.lo = 0 then out else ⟨out.lo - kr.hi, out.hi - kr.lo⟩ := by
  unfold influencingRange R.len
  by_cases h : kr.hi + 1 - kr.lo = 0 <;> simp [h]

section
variable {K : Type} [CommSemiring K] [DecidableEq K]

/-! ### 1-D -/

/-- zero boundary condition: an output index outside `get_influenced_indices(input range)` holds 0 -/
theorem arrayFilter1DAt_zero_outside_influenced (jmin jmax : Int) (k : Int → K) (inMin inMax : Int) (x : Int → K) (i : Int)
    (h : ¬ ((influencedRange ⟨jmin, jmax⟩ ⟨inMin, inMax⟩).lo ≤ i ∧ i ≤ (influencedRange ⟨jmin, jmax⟩ ⟨inMin, inMax⟩).hi)) :
    arrayFilter1DAt .zero jmin jmax k inMin inMax x i = some 0 := by
  rw [arrayFilter1DAt_zero, influencedRange_eq] at *
  by_cases hl : jmax + 1 - jmin = 0
  · simp only [hl, if_true] at h ⊢
    unfold ext
    rw [if_neg h]
  · simp only [hl, if_false] at h ⊢
    congr 1
    refine Finset.sum_eq_zero fun j hj => ?_
    rw [mem_Icc] at hj
    unfold ext
    rw [if_neg (by omega), mul_zero]

/-- constant boundary condition: an output index outside `get_influenced_indices(input range)` holds
    (kernel sum) × (the edge element on that side) — the value of data that are "not there" -/
theorem arrayFilter1DAt_constant_outside_influenced (jmin jmax : Int) (k : Int → K) (inMin inMax : Int) (x : Int → K) (i : Int)
    (hin : inMin ≤ inMax)
    (h : ¬ ((influencedRange ⟨jmin, jmax⟩ ⟨inMin, inMax⟩).lo ≤ i ∧ i ≤ (influencedRange ⟨jmin, jmax⟩ ⟨inMin, inMax⟩).hi)) :
    arrayFilter1DAt .constant jmin jmax k inMin inMax x i =
      some ((if jmax + 1 - jmin = 0 then 1 else ∑ j ∈ Icc jmin jmax, k j) *
        x (if i < (influencedRange ⟨jmin, jmax⟩ ⟨inMin, inMax⟩).lo then inMin else inMax)) := by
  rw [arrayFilter1DAt_constant _ _ _ _ _ _ _ hin]
  rw [influencedRange_eq] at *
  by_cases hl : jmax + 1 - jmin = 0
  · simp only [hl, if_true] at h ⊢
    rw [one_mul]
    congr 2
    unfold clamp
    split_ifs <;> omega
  · simp only [hl, if_false] at h ⊢
    rw [Finset.sum_mul]
    congr 1
    refine Finset.sum_congr rfl fun j hj => ?_
    rw [mem_Icc] at hj
    congr 2
    unfold clamp
    split_ifs <;> omega

/-- zero boundary condition: the outputs on `outMin..outMax` only depend on the input inside
    `get_influencing_indices(outMin..outMax)` -/
theorem arrayFilter1DAt_zero_congr_influencing (jmin jmax : Int) (k : Int → K) (inMin inMax : Int) (x x' : Int → K)
    (outMin outMax i : Int) (hi : outMin ≤ i ∧ i ≤ outMax)
    (hx : ∀ m, (influencingRange ⟨jmin, jmax⟩ ⟨outMin, outMax⟩).lo ≤ m → m ≤ (influencingRange ⟨jmin, jmax⟩ ⟨outMin, outMax⟩).hi →
      inMin ≤ m → m ≤ inMax → x m = x' m) :
    arrayFilter1DAt .zero jmin jmax k inMin inMax x i = arrayFilter1DAt .zero jmin jmax k inMin inMax x' i := by
  rw [arrayFilter1DAt_zero, arrayFilter1DAt_zero]
  rw [influencingRange_eq] at hx
  congr 1
  by_cases hl : jmax + 1 - jmin = 0
  · simp only [hl, if_true] at hx ⊢
    unfold ext
    split_ifs with hm
    · exact hx i hi.1 hi.2 hm.1 hm.2
    · rfl
  · simp only [hl, if_false] at hx ⊢
    refine Finset.sum_congr rfl fun j hj => ?_
    rw [mem_Icc] at hj
    unfold ext
    split_ifs with hm
    · rw [hx (i - j) (by omega) (by omega) hm.1 hm.2]
    · rfl

/-- constant boundary condition: the same for the input extended by its edge elements (an edge element stands for
    every index beyond it) -/
theorem arrayFilter1DAt_constant_congr_influencing (jmin jmax : Int) (k : Int → K) (inMin inMax : Int) (x x' : Int → K)
    (outMin outMax i : Int) (hin : inMin ≤ inMax) (hi : outMin ≤ i ∧ i ≤ outMax)
    (hx : ∀ m, (influencingRange ⟨jmin, jmax⟩ ⟨outMin, outMax⟩).lo ≤ m → m ≤ (influencingRange ⟨jmin, jmax⟩ ⟨outMin, outMax⟩).hi →
      x (clamp inMin inMax m) = x' (clamp inMin inMax m)) :
    arrayFilter1DAt .constant jmin jmax k inMin inMax x i = arrayFilter1DAt .constant jmin jmax k inMin inMax x' i := by
  rw [arrayFilter1DAt_constant _ _ _ _ _ _ _ hin, arrayFilter1DAt_constant _ _ _ _ _ _ _ hin]
  rw [influencingRange_eq] at hx
  congr 1
  by_cases hl : jmax + 1 - jmin = 0
  · simp only [hl, if_true] at hx ⊢
    exact hx i hi.1 hi.2
  · simp only [hl, if_false] at hx ⊢
    refine Finset.sum_congr rfl fun j hj => ?_
    rw [mem_Icc] at hj
    rw [hx (i - j) (by omega) (by omega)]

omit [DecidableEq K] in
/-- the influenced range is attained (it is the union of the supports of the PSF): the response to a unit impulse at
    `p` holds the first / last kernel coefficient at the two ends of `get_influenced_indices(p..p)` -/
theorem conv1dZeroAt_impulse_ends (jmin jmax : Int) (k : Int → K) (p : Int) (hk : jmin ≤ jmax) :
    conv1dZeroAt jmin jmax k p p (fun m => if m = p then 1 else 0) ((influencedRange ⟨jmin, jmax⟩ ⟨p, p⟩).lo) = k jmin ∧
    conv1dZeroAt jmin jmax k p p (fun m => if m = p then 1 else 0) ((influencedRange ⟨jmin, jmax⟩ ⟨p, p⟩).hi) = k jmax := by
  rw [influencedRange_eq, if_neg (by simp only; omega)]
  simp only [conv1dZeroAt_eq]
  constructor
  · rw [Finset.sum_eq_single jmin]
    · unfold ext; rw [if_pos (by omega)]; simp
    · intro j hj hne
      rw [mem_Icc] at hj
      unfold ext; rw [if_neg (by omega), mul_zero]
    · intro h; exact absurd (mem_Icc.mpr ⟨le_refl _, hk⟩) h
  · rw [Finset.sum_eq_single jmax]
    · unfold ext; rw [if_pos (by omega)]; simp
    · intro j hj hne
      rw [mem_Icc] at hj
      unfold ext; rw [if_neg (by omega), mul_zero]
    · intro h; exact absurd (mem_Icc.mpr ⟨hk, le_refl _⟩) h

/-! ### 2-D and 3-D: the queries concern the OUTER index -/

theorem isTrivial2D_iff (kr0 : R) (k : Int → Int → K) :
    isTrivial2D kr0 k = true ↔ kr0.hi + 1 - kr0.lo = 0 ∨ (kr0.hi + 1 - kr0.lo = 1 ∧ kr0.lo = 0 ∧ k 0 0 = 1) := by
  unfold isTrivial2D R.len
  simp only [Bool.or_eq_true, Bool.and_eq_true, beq_iff_eq, and_assoc]

theorem isTrivial3D_iff (kr0 : R) (k : Int → Int → Int → K) :
    isTrivial3D kr0 k = true ↔ kr0.hi + 1 - kr0.lo = 0 ∨ (kr0.hi + 1 - kr0.lo = 1 ∧ kr0.lo = 0 ∧ k 0 0 0 = 1) := by
  unfold isTrivial3D R.len
  simp only [Bool.or_eq_true, Bool.and_eq_true, beq_iff_eq, and_assoc]

theorem mem_iff (r : R) (i : Int) : r.mem i = true ↔ r.lo ≤ i ∧ i ≤ r.hi := by
  unfold R.mem
  simp only [Bool.and_eq_true, decide_eq_true_eq]

theorem arrayFilter2DAt_outside_influenced (kr0 kr1 : R) (k : Int → Int → K) (ir0 ir1 : R) (x : Int → Int → K) (y xx : Int)
    (h : ¬ ((influencedRange kr0 ir0).lo ≤ y ∧ y ≤ (influencedRange kr0 ir0).hi)) :
    arrayFilter2DAt kr0 kr1 k ir0 ir1 x y xx = 0 := by
  rw [influencedRange_eq] at h
  unfold arrayFilter2DAt
  by_cases ht : isTrivial2D kr0 k = true
  · rw [if_pos ht]
    have hy : ¬ (ir0.lo ≤ y ∧ y ≤ ir0.hi) := by
      rcases (isTrivial2D_iff kr0 k).mp ht with h0 | ⟨h1, h2, _⟩
      · simpa only [h0, if_true] using h
      · rw [if_neg (by omega)] at h
        simp only at h
        omega
    have : ir0.mem y = false := by
      rw [← Bool.not_eq_true, mem_iff]; exact hy
    rw [this]
    simp
  · rw [if_neg ht, conv2dAt_eq]
    have hl : ¬ (kr0.hi + 1 - kr0.lo = 0) := fun h0 => ht ((isTrivial2D_iff kr0 k).mpr (Or.inl h0))
    rw [if_neg hl] at h
    simp only at h
    refine Finset.sum_eq_zero fun j hj => Finset.sum_eq_zero fun i _ => ?_
    rw [mem_Icc] at hj
    unfold ext2
    rw [if_neg (by omega), mul_zero]

theorem arrayFilter2DAt_congr_influencing (kr0 kr1 : R) (k : Int → Int → K) (ir0 ir1 : R) (x x' : Int → Int → K)
    (or0 : R) (y xx : Int) (hy : or0.lo ≤ y ∧ y ≤ or0.hi)
    (hx : ∀ a b, (influencingRange kr0 or0).lo ≤ a → a ≤ (influencingRange kr0 or0).hi → ir0.lo ≤ a → a ≤ ir0.hi → x a b = x' a b) :
    arrayFilter2DAt kr0 kr1 k ir0 ir1 x y xx = arrayFilter2DAt kr0 kr1 k ir0 ir1 x' y xx := by
  rw [influencingRange_eq] at hx
  unfold arrayFilter2DAt
  by_cases ht : isTrivial2D kr0 k = true
  · rw [if_pos ht, if_pos ht]
    by_cases hm : (ir0.mem y && ir1.mem xx) = true
    · rw [if_pos hm, if_pos hm]
      rw [Bool.and_eq_true, mem_iff] at hm
      rcases (isTrivial2D_iff kr0 k).mp ht with h0 | ⟨h1, h2, _⟩
      · rw [if_pos h0] at hx
        exact hx y xx hy.1 hy.2 hm.1.1 hm.1.2
      · rw [if_neg (by omega)] at hx
        exact hx y xx (by simp only; omega) (by simp only; omega) hm.1.1 hm.1.2
    · rw [if_neg hm, if_neg hm]
  · rw [if_neg ht, if_neg ht, conv2dAt_eq, conv2dAt_eq]
    have hl : ¬ (kr0.hi + 1 - kr0.lo = 0) := fun h0 => ht ((isTrivial2D_iff kr0 k).mpr (Or.inl h0))
    rw [if_neg hl] at hx
    refine Finset.sum_congr rfl fun j hj => Finset.sum_congr rfl fun i _ => ?_
    rw [mem_Icc] at hj
    unfold ext2
    split_ifs with hm
    · rw [hx (y - j) (xx - i) (by simp only; omega) (by simp only; omega) hm.1.1 hm.1.2]
    · rfl

theorem arrayFilter3DAt_outside_influenced (kr0 kr1 kr2 : R) (k : Int → Int → Int → K) (ir0 ir1 ir2 : R)
    (x : Int → Int → Int → K) (z y xx : Int)
    (h : ¬ ((influencedRange kr0 ir0).lo ≤ z ∧ z ≤ (influencedRange kr0 ir0).hi)) :
    arrayFilter3DAt kr0 kr1 kr2 k ir0 ir1 ir2 x z y xx = 0 := by
  rw [influencedRange_eq] at h
  unfold arrayFilter3DAt
  by_cases ht : isTrivial3D kr0 k = true
  · rw [if_pos ht]
    have hz : ¬ (ir0.lo ≤ z ∧ z ≤ ir0.hi) := by
      rcases (isTrivial3D_iff kr0 k).mp ht with h0 | ⟨h1, h2, _⟩
      · simpa only [h0, if_true] using h
      · rw [if_neg (by omega)] at h
        simp only at h
        omega
    have : ir0.mem z = false := by
      rw [← Bool.not_eq_true, mem_iff]; exact hz
    rw [this]
    simp
  · rw [if_neg ht, conv3dAt_eq]
    have hl : ¬ (kr0.hi + 1 - kr0.lo = 0) := fun h0 => ht ((isTrivial3D_iff kr0 k).mpr (Or.inl h0))
    rw [if_neg hl] at h
    simp only at h
    refine Finset.sum_eq_zero fun kk hk => Finset.sum_eq_zero fun j _ => Finset.sum_eq_zero fun i _ => ?_
    rw [mem_Icc] at hk
    unfold ext3
    rw [if_neg (by omega), mul_zero]

theorem arrayFilter3DAt_congr_influencing (kr0 kr1 kr2 : R) (k : Int → Int → Int → K) (ir0 ir1 ir2 : R)
    (x x' : Int → Int → Int → K) (or0 : R) (z y xx : Int) (hz : or0.lo ≤ z ∧ z ≤ or0.hi)
    (hx : ∀ a b c, (influencingRange kr0 or0).lo ≤ a → a ≤ (influencingRange kr0 or0).hi → ir0.lo ≤ a → a ≤ ir0.hi →
      x a b c = x' a b c) :
    arrayFilter3DAt kr0 kr1 kr2 k ir0 ir1 ir2 x z y xx = arrayFilter3DAt kr0 kr1 kr2 k ir0 ir1 ir2 x' z y xx := by
  rw [influencingRange_eq] at hx
  unfold arrayFilter3DAt
  by_cases ht : isTrivial3D kr0 k = true
  · rw [if_pos ht, if_pos ht]
    by_cases hm : (ir0.mem z && ir1.mem y && ir2.mem xx) = true
    · rw [if_pos hm, if_pos hm]
      rw [Bool.and_eq_true, Bool.and_eq_true, mem_iff] at hm
      rcases (isTrivial3D_iff kr0 k).mp ht with h0 | ⟨h1, h2, _⟩
      · rw [if_pos h0] at hx
        exact hx z y xx hz.1 hz.2 hm.1.1.1 hm.1.1.2
      · rw [if_neg (by omega)] at hx
        exact hx z y xx (by simp only; omega) (by simp only; omega) hm.1.1.1 hm.1.1.2
    · rw [if_neg hm, if_neg hm]
  · rw [if_neg ht, if_neg ht, conv3dAt_eq, conv3dAt_eq]
    have hl : ¬ (kr0.hi + 1 - kr0.lo = 0) := fun h0 => ht ((isTrivial3D_iff kr0 k).mpr (Or.inl h0))
    rw [if_neg hl] at hx
    refine Finset.sum_congr rfl fun kk hk => Finset.sum_congr rfl fun j _ => Finset.sum_congr rfl fun i _ => ?_
    rw [mem_Icc] at hk
    unfold ext3
    split_ifs with hm
    · rw [hx (z - kk) (y - j) (xx - i) (by simp only; omega) (by simp only; omega) hm.1.1 hm.1.2]
    · rfl

end

/-! ### kernel in frequency space: `set_padding_range` inverts the index-range map of `fourier_for_real_data` -/

theorem mapLast_append_singleton {α : Type} (f : α → α) (init : List α) (a : α) :
    mapLast f (init ++ [a]) = init ++ [f a] := by
  induction init with
  | nil => rfl
  | cons b rest ih =>
    cases rest with
    | nil => rfl
    | cons c rest' =>
      show b :: mapLast f ((c :: rest') ++ [a]) = _
      rw [ih]
      rfl

theorem zeroBox_append (init : List Nat) (l : Nat) :
    zeroBox (init ++ [l]) = zeroBox init ++ [⟨0, Int.ofNat l - 1⟩] := by
  unfold zeroBox
  rw [List.map_append]
  rfl

theorem zeroBox_all_lo (sizes : List Nat) : (zeroBox sizes).all (fun r => r.lo == 0) = true := by
  unfold zeroBox
  rw [List.all_eq_true]
  intro r hr
  rw [List.mem_map] at hr
  obtain ⟨n, _, rfl⟩ := hr
  rfl

/-- the padding range computed from the index range of `fourier_for_real_data(kernel)` is the kernel's own (0-based)
    index range, for every even last length ≥ 2 and arbitrary outer lengths -/
theorem setPaddingRange_freqBox (init : List Nat) (l : Nat) (hl : l % 2 = 0) (hpos : 0 < l) :
    setPaddingRange true (freqBox (zeroBox (init ++ [l]))) = some (zeroBox (init ++ [l])) := by
  unfold setPaddingRange freqBox
  rw [zeroBox_append, mapLast_append_singleton]
  have hall : ((zeroBox init ++ [(⟨0, Int.tdiv (R.len ⟨0, Int.ofNat l - 1⟩) 2⟩ : R)]).all fun r => r.lo == 0) = true := by
    rw [List.all_append, zeroBox_all_lo]
    rfl
  rw [hall, Bool.true_and, if_pos rfl, mapLast_append_singleton]
  unfold R.len
  have h1 : (Int.ofNat l - 1 + 1 - 0 : Int) = (l : Int) := by simp
  have h2 : ((l : Int)).tdiv 2 = ((l / 2 : Nat) : Int) := by
    rw [Int.tdiv_eq_ediv_of_nonneg (by omega)]
    rfl
  have h3 : 2 * ((l / 2 : Nat) : Int) - 1 = Int.ofNat l - 1 := by
    show 2 * ((l / 2 : Nat) : Int) - 1 = (l : Int) - 1
    omega
  simp only [h1, h2, h3]

/-- … hence the object built from `fourier_for_real_data(kernel)` is, in the model, the object built from the kernel -/
theorem dftFilterFreqND_eq {K : Type} [Add K] [Mul K] [Zero K] (init : List Nat) (l : Nat) (hl : l % 2 = 0) (hpos : 0 < l)
    (kp0 : List Int → K) (ibox : List R) (x : List Int → K) (obox : List R) (g : Bool) :
    dftFilterFreqND true (freqBox (zeroBox (init ++ [l]))) kp0 ibox x obox g =
      dftFilterND (zeroBox (init ++ [l])) kp0 ibox x obox g := by
  unfold dftFilterFreqND
  rw [setPaddingRange_freqBox init l hl hpos]

end StirVerif.C19
