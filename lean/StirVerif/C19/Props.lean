/-
C19 — property theorems (placeholder while the proofs are being developed).
-/
import StirVerif.C19.Model

namespace StirVerif.C19

end StirVerif.C19
