/-
C19 — "Fourier transforms invert and filters are the convolutions they claim to be".
Property theorems over the model of `Model.lean`.  All statements hold for every array length, kernel, index range and
element ring (no bounds).  That a product of DFTs, transformed back, is `L` times the circular convolution by which the
model replaces it is a theorem (`C19_convolution_theorem`, every length and primitive root).  What is NOT a theorem
here: the real-data packing trick (`fourierRealData1` / `invFourierRealData1` = the complex transforms), the n-dimensional
recursion and every `float` rounding — those links are covered by the correspondence run against the implementation only.
-/
import StirVerif.C19.Proofs
import StirVerif.C19.ProofsConvThm
import StirVerif.C19.ProofsInfl

namespace StirVerif.C19
open Finset

/-! ### filters are the convolutions they claim to be -/

/-- "filters are the convolutions they claim to be" — `ArrayFilter1DUsingConvolution::do_it`, zero boundary condition,
    arbitrary kernel / input / output index ranges: `out_i = Σ_j k_j·in_{i-j}` with zero extension (an empty kernel is the
    identity filter; the `is_trivial()` shortcut for the kernel `[1]` at index 0 agrees with the sum). -/
theorem C19_conv_index_ranges {K : Type} [CommSemiring K] [DecidableEq K]
    (jmin jmax : Int) (k : Int → K) (inMin inMax : Int) (x : Int → K) (i : Int) :
    arrayFilter1DAt .zero jmin jmax k inMin inMax x i =
      some (if jmax + 1 - jmin = 0 then ext inMin inMax x i else ∑ j ∈ Icc jmin jmax, k j * ext inMin inMax x (i - j)) :=
  arrayFilter1DAt_zero jmin jmax k inMin inMax x i

/-- "all boundary condition settings": constant boundary condition = convolution with the nearest-element extension
    (the three loops sharing the running index `j`); the periodic setting is rejected with `error()`. -/
theorem C19_conv_index_ranges_constant {K : Type} [CommSemiring K] [DecidableEq K]
    (jmin jmax : Int) (k : Int → K) (inMin inMax : Int) (x : Int → K) (i : Int) (hin : inMin ≤ inMax) :
    arrayFilter1DAt .constant jmin jmax k inMin inMax x i =
        some (if jmax + 1 - jmin = 0 then x (clamp inMin inMax i) else ∑ j ∈ Icc jmin jmax, k j * x (clamp inMin inMax (i - j)))
      ∧ arrayFilter1DAt .periodic jmin jmax k inMin inMax x i = none :=
  ⟨arrayFilter1DAt_constant jmin jmax k inMin inMax x i hin, by unfold arrayFilter1DAt; split <;> rfl⟩

/-- the loops never read outside the index ranges of kernel and input -/
theorem C19_conv_reads_in_bounds {K : Type} [CommSemiring K]
    (jmin jmax : Int) (k k' : Int → K) (inMin inMax : Int) (x x' : Int → K) (i : Int)
    (hk : ∀ j, jmin ≤ j → j ≤ jmax → k j = k' j) (hx : ∀ m, inMin ≤ m → m ≤ inMax → x m = x' m) :
    conv1dZeroAt jmin jmax k inMin inMax x i = conv1dZeroAt jmin jmax k' inMin inMax x' i :=
  conv1dZeroAt_congr jmin jmax k k' inMin inMax x x' i hk hx

/-- `ArrayFilter1DUsingConvolutionSymmetricKernel::do_it`: the convolution with the symmetrised kernel `k_{|j|}` -/
theorem C19_conv_symmetric {K : Type} [CommSemiring K]
    (jmax : Int) (k : Int → K) (inMin inMax : Int) (x : Int → K) (i : Int) (hj : 0 ≤ jmax) (hi : inMin ≤ i ∧ i ≤ inMax) :
    convSymAt jmax k inMin inMax x i = ∑ j ∈ Icc (-jmax) jmax, k |j| * ext inMin inMax x (i - j) :=
  convSymAt_eq jmax k inMin inMax x i hj hi

/-- `ArrayFilter2DUsingConvolution::do_it` is the 2-D convolution — PARTIAL: only when `is_trivial()` answers false
    (see `C19_conv2d_is_trivial_fails`: `is_trivial()` looks at the outer extent and at the coefficient at the origin only).
    Since the extension round the correspondence run also drives the in-place `operator()(Array&)` (copy, then `do_it`
    onto the input's own index range: ops `conv2ip` / `conv3ip`) and the default-constructed object, so this theorem and
    `C19_conv3d_partial` speak about those calls too (output box = input box). -/
theorem C19_conv2d_partial {K : Type} [CommSemiring K] [DecidableEq K]
    (kr0 kr1 : R) (k : Int → Int → K) (ir0 ir1 : R) (x : Int → Int → K) (y xx : Int) (h : isTrivial2D kr0 k = false) :
    arrayFilter2DAt kr0 kr1 k ir0 ir1 x y xx =
      ∑ j ∈ Icc kr0.lo kr0.hi, ∑ i ∈ Icc kr1.lo kr1.hi, k j i * ext2 ir0 ir1 x (y - j) (xx - i) :=
  arrayFilter2DAt_of_not_trivial kr0 kr1 k ir0 ir1 x y xx h

/-- the same for `ArrayFilter3DUsingConvolution::do_it` — PARTIAL for the same reason -/
theorem C19_conv3d_partial {K : Type} [CommSemiring K] [DecidableEq K]
    (kr0 kr1 kr2 : R) (k : Int → Int → Int → K) (ir0 ir1 ir2 : R) (x : Int → Int → Int → K) (z y xx : Int)
    (h : isTrivial3D kr0 k = false) :
    arrayFilter3DAt kr0 kr1 kr2 k ir0 ir1 ir2 x z y xx =
      ∑ kk ∈ Icc kr0.lo kr0.hi, ∑ j ∈ Icc kr1.lo kr1.hi, ∑ i ∈ Icc kr2.lo kr2.hi,
        k kk j i * ext3 ir0 ir1 ir2 x (z - kk) (y - j) (xx - i) :=
  arrayFilter3DAt_of_not_trivial kr0 kr1 kr2 k ir0 ir1 ir2 x z y xx h

/-- witness kernel `[[2, 1, 3]]` (outer range `0..0`, inner range `-1..1`) and input row `[1, 2, 3, 4]` -/
def witnessK2 : Int → Int → Int := fun _ i => if i == -1 then 2 else if i == 0 then 1 else 3
def witnessX2 : Int → Int → Int := fun _ b => b + 1

/-- NEGATIVE WITNESS (replayed on the implementation by the harness: known-finding key
    `conv2d3d:is_trivial-looks-only-at-outer-extent-and-coefficient-at-origin`): the 2-D filter returns the input (1)
    where the convolution it claims to be is 2·2 + 1·1 + 3·0 = 5. -/
theorem C19_conv2d_is_trivial_fails :
    arrayFilter2DAt ⟨0, 0⟩ ⟨-1, 1⟩ witnessK2 ⟨0, 0⟩ ⟨0, 3⟩ witnessX2 0 0 = 1 ∧
      conv2dAt ⟨0, 0⟩ ⟨-1, 1⟩ witnessK2 ⟨0, 0⟩ ⟨0, 3⟩ witnessX2 0 0 = 5 := by decide

/-- the 3-D class has the same defect -/
theorem C19_conv3d_is_trivial_fails :
    arrayFilter3DAt ⟨0, 0⟩ ⟨0, 0⟩ ⟨-1, 1⟩ (fun _ => witnessK2) ⟨0, 0⟩ ⟨0, 0⟩ ⟨0, 3⟩ (fun _ => witnessX2) 0 0 0 = 1 ∧
      conv3dAt ⟨0, 0⟩ ⟨0, 0⟩ ⟨-1, 1⟩ (fun _ => witnessK2) ⟨0, 0⟩ ⟨0, 0⟩ ⟨0, 3⟩ (fun _ => witnessX2) 0 0 0 = 5 := by decide

/-! ### index-range arithmetic of the filter classes (`get_influenced_indices`, `get_influencing_indices`) -/

/-- "index-range arithmetic" of `ArrayFilter1DUsingConvolution` — `get_influenced_indices` is SOUND for the filter it belongs
    to: an output element outside the range it reports for the input's index range is what the boundary condition makes of
    data that are not there: 0 (zero boundary condition), resp. (kernel sum)·(edge element of that side) (constant boundary
    condition; an empty kernel is the identity filter, "sum" 1).  Every kernel, every index range. -/
theorem C19_influenced_indices_sound {K : Type} [CommSemiring K] [DecidableEq K]
    (jmin jmax : Int) (k : Int → K) (inMin inMax : Int) (x : Int → K) (i : Int)
    (h : ¬ ((influencedRange ⟨jmin, jmax⟩ ⟨inMin, inMax⟩).lo ≤ i ∧ i ≤ (influencedRange ⟨jmin, jmax⟩ ⟨inMin, inMax⟩).hi)) :
    arrayFilter1DAt .zero jmin jmax k inMin inMax x i = some 0 ∧
    (inMin ≤ inMax → arrayFilter1DAt .constant jmin jmax k inMin inMax x i =
      some ((if jmax + 1 - jmin = 0 then 1 else ∑ j ∈ Icc jmin jmax, k j) *
        x (if i < (influencedRange ⟨jmin, jmax⟩ ⟨inMin, inMax⟩).lo then inMin else inMax))) :=
  ⟨arrayFilter1DAt_zero_outside_influenced jmin jmax k inMin inMax x i h,
   fun hin => arrayFilter1DAt_constant_outside_influenced jmin jmax k inMin inMax x i hin h⟩

/-- `get_influencing_indices` is SOUND: the outputs on `outMin..outMax` depend on the input only through its elements inside
    the range reported for `outMin..outMax` (zero boundary condition), resp. through the values of the edge-extended input
    on that range (constant boundary condition: an edge element stands for all indices beyond it). -/
theorem C19_influencing_indices_sound {K : Type} [CommSemiring K] [DecidableEq K]
    (jmin jmax : Int) (k : Int → K) (inMin inMax : Int) (x x' : Int → K) (outMin outMax i : Int) (hi : outMin ≤ i ∧ i ≤ outMax) :
    ((∀ m, (influencingRange ⟨jmin, jmax⟩ ⟨outMin, outMax⟩).lo ≤ m → m ≤ (influencingRange ⟨jmin, jmax⟩ ⟨outMin, outMax⟩).hi →
        inMin ≤ m → m ≤ inMax → x m = x' m) →
      arrayFilter1DAt .zero jmin jmax k inMin inMax x i = arrayFilter1DAt .zero jmin jmax k inMin inMax x' i) ∧
    (inMin ≤ inMax →
      (∀ m, (influencingRange ⟨jmin, jmax⟩ ⟨outMin, outMax⟩).lo ≤ m → m ≤ (influencingRange ⟨jmin, jmax⟩ ⟨outMin, outMax⟩).hi →
        x (clamp inMin inMax m) = x' (clamp inMin inMax m)) →
      arrayFilter1DAt .constant jmin jmax k inMin inMax x i = arrayFilter1DAt .constant jmin jmax k inMin inMax x' i) :=
  ⟨arrayFilter1DAt_zero_congr_influencing jmin jmax k inMin inMax x x' outMin outMax i hi,
   fun hin hx => arrayFilter1DAt_constant_congr_influencing jmin jmax k inMin inMax x x' outMin outMax i hin hi hx⟩

/-- … and the influenced range is not larger than necessary ("the union of the supports of the PSF", ArrayFunctionObject.h):
    the response to a unit impulse at `p` holds the first and the last kernel coefficient at its two ends. -/
theorem C19_influenced_indices_attained {K : Type} [CommSemiring K] (jmin jmax : Int) (k : Int → K) (p : Int) (hk : jmin ≤ jmax) :
    conv1dZeroAt jmin jmax k p p (fun m => if m = p then 1 else 0) ((influencedRange ⟨jmin, jmax⟩ ⟨p, p⟩).lo) = k jmin ∧
    conv1dZeroAt jmin jmax k p p (fun m => if m = p then 1 else 0) ((influencedRange ⟨jmin, jmax⟩ ⟨p, p⟩).hi) = k jmax :=
  conv1dZeroAt_impulse_ends jmin jmax k p hk

/-- the same two soundness statements for `ArrayFilter2DUsingConvolution` (whose queries concern the OUTER index `y`),
    for the filter as coded including its `is_trivial()` shortcut — at full strength (the shortcut, although it misjudges
    kernels, does not read outside the reported ranges). -/
theorem C19_influence_ranges_sound_2d {K : Type} [CommSemiring K] [DecidableEq K]
    (kr0 kr1 : R) (k : Int → Int → K) (ir0 ir1 : R) (x x' : Int → Int → K) (or0 : R) (y xx : Int) :
    (¬ ((influencedRange kr0 ir0).lo ≤ y ∧ y ≤ (influencedRange kr0 ir0).hi) → arrayFilter2DAt kr0 kr1 k ir0 ir1 x y xx = 0) ∧
    (or0.lo ≤ y ∧ y ≤ or0.hi →
      (∀ a b, (influencingRange kr0 or0).lo ≤ a → a ≤ (influencingRange kr0 or0).hi → ir0.lo ≤ a → a ≤ ir0.hi → x a b = x' a b) →
      arrayFilter2DAt kr0 kr1 k ir0 ir1 x y xx = arrayFilter2DAt kr0 kr1 k ir0 ir1 x' y xx) :=
  ⟨arrayFilter2DAt_outside_influenced kr0 kr1 k ir0 ir1 x y xx,
   arrayFilter2DAt_congr_influencing kr0 kr1 k ir0 ir1 x x' or0 y xx⟩

/-- … and for `ArrayFilter3DUsingConvolution` (outer index `z`) -/
theorem C19_influence_ranges_sound_3d {K : Type} [CommSemiring K] [DecidableEq K]
    (kr0 kr1 kr2 : R) (k : Int → Int → Int → K) (ir0 ir1 ir2 : R) (x x' : Int → Int → Int → K) (or0 : R) (z y xx : Int) :
    (¬ ((influencedRange kr0 ir0).lo ≤ z ∧ z ≤ (influencedRange kr0 ir0).hi) →
      arrayFilter3DAt kr0 kr1 kr2 k ir0 ir1 ir2 x z y xx = 0) ∧
    (or0.lo ≤ z ∧ z ≤ or0.hi →
      (∀ a b c, (influencingRange kr0 or0).lo ≤ a → a ≤ (influencingRange kr0 or0).hi → ir0.lo ≤ a → a ≤ ir0.hi →
        x a b c = x' a b c) →
      arrayFilter3DAt kr0 kr1 kr2 k ir0 ir1 ir2 x z y xx = arrayFilter3DAt kr0 kr1 kr2 k ir0 ir1 ir2 x' z y xx) :=
  ⟨arrayFilter3DAt_outside_influenced kr0 kr1 kr2 k ir0 ir1 ir2 x z y xx,
   arrayFilter3DAt_congr_influencing kr0 kr1 kr2 k ir0 ir1 ir2 x x' or0 z y xx⟩

/-! ### padded-DFT route = direct route -/

/-- "Filtering through the padded-DFT route equals direct convolution with the same kernel whenever … no wrap-around can
    occur": for the model of `ArrayFilterUsingRealDFTWithPadding<1>` (wrap-around placement of the kernel, padded length
    = kernel length, data copied with `index mod padded length`, circular convolution, copied back): if the data fit into
    the padded length and every kernel coefficient that wrap-around could reach from output index `i` is zero, the
    result at `i` is `Σ_j k_j·in_{i-j}`.
    (Extension round: the same model function also answers the in-place call, op `dftfip`, and — via
    `C19_frequency_kernel_same_filter` — the objects built from a kernel in frequency space, ops `dftfq`.) -/
theorem C19_circular_eq_linear {K : Type} [CommSemiring K]
    (kmin kmax : Int) (k : Int → K) (inMin inMax : Int) (x : Int → K) (outMin outMax i : Int)
    (hf : realLenOkForward (kmax + 1 - kmin).toNat = true) (hinv : realLenOkInverse (kmax + 1 - kmin).toNat = true)
    (hpos : kmin ≤ kmax) (hfit : inMax + 1 - inMin ≤ kmax + 1 - kmin) (hi : outMin ≤ i ∧ i ≤ outMax)
    (hnowrap : ∀ m, inMin ≤ m → m ≤ inMax → ¬ (kmin ≤ i - m ∧ i - m ≤ kmax) →
      k (kmin + (i - m - kmin) % (kmax + 1 - kmin)) = 0) :
    ∃ f, dftFilter1 kmin kmax k inMin inMax x outMin outMax = some f ∧
      f i = ∑ j ∈ Icc kmin kmax, k j * ext inMin inMax x (i - j) :=
  dftFilter1_eq_direct kmin kmax k inMin inMax x outMin outMax i hf hinv hpos hfit hi hnowrap

/-- the classical sufficient condition `L > (extent of the differences i-m) + (extent of the kernel support)`: kernel
    zero outside `smin..smax`, all differences strictly between `smax - L` and `smin + L` -/
theorem C19_circular_eq_linear_of_support {K : Type} [CommSemiring K]
    (kmin kmax : Int) (k : Int → K) (inMin inMax : Int) (x : Int → K) (outMin outMax i smin smax : Int)
    (hf : realLenOkForward (kmax + 1 - kmin).toNat = true) (hinv : realLenOkInverse (kmax + 1 - kmin).toNat = true)
    (hpos : kmin ≤ kmax) (hfit : inMax + 1 - inMin ≤ kmax + 1 - kmin) (hi : outMin ≤ i ∧ i ≤ outMax)
    (hsupp : ∀ j, kmin ≤ j → j ≤ kmax → ¬ (smin ≤ j ∧ j ≤ smax) → k j = 0)
    (hlo : smax - (kmax + 1 - kmin) < i - inMax) (hhi : i - inMin < smin + (kmax + 1 - kmin)) :
    ∃ f, dftFilter1 kmin kmax k inMin inMax x outMin outMax = some f ∧
      f i = ∑ j ∈ Icc kmin kmax, k j * ext inMin inMax x (i - j) :=
  dftFilter1_eq_direct_of_support kmin kmax k inMin inMax x outMin outMax i smin smax hf hinv hpos hfit hi hsupp hlo hhi

/-- "… whenever the padded length is at least twice the data length": kernel index range centred (`-(L/2) .. L/2-1`,
    as the class documentation assumes), input and output inside a common range of `n` indices, `2n ≤ L`. -/
theorem C19_dft_route_eq_direct_of_twice {K : Type} [CommSemiring K]
    (kmin kmax : Int) (k : Int → K) (inMin inMax : Int) (x : Int → K) (outMin outMax i a n : Int)
    (hf : realLenOkForward (kmax + 1 - kmin).toNat = true) (hinv : realLenOkInverse (kmax + 1 - kmin).toNat = true)
    (hcentre : kmin = -((kmax + 1 - kmin) / 2)) (htwice : 2 * n ≤ kmax + 1 - kmin) (hn : 0 < n)
    (hin : a ≤ inMin ∧ inMax < a + n) (hout : a ≤ outMin ∧ outMax < a + n) (hi : outMin ≤ i ∧ i ≤ outMax) :
    ∃ f, dftFilter1 kmin kmax k inMin inMax x outMin outMax = some f ∧
      f i = ∑ j ∈ Icc kmin kmax, k j * ext inMin inMax x (i - j) :=
  dftFilter1_eq_direct_of_twice kmin kmax k inMin inMax x outMin outMax i a n hf hinv hcentre htwice hn hin hout hi

/-- the kernel given in FREQUENCY space (`ArrayFilterUsingRealDFTWithPadding(kernel_in_frequency_space)`,
    `set_kernel_in_frequency_space`): `set_padding_range` recovers, from the index range of
    `fourier_for_real_data(kernel)`, exactly the kernel's 0-based index range (every even last length ≥ 2, arbitrary outer
    lengths, any number of dimensions), so the model of the object built from the transformed kernel IS the model of the
    object built from the kernel — `C19_circular_eq_linear`, `…_of_support`, `…_of_twice` therefore speak about both
    constructors (the implementation side of this identity is the correspondence op `dftfq` and its oracle).
    An index range not starting at 0, or an irregular one, is rejected (`Succeeded::no`, `error()` in the constructor). -/
theorem C19_frequency_kernel_same_filter {K : Type} [Add K] [Mul K] [Zero K] (init : List Nat) (l : Nat) (hl : l % 2 = 0) (hpos : 0 < l)
    (kp0 : List Int → K) (ibox : List R) (x : List Int → K) (obox : List R) (g : Bool) :
    setPaddingRange true (freqBox (zeroBox (init ++ [l]))) = some (zeroBox (init ++ [l])) ∧
    dftFilterFreqND true (freqBox (zeroBox (init ++ [l]))) kp0 ibox x obox g =
      dftFilterND (zeroBox (init ++ [l])) kp0 ibox x obox g :=
  ⟨setPaddingRange_freqBox init l hl hpos, dftFilterFreqND_eq init l hl hpos kp0 ibox x obox g⟩

/-- NEGATIVE WITNESS: "padded length ≥ 2 × data length" alone is not sufficient when the kernel's index range is not
    centred: kernel `[1,1,1,1]` on `0..3`, data `[1,1]` on `0..1`; the padded-DFT route gives 2 at output index 0
    (the coefficient at index 3 is reached by wrap-around from the difference -1), direct convolution gives 1. -/
theorem C19_twice_alone_insufficient :
    (dftFilter1 0 3 (fun _ => (1 : Int)) 0 1 (fun _ => 1) 0 1).map (fun f => f 0) = some 2 ∧
      conv1dZeroAt 0 3 (fun _ => (1 : Int)) 0 1 (fun _ => 1) 0 = 1 := by decide

/-- NEGATIVE WITNESS (replayed on the implementation: known-finding key
    `real-inverse:last-dimension-of-length-2-rejected`): a last dimension of length 2 is accepted by the forward
    real-data transform and rejected by the inverse one, so the padded-DFT filter with a kernel of length 2 is an error. -/
theorem C19_real_inverse_length2_fails :
    realLenOkForward 2 = true ∧ realLenOkInverse 2 = false ∧
      (dftFilter1 0 1 (fun _ => (1 : Int)) 0 0 (fun _ => 1) 0 0).isNone = true := by decide

/-! ### separable filters -/

/-- "separable filters equal the successive one-dimensional filters in any axis order" (finite Fubini): for 1-D filters
    that act linearly on lines (`IsKernelOp`), all six orders of applying them along the three axes give the same
    array, namely `Σ A0·A1·A2·x`; `separable3` (the order used by `SeparableArrayFunctionObject`) is the first. -/
theorem C19_separable_any_order {K : Type} [CommSemiring K] {f0 f1 f2 : Line1 K} {r0 r1 r2 : R} {A0 A1 A2 : Int → Int → K}
    (h0 : IsKernelOp f0 r0.lo r0.hi A0) (h1 : IsKernelOp f1 r1.lo r1.hi A1) (h2 : IsKernelOp f2 r2.lo r2.hi A2)
    (x : Int → Int → Int → K) (a b c : Int) (ha : r0.lo ≤ a ∧ a ≤ r0.hi) (hb : r1.lo ≤ b ∧ b ≤ r1.hi) (hc : r2.lo ≤ c ∧ c ≤ r2.hi) :
    separable3 f0 f1 f2 r0 r1 r2 x a b c = sepClosed A0 A1 A2 r0 r1 r2 x a b c ∧
    sepAxis1 f1 r1 (sepAxis2 f2 r2 (sepAxis0 f0 r0 x)) a b c = sepClosed A0 A1 A2 r0 r1 r2 x a b c ∧
    sepAxis2 f2 r2 (sepAxis0 f0 r0 (sepAxis1 f1 r1 x)) a b c = sepClosed A0 A1 A2 r0 r1 r2 x a b c ∧
    sepAxis0 f0 r0 (sepAxis2 f2 r2 (sepAxis1 f1 r1 x)) a b c = sepClosed A0 A1 A2 r0 r1 r2 x a b c ∧
    sepAxis1 f1 r1 (sepAxis0 f0 r0 (sepAxis2 f2 r2 x)) a b c = sepClosed A0 A1 A2 r0 r1 r2 x a b c ∧
    sepAxis0 f0 r0 (sepAxis1 f1 r1 (sepAxis2 f2 r2 x)) a b c = sepClosed A0 A1 A2 r0 r1 r2 x a b c :=
  ⟨sep_012 h0 h1 h2 x a b c ha hb hc, sep_021 h0 h1 h2 x a b c ha hb hc, sep_102 h0 h1 h2 x a b c ha hb hc,
   sep_120 h0 h1 h2 x a b c ha hb hc, sep_201 h0 h1 h2 x a b c ha hb hc, sep_210 h0 h1 h2 x a b c ha hb hc⟩

/-- the three 1-D filter classes of the library satisfy the hypothesis of `C19_separable_any_order` -/
theorem C19_filters_are_kernel_ops {K : Type} [CommSemiring K] (jmin jmax : Int) (k : Int → K) (lo hi : Int) :
    IsKernelOp (fun lo hi x i => conv1dZeroAt jmin jmax k lo hi x i) lo hi (fun i m => ext jmin jmax k (i - m)) ∧
    (lo ≤ hi → IsKernelOp (fun lo hi x i => conv1dConstAt jmin jmax k lo hi x i) lo hi
      (fun i m => ∑ j ∈ Icc jmin jmax, if clamp lo hi (i - j) = m then k j else 0)) ∧
    (0 ≤ jmax → IsKernelOp (fun lo hi x i => convSymAt jmax k lo hi x i) lo hi (fun i m => ext (-jmax) jmax (fun j => k |j|) (i - m))) :=
  ⟨conv1dZero_isKernelOp jmin jmax k lo hi, conv1dConst_isKernelOp jmin jmax k lo hi, convSym_isKernelOp jmax k lo hi⟩

/-! ### kernels summing to one preserve the mean -/

/-- "filters whose kernel sums to one … preserve the mean of data that is constant over the kernel support": where the
    data equal `c` on the kernel support around `i` (inside the input range), the output is `(Σ_j k_j)·c`, i.e. `c` for
    a unit-sum kernel. -/
theorem C19_unit_sum_preserves_mean {K : Type} [CommSemiring K]
    (jmin jmax : Int) (k : Int → K) (inMin inMax : Int) (x : Int → K) (i : Int) (c : K)
    (hc : ∀ j, jmin ≤ j → j ≤ jmax → (inMin ≤ i - j ∧ i - j ≤ inMax) ∧ x (i - j) = c) :
    conv1dZeroAt jmin jmax k inMin inMax x i = (∑ j ∈ Icc jmin jmax, k j) * c ∧
      (∑ j ∈ Icc jmin jmax, k j = 1 → conv1dZeroAt jmin jmax k inMin inMax x i = c) :=
  ⟨conv1dZeroAt_const_on_support jmin jmax k inMin inMax x i c hc,
   fun hs => conv1dZeroAt_unit_sum jmin jmax k inMin inMax x i c hs hc⟩

/-! ### Fourier transforms -/

/-- `bitreversal` (the `j`-counter loop) applied to an array of length `2^b` moves `data[rev p]` to position `p`, for
    every `b` — it is the bit-reversal permutation … -/
theorem C19_bitReversal_perm {K : Type} (b : Nat) (a : Array K) (ha : a.size = 2 ^ b) (p : Nat) (hp : p < 2 ^ b) :
    (bitReversal a).size = 2 ^ b ∧ (bitReversal a)[p]? = a[rev b p]? ∧ rev b p < 2 ^ b :=
  ⟨(bitReversal_getElem? b a ha p hp).1, (bitReversal_getElem? b a ha p hp).2, rev_lt b p⟩

/-- … which is an involution: applying `bitreversal` twice restores the array -/
theorem C19_bitReversal_involutive {K : Type} (b : Nat) (a : Array K) (ha : a.size = 2 ^ b) (p : Nat) (hp : p < 2 ^ b) :
    rev b (rev b p) = p ∧ (bitReversal (bitReversal a))[p]? = a[p]? := by
  refine ⟨rev_rev b p hp, ?_⟩
  have h1 := bitReversal_getElem? b (bitReversal a) (bitReversal_getElem? b a ha p hp).1 p hp
  have h2 := bitReversal_getElem? b a ha (rev b p) (rev_lt b p)
  rw [h1.2, h2.2, rev_rev b p hp]

/-- "the real-data and complex-data transforms agree" — index part: `pos_frequencies_to_all` (1-D) rebuilds every
    Hermitian-symmetric spectrum `F` (`F_{2n-i} = conj F_i`) from its non-negative frequencies `0..n`. -/
theorem C19_posFreqToAll_hermitian {K : Type} [Inhabited K] (conj : K → K) (n : Nat) (hn : 0 < n) (c : Array K)
    (hc : c.size = n + 1) (F : Nat → K) (hF : ∀ i, i ≤ n → c[i]? = some (F i))
    (hherm : ∀ i, 0 < i → i ≤ n → F (2 * n - i) = conj (F i)) :
    (posFreqToAll1 conj c).size = 2 * n ∧ ∀ p, p < 2 * n → (posFreqToAll1 conj c)[p]? = some (F p) :=
  posFreqToAll1_hermitian conj n hn c hc F hF hherm

/-- "the inverse discrete Fourier transform of the forward transform returns the input" — at the level of the
    definition `r_k = Σ_j c_j ω^{jk}` (fourier.h), for every length `n` and every primitive `n`-th root of unity in an
    integral domain: transforming with `ω⁻¹` after `ω` gives `n·x` (`inverse_fourier` divides by `n`). -/
theorem C19_dft_inverse {K : Type} [CommRing K] [IsDomain K] (ω ωi : K) (n : Nat) (hω : IsPrimitiveRoot ω n) (hinv : ω * ωi = 1)
    (x : Nat → K) (j : Nat) (hj : j < n) :
    dftSpec1 (fun m => ωi ^ m) n (fun k => dftSpec1 (fun m => ω ^ m) n x k) j = (n : K) * x j :=
  dft_inverse ω ωi n hω hinv x j hj

/-- "Parseval's identity holds": `Σ_k |X_k|² = n Σ_j |x_j|²` over ℂ, any length, any primitive root (`e^{±2πi/n}`) -/
theorem C19_dft_parseval (ω : ℂ) (n : Nat) (hω : IsPrimitiveRoot ω n) (hn : n ≠ 0) (x : Nat → ℂ) :
    ∑ k ∈ range n, ‖dftSpec1 (fun m => ω ^ m) n x k‖ ^ 2 = (n : ℝ) * ∑ j ∈ range n, ‖x j‖ ^ 2 :=
  dft_parseval ω n hω hn x

/-- Plancherel in bilinear form over any integral domain -/
theorem C19_dft_plancherel {K : Type} [CommRing K] [IsDomain K] (ω ωi : K) (n : Nat) (hω : IsPrimitiveRoot ω n) (hinv : ω * ωi = 1)
    (x y : Nat → K) :
    ∑ k ∈ range n, dftSpec1 (fun m => ω ^ m) n x k * dftSpec1 (fun m => ωi ^ m) n y k = (n : K) * ∑ j ∈ range n, x j * y j :=
  dft_plancherel ω ωi n hω hinv x y

/-- "the transform of a unit impulse is constant": an impulse at `p` transforms to the phase ramp `ω^{pk}` (modulus 1),
    an impulse at the origin to the constant 1 -/
theorem C19_dft_impulse_const {K : Type} [CommRing K] (w : K) (n : Nat) (hw : w ^ n = 1) (p : Nat) (hp : p < n) (k : Nat) :
    dftSpec1 (fun m => w ^ m) n (fun j => if j = p then 1 else 0) k = w ^ (p * k) ∧
      dftSpec1 (fun m => w ^ m) n (fun j => if j = 0 then 1 else 0) k = 1 :=
  ⟨dft_impulse w n hw p hp k, dft_impulse_origin w n hw (by omega) k⟩

/-- **fft_eq_dft**: the iterative radix-2 butterfly loop of `fourier_1d` (bit reversal, then for every `k` the two inner
    loops with the table `exparray[i] = ω^{i·N/(2·2^k)}`) computes the DFT of the definition, `r_k = Σ_j c_j ω^{jk}`, for
    EVERY `nn` (length `N = 2^nn`) and every primitive `N`-th root of unity `ω` of an integral domain. -/
theorem C19_fft_eq_dft {K : Type} [CommRing K] [IsDomain K] [Inhabited K] (nn : Nat) (ω : K) (hω : IsPrimitiveRoot ω (2 ^ nn))
    (c : Array K) (hc : c.size = 2 ^ nn) :
    ∃ r, fourier1d (twiddle nn ω) c = some r ∧ r.size = 2 ^ nn ∧
      ∀ k, k < 2 ^ nn → r[k]? = some (dftSpec1 (fun m => ω ^ m) (2 ^ nn) (fun j => c[j]!) k) :=
  fourier1d_eq_dft nn ω hω c hc

/-- "the inverse discrete Fourier transform of the forward transform returns the input" — for the MODEL of the code:
    `fourier_1d` with the tables of `ω`, followed by `inverse_fourier` (`fourier_1d` with the tables of `ω⁻¹`, i.e. `-sign`,
    then division by the number of points), returns the input array, for every power-of-two length, over any field. -/
theorem C19_inverse_fourier_inverts {K : Type} [Field K] [Inhabited K] (nn : Nat) (ω ωi : K) (hω : IsPrimitiveRoot ω (2 ^ nn))
    (hinv : ω * ωi = 1) (c : Array K) (hc : c.size = 2 ^ nn) :
    ∃ r, fourier1d (twiddle nn ω) c = some r ∧
      ∃ r', inverseFourierND (twiddle nn ωi) [2 ^ nn] r = some r' ∧ r'.size = 2 ^ nn ∧ ∀ k, k < 2 ^ nn → r'[k]? = c[k]? :=
  inverse_fourier1d_inverts nn ω ωi hω hinv c hc

/-- PROVED — the discrete convolution theorem, the link between "inverse transform of the product of the two transforms"
    (what `ArrayFilterUsingRealDFTWithPadding::do_it` executes) and the circular convolution `circConv1At` by which the
    model replaces it: at the level of the definition `r_k = Σ_j c_j ω^{jk}` (fourier.h), for EVERY length `L` and every
    primitive `L`-th root of unity `ω ∈ ℂ` (`e^{±2πi/L}`), the transform with `ω⁻¹` of the pointwise product of the
    transforms with `ω` of the wrapped kernel `kp` and the wrapped data `xp` is `L · (kp ⊛ xp)`; `inverse_fourier`
    divides by `L` (`C19_convolution_theorem_inverse`).  Together with `C19_fft_eq_dft` this covers the complex
    butterfly transforms for every power-of-two length.
    STILL correspondence-only (exercised by the correspondence run within the rounding bounds, not proved): the real-data
    transforms `fourierRealData1` / `invFourierRealData1` (packing trick) agree with the complex ones, and the
    n-dimensional transforms are the iterated 1-D ones (so the n-D circular convolution `circConvNDAt` is not covered). -/
theorem C19_convolution_theorem :
  ∀ (L : Nat) (ω : ℂ), IsPrimitiveRoot ω L → ∀ (kp xp : Array ℂ), kp.size = L → xp.size = L → ∀ p, p < L →
    dftSpec1 (fun m => ω⁻¹ ^ m) L (fun q => dftSpec1 (fun m => ω ^ m) L (fun j => kp.getD j 0) q *
      dftSpec1 (fun m => ω ^ m) L (fun j => xp.getD j 0) q) p = (L : ℂ) * circConv1At L kp xp p :=
  fun L ω hω kp xp _ _ p hp => convolution_theorem L ω hω kp xp p hp

/-- the same over any integral domain with a primitive `L`-th root of unity `ω` and `ω·ωi = 1` (e.g. a finite field:
    number-theoretic transform); the array sizes are immaterial (positions beyond the size read as 0 on both sides) -/
theorem C19_convolution_theorem_domain {K : Type} [CommRing K] [IsDomain K] (ω ωi : K) (L : Nat) (hω : IsPrimitiveRoot ω L)
    (hinv : ω * ωi = 1) (kp xp : Array K) (p : Nat) (hp : p < L) :
    dftSpec1 (fun m => ωi ^ m) L (fun q => dftSpec1 (fun m => ω ^ m) L (fun j => kp.getD j 0) q *
      dftSpec1 (fun m => ω ^ m) L (fun j => xp.getD j 0) q) p = (L : K) * circConv1At L kp xp p :=
  dft_convolution_circConv ω ωi L hω hinv kp xp p hp

/-- … and with the division by the number of points that `inverse_fourier` performs, over any field in which `L ≠ 0`:
    the inverse transform of the product of the transforms IS the circular convolution -/
theorem C19_convolution_theorem_inverse {K : Type} [Field K] (ω : K) (L : Nat) (hω : IsPrimitiveRoot ω L) (hL : (L : K) ≠ 0)
    (kp xp : Array K) (p : Nat) (hp : p < L) :
    dftSpec1 (fun m => ω⁻¹ ^ m) L (fun q => dftSpec1 (fun m => ω ^ m) L (fun j => kp.getD j 0) q *
      dftSpec1 (fun m => ω ^ m) L (fun j => xp.getD j 0) q) p / (L : K) = circConv1At L kp xp p :=
  inverse_dft_of_product ω L hω hL kp xp p hp

/-! ### non-vacuity: the hypotheses are satisfiable by concrete, non-trivial instances -/

/-- index ranges: kernel on `-1..2`, input on `0..9`: influenced range `-1..11`; output `3..5` is influenced by `1..6` -/
example : influencedRange ⟨-1, 2⟩ ⟨0, 9⟩ = ⟨-1, 11⟩ ∧ influencingRange ⟨-1, 2⟩ ⟨3, 5⟩ = ⟨1, 6⟩ ∧
    influencedRange ⟨0, -1⟩ ⟨0, 9⟩ = ⟨0, 9⟩ := by decide
/-- … output index 12 is outside: 0 for the zero boundary condition, (kernel sum 10)·(last element 9) for the constant one -/
example : arrayFilter1DAt .zero (-1) 2 (fun j => j + 2) 0 9 (fun m => m) 12 = some 0 ∧
    arrayFilter1DAt .constant (-1) 2 (fun j => j + 2) 0 9 (fun m => m) 12 = some ((∑ j ∈ Icc (-1 : Int) 2, (j + 2)) * 9) := by
  have h := C19_influenced_indices_sound (-1) 2 (fun j : Int => j + 2) 0 9 (fun m => m) 12 (by decide)
  refine ⟨h.1, ?_⟩
  have h2 := h.2 (by decide)
  rw [h2]
  decide
/-- … and changing the input at index 0 (outside `1..6`) does not change the outputs `3..5` -/
example : arrayFilter1DAt .zero (-1) 2 (fun j => j + 2) 0 9 (fun m => m) 4 =
    arrayFilter1DAt .zero (-1) 2 (fun j => j + 2) 0 9 (fun m => if m = 0 then 100 else m) 4 :=
  (C19_influencing_indices_sound (-1) 2 (fun j : Int => j + 2) 0 9 (fun m => m) (fun m => if m = 0 then 100 else m) 3 5 4 (by decide)).1
    (by intro m h1 h2 _ _; have : (1 : Int) ≤ m := h1; rw [if_neg (by omega)])
/-- frequency-space kernels: the transform of a `4 × 8` kernel has index range `0..3, 0..4`, from which the padding range
    `0..3, 0..7` is recovered; a range starting at 1, and an irregular one, are rejected -/
example : freqBox (zeroBox [4, 8]) = [⟨0, 3⟩, ⟨0, 4⟩] ∧ setPaddingRange true [⟨0, 3⟩, ⟨0, 4⟩] = some [⟨0, 3⟩, ⟨0, 7⟩] ∧
    setPaddingRange true [⟨1, 4⟩, ⟨0, 4⟩] = none ∧ setPaddingRange false [⟨0, 3⟩, ⟨0, 4⟩] = none := by decide
example : setPaddingRange true (freqBox (zeroBox ([4] ++ [8]))) = some (zeroBox ([4] ++ [8])) :=
  (C19_frequency_kernel_same_filter (K := Int) [4] 8 (by decide) (by decide) (fun _ => 0) [] (fun _ => 0) [] true).1

/-- a centred kernel of length 8 (`-4..3`), data and output on `2..5` (4 ≤ 8/2 indices) -/
example : ∃ f, dftFilter1 (-4) 3 (fun j => j + 5) 2 5 (fun m => m * m) 2 5 = some f ∧
    f 3 = ∑ j ∈ Icc (-4 : Int) 3, (j + 5) * ext 2 5 (fun m => m * m) (3 - j) :=
  C19_dft_route_eq_direct_of_twice (-4) 3 _ 2 5 _ 2 5 3 2 4 (by decide) (by decide) (by decide) (by decide) (by decide)
    (by decide) (by decide) (by decide)

/-- a kernel on `0..7` supported on `0..2` only: differences up to `-5` cannot reach the support by wrap-around -/
example : ∃ f, dftFilter1 0 7 (fun j => if j ≤ 2 then j + 1 else 0) 0 3 (fun m => m + 7) 0 5 = some f ∧
    f 1 = ∑ j ∈ Icc (0 : Int) 7, (if j ≤ 2 then j + 1 else 0) * ext 0 3 (fun m => m + 7) (1 - j) :=
  C19_circular_eq_linear_of_support 0 7 _ 0 3 _ 0 5 1 0 2 (by decide) (by decide) (by decide) (by decide) (by decide)
    (by intro j h1 h2 h3; rw [if_neg (by omega)]) (by decide) (by decide)

/-- `-1` is a primitive 2nd root of unity in `ℤ`: the DFT theorems are not vacuous -/
example : IsPrimitiveRoot (-1 : ℤ) 2 ∧ (-1 : ℤ) * (-1) = 1 :=
  ⟨IsPrimitiveRoot.mk_of_lt (-1) (by decide) (by decide) (by intro l h1 h2; interval_cases l; decide), by decide⟩

/-- … and the butterfly theorem applies to it: the 2-point transform of `[3, 5]` with `ω = -1` is `[8, -2]` -/
example : ∃ r, fourier1d (twiddle 1 (-1 : ℤ)) #[3, 5] = some r ∧ r.size = 2 ^ 1 ∧
    ∀ k, k < 2 ^ 1 → r[k]? = some (dftSpec1 (fun m => (-1 : ℤ) ^ m) (2 ^ 1) (fun j => (#[3, 5] : Array ℤ)[j]!) k) :=
  C19_fft_eq_dft 1 (-1 : ℤ)
    (IsPrimitiveRoot.mk_of_lt (-1) (by decide) (by decide) (by intro l h1 h2; interval_cases l; decide)) #[3, 5] rfl
example : dftSpec1 (fun m => (-1 : ℤ) ^ m) 2 (fun j => (#[3, 5] : Array ℤ)[j]!) 0 = 8 ∧
    dftSpec1 (fun m => (-1 : ℤ) ^ m) 2 (fun j => (#[3, 5] : Array ℤ)[j]!) 1 = -2 := by decide

/-- `Complex.I` is a primitive 4th root of unity: the convolution theorem applies to the length-4 arrays `[1,2,0,-1]`,
    `[3,0,I,5]` at output index 2 … -/
example : dftSpec1 (fun m => Complex.I⁻¹ ^ m) 4 (fun q =>
      dftSpec1 (fun m => Complex.I ^ m) 4 (fun j => (#[1, 2, 0, -1] : Array ℂ).getD j 0) q *
      dftSpec1 (fun m => Complex.I ^ m) 4 (fun j => (#[3, 0, Complex.I, 5] : Array ℂ).getD j 0) q) 2
    = ((4 : Nat) : ℂ) * circConv1At 4 #[1, 2, 0, -1] #[3, 0, Complex.I, 5] 2 :=
  C19_convolution_theorem 4 Complex.I Complex.isPrimitiveRoot_I #[1, 2, 0, -1] #[3, 0, Complex.I, 5] rfl rfl 2 (by decide)

/-- … and over `ℤ` with `ω = ωi = -1`, `L = 2`, where both sides can be evaluated: `[3,5] ⊛ [2,7] = [41, 31]`, the
    transform of the product of the transforms is `[82, 62]` -/
example : dftSpec1 (fun m => (-1 : ℤ) ^ m) 2 (fun q => dftSpec1 (fun m => (-1 : ℤ) ^ m) 2 (fun j => (#[3, 5] : Array ℤ).getD j 0) q *
      dftSpec1 (fun m => (-1 : ℤ) ^ m) 2 (fun j => (#[2, 7] : Array ℤ).getD j 0) q) 1 = ((2 : Nat) : ℤ) * circConv1At 2 #[3, 5] #[2, 7] 1 :=
  C19_convolution_theorem_domain (-1 : ℤ) (-1) 2
    (IsPrimitiveRoot.mk_of_lt (-1) (by decide) (by decide) (by intro l h1 h2; interval_cases l; decide)) (by decide) #[3, 5] #[2, 7] 1 (by decide)
example : (List.range 2).map (circConv1At 2 (#[3, 5] : Array ℤ) #[2, 7]) = [41, 31] ∧
    (List.range 2).map (dftSpec1 (fun m => (-1 : ℤ) ^ m) 2 (fun q => dftSpec1 (fun m => (-1 : ℤ) ^ m) 2 (fun j => (#[3, 5] : Array ℤ).getD j 0) q *
      dftSpec1 (fun m => (-1 : ℤ) ^ m) 2 (fun j => (#[2, 7] : Array ℤ).getD j 0) q)) = [82, 62] := by decide

/-- every power-of-two length has a primitive root over ℂ (`e^{2πi/N}`): the theorems cover the lengths 2 … 1024 and beyond -/
example (nn : Nat) : IsPrimitiveRoot (Complex.exp (2 * Real.pi * Complex.I / ((2 ^ nn : Nat) : ℂ))) (2 ^ nn) :=
  Complex.isPrimitiveRoot_exp (2 ^ nn) (by positivity)

/-- data constant (= 7) on the kernel support `3-1 .. 3+1` -/
example : conv1dZeroAt (-1) 1 (fun j => if j = 0 then (2 : Int) else -1 + 1) 0 9 (fun m => if 2 ≤ m ∧ m ≤ 4 then 7 else m) 3 =
    (∑ j ∈ Icc (-1 : Int) 1, (if j = 0 then (2 : Int) else -1 + 1)) * 7 :=
  (C19_unit_sum_preserves_mean (-1) 1 _ 0 9 _ 3 7 (by intro j h1 h2; constructor; omega; rw [if_pos (by omega)])).1

/-- the bit reversal on 3 bits is the familiar `0 4 2 6 1 5 3 7`; position 1 of a reversed 4-array holds element 2 -/
example : (List.range 8).map (rev 3) = [0, 4, 2, 6, 1, 5, 3, 7] := by decide
example : (bitReversal #[10, 11, 12, 13])[1]? = some 12 := by
  have h := (C19_bitReversal_perm 2 #[10, 11, 12, 13] rfl 1 (by decide)).2.1
  rw [h]; rfl

/-- the zero-boundary filter with kernel `[1, 2]` on `0..1` is a kernel operator on the line `0..3` -/
example : IsKernelOp (fun lo hi x i => conv1dZeroAt 0 1 (fun j => j + 1) lo hi x i) 0 3 (fun i m => ext 0 1 (fun j => j + 1) (i - m)) :=
  (C19_filters_are_kernel_ops 0 1 (fun j : Int => j + 1) 0 3).1

end StirVerif.C19
