/-
C19 — proofs, part 3: the padded-DFT route.  Circular convolution of the wrapped kernel with the wrapped (zero-padded)
data equals direct convolution whenever no wrap-around can occur.
-/
import StirVerif.C19.ProofsSep

namespace StirVerif.C19
open Finset

/-- `modulo(int, int)` is the mathematical remainder for a positive modulus -/
theorem modulo_eq_emod (a : Int) (L : Nat) (hL : 0 < L) : modulo a L = a % (L : Int) := by
  have hb : (0 : Int) < L := by exact_mod_cast hL
  have h1 := Int.emod_nonneg a (ne_of_gt hb)
  have h2 := Int.emod_lt_of_pos a hb
  unfold modulo
  simp only []
  rw [Int.tmod_eq_emod]
  by_cases h : 0 ≤ a ∨ (L : Int) ∣ a
  · rw [if_pos h]
    simp only [Nat.cast_zero, sub_zero]
    rw [if_neg (by omega)]
  · rw [if_neg h]
    have : ((L : Int).natAbs : Int) = L := by simp
    rw [this, if_pos (by omega), if_pos (by omega)]
    omega

theorem modulo_toNat_lt (a : Int) (L : Nat) (hL : 0 < L) : (modulo a L).toNat < L := by
  rw [modulo_eq_emod a L hL]
  have hb : (0 : Int) < L := by exact_mod_cast hL
  have h1 := Int.emod_nonneg a (ne_of_gt hb)
  have h2 := Int.emod_lt_of_pos a hb
  omega

section
variable {K : Type} [CommSemiring K]

omit [CommSemiring K] in
/-- size of the array built by `toPeriodic1` -/
theorem foldl_setIfInBounds_size {ι : Type} (l : List ι) (pos : ι → Nat) (val : ι → K) (a : Array K) :
    (l.foldl (fun a t => a.setIfInBounds (pos t) (val t)) a).size = a.size := by
  induction l generalizing a with
  | nil => rfl
  | cons t l ih => rw [List.foldl_cons, ih, Array.size_setIfInBounds]

/-- writes at pairwise distinct positions: the value found at `p` afterwards is the sum of the written values whose
    position is `p` (at most one), or the old value -/
theorem foldl_setIfInBounds_getD (n : Nat) (pos : Nat → Nat) (val : Nat → K) (L : Nat)
    (hpos : ∀ t, t < n → pos t < L) (hinj : ∀ s t, s < n → t < n → pos s = pos t → s = t) (p : Nat) (hp : p < L) :
    (((List.range n).foldl (fun a t => a.setIfInBounds (pos t) (val t)) (Array.replicate L (0 : K))).getD p 0)
      = ∑ t ∈ range n, if pos t = p then val t else 0 := by
  induction n with
  | zero => simp [Array.getD_eq_getD_getElem?, hp]
  | succ n ih =>
    rw [List.range_succ, List.foldl_append, Finset.sum_range_succ]
    simp only [List.foldl_cons, List.foldl_nil]
    rw [Array.getD_eq_getD_getElem?, Array.getElem?_setIfInBounds]
    have hsz : ((List.range n).foldl (fun a t => a.setIfInBounds (pos t) (val t)) (Array.replicate L (0 : K))).size = L := by
      rw [foldl_setIfInBounds_size]; simp
    have ih' := ih (fun t ht => hpos t (by omega)) (fun s t hs ht => hinj s t (by omega) (by omega))
    by_cases h : pos n = p
    · rw [if_pos h, if_pos h, hsz, if_pos (hpos n (by omega))]
      have : ∑ t ∈ range n, (if pos t = p then val t else 0) = 0 := by
        refine Finset.sum_eq_zero fun t ht => ?_
        rw [mem_range] at ht
        rw [if_neg]
        intro hpt
        have := hinj t n (by omega) (by omega) (hpt.trans h.symm)
        omega
      rw [this, zero_add]; rfl
    · rw [if_neg h, if_neg h, add_zero, ← ih', Array.getD_eq_getD_getElem?]

/-- `transform_array_to_periodic_indices` for data that fit into one period: position `p` holds the sum (of at most
    one term) of the elements whose index is congruent to `p` -/
theorem toPeriodic1_getD (L : Nat) (hL : 0 < L) (lo hi : Int) (f : Int → K) (hfit : hi + 1 - lo ≤ L) (p : Nat) (hp : p < L) :
    (toPeriodic1 L lo hi f).getD p 0 = ∑ m ∈ Icc lo hi, if (m % (L : Int)).toNat = p then f m else 0 := by
  unfold toPeriodic1 loopFromTo
  have hb : (0 : Int) < L := by exact_mod_cast hL
  rw [foldl_setIfInBounds_getD (hi + 1 - lo).toNat (fun t => (modulo (lo + Int.ofNat t) L).toNat) (fun t => f (lo + Int.ofNat t)) L
      (fun t _ => modulo_toNat_lt _ L hL) ?_ p hp]
  · rw [Int.Icc_eq_finset_map, Finset.sum_map]
    refine Finset.sum_congr rfl fun t _ => ?_
    rw [modulo_eq_emod _ L hL]
    rfl
  · intro s t hs ht hst
    simp only [modulo_eq_emod _ L hL] at hst
    have h1 := Int.emod_nonneg (lo + Int.ofNat s) (ne_of_gt hb)
    have h2 := Int.emod_nonneg (lo + Int.ofNat t) (ne_of_gt hb)
    have h3 : (lo + Int.ofNat s) % (L : Int) = (lo + Int.ofNat t) % (L : Int) := by omega
    have h5 : ((L : Int)) ∣ (lo + Int.ofNat s) - (lo + Int.ofNat t) :=
      Int.dvd_of_emod_eq_zero (Int.emod_eq_emod_iff_emod_sub_eq_zero.mp h3)
    obtain ⟨c, hc⟩ := h5
    have hs' : (Int.ofNat s) < L := by simp only [Int.ofNat_eq_natCast]; omega
    have ht' : (Int.ofNat t) < L := by simp only [Int.ofNat_eq_natCast]; omega
    have hc0 : c = 0 := by
      by_contra hne
      have : c ≤ -1 ∨ 1 ≤ c := by omega
      rcases this with h | h
      · have : (L : Int) * c ≤ (L : Int) * (-1) := Int.mul_le_mul_of_nonneg_left h (le_of_lt hb)
        simp only [Int.ofNat_eq_natCast] at *
        omega
      · have : (L : Int) * 1 ≤ (L : Int) * c := Int.mul_le_mul_of_nonneg_left h (le_of_lt hb)
        simp only [Int.ofNat_eq_natCast] at *
        omega
    rw [hc0] at hc
    simp only [Int.ofNat_eq_natCast] at *
    omega

/-- `circConv1At` as a finite sum -/
theorem circConv1At_eq (L : Nat) (kp xp : Array K) (p : Nat) :
    circConv1At L kp xp p = ∑ q ∈ range L, kp.getD (modulo ((p : Int) - (q : Int)) L).toNat 0 * xp.getD q 0 := by
  unfold circConv1At
  rw [foldl_range_add (fun q => kp.getD (modulo (Int.ofNat p - Int.ofNat q) L).toNat 0 * xp.getD q 0), zero_add]
  rfl

/-- the periodic extension of a kernel with index range `kmin..kmax` of length `L`: the sum over the kernel indices
    congruent to `t` has exactly one candidate term -/
theorem periodic_kernel_sum (L : Nat) (hL : 0 < L) (kmin kmax : Int) (hk : kmax + 1 - kmin = L) (k : Int → K) (t : Int) :
    (∑ j ∈ Icc kmin kmax, if (j % (L : Int)).toNat = (t % (L : Int)).toNat then k j else 0) = k (kmin + (t - kmin) % (L : Int)) := by
  have hb : (0 : Int) < L := by exact_mod_cast hL
  have h1 := Int.emod_nonneg (t - kmin) (ne_of_gt hb)
  have h2 := Int.emod_lt_of_pos (t - kmin) hb
  rw [Finset.sum_eq_single (kmin + (t - kmin) % (L : Int))]
  · rw [if_pos]
    congr 1
    have : (kmin + (t - kmin) % (L : Int)) % (L : Int) = t % (L : Int) := by
      rw [Int.add_emod, Int.emod_emod_of_dvd _ (dvd_refl _), ← Int.add_emod]
      congr 1; ring
    rw [this]
  · intro j hj hne
    rw [mem_Icc] at hj
    rw [if_neg]
    intro heq
    apply hne
    have e1 := Int.emod_nonneg j (ne_of_gt hb)
    have e2 := Int.emod_nonneg t (ne_of_gt hb)
    have h3 : j % (L : Int) = t % (L : Int) := by omega
    have h4 : (j - kmin) % (L : Int) = (t - kmin) % (L : Int) := by
      rw [Int.sub_emod, h3, ← Int.sub_emod]
    have h5 : (j - kmin) % (L : Int) = j - kmin := Int.emod_eq_of_lt (by omega) (by omega)
    omega
  · intro hnot
    exfalso; apply hnot; rw [mem_Icc]; omega

/-- **circular_eq_linear** at the level of sums: the circular convolution of period `L` of the wrapped kernel with the
    wrapped data, read back at `i`, is the direct convolution, provided the data fit into one period and every kernel
    coefficient that would be reached by wrap-around is zero -/
theorem circular_sum_eq_linear (L : Nat) (hL : 0 < L) (kmin kmax : Int) (hk : kmax + 1 - kmin = L) (k : Int → K)
    (inMin inMax : Int) (x : Int → K) (i : Int)
    (hnowrap : ∀ m, inMin ≤ m → m ≤ inMax → ¬ (kmin ≤ i - m ∧ i - m ≤ kmax) → k (kmin + (i - m - kmin) % (L : Int)) = 0) :
    (∑ q ∈ range L,
        (∑ j ∈ Icc kmin kmax, if (j % (L : Int)).toNat = (modulo (((i % (L : Int)).toNat : Int) - (q : Int)) L).toNat then k j else 0) *
        (∑ m ∈ Icc inMin inMax, if (m % (L : Int)).toNat = q then x m else 0))
      = ∑ j ∈ Icc kmin kmax, k j * ext inMin inMax x (i - j) := by
  have hb : (0 : Int) < L := by exact_mod_cast hL
  -- collapse the sum over q
  have step1 : ∀ q ∈ range L,
      (∑ j ∈ Icc kmin kmax, if (j % (L : Int)).toNat = (modulo (((i % (L : Int)).toNat : Int) - (q : Int)) L).toNat then k j else 0) *
        (∑ m ∈ Icc inMin inMax, if (m % (L : Int)).toNat = q then x m else 0)
      = ∑ m ∈ Icc inMin inMax, if (m % (L : Int)).toNat = q then k (kmin + (i - m - kmin) % (L : Int)) * x m else 0 := by
    intro q _
    rw [Finset.mul_sum]
    refine Finset.sum_congr rfl fun m _ => ?_
    by_cases hq : (m % (L : Int)).toNat = q
    · rw [if_pos hq, if_pos hq]
      congr 1
      have e1 := Int.emod_nonneg m (ne_of_gt hb)
      have e2 := Int.emod_nonneg i (ne_of_gt hb)
      have hqm : (q : Int) = m % (L : Int) := by omega
      have hmod : modulo (((i % (L : Int)).toNat : Int) - (q : Int)) L = (i - m) % (L : Int) := by
        rw [modulo_eq_emod _ L hL, hqm, Int.toNat_of_nonneg e2, ← Int.sub_emod]
      rw [hmod, periodic_kernel_sum L hL kmin kmax hk k (i - m)]
    · rw [if_neg hq, if_neg hq, mul_zero]
  rw [Finset.sum_congr rfl step1, Finset.sum_comm]
  have step2 : ∀ m ∈ Icc inMin inMax,
      (∑ q ∈ range L, if (m % (L : Int)).toNat = q then k (kmin + (i - m - kmin) % (L : Int)) * x m else 0)
        = ext kmin kmax k (i - m) * x m := by
    intro m hm
    rw [mem_Icc] at hm
    rw [Finset.sum_ite_eq, if_pos]
    · unfold ext
      by_cases hin : kmin ≤ i - m ∧ i - m ≤ kmax
      · rw [if_pos hin]
        congr 2
        have : (i - m - kmin) % (L : Int) = i - m - kmin := Int.emod_eq_of_lt (by omega) (by omega)
        omega
      · rw [if_neg hin, hnowrap m hm.1 hm.2 hin]
    · rw [mem_range]
      have e1 := Int.emod_nonneg m (ne_of_gt hb)
      have e2 := Int.emod_lt_of_pos m hb
      omega
  rw [Finset.sum_congr rfl step2]
  -- Σ_m k~(i-m) x_m = Σ_j k_j x~(i-j)
  by_cases hio : inMin ≤ inMax
  · -- re-indexing m = i - j (as in `conv1dZero_isKernelOp`, but for an output index outside the line too)
    have e1 : ∑ j ∈ Icc kmin kmax, k j * ext inMin inMax x (i - j)
        = ∑ j ∈ (Icc kmin kmax).filter (fun j => inMin ≤ i - j ∧ i - j ≤ inMax), k j * x (i - j) := by
      rw [Finset.sum_filter]
      refine Finset.sum_congr rfl fun j _ => ?_
      unfold ext
      split_ifs <;> simp
    have e2 : ∑ m ∈ Icc inMin inMax, ext kmin kmax k (i - m) * x m
        = ∑ m ∈ (Icc inMin inMax).filter (fun m => kmin ≤ i - m ∧ i - m ≤ kmax), k (i - m) * x m := by
      rw [Finset.sum_filter]
      refine Finset.sum_congr rfl fun j _ => ?_
      unfold ext
      split_ifs <;> simp
    rw [e1, e2]
    symm
    refine Finset.sum_nbij' (fun j => i - j) (fun m => i - m) ?_ ?_ ?_ ?_ ?_
    · intro j hj; simp only [mem_filter, mem_Icc] at hj ⊢; omega
    · intro m hm; simp only [mem_filter, mem_Icc] at hm ⊢; omega
    · intro j _; omega
    · intro m _; omega
    · intro j _; rw [show i - (i - j) = j by omega]
  · rw [Finset.Icc_eq_empty (by omega), Finset.sum_empty]
    symm
    refine Finset.sum_eq_zero fun j _ => ?_
    unfold ext
    rw [if_neg (by omega), mul_zero]

/-- a 0-based array used directly as the padded array -/
theorem ofFn_getD_sum (L : Nat) (hL : 0 < L) (x : Int → K) (q : Nat) (hq : q < L) :
    (Array.ofFn (n := L) fun t => x (Int.ofNat t.val)).getD q 0
      = ∑ m ∈ Icc (0 : Int) ((L : Int) - 1), if (m % (L : Int)).toNat = q then x m else 0 := by
  have hb : (0 : Int) < L := by exact_mod_cast hL
  rw [Array.getD_eq_getD_getElem?, Array.getElem?_ofFn, dif_pos hq]
  rw [Finset.sum_eq_single (q : Int)]
  · rw [if_pos]
    · rfl
    · rw [Int.emod_eq_of_lt (by omega) (by omega)]; simp
  · intro m hm hne
    rw [mem_Icc] at hm
    rw [if_neg]
    rw [Int.emod_eq_of_lt (by omega) (by omega)]
    omega
  · intro hnot; exfalso; apply hnot; rw [mem_Icc]; omega

/-- **circular_eq_linear** for the model of `ArrayFilterUsingRealDFTWithPadding<1>`: if the transforms accept the kernel
    length, the data fit into the padded length (= kernel length) and no non-zero kernel coefficient can be reached by
    wrap-around from output index `i`, the filter returns the direct convolution `Σ_j k_j·in_{i-j}` at `i` -/
theorem dftFilter1_eq_direct (kmin kmax : Int) (k : Int → K) (inMin inMax : Int) (x : Int → K) (outMin outMax i : Int)
    (hf : realLenOkForward (kmax + 1 - kmin).toNat = true) (hinv : realLenOkInverse (kmax + 1 - kmin).toNat = true)
    (hpos : kmin ≤ kmax) (hfit : inMax + 1 - inMin ≤ kmax + 1 - kmin) (hi : outMin ≤ i ∧ i ≤ outMax)
    (hnowrap : ∀ m, inMin ≤ m → m ≤ inMax → ¬ (kmin ≤ i - m ∧ i - m ≤ kmax) →
      k (kmin + (i - m - kmin) % (kmax + 1 - kmin)) = 0) :
    ∃ f, dftFilter1 kmin kmax k inMin inMax x outMin outMax = some f ∧
      f i = ∑ j ∈ Icc kmin kmax, k j * ext inMin inMax x (i - j) := by
  unfold dftFilter1
  generalize hLdef : (kmax + 1 - kmin).toNat = L at hf hinv ⊢
  have hL : 0 < L := by omega
  have hk : kmax + 1 - kmin = (L : Int) := by omega
  have hb : (0 : Int) < L := by exact_mod_cast hL
  rw [hk] at hnowrap
  have hkp : ∀ r, r < L → (toPeriodic1 L kmin kmax k).getD r 0
      = ∑ j ∈ Icc kmin kmax, if (j % (L : Int)).toNat = r then k j else 0 :=
    fun r hr => toPeriodic1_getD L hL kmin kmax k (by omega) r hr
  have e1 := Int.emod_nonneg i (ne_of_gt hb)
  have e2 := Int.emod_lt_of_pos i hb
  simp only [hf, hinv, Bool.not_true, Bool.and_false, Bool.false_eq_true, if_false]
  split
  · -- input and output ranges are the padding range: no copy
    rename_i hsame
    simp only [Bool.and_eq_true, beq_iff_eq] at hsame
    obtain ⟨⟨⟨h1, h2⟩, h3⟩, h4⟩ := hsame
    refine ⟨_, rfl, ?_⟩
    have hiL : i % (L : Int) = i := Int.emod_eq_of_lt (by omega) (by omega)
    rw [circConv1At_eq]
    rw [← circular_sum_eq_linear L hL kmin kmax hk k inMin inMax x i hnowrap]
    refine Finset.sum_congr rfl fun q hq => ?_
    rw [mem_range] at hq
    rw [hkp _ (modulo_toNat_lt _ L hL), ofFn_getD_sum L hL x q hq, h1, h2, hiL, Int.toNat_of_nonneg (by omega)]
  · refine ⟨_, rfl, ?_⟩
    unfold fromPeriodic1At
    rw [Array.getD_eq_getD_getElem?, Array.getElem?_ofFn, dif_pos (modulo_toNat_lt _ L hL)]
    simp only [Option.getD_some]
    rw [circConv1At_eq]
    rw [← circular_sum_eq_linear L hL kmin kmax hk k inMin inMax x i hnowrap]
    refine Finset.sum_congr rfl fun q hq => ?_
    rw [mem_range] at hq
    rw [hkp _ (modulo_toNat_lt _ L hL), toPeriodic1_getD L hL inMin inMax x (by omega) q hq, modulo_eq_emod i L hL]

/-- the classical sufficient condition: the kernel vanishes outside `smin..smax` (inside its index range) and every
    difference `i - m` (`m` an input index) lies strictly between `smax - L` and `smin + L` -/
theorem dftFilter1_eq_direct_of_support (kmin kmax : Int) (k : Int → K) (inMin inMax : Int) (x : Int → K) (outMin outMax i : Int)
    (smin smax : Int)
    (hf : realLenOkForward (kmax + 1 - kmin).toNat = true) (hinv : realLenOkInverse (kmax + 1 - kmin).toNat = true)
    (hpos : kmin ≤ kmax) (hfit : inMax + 1 - inMin ≤ kmax + 1 - kmin) (hi : outMin ≤ i ∧ i ≤ outMax)
    (hsupp : ∀ j, kmin ≤ j → j ≤ kmax → ¬ (smin ≤ j ∧ j ≤ smax) → k j = 0)
    (hlo : smax - (kmax + 1 - kmin) < i - inMax) (hhi : i - inMin < smin + (kmax + 1 - kmin)) :
    ∃ f, dftFilter1 kmin kmax k inMin inMax x outMin outMax = some f ∧
      f i = ∑ j ∈ Icc kmin kmax, k j * ext inMin inMax x (i - j) := by
  refine dftFilter1_eq_direct kmin kmax k inMin inMax x outMin outMax i hf hinv hpos hfit hi ?_
  intro m hm1 hm2 hout
  have hb : (0 : Int) < kmax + 1 - kmin := by omega
  have h1 := Int.emod_nonneg (i - m - kmin) (ne_of_gt hb)
  have h2 := Int.emod_lt_of_pos (i - m - kmin) hb
  apply hsupp _ (by omega) (by omega)
  intro hin
  -- j := kmin + (i-m-kmin) % L is congruent to i-m, lies in smin..smax, and i-m lies within one period of it
  obtain ⟨c, hc⟩ : ∃ c, (i - m - kmin) - (i - m - kmin) % (kmax + 1 - kmin) = (kmax + 1 - kmin) * c :=
    ⟨(i - m - kmin) / (kmax + 1 - kmin), by have := Int.emod_add_mul_ediv (i - m - kmin) (kmax + 1 - kmin); omega⟩
  have hc0 : c = 0 := by
    by_contra hne
    have : c ≤ -1 ∨ 1 ≤ c := by omega
    rcases this with h | h
    · have : (kmax + 1 - kmin) * c ≤ (kmax + 1 - kmin) * (-1) := Int.mul_le_mul_of_nonneg_left h (le_of_lt hb)
      omega
    · have : (kmax + 1 - kmin) * 1 ≤ (kmax + 1 - kmin) * c := Int.mul_le_mul_of_nonneg_left h (le_of_lt hb)
      omega
  rw [hc0] at hc
  omega

/-- the documented use ("kernel at least twice as long as the input and output arrays", kernel index range centred,
    `-(L/2) .. L/2-1`): input and output inside a common range of `n` indices with `2 n ≤ L` -/
theorem dftFilter1_eq_direct_of_twice (kmin kmax : Int) (k : Int → K) (inMin inMax : Int) (x : Int → K) (outMin outMax i : Int)
    (a n : Int)
    (hf : realLenOkForward (kmax + 1 - kmin).toNat = true) (hinv : realLenOkInverse (kmax + 1 - kmin).toNat = true)
    (hcentre : kmin = -((kmax + 1 - kmin) / 2)) (htwice : 2 * n ≤ kmax + 1 - kmin) (_hn : 0 < n)
    (hin : a ≤ inMin ∧ inMax < a + n) (hout : a ≤ outMin ∧ outMax < a + n) (hi : outMin ≤ i ∧ i ≤ outMax) :
    ∃ f, dftFilter1 kmin kmax k inMin inMax x outMin outMax = some f ∧
      f i = ∑ j ∈ Icc kmin kmax, k j * ext inMin inMax x (i - j) := by
  refine dftFilter1_eq_direct kmin kmax k inMin inMax x outMin outMax i hf hinv (by omega) (by omega) hi ?_
  intro m hm1 hm2 hout'
  exfalso
  apply hout'
  omega

end
end StirVerif.C19
