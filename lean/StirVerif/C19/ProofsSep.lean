/-
C19 — proofs, part 2: separable filters (finite Fubini) — successive one-dimensional filters give the same
result in every axis order.
-/
import StirVerif.C19.ProofsConv

namespace StirVerif.C19
open Finset

section
variable {K : Type} [CommSemiring K]

/-- a 1-D in-place filter that acts on lines with index range `lo..hi` as the linear map with matrix `A`
    (`out_i = Σ_m A i m · in_m` for the output indices `i` of the line) -/
def IsKernelOp (f : Line1 K) (lo hi : Int) (A : Int → Int → K) : Prop :=
  ∀ (x : Int → K) (i : Int), lo ≤ i → i ≤ hi → f lo hi x i = ∑ m ∈ Icc lo hi, A i m * x m

/-- the zero-boundary convolution filter is such a map, with matrix `A i m = k_{i-m}` (zero outside the kernel range) -/
theorem conv1dZero_isKernelOp (jmin jmax : Int) (k : Int → K) (lo hi : Int) :
    IsKernelOp (fun lo hi x i => conv1dZeroAt jmin jmax k lo hi x i) lo hi (fun i m => ext jmin jmax k (i - m)) := by
  intro x i _ _
  show conv1dZeroAt jmin jmax k lo hi x i = _
  rw [conv1dZeroAt_eq]
  have e1 : ∑ j ∈ Icc jmin jmax, k j * ext lo hi x (i - j)
      = ∑ j ∈ (Icc jmin jmax).filter (fun j => lo ≤ i - j ∧ i - j ≤ hi), k j * x (i - j) := by
    rw [Finset.sum_filter]
    refine Finset.sum_congr rfl fun j _ => ?_
    unfold ext
    split_ifs <;> simp
  have e2 : ∑ m ∈ Icc lo hi, ext jmin jmax k (i - m) * x m
      = ∑ m ∈ (Icc lo hi).filter (fun m => jmin ≤ i - m ∧ i - m ≤ jmax), k (i - m) * x m := by
    rw [Finset.sum_filter]
    refine Finset.sum_congr rfl fun j _ => ?_
    unfold ext
    split_ifs <;> simp
  rw [e1, e2]
  refine Finset.sum_nbij' (fun j => i - j) (fun m => i - m) ?_ ?_ ?_ ?_ ?_
  · intro j hj; simp only [mem_filter, mem_Icc] at hj ⊢; omega
  · intro m hm; simp only [mem_filter, mem_Icc] at hm ⊢; omega
  · intro j _; omega
  · intro m _; omega
  · intro j _; rw [show i - (i - j) = j by omega]

/-- the constant-boundary convolution filter too (non-empty lines): `A i m = Σ_{j : clamp(i-j) = m} k_j` -/
theorem conv1dConst_isKernelOp (jmin jmax : Int) (k : Int → K) (lo hi : Int) (h : lo ≤ hi) :
    IsKernelOp (fun lo hi x i => conv1dConstAt jmin jmax k lo hi x i) lo hi
      (fun i m => ∑ j ∈ Icc jmin jmax, if clamp lo hi (i - j) = m then k j else 0) := by
  intro x i _ _
  show conv1dConstAt jmin jmax k lo hi x i = _
  rw [conv1dConstAt_eq _ _ _ _ _ _ _ h]
  simp_rw [Finset.sum_mul]
  rw [Finset.sum_comm]
  refine Finset.sum_congr rfl fun j _ => ?_
  have hm : clamp lo hi (i - j) ∈ Icc lo hi := by rw [mem_Icc]; unfold clamp; omega
  simp_rw [ite_mul, zero_mul]
  rw [Finset.sum_ite_eq]
  rw [if_pos hm]

/-- the symmetric-kernel filter too: `A i m = k_{|i-m|}` for `|i-m| ≤ jmax` -/
theorem convSym_isKernelOp (jmax : Int) (k : Int → K) (lo hi : Int) (hj : 0 ≤ jmax) :
    IsKernelOp (fun lo hi x i => convSymAt jmax k lo hi x i) lo hi (fun i m => ext (-jmax) jmax (fun j => k |j|) (i - m)) := by
  intro x i h1 h2
  show convSymAt jmax k lo hi x i = _
  rw [convSymAt_eq _ _ _ _ _ _ hj ⟨h1, h2⟩]
  have := conv1dZero_isKernelOp (-jmax) jmax (fun j => k |j|) lo hi x i h1 h2
  simp only [conv1dZeroAt_eq] at this
  exact this

/-! the six nestings of a triple sum -/
theorem sum3_acb {α β γ : Type} (s : Finset α) (t : Finset β) (u : Finset γ) (F : α → β → γ → K) :
    ∑ a ∈ s, ∑ c ∈ u, ∑ b ∈ t, F a b c = ∑ a ∈ s, ∑ b ∈ t, ∑ c ∈ u, F a b c :=
  Finset.sum_congr rfl fun _ _ => Finset.sum_comm
theorem sum3_bac {α β γ : Type} (s : Finset α) (t : Finset β) (u : Finset γ) (F : α → β → γ → K) :
    ∑ b ∈ t, ∑ a ∈ s, ∑ c ∈ u, F a b c = ∑ a ∈ s, ∑ b ∈ t, ∑ c ∈ u, F a b c := Finset.sum_comm
theorem sum3_bca {α β γ : Type} (s : Finset α) (t : Finset β) (u : Finset γ) (F : α → β → γ → K) :
    ∑ b ∈ t, ∑ c ∈ u, ∑ a ∈ s, F a b c = ∑ a ∈ s, ∑ b ∈ t, ∑ c ∈ u, F a b c := by
  rw [← sum3_bac s t u F]; exact Finset.sum_congr rfl fun _ _ => Finset.sum_comm
theorem sum3_cab {α β γ : Type} (s : Finset α) (t : Finset β) (u : Finset γ) (F : α → β → γ → K) :
    ∑ c ∈ u, ∑ a ∈ s, ∑ b ∈ t, F a b c = ∑ a ∈ s, ∑ b ∈ t, ∑ c ∈ u, F a b c := by
  rw [Finset.sum_comm]; exact sum3_acb s t u F
theorem sum3_cba {α β γ : Type} (s : Finset α) (t : Finset β) (u : Finset γ) (F : α → β → γ → K) :
    ∑ c ∈ u, ∑ b ∈ t, ∑ a ∈ s, F a b c = ∑ a ∈ s, ∑ b ∈ t, ∑ c ∈ u, F a b c := by
  rw [Finset.sum_comm]; exact sum3_bca s t u F

/-- the common value of all six orders: `Σ_{a'} Σ_{b'} Σ_{c'} A0 a a' · A1 b b' · A2 c c' · x a' b' c'` -/
def sepClosed (A0 A1 A2 : Int → Int → K) (r0 r1 r2 : R) (x : Int → Int → Int → K) (a b c : Int) : K :=
  ∑ a' ∈ Icc r0.lo r0.hi, ∑ b' ∈ Icc r1.lo r1.hi, ∑ c' ∈ Icc r2.lo r2.hi, A0 a a' * A1 b b' * A2 c c' * x a' b' c'

variable {f0 f1 f2 : Line1 K} {r0 r1 r2 : R} {A0 A1 A2 : Int → Int → K}

theorem sep_012 (h0 : IsKernelOp f0 r0.lo r0.hi A0) (h1 : IsKernelOp f1 r1.lo r1.hi A1) (h2 : IsKernelOp f2 r2.lo r2.hi A2)
    (x : Int → Int → Int → K) (a b c : Int) (ha : r0.lo ≤ a ∧ a ≤ r0.hi) (hb : r1.lo ≤ b ∧ b ≤ r1.hi) (hc : r2.lo ≤ c ∧ c ≤ r2.hi) :
    sepAxis2 f2 r2 (sepAxis1 f1 r1 (sepAxis0 f0 r0 x)) a b c = sepClosed A0 A1 A2 r0 r1 r2 x a b c := by
  simp only [sepAxis0, sepAxis1, sepAxis2, sepClosed]
  rw [h2 _ _ hc.1 hc.2]
  simp_rw [h1 _ _ hb.1 hb.2, h0 _ _ ha.1 ha.2, Finset.mul_sum]
  rw [sum3_cba]
  exact Finset.sum_congr rfl fun _ _ => Finset.sum_congr rfl fun _ _ => Finset.sum_congr rfl fun _ _ => by ring

theorem sep_021 (h0 : IsKernelOp f0 r0.lo r0.hi A0) (h1 : IsKernelOp f1 r1.lo r1.hi A1) (h2 : IsKernelOp f2 r2.lo r2.hi A2)
    (x : Int → Int → Int → K) (a b c : Int) (ha : r0.lo ≤ a ∧ a ≤ r0.hi) (hb : r1.lo ≤ b ∧ b ≤ r1.hi) (hc : r2.lo ≤ c ∧ c ≤ r2.hi) :
    sepAxis1 f1 r1 (sepAxis2 f2 r2 (sepAxis0 f0 r0 x)) a b c = sepClosed A0 A1 A2 r0 r1 r2 x a b c := by
  simp only [sepAxis0, sepAxis1, sepAxis2, sepClosed]
  rw [h1 _ _ hb.1 hb.2]
  simp_rw [h2 _ _ hc.1 hc.2, h0 _ _ ha.1 ha.2, Finset.mul_sum]
  rw [sum3_bca]
  exact Finset.sum_congr rfl fun _ _ => Finset.sum_congr rfl fun _ _ => Finset.sum_congr rfl fun _ _ => by ring

theorem sep_102 (h0 : IsKernelOp f0 r0.lo r0.hi A0) (h1 : IsKernelOp f1 r1.lo r1.hi A1) (h2 : IsKernelOp f2 r2.lo r2.hi A2)
    (x : Int → Int → Int → K) (a b c : Int) (ha : r0.lo ≤ a ∧ a ≤ r0.hi) (hb : r1.lo ≤ b ∧ b ≤ r1.hi) (hc : r2.lo ≤ c ∧ c ≤ r2.hi) :
    sepAxis2 f2 r2 (sepAxis0 f0 r0 (sepAxis1 f1 r1 x)) a b c = sepClosed A0 A1 A2 r0 r1 r2 x a b c := by
  simp only [sepAxis0, sepAxis1, sepAxis2, sepClosed]
  rw [h2 _ _ hc.1 hc.2]
  simp_rw [h0 _ _ ha.1 ha.2, h1 _ _ hb.1 hb.2, Finset.mul_sum]
  rw [sum3_cab]
  exact Finset.sum_congr rfl fun _ _ => Finset.sum_congr rfl fun _ _ => Finset.sum_congr rfl fun _ _ => by ring

theorem sep_120 (h0 : IsKernelOp f0 r0.lo r0.hi A0) (h1 : IsKernelOp f1 r1.lo r1.hi A1) (h2 : IsKernelOp f2 r2.lo r2.hi A2)
    (x : Int → Int → Int → K) (a b c : Int) (ha : r0.lo ≤ a ∧ a ≤ r0.hi) (hb : r1.lo ≤ b ∧ b ≤ r1.hi) (hc : r2.lo ≤ c ∧ c ≤ r2.hi) :
    sepAxis0 f0 r0 (sepAxis2 f2 r2 (sepAxis1 f1 r1 x)) a b c = sepClosed A0 A1 A2 r0 r1 r2 x a b c := by
  simp only [sepAxis0, sepAxis1, sepAxis2, sepClosed]
  rw [h0 _ _ ha.1 ha.2]
  simp_rw [h2 _ _ hc.1 hc.2, h1 _ _ hb.1 hb.2, Finset.mul_sum]
  rw [sum3_acb]
  exact Finset.sum_congr rfl fun _ _ => Finset.sum_congr rfl fun _ _ => Finset.sum_congr rfl fun _ _ => by ring

theorem sep_201 (h0 : IsKernelOp f0 r0.lo r0.hi A0) (h1 : IsKernelOp f1 r1.lo r1.hi A1) (h2 : IsKernelOp f2 r2.lo r2.hi A2)
    (x : Int → Int → Int → K) (a b c : Int) (ha : r0.lo ≤ a ∧ a ≤ r0.hi) (hb : r1.lo ≤ b ∧ b ≤ r1.hi) (hc : r2.lo ≤ c ∧ c ≤ r2.hi) :
    sepAxis1 f1 r1 (sepAxis0 f0 r0 (sepAxis2 f2 r2 x)) a b c = sepClosed A0 A1 A2 r0 r1 r2 x a b c := by
  simp only [sepAxis0, sepAxis1, sepAxis2, sepClosed]
  rw [h1 _ _ hb.1 hb.2]
  simp_rw [h0 _ _ ha.1 ha.2, h2 _ _ hc.1 hc.2, Finset.mul_sum]
  rw [sum3_bac]
  exact Finset.sum_congr rfl fun _ _ => Finset.sum_congr rfl fun _ _ => Finset.sum_congr rfl fun _ _ => by ring

theorem sep_210 (h0 : IsKernelOp f0 r0.lo r0.hi A0) (h1 : IsKernelOp f1 r1.lo r1.hi A1) (h2 : IsKernelOp f2 r2.lo r2.hi A2)
    (x : Int → Int → Int → K) (a b c : Int) (ha : r0.lo ≤ a ∧ a ≤ r0.hi) (hb : r1.lo ≤ b ∧ b ≤ r1.hi) (hc : r2.lo ≤ c ∧ c ≤ r2.hi) :
    sepAxis0 f0 r0 (sepAxis1 f1 r1 (sepAxis2 f2 r2 x)) a b c = sepClosed A0 A1 A2 r0 r1 r2 x a b c := by
  simp only [sepAxis0, sepAxis1, sepAxis2, sepClosed]
  rw [h0 _ _ ha.1 ha.2]
  simp_rw [h1 _ _ hb.1 hb.2, h2 _ _ hc.1 hc.2, Finset.mul_sum]
  exact Finset.sum_congr rfl fun _ _ => Finset.sum_congr rfl fun _ _ => Finset.sum_congr rfl fun _ _ => by ring

end
end StirVerif.C19
