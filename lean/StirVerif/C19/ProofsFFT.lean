/-
C19 — proofs, part 7: the iterative radix-2 butterfly loop `fourier_1d` computes the DFT of the definition.
-/
import StirVerif.C19.ProofsBitrev
import StirVerif.C19.ProofsDFT

namespace StirVerif.C19
open Finset

section stage
variable {K : Type} [CommRing K] [Inhabited K]

omit [CommRing K] in
theorem getElem!_setIfInBounds (a : Array K) (p : Nat) (v : K) (q : Nat) (hq : q < a.size) :
    (a.setIfInBounds p v)[q]! = if p = q then v else a[q]! := by
  rw [getElem!_pos _ q (by simpa using hq), Array.getElem_setIfInBounds (by simpa using hq), getElem!_pos a q hq]

/-- what one pass of the two inner loops of `fourier_1d` leaves at position `p` -/
def stageSpec (M : Nat) (w : Nat → K) (c : Array K) (p : Nat) : K :=
  if p % (2 * M) < M then c[p]! + c[p + M]! * w (p % (2 * M)) else -(c[p]! * w (p % (2 * M) - M)) + c[p - M]!

theorem butterfly_size (w : K) (c : Array K) (p q : Nat) : (butterfly w c p q).size = c.size := by
  unfold butterfly; simp

theorem butterfly_get (w : K) (c : Array K) (p q : Nat) (hpq : p ≠ q) (s : Nat) (hs : s < c.size) :
    (butterfly w c p q)[s]! = if s = q then -(c[q]! * w) + c[p]! else if s = p then c[p]! + c[q]! * w else c[s]! := by
  unfold butterfly
  simp only []
  rw [getElem!_setIfInBounds _ _ _ _ (by simpa using hs), getElem!_setIfInBounds _ _ _ _ hs]
  by_cases h1 : s = q
  · subst h1; simp
  · have hq : ¬ q = s := fun h => h1 h.symm
    rw [if_neg hq, if_neg h1]
    by_cases h2 : s = p
    · subst h2; simp
    · have hp : ¬ p = s := fun h => h2 h.symm
      rw [if_neg hp, if_neg h2]

/-- inner loop over `i` for one block `jb` -/
theorem stage_inner (M : Nat) (hM : 0 < M) (w : Nat → K) (c : Array K) (jb : Nat) (hjb : (jb + 1) * (2 * M) ≤ c.size)
    (t : Nat) (ht : t ≤ M) :
    let r := (List.range t).foldl (fun c i => butterfly (w i) c (i + jb * (2 * M)) (i + jb * (2 * M) + M)) c
    r.size = c.size ∧ ∀ p, p < c.size → r[p]! =
      if p / (2 * M) = jb ∧ (p % (2 * M) < t ∨ (M ≤ p % (2 * M) ∧ p % (2 * M) < M + t)) then stageSpec M w c p else c[p]! := by
  induction t with
  | zero =>
    refine ⟨rfl, fun p _ => ?_⟩
    rw [if_neg]
    · rfl
    · rintro ⟨_, h | h⟩
      · exact absurd h (Nat.not_lt_zero _)
      · omega
  | succ t ih =>
    obtain ⟨hsz, hget⟩ := ih (by omega)
    rw [List.range_succ, List.foldl_append]
    simp only [List.foldl_cons, List.foldl_nil]
    generalize (List.range t).foldl (fun c i => butterfly (w i) c (i + jb * (2 * M)) (i + jb * (2 * M) + M)) c = r at hsz hget ⊢
    have hB : (jb + 1) * (2 * M) = jb * (2 * M) + 2 * M := by ring
    have hP : t + jb * (2 * M) < c.size := by omega
    have hQ : t + jb * (2 * M) + M < c.size := by omega
    have hPd : (t + jb * (2 * M)) / (2 * M) = jb := by
      rw [Nat.add_mul_div_right _ _ (by omega), Nat.div_eq_of_lt (by omega), Nat.zero_add]
    have hPm : (t + jb * (2 * M)) % (2 * M) = t := by
      rw [Nat.add_mul_mod_self_right, Nat.mod_eq_of_lt (by omega)]
    have hQd : (t + jb * (2 * M) + M) / (2 * M) = jb := by
      rw [show t + jb * (2 * M) + M = (t + M) + jb * (2 * M) by ring, Nat.add_mul_div_right _ _ (by omega),
        Nat.div_eq_of_lt (by omega), Nat.zero_add]
    have hQm : (t + jb * (2 * M) + M) % (2 * M) = t + M := by
      rw [show t + jb * (2 * M) + M = (t + M) + jb * (2 * M) by ring, Nat.add_mul_mod_self_right, Nat.mod_eq_of_lt (by omega)]
    refine ⟨by rw [butterfly_size, hsz], fun p hp => ?_⟩
    rw [butterfly_get _ _ _ _ (by omega) p (by omega)]
    have hrP : r[t + jb * (2 * M)]! = c[t + jb * (2 * M)]! := by
      rw [hget _ hP, if_neg]; rw [hPd, hPm]; omega
    have hrQ : r[t + jb * (2 * M) + M]! = c[t + jb * (2 * M) + M]! := by
      rw [hget _ hQ, if_neg]; rw [hQd, hQm]; omega
    by_cases h1 : p = t + jb * (2 * M) + M
    · rw [if_pos h1, h1, if_pos (by rw [hQd, hQm]; omega), hrP, hrQ]
      unfold stageSpec
      rw [hQm, if_neg (by omega)]
      have e1 : t + M - M = t := by omega
      have e2 : t + jb * (2 * M) + M - M = t + jb * (2 * M) := by omega
      rw [e1, e2]
    · rw [if_neg h1]
      by_cases h2 : p = t + jb * (2 * M)
      · rw [if_pos h2, h2, if_pos (by rw [hPd, hPm]; omega), hrP, hrQ]
        unfold stageSpec
        rw [hPm, if_pos (by omega)]
      · rw [if_neg h2, hget p hp]
        have hdm := Nat.div_add_mod' p (2 * M)
        have hml : p % (2 * M) < 2 * M := Nat.mod_lt _ (by omega)
        by_cases h3 : p / (2 * M) = jb
        · rw [h3] at hdm
          by_cases h4 : p % (2 * M) < t ∨ (M ≤ p % (2 * M) ∧ p % (2 * M) < M + t)
          · rw [if_pos ⟨h3, h4⟩, if_pos ⟨h3, by omega⟩]
          · rw [if_neg (by tauto), if_neg]
            intro h5
            omega
        · rw [if_neg (by tauto), if_neg (by tauto)]

/-- **functional description of one stage** (`for j … for i … butterfly`) -/
theorem stage_get (M : Nat) (hM : 0 < M) (w : Nat → K) (c : Array K) (hdiv : 2 * M ∣ c.size) :
    (stage M w c).size = c.size ∧ ∀ p, p < c.size → (stage M w c)[p]! = stageSpec M w c p := by
  obtain ⟨nb, hnb⟩ := hdiv
  unfold stage
  have hcnt : c.size / (2 * M) = nb := by rw [hnb, Nat.mul_div_cancel_left _ (by omega)]
  rw [hcnt]
  -- outer loop over blocks
  have outer : ∀ s, s ≤ nb →
      let r := (List.range s).foldl (fun c jb =>
        (List.range M).foldl (fun c i => butterfly (w i) c (i + jb * (2 * M)) (i + jb * (2 * M) + M)) c) c
      r.size = c.size ∧ ∀ p, p < c.size → r[p]! = if p / (2 * M) < s then stageSpec M w c p else c[p]! := by
    intro s
    induction s with
    | zero => intro _; exact ⟨rfl, fun p _ => by simp⟩
    | succ s ih =>
      intro hs
      obtain ⟨hsz, hget⟩ := ih (by omega)
      rw [List.range_succ, List.foldl_append]
      simp only [List.foldl_cons, List.foldl_nil]
      generalize (List.range s).foldl (fun c jb =>
        (List.range M).foldl (fun c i => butterfly (w i) c (i + jb * (2 * M)) (i + jb * (2 * M) + M)) c) c = r at hsz hget ⊢
      have hblk : (s + 1) * (2 * M) ≤ r.size := by
        rw [hsz, hnb]; calc (s + 1) * (2 * M) ≤ nb * (2 * M) := Nat.mul_le_mul_right _ hs
          _ = 2 * M * nb := by ring
      obtain ⟨hsz', hget'⟩ := stage_inner M hM w r s hblk M (le_refl _)
      refine ⟨by rw [hsz', hsz], fun p hp => ?_⟩
      rw [hget' p (by omega)]
      have hml : p % (2 * M) < 2 * M := Nat.mod_lt _ (by omega)
      have hdm := Nat.div_add_mod' p (2 * M)
      by_cases h1 : p / (2 * M) = s
      · rw [if_pos ⟨h1, by omega⟩, if_pos (by omega)]
        -- `r` agrees with `c` on block `s`
        have hB : (s + 1) * (2 * M) = s * (2 * M) + 2 * M := by ring
        rw [h1] at hdm
        unfold stageSpec
        by_cases h2 : p % (2 * M) < M
        · rw [if_pos h2, if_pos h2, hget p hp, if_neg (by omega), hget (p + M) (by omega), if_neg]
          have : (p + M) / (2 * M) = s := by
            rw [← hdm, show s * (2 * M) + p % (2 * M) + M = (p % (2 * M) + M) + s * (2 * M) by ring,
              Nat.add_mul_div_right _ _ (by omega), Nat.div_eq_of_lt (by omega), Nat.zero_add]
          omega
        · rw [if_neg h2, if_neg h2, hget p hp, if_neg (by omega), hget (p - M) (by omega), if_neg]
          have : (p - M) / (2 * M) = s := by
            rw [← hdm, show s * (2 * M) + p % (2 * M) - M = (p % (2 * M) - M) + s * (2 * M) by omega,
              Nat.add_mul_div_right _ _ (by omega), Nat.div_eq_of_lt (by omega), Nat.zero_add]
          omega
      · rw [if_neg (by tauto), hget p hp]
        by_cases h2 : p / (2 * M) < s
        · rw [if_pos h2, if_pos (by omega)]
        · rw [if_neg h2, if_neg (by omega)]
  obtain ⟨hsz, hget⟩ := outer nb (le_refl _)
  refine ⟨hsz, fun p hp => ?_⟩
  rw [hget p hp, if_pos]
  rw [hnb] at hp
  exact Nat.div_lt_of_lt_mul hp

end stage

section dit
variable {K : Type} [CommRing K]

theorem sum_range_even_odd (f : Nat → K) (M : Nat) :
    ∑ u ∈ range (2 * M), f u = ∑ t ∈ range M, (f (2 * t) + f (2 * t + 1)) := by
  induction M with
  | zero => simp
  | succ M ih =>
    rw [show 2 * (M + 1) = 2 * M + 1 + 1 by ring, Finset.sum_range_succ, Finset.sum_range_succ, ih, Finset.sum_range_succ]
    ring

/-- one decimation-in-time step: the `2M`-point transform of the samples `f(u·D)` from the two `M`-point transforms of its
    even and odd samples -/
theorem dit_step (f : Nat → K) (ω : K) (M D : Nat) (hN : ω ^ (2 * D * M) = 1) (hhalf : ω ^ (D * M) = -1) (i : Nat) :
    (∑ u ∈ range (2 * M), f (u * D) * ω ^ (D * i * u)
      = (∑ t ∈ range M, f (t * (2 * D)) * ω ^ (2 * D * i * t)) + (∑ t ∈ range M, f (D + t * (2 * D)) * ω ^ (2 * D * i * t)) * ω ^ (i * D)) ∧
    (∑ u ∈ range (2 * M), f (u * D) * ω ^ (D * (i + M) * u)
      = -((∑ t ∈ range M, f (D + t * (2 * D)) * ω ^ (2 * D * i * t)) * ω ^ (i * D)) + (∑ t ∈ range M, f (t * (2 * D)) * ω ^ (2 * D * i * t))) := by
  constructor
  · rw [sum_range_even_odd, Finset.sum_add_distrib, Finset.sum_mul]
    congr 1
    · refine Finset.sum_congr rfl fun t _ => ?_
      rw [show 2 * t * D = t * (2 * D) by ring, show D * i * (2 * t) = 2 * D * i * t by ring]
    · refine Finset.sum_congr rfl fun t _ => ?_
      rw [show (2 * t + 1) * D = D + t * (2 * D) by ring, show D * i * (2 * t + 1) = 2 * D * i * t + i * D by ring, pow_add]
      ring
  · rw [sum_range_even_odd, Finset.sum_add_distrib, Finset.sum_mul, add_comm, ← Finset.sum_neg_distrib]
    congr 1
    · refine Finset.sum_congr rfl fun t _ => ?_
      rw [show (2 * t + 1) * D = D + t * (2 * D) by ring,
        show D * (i + M) * (2 * t + 1) = 2 * D * i * t + i * D + (2 * D * M) * t + D * M by ring,
        pow_add, pow_add, pow_add, pow_mul (ω) (2 * D * M) t, hN, hhalf, one_pow]
      ring
    · refine Finset.sum_congr rfl fun t _ => ?_
      rw [show 2 * t * D = t * (2 * D) by ring, show D * (i + M) * (2 * t) = 2 * D * i * t + (2 * D * M) * t by ring,
        pow_add, pow_mul (ω) (2 * D * M) t, hN, one_pow, mul_one]

end dit

section main
variable {K : Type} [CommRing K] [IsDomain K] [Inhabited K]

omit [CommRing K] [IsDomain K] in
theorem getElem!_eq_of_getElem? (a b : Array K) (i j : Nat) (h : a[i]? = b[j]?) : a[i]! = b[j]! := by
  rw [Array.getElem!_eq_getD, Array.getElem!_eq_getD, Array.getD_eq_getD_getElem?, Array.getD_eq_getD_getElem?, h]

/-- the `M`-point transform of the decimated subsequence that block `jb` holds after `k` stages (`M = 2^k`) -/
def blockDFT (nn k : Nat) (ω : K) (x : Array K) (jb i : Nat) : K :=
  ∑ t ∈ range (2 ^ k), x[rev (nn - k) jb + t * 2 ^ (nn - k)]! * ω ^ (2 ^ (nn - k) * i * t)

/-- the twiddle table the C++ builds for stage `pow2k`: `exparray[i] = ω^{i·N/(2·pow2k)}` -/
def twiddle (nn : Nat) (ω : K) (pow2k i : Nat) : K := ω ^ (i * (2 ^ nn / (2 * pow2k)))

/-- **loop invariant of `fourier_1d`**: after `k` passes every block of `2^k` consecutive elements holds the transform of
    the subsequence `x[rev(jb) + t·2^{nn-k}]` -/
theorem fft_stages (nn : Nat) (ω : K) (hω : IsPrimitiveRoot ω (2 ^ nn)) (x : Array K) (hx : x.size = 2 ^ nn) (k : Nat) (hk : k ≤ nn) :
    let ck := (List.range k).foldl (fun c k => stage (2 ^ k) (twiddle nn ω (2 ^ k)) c) (bitReversal x)
    ck.size = 2 ^ nn ∧ ∀ jb i, i < 2 ^ k → jb < 2 ^ (nn - k) → ck[jb * 2 ^ k + i]! = blockDFT nn k ω x jb i := by
  induction k with
  | zero =>
    refine ⟨(bitReversal_getElem? nn x hx 0 (by positivity)).1, fun jb i hi hjb => ?_⟩
    have hi0 : i = 0 := by omega
    subst hi0
    simp only [List.range_zero, List.foldl_nil, pow_zero, mul_one, add_zero, blockDFT, Nat.sub_zero, Finset.range_one,
      Finset.sum_singleton, zero_mul, mul_zero]
    rw [getElem!_eq_of_getElem? _ _ _ _ (bitReversal_getElem? nn x hx jb hjb).2]
  | succ k ih =>
    obtain ⟨hsz, hget⟩ := ih (by omega)
    rw [List.range_succ, List.foldl_append]
    simp only [List.foldl_cons, List.foldl_nil]
    generalize (List.range k).foldl (fun c k => stage (2 ^ k) (twiddle nn ω (2 ^ k)) c) (bitReversal x) = ck at hsz hget ⊢
    -- notation
    obtain ⟨b, hb⟩ : ∃ b, nn = k + 1 + b := ⟨nn - (k + 1), by omega⟩
    have hnk : nn - k = b + 1 := by omega
    have hnk1 : nn - (k + 1) = b := by omega
    have hMpos : 0 < 2 ^ k := by positivity
    have hDpos : 0 < 2 ^ b := by positivity
    have hNeq : 2 ^ nn = 2 * 2 ^ b * 2 ^ k := by rw [hb, pow_add, pow_add]; ring
    have hdiv : 2 * 2 ^ k ∣ ck.size := by rw [hsz, hNeq]; exact ⟨2 ^ b, by ring⟩
    obtain ⟨hsz', hget'⟩ := stage_get (2 ^ k) hMpos (twiddle nn ω (2 ^ k)) ck hdiv
    refine ⟨by rw [hsz', hsz], fun jb i hi hjb => ?_⟩
    rw [hnk1] at hjb
    have hp : jb * 2 ^ (k + 1) + i < ck.size := by
      rw [hsz, hNeq, pow_succ] at *
      calc jb * (2 ^ k * 2) + i < jb * (2 ^ k * 2) + 2 ^ k * 2 := by omega
        _ = (jb + 1) * (2 ^ k * 2) := by ring
        _ ≤ 2 ^ b * (2 ^ k * 2) := Nat.mul_le_mul_right _ (by omega)
        _ = 2 * 2 ^ b * 2 ^ k := by ring
    rw [hget' _ hp]
    -- facts about ω
    have hN : ω ^ (2 * 2 ^ b * 2 ^ k) = 1 := by rw [← hNeq]; exact hω.pow_eq_one
    have hhalf : ω ^ (2 ^ b * 2 ^ k) = -1 := by
      have h2 : IsPrimitiveRoot (ω ^ (2 ^ b * 2 ^ k)) 2 := by
        have := hω.pow_of_dvd (p := 2 ^ b * 2 ^ k) (by positivity) ⟨2, by rw [hNeq]; ring⟩
        rwa [show 2 ^ nn / (2 ^ b * 2 ^ k) = 2 by rw [hNeq, show 2 * 2 ^ b * 2 ^ k = 2 * (2 ^ b * 2 ^ k) by ring]; exact Nat.mul_div_cancel _ (by positivity)] at this
      exact h2.eq_neg_one_of_two_right
    have htw : ∀ i', twiddle nn ω (2 ^ k) i' = ω ^ (i' * 2 ^ b) := by
      intro i'
      unfold twiddle
      congr 2
      rw [hNeq, show 2 * 2 ^ b * 2 ^ k = 2 ^ b * (2 * 2 ^ k) by ring]
      exact Nat.mul_div_cancel _ (by positivity)
    -- the two half blocks, by the induction hypothesis
    have hrevE : rev (nn - k) (2 * jb) = rev b jb := by rw [hnk]; simp [rev]
    have hrevO : rev (nn - k) (2 * jb + 1) = 2 ^ b + rev b jb := by
      rw [hnk]
      have h1 : (2 * jb + 1) % 2 = 1 := by omega
      have h2 : (2 * jb + 1) / 2 = jb := by omega
      simp [rev, h1, h2]
    have hE : ∀ i', i' < 2 ^ k → ck[jb * 2 ^ (k + 1) + i']! =
        ∑ t ∈ range (2 ^ k), x[rev b jb + t * (2 * 2 ^ b)]! * ω ^ (2 * 2 ^ b * i' * t) := by
      intro i' hi'
      rw [show jb * 2 ^ (k + 1) + i' = (2 * jb) * 2 ^ k + i' by rw [pow_succ]; ring, hget (2 * jb) i' hi' (by rw [hnk, pow_succ]; omega)]
      unfold blockDFT
      rw [hrevE, hnk, pow_succ, mul_comm (2 ^ b) 2]
    have hO : ∀ i', i' < 2 ^ k → ck[jb * 2 ^ (k + 1) + i' + 2 ^ k]! =
        ∑ t ∈ range (2 ^ k), x[rev b jb + (2 ^ b + t * (2 * 2 ^ b))]! * ω ^ (2 * 2 ^ b * i' * t) := by
      intro i' hi'
      rw [show jb * 2 ^ (k + 1) + i' + 2 ^ k = (2 * jb + 1) * 2 ^ k + i' by rw [pow_succ]; ring,
        hget (2 * jb + 1) i' hi' (by rw [hnk, pow_succ]; omega)]
      unfold blockDFT
      rw [hrevO, hnk, pow_succ, mul_comm (2 ^ b) 2]
      refine Finset.sum_congr rfl fun t _ => ?_
      rw [show 2 ^ b + rev b jb + t * (2 * 2 ^ b) = rev b jb + (2 ^ b + t * (2 * 2 ^ b)) by ring]
    have hstep := dit_step (fun o => x[rev b jb + o]!) ω (2 ^ k) (2 ^ b) hN hhalf
    have hpm : (jb * 2 ^ (k + 1) + i) % (2 * 2 ^ k) = i := by
      rw [pow_succ, show jb * (2 ^ k * 2) + i = i + jb * (2 * 2 ^ k) by ring, Nat.add_mul_mod_self_right, Nat.mod_eq_of_lt (by rw [pow_succ] at hi; omega)]
    unfold stageSpec blockDFT
    rw [hpm, hnk1, show 2 ^ (k + 1) = 2 * 2 ^ k by rw [pow_succ]; ring]
    by_cases hlt : i < 2 ^ k
    · rw [if_pos hlt]
      have e1 := hE i hlt
      have e2 := hO i hlt
      rw [show 2 ^ (k + 1) = 2 * 2 ^ k by rw [pow_succ]; ring] at e1 e2
      rw [e1, e2, htw, (hstep i).1]
    · rw [if_neg hlt]
      have hi' : i - 2 ^ k < 2 ^ k := by rw [pow_succ] at hi; omega
      have e1 := hE (i - 2 ^ k) hi'
      have e2 := hO (i - 2 ^ k) hi'
      rw [show 2 ^ (k + 1) = 2 * 2 ^ k by rw [pow_succ]; ring] at e1 e2
      rw [show jb * (2 * 2 ^ k) + i = jb * (2 * 2 ^ k) + (i - 2 ^ k) + 2 ^ k by omega, e2,
        show jb * (2 * 2 ^ k) + (i - 2 ^ k) + 2 ^ k - 2 ^ k = jb * (2 * 2 ^ k) + (i - 2 ^ k) by omega, e1, htw]
      have := (hstep (i - 2 ^ k)).2
      rw [show i - 2 ^ k + 2 ^ k = i by omega] at this
      rw [this]

/-- **fft_eq_dft**: for every `nn`, `fourier_1d` with the twiddle tables `exparray[i] = ω^{i·N/(2·pow2k)}` of a primitive
    `N = 2^nn`-th root of unity computes `r_k = Σ_j c_j ω^{jk}` -/
theorem fourier1d_eq_dft (nn : Nat) (ω : K) (hω : IsPrimitiveRoot ω (2 ^ nn)) (c : Array K) (hc : c.size = 2 ^ nn) :
    ∃ r, fourier1d (twiddle nn ω) c = some r ∧ r.size = 2 ^ nn ∧
      ∀ k, k < 2 ^ nn → r[k]? = some (dftSpec1 (fun m => ω ^ m) (2 ^ nn) (fun j => c[j]!) k) := by
  have hbs : (bitReversal c).size = 2 ^ nn := (bitReversal_getElem? nn c hc 0 (by positivity)).1
  unfold fourier1d
  rw [if_neg (by rw [hc]; positivity)]
  simp only [hbs, Nat.log2_two_pow, ne_eq, not_true_eq_false, if_false]
  obtain ⟨hsz, hget⟩ := fft_stages nn ω hω c hc nn (le_refl _)
  refine ⟨_, rfl, hsz, fun k hk => ?_⟩
  rw [Array.getElem?_eq_getElem (by rw [hsz]; exact hk), ← getElem!_pos _ k (by rw [hsz]; exact hk)]
  congr 1
  have := hget 0 k hk (by simp)
  rw [Nat.zero_mul, Nat.zero_add] at this
  rw [this, dftSpec1_eq_sum ω (2 ^ nn) hω.pow_eq_one]
  unfold blockDFT
  simp only [Nat.sub_self, pow_zero, mul_one, one_mul, rev, Nat.zero_add]
  exact Finset.sum_congr rfl fun t _ => by rw [mul_comm k t]

end main

section inverse
variable {K : Type} [Field K] [Inhabited K]

omit [Inhabited K] in
theorem dftSpec1_congr (w : Nat → K) (n : Nat) (x y : Nat → K) (h : ∀ j, j < n → x j = y j) (k : Nat) :
    dftSpec1 w n x k = dftSpec1 w n y k := by
  unfold dftSpec1
  rw [foldl_range_add (fun j => x j * w (j * k % n)), foldl_range_add (fun j => y j * w (j * k % n))]
  congr 1
  exact Finset.sum_congr rfl fun j hj => by rw [h j (mem_range.mp hj)]

omit [Inhabited K] in
/-- the number of points is invertible in a field that has a primitive `2^nn`-th root of unity -/
theorem two_pow_ne_zero_of_primitiveRoot (nn : Nat) (ω : K) (hω : IsPrimitiveRoot ω (2 ^ nn)) : ((2 ^ nn : Nat) : K) ≠ 0 := by
  rcases Nat.eq_zero_or_pos nn with h0 | hpos
  · subst h0; simp
  · have h2 : (2 : K) ≠ 0 := by
      intro h2
      obtain ⟨b, rfl⟩ : ∃ b, nn = b + 1 := ⟨nn - 1, by omega⟩
      have hprim : IsPrimitiveRoot (ω ^ (2 ^ b)) 2 := by
        have := hω.pow_of_dvd (p := 2 ^ b) (by positivity) ⟨2, by rw [pow_succ]⟩
        rwa [show 2 ^ (b + 1) / 2 ^ b = 2 by rw [pow_succ, Nat.mul_div_cancel_left _ (by positivity)]] at this
      have hm1 : ω ^ (2 ^ b) = -1 := hprim.eq_neg_one_of_two_right
      have h11 : (-1 : K) = 1 := by
        have : (1 : K) + 1 = 0 := by rw [one_add_one_eq_two]; exact h2
        exact neg_eq_of_add_eq_zero_left this
      have : ω ^ (2 ^ b) = 1 := by rw [hm1, h11]
      have hdvd := (hω.pow_eq_one_iff_dvd _).mp this
      have hlt : 2 ^ b < 2 ^ (b + 1) := by rw [pow_succ]; have : 0 < 2 ^ b := by positivity
                                           omega
      exact absurd (Nat.le_of_dvd (by positivity) hdvd) (by omega)
    push_cast
    exact pow_ne_zero _ h2

/-- **inverse_fourier ∘ fourier = id** for the model of the 1-D transforms, every power-of-two length: `fourier_1d` with the
    tables for `ω`, then `inverse_fourier` (`fourier_1d` with the tables for `ω⁻¹`, division by the number of points) -/
theorem inverse_fourier1d_inverts (nn : Nat) (ω ωi : K) (hω : IsPrimitiveRoot ω (2 ^ nn)) (hinv : ω * ωi = 1)
    (c : Array K) (hc : c.size = 2 ^ nn) :
    ∃ r, fourier1d (twiddle nn ω) c = some r ∧
      ∃ r', inverseFourierND (twiddle nn ωi) [2 ^ nn] r = some r' ∧ r'.size = 2 ^ nn ∧ ∀ k, k < 2 ^ nn → r'[k]? = c[k]? := by
  have hωi : IsPrimitiveRoot ωi (2 ^ nn) := by
    have : ωi = ω⁻¹ := (eq_inv_of_mul_eq_one_right hinv)
    rw [this]; exact hω.inv
  obtain ⟨r, hr, hrs, hrget⟩ := fourier1d_eq_dft nn ω hω c hc
  obtain ⟨r', hr', hrs', hrget'⟩ := fourier1d_eq_dft nn ωi hωi r hrs
  refine ⟨r, hr, ?_⟩
  unfold inverseFourierND fourierND
  rw [hr']
  refine ⟨_, rfl, by simp [hrs'], fun k hk => ?_⟩
  simp only [Array.getElem?_map]
  rw [hrget' k hk]
  simp only [Option.map_some]
  rw [Array.getElem?_eq_getElem (by omega)]
  congr 1
  have hx : ∀ j, j < 2 ^ nn → r[j]! = dftSpec1 (fun m => ω ^ m) (2 ^ nn) (fun j => c[j]!) j := by
    intro j hj
    have := hrget j hj
    rw [Array.getElem?_eq_getElem (by omega)] at this
    rw [getElem!_pos r j (by omega)]
    exact Option.some.inj this
  rw [dftSpec1_congr _ _ _ _ hx k, dft_inverse ω ωi (2 ^ nn) hω hinv _ k hk, getElem!_pos c k (by omega)]
  have hne := two_pow_ne_zero_of_primitiveRoot nn ω hω
  have hp : prodNat [2 ^ nn] = 2 ^ nn := by simp [prodNat]
  rw [hp]
  field_simp

end inverse
end StirVerif.C19
