/-
C19 — proofs, part 7: the discrete convolution theorem for the DFT *as defined* (`dftSpec1`) and the circular
convolution `circConv1At` by which the model of `ArrayFilterUsingRealDFTWithPadding` replaces
"inverse transform of the product of the two transforms":

    F_{ω⁻¹} (F_ω k · F_ω x) = L · (k ⊛ x)        (every length L, every primitive L-th root of unity ω)

over any integral domain (so also over ℂ with ω = e^{±2πi/L}); `inverse_fourier` divides by `L`, so over a field in
which `L ≠ 0` the inverse transform of the product IS the circular convolution.
-/
import StirVerif.C19.ProofsCirc
import StirVerif.C19.ProofsDFT

namespace StirVerif.C19
open Finset

/-- `a mod L` for `0 ≤ a < 2L` -/
theorem mod_of_lt_two_mul (a L : Nat) (h : a < 2 * L) : a % L = if a < L then a else a - L := by
  by_cases h1 : a < L
  · rw [if_pos h1, Nat.mod_eq_of_lt h1]
  · rw [if_neg h1, Nat.mod_eq_sub_mod (by omega), Nat.mod_eq_of_lt (by omega)]

/-- the index `modulo(p - q, L)` read by `circConv1At`, in natural numbers -/
theorem modulo_sub_toNat (L p q : Nat) (hp : p < L) (hq : q < L) :
    (modulo ((p : Int) - (q : Int)) L).toNat = (p + L - q) % L := by
  have hL : 0 < L := by omega
  rw [modulo_eq_emod _ L hL, mod_of_lt_two_mul (p + L - q) L (by omega)]
  by_cases h : q ≤ p
  · have : ((p : Int) - (q : Int)) % (L : Int) = (p : Int) - (q : Int) := Int.emod_eq_of_lt (by omega) (by omega)
    rw [this, if_neg (by omega)]
    omega
  · have : ((p : Int) - (q : Int)) % (L : Int) = (p : Int) - (q : Int) + (L : Int) := by
      rw [← Int.add_emod_right]
      exact Int.emod_eq_of_lt (by omega) (by omega)
    rw [this, if_pos (by omega)]
    omega

/-- which kernel index pairs with data index `m` at output index `p` -/
theorem add_mod_eq_iff (L j m p : Nat) (hj : j < L) (hm : m < L) (hp : p < L) :
    (j + m) % L = p ↔ j = (p + L - m) % L := by
  rw [mod_of_lt_two_mul (j + m) L (by omega), mod_of_lt_two_mul (p + L - m) L (by omega)]
  split_ifs <;> omega

section
variable {K : Type} [CommRing K] [IsDomain K]

/-- **convolution theorem**, function form: the transform with `ω⁻¹` of the pointwise product of the transforms with `ω`
    of `k` and `x` is `L` times their circular convolution of period `L` -/
theorem dft_convolution (ω ωi : K) (L : Nat) (hω : IsPrimitiveRoot ω L) (hinv : ω * ωi = 1) (k x : Nat → K)
    (p : Nat) (hp : p < L) :
    dftSpec1 (fun m => ωi ^ m) L (fun q => dftSpec1 (fun m => ω ^ m) L k q * dftSpec1 (fun m => ω ^ m) L x q) p
      = (L : K) * ∑ m ∈ range L, k ((p + L - m) % L) * x m := by
  have hωn : ω ^ L = 1 := hω.pow_eq_one
  have hωin : ωi ^ L = 1 := by
    have : (ω * ωi) ^ L = 1 := by rw [hinv, one_pow]
    rwa [mul_pow, hωn, one_mul] at this
  have hL : 0 < L := by omega
  rw [dftSpec1_eq_sum ωi L hωin]
  simp_rw [dftSpec1_eq_sum ω L hωn, Finset.sum_mul_sum, Finset.sum_mul]
  -- Σ_q Σ_j Σ_m  →  Σ_m Σ_j Σ_q
  rw [Finset.sum_comm]
  rw [Finset.sum_congr rfl (fun j _ => Finset.sum_comm)]
  rw [Finset.sum_comm, Finset.mul_sum]
  refine Finset.sum_congr rfl fun m hm => ?_
  rw [mem_range] at hm
  have hinner : ∀ j ∈ range L, ∑ q ∈ range L, k j * ω ^ (j * q) * (x m * ω ^ (m * q)) * ωi ^ (q * p)
      = if j = (p + L - m) % L then (L : K) * (k j * x m) else 0 := by
    intro j hj
    rw [mem_range] at hj
    have hterm : ∀ q ∈ range L, k j * ω ^ (j * q) * (x m * ω ^ (m * q)) * ωi ^ (q * p)
        = (k j * x m) * (ω ^ ((j + m) % L * q) * ωi ^ (p * q)) := by
      intro q _
      have : ω ^ ((j + m) % L * q) = ω ^ (j * q) * ω ^ (m * q) := by
        rw [mul_comm ((j + m) % L) q, pow_mul', ← pow_eq_pow_mod _ hωn, ← pow_mul', ← pow_add]
        congr 1; ring
      rw [this, mul_comm q p]; ring
    rw [Finset.sum_congr rfl hterm, ← Finset.mul_sum,
      char_orthogonality ω ωi L hω hinv ((j + m) % L) p (Nat.mod_lt _ hL) hp]
    simp only [add_mod_eq_iff L j m p hj hm hp]
    split_ifs <;> ring
  rw [Finset.sum_congr rfl hinner, Finset.sum_ite_eq' (range L) ((p + L - m) % L),
    if_pos (mem_range.mpr (Nat.mod_lt _ hL))]

/-- **convolution theorem** for the model: with the arrays of the padded-DFT filter (wrapped kernel `kp`, wrapped data
    `xp`, both read with `getD · 0` as the model does), the transform with `ω⁻¹` of the product of the two transforms
    with `ω` is `L · circConv1At L kp xp` — for every length `L` and every primitive `L`-th root of unity of an integral
    domain.  (The array sizes do not matter: positions `≥ size` read as 0 on both sides.) -/
theorem dft_convolution_circConv (ω ωi : K) (L : Nat) (hω : IsPrimitiveRoot ω L) (hinv : ω * ωi = 1) (kp xp : Array K)
    (p : Nat) (hp : p < L) :
    dftSpec1 (fun m => ωi ^ m) L (fun q => dftSpec1 (fun m => ω ^ m) L (fun j => kp.getD j 0) q *
      dftSpec1 (fun m => ω ^ m) L (fun j => xp.getD j 0) q) p = (L : K) * circConv1At L kp xp p := by
  rw [dft_convolution ω ωi L hω hinv _ _ p hp, circConv1At_eq]
  congr 1
  refine Finset.sum_congr rfl fun q hq => ?_
  rw [modulo_sub_toNat L p q hp (mem_range.mp hq)]

end

/-- over a field in which `L ≠ 0`: `inverse_fourier` (transform with `ω⁻¹`, then division by the number of points) of
    the product of the transforms is the circular convolution itself -/
theorem inverse_dft_of_product {K : Type} [Field K] (ω : K) (L : Nat) (hω : IsPrimitiveRoot ω L) (hL : (L : K) ≠ 0)
    (kp xp : Array K) (p : Nat) (hp : p < L) :
    dftSpec1 (fun m => ω⁻¹ ^ m) L (fun q => dftSpec1 (fun m => ω ^ m) L (fun j => kp.getD j 0) q *
      dftSpec1 (fun m => ω ^ m) L (fun j => xp.getD j 0) q) p / (L : K) = circConv1At L kp xp p := by
  have hinv : ω * ω⁻¹ = 1 := mul_inv_cancel₀ (hω.ne_zero (by omega))
  rw [dft_convolution_circConv ω ω⁻¹ L hω hinv kp xp p hp, mul_div_cancel_left₀ _ hL]

/-- the convolution theorem over ℂ, in the form recorded in `Props.lean` -/
theorem convolution_theorem (L : Nat) (ω : ℂ) (hω : IsPrimitiveRoot ω L) (kp xp : Array ℂ) (p : Nat) (hp : p < L) :
    dftSpec1 (fun m => ω⁻¹ ^ m) L (fun q => dftSpec1 (fun m => ω ^ m) L (fun j => kp.getD j 0) q *
      dftSpec1 (fun m => ω ^ m) L (fun j => xp.getD j 0) q) p = (L : ℂ) * circConv1At L kp xp p :=
  dft_convolution_circConv ω ω⁻¹ L hω (mul_inv_cancel₀ (hω.ne_zero (by omega))) kp xp p hp

end StirVerif.C19
