/-
C19 — proofs, part 4: the discrete Fourier transform *as defined* (`dftSpec1`, the formula quoted in fourier.h and
evaluated by the correspondence run against the implementation): inversion, Plancherel/Parseval, impulse ↦ constant.
-/
import StirVerif.C19.ProofsConv
import Mathlib.RingTheory.RootsOfUnity.PrimitiveRoots
import Mathlib.Algebra.Ring.GeomSum
import Mathlib.Analysis.Complex.Basic
import Mathlib.RingTheory.RootsOfUnity.Complex

namespace StirVerif.C19
open Finset

section
variable {K : Type} [CommRing K]

/-- the executable definition is the textbook sum -/
theorem dftSpec1_eq_sum (w : K) (n : Nat) (hw : w ^ n = 1) (x : Nat → K) (k : Nat) :
    dftSpec1 (fun m => w ^ m) n x k = ∑ j ∈ range n, x j * w ^ (j * k) := by
  unfold dftSpec1
  rw [foldl_range_add (fun j => x j * w ^ (j * k % n)), zero_add]
  refine Finset.sum_congr rfl fun j _ => ?_
  rw [← pow_eq_pow_mod _ hw]

/-- **impulse ↦ constant**: the transform of a unit impulse at `p` is the phase ramp `w^{p k}` -/
theorem dft_impulse (w : K) (n : Nat) (hw : w ^ n = 1) (p : Nat) (hp : p < n) (k : Nat) :
    dftSpec1 (fun m => w ^ m) n (fun j => if j = p then 1 else 0) k = w ^ (p * k) := by
  rw [dftSpec1_eq_sum w n hw]
  rw [Finset.sum_eq_single p]
  · simp
  · intro j _ hne; simp [hne]
  · intro h; exact absurd (mem_range.mpr hp) h

/-- … in particular the transform of a unit impulse at the origin is the constant 1 -/
theorem dft_impulse_origin (w : K) (n : Nat) (hw : w ^ n = 1) (hn : 0 < n) (k : Nat) :
    dftSpec1 (fun m => w ^ m) n (fun j => if j = 0 then 1 else 0) k = 1 := by
  rw [dft_impulse w n hw 0 hn k]; simp

variable [IsDomain K]

/-- orthogonality of the characters: `Σ_k ω^{l k} ω⁻¹^{j k} = n·[l = j]` -/
theorem char_orthogonality (ω ωi : K) (n : Nat) (hω : IsPrimitiveRoot ω n) (hinv : ω * ωi = 1) (l j : Nat)
    (hl : l < n) (hj : j < n) :
    ∑ k ∈ range n, ω ^ (l * k) * ωi ^ (j * k) = if l = j then (n : K) else 0 := by
  have hterm : ∀ k, ω ^ (l * k) * ωi ^ (j * k) = (ω ^ l * ωi ^ j) ^ k := by
    intro k; rw [mul_pow, ← pow_mul, ← pow_mul]
  simp_rw [hterm]
  have hωn : ω ^ n = 1 := hω.pow_eq_one
  have hωin : ωi ^ n = 1 := by
    have : (ω * ωi) ^ n = 1 := by rw [hinv, one_pow]
    rwa [mul_pow, hωn, one_mul] at this
  by_cases h : l = j
  · subst h
    rw [if_pos rfl, ← mul_pow, hinv, one_pow]
    simp
  · rw [if_neg h]
    have hne : ω ^ l * ωi ^ j ≠ 1 := by
      intro h1
      apply h
      apply hω.pow_inj hl hj
      have : ω ^ l * (ωi ^ j * ω ^ j) = ω ^ j := by rw [← mul_assoc, h1, one_mul]
      rwa [← mul_pow, mul_comm ωi ω, hinv, one_pow, mul_one] at this
    have hz : (ω ^ l * ωi ^ j) ^ n = 1 := by
      rw [mul_pow, ← pow_mul, ← pow_mul, mul_comm l n, mul_comm j n, pow_mul, pow_mul, hωn, hωin, one_pow, one_pow, one_mul]
    have := geom_sum_mul (ω ^ l * ωi ^ j) n
    rw [hz, sub_self] at this
    rcases mul_eq_zero.mp this with h0 | h0
    · exact h0
    · exact absurd (sub_eq_zero.mp h0) hne

/-- **dft_inverse**: transforming with `ω⁻¹` after transforming with `ω` returns `n` times the input — so
    `inverse_fourier` (which divides by the number of points) inverts `fourier` at the level of the definition -/
theorem dft_inverse (ω ωi : K) (n : Nat) (hω : IsPrimitiveRoot ω n) (hinv : ω * ωi = 1) (x : Nat → K) (j : Nat) (hj : j < n) :
    dftSpec1 (fun m => ωi ^ m) n (fun k => dftSpec1 (fun m => ω ^ m) n x k) j = (n : K) * x j := by
  have hωn : ω ^ n = 1 := hω.pow_eq_one
  have hωin : ωi ^ n = 1 := by
    have : (ω * ωi) ^ n = 1 := by rw [hinv, one_pow]
    rwa [mul_pow, hωn, one_mul] at this
  rw [dftSpec1_eq_sum ωi n hωin]
  simp_rw [dftSpec1_eq_sum ω n hωn, Finset.sum_mul]
  rw [Finset.sum_comm]
  have : ∀ l ∈ range n, ∑ k ∈ range n, x l * ω ^ (l * k) * ωi ^ (k * j) = x l * (if l = j then (n : K) else 0) := by
    intro l hl
    rw [← char_orthogonality ω ωi n hω hinv l j (mem_range.mp hl) hj, Finset.mul_sum]
    refine Finset.sum_congr rfl fun k _ => ?_
    rw [mul_comm k j, mul_assoc]
  rw [Finset.sum_congr rfl this]
  simp only [mul_ite, mul_zero]
  rw [Finset.sum_ite_eq' (range n) j, if_pos (mem_range.mpr hj), mul_comm]

/-- **Plancherel**, bilinear form: `Σ_k (F_ω x)_k (F_{ω⁻¹} y)_k = n Σ_j x_j y_j` -/
theorem dft_plancherel (ω ωi : K) (n : Nat) (hω : IsPrimitiveRoot ω n) (hinv : ω * ωi = 1) (x y : Nat → K) :
    ∑ k ∈ range n, dftSpec1 (fun m => ω ^ m) n x k * dftSpec1 (fun m => ωi ^ m) n y k
      = (n : K) * ∑ j ∈ range n, x j * y j := by
  have hωn : ω ^ n = 1 := hω.pow_eq_one
  have hωin : ωi ^ n = 1 := by
    have : (ω * ωi) ^ n = 1 := by rw [hinv, one_pow]
    rwa [mul_pow, hωn, one_mul] at this
  simp_rw [dftSpec1_eq_sum ω n hωn, dftSpec1_eq_sum ωi n hωin, Finset.sum_mul_sum]
  rw [Finset.sum_comm]
  have h1 : ∀ l ∈ range n, ∑ k ∈ range n, ∑ m ∈ range n, x l * ω ^ (l * k) * (y m * ωi ^ (m * k))
      = (n : K) * (x l * y l) := by
    intro l hl
    rw [Finset.sum_comm]
    have h2 : ∀ m ∈ range n, ∑ k ∈ range n, x l * ω ^ (l * k) * (y m * ωi ^ (m * k))
        = x l * y m * (if l = m then (n : K) else 0) := by
      intro m hm
      rw [← char_orthogonality ω ωi n hω hinv l m (mem_range.mp hl) (mem_range.mp hm), Finset.mul_sum]
      exact Finset.sum_congr rfl fun k _ => by ring
    rw [Finset.sum_congr rfl h2]
    simp only [mul_ite, mul_zero]
    rw [Finset.sum_ite_eq (range n) l, if_pos hl]
    ring
  rw [Finset.sum_congr rfl h1, ← Finset.mul_sum]

end

/-- **Parseval** over ℂ: `Σ_k |X_k|² = n Σ_j |x_j|²` for the transform with any primitive `n`-th root of unity
    (`e^{±2πi/n}` in particular) -/
theorem dft_parseval (ω : ℂ) (n : Nat) (hω : IsPrimitiveRoot ω n) (hn : n ≠ 0) (x : Nat → ℂ) :
    ∑ k ∈ range n, ‖dftSpec1 (fun m => ω ^ m) n x k‖ ^ 2 = (n : ℝ) * ∑ j ∈ range n, ‖x j‖ ^ 2 := by
  have hωn : ω ^ n = 1 := hω.pow_eq_one
  have hnorm : ‖ω‖ = 1 := Complex.norm_eq_one_of_pow_eq_one hωn hn
  have hinv : ω * (starRingEnd ℂ) ω = 1 := by
    rw [← Complex.inv_eq_conj hnorm]
    exact mul_inv_cancel₀ (hω.ne_zero hn)
  have hconj : ∀ k, (starRingEnd ℂ) (dftSpec1 (fun m => ω ^ m) n x k)
      = dftSpec1 (fun m => ((starRingEnd ℂ) ω) ^ m) n (fun j => (starRingEnd ℂ) (x j)) k := by
    intro k
    have hcn : ((starRingEnd ℂ) ω) ^ n = 1 := by rw [← map_pow, hωn, map_one]
    rw [dftSpec1_eq_sum ω n hωn, dftSpec1_eq_sum _ n hcn, map_sum]
    exact Finset.sum_congr rfl fun j _ => by rw [map_mul, map_pow]
  have key := dft_plancherel ω ((starRingEnd ℂ) ω) n hω hinv x (fun j => (starRingEnd ℂ) (x j))
  simp_rw [← hconj, Complex.mul_conj, Complex.normSq_eq_norm_sq] at key
  have : ((∑ k ∈ range n, ‖dftSpec1 (fun m => ω ^ m) n x k‖ ^ 2 : ℝ) : ℂ) = (((n : ℝ) * ∑ j ∈ range n, ‖x j‖ ^ 2 : ℝ) : ℂ) := by
    push_cast at key ⊢
    exact key
  exact_mod_cast this

end StirVerif.C19
