/-
C19 — proofs, part 1: the loops of the direct-convolution filters compute the convolution sums they claim.
-/
import StirVerif.C19.Model
import Mathlib.Algebra.BigOperators.Intervals
import Mathlib.Algebra.BigOperators.Ring.Finset
import Mathlib.Data.Int.Interval
import Mathlib.Tactic.Ring
import Mathlib.Tactic.Linarith
import Mathlib.Tactic.SplitIfs

namespace StirVerif.C19
open Finset

/-- zero extension of an array with index range `lo..hi` -/
def ext {K : Type} [Zero K] (lo hi : Int) (x : Int → K) (m : Int) : K := if lo ≤ m ∧ m ≤ hi then x m else 0

/-- nearest index inside `lo..hi` -/
def clamp (lo hi m : Int) : Int := max lo (min hi m)

section
variable {K : Type}

theorem foldl_range_add [AddCommMonoid K] (g : Nat → K) (n : Nat) (acc : K) :
    (List.range n).foldl (fun a t => a + g t) acc = acc + ∑ t ∈ range n, g t := by
  induction n with
  | zero => simp
  | succ n ih => rw [List.range_succ, List.foldl_append, ih, Finset.sum_range_succ]; simp [add_assoc]

/-- `for (j = lo; j <= hi; ++j) acc += g j`  is  `acc + Σ_{j=lo}^{hi} g j` -/
theorem sumFromTo_eq [AddCommMonoid K] (lo hi : Int) (g : Int → K) (acc : K) :
    sumFromTo lo hi g acc = acc + ∑ j ∈ Icc lo hi, g j := by
  unfold sumFromTo loopFromTo
  rw [foldl_range_add (fun t => g (lo + Int.ofNat t)), Int.Icc_eq_finset_map, Finset.sum_map]
  rfl

/-- a loop whose body adds something depending on the running value of the accumulator only through `+` -/
theorem loopFromTo_add [AddCommMonoid K] (lo hi : Int) (h : Int → K) (acc : K) :
    loopFromTo lo hi (fun j a => a + h j) acc = acc + ∑ j ∈ Icc lo hi, h j := sumFromTo_eq lo hi h acc

theorem sum_Icc_ext_filter [AddCommMonoid K] (a b c d : Int) (f : Int → K) :
    ∑ j ∈ Icc (max a c) (min b d), f j = ∑ j ∈ Icc a b, if c ≤ j ∧ j ≤ d then f j else 0 := by
  rw [← Finset.sum_filter]
  congr 1
  ext j
  simp only [mem_Icc, mem_filter]
  omega

end

section ring
variable {K : Type} [CommSemiring K]

/-- **conv_index_ranges**, zero boundary condition -/
theorem conv1dZeroAt_eq (jmin jmax : Int) (k : Int → K) (inMin inMax : Int) (x : Int → K) (i : Int) :
    conv1dZeroAt jmin jmax k inMin inMax x i = ∑ j ∈ Icc jmin jmax, k j * ext inMin inMax x (i - j) := by
  unfold conv1dZeroAt
  rw [sumFromTo_eq, zero_add, sum_Icc_ext_filter]
  refine Finset.sum_congr rfl fun j _ => ?_
  unfold ext
  by_cases h : i - inMax ≤ j ∧ j ≤ i - inMin
  · rw [if_pos h, if_pos (by omega)]
  · rw [if_neg h, if_neg (by omega), mul_zero]

end ring
end StirVerif.C19
