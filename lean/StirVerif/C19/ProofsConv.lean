/-
C19 — proofs, part 1: the loops of the direct-convolution filters compute the convolution sums they claim.
-/
import StirVerif.C19.Model
import Mathlib.Algebra.BigOperators.Intervals
import Mathlib.Algebra.BigOperators.Ring.Finset
import Mathlib.Data.Int.Interval
import Mathlib.Tactic.Ring
import Mathlib.Tactic.Linarith
import Mathlib.Tactic.SplitIfs

namespace StirVerif.C19
open Finset

/-- zero extension of an array with index range `lo..hi` -/
def ext {K : Type} [Zero K] (lo hi : Int) (x : Int → K) (m : Int) : K := if lo ≤ m ∧ m ≤ hi then x m else 0

/-- nearest index inside `lo..hi` -/
def clamp (lo hi m : Int) : Int := max lo (min hi m)

section
variable {K : Type}

theorem foldl_range_add [AddCommMonoid K] (g : Nat → K) (n : Nat) (acc : K) :
    (List.range n).foldl (fun a t => a + g t) acc = acc + ∑ t ∈ range n, g t := by
  induction n with
  | zero => simp
  | succ n ih => rw [List.range_succ, List.foldl_append, ih, Finset.sum_range_succ]; simp [add_assoc]

/-- `for (j = lo; j <= hi; ++j) acc += g j`  is  `acc + Σ_{j=lo}^{hi} g j` -/
theorem sumFromTo_eq [AddCommMonoid K] (lo hi : Int) (g : Int → K) (acc : K) :
    sumFromTo lo hi g acc = acc + ∑ j ∈ Icc lo hi, g j := by
  unfold sumFromTo loopFromTo
  rw [foldl_range_add (fun t => g (lo + Int.ofNat t)), Int.Icc_eq_finset_map, Finset.sum_map]
  rfl

/-- a loop whose body adds something depending on the running value of the accumulator only through `+` -/
theorem loopFromTo_add [AddCommMonoid K] (lo hi : Int) (h : Int → K) (acc : K) :
    loopFromTo lo hi (fun j a => a + h j) acc = acc + ∑ j ∈ Icc lo hi, h j := sumFromTo_eq lo hi h acc

theorem sum_Icc_ext_filter [AddCommMonoid K] (a b c d : Int) (f : Int → K) :
    ∑ j ∈ Icc (max a c) (min b d), f j = ∑ j ∈ Icc a b, if c ≤ j ∧ j ≤ d then f j else 0 := by
  rw [← Finset.sum_filter]
  congr 1
  ext j
  simp only [mem_Icc, mem_filter]
  omega

theorem sum_Icc_sub [AddCommMonoid K] (a b lo' hi' : Int) (P : Int → Prop) [DecidablePred P] (f : Int → K)
    (h : ∀ j, (lo' ≤ j ∧ j ≤ hi') ↔ (a ≤ j ∧ j ≤ b ∧ P j)) :
    ∑ j ∈ Icc lo' hi', f j = ∑ j ∈ Icc a b, if P j then f j else 0 := by
  rw [← Finset.sum_filter]
  congr 1
  ext j
  simp only [mem_Icc, mem_filter]
  rw [h j]
  tauto

end

section ring
variable {K : Type} [CommSemiring K]

/-- **conv_index_ranges**, zero boundary condition -/
theorem conv1dZeroAt_eq (jmin jmax : Int) (k : Int → K) (inMin inMax : Int) (x : Int → K) (i : Int) :
    conv1dZeroAt jmin jmax k inMin inMax x i = ∑ j ∈ Icc jmin jmax, k j * ext inMin inMax x (i - j) := by
  unfold conv1dZeroAt
  rw [sumFromTo_eq, zero_add, sum_Icc_ext_filter]
  refine Finset.sum_congr rfl fun j _ => ?_
  unfold ext
  by_cases h : i - inMax ≤ j ∧ j ≤ i - inMin
  · rw [if_pos h, if_pos (by omega)]
  · rw [if_neg h, if_neg (by omega), mul_zero]

/-- **conv_index_ranges**, constant boundary condition (non-empty input): the three loops sharing `j` compute the
    convolution with the input extended by its nearest element -/
theorem conv1dConstAt_eq (jmin jmax : Int) (k : Int → K) (inMin inMax : Int) (x : Int → K) (i : Int)
    (hin : inMin ≤ inMax) :
    conv1dConstAt jmin jmax k inMin inMax x i = ∑ j ∈ Icc jmin jmax, k j * x (clamp inMin inMax (i - j)) := by
  unfold conv1dConstAt
  simp only [sumFromTo_eq, zero_add]
  rw [sum_Icc_sub jmin jmax jmin (min (jmax + 1) (i - inMax) - 1) (fun j => j < i - inMax) _ (by intro j; omega),
      sum_Icc_sub jmin jmax (max jmin (min (jmax + 1) (i - inMax))) (min jmax (i - inMin))
        (fun j => i - inMax ≤ j ∧ j ≤ i - inMin) _ (by intro j; omega),
      sum_Icc_sub jmin jmax (max (max jmin (min (jmax + 1) (i - inMax))) (min jmax (i - inMin) + 1)) jmax
        (fun j => i - inMin < j) _ (by intro j; omega),
      ← Finset.sum_add_distrib, ← Finset.sum_add_distrib]
  refine Finset.sum_congr rfl fun j _ => ?_
  have hc : ∀ m, clamp inMin inMax (i - j) = m → x m = x (clamp inMin inMax (i - j)) := fun m h => by rw [h]
  by_cases h1 : j < i - inMax
  · rw [if_pos h1, if_neg (by omega), if_neg (by omega), add_zero, add_zero, hc inMax (by unfold clamp; omega)]
  · by_cases h2 : j ≤ i - inMin
    · rw [if_neg h1, if_pos (by omega), if_neg (by omega), add_zero, zero_add, hc (i - j) (by unfold clamp; omega)]
    · rw [if_neg h1, if_neg (by omega), if_pos (by omega), zero_add, zero_add, hc inMin (by unfold clamp; omega)]

/-- the `is_trivial()` branch is the convolution with the unit impulse at index 0 (zero / nearest-element extension) -/
theorem conv1dTrivialAt_zero (inMin inMax : Int) (x : Int → K) (i : Int) :
    conv1dTrivialAt .zero inMin inMax x i = ext inMin inMax x i := by
  simp only [conv1dTrivialAt, ext]
  split_ifs <;> first | rfl | omega

theorem conv1dTrivialAt_constant (inMin inMax : Int) (x : Int → K) (i : Int) (hin : inMin ≤ inMax) :
    conv1dTrivialAt .constant inMin inMax x i = x (clamp inMin inMax i) := by
  simp only [conv1dTrivialAt, clamp]
  split_ifs <;> (congr 1; omega)

/-- **conv_index_ranges**, symmetric-kernel variant: the three loops sharing `j` compute the convolution with the
    symmetrised kernel `k_{|j|}`, zero extension.  (`i` inside the input range, as in `do_it`'s outer loop.) -/
theorem convSymAt_eq (jmax : Int) (k : Int → K) (inMin inMax : Int) (x : Int → K) (i : Int)
    (hj : 0 ≤ jmax) (hi : inMin ≤ i ∧ i ≤ inMax) :
    convSymAt jmax k inMin inMax x i = ∑ j ∈ Icc (-jmax) jmax, k |j| * ext inMin inMax x (i - j) := by
  unfold convSymAt
  simp only [sumFromTo_eq]
  -- right-hand side: split into j = 0, j > 0, j < 0 and fold the negative part onto 1..jmax
  have hsplit : ∑ j ∈ Icc (-jmax) jmax, k |j| * ext inMin inMax x (i - j)
      = k 0 * x i + ∑ j ∈ Icc 1 jmax, (k j * ext inMin inMax x (i - j) + k j * ext inMin inMax x (i + j)) := by
    have h0 : Icc (-jmax) jmax = (Icc 1 jmax).image (fun j => -j) ∪ ({0} ∪ Icc 1 jmax) := by
      ext j
      simp only [mem_Icc, mem_union, mem_image, mem_singleton]
      constructor
      · intro h
        by_cases hneg : j < 0
        · exact Or.inl ⟨-j, by omega, by omega⟩
        · by_cases hz : j = 0
          · exact Or.inr (Or.inl hz)
          · exact Or.inr (Or.inr (by omega))
      · rintro (⟨a, ha, rfl⟩ | h | h) <;> omega
    have hd1 : Disjoint ((Icc 1 jmax).image (fun j => -j)) ({0} ∪ Icc 1 jmax) := by
      rw [Finset.disjoint_left]
      intro a ha hb
      simp only [mem_image, mem_Icc, mem_union, mem_singleton] at ha hb
      obtain ⟨b, hb', rfl⟩ := ha
      omega
    have hd2 : Disjoint ({0} : Finset Int) (Icc 1 jmax) := by
      rw [Finset.disjoint_left]; intro a ha hb; simp only [mem_singleton, mem_Icc] at ha hb; omega
    have hinj : Set.InjOn (fun j : Int => -j) ↑(Icc 1 jmax) := by
      intro a _ b _ hab; simpa using hab
    rw [h0, Finset.sum_union hd1, Finset.sum_union hd2, Finset.sum_image hinj, Finset.sum_singleton, Finset.sum_add_distrib]
    have e0 : ext inMin inMax x (i - 0) = x i := by unfold ext; rw [if_pos (by omega)]; simp
    rw [abs_zero, e0]
    have e1 : ∑ j ∈ Icc 1 jmax, k |(-j)| * ext inMin inMax x (i - -j) = ∑ j ∈ Icc 1 jmax, k j * ext inMin inMax x (i + j) := by
      refine Finset.sum_congr rfl fun j hjm => ?_
      rw [mem_Icc] at hjm
      rw [abs_neg, abs_of_nonneg (by omega), sub_neg_eq_add]
    have e2 : ∑ j ∈ Icc 1 jmax, k |j| * ext inMin inMax x (i - j) = ∑ j ∈ Icc 1 jmax, k j * ext inMin inMax x (i - j) := by
      refine Finset.sum_congr rfl fun j hjm => ?_
      rw [mem_Icc] at hjm
      rw [abs_of_nonneg (by omega)]
    rw [e1, e2]
    ring
  rw [hsplit]
  rw [sum_Icc_sub 1 jmax 1 (min jmax (min (inMax - i) (i - inMin))) (fun j => j ≤ inMax - i ∧ j ≤ i - inMin) _ (by intro j; omega),
      sum_Icc_sub 1 jmax (max 1 (min jmax (min (inMax - i) (i - inMin)) + 1)) (min jmax (inMax - i))
        (fun j => ¬ (j ≤ inMax - i ∧ j ≤ i - inMin) ∧ j ≤ inMax - i) _ (by intro j; omega),
      sum_Icc_sub 1 jmax (max (max 1 (min jmax (min (inMax - i) (i - inMin)) + 1)) (min jmax (inMax - i) + 1)) (min jmax (i - inMin))
        (fun j => ¬ (j ≤ inMax - i ∧ j ≤ i - inMin) ∧ ¬ (j ≤ inMax - i) ∧ j ≤ i - inMin) _ (by intro j; omega),
      add_assoc, add_assoc, ← Finset.sum_add_distrib, ← Finset.sum_add_distrib]
  congr 1
  refine Finset.sum_congr rfl fun j hjm => ?_
  rw [mem_Icc] at hjm
  unfold ext
  by_cases ha : j ≤ inMax - i <;> by_cases hb : j ≤ i - inMin
  · rw [if_pos ⟨ha, hb⟩, if_neg (by tauto), if_neg (by tauto), if_pos (by omega), if_pos (by omega)]; ring
  · rw [if_neg (by tauto), if_pos (by tauto), if_neg (by tauto), if_neg (by omega), if_pos (by omega)]; ring
  · rw [if_neg (by tauto), if_neg (by tauto), if_pos (by tauto), if_pos (by omega), if_neg (by omega)]; ring
  · rw [if_neg (by tauto), if_neg (by tauto), if_neg (by tauto), if_neg (by omega), if_neg (by omega)]; ring

/-- zero extension in two and three dimensions -/
def ext2 (r0 r1 : R) (x : Int → Int → K) (a b : Int) : K :=
  if (r0.lo ≤ a ∧ a ≤ r0.hi) ∧ (r1.lo ≤ b ∧ b ≤ r1.hi) then x a b else 0
def ext3 (r0 r1 r2 : R) (x : Int → Int → Int → K) (a b c : Int) : K :=
  if (r0.lo ≤ a ∧ a ≤ r0.hi) ∧ (r1.lo ≤ b ∧ b ≤ r1.hi) ∧ (r2.lo ≤ c ∧ c ≤ r2.hi) then x a b c else 0

/-- **conv_index_ranges**, 2-D -/
theorem conv2dAt_eq (kr0 kr1 : R) (k : Int → Int → K) (ir0 ir1 : R) (x : Int → Int → K) (y xx : Int) :
    conv2dAt kr0 kr1 k ir0 ir1 x y xx =
      ∑ j ∈ Icc kr0.lo kr0.hi, ∑ i ∈ Icc kr1.lo kr1.hi, k j i * ext2 ir0 ir1 x (y - j) (xx - i) := by
  unfold conv2dAt
  simp only [sumFromTo_eq]
  rw [loopFromTo_add, zero_add, sum_Icc_ext_filter]
  refine Finset.sum_congr rfl fun j _ => ?_
  rw [sum_Icc_ext_filter]
  by_cases hj : y - ir0.hi ≤ j ∧ j ≤ y - ir0.lo
  · rw [if_pos hj]
    refine Finset.sum_congr rfl fun i _ => ?_
    unfold ext2
    by_cases hi : xx - ir1.hi ≤ i ∧ i ≤ xx - ir1.lo
    · rw [if_pos hi, if_pos (by omega)]
    · rw [if_neg hi, if_neg (by omega), mul_zero]
  · rw [if_neg hj]
    symm
    refine Finset.sum_eq_zero fun i _ => ?_
    unfold ext2
    rw [if_neg (by omega), mul_zero]

/-- **conv_index_ranges**, 3-D -/
theorem conv3dAt_eq (kr0 kr1 kr2 : R) (k : Int → Int → Int → K) (ir0 ir1 ir2 : R) (x : Int → Int → Int → K) (z y xx : Int) :
    conv3dAt kr0 kr1 kr2 k ir0 ir1 ir2 x z y xx =
      ∑ kk ∈ Icc kr0.lo kr0.hi, ∑ j ∈ Icc kr1.lo kr1.hi, ∑ i ∈ Icc kr2.lo kr2.hi,
        k kk j i * ext3 ir0 ir1 ir2 x (z - kk) (y - j) (xx - i) := by
  unfold conv3dAt
  simp only [sumFromTo_eq]
  simp only [loopFromTo_add, zero_add]
  rw [sum_Icc_ext_filter]
  refine Finset.sum_congr rfl fun kk _ => ?_
  by_cases hk : z - ir0.hi ≤ kk ∧ kk ≤ z - ir0.lo
  · rw [if_pos hk, sum_Icc_ext_filter]
    refine Finset.sum_congr rfl fun j _ => ?_
    by_cases hj : y - ir1.hi ≤ j ∧ j ≤ y - ir1.lo
    · rw [if_pos hj, sum_Icc_ext_filter]
      refine Finset.sum_congr rfl fun i _ => ?_
      unfold ext3
      by_cases hi : xx - ir2.hi ≤ i ∧ i ≤ xx - ir2.lo
      · rw [if_pos hi, if_pos (by omega)]
      · rw [if_neg hi, if_neg (by omega), mul_zero]
    · rw [if_neg hj]
      symm
      refine Finset.sum_eq_zero fun i _ => ?_
      unfold ext3
      rw [if_neg (by omega), mul_zero]
  · rw [if_neg hk]
    symm
    refine Finset.sum_eq_zero fun j _ => Finset.sum_eq_zero fun i _ => ?_
    unfold ext3
    rw [if_neg (by omega), mul_zero]

/-- the loops never read outside the index ranges of kernel and input: the result only depends on the kernel on
    `jmin..jmax` and on the input on `inMin..inMax` -/
theorem conv1dZeroAt_congr (jmin jmax : Int) (k k' : Int → K) (inMin inMax : Int) (x x' : Int → K) (i : Int)
    (hk : ∀ j, jmin ≤ j → j ≤ jmax → k j = k' j) (hx : ∀ m, inMin ≤ m → m ≤ inMax → x m = x' m) :
    conv1dZeroAt jmin jmax k inMin inMax x i = conv1dZeroAt jmin jmax k' inMin inMax x' i := by
  rw [conv1dZeroAt_eq, conv1dZeroAt_eq]
  refine Finset.sum_congr rfl fun j hj => ?_
  rw [mem_Icc] at hj
  rw [hk j hj.1 hj.2]
  unfold ext
  split_ifs with h
  · rw [hx _ h.1 h.2]
  · rfl

/-- **unit_sum_preserves_mean**: where the data are equal to `c` on the whole kernel support around `i`
    (and that support lies inside the input range) the output is `c` times the kernel sum — `c` itself for kernels
    summing to one -/
theorem conv1dZeroAt_const_on_support (jmin jmax : Int) (k : Int → K) (inMin inMax : Int) (x : Int → K) (i : Int) (c : K)
    (hc : ∀ j, jmin ≤ j → j ≤ jmax → (inMin ≤ i - j ∧ i - j ≤ inMax) ∧ x (i - j) = c) :
    conv1dZeroAt jmin jmax k inMin inMax x i = (∑ j ∈ Icc jmin jmax, k j) * c := by
  rw [conv1dZeroAt_eq, Finset.sum_mul]
  refine Finset.sum_congr rfl fun j hj => ?_
  rw [mem_Icc] at hj
  unfold ext
  rw [if_pos (hc j hj.1 hj.2).1, (hc j hj.1 hj.2).2]

theorem conv1dZeroAt_unit_sum (jmin jmax : Int) (k : Int → K) (inMin inMax : Int) (x : Int → K) (i : Int) (c : K)
    (hsum : ∑ j ∈ Icc jmin jmax, k j = 1)
    (hc : ∀ j, jmin ≤ j → j ≤ jmax → (inMin ≤ i - j ∧ i - j ≤ inMax) ∧ x (i - j) = c) :
    conv1dZeroAt jmin jmax k inMin inMax x i = c := by
  rw [conv1dZeroAt_const_on_support jmin jmax k inMin inMax x i c hc, hsum, one_mul]

end ring
end StirVerif.C19
