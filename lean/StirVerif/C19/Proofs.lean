/-
C19 — proofs, umbrella file: the `do_it` wrappers (is_trivial branch + boundary conditions) of the 1-D / 2-D / 3-D filters.
-/
import StirVerif.C19.ProofsConv
import StirVerif.C19.ProofsSep
import StirVerif.C19.ProofsCirc
import StirVerif.C19.ProofsDFT
import StirVerif.C19.ProofsBitrev
import StirVerif.C19.ProofsFreq
import StirVerif.C19.ProofsFFT

namespace StirVerif.C19
open Finset

section
variable {K : Type} [CommSemiring K] [DecidableEq K]

/-- `ArrayFilter1DUsingConvolution::do_it`, zero boundary condition, including the `is_trivial()` shortcut: an empty
    kernel is the identity, every other kernel gives `Σ_j k_j·in_{i-j}` -/
theorem arrayFilter1DAt_zero (jmin jmax : Int) (k : Int → K) (inMin inMax : Int) (x : Int → K) (i : Int) :
    arrayFilter1DAt .zero jmin jmax k inMin inMax x i =
      some (if jmax + 1 - jmin = 0 then ext inMin inMax x i else ∑ j ∈ Icc jmin jmax, k j * ext inMin inMax x (i - j)) := by
  unfold arrayFilter1DAt
  by_cases ht : isTrivial1D jmin jmax k = true
  · rw [if_pos ht]
    simp only [conv1dTrivialAt_zero]
    unfold isTrivial1D at ht
    simp only [Bool.or_eq_true, Bool.and_eq_true, beq_iff_eq] at ht
    rcases ht with h0 | ⟨⟨h1, h2⟩, h3⟩
    · rw [if_pos h0]
    · rw [if_neg (by omega)]
      have : jmax = 0 := by omega
      rw [h2, this, Finset.Icc_self, Finset.sum_singleton, h3, one_mul, sub_zero]
  · rw [if_neg ht]
    simp only [conv1dZeroAt_eq]
    unfold isTrivial1D at ht
    simp only [Bool.or_eq_true, Bool.and_eq_true, beq_iff_eq, not_or] at ht
    rw [if_neg ht.1]

/-- the same for the constant boundary condition (non-empty input) -/
theorem arrayFilter1DAt_constant (jmin jmax : Int) (k : Int → K) (inMin inMax : Int) (x : Int → K) (i : Int) (hin : inMin ≤ inMax) :
    arrayFilter1DAt .constant jmin jmax k inMin inMax x i =
      some (if jmax + 1 - jmin = 0 then x (clamp inMin inMax i)
            else ∑ j ∈ Icc jmin jmax, k j * x (clamp inMin inMax (i - j))) := by
  unfold arrayFilter1DAt
  by_cases ht : isTrivial1D jmin jmax k = true
  · rw [if_pos ht]
    simp only [conv1dTrivialAt_constant _ _ _ _ hin]
    unfold isTrivial1D at ht
    simp only [Bool.or_eq_true, Bool.and_eq_true, beq_iff_eq] at ht
    rcases ht with h0 | ⟨⟨h1, h2⟩, h3⟩
    · rw [if_pos h0]
    · rw [if_neg (by omega)]
      have : jmax = 0 := by omega
      rw [h2, this, Finset.Icc_self, Finset.sum_singleton, h3, one_mul, sub_zero]
  · rw [if_neg ht]
    simp only [conv1dConstAt_eq _ _ _ _ _ _ _ hin]
    unfold isTrivial1D at ht
    simp only [Bool.or_eq_true, Bool.and_eq_true, beq_iff_eq, not_or] at ht
    rw [if_neg ht.1]

/-- `ArrayFilter2DUsingConvolution::do_it` when `is_trivial()` answers false -/
theorem arrayFilter2DAt_of_not_trivial (kr0 kr1 : R) (k : Int → Int → K) (ir0 ir1 : R) (x : Int → Int → K) (y xx : Int)
    (h : isTrivial2D kr0 k = false) :
    arrayFilter2DAt kr0 kr1 k ir0 ir1 x y xx =
      ∑ j ∈ Icc kr0.lo kr0.hi, ∑ i ∈ Icc kr1.lo kr1.hi, k j i * ext2 ir0 ir1 x (y - j) (xx - i) := by
  unfold arrayFilter2DAt
  rw [h]
  simp only [Bool.false_eq_true, if_false]
  exact conv2dAt_eq kr0 kr1 k ir0 ir1 x y xx

theorem arrayFilter3DAt_of_not_trivial (kr0 kr1 kr2 : R) (k : Int → Int → Int → K) (ir0 ir1 ir2 : R) (x : Int → Int → Int → K)
    (z y xx : Int) (h : isTrivial3D kr0 k = false) :
    arrayFilter3DAt kr0 kr1 kr2 k ir0 ir1 ir2 x z y xx =
      ∑ kk ∈ Icc kr0.lo kr0.hi, ∑ j ∈ Icc kr1.lo kr1.hi, ∑ i ∈ Icc kr2.lo kr2.hi,
        k kk j i * ext3 ir0 ir1 ir2 x (z - kk) (y - j) (xx - i) := by
  unfold arrayFilter3DAt
  rw [h]
  simp only [Bool.false_eq_true, if_false]
  exact conv3dAt_eq kr0 kr1 kr2 k ir0 ir1 ir2 x z y xx

end
end StirVerif.C19
