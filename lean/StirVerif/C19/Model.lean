/-
C19 — executable model of the Fourier transforms and convolution filters of STIR.  Core Lean only.

Everything that is index arithmetic is written once, generically over the element type `K`
(`Int` for the exact correspondence runs, `Cplx` = pairs of `Float` for the transforms, an arbitrary
commutative ring in the proofs), and is a transcription of the loops that exist in the C++:

* `loopFromTo`, `sumFromTo`                 — `for (j = lo; j <= hi; ++j) acc += …`
* `conv1dZeroAt`, `conv1dConstAt`, `conv1dTrivialAt`, `isTrivial1D`, `arrayFilter1DAt`
      — `ArrayFilter1DUsingConvolution::{do_it,is_trivial}` (src/buildblock/ArrayFilter1DUsingConvolution.cxx:50, :83)
* `convSymAt`, `arrayFilterSymAt`           — `ArrayFilter1DUsingConvolutionSymmetricKernel::do_it` (…SymmetricKernel.cxx:48)
* `conv2dAt`, `isTrivial2D`, `arrayFilter2DAt` — `ArrayFilter2DUsingConvolution::{do_it,is_trivial}` (ArrayFilter2DUsingConvolution.cxx:42, :76)
* `conv3dAt`, `isTrivial3D`, `arrayFilter3DAt` — `ArrayFilter3DUsingConvolution::{do_it,is_trivial}` (ArrayFilter3DUsingConvolution.cxx:52, :87)
* `modulo`, `toPeriodic1`, `fromPeriodic1At`, `circConv1At`, `dftFilter1`, and the n-dimensional `…ND` versions
      — `modulo` (include/stir/modulo.h:79), `transform_array_to/from_periodic_indices` (include/stir/ArrayFunction.inl:312, :332),
        `ArrayFilterUsingRealDFTWithPadding::{set_kernel,set_padding_range,do_it}` (ArrayFilterUsingRealDFTWithPadding.cxx:51, :71, :113).
        The product of the two real-data DFTs followed by the inverse DFT is modelled by what it computes exactly,
        the circular convolution `circConv…`; that link is the convolution theorem (proved for the 1-D complex DFT by its
        definition: `C19_convolution_theorem` in Props.lean; the real-data packing and the n-D recursion are not) and is
        checked by the correspondence run within the rounding bound.
* `sepAxis0/1/2`, `separable3`              — `SeparableArrayFunctionObject::do_it` → `in_place_apply_array_functions_on_each_index`
        (SeparableArrayFunctionObject.cxx:42, include/stir/ArrayFunction.inl:196)
* `sciKernelMin`                            — index placement in `SeparableConvolutionImageFilter::post_processing` (…ImageFilter.cxx:62)
* `brInner`, `brNext`, `bitReversal`, `butterfly`, `stage`, `fourier1d`, `fourierND`, `inverseFourierND`
      — `bitreversal`, `fourier_1d`, `fourier`, `inverse_fourier` (src/numerics_buildblock/fourier.cxx:24, :61, :125; fourier.h:52)
* `dftSpec1`, `dftSpecND`                   — the *definition* r_k = Σ_j c_j e^{sign 2πi jk/n} quoted in fourier.h
* `posFreqToAll1`, `posFreqToAllND`         — `pos_frequencies_to_all` (fourier.cxx:340)
* `Cplx`, `expArray`, `fourierRealData1`, `invFourierRealData1`, `fourierRealDataND`, `invFourierRealDataND`
      — `get_exparray`, `fourier_1d_for_real_data`, `inverse_fourier_1d_for_real_data_corrupting_input` and the
        recursion over dimensions (fourier.cxx:47, :152, :200, :260), at `Float` precision
* `influencingRange`, `influencedRange`     — `get_influencing_indices` / `get_influenced_indices` of `ArrayFilter1DUsingConvolution`
        (ArrayFilter1DUsingConvolution.cxx:59, :71) and, for the OUTER index, of `ArrayFilter2DUsingConvolution` (:52, :64) and
        `ArrayFilter3DUsingConvolution` (:64, :76); `isTrivialSym`, `isTrivialDFT` — `is_trivial()` of the symmetric-kernel
        and the padded-DFT class (the other classes keep the default `Succeeded::no` of ArrayFunctionObject.h:67, :80)
* `mapLast`, `freqBox`, `setPaddingRange`, `dftFilterFreqND`, `dftFilterSpectrumND`
      — index range of `fourier_for_real_data`'s result, `ArrayFilterUsingRealDFTWithPadding::set_padding_range`
        (ArrayFilterUsingRealDFTWithPadding.cxx:53: every index range must start at 0, last padded length = 2·(last maximum)),
        the constructor taking the kernel in frequency space / `set_kernel_in_frequency_space` (:44, :101) followed by `do_it`
* `gaussCoefficients`                       — `SeparableGaussianArrayFilter::calculate_coefficients` (SeparableGaussianArrayFilter.cxx:103)
* `metzKernel`                              — `build_gauss` / `build_metz` (SeparableMetzArrayFilter.cxx:84, :113), at `Float` precision

`guardAsCoded` (default `true`) selects the guard `n % 2 != 0` of the inverse real-data transform as it is in the code
(`n` = half the real length, so a last dimension of length 2 is rejected); `false` is only used by the driver to print,
next to the answer of the code as it is, the answer of a library in which that guard is repaired.

Not modelled: 32-bit overflow; `float` rounding of the transforms (the model runs at binary64 and is compared within a
derived bound); irregular arrays.  Proved about this model (Props.lean): loops = convolution sums for all index ranges,
circular = linear convolution without wrap-around, separability in any axis order, bit reversal, `fourier1d` = DFT for
every power of two, inverse ∘ forward = id, Hermitian index map, convolution theorem (1-D, DFT by its definition);
NOT proved: real-data packing trick, n-dimensional recursion (correspondence only).
-/
namespace StirVerif.C19

/-! ## loops -/

/-- `for (j = lo; j <= hi; ++j) acc = body j acc` -/
def loopFromTo {K : Type} (lo hi : Int) (body : Int → K → K) (acc : K) : K :=
  (List.range (hi + 1 - lo).toNat).foldl (fun a (t : Nat) => body (lo + Int.ofNat t) a) acc

/-- `for (j = lo; j <= hi; ++j) acc += g j` -/
def sumFromTo {K : Type} [Add K] (lo hi : Int) (g : Int → K) (acc : K) : K :=
  loopFromTo lo hi (fun j a => a + g j) acc

/-! ## ArrayFilter1DUsingConvolution -/

inductive BC | zero | constant | periodic
  deriving DecidableEq, Repr

section conv
variable {K : Type} [Add K] [Mul K] [Zero K]

/-- non-trivial kernel, `BoundaryConditions::zero`:
    `j = max(j_min, i-in_max); for (; j <= min(j_max, i-in_min); ++j) out[i] += k[j]*in[i-j];` -/
def conv1dZeroAt (jmin jmax : Int) (k : Int → K) (inMin inMax : Int) (x : Int → K) (i : Int) : K :=
  sumFromTo (max jmin (i - inMax)) (min jmax (i - inMin)) (fun j => k j * x (i - j)) 0

/-- non-trivial kernel, `BoundaryConditions::constant`: right edge loop, unaffected region, left edge loop,
    sharing the running index `j` -/
def conv1dConstAt (jmin jmax : Int) (k : Int → K) (inMin inMax : Int) (x : Int → K) (i : Int) : K :=
  -- for (; j < min(j_max + 1, i - in_max); ++j) out[i] += k[j] * in[in_max];
  let e1 := min (jmax + 1) (i - inMax)
  let acc := sumFromTo jmin (e1 - 1) (fun j => k j * x inMax) 0
  let j1 := max jmin e1
  -- for (; j <= min(j_max, i - in_min); ++j) out[i] += k[j] * in[i - j];
  let e2 := min jmax (i - inMin)
  let acc := sumFromTo j1 e2 (fun j => k j * x (i - j)) acc
  let j2 := max j1 (e2 + 1)
  -- for (; j <= j_max; ++j) out[i] += k[j] * in[in_min];
  sumFromTo j2 jmax (fun j => k j * x inMin) acc

/-- the `is_trivial()` branch of `do_it`: three consecutive loops over the output index -/
def conv1dTrivialAt (bc : BC) (inMin inMax : Int) (x : Int → K) (i : Int) : K :=
  if i ≤ inMin - 1 then (match bc with | .zero => 0 | _ => x inMin)
  else if i ≤ inMax then x i
  else (match bc with | .zero => 0 | _ => x inMax)

/-- `is_trivial()`: length 0, or length 1 at index 0 with coefficient 1 -/
def isTrivial1D [BEq K] [OfNat K 1] (jmin jmax : Int) (k : Int → K) : Bool :=
  (jmax + 1 - jmin == 0) || (jmax + 1 - jmin == 1 && jmin == 0 && k 0 == 1)

/-- `do_it` for one output index; `none` = `error("… boundary condition …")` -/
def arrayFilter1DAt [BEq K] [OfNat K 1] (bc : BC) (jmin jmax : Int) (k : Int → K) (inMin inMax : Int) (x : Int → K)
    (i : Int) : Option K :=
  if isTrivial1D jmin jmax k then
    match bc with
    | .periodic => none
    | _ => some (conv1dTrivialAt bc inMin inMax x i)
  else
    match bc with
    | .zero => some (conv1dZeroAt jmin jmax k inMin inMax x i)
    | .constant => some (conv1dConstAt jmin jmax k inMin inMax x i)
    | .periodic => none

/-! ## ArrayFilter1DUsingConvolutionSymmetricKernel -/

/-- non-trivial branch: `out[i] = k[0]*in[i]`, then the loop where both `i-j` and `i+j` are valid, then the rest of
    `i+j`, then the rest of `i-j`, sharing `j` -/
def convSymAt (jmax : Int) (k : Int → K) (inMin inMax : Int) (x : Int → K) (i : Int) : K :=
  let acc := k 0 * x i
  let e1 := min jmax (min (inMax - i) (i - inMin))
  let acc := sumFromTo 1 e1 (fun j => k j * (x (i - j) + x (i + j))) acc
  let j1 := max 1 (e1 + 1)
  let e2 := min jmax (inMax - i)
  let acc := sumFromTo j1 e2 (fun j => k j * x (i + j)) acc
  let j2 := max j1 (e2 + 1)
  let e3 := min jmax (i - inMin)
  sumFromTo j2 e3 (fun j => k j * x (i - j)) acc

/-- `do_it` (kernel index range `0..jmax`; output range = input range) -/
def arrayFilterSymAt [BEq K] [OfNat K 1] (jmax : Int) (k : Int → K) (inMin inMax : Int) (x : Int → K) (i : Int) : K :=
  if jmax + 1 == 0 || (jmax + 1 == 1 && k 0 == 1) then x i else convSymAt jmax k inMin inMax x i

/-! ## ArrayFilter2DUsingConvolution / ArrayFilter3DUsingConvolution -/

/-- index range of one dimension -/
structure R where
  lo : Int
  hi : Int
  deriving Repr, DecidableEq, Inhabited

def R.len (r : R) : Int := r.hi + 1 - r.lo
def R.mem (r : R) (i : Int) : Bool := decide (r.lo ≤ i) && decide (i ≤ r.hi)

/-- `for j in [max(j_min, y-in_max_y) .. min(j_max, y-in_min_y)] for i in […] out += k[j][i]*in[y-j][x-i]` -/
def conv2dAt (kr0 kr1 : R) (k : Int → Int → K) (ir0 ir1 : R) (x : Int → Int → K) (y xx : Int) : K :=
  loopFromTo (max kr0.lo (y - ir0.hi)) (min kr0.hi (y - ir0.lo)) (fun j acc =>
    sumFromTo (max kr1.lo (xx - ir1.hi)) (min kr1.hi (xx - ir1.lo)) (fun i => k j i * x (y - j) (xx - i)) acc) 0

/-- `is_trivial()` of the 2-D class: looks at the OUTER extent and at `filter_coefficients[0][0]` only -/
def isTrivial2D [BEq K] [OfNat K 1] (kr0 : R) (k : Int → Int → K) : Bool :=
  (kr0.len == 0) || (kr0.len == 1 && kr0.lo == 0 && k 0 0 == 1)

def arrayFilter2DAt [BEq K] [OfNat K 1] (kr0 kr1 : R) (k : Int → Int → K) (ir0 ir1 : R) (x : Int → Int → K) (y xx : Int) : K :=
  if isTrivial2D kr0 k then (if ir0.mem y && ir1.mem xx then x y xx else 0)
  else conv2dAt kr0 kr1 k ir0 ir1 x y xx

def conv3dAt (kr0 kr1 kr2 : R) (k : Int → Int → Int → K) (ir0 ir1 ir2 : R) (x : Int → Int → Int → K) (z y xx : Int) : K :=
  loopFromTo (max kr0.lo (z - ir0.hi)) (min kr0.hi (z - ir0.lo)) (fun kk acc =>
    loopFromTo (max kr1.lo (y - ir1.hi)) (min kr1.hi (y - ir1.lo)) (fun j acc =>
      sumFromTo (max kr2.lo (xx - ir2.hi)) (min kr2.hi (xx - ir2.lo)) (fun i => k kk j i * x (z - kk) (y - j) (xx - i)) acc) acc) 0

def isTrivial3D [BEq K] [OfNat K 1] (kr0 : R) (k : Int → Int → Int → K) : Bool :=
  (kr0.len == 0) || (kr0.len == 1 && kr0.lo == 0 && k 0 0 0 == 1)

def arrayFilter3DAt [BEq K] [OfNat K 1] (kr0 kr1 kr2 : R) (k : Int → Int → Int → K) (ir0 ir1 ir2 : R)
    (x : Int → Int → Int → K) (z y xx : Int) : K :=
  if isTrivial3D kr0 k then (if ir0.mem z && ir1.mem y && ir2.mem xx then x z y xx else 0)
  else conv3dAt kr0 kr1 kr2 k ir0 ir1 ir2 x z y xx

/-! ## separable filters: one 1-D filter per axis, applied in place axis after axis -/

/-- a 1-D in-place filter, as a map from a line (given by its index range and values) to the new value at `i` -/
abbrev Line1 (K : Type) := (lo hi : Int) → (Int → K) → Int → K

/-- first index: `in_place_apply_array_function_on_1st_index` -/
def sepAxis0 (f : Line1 K) (r0 : R) (x : Int → Int → Int → K) : Int → Int → Int → K :=
  fun a b c => f r0.lo r0.hi (fun a' => x a' b c) a
def sepAxis1 (f : Line1 K) (r1 : R) (x : Int → Int → Int → K) : Int → Int → Int → K :=
  fun a b c => f r1.lo r1.hi (fun b' => x a b' c) b
def sepAxis2 (f : Line1 K) (r2 : R) (x : Int → Int → Int → K) : Int → Int → Int → K :=
  fun a b c => f r2.lo r2.hi (fun c' => x a b c') c

/-- `SeparableArrayFunctionObject<3>::do_it`: first index, then (inside every slice) second, then third -/
def separable3 (f0 f1 f2 : Line1 K) (r0 r1 r2 : R) (x : Int → Int → Int → K) : Int → Int → Int → K :=
  sepAxis2 f2 r2 (sepAxis1 f1 r1 (sepAxis0 f0 r0 x))

/-- `SeparableConvolutionImageFilter::post_processing`: a list of `size` coefficients gets `min_index = -(size/2)` -/
def sciKernelMin (size : Nat) : Int := -((size / 2 : Nat) : Int)

end conv

/-! ## index-range queries of the filter classes -/

/-- `get_influencing_indices(influencing, output_range)`: kernel of length 0 ? the given range :
    `[out_min - j_max, out_max - j_min]` (1-D class: the kernel's range; 2-D / 3-D classes: the kernel's OUTER range) -/
def influencingRange (kr out : R) : R := if kr.len == 0 then out else ⟨out.lo - kr.hi, out.hi - kr.lo⟩

/-- `get_influenced_indices(influenced, input_range)`: kernel of length 0 ? the given range :
    `[in_min + j_min, in_max + j_max]` -/
def influencedRange (kr inp : R) : R := if kr.len == 0 then inp else ⟨inp.lo + kr.lo, inp.hi + kr.hi⟩

/-- `ArrayFilter1DUsingConvolutionSymmetricKernel::is_trivial()` (kernel index range `0..jmax`) -/
def isTrivialSym {K : Type} [BEq K] [OfNat K 1] (jmax : Int) (k : Int → K) : Bool :=
  jmax + 1 == 0 || (jmax + 1 == 1 && k 0 == 1)

/-- `ArrayFilterUsingRealDFTWithPadding::is_trivial()`: no kernel, or a single frequency-space coefficient equal to `(1,0)` -/
def isTrivialDFT (sizeAll : Nat) (firstIsOne : Bool) : Bool := sizeAll == 0 || (sizeAll == 1 && firstIsOne)

/-! ## padded-DFT route -/

/-- `modulo(int a, int b)`: `a % b` (C, truncating) made non-negative -/
def modulo (a b : Int) : Int :=
  let res := Int.tmod a b
  if res < 0 then res + (if b ≥ 0 then b else -b) else res

section periodic
variable {K : Type} [Add K] [Mul K] [Zero K]

/-- `transform_array_to_periodic_indices` (1-D): `out` is a zero-initialised 0-based array of length `L`;
    `for i in [lo..hi]: out[modulo(i, L)] = in[i]` (later writes overwrite earlier ones) -/
def toPeriodic1 (L : Nat) (lo hi : Int) (f : Int → K) : Array K :=
  loopFromTo lo hi (fun i a => a.setIfInBounds (modulo i L).toNat (f i)) (Array.replicate L 0)

/-- `transform_array_from_periodic_indices` (1-D): `out[i] = in[modulo(i, L)]` -/
def fromPeriodic1At (L : Nat) (a : Array K) (i : Int) : K := a.getD (modulo i L).toNat 0

/-- what `inverse_fourier_for_real_data(fourier_for_real_data(x) * fourier_for_real_data(k))` computes, exactly:
    the circular convolution of period `L` -/
def circConv1At (L : Nat) (kp xp : Array K) (p : Nat) : K :=
  (List.range L).foldl (fun acc (q : Nat) => acc + kp.getD (modulo (Int.ofNat p - Int.ofNat q) L).toNat 0 * xp.getD q 0) 0

/-- power of two test used for the `error()` branches of `fourier_1d` -/
def isPow2 (n : Nat) : Bool := n != 0 && 2 ^ (Nat.log2 n) == n

/-- can `fourier_for_real_data` / `inverse_fourier_for_real_data` handle a last dimension of this length?
    forward: even, and half of it a power of two; inverse: additionally half of it even (!) -/
def realLenOkForward (L : Nat) : Bool := L % 2 == 0 && (L == 0 || isPow2 (L / 2))
def realLenOkInverse (L : Nat) : Bool := realLenOkForward L && (L / 2) % 2 == 0

/-- `ArrayFilterUsingRealDFTWithPadding<1>`: constructor (`set_kernel`: wrap-around placement, padded length = kernel
    length) followed by `do_it` for the output index `i`.  `none` = `error()`. -/
def dftFilter1 (kmin kmax : Int) (k : Int → K) (inMin inMax : Int) (x : Int → K) (outMin outMax : Int)
    (guardAsCoded : Bool := true) : Option (Int → K) :=
  let L := (kmax + 1 - kmin).toNat
  if !realLenOkForward L then none else
  -- set_kernel: `norm(min_indices) < .01` ? kernel itself : wrapped copy — both are `toPeriodic1`
  let kp := toPeriodic1 L kmin kmax k
  -- do_it (`guardAsCoded = false`: the inverse real-data transform with the guard its error message describes)
  if guardAsCoded && !realLenOkInverse L then none else
  if inMin == 0 && inMax == (L : Int) - 1 && outMin == 0 && outMax == (L : Int) - 1 then
    let xp := Array.ofFn (n := L) fun q => x (Int.ofNat q.val)
    some fun i => circConv1At L kp xp i.toNat
  else
    let xp := toPeriodic1 L inMin inMax x
    let yp := Array.ofFn (n := L) fun p => circConv1At L kp xp p.val
    some fun i => fromPeriodic1At L yp i

/-! n-dimensional versions (row-major flat arrays, multi-indices as lists) -/

/-- the 0-based box with the given sizes -/
def zeroBox (sizes : List Nat) : List R := sizes.map fun (n : Nat) => ⟨0, Int.ofNat n - 1⟩

def sizesOf (box : List R) : List Nat := box.map fun r => r.len.toNat
def prodNat (l : List Nat) : Nat := l.foldl (· * ·) 1

/-- row-major position of a 0-based multi-index -/
def flatIdx (sizes : List Nat) (idx : List Nat) : Nat :=
  (sizes.zip idx).foldl (fun f (p : Nat × Nat) => f * p.1 + p.2) 0

/-- all multi-indices of a box in row-major (`next(index, array)`) order -/
def allIdx : List R → List (List Int)
  | [] => [[]]
  | r :: rest => (List.range r.len.toNat).flatMap fun (t : Nat) => (allIdx rest).map fun tl => (r.lo + Int.ofNat t) :: tl

def moduloIdx (idx : List Int) (sizes : List Nat) : List Nat :=
  (idx.zip sizes).map fun (p : Int × Nat) => (modulo p.1 p.2).toNat

def toPeriodicND (sizes : List Nat) (box : List R) (f : List Int → K) : Array K :=
  (allIdx box).foldl (fun a idx => a.setIfInBounds (flatIdx sizes (moduloIdx idx sizes)) (f idx))
    (Array.replicate (prodNat sizes) 0)

def fromPeriodicNDAt (sizes : List Nat) (a : Array K) (idx : List Int) : K :=
  a.getD (flatIdx sizes (moduloIdx idx sizes)) 0

def circConvNDAt (sizes : List Nat) (kp xp : Array K) (p : List Nat) : K :=
  (allIdx (zeroBox sizes)).foldl (fun acc q =>
    let d := (p.zip q).map fun (pq : Nat × Int) => Int.ofNat pq.1 - pq.2
    acc + kp.getD (flatIdx sizes (moduloIdx d sizes)) 0 * xp.getD (flatIdx sizes (q.map Int.toNat)) 0) 0

/-- `ArrayFilterUsingRealDFTWithPadding<n>` for one output multi-index -/
def dftFilterND (kbox : List R) (k : List Int → K) (ibox : List R) (x : List Int → K) (obox : List R)
    (guardAsCoded : Bool := true) : Option (List Int → K) :=
  let sizes := sizesOf kbox
  let last := sizes.getLastD 0
  let outer := sizes.dropLast
  if !(realLenOkForward last && outer.all isPow2) then none else
  let kp := toPeriodicND sizes kbox k
  if guardAsCoded && !realLenOkInverse last then none else
  -- do_it: input range == output range == padding range ? use directly : wrap-around copy — both are `toPeriodicND`
  let _ := obox
  let xp := toPeriodicND sizes ibox x
  some fun idx => circConvNDAt sizes kp xp (moduloIdx idx sizes)

end periodic


/-! ### kernel given in frequency space -/

/-- apply `f` to the last element of a list -/
def mapLast {α : Type} (f : α → α) : List α → List α
  | [] => []
  | [r] => [f r]
  | r :: r' :: rest => r :: mapLast f (r' :: rest)

/-- index range of `fourier_for_real_data(a)` for a 0-based `a` with index box `box`: last dimension `0..len/2` -/
def freqBox (box : List R) : List R := mapLast (fun r => ⟨0, Int.tdiv r.len 2⟩) box

/-- `set_padding_range()`: `none` = `Succeeded::no` (irregular range, or some minimum index not 0); otherwise the
    padding range: `max_indices[last] = 2 * max_indices[last] - 1` -/
def setPaddingRange (regular : Bool) (fbox : List R) : Option (List R) :=
  if regular && fbox.all (fun r => r.lo == 0) then some (mapLast (fun r => ⟨r.lo, 2 * r.hi - 1⟩) fbox) else none

section periodic
variable {K : Type} [Add K] [Mul K] [Zero K]

/-- `ArrayFilterUsingRealDFTWithPadding(kernel_in_frequency_space)` / `set_kernel_in_frequency_space` followed by `do_it`,
    for a frequency-space kernel with index box `fbox` that is the real-data transform of the 0-based real array `kp0`:
    padding range from `set_padding_range`, then exactly what the object built from a spatial kernel does -/
def dftFilterFreqND (regular : Bool) (fbox : List R) (kp0 : List Int → K) (ibox : List R) (x : List Int → K) (obox : List R)
    (guardAsCoded : Bool := true) : Option (List Int → K) :=
  match setPaddingRange regular fbox with
  | none => none
  | some pr => dftFilterND pr kp0 ibox x obox guardAsCoded

end periodic

/-! ## Fourier transforms -/

/-- inner `while (m >= 2 && j > m) { j -= m; m >>= 1; }` of `bitreversal` -/
def brInner (j m : Nat) : Nat × Nat :=
  if h : m ≥ 2 ∧ j > m then brInner (j - m) (m / 2) else (j, m)
termination_by m
decreasing_by omega

/-- `int m = n; while (…) {…}; j += m;` -/
def brNext (n j : Nat) : Nat := (brInner j n).1 + (brInner j n).2

/-- `bitreversal(data)`: `j = 1; for i: if (j/2 > i) swap(data[j/2], data[i]); j = brNext n j` -/
def bitReversal {K : Type} (a : Array K) : Array K :=
  ((List.range a.size).foldl (fun (st : Nat × Array K) i =>
      (brNext a.size st.1, if st.1 / 2 > i then st.2.swapIfInBounds (st.1 / 2) i else st.2)) (1, a)).2

section fft
variable {K : Type} [Add K] [Mul K] [Neg K] [Inhabited K]

/-- loop body of `fourier_1d`: `t1 = c1; c2 *= w; c1 += c2; c2 *= -1; c2 += t1;` with `c1 = c[p]`, `c2 = c[q]` -/
def butterfly (w : K) (c : Array K) (p q : Nat) : Array K :=
  let t1 := c[p]!
  let c2 := c[q]! * w
  let c := c.setIfInBounds p (t1 + c2)
  c.setIfInBounds q (-c2 + t1)

/-- one value of `k`: `for (j = 0; j < n; j += 2*pow2k) for (i = 0; i < pow2k; ++i) butterfly(exparray[i], i+j, i+j+pow2k)` -/
def stage (pow2k : Nat) (w : Nat → K) (c : Array K) : Array K :=
  (List.range (c.size / (2 * pow2k))).foldl (fun c jb =>
    (List.range pow2k).foldl (fun c i => butterfly (w i) c (i + jb * (2 * pow2k)) (i + jb * (2 * pow2k) + pow2k)) c) c

/-- `fourier_1d`; `w pow2k i` = `get_exparray(pow2k, sign)[i]`; `none` = `error("… not 2^…")` -/
def fourier1d (w : Nat → Nat → K) (c : Array K) : Option (Array K) :=
  if c.size = 0 then some c else
  let c := bitReversal c
  let nn := Nat.log2 c.size
  if 2 ^ nn ≠ c.size then none else
  some ((List.range nn).foldl (fun c k => stage (2 ^ k) (w (2 ^ k)) c) c)

/-- apply a 1-D transform to every line along the outer index of a row-major array with `stride` elements per
    outer index (`fourier_1d` on an `Array<n>` operates on whole sub-arrays element-wise) -/
def onOuter (n stride : Nat) (t : Array K → Option (Array K)) (a : Array K) : Option (Array K) :=
  (List.range stride).foldlM (fun a r => do
    let line ← t (Array.ofFn (n := n) fun i => a[i.val * stride + r]!)
    pure ((List.range n).foldl (fun a i => a.setIfInBounds (i * stride + r) line[i]!) a)) a

/-- apply `t` to every contiguous block of `blk` elements -/
def onBlocks (n blk : Nat) (t : Array K → Option (Array K)) (a : Array K) : Option (Array K) :=
  (List.range n).foldlM (fun a i => do
    let b ← t (a.extract (i * blk) ((i + 1) * blk))
    pure ((List.range blk).foldl (fun a r => a.setIfInBounds (i * blk + r) b[r]!) a)) a

/-- `fourier` (`fourier_auxiliary::do_fourier`): `fourier_1d` on the outer index, then `fourier` of every sub-array -/
def fourierND (w : Nat → Nat → K) : List Nat → Array K → Option (Array K)
  | [], a => some a
  | [_], a => fourier1d w a
  | n :: rest, a => do
    let stride := prodNat rest
    let a ← onOuter n stride (fourier1d w) a
    onBlocks n stride (fourierND w rest) a

/-- `inverse_fourier`: `fourier(c, -sign); c /= c.size_all();` (`wInv` is the table for `-sign`) -/
def inverseFourierND [Div K] [NatCast K] (wInv : Nat → Nat → K) (dims : List Nat) (a : Array K) : Option (Array K) := do
  let a ← fourierND wInv dims a
  pure (a.map fun v => v / ((prodNat dims : Nat) : K))

/-- the definition quoted in fourier.h: `r_k = Σ_j c_j e^{sign 2πi jk/n}`; `wpow m` = `e^{sign 2πi m/n}` -/
def dftSpec1 [Zero K] (wpow : Nat → K) (n : Nat) (x : Nat → K) (k : Nat) : K :=
  (List.range n).foldl (fun acc j => acc + x j * wpow (j * k % n)) 0

end fft

/-- `pos_frequencies_to_all` (1-D): input indices `0..n`, output `0..2n-1`;
    `result[i] = c[i]; if (i > 0) result[modulo(2n - i, 2n)] = conj(c[i])` in increasing `i` -/
def posFreqToAll1 {K : Type} [Inhabited K] (conj : K → K) (c : Array K) : Array K :=
  let n := c.size - 1
  (List.range c.size).foldl (fun res i =>
    let res := res.setIfInBounds i c[i]!
    if i > 0 then res.setIfInBounds (modulo (Int.ofNat (2 * n) - Int.ofNat i) (Int.ofNat (2 * n))).toNat (conj c[i]!) else res)
    (Array.replicate (2 * n) default)

/-- `pos_frequencies_to_all` (n-D): `dims` are the sizes of `c` (last = n+1) -/
def posFreqToAllND {K : Type} [Inhabited K] (conj : K → K) (dims : List Nat) (c : Array K) : Array K :=
  let sizes := dims.dropLast ++ [2 * (dims.getLastD 1 - 1)]
  (allIdx (zeroBox dims)).foldl (fun res idx =>
    let v := c[flatIdx dims (idx.map Int.toNat)]!
    let res := res.setIfInBounds (flatIdx sizes (idx.map Int.toNat)) v
    if idx.getLastD 0 > 0 then
      let rel := moduloIdx ((sizes.zip idx).map fun (p : Nat × Int) => Int.ofNat p.1 - p.2) sizes
      res.setIfInBounds (flatIdx sizes rel) (conj v)
    else res)
    (Array.replicate (prodNat sizes) default)

/-! ### complex numbers over `Float` for execution -/

structure Cplx where
  re : Float
  im : Float
  deriving Inhabited

namespace Cplx
instance : Add Cplx := ⟨fun a b => ⟨a.re + b.re, a.im + b.im⟩⟩
instance : Sub Cplx := ⟨fun a b => ⟨a.re - b.re, a.im - b.im⟩⟩
instance : Neg Cplx := ⟨fun a => ⟨-a.re, -a.im⟩⟩
instance : Mul Cplx := ⟨fun a b => ⟨a.re * b.re - a.im * b.im, a.re * b.im + a.im * b.re⟩⟩
instance : Zero Cplx := ⟨⟨0, 0⟩⟩
instance : NatCast Cplx := ⟨fun n => ⟨n.toFloat, 0⟩⟩
/-- only division by a real is needed (`c /= c.size_all()`) -/
instance : Div Cplx := ⟨fun a b => ⟨a.re / b.re, a.im / b.re⟩⟩
def conj (a : Cplx) : Cplx := ⟨a.re, -a.im⟩
def scale (s : Float) (a : Cplx) : Cplx := ⟨s * a.re, s * a.im⟩
def expi (theta : Float) : Cplx := ⟨Float.cos theta, Float.sin theta⟩
end Cplx

def pi : Float := 3.14159265358979323846

/-- `get_exparray(pow2k, sign)[i] = exp(i * float(sign*i*π/pow2k))` -/
def expArray (sign : Int) (pow2k i : Nat) : Cplx :=
  Cplx.expi (((Float.ofInt (sign * i) * pi) / pow2k.toFloat).toFloat32.toFloat)

/-- `e^{sign 2πi m/n}` for the definition of the DFT -/
def wPow (sign : Int) (n m : Nat) : Cplx := Cplx.expi (Float.ofInt sign * 2 * pi * m.toFloat / n.toFloat)

/-- n-dimensional DFT by its definition, at one frequency multi-index `k`:
    `Σ_{j1} w1^{j1 k1} Σ_{j2} w2^{j2 k2} … x[j1,j2,…]` (`tabs` = the per-dimension tables `w_d^{j k_d}`) -/
def dftSpecGo (x : Array Cplx) : List Nat → List (Array Cplx) → Nat → Cplx
  | [], _, off => x[off]!
  | _ :: _, [], _ => 0
  | n :: rest, t :: ts, off =>
    let stride := prodNat rest
    (List.range n).foldl (fun acc j => acc + t[j]! * dftSpecGo x rest ts (off + j * stride)) 0

def dftSpecND (sign : Int) (dims : List Nat) (x : Array Cplx) (k : List Nat) : Cplx :=
  let tabs := (dims.zip k).map fun (p : Nat × Nat) => Array.ofFn (n := p.1) fun j => wPow sign p.1 (j.val * p.2 % p.1)
  dftSpecGo x dims tabs 0

/-- `fourier_1d_for_real_data`: `none` = `error()` -/
def fourierRealData1 (sign : Int) (v : Array Float) : Option (Array Cplx) :=
  if v.size = 0 then some #[] else
  if v.size % 2 ≠ 0 then none else do
  let n := v.size / 2
  let c : Array Cplx := Array.ofFn (n := n) fun i => ⟨v[2 * i.val]! / 2, v[2 * i.val + 1]! / 2⟩
  let c ← fourier1d (expArray sign) c
  let c := c.push ⟨0, 0⟩
  let c := (List.range (n / 2)).foldl (fun (c : Array Cplx) i0 =>
    let i := i0 + 1
    let t1 := c[i]! + (c[n - i]!).conj
    let t2 := Cplx.expi (((Float.ofInt sign * (i.toFloat * pi) / n.toFloat - pi / 2)).toFloat32.toFloat) * (c[i]! - (c[n - i]!).conj)
    let c := c.setIfInBounds i (t1 + t2)
    c.setIfInBounds (n - i) (t1 - t2).conj) c
  let c0 := c[0]!
  let c := c.setIfInBounds 0 ⟨(c0.re + c0.im) * 2, 0⟩
  pure (c.setIfInBounds n ⟨(c0.re - c0.im) * 2, 0⟩)

/-- `inverse_fourier_1d_for_real_data_corrupting_input` -/
def invFourierRealData1 (sign : Int) (c : Array Cplx) (guardAsCoded : Bool := true) : Option (Array Float) :=
  if c.size = 0 then some #[] else
  let n := c.size - 1
  -- `if (n % 2 != 0) error("… can only handle arrays of even length")` — `n` is HALF the length of the real array;
  -- `guardAsCoded = false` drops this test (the real length `2n` is always even)
  if guardAsCoded && n % 2 ≠ 0 then none else do
  let c := (List.range (n / 2)).foldl (fun (c : Array Cplx) i0 =>
    let i := i0 + 1
    let t1 := c[i]! + (c[n - i]!).conj
    let t2 := Cplx.expi (((Float.ofInt (-sign) * (i.toFloat * pi) / n.toFloat + pi / 2)).toFloat32.toFloat) * (c[i]! - (c[n - i]!).conj)
    let c := c.setIfInBounds i (t1 + t2)
    c.setIfInBounds (n - i) (t1 - t2).conj) c
  let c := c.setIfInBounds 0 ⟨c[0]!.re + c[n]!.re, c[0]!.re - c[n]!.re⟩
  let c := c.extract 0 n
  let c ← inverseFourierND (expArray (-sign)) [n] c
  pure (Array.ofFn (n := 2 * n) fun i => if i.val % 2 = 0 then c[i.val / 2]!.re / 2 else c[i.val / 2]!.im / 2)

/-- `fourier_for_real_data` (n-D): real-data transform of every innermost line, then `fourier_1d` along each outer index,
    innermost first (`fourier_for_real_data_auxiliary::do_fourier_for_real_data`) -/
def fourierRealDataND (sign : Int) : List Nat → Array Float → Option (Array Cplx)
  | [], _ => some #[]
  | [_], v => fourierRealData1 sign v
  | n :: rest, v => do
    let blk := prodNat rest
    let parts ← (List.range n).mapM fun i => fourierRealDataND sign rest (v.extract (i * blk) ((i + 1) * blk))
    let a : Array Cplx := parts.foldl (· ++ ·) #[]
    let stride := a.size / n
    onOuter n stride (fourier1d (expArray sign)) a

/-- `inverse_fourier_for_real_data_corrupting_input` (n-D); `dims` are the sizes of the complex input (last = n+1) -/
def invFourierRealDataND (sign : Int) (guardAsCoded : Bool := true) : List Nat → Array Cplx → Option (Array Float)
  | [], _ => some #[]
  | [_], c => invFourierRealData1 sign c guardAsCoded
  | n :: rest, c => do
    let stride := prodNat rest
    -- inverse_fourier_1d(c, sign): fourier_1d(c, -sign); c /= c.size()
    let c ← onOuter n stride (fourier1d (expArray (-sign))) c
    let c := c.map fun v => v / (n : Cplx)
    let parts ← (List.range n).mapM fun i => invFourierRealDataND sign guardAsCoded rest (c.extract (i * stride) ((i + 1) * stride))
    pure (parts.foldl (· ++ ·) #[])


/-- sizes of the complex array holding the non-negative frequencies of a real array with these sizes -/
def halfSizes (dims : List Nat) : List Nat := dims.dropLast ++ [dims.getLastD 0 / 2 + 1]

/-- `ArrayFilterUsingRealDFTWithPadding` with an ARBITRARY kernel `h` in frequency space (index box `fbox`, row-major
    values), `do_it` as coded: wrap-around copy of the input into the padding range, `fourier_for_real_data`, element-wise
    product with `h`, `inverse_fourier_for_real_data_corrupting_input`, wrap-around copy to the output — at `Float` precision -/
def dftFilterSpectrumND (regular : Bool) (fbox : List R) (h : Array Cplx) (ibox : List R) (x : List Int → Float)
    (guardAsCoded : Bool := true) : Option (List Int → Float) := do
  let pr ← setPaddingRange regular fbox
  let sizes := sizesOf pr
  let xp : Array Cplx := toPeriodicND sizes ibox fun idx => (⟨x idx, 0⟩ : Cplx)
  let xf ← fourierRealDataND 1 sizes (xp.map (·.re))
  let y ← invFourierRealDataND 1 guardAsCoded (halfSizes sizes) (Array.ofFn (n := xf.size) fun i => xf[i.val]! * h[i.val]!)
  pure fun idx => y.getD (flatIdx sizes (moduloIdx idx sizes)) 0

/-! ## Gaussian kernel (SeparableGaussianArrayFilter::calculate_coefficients), `Float`/`Float32` -/

/-- returns `none` for `error()` (max_kernel_size == 0), otherwise `(kernel_length, coefficients for -kl..kl)`;
    an empty coefficient array = trivial filter (standard deviation 0) -/
def gaussCoefficients (maxKernelSize : Int) (fwhm : Float32) (normalise : Bool) : Option (Nat × Array Float32) :=
  if maxKernelSize == 0 then none else
  let sd : Float := Float.sqrt ((fwhm * fwhm).toFloat / (8 * Float.log 2))
  if sd == 0 then some (0, #[]) else
  let kl : Nat :=
    if maxKernelSize < 0 then
      let normalMaxX := Float.sqrt (-2 * Float.log 0.000001)
      (Float.ceil (normalMaxX * sd)).toUInt64.toNat
    else (Int.tdiv maxKernelSize 2).toNat
  let coef (i : Nat) : Float32 :=
    if i = 0 then (1 / Float.sqrt (2 * pi) / sd).toFloat32
    else (Float.exp (-(i * i).toFloat / (2 * (sd * sd))) / Float.sqrt (2 * (sd * sd) * pi)).toFloat32
  let ks : Array Float32 := Array.ofFn (n := 2 * kl + 1) fun t => coef (if t.val ≥ kl then t.val - kl else kl - t.val)
  if normalise then
    let sum : Float := ks.foldl (fun s v => s + v.toFloat) 0
    some (kl, ks.map fun v => (v.toFloat / sum).toFloat32)
  else some (kl, ks)

/-! ## Metz kernel (SeparableMetzArrayFilter.cxx: build_gauss / build_metz), `Float` with the scalar parameters rounded to
`float` where the C++ stores them in `float` -/

/-- `build_gauss(kernel, res, s2, sampling_interval)` (values kept at binary64) -/
def metzBuildGauss (res : Nat) (s2 si : Float32) : Array Float :=
  let hres := res / 2
  let k0 : Float := (1 / Float.sqrt (s2.toFloat * 6.28318530717958647692)).toFloat32.toFloat
  -- for (j = 1; j < hres && !cutoff; j++)
  let st := (List.range (hres - 1)).foldl (fun (st : Array Float × Float × Bool) j0 =>
    let (ker, sum, cutoff) := st
    if cutoff then st else
    let j := j0 + 1
    let js : Float32 := j.toFloat32 * si
    let v : Float := (k0 * Float.exp (-0.5 * (js * js).toFloat / s2.toFloat)).toFloat32.toFloat
    let ker := (ker.setIfInBounds (hres - j - 1) v).setIfInBounds (hres + j - 1) v
    (ker, sum + 2 * v, v < k0 * 0.000001)) ((Array.replicate res (0 : Float)).setIfInBounds (hres - 1) k0, k0, false)
  st.1.map fun v => v / st.2.1

/-- `build_metz(kernel, N, fwhm, MmPerVox, max_kernel_size)`: the coefficients `kernel[0..kernel_length-1]` -/
def metzKernel (power fwhm mmPerVox : Float32) (maxKernelSize : Int) : Array Float :=
  if !(fwhm > 0) then #[1] else
  let s2 : Float32 := ((fwhm * fwhm).toFloat / (8 * Float.log 2)).toFloat32
  let n : Float := 7
  let spv : Nat := (mmPerVox.toFloat * 2 * Float.sqrt (2 * Float.log 10 * n / s2.toFloat) / 6.28318530717958647692 + 1).toUInt64.toNat
  let si : Float32 := mmPerVox / spv.toFloat32
  let stretch : Float := if spv > 1 then 10000 else 0
  let resE : Nat := (Float.log ((Float.sqrt (8 * n * Float.log 10 * s2.toFloat) + stretch) / si.toFloat) / Float.log 2 + 1).toUInt64.toNat
  let res : Nat := 2 ^ resE
  let filter := metzBuildGauss res s2 si
  -- Build the fft array
  let fftdata : Array Cplx := Array.ofFn (n := res) fun i =>
    if i.val ≤ res - res / 2 then ⟨filter[res / 2 - 1 + i.val]!, 0⟩ else ⟨filter[i.val - (res - res / 2) - 1]!, 0⟩
  match fourierND (expArray 1) [res] fftdata with
  | none => #[]
  | some fd =>
  let nn : Float := power.toFloat + 1
  let cutoff : Nat := ((si * res.toFloat32) / (2 * mmPerVox)).toUInt64.toNat
  let fd := (Array.ofFn (n := res) fun i =>
    let xr := fd[i.val]!.re
    let xi := fd[i.val]!.im
    let z := xr * xr + xi * xi
    let z := if stretch > 0 && i.val > cutoff && res - i.val > cutoff then 0 else z
    let z := if z > 1 then 1 - 0.000001 else z
    if z > 0 then (⟨(1 - Float.pow (1 - z) nn) * (xr / z), (1 - Float.pow (1 - z) nn) * (-xi / z)⟩ : Cplx) else ⟨0, 0⟩)
  match inverseFourierND (expArray (-1)) [res] fd with
  | none => #[]
  | some g =>
  -- collect the results
  let cnt := (res / 2) / spv + 1
  let flt : Array Float := Array.ofFn (n := res) fun j =>
    if j.val < cnt then (g[j.val * spv]!.re * mmPerVox.toFloat) / si.toFloat else 0
  -- undo zero padding: drop trailing coefficients below 1e-4 of the first
  let kl := (List.range res).foldl (fun (st : Nat × Bool) t =>
    if st.2 then st else
    let i := res - 1 - t
    if Float.abs flt[i]! ≥ 0.0001 * flt[0]! then (st.1, true) else (st.1 - 1, false)) (res, false)
  let kl := if maxKernelSize > 0 && (kl.1 : Int) > Int.tdiv maxKernelSize 2 then (Int.tdiv maxKernelSize 2).toNat else kl.1
  flt.extract 0 kl

end StirVerif.C19
