/-
C12 — proofs about the `ArcCorrection` object as a state machine (`ArcCorrState`, Model.lean): `set_up` overwrites every cached
member, so an object that was set up before (any number of times, for any geometries) is, after `set_up`, the object a freshly
constructed one would be, and corrects every row in the same way; the cached boxes are those of the LAST geometry.
(That the C++ `set_up` really assigns every member — which is what `ArcCorrState.setUp` transcribes — is tied to the code by the
correspondence run: the driver keeps the state between `acsu` and `acrow` lines of one re-used C++ object.)
-/
import StirVerif.C12.Model
import StirVerif.C12.ProofsOverlap

namespace StirVerif.C12

/-- one `set_up` on an arbitrary old state = `set_up` on a freshly constructed object -/
theorem setUp_eq_fresh (st : ArcCorrState) (a : ArcSetUpArgs) : st.setUp a = ArcCorrState.fresh.setUp a := rfl

/-- a whole history of `set_up` calls followed by `set_up a` = a fresh object set up with `a` -/
theorem history_snoc_eq_fresh (st : ArcCorrState) (h : List ArcSetUpArgs) (a : ArcSetUpArgs) :
    st.history (h ++ [a]) = ArcCorrState.fresh.setUp a := by
  unfold ArcCorrState.history
  rw [List.foldl_append]
  rfl

/-- `adjacentDiffs` has one entry less than the list of edges -/
theorem adjacentDiffs_length : ∀ l : List Rat, (adjacentDiffs l).length = l.length - 1
  | [] => rfl
  | [_] => rfl
  | a :: b :: rest => by
    simp only [adjacentDiffs, List.length_cons]
    rw [adjacentDiffs_length (b :: rest)]
    simp

/-- entry `k` of `adjacentDiffs` is `edge (k+1) - edge k` -/
theorem adjacentDiffs_get : ∀ (l : List Rat) (k : Nat) (x y : Rat), l[k]? = some x → l[k + 1]? = some y →
    (adjacentDiffs l)[k]? = some (y - x)
  | [], _, _, _, h, _ => by simp at h
  | [_], k, _, _, _, h => by simp at h
  | a :: b :: rest, 0, x, y, hx, hy => by
    simp at hx hy
    simp [adjacentDiffs, hx, hy]
  | a :: b :: rest, k + 1, x, y, hx, hy => by
    simp only [adjacentDiffs, List.getElem?_cons_succ] at *
    exact adjacentDiffs_get (b :: rest) k x y hx hy

end StirVerif.C12
