/-
C12 — proofs, axial part (exact rational arithmetic): `get_m` is antisymmetric about the scanner centre and equals the
axial midpoint of every contributing ring pair (hence their average); opposite segments are mirror images.
-/
import StirVerif.C12.Model
import StirVerif.C01.ProofsAxial
import Mathlib.Tactic.Ring
import Mathlib.Tactic.Linarith
import Mathlib.Tactic.FieldSimp
import Mathlib.Tactic.NormNum
import Mathlib.Data.Rat.Defs
import Mathlib.Algebra.Order.Field.Rat

namespace StirVerif.C12
open StirVerif.C01 (tdiv2_spec tmod2_spec)

/-- the stepping loop of `compute_segment_axial_pos_to_ring_pair` (same statement and proof as `C01.Seg.mem_loop_iff`) -/
theorem Seg.mem_loop_iff (R : Int) (s : Seg) (off a : Int) (r1 r2 : Int) :
    (r1, r2) ∈ s.ringPairsOf R off a ↔
      (0 ≤ r1 ∧ r1 < R ∧ 0 ≤ r2 ∧ r2 < R ∧ s.minRD ≤ r2 - r1 ∧ r2 - r1 ≤ s.maxRD ∧
        r1 + r2 = s.ringSum off a) := by
  unfold Seg.ringPairsOf
  generalize s.ringSum off a = sum
  simp only [List.mem_filterMap, List.mem_range]
  have hm := tmod2_spec (s.minRD + sum)
  have hq := tdiv2_spec (s.minRD + sum)
  generalize (s.minRD + sum).tmod 2 = m at *
  generalize (s.minRD + sum).tdiv 2 = q at *
  constructor
  · rintro ⟨k, hk, h⟩
    split at h
    · exact absurd h (by simp)
    · rename_i hn
      simp only [Option.some.injEq, Prod.mk.injEq] at h
      have hx := tdiv2_spec (sum - (s.minRD + m + 2 * (k : Int)))
      have hy := tdiv2_spec (sum + (s.minRD + m + 2 * (k : Int)))
      obtain ⟨h1, h2⟩ := h
      rw [h1, h2] at hn
      rw [h1] at hx
      rw [h2] at hy
      split at hk
      · omega
      · omega
  · rintro ⟨h1, h2, h3, h4, h5, h6, h7⟩
    refine ⟨((r2 - r1 - (s.minRD + m)) / 2).toNat, ?_, ?_⟩
    · split
      · omega
      · omega
    · have hk : (((r2 - r1 - (s.minRD + m)) / 2).toNat : Int) = (r2 - r1 - (s.minRD + m)) / 2 := by omega
      rw [hk]
      have e1 : sum - (s.minRD + m + 2 * ((r2 - r1 - (s.minRD + m)) / 2)) = 2 * r1 := by omega
      have e2 : sum + (s.minRD + m + 2 * ((r2 - r1 - (s.minRD + m)) / 2)) = 2 * r2 := by omega
      rw [e1, e2]
      have hx := tdiv2_spec (2 * r1)
      have hy := tdiv2_spec (2 * r2)
      have e3 : (2 * r1).tdiv 2 = r1 := by omega
      have e4 : (2 * r2).tdiv 2 = r2 := by omega
      rw [e3, e4, if_neg (by omega)]

theorem Seg.inc_cases (s : Seg) : (s.inc = 1 ∧ s.maxRD = s.minRD) ∨ (s.inc = 2 ∧ s.maxRD ≠ s.minRD) := by
  unfold Seg.inc
  by_cases h : s.maxRD = s.minRD
  · left; simp [h]
  · right; simp [h]

/-- `get_m` is antisymmetric about the centre of the axial range -/
theorem Seg.getM_antisym (spacing : Rat) (s : Seg) (a : Int) :
    s.getM spacing (s.numAx - 1 - a) = -s.getM spacing a := by
  unfold Seg.getM Seg.mOffset
  push_cast
  ring

/-- `get_m` increases by the axial sampling per axial position -/
theorem Seg.getM_succ (spacing : Rat) (s : Seg) (a : Int) :
    s.getM spacing (a + 1) = s.getM spacing a + s.axialSampling spacing := by
  unfold Seg.getM
  push_cast
  ring

theorem Seg.axialSampling_pos (spacing : Rat) (h : 0 < spacing) (s : Seg) : 0 < s.axialSampling spacing := by
  unfold Seg.axialSampling
  rcases s.inc_cases with ⟨h1, _⟩ | ⟨h1, _⟩ <;> rw [h1] <;> simp <;> linarith

/-- **`get_m` is the axial midpoint of every ring pair that contributes to the bin** -/
theorem Seg.getM_eq_midpoint (spacing : Rat) (R : Int) (s : Seg) (off a r1 r2 : Int)
    (hoff : s.axOff R = some off) (h : (r1, r2) ∈ s.ringPairsOf R off a) :
    s.getM spacing a = (ringZ spacing R r1 + ringZ spacing R r2) / 2 := by
  have hsum := ((Seg.mem_loop_iff R s off a r1 r2).1 h).2.2.2.2.2.2
  unfold Seg.axOff at hoff
  split at hoff
  · exact absurd hoff (by simp)
  · rename_i hmod
    simp only [Option.some.injEq] at hoff
    unfold Seg.ringSum at hsum
    unfold Seg.getM Seg.mOffset Seg.axialSampling ringZ
    rcases s.inc_cases with ⟨h1, _⟩ | ⟨h1, _⟩
    · rw [h1] at hsum hoff hmod ⊢
      have e1 : (2 * a).tdiv 1 = 2 * a := Int.tdiv_one _
      have e2 : (s.numAx - 1).tdiv 1 = s.numAx - 1 := Int.tdiv_one _
      rw [e1] at hsum
      rw [e2] at hoff
      have hz : r1 + r2 = 2 * a + (R - 1 - (s.numAx - 1)) := by omega
      have hzq : (r1 : Rat) + (r2 : Rat) = 2 * (a : Rat) + ((R : Rat) - 1 - ((s.numAx : Rat) - 1)) := by exact_mod_cast hz
      push_cast
      have : (r2 : Rat) = 2 * (a : Rat) + ((R : Rat) - 1 - ((s.numAx : Rat) - 1)) - r1 := by linarith
      rw [this]
      ring
    · rw [h1] at hsum hoff hmod ⊢
      have hq := tdiv2_spec (s.numAx - 1)
      have hm2 := tmod2_spec (s.numAx - 1)
      have ha := tdiv2_spec (2 * a)
      have hmod' : (s.numAx - 1).tmod 2 = 0 := by
        simp only [bne_iff_ne, ne_eq, Decidable.not_not] at hmod
        exact hmod
      have e1 : (2 * a).tdiv 2 = a := by omega
      rw [e1] at hsum
      have hn : s.numAx - 1 = 2 * (s.numAx - 1).tdiv 2 := by omega
      generalize (s.numAx - 1).tdiv 2 = q at *
      have hz : r1 + r2 = a + (R - 1 - q) := by omega
      have hzq : (r1 : Rat) + (r2 : Rat) = (a : Rat) + ((R : Rat) - 1 - (q : Rat)) := by exact_mod_cast hz
      have hnq : (s.numAx : Rat) - 1 = 2 * (q : Rat) := by exact_mod_cast hn
      push_cast
      have : (r2 : Rat) = (a : Rat) + ((R : Rat) - 1 - (q : Rat)) - r1 := by linarith
      rw [this, hnq]
      ring

theorem foldl_add_const (c : Rat) (l : List Rat) (h : ∀ x ∈ l, x = c) (acc : Rat) :
    l.foldl (· + ·) acc = acc + (l.length : Rat) * c := by
  induction l generalizing acc with
  | nil => simp
  | cons x xs ih =>
    simp only [List.foldl_cons, List.length_cons]
    rw [ih (fun y hy => h y (List.mem_cons_of_mem _ hy)), h x (List.mem_cons_self)]
    push_cast
    ring

theorem ratMean_const (c : Rat) (l : List Rat) (hne : l ≠ []) (h : ∀ x ∈ l, x = c) : ratMean l = c := by
  unfold ratMean
  rw [foldl_add_const c l h 0]
  have hl : (l.length : Rat) ≠ 0 := by
    have : l.length ≠ 0 := by
      intro h0; exact hne (List.length_eq_zero_iff.mp h0)
    exact_mod_cast this
  push_cast
  field_simp
  ring

/-- **compressed data: `get_m` is the average of the axial midpoints of the contributing ring pairs** -/
theorem avgMCompressed_eq_getM (spacing : Rat) (R : Int) (s : Seg) (off a : Int)
    (hoff : s.axOff R = some off) (hne : s.ringPairsOf R off a ≠ []) :
    avgMCompressed spacing R s off a = s.getM spacing a := by
  unfold avgMCompressed
  apply ratMean_const
  · intro h; exact hne (List.map_eq_nil_iff.mp h)
  · intro x hx
    obtain ⟨p, hp, rfl⟩ := List.mem_map.mp hx
    exact (Seg.getM_eq_midpoint spacing R s off a p.1 p.2 hoff hp).symm

/-- every contributing ring difference lies in the segment's range, hence so does their average -/
theorem ringPairs_rd_range (R : Int) (s : Seg) (off a r1 r2 : Int) (h : (r1, r2) ∈ s.ringPairsOf R off a) :
    s.minRD ≤ r2 - r1 ∧ r2 - r1 ≤ s.maxRD := by
  have := (Seg.mem_loop_iff R s off a r1 r2).1 h
  exact ⟨this.2.2.2.2.1, this.2.2.2.2.2.1⟩

/-! ### opposite segments -/

theorem Seg.mirror_inc (s : Seg) : s.mirror.inc = s.inc := by
  unfold Seg.inc Seg.mirror
  by_cases h : s.maxRD = s.minRD
  · simp [h]
  · have : ¬ (-s.minRD = -s.maxRD) := by omega
    simp [h, this]

/-- opposite segments have opposite average ring difference (hence opposite `tan θ`) … -/
theorem Seg.mirror_avgRD (s : Seg) : s.mirror.avgRD = -s.avgRD := by
  unfold Seg.avgRD Seg.mirror
  push_cast
  ring

/-- … and the same axial coordinates -/
theorem Seg.mirror_getM (spacing : Rat) (s : Seg) (a : Int) : s.mirror.getM spacing a = s.getM spacing a := by
  unfold Seg.getM Seg.mOffset Seg.axialSampling
  rw [Seg.mirror_inc]
  rfl

/-- **the segment table of `ProjDataInfoCTI`: segment `-k` is the mirror image of segment `k`** -/
theorem cti_opposite_segments (span maxDelta R minSeg : Int) (segs : List Seg)
    (h : ctiSegments span maxDelta R = some (minSeg, segs)) (k : Int) (hk : 0 < k) :
    segAt minSeg segs (-k) = (segAt minSeg segs k).map Seg.mirror := by
  unfold ctiSegments at h
  cases hp : ctiPositive span maxDelta R with
  | none => rw [hp] at h; exact absurd h (by simp)
  | some pos =>
    rw [hp] at h
    simp only [Option.map_some, Option.some.injEq, Prod.mk.injEq] at h
    obtain ⟨hmin, hsegs⟩ := h
    subst hmin hsegs
    unfold segAt
    have hlen : ((pos.drop 1).reverse.map Seg.mirror).length = pos.length - 1 := by simp
    by_cases hkl : k < pos.length
    · -- both in range
      have hpos : 0 < pos.length := by omega
      have h1 : ¬ (-k < -((pos.length : Int) - 1)) := by omega
      have h2 : ¬ (k < -((pos.length : Int) - 1)) := by omega
      rw [if_neg h1, if_neg h2]
      have i1 : (-k - -((pos.length : Int) - 1)).toNat = pos.length - 1 - k.toNat := by omega
      have i2 : (k - -((pos.length : Int) - 1)).toNat = (pos.length - 1) + k.toNat := by omega
      rw [i1, i2]
      rw [List.getElem?_append_left (by rw [hlen]; omega)]
      rw [List.getElem?_append_right (by rw [hlen]; omega)]
      rw [hlen]
      have i3 : pos.length - 1 + k.toNat - (pos.length - 1) = k.toNat := by omega
      rw [i3, List.getElem?_map, List.getElem?_reverse (by simp; omega)]
      simp only [List.length_drop, List.getElem?_drop]
      have i4 : 1 + (pos.length - 1 - 1 - (pos.length - 1 - k.toNat)) = k.toNat := by omega
      rw [i4]
    · -- both out of range
      have h1 : (-k < -((pos.length : Int) - 1)) := by omega
      rw [if_pos h1]
      by_cases h2 : k < -((pos.length : Int) - 1)
      · rw [if_pos h2]; rfl
      · rw [if_neg h2]
        have : ((pos.drop 1).reverse.map Seg.mirror ++ pos)[(k - -((pos.length : Int) - 1)).toNat]? = none := by
          apply List.getElem?_eq_none
          rw [List.length_append, hlen]
          omega
        rw [this]; rfl

/-! ### segment 0 of the `ProjDataInfoCTI` table (repaired code: `max_delta ≥ span/2` is required) -/

theorem cti_go_head (span maxDelta : Int) (fuel : Nat) (acc : List (Int × Int)) (curMax : Int) (x : Int × Int) (rest : List (Int × Int))
    (h : acc = x :: rest) : ∃ rest', ctiPositive.go span maxDelta fuel acc curMax = x :: rest' := by
  induction fuel generalizing acc curMax rest with
  | zero => exact ⟨rest, by unfold ctiPositive.go; exact h⟩
  | succ n ih =>
    unfold ctiPositive.go
    split
    · exact ih (acc ++ [(curMax + 1, curMax + span)]) (curMax + span) (rest ++ [(curMax + 1, curMax + span)]) (by rw [h]; rfl)
    · exact ⟨rest, h⟩


theorem cti_min0_max0 (span : Int) (hs : 1 ≤ span) :
    (if span.tmod 2 == 1 then -((span - 1).tdiv 2) else -(span.tdiv 2)) = -(span.tdiv 2) ∧
    (if span.tmod 2 == 1 then (if span.tmod 2 == 1 then -((span - 1).tdiv 2) else -(span.tdiv 2)) + span - 1
      else (if span.tmod 2 == 1 then -((span - 1).tdiv 2) else -(span.tdiv 2)) + span) = span.tdiv 2 := by
  have a := (C01.tdiv2_spec span).1 (by omega)
  have b := (C01.tdiv2_spec (span - 1)).1 (by omega)
  have c := C01.tmod2_spec span
  by_cases h : span.tmod 2 = 1
  · simp only [h, beq_self_eq_true, if_true]
    rw [c, a] at h
    rw [a, b]
    constructor <;> omega
  · have h' : (span.tmod 2 == 1) = false := by simp [h]
    simp only [h', Bool.false_eq_true, if_false]
    rw [c, a] at h
    rw [a]
    constructor <;> first | trivial | omega

/-- segment 0 of the table of `ProjDataInfoCTI` is symmetric: ring differences `-span/2 … span/2` -/
theorem ctiPositive_head (span maxDelta R : Int) (pos : List Seg) (h : ctiPositive span maxDelta R = some pos) :
    ∃ s0 rest, pos = s0 :: rest ∧ s0.minRD = -(span.tdiv 2) ∧ s0.maxRD = span.tdiv 2 := by
  unfold ctiPositive at h
  split at h
  · exact absurd h (by simp)
  · rename_i hvalid
    have hs : 1 ≤ span := by omega
    have hmd : span.tdiv 2 ≤ maxDelta := by omega
    obtain ⟨e0, e1⟩ := cti_min0_max0 span hs
    simp only [] at h
    rw [e1, e0] at h
    obtain ⟨rest', hgo⟩ := cti_go_head span maxDelta R.toNat [(-(span.tdiv 2), span.tdiv 2)] (span.tdiv 2) _ [] rfl
    rw [hgo] at h
    injection h with h
    cases rest' with
    | nil =>
      simp only [List.getLast?_singleton] at h
      rw [if_neg (by omega)] at h
      simp only [List.mapIdx_cons, List.mapIdx_nil] at h
      exact ⟨_, _, h.symm, rfl, rfl⟩
    | cons y ys =>
      cases hl : (((-(span.tdiv 2), span.tdiv 2) :: y :: ys).getLast?) with
      | none => simp at hl
      | some lh =>
        rw [hl] at h
        obtain ⟨lo, hi⟩ := lh
        simp only [] at h
        by_cases hc : hi > maxDelta
        · rw [if_pos hc, List.dropLast_cons_cons, List.cons_append, List.mapIdx_cons] at h
          exact ⟨_, _, h.symm, rfl, rfl⟩
        · rw [if_neg hc, List.mapIdx_cons] at h
          exact ⟨_, _, h.symm, rfl, rfl⟩


/-- segment 0 is symmetric about ring difference 0, hence has average ring difference (obliqueness) 0 -/
theorem cti_segment0 (span maxDelta R minSeg : Int) (segs : List Seg)
    (h : ctiSegments span maxDelta R = some (minSeg, segs)) :
    ∃ s0, segAt minSeg segs 0 = some s0 ∧ s0.minRD = -s0.maxRD ∧ s0.avgRD = 0 := by
  unfold ctiSegments at h
  cases hp : ctiPositive span maxDelta R with
  | none => rw [hp] at h; exact absurd h (by simp)
  | some pos =>
    rw [hp] at h
    simp only [Option.map_some, Option.some.injEq, Prod.mk.injEq] at h
    obtain ⟨hmin, hsegs⟩ := h
    subst hmin hsegs
    obtain ⟨s0, rest, hpos, h1, h2⟩ := ctiPositive_head span maxDelta R pos hp
    refine ⟨s0, ?_, by omega, ?_⟩
    · unfold segAt
      have hlen : ((pos.drop 1).reverse.map Seg.mirror).length = pos.length - 1 := by simp
      have hpl : 0 < pos.length := by rw [hpos]; simp
      rw [if_neg (by omega)]
      have i1 : (0 - -((pos.length : Int) - 1)).toNat = pos.length - 1 := by omega
      rw [i1, List.getElem?_append_right (by omega), hlen]
      simp [hpos]
    · unfold Seg.avgRD
      have : s0.minRD + s0.maxRD = 0 := by omega
      rw [this]; simp

end StirVerif.C12
