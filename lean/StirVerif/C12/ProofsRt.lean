/-
C12 — proofs: what the model's detector-based round trip `CylGeom.roundTrip` (the function the driver executes for `rt`
operations; `ProjDataInfoCylindricalNoArcCorr::get_bin ∘ get_LOR` on exact angles, every rounding of a tie listed) can
answer, transaxially, for data without view mashing: a miss, or a bin at most one step away.
-/
import StirVerif.C12.ProofsTrans
import StirVerif.C12.ProofsArc

namespace StirVerif.C12

theorem floor_int_add_half (k : Int) : ((k : Rat) + 1/2).floor = k := by
  show ⌊(k : Rat) + 1/2⌋ = k
  rw [Int.floor_eq_iff]; constructor <;> linarith

theorem floor_int (k : Int) : ((k : Rat)).floor = k := by
  show ⌊(k : Rat)⌋ = k
  exact Int.floor_intCast k

theorem roundCandidates_int (k : Int) : roundCandidates (k : Rat) = [k] := by
  unfold roundCandidates
  rw [floor_int]
  simp only [sub_self]
  rw [if_neg (by norm_num), roundRat_int]

theorem roundCandidates_int_half (k : Int) : roundCandidates ((k : Rat) + 1/2) = [k, k + 1] := by
  unfold roundCandidates
  rw [floor_int_add_half]
  have : (k : Rat) + 1/2 - (k : Rat) = 1/2 := by ring
  rw [this, if_pos (by norm_num)]

/-- the candidates of rounding `n + tp/2`: the value itself for even `tp`, both neighbours of the half-integer for odd `tp` -/
theorem roundCandidates_half (n tp : Int) :
    roundCandidates ((n : Rat) + (tp : Rat) / 2) =
      if tp % 2 = 0 then [n + tp / 2] else [n + tp / 2, n + tp / 2 + 1] := by
  have hr : tp % 2 = 0 ∨ tp % 2 = 1 := by omega
  rcases hr with h | h
  · have hx : (n : Rat) + (tp : Rat) / 2 = ((n + tp / 2 : Int) : Rat) := by
      have : (tp : Rat) = 2 * ((tp / 2 : Int) : Rat) := by
        have : tp = 2 * (tp / 2) := by omega
        exact_mod_cast this
      push_cast; rw [this]; ring
    rw [hx, roundCandidates_int, if_pos h]
  · have hx : (n : Rat) + (tp : Rat) / 2 = ((n + tp / 2 : Int) : Rat) + 1/2 := by
      have : (tp : Rat) = 2 * ((tp / 2 : Int) : Rat) + 1 := by
        have : tp = 2 * (tp / 2) + 1 := by omega
        exact_mod_cast this
      push_cast; rw [this]; ring
    have h0 : ¬ tp % 2 = 0 := by omega
    rw [hx, roundCandidates_int_half, if_neg h0]


theorem moduloInt_eq_emod (a n : Int) (hn : 0 < n) : moduloInt a n = a % n := by
  unfold moduloInt
  simp only []
  rw [Int.tmod_eq_emod]
  have h0 := Int.emod_nonneg a (ne_of_gt hn)
  have h1 := Int.emod_lt_of_pos a hn
  have hnat : (n.natAbs : Int) = n := by omega
  split
  · have hz : a % n - ((0 : Nat) : Int) = a % n := by omega
    rw [hz, if_neg (by omega)]
  · rw [hnat, if_pos (by omega)]; omega

theorem moduloInt_tmod_add (x n e : Int) (hn : 0 < n) (h0 : 0 ≤ x + n) :
    moduloInt ((x + n).tmod n + e) n = moduloInt (x + e) n := by
  rw [moduloInt_eq_emod _ _ hn, moduloInt_eq_emod _ _ hn, Int.tmod_eq_emod_of_nonneg h0]
  rw [Int.add_emod, Int.emod_emod_of_dvd _ (Int.dvd_refl n), ← Int.add_emod]
  have : x + n + e = x + e + n * 1 := by ring
  rw [this, Int.add_mul_emod_self_left]


/-- **what the model's `get_bin ∘ get_LOR` (no view mashing) can answer**: a miss, or the bin of the two detectors
    obtained from the bin's own detectors by rounding each end point down or up (`e1, e2 ∈ {0,1}`, both 0 for even
    tangential positions), different from each other, with a tangential position inside the data -/
theorem roundTrip_transaxial (g : CylGeom) (m : Int) (b : Bin) (hN : g.N = 2 * m) (hm : 0 < m) (hmash : g.mash = 1)
    (hv : 0 ≤ b.view ∧ b.view < m) (ht : -m < b.tang ∧ b.tang < m) (r : RtResult) (hr : r ∈ g.roundTrip b) :
    r = RtResult.miss ∨ ∃ nb e1 e2, r = RtResult.bin nb ∧ (e1 = 0 ∨ e1 = 1) ∧ (e2 = 0 ∨ e2 = 1) ∧
      (b.tang % 2 = 1 ∨ (e1 = 0 ∧ e2 = 0)) ∧
      moduloInt ((viewTangToDet (2 * m) b.view b.tang).1 + e1) (2 * m) ≠ moduloInt ((viewTangToDet (2 * m) b.view b.tang).2 + e2) (2 * m) ∧
      nb.view = (detToViewTang (2 * m) (moduloInt ((viewTangToDet (2 * m) b.view b.tang).1 + e1) (2 * m))
        (moduloInt ((viewTangToDet (2 * m) b.view b.tang).2 + e2) (2 * m))).1 ∧
      nb.tang = (detToViewTang (2 * m) (moduloInt ((viewTangToDet (2 * m) b.view b.tang).1 + e1) (2 * m))
        (moduloInt ((viewTangToDet (2 * m) b.view b.tang).2 + e2) (2 * m))).2.1 ∧
      g.minTang ≤ nb.tang ∧ nb.tang ≤ g.maxTang := by
  unfold CylGeom.roundTrip at hr
  cases hs : segAt g.minSeg g.segs b.seg with
  | none => rw [hs] at hr; simp at hr
  | some sg =>
    rw [hs] at hr
    simp only [] at hr
    rw [hmash, hN] at hr
    have hx1 : (((1 * b.view : Int) : Rat) + (((1 : Int) - 1 : Int) : Rat) / 2) + (b.tang : Rat) / 2 = (b.view : Rat) + (b.tang : Rat) / 2 := by
      push_cast; ring
    have hx2 : (((1 * b.view : Int) : Rat) + (((1 : Int) - 1 : Int) : Rat) / 2) - (b.tang : Rat) / 2 + (((2 * m : Int) : Rat) / 2)
        = ((b.view + m : Int) : Rat) + ((-b.tang : Int) : Rat) / 2 := by
      push_cast; ring
    rw [hx1, hx2, roundCandidates_half, roundCandidates_half] at hr
    simp only [List.mem_flatMap, List.mem_map] at hr
    obtain ⟨a1, ha1, a2, ha2, r1, _, r2, _, hres⟩ := hr
    -- the two rounded end points
    have he1 : ∃ e1, (e1 = 0 ∨ e1 = 1) ∧ (b.tang % 2 = 1 ∨ e1 = 0) ∧ a1 = b.view + b.tang / 2 + e1 := by
      split at ha1
      · simp only [List.mem_singleton] at ha1; exact ⟨0, Or.inl rfl, Or.inr rfl, by omega⟩
      · simp only [List.mem_cons, List.not_mem_nil, or_false] at ha1
        rcases ha1 with h | h
        · exact ⟨0, Or.inl rfl, Or.inr rfl, by omega⟩
        · exact ⟨1, Or.inr rfl, Or.inl (by omega), by omega⟩
    have he2 : ∃ e2, (e2 = 0 ∨ e2 = 1) ∧ (b.tang % 2 = 1 ∨ e2 = 0) ∧ a2 = b.view - (b.tang + 1) / 2 + m + e2 := by
      split at ha2
      · simp only [List.mem_singleton] at ha2; exact ⟨0, Or.inl rfl, Or.inr rfl, by omega⟩
      · simp only [List.mem_cons, List.not_mem_nil, or_false] at ha2
        rcases ha2 with h | h
        · exact ⟨0, Or.inl rfl, Or.inr rfl, by omega⟩
        · exact ⟨1, Or.inr rfl, Or.inl (by omega), by omega⟩
    obtain ⟨e1, he1a, he1b, rfl⟩ := he1
    obtain ⟨e2, he2a, he2b, rfl⟩ := he2
    have hd1 : moduloInt (b.view + b.tang / 2 + e1) (2 * m) = moduloInt ((viewTangToDet (2 * m) b.view b.tang).1 + e1) (2 * m) := by
      rw [viewTangToDet_eq m b.view b.tang hm]
      simp only []
      rw [moduloInt_tmod_add _ _ _ (by omega) (by omega)]
    have hd2 : moduloInt (b.view - (b.tang + 1) / 2 + m + e2) (2 * m) = moduloInt ((viewTangToDet (2 * m) b.view b.tang).2 + e2) (2 * m) := by
      rw [viewTangToDet_eq m b.view b.tang hm]
      simp only []
      have := moduloInt_tmod_add (b.view - (b.tang + 1) / 2 - m) (2 * m) e2 (by omega) (by omega)
      have e : b.view - (b.tang + 1) / 2 - m + 2 * m = b.view - (b.tang + 1) / 2 + m := by ring
      rw [e] at this
      rw [this]
      have : b.view - (b.tang + 1) / 2 - m + e2 + 2 * m * 1 = b.view - (b.tang + 1) / 2 + m + e2 := by ring
      rw [← this, moduloInt_eq_emod _ _ (by omega), moduloInt_eq_emod _ _ (by omega), Int.add_mul_emod_self_left]
    rw [hd1, hd2] at hres
    subst hres
    -- case analysis of the result expression
    split
    · left; rfl
    · split
      · left; rfl
      · rename_i hne
        split
        · left; rfl
        · rename_i nb hb
          split
          · left; rfl
          · rename_i hrange
            right
            refine ⟨nb, e1, e2, rfl, he1a, he2a, ?_, hne, ?_, ?_, by omega, by omega⟩
            · rcases he1b with h | h
              · exact Or.inl h
              · rcases he2b with h' | h'
                · exact Or.inl h'
                · exact Or.inr ⟨h, h'⟩
            all_goals
              unfold CylGeom.binForDetPair at hb
              rw [hmash, hN] at hb
              simp only [] at hb
              split at hb
              · simp only [Option.map_eq_some_iff] at hb
                obtain ⟨⟨s, a⟩, _, rfl⟩ := hb
                simp
              · simp only [Option.map_eq_some_iff] at hb
                obtain ⟨⟨s, a⟩, _, rfl⟩ := hb
                simp


/-- **model-level transaxial round trip** (no view mashing): every answer of `roundTrip` is a miss or a bin that is at
    most one step away in view and tangential position (`StepClose`, with the last-view/first-view sign reversal) and
    inside the tangential range of the data -/
theorem roundTrip_stepClose (g : CylGeom) (m : Int) (b : Bin) (hN : g.N = 2 * m) (hm : 0 < m) (hmash : g.mash = 1)
    (hv : 0 ≤ b.view ∧ b.view < m) (ht : -m < b.tang ∧ b.tang < m) (r : RtResult) (hr : r ∈ g.roundTrip b) :
    r = RtResult.miss ∨ ∃ nb flag, r = RtResult.bin nb ∧ StepClose m b.view b.tang (nb.view, nb.tang, flag) ∧
      g.minTang ≤ nb.tang ∧ nb.tang ≤ g.maxTang := by
  rcases roundTrip_transaxial g m b hN hm hmash hv ht r hr with h | ⟨nb, e1, e2, hb, he1, he2, hodd, hne, hview, htang, hlo, hhi⟩
  · exact Or.inl h
  · right
    have hs := nearest_detector_roundtrip m b.view b.tang e1 e2 hm hv ht he1 he2 hodd hne
    refine ⟨nb, (detToViewTang (2 * m) (moduloInt ((viewTangToDet (2 * m) b.view b.tang).1 + e1) (2 * m))
        (moduloInt ((viewTangToDet (2 * m) b.view b.tang).2 + e2) (2 * m))).2.2, hb, ?_, hlo, hhi⟩
    rw [hview, htang]
    exact hs

end StirVerif.C12
