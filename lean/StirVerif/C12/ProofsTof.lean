/-
C12 — proofs, TOF bin table (exact rational arithmetic): boundaries contiguous, symmetric, monotone; a time difference
inside a bin is assigned to that bin.
-/
import StirVerif.C12.Model
import Mathlib.Tactic.Ring
import Mathlib.Tactic.Linarith
import Mathlib.Tactic.FieldSimp
import Mathlib.Tactic.NormNum
import Mathlib.Algebra.Order.Field.Rat

namespace StirVerif.C12

theorem cHalf_pos : 0 < cHalf := by unfold cHalf; norm_num

/-- with an odd number of TOF bins (the only case `set_tof_mash_factor` accepts) `get_k(t) = t·inc` -/
theorem getK_odd (n : Int) (inc : Rat) (t : Int) (hodd : n.tmod 2 ≠ 0) : getK n inc t = (t : Rat) * inc := by
  unfold getK
  have : (n.tmod 2 == 0) = false := by simpa using hodd
  rw [this]; rfl

theorem samplingK_odd (n : Int) (inc : Rat) (t : Int) (hodd : n.tmod 2 ≠ 0) : samplingK n inc t = inc := by
  unfold samplingK
  rw [getK_odd n inc _ hodd, getK_odd n inc _ hodd]
  push_cast; ring

theorem tofLow_odd (n : Int) (inc : Rat) (t : Int) (hodd : n.tmod 2 ≠ 0) : tofLow n inc t = ((t : Rat) - 1/2) * inc := by
  unfold tofLow; rw [getK_odd n inc _ hodd, samplingK_odd n inc _ hodd]; ring

theorem tofHigh_odd (n : Int) (inc : Rat) (t : Int) (hodd : n.tmod 2 ≠ 0) : tofHigh n inc t = ((t : Rat) + 1/2) * inc := by
  unfold tofHigh; rw [getK_odd n inc _ hodd, samplingK_odd n inc _ hodd]; ring

/-- boundaries are contiguous: `high(t) = low(t+1)` -/
theorem tof_contiguous (n : Int) (inc : Rat) (t : Int) (hodd : n.tmod 2 ≠ 0) : tofHigh n inc t = tofLow n inc (t + 1) := by
  rw [tofHigh_odd n inc t hodd, tofLow_odd n inc _ hodd]; push_cast; ring

/-- opposite TOF bins have opposite distances -/
theorem getK_neg (n : Int) (inc : Rat) (t : Int) (hodd : n.tmod 2 ≠ 0) : getK n inc (-t) = -getK n inc t := by
  rw [getK_odd n inc _ hodd, getK_odd n inc _ hodd]; push_cast; ring

/-- the boundary table is symmetric: bin `-t` is the mirror image of bin `t` -/
theorem tof_symmetric (n : Int) (inc : Rat) (t : Int) (hodd : n.tmod 2 ≠ 0) :
    tofLow n inc (-t) = -tofHigh n inc t ∧ tofHigh n inc (-t) = -tofLow n inc t := by
  rw [tofLow_odd n inc _ hodd, tofHigh_odd n inc _ hodd, tofLow_odd n inc _ hodd, tofHigh_odd n inc _ hodd]
  constructor <;> (push_cast; ring)

/-- distances increase with the TOF bin index, and every bin is non-empty -/
theorem getK_strictMono (n : Int) (inc : Rat) (hinc : 0 < inc) (hodd : n.tmod 2 ≠ 0) (t t' : Int) (h : t < t') :
    getK n inc t < getK n inc t' := by
  rw [getK_odd n inc _ hodd, getK_odd n inc _ hodd]
  have : (t : Rat) < (t' : Rat) := by exact_mod_cast h
  exact mul_lt_mul_of_pos_right this hinc

theorem tof_low_lt_high (n : Int) (inc : Rat) (hinc : 0 < inc) (hodd : n.tmod 2 ≠ 0) (t : Int) :
    tofLow n inc t < tofHigh n inc t := by
  rw [tofLow_odd n inc _ hodd, tofHigh_odd n inc _ hodd]
  have : (t : Rat) - 1/2 < (t : Rat) + 1/2 := by linarith
  exact mul_lt_mul_of_pos_right this hinc

/-- what `set_tof_mash_factor` establishes -/
theorem setTofMash_spec (maxNum : Int) (size : Rat) (mash : Int) (T : TofTable)
    (h : setTofMash maxNum size mash = some T) :
    T.numBins.tmod 2 ≠ 0 ∧ T.numBins = maxNum.tdiv mash ∧ T.maxPos = T.minPos + T.numBins - 1 ∧
      T.minPos = -(T.numBins.tdiv 2) ∧ T.inc = ((mash : Rat) * size) * cHalf ∧ mash ≤ maxNum := by
  unfold setTofMash at h
  split at h
  · exact absurd h (by simp)
  · rename_i hm
    simp only [] at h
    split at h
    · exact absurd h (by simp)
    · rename_i hn
      simp only [Option.some.injEq] at h
      subst h
      simp only []
      have hn' : (-((maxNum.tdiv mash).tdiv 2) + maxNum.tdiv mash - 1 - -((maxNum.tdiv mash).tdiv 2) + 1) = maxNum.tdiv mash := by omega
      rw [hn'] at hn ⊢
      refine ⟨by simpa using hn, rfl, by omega, rfl, ?_, by omega⟩
      first | rfl | trivial

/-- the range of TOF positions is symmetric about 0 -/
theorem setTofMash_symmetric_range (maxNum : Int) (size : Rat) (mash : Int) (T : TofTable)
    (h : setTofMash maxNum size mash = some T) (hpos : 0 < T.numBins) : T.minPos = -T.maxPos := by
  obtain ⟨hodd, _, hmax, hmin, _, _⟩ := setTofMash_spec maxNum size mash T h
  have h2 : T.numBins.tdiv 2 = T.numBins / 2 := Int.tdiv_eq_ediv_of_nonneg (le_of_lt hpos)
  have h3 : T.numBins.tmod 2 = T.numBins - 2 * T.numBins.tdiv 2 := Int.tmod_def _ 2
  rw [h2] at hmin h3
  have : T.numBins % 2 = 1 := by
    rcases Int.emod_two_eq T.numBins with h0 | h1
    · exfalso; apply hodd; rw [h3]; omega
    · exact h1
  omega

theorem find?_unique {α : Type} (p : α → Bool) (l : List α) (t : α) (hmem : t ∈ l) (ht : p t = true)
    (huniq : ∀ x ∈ l, p x = true → x = t) : l.find? p = some t := by
  induction l with
  | nil => exact absurd hmem (by simp)
  | cons x xs ih =>
    rw [List.find?_cons]
    by_cases hx : p x = true
    · rw [hx]; simp only []; rw [huniq x (List.mem_cons_self) hx]
    · have hx' : p x = false := by simpa using hx
      rw [hx']; simp only []
      rcases List.mem_cons.mp hmem with rfl | hm
      · exact absurd ht hx
      · exact ih hm (fun y hy => huniq y (List.mem_cons_of_mem _ hy))

theorem mem_positions (T : TofTable) (t : Int) : t ∈ T.positions ↔ T.minPos ≤ t ∧ t ≤ T.maxPos := by
  unfold TofTable.positions
  simp only [List.mem_map, List.mem_range]
  constructor
  · rintro ⟨k, hk, rfl⟩; omega
  · rintro ⟨h1, h2⟩; exact ⟨(t - T.minPos).toNat, by omega, by omega⟩

/-- **a time difference inside TOF bin `t` is assigned to bin `t`** (in particular the centre of the bin,
    `get_tof_delta_time`), for any table with positive bin width and an odd number of bins -/
theorem getTofBin_of_mem (T : TofTable) (hinc : 0 < T.inc) (hodd : T.numBins.tmod 2 ≠ 0) (t : Int)
    (ht : T.minPos ≤ t ∧ t ≤ T.maxPos) (delta : Rat) (h1 : T.lowPs t ≤ delta) (h2 : delta < T.highPs t) :
    T.getTofBin delta = t := by
  unfold TofTable.getTofBin
  rw [find?_unique _ T.positions t ((mem_positions T t).2 ht)]
  · simp only [decide_eq_true h1, decide_eq_true h2, Bool.and_self]
  · intro x _ hx
    simp only [Bool.and_eq_true, decide_eq_true_eq] at hx
    obtain ⟨hx1, hx2⟩ := hx
    unfold TofTable.lowPs TofTable.highPs TofTable.low TofTable.high at *
    rw [tofLow_odd _ _ _ hodd] at hx1 h1
    rw [tofHigh_odd _ _ _ hodd] at hx2 h2
    have hc := cHalf_pos
    have e1 : ((x : Rat) - 1/2) * T.inc < ((t : Rat) + 1/2) * T.inc := by
      have a := (div_le_iff₀ hc).mp hx1
      have b := (lt_div_iff₀ hc).mp h2
      linarith
    have e2 : ((t : Rat) - 1/2) * T.inc < ((x : Rat) + 1/2) * T.inc := by
      have a := (div_le_iff₀ hc).mp h1
      have b := (lt_div_iff₀ hc).mp hx2
      linarith
    have f1 : (x : Rat) - 1/2 < (t : Rat) + 1/2 := lt_of_mul_lt_mul_right e1 (le_of_lt hinc)
    have f2 : (t : Rat) - 1/2 < (x : Rat) + 1/2 := lt_of_mul_lt_mul_right e2 (le_of_lt hinc)
    have g1 : (x : Rat) < (t : Rat) + 1 := by linarith
    have g2 : (t : Rat) < (x : Rat) + 1 := by linarith
    have g1' : x < t + 1 := by exact_mod_cast g1
    have g2' : t < x + 1 := by exact_mod_cast g2
    omega

/-- the centre of a bin is found again: `get_tof_bin(get_tof_delta_time(bin)) = bin.timing_pos_num()` -/
theorem getTofBin_centre (T : TofTable) (hinc : 0 < T.inc) (hodd : T.numBins.tmod 2 ≠ 0) (t : Int)
    (ht : T.minPos ≤ t ∧ t ≤ T.maxPos) : T.getTofBin (T.k t / cHalf) = t := by
  apply getTofBin_of_mem T hinc hodd t ht
  · unfold TofTable.lowPs TofTable.low TofTable.k
    rw [tofLow_odd _ _ _ hodd, getK_odd _ _ _ hodd]
    apply div_le_div_of_nonneg_right _ (le_of_lt cHalf_pos)
    have : (t : Rat) - 1/2 ≤ (t : Rat) := by linarith
    exact mul_le_mul_of_nonneg_right this (le_of_lt hinc)
  · unfold TofTable.highPs TofTable.high TofTable.k
    rw [tofHigh_odd _ _ _ hodd, getK_odd _ _ _ hodd]
    apply div_lt_div_of_pos_right _ cHalf_pos
    have : (t : Rat) < (t : Rat) + 1/2 := by linarith
    exact mul_lt_mul_of_pos_right this hinc

/-- the candidate finding as a statement about the model (= the source): a time difference beyond the last bin is
    not reported as out of range but assigned to the FIRST bin -/
theorem getTofBin_beyond_last (T : TofTable) (hinc : 0 < T.inc) (hodd : T.numBins.tmod 2 ≠ 0) (delta : Rat)
    (h : T.highPs T.maxPos ≤ delta) : T.getTofBin delta = T.minPos := by
  unfold TofTable.getTofBin
  have : T.positions.find? (fun i => decide (T.lowPs i ≤ delta) && decide (delta < T.highPs i)) = none := by
    rw [List.find?_eq_none]
    intro x hx
    have hxr := (mem_positions T x).1 hx
    simp only [Bool.and_eq_true, decide_eq_true_eq, not_and, not_lt]
    intro _
    unfold TofTable.highPs TofTable.high at *
    rw [tofHigh_odd _ _ _ hodd] at h ⊢
    refine le_trans ?_ h
    apply div_le_div_of_nonneg_right _ (le_of_lt cHalf_pos)
    have : (x : Rat) + 1/2 ≤ (T.maxPos : Rat) + 1/2 := by
      have : (x : Rat) ≤ (T.maxPos : Rat) := by exact_mod_cast hxr.2
      linarith
    exact mul_le_mul_of_nonneg_right this (le_of_lt hinc)
  rw [this]

end StirVerif.C12
