/-
C12 — proofs, real-valued chord geometry: the two detectors of a bin lie on the line with the bin's tangential
offset and (up to half a view step for odd tangential positions) the bin's azimuthal angle.
-/
import Mathlib.Analysis.SpecialFunctions.Trigonometric.Basic
import Mathlib.Tactic.Ring
import Mathlib.Tactic.Linarith
import Mathlib.Tactic.FieldSimp
import StirVerif.C12.ProofsTrans

namespace StirVerif.C12
open Real

/-- angle of detector `d` of a ring of `N` detectors: `(2π/N)·d + tilt`
    (`find_cartesian_coordinates_given_scanner_coordinates`, ProjDataInfoCylindricalNoArcCorr.cxx:513) -/
noncomputable def detPsi (tilt : ℝ) (N d : ℤ) : ℝ := 2 * π / (N : ℝ) * (d : ℝ) + tilt

/-- STIR coordinates of a point of the ring at angle `ψ` (`LORAs2Points(LORInCylinderCoordinates)`, LORCoordinates.inl:276):
    `x = R sin ψ`, `y = -R cos ψ` -/
noncomputable def ringX (R ψ : ℝ) : ℝ := R * sin ψ
noncomputable def ringY (R ψ : ℝ) : ℝ := -R * cos ψ

/-- signed distance from the axis of the point at `ψ` along the normal `(cos φ, sin φ)`:
    the line `{X = s cos φ + a sin φ, Y = s sin φ - a cos φ}` of STIR's parametrisation is `{x cos φ + y sin φ = s}` -/
theorem ring_point_offset (R ψ φ : ℝ) : ringX R ψ * cos φ + ringY R ψ * sin φ = R * sin (ψ - φ) := by
  unfold ringX ringY; rw [sin_sub]; ring

theorem int_half_decomp (tp : ℤ) : ((tp : ℤ) : ℝ) = 2 * ((tp / 2 : ℤ) : ℝ) + ((tp % 2 : ℤ) : ℝ) := by
  have h : tp = 2 * (tp / 2) + tp % 2 := by omega
  exact_mod_cast h

theorem int_half_up (tp : ℤ) : (((tp + 1) / 2 : ℤ) : ℝ) = ((tp / 2 : ℤ) : ℝ) + ((tp % 2 : ℤ) : ℝ) := by
  have h : (tp + 1) / 2 = tp / 2 + tp % 2 := by omega
  exact_mod_cast h

/-- **the chord of a bin**: both detectors of bin `(v, tp)` lie on the line with tangential offset
    `s = R sin(tp·π/N)` (= `get_s`) whose normal angle is `φ(v) - (tp mod 2)·π/N`: the bin's azimuthal angle
    `φ(v) = v·2π/N + tilt` exactly for even `tp`, and half a view step (`π/N`) off for odd `tp`. -/
theorem chord_through_detectors (R tilt : ℝ) (m v tp : ℤ) (hm : 0 < m) (hv : 0 ≤ v ∧ v < m) (ht : -m < tp ∧ tp ≤ m) :
    let N : ℤ := 2 * m
    let φ : ℝ := 2 * π / (N : ℝ) * (v : ℝ) + tilt - ((tp % 2 : ℤ) : ℝ) * (π / (N : ℝ))
    let s : ℝ := R * sin ((tp : ℝ) * (π / (N : ℝ)))
    ringX R (detPsi tilt N (viewTangToDet N v tp).1) * cos φ + ringY R (detPsi tilt N (viewTangToDet N v tp).1) * sin φ = s ∧
    ringX R (detPsi tilt N (viewTangToDet N v tp).2) * cos φ + ringY R (detPsi tilt N (viewTangToDet N v tp).2) * sin φ = s := by
  intro N φ s
  obtain ⟨k1, k2, h1, h2⟩ := viewTangToDet_explicit m v tp hm hv ht
  have hmR : (m : ℝ) ≠ 0 := by exact_mod_cast (ne_of_gt hm)
  have hN : ((N : ℤ) : ℝ) = 2 * (m : ℝ) := by simp only [N]; push_cast; ring
  constructor
  · rw [ring_point_offset]
    have : detPsi tilt N (viewTangToDet N v tp).1 - φ = (tp : ℝ) * (π / (N : ℝ)) + (k1 : ℤ) * (2 * π) := by
      simp only [detPsi, φ, N] at *
      rw [h1]
      have hd := int_half_decomp tp
      push_cast
      rw [hd]
      field_simp
      ring
    rw [this, sin_add_int_mul_two_pi]
  · rw [ring_point_offset]
    have : detPsi tilt N (viewTangToDet N v tp).2 - φ = π - (tp : ℝ) * (π / (N : ℝ)) + (k2 : ℤ) * (2 * π) := by
      simp only [detPsi, φ, N] at *
      rw [h2]
      have hd := int_half_decomp tp
      have hu := int_half_up tp
      push_cast
      rw [hu, hd]
      field_simp
      ring
    rw [this, sin_add_int_mul_two_pi, sin_pi_sub]

/-- `get_s` of non-arc-corrected data is antisymmetric in the tangential position -/
theorem s_noarc_antisym (R : ℝ) (N tp : ℤ) :
    R * sin (((-tp : ℤ) : ℝ) * (π / (N : ℝ))) = -(R * sin ((tp : ℝ) * (π / (N : ℝ)))) := by
  push_cast; rw [neg_mul, sin_neg]; ring

/-- … and strictly increasing over the whole admissible range `|tp| ≤ N/2` -/
theorem s_noarc_strictMono (R : ℝ) (hR : 0 < R) (m tp tp' : ℤ) (hm : 0 < m) (h0 : -m ≤ tp) (h1 : tp < tp') (h2 : tp' ≤ m) :
    R * sin ((tp : ℝ) * (π / ((2 * m : ℤ) : ℝ))) < R * sin ((tp' : ℝ) * (π / ((2 * m : ℤ) : ℝ))) := by
  have hmR : (0 : ℝ) < (m : ℝ) := by exact_mod_cast hm
  have hpos : (0 : ℝ) < π / ((2 * m : ℤ) : ℝ) := by
    push_cast; exact div_pos pi_pos (by linarith)
  have hscale : (m : ℝ) * (π / ((2 * m : ℤ) : ℝ)) = π / 2 := by
    push_cast; field_simp
  have hlt : (tp : ℝ) * (π / ((2 * m : ℤ) : ℝ)) < (tp' : ℝ) * (π / ((2 * m : ℤ) : ℝ)) := by
    have : (tp : ℝ) < (tp' : ℝ) := by exact_mod_cast h1
    exact mul_lt_mul_of_pos_right this hpos
  have hlo : -(π / 2) ≤ (tp : ℝ) * (π / ((2 * m : ℤ) : ℝ)) := by
    have : (-(m : ℝ)) ≤ (tp : ℝ) := by exact_mod_cast h0
    calc -(π / 2) = (-(m : ℝ)) * (π / ((2 * m : ℤ) : ℝ)) := by rw [neg_mul, hscale]
      _ ≤ (tp : ℝ) * (π / ((2 * m : ℤ) : ℝ)) := mul_le_mul_of_nonneg_right this (le_of_lt hpos)
  have hhi : (tp' : ℝ) * (π / ((2 * m : ℤ) : ℝ)) ≤ π / 2 := by
    have : (tp' : ℝ) ≤ (m : ℝ) := by exact_mod_cast h2
    calc (tp' : ℝ) * (π / ((2 * m : ℤ) : ℝ)) ≤ (m : ℝ) * (π / ((2 * m : ℤ) : ℝ)) := mul_le_mul_of_nonneg_right this (le_of_lt hpos)
      _ = π / 2 := hscale
  have := strictMonoOn_sin ⟨hlo, le_trans (le_of_lt hlt) hhi⟩ ⟨le_trans hlo (le_of_lt hlt), hhi⟩ hlt
  exact mul_lt_mul_of_pos_left this hR

end StirVerif.C12
