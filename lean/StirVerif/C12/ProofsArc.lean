/-
C12 — proofs, arc-corrected data in exact arithmetic: `get_bin (get_LOR b) = b`, including the
"view ≥ V ⇒ subtract V and negate the tangential position" wrap rule; uniform tangential sampling.
-/
import StirVerif.C12.Model
import StirVerif.C12.ProofsTof
import Mathlib.Tactic.Ring
import Mathlib.Tactic.Linarith
import Mathlib.Tactic.FieldSimp
import Mathlib.Tactic.NormNum
import Mathlib.Algebra.Order.Field.Rat
import Mathlib.Algebra.Order.Floor.Ring
import Mathlib.Data.Rat.Floor

namespace StirVerif.C12

/-! ### rounding and `modulo` on exact values -/

theorem roundRat_int (n : Int) : roundRat (n : Rat) = n := by
  unfold roundRat
  split
  · show ⌊(n : Rat) + 1/2⌋ = n
    rw [Int.floor_eq_iff]; constructor <;> linarith
  · show -⌊-(n : Rat) + 1/2⌋ = n
    have : ⌊-(n : Rat) + 1/2⌋ = -n := by
      rw [Int.floor_eq_iff]; push_cast; constructor <;> linarith
    rw [this]; ring

/-- `to_0_2pi` (units of π) of a value that is `x` up to a multiple of 2, `0 ≤ x < 2` -/
theorem to02_of (y x : Rat) (k : Int) (h : y = x + 2 * (k : Rat)) (h0 : 0 ≤ x) (h2 : x < 2) : to02 y = x := by
  unfold to02 moduloRat
  have : (y / 2).floor = k := by
    show ⌊y / 2⌋ = k
    rw [Int.floor_eq_iff, h]; constructor <;> linarith
  rw [this, h]; ring

theorem to02_spec (y : Rat) : ∃ k : Int, to02 y = y - 2 * (k : Rat) ∧ 0 ≤ to02 y ∧ to02 y < 2 := by
  refine ⟨(y / 2).floor, rfl, ?_, ?_⟩
  · unfold to02 moduloRat
    have := Rat.floor_le (y / 2)
    linarith
  · unfold to02 moduloRat
    have : y / 2 < ((y / 2).floor : Rat) + 1 := by
      have := Int.lt_floor_add_one (y / 2)
      exact this
    linarith

/-! ### the geometry hypotheses -/

/-- well-formedness of an arc-corrected geometry: positive sampling, a segment 0 containing ring difference 0,
    ring-difference ranges non-empty and increasing with the segment number, every segment with at least one axial position.
    (All of it holds for the tables built by `ProjDataInfoCTI`.) -/
structure ArcGeom.WF (g : ArcGeom) : Prop where
  hV : 0 < g.V
  hbin : 0 < g.binSize
  hsp : 0 < g.spacing
  hmin : g.minSeg ≤ 0
  hmax : 0 ≤ g.maxSeg
  hzero : ∀ sg, g.seg? 0 = some sg → sg.minRD ≤ 0 ∧ 0 ≤ sg.maxRD
  hne : ∀ s sg, g.seg? s = some sg → sg.minRD ≤ sg.maxRD
  hord : ∀ s s' a b, g.seg? s = some a → g.seg? s' = some b → s < s' → a.maxRD < b.minRD
  htof : ∀ T, g.tof = some T → 0 < T.inc ∧ T.numBins.tmod 2 ≠ 0

/-- the TOF position is one of the data set (0 for non-TOF data) -/
def ArcGeom.TofInRange (g : ArcGeom) (t : Int) : Prop := match g.tof with
  | none => t = 0
  | some T => T.minPos ≤ t ∧ t ≤ T.maxPos

/-- the bin is one of the data set -/
structure ArcGeom.InRange (g : ArcGeom) (b : Bin) (sg : Seg) : Prop where
  hseg : g.seg? b.seg = some sg
  hv : 0 ≤ b.view ∧ b.view < g.V
  ha : 0 ≤ b.ax ∧ b.ax ≤ sg.numAx - 1
  ht : g.minTang ≤ b.tang ∧ b.tang ≤ g.maxTang
  htof : g.TofInRange b.tof

/-- `get_tof_bin (get_tof_delta_time b) = b.tof` -/
theorem ArcGeom.tofBin_deltaTime (g : ArcGeom) (w : g.WF) (t : Int) (h : g.TofInRange t) : g.tofBin (g.deltaTime t) = t := by
  unfold ArcGeom.tofBin ArcGeom.deltaTime
  unfold ArcGeom.TofInRange at h
  cases hT : g.tof with
  | none => rw [hT] at h; simp only []; exact h.symm
  | some T =>
    rw [hT] at h
    simp only []
    exact getTofBin_centre T (w.htof T hT).1 (w.htof T hT).2 t h

theorem ArcGeom.seg?_isSome (g : ArcGeom) (s : Int) (h1 : g.minSeg ≤ s) (h2 : s ≤ g.maxSeg) : ∃ sg, g.seg? s = some sg := by
  unfold ArcGeom.seg? segAt
  rw [if_neg (by omega)]
  unfold ArcGeom.maxSeg at h2
  have : (s - g.minSeg).toNat < g.segs.length := by omega
  exact ⟨g.segs[(s - g.minSeg).toNat], List.getElem?_eq_getElem this⟩

theorem ArcGeom.seg?_range (g : ArcGeom) (s : Int) (sg : Seg) (h : g.seg? s = some sg) : g.minSeg ≤ s ∧ s ≤ g.maxSeg := by
  unfold ArcGeom.seg? segAt at h
  split at h
  · exact absurd h (by simp)
  · rename_i hs
    have := (List.getElem?_eq_some_iff.mp h).1
    unfold ArcGeom.maxSeg
    omega

/-! ### the segment search loops -/

theorem findSegUp_eq (g : ArcGeom) (delta : Rat) (k : Int) (sgk : Seg) (hk : g.seg? k = some sgk)
    (hlast : k < g.maxSeg → delta < (sgk.maxRD : Rat) + 1/2)
    (hskip : ∀ s a, s < k → g.seg? s = some a → ¬ delta < (a.maxRD : Rat) + 1/2) :
    ∀ (fuel : Nat) (s : Int), g.minSeg ≤ s → s ≤ k → (k - s).toNat < fuel → g.findSegUp delta fuel s = k := by
  intro fuel
  induction fuel with
  | zero => intro s _ _ h; omega
  | succ n ih =>
    intro s hs0 hsk hf
    unfold ArcGeom.findSegUp
    have hkr := g.seg?_range k sgk hk
    by_cases hlt : s < g.maxSeg
    · rw [if_pos hlt]
      obtain ⟨a, ha⟩ := g.seg?_isSome s hs0 (by omega)
      rw [ha]
      simp only []
      by_cases hs : s = k
      · subst hs
        rw [hk] at ha
        have : a = sgk := by injection ha with h; exact h.symm
        subst this
        rw [if_pos (hlast hlt)]
      · have hs' : s < k := by omega
        rw [if_neg (hskip s a hs' ha)]
        exact ih (s + 1) (by omega) (by omega) (by omega)
    · rw [if_neg hlt]; omega

theorem findSegDown_eq (g : ArcGeom) (delta : Rat) (k : Int) (sgk : Seg) (hk : g.seg? k = some sgk)
    (hlast : k > g.minSeg → delta > (sgk.minRD : Rat) - 1/2)
    (hskip : ∀ s a, k < s → g.seg? s = some a → ¬ delta > (a.minRD : Rat) - 1/2) :
    ∀ (fuel : Nat) (s : Int), s ≤ g.maxSeg → k ≤ s → (s - k).toNat < fuel → g.findSegDown delta fuel s = k := by
  intro fuel
  induction fuel with
  | zero => intro s _ _ h; omega
  | succ n ih =>
    intro s hs0 hsk hf
    unfold ArcGeom.findSegDown
    have hkr := g.seg?_range k sgk hk
    by_cases hlt : s > g.minSeg
    · rw [if_pos hlt]
      obtain ⟨a, ha⟩ := g.seg?_isSome s (by omega) hs0
      rw [ha]
      simp only []
      by_cases hs : s = k
      · subst hs
        rw [hk] at ha
        have : a = sgk := by injection ha with h; exact h.symm
        subst this
        rw [if_pos (hlast hlt)]
      · have hs' : k < s := by omega
        rw [if_neg (hskip s a hs' ha)]
        exact ih (s - 1) (by omega) (by omega) (by omega)
    · rw [if_neg hlt]; omega

theorem avgRD_bounds (sg : Seg) (h : sg.minRD ≤ sg.maxRD) : (sg.minRD : Rat) ≤ sg.avgRD ∧ sg.avgRD ≤ (sg.maxRD : Rat) := by
  unfold Seg.avgRD
  have : (sg.minRD : Rat) ≤ (sg.maxRD : Rat) := by exact_mod_cast h
  push_cast
  constructor <;> linarith

/-- the segment search finds the bin's own segment from its average ring difference -/
theorem segment_found (g : ArcGeom) (w : g.WF) (k : Int) (sg : Seg) (hk : g.seg? k = some sg) :
    (if sg.avgRD ≥ 0 then g.findSegUp sg.avgRD g.segs.length 0 else g.findSegDown sg.avgRD g.segs.length 0) = k := by
  have hkr := g.seg?_range k sg hk
  have hb := avgRD_bounds sg (w.hne k sg hk)
  obtain ⟨s0, hs0⟩ := g.seg?_isSome 0 w.hmin w.hmax
  have hz := w.hzero s0 hs0
  have hmin := w.hmin
  have hmax := w.hmax
  have hlen : (g.maxSeg - g.minSeg).toNat < g.segs.length := by unfold ArcGeom.maxSeg at hmax ⊢; omega
  have hmaxdef : g.maxSeg = g.minSeg + g.segs.length - 1 := rfl
  split
  · rename_i hpos
    -- average ≥ 0: the segment is ≥ 0
    have hk0 : 0 ≤ k := by
      by_contra hneg
      have hlt : k < 0 := by omega
      have := w.hord k 0 sg s0 hk hs0 hlt
      have h1 : (sg.maxRD : Rat) < (s0.minRD : Rat) := by exact_mod_cast this
      have h2 : (s0.minRD : Rat) ≤ 0 := by exact_mod_cast hz.1
      linarith [hb.2]
    apply findSegUp_eq g sg.avgRD k sg hk
    · intro _; linarith [hb.2]
    · intro s a hs ha hlt
      have := w.hord s k a sg ha hk hs
      have h1 : (a.maxRD : Rat) + 1 ≤ (sg.minRD : Rat) := by exact_mod_cast this
      linarith [hb.1]
    · exact w.hmin
    · exact hk0
    · omega
  · rename_i hneg
    have hneg' : sg.avgRD < 0 := lt_of_not_ge hneg
    have hk0 : k ≤ 0 := by
      by_contra hp
      have hlt : 0 < k := by omega
      have := w.hord 0 k s0 sg hs0 hk hlt
      have h1 : (s0.maxRD : Rat) < (sg.minRD : Rat) := by exact_mod_cast this
      have h2 : (0 : Rat) ≤ (s0.maxRD : Rat) := by exact_mod_cast hz.2
      linarith [hb.1]
    apply findSegDown_eq g sg.avgRD k sg hk
    · intro _; linarith [hb.1]
    · intro s a hs ha hgt
      have := w.hord k s sg a hk ha hs
      have h1 : (sg.maxRD : Rat) + 1 ≤ (a.minRD : Rat) := by exact_mod_cast this
      linarith [hb.2]
    · exact w.hmax
    · exact hk0
    · omega

/-! ### the round trip -/

/-- `get_bin` on a LOR given by its fields -/
theorem getBin_of_fields (g : ArcGeom) (w : g.WF) (b : Bin) (sg : Seg) (r : g.InRange b sg) (l : LorS) (delta : Rat)
    (htb : g.tofBin delta = b.tof)
    (hview : roundRat (to02 (l.phi - g.offset) / (1 / (g.V : Rat))) = (if l.swapped then b.view + g.V else b.view))
    (hs : l.s = (if l.swapped then -((b.tang : Rat) * g.binSize) else (b.tang : Rat) * g.binSize))
    (hz : (if l.swapped then l.z1 - l.z2 else l.z2 - l.z1) = sg.avgRD * g.spacing)
    (hm : (l.z2 + l.z1) / 2 = sg.getM g.spacing b.ax) :
    g.getBin l delta = some b := by
  have hVq : (0 : Rat) < (g.V : Rat) := by exact_mod_cast w.hV
  have hVp := w.hV
  have hv := r.hv
  have htr := r.ht
  have har := r.ha
  have hmin := w.hmin
  have hmax := w.hmax
  unfold ArcGeom.getBin ArcGeom.getBinCore
  simp only [if_true]
  rw [hview]
  have hwrap : wrapView g.V (if l.swapped then b.view + g.V else b.view) = (if l.swapped then b.view + g.V else b.view) := by
    unfold wrapView
    cases l.swapped <;> simp <;> omega
  rw [hwrap]
  have hswap : ((if l.swapped then b.view + g.V else b.view) > g.V - 1) ↔ l.swapped = true := by
    cases l.swapped <;> simp <;> omega
  have hviewfin : (if (if l.swapped then b.view + g.V else b.view) > g.V - 1
      then (if l.swapped then b.view + g.V else b.view) - g.V else (if l.swapped then b.view + g.V else b.view)) = b.view := by
    cases l.swapped <;> simp <;> omega
  have htang : (if (if l.swapped then b.view + g.V else b.view) > g.V - 1 then -roundRat (l.s / g.binSize) else roundRat (l.s / g.binSize)) = b.tang := by
    rw [hs]
    cases l.swapped
    · have : ¬ (b.view > g.V - 1) := by omega
      simp only [Bool.false_eq_true, if_false, this]
      rw [mul_div_assoc, div_self (ne_of_gt w.hbin), mul_one, roundRat_int]
    · have : (b.view + g.V > g.V - 1) := by omega
      simp only [if_true, this]
      rw [← neg_mul, mul_div_assoc, div_self (ne_of_gt w.hbin), mul_one]
      have : -(b.tang : Rat) = ((-b.tang : Int) : Rat) := by push_cast; rfl
      rw [this, roundRat_int]; ring
  rw [htang, hviewfin]
  rw [if_neg (by omega)]
  obtain ⟨top, htop⟩ := g.seg?_isSome g.maxSeg (by omega) (le_refl _)
  obtain ⟨bot, hbot⟩ := g.seg?_isSome g.minSeg (le_refl _) (by omega)
  rw [htop, hbot]
  simp only []
  have hdelta : (if (if l.swapped then b.view + g.V else b.view) > g.V - 1 then l.z1 - l.z2 else l.z2 - l.z1) / g.spacing = sg.avgRD := by
    have : (if (if l.swapped then b.view + g.V else b.view) > g.V - 1 then l.z1 - l.z2 else l.z2 - l.z1)
        = (if l.swapped then l.z1 - l.z2 else l.z2 - l.z1) := by
      cases l.swapped <;> simp <;> omega
    rw [this, hz, mul_div_assoc, div_self (ne_of_gt w.hsp), mul_one]
  rw [hdelta]
  have hb := avgRD_bounds sg (w.hne _ sg r.hseg)
  have hkr := g.seg?_range _ sg r.hseg
  have htopb : sg.maxRD ≤ top.maxRD := by
    by_cases h : b.seg = g.maxSeg
    · have := r.hseg; rw [h, htop] at this; injection this with e; rw [e]
    · have := w.hord b.seg g.maxSeg sg top r.hseg htop (by omega)
      have := w.hne _ top htop
      omega
  have hbotb : bot.minRD ≤ sg.minRD := by
    by_cases h : b.seg = g.minSeg
    · have := r.hseg; rw [h, hbot] at this; injection this with e; rw [e]
    · have := w.hord g.minSeg b.seg bot sg hbot r.hseg (by omega)
      have := w.hne _ bot hbot
      omega
  have h1 : ¬ (sg.avgRD > (top.maxRD : Rat) + 1 ∨ sg.avgRD < (bot.minRD : Rat) - 1) := by
    have a : (sg.maxRD : Rat) ≤ (top.maxRD : Rat) := by exact_mod_cast htopb
    have c : (bot.minRD : Rat) ≤ (sg.minRD : Rat) := by exact_mod_cast hbotb
    intro h; rcases h with h | h <;> linarith [hb.1, hb.2]
  rw [if_neg h1, segment_found g w b.seg sg r.hseg, r.hseg]
  simp only []
  rw [hm]
  have hsamp : 0 < sg.axialSampling g.spacing := by
    unfold Seg.axialSampling Seg.inc
    split <;> simp <;> linarith [w.hsp]
  have hax : (sg.getM g.spacing b.ax - sg.getM g.spacing 0) / sg.axialSampling g.spacing = (b.ax : Rat) := by
    unfold Seg.getM
    have : (b.ax : Rat) * sg.axialSampling g.spacing - sg.mOffset g.spacing - (((0 : Int) : Rat) * sg.axialSampling g.spacing - sg.mOffset g.spacing)
        = (b.ax : Rat) * sg.axialSampling g.spacing := by push_cast; ring
    rw [this, mul_div_assoc, div_self (ne_of_gt hsamp), mul_one]
  rw [hax, roundRat_int, if_neg (by omega), htb]
  have hsign : (l.swapped != decide ((if l.swapped then b.view + g.V else b.view) > g.V - 1)) = false := by
    cases l.swapped <;> simp <;> omega
  rw [hsign]
  cases b
  simp

/-- **arc-corrected round trip, exact arithmetic**: for every bin of the data (every TOF bin),
    `get_bin (get_LOR b, get_tof_delta_time b) = b`;
    this covers both representations of the LOR — `φ` in `[0,π)` and, when the azimuthal offset makes `φ(v)` leave
    that range, the flipped one that `get_bin` undoes by "view ≥ V ⇒ subtract V and negate the tangential position". -/
theorem arccorr_roundtrip (g : ArcGeom) (w : g.WF) (b : Bin) (sg : Seg) (r : g.InRange b sg) (l : LorS)
    (hl : g.lorOf b = some l) : g.getBin l (g.deltaTime b.tof) = some b := by
  have htb := g.tofBin_deltaTime w b.tof r.htof
  have hVq : (0 : Rat) < (g.V : Rat) := by exact_mod_cast w.hV
  have hv := r.hv
  have hv0 : (0 : Rat) ≤ (b.view : Rat) / (g.V : Rat) := div_nonneg (by exact_mod_cast hv.1) (le_of_lt hVq)
  have hv1 : (b.view : Rat) / (g.V : Rat) < 1 := by
    rw [div_lt_one hVq]; exact_mod_cast hv.2
  unfold ArcGeom.lorOf at hl
  rw [r.hseg] at hl
  simp only [Option.map_some, Option.some.injEq] at hl
  obtain ⟨k, hk, hk0, hk2⟩ := to02_spec ((b.view : Rat) / (g.V : Rat) + g.offset)
  unfold LorS.mk' at hl
  simp only [] at hl
  split at hl
  · -- flipped representation
    rename_i hflip
    subst hl
    apply getBin_of_fields g w b sg r _ _ htb
    · simp only [Bool.not_false, if_true]
      have : to02 (to02 ((b.view : Rat) / (g.V : Rat) + g.offset) - 1 - g.offset) = (b.view : Rat) / (g.V : Rat) + 1 := by
        apply to02_of _ _ (-k - 1)
        · rw [hk]; push_cast; ring
        · linarith
        · linarith
      rw [this]
      have : ((b.view : Rat) / (g.V : Rat) + 1) / (1 / (g.V : Rat)) = ((b.view + g.V : Int) : Rat) := by
        push_cast; field_simp
      rw [this, roundRat_int]
    · simp
    · simp only [Bool.not_false, if_true]; ring
    · simp only []; ring
  · rename_i hnoflip
    subst hl
    apply getBin_of_fields g w b sg r _ _ htb
    · simp only [Bool.false_eq_true, if_false]
      have : to02 (to02 ((b.view : Rat) / (g.V : Rat) + g.offset) - g.offset) = (b.view : Rat) / (g.V : Rat) := by
        apply to02_of _ _ (-k)
        · rw [hk]; push_cast; ring
        · exact hv0
        · linarith
      rw [this]
      have : ((b.view : Rat) / (g.V : Rat)) / (1 / (g.V : Rat)) = ((b.view : Int) : Rat) := by
        field_simp
      rw [this, roundRat_int]
    · simp
    · simp only [Bool.false_eq_true, if_false]; ring
    · simp only []; ring

/-! ### uniform tangential sampling of arc-corrected data -/

/-- `get_s` of arc-corrected data (ProjDataInfoCylindricalArcCorr.inl:30) -/
def sArc (binSize : Rat) (tp : Int) : Rat := (tp : Rat) * binSize

/-- `get_sampling_in_s` (ProjDataInfo.cxx:109): half the distance between the two neighbours -/
def samplingS (s : Int → Rat) (tp : Int) : Rat := |s (tp + 1) - s (tp - 1)| / 2

theorem sArc_antisym (binSize : Rat) (tp : Int) : sArc binSize (-tp) = -sArc binSize tp := by
  unfold sArc; push_cast; ring

theorem sArc_strictMono (binSize : Rat) (h : 0 < binSize) (tp tp' : Int) (hlt : tp < tp') : sArc binSize tp < sArc binSize tp' := by
  unfold sArc
  have : (tp : Rat) < (tp' : Rat) := by exact_mod_cast hlt
  exact mul_lt_mul_of_pos_right this h

/-- arc-corrected data have uniform tangential sampling: neighbouring bins are `binSize` apart, and that is what
    `get_sampling_in_s` reports -/
theorem sArc_uniform (binSize : Rat) (h : 0 < binSize) (tp : Int) :
    sArc binSize (tp + 1) - sArc binSize tp = binSize ∧ samplingS (sArc binSize) tp = binSize := by
  unfold samplingS sArc
  constructor
  · push_cast; ring
  · have : ((tp + 1 : Int) : Rat) * binSize - ((tp - 1 : Int) : Rat) * binSize = 2 * binSize := by push_cast; ring
    rw [this, abs_of_pos (by linarith)]; ring

end StirVerif.C12
