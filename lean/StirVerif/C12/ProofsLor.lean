/-
C12 — proofs about the LOR representations of LORCoordinates.inl (exact arithmetic, angles in units of π):
the constructor normalisation, sinogram coordinates → cylinder coordinates → sinogram coordinates, reversal of the
direction, and the view returned by the arc-corrected `get_bin`.
-/
import StirVerif.C12.Model
import StirVerif.C12.ProofsArc
import Mathlib.Tactic.Ring
import Mathlib.Tactic.Linarith
import Mathlib.Tactic.NormNum

namespace StirVerif.C12

/-! ### `to_0_2pi` on the ranges that occur -/

theorem to02_id {x : Rat} (h0 : 0 ≤ x) (h2 : x < 2) : to02 x = x :=
  to02_of x x 0 (by simp) h0 h2

theorem to02_add2 {x : Rat} (h0 : -2 ≤ x) (h2 : x < 0) : to02 x = x + 2 :=
  to02_of x (x + 2) (-1) (by push_cast; ring) (by linarith) (by linarith)

theorem to02_sub2 {x : Rat} (h0 : 2 ≤ x) (h2 : x < 4) : to02 x = x - 2 :=
  to02_of x (x - 2) 1 (by push_cast; ring) (by linarith) (by linarith)

/-- `to_0_2pi` has period 2 -/
theorem to02_add_two_mul (x : Rat) (k : Int) : to02 (x + 2 * (k : Rat)) = to02 x := by
  obtain ⟨j, hj, h0, h2⟩ := to02_spec x
  exact to02_of _ _ (j + k) (by rw [hj]; push_cast; ring) h0 h2

/-! ### sinogram coordinates → cylinder coordinates → sinogram coordinates -/

/-- the result of `get_sino_coords` once the two `to_0_2pi` values are known -/
def naOf (fixed : Bool) (z1 z2 b p : Rat) : LorNA :=
  if p < 1 then
    if b ≥ 1/2 then ⟨z2, z1, p, 1 - b, true⟩
    else if b < -(1/2) then ⟨z2, z1, p, -1 - b, fixed⟩
    else ⟨z1, z2, p, b, false⟩
  else
    if b ≥ 1/2 then ⟨z1, z2, p - 1, b - 1, false⟩
    else if b < -(1/2) then ⟨z1, z2, p - 1, b + 1, !fixed⟩
    else ⟨z2, z1, p - 1, -b, true⟩

theorem toNA_eval (fixed : Bool) (z1 psi1 z2 psi2 r q b0 b p : Rat)
    (hr : (psi1 - psi2 + 1) / 2 = r) (hq : (psi1 + psi2 - 1) / 2 = q)
    (hb0 : to02 r = b0) (hb : (if b0 > 1 then b0 - 2 else b0) = b) (hp : to02 q = p) :
    (⟨z1, psi1, z2, psi2⟩ : LorCyl).toNA fixed = naOf fixed z1 z2 b p := by
  subst hr hq hb0 hb hp
  rfl

/-- `get_sino_coords` recovers `(φ, β)` from the two angles `φ + β`, `φ - β + π` (given modulo 2π, in this order) -/
theorem toNA_of_angles (z1 z2 phi beta : Rat) (h0 : 0 ≤ phi) (h1 : phi < 1) (hb0 : -(1/2) < beta) (hb1 : beta < 1/2) :
    (⟨z1, to02 (phi + beta), z2, to02 (phi - beta + 1)⟩ : LorCyl).toNA true = ⟨z1, z2, phi, beta, false⟩ := by
  rcases lt_or_ge (phi + beta) 0 with ha | ha
  · -- ψ1 = φ + β + 2π, ψ2 = φ - β + π
    have e1 : to02 (phi + beta) = phi + beta + 2 := to02_add2 (by linarith) ha
    have e2 : to02 (phi - beta + 1) = phi - beta + 1 := to02_id (by linarith) (by linarith)
    rw [e1, e2, toNA_eval true _ _ _ _ (beta + 1) (phi + 1) (beta + 1) (beta + 1) (phi + 1) (by ring) (by ring)
      (to02_id (by linarith) (by linarith)) (if_neg (by linarith)) (to02_id (by linarith) (by linarith))]
    unfold naOf
    rw [if_neg (by linarith), if_pos (by linarith)]
    congr 1 <;> ring
  · rcases lt_or_ge (phi - beta + 1) 2 with hd | hd
    · -- ψ1 = φ + β, ψ2 = φ - β + π
      have e1 : to02 (phi + beta) = phi + beta := to02_id ha (by linarith)
      have e2 : to02 (phi - beta + 1) = phi - beta + 1 := to02_id (by linarith) hd
      rw [e1, e2]
      rcases lt_or_ge beta 0 with hn | hn
      · rw [toNA_eval true _ _ _ _ beta phi (beta + 2) beta phi (by ring) (by ring)
          (to02_add2 (by linarith) hn) (by rw [if_pos (by linarith)]; ring) (to02_id h0 (by linarith))]
        unfold naOf
        rw [if_pos h1, if_neg (by linarith), if_neg (by linarith)]
      · rw [toNA_eval true _ _ _ _ beta phi beta beta phi (by ring) (by ring)
          (to02_id hn (by linarith)) (if_neg (by linarith)) (to02_id h0 (by linarith))]
        unfold naOf
        rw [if_pos h1, if_neg (by linarith), if_neg (by linarith)]
    · -- ψ1 = φ + β, ψ2 = φ - β - π
      have e1 : to02 (phi + beta) = phi + beta := to02_id ha (by linarith)
      have e2 : to02 (phi - beta + 1) = phi - beta + 1 - 2 := to02_sub2 hd (by linarith)
      rw [e1, e2, toNA_eval true _ _ _ _ (beta + 1) (phi - 1) (beta + 1) (beta + 1) (phi + 1) (by ring) (by ring)
        (to02_id (by linarith) (by linarith)) (if_neg (by linarith)) (by rw [to02_add2 (by linarith) (by linarith)]; ring)]
      unfold naOf
      rw [if_neg (by linarith), if_pos (by linarith)]
      congr 1 <;> ring

/-- … and from the same two angles in the opposite order: the points are exchanged back and the LOR is flagged as swapped -/
theorem toNA_of_angles_swapped (z1 z2 phi beta : Rat) (h0 : 0 ≤ phi) (h1 : phi < 1) (hb0 : -(1/2) < beta) (hb1 : beta < 1/2) :
    (⟨z2, to02 (phi - beta + 1), z1, to02 (phi + beta)⟩ : LorCyl).toNA true = ⟨z1, z2, phi, beta, true⟩ := by
  rcases lt_or_ge (phi + beta) 0 with ha | ha
  · have e1 : to02 (phi + beta) = phi + beta + 2 := to02_add2 (by linarith) ha
    have e2 : to02 (phi - beta + 1) = phi - beta + 1 := to02_id (by linarith) (by linarith)
    rw [e1, e2, toNA_eval true _ _ _ _ (-beta) (phi + 1) (-beta) (-beta) (phi + 1) (by ring) (by ring)
      (to02_id (by linarith) (by linarith)) (if_neg (by linarith)) (to02_id (by linarith) (by linarith))]
    unfold naOf
    rw [if_neg (by linarith), if_neg (by linarith), if_neg (by linarith)]
    congr 1 <;> ring
  · rcases lt_or_ge (phi - beta + 1) 2 with hd | hd
    · have e1 : to02 (phi + beta) = phi + beta := to02_id ha (by linarith)
      have e2 : to02 (phi - beta + 1) = phi - beta + 1 := to02_id (by linarith) hd
      rw [e1, e2]
      rcases le_or_gt 0 beta with hp | hn
      · -- (ψ1 - ψ2 + π)/2 = π - β ≤ π
        rw [toNA_eval true _ _ _ _ (1 - beta) phi (1 - beta) (1 - beta) phi (by ring) (by ring)
          (to02_id (by linarith) (by linarith)) (if_neg (by linarith)) (to02_id h0 (by linarith))]
        unfold naOf
        rw [if_pos h1, if_pos (by linarith)]
        congr 1; ring
      · -- π - β > π: brought to -π - β < -π/2 (the branch repaired by fix C12-6)
        rw [toNA_eval true _ _ _ _ (1 - beta) phi (1 - beta) (-1 - beta) phi (by ring) (by ring)
          (to02_id (by linarith) (by linarith)) (by rw [if_pos (by linarith)]; ring) (to02_id h0 (by linarith))]
        unfold naOf
        rw [if_pos h1, if_neg (by linarith), if_pos (by linarith)]
        congr 1; ring
    · have e1 : to02 (phi + beta) = phi + beta := to02_id ha (by linarith)
      have e2 : to02 (phi - beta + 1) = phi - beta + 1 - 2 := to02_sub2 hd (by linarith)
      rw [e1, e2, toNA_eval true _ _ _ _ (-beta) (phi - 1) (-beta) (-beta) (phi + 1) (by ring) (by ring)
        (to02_id (by linarith) (by linarith)) (if_neg (by linarith)) (by rw [to02_add2 (by linarith) (by linarith)]; ring)]
      unfold naOf
      rw [if_neg (by linarith), if_neg (by linarith), if_neg (by linarith)]
      congr 1 <;> ring

/-- sinogram coordinates → cylinder coordinates → sinogram coordinates is the identity on the standard range -/
theorem toCyl_toNA (l : LorNA) (h0 : 0 ≤ l.phi) (h1 : l.phi < 1) (hb0 : -(1/2) < l.beta) (hb1 : l.beta < 1/2) :
    (l.toCyl).toNA true = l := by
  obtain ⟨z1, z2, phi, beta, sw⟩ := l
  simp only [] at h0 h1 hb0 hb1
  unfold LorNA.toCyl
  cases sw
  · simp only [Bool.false_eq_true, if_false]
    exact toNA_of_angles z1 z2 phi beta h0 h1 hb0 hb1
  · simp only [if_true]
    exact toNA_of_angles_swapped z1 z2 phi beta h0 h1 hb0 hb1

/-! ### cylinder coordinates → sinogram coordinates → cylinder coordinates -/

/-- every non-degenerate LOR in cylinder coordinates has sinogram coordinates in the standard range -/
theorem exists_standard (c : LorCyl) (h1 : 0 ≤ c.psi1 ∧ c.psi1 < 2) (h2 : 0 ≤ c.psi2 ∧ c.psi2 < 2) (hne : c.psi1 ≠ c.psi2) :
    ∃ l : LorNA, 0 ≤ l.phi ∧ l.phi < 1 ∧ -(1/2) < l.beta ∧ l.beta < 1/2 ∧ l.toCyl = c := by
  obtain ⟨z1, psi1, z2, psi2⟩ := c
  simp only [] at h1 h2 hne
  have hb : ∃ beta : Rat, -(1/2) < beta ∧ beta < 1/2 ∧ ∃ j : Int, 2 * beta = psi1 - psi2 + 1 - 2 * (j : Rat) := by
    rcases lt_or_gt_of_ne hne with h | h
    · exact ⟨(psi1 - psi2 + 1) / 2, by linarith [h1.1, h2.2], by linarith, 0, by push_cast; ring⟩
    · exact ⟨(psi1 - psi2 - 1) / 2, by linarith, by linarith [h1.2, h2.1], 1, by push_cast; ring⟩
  obtain ⟨beta, hb0, hb1, j, hj⟩ := hb
  obtain ⟨k, hk, hp0, hp2⟩ := to02_spec (psi1 - beta)
  rcases lt_or_ge (to02 (psi1 - beta)) 1 with hlt | hge
  · refine ⟨⟨z1, z2, to02 (psi1 - beta), beta, false⟩, hp0, hlt, hb0, hb1, ?_⟩
    have e1 : to02 (to02 (psi1 - beta) + beta) = psi1 :=
      to02_of _ _ (-k) (by rw [hk]; push_cast; ring) h1.1 h1.2
    have e2 : to02 (to02 (psi1 - beta) - beta + 1) = psi2 :=
      to02_of _ _ (j - k) (by rw [hk]; push_cast; linarith) h2.1 h2.2
    unfold LorNA.toCyl
    simp only [Bool.false_eq_true, if_false, e1, e2]
  · refine ⟨⟨z2, z1, to02 (psi1 - beta) - 1, -beta, true⟩, by linarith, by linarith, by linarith, by linarith, ?_⟩
    have e1 : to02 (to02 (psi1 - beta) - 1 - -beta + 1) = psi1 :=
      to02_of _ _ (-k) (by rw [hk]; push_cast; ring) h1.1 h1.2
    have e2 : to02 (to02 (psi1 - beta) - 1 + -beta) = psi2 :=
      to02_of _ _ (j - k - 1) (by rw [hk]; push_cast; linarith) h2.1 h2.2
    unfold LorNA.toCyl
    simp only [if_true, e1, e2]

/-- cylinder coordinates → sinogram coordinates → cylinder coordinates is the identity (both end points and their order, i.e. the
    direction of the LOR), and the sinogram coordinates are in the standard range -/
theorem toNA_toCyl (c : LorCyl) (h1 : 0 ≤ c.psi1 ∧ c.psi1 < 2) (h2 : 0 ≤ c.psi2 ∧ c.psi2 < 2) (hne : c.psi1 ≠ c.psi2) :
    (c.toNA true).toCyl = c ∧ 0 ≤ (c.toNA true).phi ∧ (c.toNA true).phi < 1 ∧
      -(1/2) < (c.toNA true).beta ∧ (c.toNA true).beta < 1/2 := by
  obtain ⟨l, a, b, d, e, hl⟩ := exists_standard c h1 h2 hne
  have := toCyl_toNA l a b d e
  rw [hl] at this
  rw [this]
  exact ⟨hl, a, b, d, e⟩

/-! ### the constructor from explicit arguments, and reversal -/

/-- bringing `φ` into `[0,π)` (constructor from explicit arguments) does not change the directed line -/
theorem mk'_toCyl (z1 z2 phi beta : Rat) (sw : Bool) :
    (LorNA.mk' z1 z2 phi beta sw).toCyl = (⟨z1, z2, phi, beta, sw⟩ : LorNA).toCyl := by
  obtain ⟨k, hk, hp0, hp2⟩ := to02_spec phi
  unfold LorNA.mk'
  simp only []
  have a1 : to02 (to02 phi + beta) = to02 (phi + beta) := by
    rw [hk, show phi - 2 * (k : Rat) + beta = phi + beta + 2 * ((-k : Int) : Rat) by push_cast; ring, to02_add_two_mul]
  have a2 : to02 (to02 phi - beta + 1) = to02 (phi - beta + 1) := by
    rw [hk, show phi - 2 * (k : Rat) - beta + 1 = phi - beta + 1 + 2 * ((-k : Int) : Rat) by push_cast; ring, to02_add_two_mul]
  have a3 : to02 (to02 phi - 1 + -beta) = to02 (phi - beta + 1) := by
    rw [hk, show phi - 2 * (k : Rat) - 1 + -beta = phi - beta + 1 + 2 * ((-k - 1 : Int) : Rat) by push_cast; ring, to02_add_two_mul]
  have a4 : to02 (to02 phi - 1 - -beta + 1) = to02 (phi + beta) := by
    rw [hk, show phi - 2 * (k : Rat) - 1 - -beta + 1 = phi + beta + 2 * ((-k : Int) : Rat) by push_cast; ring, to02_add_two_mul]
  split
  · unfold LorNA.toCyl
    cases sw <;> simp only [Bool.not_false, Bool.not_true, Bool.false_eq_true, if_true, if_false, a3, a4]
  · unfold LorNA.toCyl
    cases sw <;> simp only [Bool.false_eq_true, if_true, if_false, a1, a2]

/-- … and its result is in the standard range -/
theorem mk'_range (z1 z2 phi beta : Rat) (sw : Bool) :
    0 ≤ (LorNA.mk' z1 z2 phi beta sw).phi ∧ (LorNA.mk' z1 z2 phi beta sw).phi < 1 ∧
      ((LorNA.mk' z1 z2 phi beta sw).beta = beta ∨ (LorNA.mk' z1 z2 phi beta sw).beta = -beta) := by
  obtain ⟨k, hk, hp0, hp2⟩ := to02_spec phi
  unfold LorNA.mk'
  simp only []
  split
  · rename_i h
    exact ⟨by simp only []; linarith, by simp only []; linarith, Or.inr rfl⟩
  · rename_i h
    exact ⟨hp0, by simp only []; linarith [not_le.mp h], Or.inl rfl⟩

/-- reversing the flag of the sinogram form exchanges the two points of the cylinder form -/
theorem reverse_toCyl (l : LorNA) : l.reverse.toCyl = l.toCyl.reverse := by
  obtain ⟨z1, z2, phi, beta, sw⟩ := l
  unfold LorNA.reverse LorNA.toCyl LorCyl.reverse
  cases sw <;> simp

/-! ### arc-corrected `get_bin`: the view is always inside the data; reversal changes the sign of the TOF bin only -/

theorem roundRat_nonneg {x : Rat} (h : 0 ≤ x) : 0 ≤ roundRat x := by
  unfold roundRat
  rw [if_pos h]
  show 0 ≤ ⌊x + 1/2⌋
  have : (0 : Rat) ≤ x + 1/2 := by linarith
  exact Int.floor_nonneg.mpr this

theorem roundRat_le {x : Rat} {n : Int} (h0 : 0 ≤ x) (h : x < (n : Rat) + 1/2) : roundRat x ≤ n := by
  unfold roundRat
  rw [if_pos h0]
  show ⌊x + 1/2⌋ ≤ n
  have : ⌊x + 1/2⌋ < n + 1 := by
    rw [Int.floor_lt]; push_cast; linarith
  omega

/-- the view of every bin that `get_bin` returns, in terms of the rounded angle `w` -/
theorem getBinCore_view (fix : Bool) (g : ArcGeom) (l : LorS) (dt : Rat) (nb : Bin) (h : g.getBinCore fix l dt = some nb) :
    nb.view = (if (if fix then wrapView g.V else id) (roundRat (to02 (l.phi - g.offset) / (1 / (g.V : Rat)))) > g.V - 1
      then (if fix then wrapView g.V else id) (roundRat (to02 (l.phi - g.offset) / (1 / (g.V : Rat)))) - g.V
      else (if fix then wrapView g.V else id) (roundRat (to02 (l.phi - g.offset) / (1 / (g.V : Rat))))) := by
  unfold ArcGeom.getBinCore at h
  simp only [] at h
  generalize (if fix then wrapView g.V else id) (roundRat (to02 (l.phi - g.offset) / (1 / (g.V : Rat)))) = w at h ⊢
  repeat' (split at h)
  all_goals first
    | (cases h; done)
    | (cases h; simp_all)

/-- the view found by the repaired `get_bin` is a view of the data, for EVERY line of response -/
theorem getBin_view_range (g : ArcGeom) (hV : 0 < g.V) (l : LorS) (dt : Rat) (nb : Bin) (h : g.getBin l dt = some nb) :
    0 ≤ nb.view ∧ nb.view < g.V := by
  have hVq : (0 : Rat) < (g.V : Rat) := by exact_mod_cast hV
  obtain ⟨k, hk, h0, h2⟩ := to02_spec (l.phi - g.offset)
  have hx0 : 0 ≤ to02 (l.phi - g.offset) / (1 / (g.V : Rat)) := by
    rw [div_div_eq_mul_div, div_one]; exact mul_nonneg h0 (le_of_lt hVq)
  have hx2 : to02 (l.phi - g.offset) / (1 / (g.V : Rat)) < ((2 * g.V : Int) : Rat) + 1/2 := by
    rw [div_div_eq_mul_div, div_one]; push_cast; nlinarith
  have r0 := roundRat_nonneg hx0
  have r2 := roundRat_le hx0 hx2
  have key := getBinCore_view true g l dt nb h
  simp only [if_true] at key
  rw [key]
  unfold wrapView
  split <;> split <;> omega

/-- reversing the direction of the LOR changes the sign of the TOF bin and nothing else -/
theorem getBinCore_reverse (fix : Bool) (g : ArcGeom) (l : LorS) (dt : Rat) :
    g.getBinCore fix { l with swapped := !l.swapped } dt = (g.getBinCore fix l dt).map fun b => { b with tof := -b.tof } := by
  unfold ArcGeom.getBinCore
  simp only []
  generalize (if fix then wrapView g.V else id) (roundRat (to02 (l.phi - g.offset) / (1 / (g.V : Rat)))) = w
  by_cases hw : w > g.V - 1
  · simp only [hw, if_true, decide_true]
    repeat' split
    all_goals first
      | rfl
      | (cases l.swapped <;> simp_all)
  · simp only [hw, if_false, decide_false]
    repeat' split
    all_goals first
      | rfl
      | (cases l.swapped <;> simp_all)

/-! ### arc-corrected data: `get_bin` of the LOR of a bin in every representation -/

theorem LorS.mk'_phi_range (z1 z2 phi s : Rat) (sw : Bool) :
    0 ≤ (LorS.mk' z1 z2 phi s sw).phi ∧ (LorS.mk' z1 z2 phi s sw).phi < 1 := by
  obtain ⟨k, hk, hp0, hp2⟩ := to02_spec phi
  unfold LorS.mk'
  simp only []
  split
  · rename_i h
    exact ⟨by simp only []; linarith, by simp only []; linarith⟩
  · rename_i h
    exact ⟨hp0, by simp only []; linarith [not_le.mp h]⟩

theorem lorOf_phi_range (g : ArcGeom) (b : Bin) (l : LorS) (hl : g.lorOf b = some l) : 0 ≤ l.phi ∧ l.phi < 1 := by
  unfold ArcGeom.lorOf at hl
  cases hs : g.seg? b.seg with
  | none => rw [hs] at hl; exact absurd hl (by simp)
  | some sg =>
    rw [hs] at hl
    simp only [Option.map_some, Option.some.injEq] at hl
    rw [← hl]
    exact LorS.mk'_phi_range _ _ _ _ _

/-- **arc-corrected round trip in every LOR representation** (exact arithmetic, repaired code): whatever type the LOR of a bin
    is handed over in — sinogram coordinates, cylinder coordinates, two points (on the cylinder or moved along the line) — `get_bin`
    returns the bin; when the direction of the line is reversed, the bin with the opposite TOF position.  `β` is the angle
    `asin(s/R)/π` of the LOR (any value strictly between -1/2 and 1/2 will do: the conversions are affine in it). -/
theorem arccorr_roundtrip_via (g : ArcGeom) (w : g.WF) (b : Bin) (sg : Seg) (r : g.InRange b sg) (l : LorS)
    (hl : g.lorOf b = some l) (k : LorKind) (beta : Rat) (hb0 : -(1/2) < beta) (hb1 : beta < 1/2) :
    g.getBinVia true true k l beta (g.deltaTime b.tof) = some (if k.reversed then { b with tof := -b.tof } else b) := by
  have hrt := arccorr_roundtrip g w b sg r l hl
  have hrev : g.getBinCore true { l with swapped := !l.swapped } (g.deltaTime b.tof) = some { b with tof := -b.tof } := by
    rw [getBinCore_reverse]
    unfold ArcGeom.getBin at hrt
    rw [hrt]; rfl
  obtain ⟨hp0, hp1⟩ := lorOf_phi_range g b l hl
  have hfwd : ((l.withBeta beta).toCyl.toNA true).withS beta l.s = l := by
    rw [toCyl_toNA (l.withBeta beta) hp0 hp1 hb0 hb1]
    unfold LorS.withBeta LorNA.withS
    simp
  have hbwd : ((l.withBeta beta).reverse.toCyl.toNA true).withS beta l.s = { l with swapped := !l.swapped } := by
    rw [toCyl_toNA (l.withBeta beta).reverse hp0 hp1 hb0 hb1]
    unfold LorS.withBeta LorNA.withS LorNA.reverse
    simp
  unfold ArcGeom.getBinVia
  cases k <;> simp only [LorKind.viaCylinder, LorKind.reversed, LorNA.cylOfKind, if_true, if_false, Bool.false_eq_true,
    ← reverse_toCyl, hfwd, hbwd, hrev] <;> exact hrt

end StirVerif.C12
