/-
C12 — proofs: the non-arc-corrected `get_bin` applied to the LOR of a bin handed over in another representation
(`CylGeom.roundTripVia`, through explicit cylinder coordinates) lists exactly the answers of `CylGeom.roundTrip`
(which works in detector units directly), so that the theorems about `roundTrip` apply to it.
-/
import StirVerif.C12.Model
import StirVerif.C12.ProofsArc
import StirVerif.C12.ProofsRt
import Mathlib.Tactic.Ring
import Mathlib.Tactic.Linarith
import Mathlib.Tactic.NormNum
import Mathlib.Tactic.FieldSimp

namespace StirVerif.C12

/-- away from half-integers `stir::round` is `⌊x + 1/2⌋`, whatever the sign -/
theorem roundRat_eq_floor (x : Rat) (h : x - (⌊x⌋ : Rat) ≠ 1/2) : roundRat x = ⌊x + 1/2⌋ := by
  unfold roundRat
  split
  · rfl
  · show -⌊-x + 1/2⌋ = ⌊x + 1/2⌋
    have h0 := Int.floor_le x
    have h1 := Int.lt_floor_add_one x
    rcases lt_or_gt_of_ne h with hlt | hgt
    · have a : ⌊x + 1/2⌋ = ⌊x⌋ := by rw [Int.floor_eq_iff]; constructor <;> linarith
      have b : ⌊-x + 1/2⌋ = -⌊x⌋ := by rw [Int.floor_eq_iff]; push_cast; constructor <;> linarith
      rw [a, b]; ring
    · have a : ⌊x + 1/2⌋ = ⌊x⌋ + 1 := by rw [Int.floor_eq_iff]; push_cast; constructor <;> linarith
      have b : ⌊-x + 1/2⌋ = -⌊x⌋ - 1 := by rw [Int.floor_eq_iff]; push_cast; constructor <;> linarith
      rw [a, b]; ring

theorem roundCandidates_add_int (x : Rat) (j : Int) : roundCandidates (x + j) = (roundCandidates x).map (· + j) := by
  unfold roundCandidates
  have hf : (x + (j : Rat)).floor = x.floor + j := by
    show ⌊x + (j : Rat)⌋ = ⌊x⌋ + j
    exact Int.floor_add_intCast x j
  simp only [hf]
  have hfr : x + (j : Rat) - ((x.floor + j : Int) : Rat) = x - ((x.floor : Int) : Rat) := by push_cast; ring
  rw [hfr]
  split
  · simp only [List.map_cons, List.map_nil]
    congr 2
    ring
  · rename_i hw
    have hne : x - (⌊x⌋ : Rat) ≠ 1/2 := by
      intro e
      apply hw
      have : x - ((x.floor : Int) : Rat) = 1/2 := e
      rw [this]; constructor <;> norm_num
    have hne' : x + (j : Rat) - (⌊x + (j : Rat)⌋ : Rat) ≠ 1/2 := by
      rw [Int.floor_add_intCast]; push_cast
      intro e; apply hne; linarith
    simp only [List.map_cons, List.map_nil]
    rw [roundRat_eq_floor _ hne, roundRat_eq_floor _ hne']
    congr 1
    rw [show x + (j : Rat) + 1/2 = x + 1/2 + (j : Rat) by ring, Int.floor_add_intCast]

theorem moduloInt_add_mul (e j n : Int) (hn : 0 < n) : moduloInt (e + j * n) n = moduloInt e n := by
  rw [moduloInt_eq_emod _ _ hn, moduloInt_eq_emod _ _ hn, Int.add_mul_emod_self_right]

theorem flatMap_roundCandidates_shift {β : Type} (x : Rat) (j : Int) (F : Int → List β) (hF : ∀ e, F (e + j) = F e) :
    (roundCandidates (x + j)).flatMap F = (roundCandidates x).flatMap F := by
  rw [roundCandidates_add_int]
  induction roundCandidates x with
  | nil => rfl
  | cons a t ih => simp only [List.map_cons, List.flatMap_cons, hF, ih]

/-- the enumeration of nearest detectors / rings shared by `roundTrip` and `getBinCyl` -/
def nearestList (g : CylGeom) (x1 x2 y1 y2 : Rat) (t : Int) : List RtResult :=
  (roundCandidates x1).flatMap fun e1 => (roundCandidates x2).flatMap fun e2 =>
  (roundCandidates y1).flatMap fun r1 => (roundCandidates y2).map fun r2 =>
    let d1 := moduloInt e1 g.N
    let d2 := moduloInt e2 g.N
    if r1 < 0 ∨ r1 ≥ g.R ∨ r2 < 0 ∨ r2 ≥ g.R then RtResult.miss
    else if d1 = d2 then RtResult.miss
    else match g.binForDetPair d1 r1 d2 r2 t with
      | none => RtResult.miss
      | some nb => if nb.tang < g.minTang ∨ nb.tang > g.maxTang then RtResult.miss else RtResult.bin nb

theorem nearestList_shift1 (g : CylGeom) (hN : 0 < g.N) (x1 x2 y1 y2 : Rat) (t j : Int) :
    nearestList g (x1 + ((j * g.N : Int) : Rat)) x2 y1 y2 t = nearestList g x1 x2 y1 y2 t := by
  unfold nearestList
  apply flatMap_roundCandidates_shift
  intro e
  simp only [moduloInt_add_mul _ _ _ hN]

theorem nearestList_shift2 (g : CylGeom) (hN : 0 < g.N) (x1 x2 y1 y2 : Rat) (t j : Int) :
    nearestList g x1 (x2 + ((j * g.N : Int) : Rat)) y1 y2 t = nearestList g x1 x2 y1 y2 t := by
  unfold nearestList
  congr 1
  funext e1
  apply flatMap_roundCandidates_shift
  intro e
  simp only [moduloInt_add_mul _ _ _ hN]

/-- for the representations that keep the direction of the line (`LORInCylinderCoordinates`, `LORInAxialAndSinogramCoordinates`,
    `LORAs2Points` on the cylinder or moved along the line), `get_bin ∘ (representation change) ∘ get_LOR` through explicit
    cylinder coordinates lists exactly the answers of `roundTrip` -/
theorem roundTripVia_eq_roundTrip (g : CylGeom) (b : Bin) (k : LorKind) (hk : k.reversed = false) (hN : 0 < g.N)
    (hphi : 0 ≤ 2 * g.mash * b.view + g.mash - 1 ∧ 2 * g.mash * b.view + g.mash - 1 < g.N) :
    g.roundTripVia 0 k b = g.roundTrip b := by
  have hc : ∀ l : LorNA, l.cylOfKind k = l.toCyl := by
    intro l
    cases k <;> simp_all [LorKind.reversed, LorNA.cylOfKind]
  have hNq : (0 : Rat) < (g.N : Rat) := by exact_mod_cast hN
  unfold CylGeom.roundTripVia CylGeom.lorOf CylGeom.roundTrip
  cases hs : segAt g.minSeg g.segs b.seg with
  | none => simp
  | some sg =>
    simp only [Option.map_some, hc, add_zero]
    -- φ is in [0,1): the constructor keeps the representation
    have hp0 : (0 : Rat) ≤ ((2 * g.mash * b.view + g.mash - 1 : Int) : Rat) / (g.N : Rat) :=
      div_nonneg (by exact_mod_cast hphi.1) (le_of_lt hNq)
    have hp1 : ((2 * g.mash * b.view + g.mash - 1 : Int) : Rat) / (g.N : Rat) < 1 := by
      rw [div_lt_one hNq]; exact_mod_cast hphi.2
    have hto : to02 (((2 * g.mash * b.view + g.mash - 1 : Int) : Rat) / (g.N : Rat)) =
        ((2 * g.mash * b.view + g.mash - 1 : Int) : Rat) / (g.N : Rat) := to02_of _ _ 0 (by simp) hp0 (by linarith)
    have hmk : LorNA.mk' (sg.getM 1 b.ax - sg.avgRD / 2) (sg.getM 1 b.ax + sg.avgRD / 2)
        (((2 * g.mash * b.view + g.mash - 1 : Int) : Rat) / (g.N : Rat)) ((b.tang : Rat) / (g.N : Rat)) false =
        ⟨sg.getM 1 b.ax - sg.avgRD / 2, sg.getM 1 b.ax + sg.avgRD / 2,
          ((2 * g.mash * b.view + g.mash - 1 : Int) : Rat) / (g.N : Rat), (b.tang : Rat) / (g.N : Rat), false⟩ := by
      unfold LorNA.mk'
      simp only [hto]
      rw [if_neg (by linarith)]
    rw [hmk]
    unfold LorNA.toCyl CylGeom.getBinCyl
    simp only [Bool.false_eq_true, if_false, sub_zero]
    obtain ⟨k1, hk1, _, _⟩ := to02_spec (((2 * g.mash * b.view + g.mash - 1 : Int) : Rat) / (g.N : Rat) + (b.tang : Rat) / (g.N : Rat))
    obtain ⟨k2, hk2, _, _⟩ := to02_spec (((2 * g.mash * b.view + g.mash - 1 : Int) : Rat) / (g.N : Rat) - (b.tang : Rat) / (g.N : Rat) + 1)
    have hx1 : to02 (((2 * g.mash * b.view + g.mash - 1 : Int) : Rat) / (g.N : Rat) + (b.tang : Rat) / (g.N : Rat)) * (g.N : Rat) / 2
        = (((g.mash * b.view : Int) : Rat) + ((g.mash - 1 : Int) : Rat) / 2 + (b.tang : Rat) / 2) + ((-k1 * g.N : Int) : Rat) := by
      rw [hk1]; push_cast; field_simp; ring
    have hx2 : to02 (((2 * g.mash * b.view + g.mash - 1 : Int) : Rat) / (g.N : Rat) - (b.tang : Rat) / (g.N : Rat) + 1) * (g.N : Rat) / 2
        = (((g.mash * b.view : Int) : Rat) + ((g.mash - 1 : Int) : Rat) / 2 - (b.tang : Rat) / 2 + (g.N : Rat) / 2) + ((-k2 * g.N : Int) : Rat) := by
      rw [hk2]; push_cast; field_simp; ring
    rw [hx1, hx2]
    show nearestList g (_ + ((-k1 * g.N : Int) : Rat)) (_ + ((-k2 * g.N : Int) : Rat)) _ _ _ = nearestList g _ _ _ _ _
    rw [nearestList_shift1 g hN, nearestList_shift2 g hN]

end StirVerif.C12
