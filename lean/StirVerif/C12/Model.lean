/-
C12 — executable model of the bin-coordinate / line-of-response / detector-position bookkeeping of
`ProjDataInfoCylindrical{,NoArcCorr,ArcCorr}`, `ProjDataInfoGeneric*`, the TOF bin table of `ProjDataInfo`,
`overlap_interpolate` and `ArcCorrection`.

Three layers:
* exact integer part (`Int`): interleaving tables (copied from the C01 model, same source lines), ring pairs;
* exact rational part (`Rat`): axial coordinate `get_m`, average ring difference, TOF bin table, arc-corrected
  `get_LOR`/`get_bin` in exact arithmetic (angles in units of π), `overlap_interpolate`;
* float part (`Float`, binary64; no theorems): the trigonometric coordinates, used by the driver only.

C semantics: `/`,`%` on possibly negative `int`s are `Int.tdiv`/`Int.tmod`; `>> 1` is floor division by 2
(the source asserts `-1 >> 1 == -1`).  `stir::round` rounds half away from zero.  32-bit overflow is not modelled.
Core Lean only.
-/
namespace StirVerif.C12

/-! ## integer part (same definitions as `StirVerif.C01`, re-stated here; `Proofs.lean` shows they are equal) -/

/-- arithmetic shift right by one -/
def shr1 (x : Int) : Int := Int.fdiv x 2

/-- `uncompressed_view_tangpos_to_det1det2[v][tp]`
    (src/buildblock/ProjDataInfoCylindricalNoArcCorr.cxx:206-208, and the copy in ProjDataInfoGenericNoArcCorr.cxx) -/
def viewTangToDet (N v tp : Int) : Int × Int :=
  ((v + shr1 tp + N).tmod N, (v - shr1 (tp + 1) + N.tdiv 2).tmod N)

/-- `det1det2_to_uncompressed_view_tangpos[d1][d2]` (ProjDataInfoCylindricalNoArcCorr.cxx:266-310):
    (view, tang, flag), flag `true` = detectors not exchanged -/
def detToViewTang (N d1 d2 : Int) : Int × Int × Bool :=
  let half := N.tdiv 2
  let tang := (d1 - d2 + (3 * N).tdiv 2).tmod N
  let view := (d1 - shr1 tang + N).tmod N
  if view < half then
    if tang ≥ half then (view, N - tang, false) else (view, tang, true)
  else
    if tang ≥ half then (view - half, tang - N, true) else (view - half, -tang, false)

structure Seg where
  minRD : Int
  maxRD : Int
  numAx : Int        -- axial positions 0 … numAx-1
  deriving Repr, DecidableEq, Inhabited

/-- `get_num_axial_poss_per_ring_inc` (src/include/stir/ProjDataInfoCylindrical.inl:108) -/
def Seg.inc (s : Seg) : Int := if s.maxRD != s.minRD then 2 else 1

/-- `ax_pos_num_offset[segment]` (ProjDataInfoCylindrical.cxx:195); `none` when the source calls `error` -/
def Seg.axOff (R : Int) (s : Seg) : Option Int :=
  if (s.numAx - 1).tmod s.inc != 0 then none else some ((R - 1) - (s.numAx - 1).tdiv s.inc)

/-- `segment_axial_pos_to_ring1_plus_ring2[s][a]` (ProjDataInfoCylindrical.cxx:276) -/
def Seg.ringSum (s : Seg) (off a : Int) : Int := (2 * a).tdiv s.inc + off

/-- `get_segment_axial_pos_num_for_ring_pair` (ProjDataInfoCylindrical.inl:253), no range check in the source -/
def Seg.axOf (s : Seg) (off r1 r2 : Int) : Int := ((r1 + r2 - off) * s.inc).tdiv 2

/-- `compute_segment_axial_pos_to_ring_pair` (ProjDataInfoCylindrical.cxx:447) -/
def Seg.ringPairsOf (R : Int) (s : Seg) (off a : Int) : List (Int × Int) :=
  let sum := s.ringSum off a
  let start := s.minRD + (s.minRD + sum).tmod 2
  let cnt := if start > s.maxRD then 0 else ((s.maxRD - start) / 2).toNat + 1
  (List.range cnt).filterMap fun (k : Nat) =>
    let rd := start + 2 * (k : Int)
    let r1 := (sum - rd).tdiv 2
    let r2 := (sum + rd).tdiv 2
    if r1 < 0 ∨ r2 < 0 ∨ r1 ≥ R ∨ r2 ≥ R then none else some (r1, r2)

/-- `ProjDataInfo::ProjDataInfoCTI` (src/buildblock/ProjDataInfo.cxx:493-572): segments `0, 1, …`.
    Repaired code (fix C12-2): `max_delta < span / 2` is an error, so that segment 0 (ring differences `-span/2 … span/2`
    for even span) is never clipped on one side only. -/
def ctiPositive (span maxDelta R : Int) : Option (List Seg) :=
  if maxDelta > R - 1 ∨ span < 1 ∨ span > 2 * R - 1 ∨ maxDelta < span.tdiv 2 then none
  else
    let min0 := if span.tmod 2 == 1 then -((span - 1).tdiv 2) else -(span.tdiv 2)
    let max0 := if span.tmod 2 == 1 then min0 + span - 1 else min0 + span
    let rec go (fuel : Nat) (acc : List (Int × Int)) (curMax : Int) : List (Int × Int) :=
      match fuel with
      | 0 => acc
      | fuel + 1 =>
        if curMax < maxDelta then go fuel (acc ++ [(curMax + 1, curMax + span)]) (curMax + span) else acc
    let ranges := go R.toNat [(min0, max0)] max0
    let ranges := match ranges.getLast? with
      | some (lo, hi) => if hi > maxDelta then ranges.dropLast ++ [(lo, maxDelta)] else ranges
      | none => ranges
    some (ranges.mapIdx fun i (lo, hi) =>
      { minRD := lo, maxRD := hi,
        numAx := if span == 1 then R - i else if i == 0 then 2 * R - 1 else 2 * R - 1 - 2 * lo })

/-- mirror image of a segment: segment `-i` of the table (ProjDataInfo.cxx:548-555) -/
def Seg.mirror (s : Seg) : Seg := { s with minRD := -s.maxRD, maxRD := -s.minRD }

/-- the full segment table `-k … k` -/
def ctiSegments (span maxDelta R : Int) : Option (Int × List Seg) :=
  (ctiPositive span maxDelta R).map fun pos =>
    let neg := (pos.drop 1).reverse.map Seg.mirror
    (-(pos.length - 1 : Int), neg ++ pos)

/-- segment `s` of a table whose first entry is segment `minSeg` -/
def segAt (minSeg : Int) (segs : List Seg) (s : Int) : Option Seg :=
  if s < minSeg then none else segs[(s - minSeg).toNat]?

/-- `get_segment_num_for_ring_difference` (ProjDataInfoCylindrical.inl:218) -/
def segOfRingDiff (minSeg : Int) (segs : List Seg) (rd : Int) : Option Int :=
  match segs.getLast?, segs.head? with
  | some last, some first =>
    if rd > last.maxRD ∨ rd < first.minRD then none
    else (segs.findIdx? fun s => rd ≥ s.minRD && rd ≤ s.maxRD).map fun k => minSeg + k
  | _, _ => none

structure Bin where
  seg : Int
  view : Int
  ax : Int
  tang : Int
  tof : Int
  deriving Repr, DecidableEq, Inhabited

/-! ## axial coordinate (exact rational arithmetic) -/

/-- `get_axial_sampling` (ProjDataInfoCylindrical.inl:126) -/
def Seg.axialSampling (spacing : Rat) (s : Seg) : Rat := spacing / (s.inc : Int)

/-- `m_offset[segment]` (ProjDataInfoCylindrical.cxx:148): `((max_ax + min_ax) * sampling) / 2`, `min_ax = 0` -/
def Seg.mOffset (spacing : Rat) (s : Seg) : Rat := (((s.numAx - 1 + 0 : Int) : Rat) * s.axialSampling spacing) / 2

/-- `get_m` (ProjDataInfoCylindrical.inl:71) -/
def Seg.getM (spacing : Rat) (s : Seg) (a : Int) : Rat := (a : Rat) * s.axialSampling spacing - s.mOffset spacing

/-- `get_average_ring_difference` (ProjDataInfoCylindrical.inl:132) -/
def Seg.avgRD (s : Seg) : Rat := ((s.minRD + s.maxRD : Int) : Rat) / 2

/-- axial position of ring `r` of an `R`-ring scanner with respect to the scanner centre -/
def ringZ (spacing : Rat) (R r : Int) : Rat := spacing * ((r : Rat) - ((R - 1 : Int) : Rat) / 2)

/-- mean over a (non-empty) list -/
def ratMean (l : List Rat) : Rat := l.foldl (· + ·) 0 / (l.length : Int)

/-- the axial midpoint averaged over the ring pairs contributing to (segment, axial position) -/
def avgMCompressed (spacing : Rat) (R : Int) (s : Seg) (off a : Int) : Rat :=
  ratMean ((s.ringPairsOf R off a).map fun p => (ringZ spacing R p.1 + ringZ spacing R p.2) / 2)

/-- the ring difference averaged over the contributing ring pairs -/
def avgRDCompressed (R : Int) (s : Seg) (off a : Int) : Rat :=
  ratMean ((s.ringPairsOf R off a).map fun p => ((p.2 - p.1 : Int) : Rat))

/-! ## TOF bin table (exact rational arithmetic, distances in mm) -/

/-- `stir::round` on a rational: half away from zero -/
def roundRat (x : Rat) : Int := if x ≥ 0 then (x + 1/2).floor else -((-x + 1/2).floor)

/-- speed of light in mm/ps divided by 2 (src/include/stir/common.h:148) -/
def cHalf : Rat := (299792458 : Int) / (2000000000 : Int)

structure TofTable where
  mash : Int
  minPos : Int
  maxPos : Int
  numBins : Int
  inc : Rat          -- `tof_increament_in_mm`
  deriving Repr

/-- `get_k` (src/buildblock/ProjDataInfo.cxx:69) -/
def getK (numBins : Int) (inc : Rat) (t : Int) : Rat :=
  if numBins.tmod 2 == 0 then (t : Rat) * inc + inc / 2 else (t : Rat) * inc

/-- `get_sampling_in_k` (ProjDataInfo.cxx:84) -/
def samplingK (numBins : Int) (inc : Rat) (t : Int) : Rat := (getK numBins inc (t + 1) - getK numBins inc (t - 1)) / 2

/-- `tof_bin_boundaries_mm[t].low_lim` (ProjDataInfo.cxx:234) -/
def tofLow (numBins : Int) (inc : Rat) (t : Int) : Rat := getK numBins inc t - samplingK numBins inc t / 2
/-- `tof_bin_boundaries_mm[t].high_lim` (ProjDataInfo.cxx:235) -/
def tofHigh (numBins : Int) (inc : Rat) (t : Int) : Rat := getK numBins inc t + samplingK numBins inc t / 2

def TofTable.k (T : TofTable) (t : Int) : Rat := getK T.numBins T.inc t
def TofTable.low (T : TofTable) (t : Int) : Rat := tofLow T.numBins T.inc t
def TofTable.high (T : TofTable) (t : Int) : Rat := tofHigh T.numBins T.inc t
/-- `mm_to_tof_delta_time` of the boundaries: `tof_bin_boundaries_ps` -/
def TofTable.lowPs (T : TofTable) (t : Int) : Rat := T.low t / cHalf
def TofTable.highPs (T : TofTable) (t : Int) : Rat := T.high t / cHalf

/-- `ProjDataInfo::set_tof_mash_factor` (ProjDataInfo.cxx:174-256) for a TOF-ready scanner and `new_num > 0`;
    `none` = `error(...)`.  `maxNum` = `get_max_num_timing_poss()`, `size` = `get_size_of_timing_pos()` in ps. -/
def setTofMash (maxNum : Int) (size : Rat) (mash : Int) : Option TofTable :=
  if mash > maxNum then none
  else
    let inc := ((mash : Rat) * size) * cHalf
    let minPos := -((maxNum.tdiv mash).tdiv 2)
    let maxPos := minPos + maxNum.tdiv mash - 1
    let numBins := maxPos - minPos + 1
    if numBins.tmod 2 == 0 then none else some ⟨mash, minPos, maxPos, numBins, inc⟩

/-- the list of TOF positions `min … max` -/
def TofTable.positions (T : TofTable) : List Int :=
  (List.range (T.maxPos - T.minPos + 1).toNat).map fun (k : Nat) => T.minPos + (k : Int)

/-- `get_tof_bin` (src/include/stir/ProjDataInfo.inl:79): first bin containing `delta` (ps), **otherwise the minimum bin** -/
def TofTable.getTofBin (T : TofTable) (delta : Rat) : Int :=
  match T.positions.find? fun i => decide (T.lowPs i ≤ delta) && decide (delta < T.highPs i) with
  | some i => i
  | none => T.minPos

/-! ## arc-corrected data: `get_LOR` and `get_bin` in exact arithmetic; angles in units of π -/

/-- `modulo(a, b)` for `b > 0` (src/include/stir/modulo.h) -/
def moduloRat (a b : Rat) : Rat := a - b * ((a / b).floor : Int)

/-- `to_0_2pi` in units of π -/
def to02 (x : Rat) : Rat := moduloRat x 2

/-- `LORInAxialAndSinogramCoordinates` (`phi` in units of π) -/
structure LorS where
  z1 : Rat
  z2 : Rat
  phi : Rat
  s : Rat
  swapped : Bool
  deriving Repr, DecidableEq

/-- constructor from explicit arguments (src/include/stir/LORCoordinates.inl:77): brings `phi` into [0,π) -/
def LorS.mk' (z1 z2 phi s : Rat) (swapped : Bool) : LorS :=
  let p := to02 phi
  if p ≥ 1 then ⟨z2, z1, p - 1, -s, !swapped⟩ else ⟨z1, z2, p, s, swapped⟩

structure ArcGeom where
  V : Int              -- number of views
  binSize : Rat
  spacing : Rat
  offset : Rat         -- azimuthal angle offset in units of π
  minTang : Int
  maxTang : Int
  minSeg : Int
  segs : List Seg
  tof : Option TofTable := none
  deriving Repr

def ArcGeom.maxSeg (g : ArcGeom) : Int := g.minSeg + g.segs.length - 1
def ArcGeom.seg? (g : ArcGeom) (s : Int) : Option Seg := segAt g.minSeg g.segs s

/-- `get_tof_bin` (ProjDataInfo.inl:79): 0 for non-TOF data -/
def ArcGeom.tofBin (g : ArcGeom) (delta : Rat) : Int := match g.tof with
  | none => 0
  | some T => T.getTofBin delta

/-- `get_tof_delta_time` (ProjDataInfo.cxx:78): `mm_to_tof_delta_time(get_k(bin))`, in ps -/
def ArcGeom.deltaTime (g : ArcGeom) (t : Int) : Rat := match g.tof with
  | none => 0
  | some T => T.k t / cHalf

/-- `ProjDataInfoCylindrical::get_LOR` (ProjDataInfoCylindrical.cxx:510) for arc-corrected data.  In exact arithmetic
    `max_a * tantheta = sqrt(R²-s²) * delta*spacing/(2*sqrt(R²-s²)) = delta*spacing/2`, which is what is used here. -/
def ArcGeom.lorOf (g : ArcGeom) (b : Bin) : Option LorS :=
  (g.seg? b.seg).map fun sg =>
    let m := sg.getM g.spacing b.ax
    let h := sg.avgRD * g.spacing / 2
    LorS.mk' (m - h) (m + h) ((b.view : Rat) / (g.V : Rat) + g.offset) ((b.tang : Rat) * g.binSize) false

/-- the segment search loops of `get_bin` (ProjDataInfoCylindricalArcCorr.cxx:176-192) -/
def ArcGeom.findSegUp (g : ArcGeom) (delta : Rat) : Nat → Int → Int
  | 0, s => s
  | fuel + 1, s =>
    if s < g.maxSeg then
      match g.seg? s with
      | some sg => if delta < (sg.maxRD : Rat) + 1/2 then s else g.findSegUp delta fuel (s + 1)
      | none => s
    else s
def ArcGeom.findSegDown (g : ArcGeom) (delta : Rat) : Nat → Int → Int
  | 0, s => s
  | fuel + 1, s =>
    if s > g.minSeg then
      match g.seg? s with
      | some sg => if delta > (sg.minRD : Rat) - 1/2 then s else g.findSegDown delta fuel (s - 1)
      | none => s
    else s

/-- repaired code (fix C12-7) in `ProjDataInfoCylindricalArcCorr::get_bin`: an angle a rounding error below the azimuthal offset is
    mapped by `to_0_2pi` to just under 2π and rounds to `2·num_views`, which is view 0 (not `num_views`, which "subtract
    `num_views` when `view > max_view`" would give) -/
def wrapView (V v : Int) : Int := if v = 2 * V then 0 else v

/-- `ProjDataInfoCylindricalArcCorr::get_bin(lor, delta_time)` (ProjDataInfoCylindricalArcCorr.cxx:102-223); `none` = bin
    value -1.  Repaired code (fix C12-3): the TOF bin is `get_tof_bin(delta_time)`, its sign reversed when the direction of
    the LOR is (`lor_coords.is_swapped() != swap_direction`).  `wrapFix = false` is the code before fix C12-7 (`wrapView`). -/
def ArcGeom.getBinCore (wrapFix : Bool) (g : ArcGeom) (l : LorS) (deltaTime : Rat) : Option Bin :=
  let view0 := (if wrapFix then wrapView g.V else id) (roundRat (to02 (l.phi - g.offset) / (1 / (g.V : Rat))))
  let swap := view0 > g.V - 1
  let view := if swap then view0 - g.V else view0
  let tang0 := roundRat (l.s / g.binSize)
  let tang := if swap then -tang0 else tang0
  if tang < g.minTang ∨ tang > g.maxTang then none
  else
    let delta := (if swap then l.z1 - l.z2 else l.z2 - l.z1) / g.spacing
    match g.seg? g.maxSeg, g.seg? g.minSeg with
    | some top, some bot =>
      if delta > (top.maxRD : Rat) + 1 ∨ delta < (bot.minRD : Rat) - 1 then none
      else
        let seg := if delta ≥ 0 then g.findSegUp delta g.segs.length 0 else g.findSegDown delta g.segs.length 0
        match g.seg? seg with
        | none => none
        | some sg =>
          let m := (l.z2 + l.z1) / 2
          let ax := roundRat ((m - sg.getM g.spacing 0) / sg.axialSampling g.spacing)
          if ax < 0 ∨ ax > sg.numAx - 1 then none
          else some ⟨seg, view, ax, tang, (if (l.swapped != decide swap) then -1 else 1) * g.tofBin deltaTime⟩
    | _, _ => none

/-- `get_bin` of the repaired code -/
def ArcGeom.getBin (g : ArcGeom) (l : LorS) (deltaTime : Rat) : Option Bin := g.getBinCore true l deltaTime

/-- `ArcCorrection::set_up`: boundaries of the arc-corrected boxes (src/buildblock/ArcCorrection.cxx:122-134):
    `_arccorr_coords[tp] = (tp - .5) * sampling` for `tp = min … max + 1` (repaired code, fix C12-5: the last entry, written
    after the loop with the loop variable equal to `max + 1`, is `(tang_pos_num - .5F) * tangential_sampling`; it used to be
    `(tang_pos_num + .5F) * …`, which made the last box two bins wide). -/
def arcCorrCoords (minTang maxTang : Int) (sampling : Rat) : List Rat :=
  (List.range ((maxTang - minTang + 1).toNat + 1)).map fun (k : Nat) => (((minTang + (k : Int) : Int) : Rat) - 1/2) * sampling

/-! ## `overlap_interpolate` (src/include/stir/numerics/overlap_interpolate.inl) over `Rat`

Boxes are given by their boundaries: `outC` has one more entry than `out`, `inC` one more than `inV`.
Arrays are functions `Nat → Rat` with explicit lengths (an out-of-range read never happens for well-formed input). -/

structure OvState where
  i : Nat            -- current in-box
  j : Nat            -- current out-box
  cur : Rat          -- `current_coord`
  first : Bool       -- `first_time_for_this_out_box`
  out : Array Rat

/-- `epsilon` (overlap_interpolate.inl:83) -/
def ovEpsilon (outC inC : Nat → Rat) (nOut nIn : Nat) : Rat :=
  min ((outC nOut - outC 0) / ((nOut * 10000 : Nat) : Int)) ((inC nIn - inC 0) / ((nIn * 10000 : Nat) : Int))

/-- `out[j]` -/
def getAt (a : Array Rat) (j : Nat) : Rat := a.getD j 0
/-- `out[j] = v` -/
def setAt (a : Array Rat) (j : Nat) (v : Rat) : Array Rat := a.setIfInBounds j v

/-- one iteration of the `while (true)` loop (overlap_interpolate.inl:92-130); `Sum.inr` = the loop is left
    (`true`: by `return`, all out-boxes done; `false`: by `break`, all in-boxes done) -/
def ovStep (outC inC inV : Nat → Rat) (nOut nIn : Nat) (eps : Rat) (onlyAdd : Bool) (st : OvState) :
    OvState ⊕ (OvState × Bool) :=
  let inBeyondOut := decide (inC (st.i + 1) > outC (st.j + 1))
  let newCoord := if inBeyondOut then outC (st.j + 1) else inC (st.i + 1)
  let overlap := newCoord - st.cur
  let out' :=
    if !onlyAdd && st.first then
      (if overlap > eps then setAt st.out st.j (inV st.i * overlap) else setAt st.out st.j (getAt st.out st.j * 0))
    else
      (if overlap > eps then setAt st.out st.j (getAt st.out st.j + inV st.i * overlap) else st.out)
  let first' := if !onlyAdd && st.first then false else st.first
  if inBeyondOut then
    if st.j + 1 = nOut then .inr ({ st with j := st.j + 1, cur := newCoord, first := first', out := out' }, true)
    else .inl { i := st.i, j := st.j + 1, cur := newCoord, first := true, out := out' }
  else
    if st.i + 1 = nIn then .inr ({ st with i := st.i + 1, cur := newCoord, first := first', out := out' }, false)
    else .inl { i := st.i + 1, j := st.j, cur := newCoord, first := first', out := out' }

/-- the main loop, with fuel `(nIn - i) + (nOut - j)` -/
def ovLoop (outC inC inV : Nat → Rat) (nOut nIn : Nat) (eps : Rat) (onlyAdd : Bool) : Nat → OvState → OvState × Bool
  | 0, st => (st, true)
  | fuel + 1, st =>
    match ovStep outC inC inV nOut nIn eps onlyAdd st with
    | .inl st' => ovLoop outC inC inV nOut nIn eps onlyAdd fuel st'
    | .inr r => r

/-- skip in-boxes left of the output range (overlap_interpolate.inl:56-62); `none` = `return` -/
def ovSkipIn (outC inC : Nat → Rat) (nIn : Nat) : Nat → Nat → Option Nat
  | 0, i => some i
  | fuel + 1, i =>
    if inC (i + 1) ≤ outC 0 then (if i + 1 = nIn then none else ovSkipIn outC inC nIn fuel (i + 1)) else some i

/-- skip (and zero) out-boxes left of the input range (overlap_interpolate.inl:66-74); `none` = `return` -/
def ovSkipOut (outC : Nat → Rat) (x : Rat) (nOut : Nat) (zero : Bool) : Nat → Nat → Array Rat → Array Rat × Option Nat
  | 0, j, out => (out, some j)
  | fuel + 1, j, out =>
    if outC (j + 1) ≤ x then
      let out' := if zero then setAt out j (getAt out j * 0) else out
      if j + 1 = nOut then (out', none) else ovSkipOut outC x nOut zero fuel (j + 1) out'
    else (out, some j)

/-- "fill rest of output with 0" (overlap_interpolate.inl:134-149): boxes `j+1 … nOut-1` -/
def ovZeroRest (nOut : Nat) : Nat → Nat → Array Rat → Array Rat
  | 0, _, out => out
  | fuel + 1, j, out => if j + 1 < nOut then ovZeroRest nOut fuel (j + 1) (setAt out (j + 1) (getAt out (j + 1) * 0)) else out

/-- `overlap_interpolate(out_begin, …, only_add_to_output, assign_rest_with_zeroes)`; `out0` has `nOut` entries -/
def overlapInterpolate (outC inC inV : Nat → Rat) (nOut nIn : Nat) (out0 : Array Rat)
    (onlyAdd assignRest : Bool) : Array Rat :=
  if nOut = 0 ∨ nIn = 0 then out0
  else
    match ovSkipIn outC inC nIn nIn 0 with
    | none => out0
    | some i0 =>
      match ovSkipOut outC (inC i0) nOut (!onlyAdd && assignRest) nOut 0 out0 with
      | (out1, none) => out1
      | (out1, some j0) =>
        let eps := ovEpsilon outC inC nOut nIn
        let st0 : OvState := ⟨i0, j0, max (inC i0) (outC j0), true, out1⟩
        let (st, returned) := ovLoop outC inC inV nOut nIn eps onlyAdd ((nIn - i0) + (nOut - j0)) st0
        if returned then st.out
        else if !onlyAdd && assignRest then ovZeroRest nOut nOut st.j st.out
        else st.out

/-- `ArcCorrection::do_arc_correction` on one row: `overlap_interpolate` then `out /= tangential_sampling` -/
def arcCorrectRow (outC inC inV : Nat → Rat) (nOut nIn : Nat) (sampling : Rat) : Array Rat :=
  (overlapInterpolate outC inC inV nOut nIn (Array.replicate nOut 0) false true).map (· / sampling)

/-! ## the `ArcCorrection` object as a state machine (src/include/stir/ArcCorrection.h: private members; ArcCorrection.cxx:63-171)

An `ArcCorrection` object caches, between `set_up` and the `do_arc_correction` calls, the edges of the non-arc-corrected bins
(`_noarccorr_coords`), their widths (`_noarccorr_bin_sizes`), the edges of the arc-corrected bins (`_arccorr_coords`) and
`tangential_sampling` (plus the two `ProjDataInfo` pointers, represented here by the index ranges).  `set_up` may be called any number
of times on one object; the code resizes every array to the new range and writes every element, i.e. nothing of the previous
`set_up` survives.  The model's `setUp` takes the old state as an argument (as the member function does) and returns the new one. -/

/-- the cached members of an `ArcCorrection` object -/
structure ArcCorrState where
  inMin : Int                -- `_noarc_corr_proj_data_info_sptr->get_min_tangential_pos_num()` = first index of `_noarccorr_coords`
  inMax : Int
  noarcCoords : List Rat     -- `_noarccorr_coords[inMin … inMax+1]`
  noarcSizes : List Rat      -- `_noarccorr_bin_sizes[inMin … inMax]`
  outMin : Int               -- `_arc_corr_proj_data_info_sptr->get_min_tangential_pos_num()` = first index of `_arccorr_coords`
  outMax : Int
  arcCoords : List Rat       -- `_arccorr_coords[outMin … outMax+1]`
  sampling : Rat             -- `tangential_sampling`
  deriving Repr, BEq, DecidableEq

/-- `ArcCorrection::ArcCorrection()`: empty arrays -/
def ArcCorrState.fresh : ArcCorrState := ⟨0, -1, [], [], 0, -1, [], 0⟩

/-- what the three-argument `set_up` reads from its arguments: the tangential range of the input, the edges
    `ring_radius * sin((tp ∓ .5) * angular_increment)` for `tp = inMin … inMax + 1` (trigonometry: supplied by the driver, binary64),
    the number of arc-corrected positions and the bin size -/
structure ArcSetUpArgs where
  inMin : Int
  inMax : Int
  edges : List Rat
  numOut : Int
  binSize : Rat
  deriving Repr, BEq, DecidableEq

/-- `ProjDataInfo::set_num_tangential_poss` (ProjDataInfo.cxx:124-129): `min = -(n/2)`, `max = min + n - 1` (C division) -/
def tangRangeOfNum (n : Int) : Int × Int := (-(n.tdiv 2), -(n.tdiv 2) + n - 1)

/-- `b[i] = a[i+1] - a[i]`: `_noarccorr_bin_sizes` (ArcCorrection.cxx:119) -/
def adjacentDiffs : List Rat → List Rat
  | a :: b :: rest => (b - a) :: adjacentDiffs (b :: rest)
  | _ => []

/-- `ArcCorrection::set_up(proj_data_info, num_arccorrected_tangential_poss, bin_size)` (ArcCorrection.cxx:63-136) on an object in
    state `st`: every cached member is assigned (lines 79, 96, 105, 107-121, 122-134); nothing of `st` is read. -/
def ArcCorrState.setUp (_st : ArcCorrState) (a : ArcSetUpArgs) : ArcCorrState :=
  let (omin, omax) := tangRangeOfNum a.numOut
  { inMin := a.inMin, inMax := a.inMax,
    noarcCoords := a.edges,
    noarcSizes := adjacentDiffs a.edges,
    outMin := omin, outMax := omax,
    arcCoords := arcCorrCoords omin omax a.binSize,
    sampling := a.binSize }

/-- the bin size chosen by the overloads `set_up(pdi, n)` and `set_up(pdi)` (ArcCorrection.cxx:142-150, 157-165): the scanner's
    default bin size, or the central bin size `get_sampling_in_s(Bin(0,0,0,0))` when that is not positive; `mode = 0` is the
    three-argument overload with its own `bin_size` -/
def arcSetUpBinSize (mode : Int) (defaultBin centralBin requested : Rat) : Rat :=
  if mode = 0 then requested else if defaultBin ≤ 0 then centralBin else defaultBin

/-- a history of `set_up` calls on one object -/
def ArcCorrState.history (st : ArcCorrState) (h : List ArcSetUpArgs) : ArcCorrState := h.foldl ArcCorrState.setUp st

/-- `ArcCorrection::do_arc_correction(Array<1,float>& out, const Array<1,float>& in)` (ArcCorrection.cxx:173-189) with the cached
    arrays of the object -/
def ArcCorrState.correctRow (st : ArcCorrState) (inV : List Rat) : Array Rat :=
  arcCorrectRow (fun k => st.arcCoords.getD k 0) (fun k => st.noarcCoords.getD k 0) (fun k => inV.getD k 0)
    (st.outMax - st.outMin + 1).toNat (st.inMax - st.inMin + 1).toNat st.sampling

/-! ## detector-based `get_bin` on exact angles (candidates of the nearest-detector rounding) -/

/-- the results a correctly rounded `stir::round(x)` may give when `x` carries a small floating-point error:
    both neighbours when `x` is (within 1/1000 of) a half-integer, the nearest integer otherwise -/
def roundCandidates (x : Rat) : List Int :=
  let f := x - (x.floor : Int)
  if (1/2 : Rat) - 1/1000 < f ∧ f < 1/2 + 1/1000 then [x.floor, x.floor + 1]
  else [roundRat x]

/-- `modulo(int, int)` (modulo.h) for positive `n` -/
def moduloInt (a n : Int) : Int := let r := a.tmod n; if r < 0 then r + n else r

/-! ## ring pairs / detector pairs of a bin, and the detector-based `get_bin` on exact angles -/

/-- `get_segment_axial_pos_num_for_ring_pair` (ProjDataInfoCylindrical.inl:238) -/
def segAxOfRingPair (R minSeg : Int) (segs : List Seg) (r1 r2 : Int) : Option (Int × Int) := do
  let s ← segOfRingDiff minSeg segs (r2 - r1)
  let sg ← segAt minSeg segs s
  let off ← sg.axOff R
  pure (s, sg.axOf off r1 r2)

structure CylGeom where
  N : Int
  R : Int
  mash : Int           -- view mashing factor N/2/num_views
  minTang : Int
  maxTang : Int
  minSeg : Int
  segs : List Seg
  tof : Option TofTable
  deriving Repr

/-- `get_bin_for_det_pair` (ProjDataInfoCylindricalNoArcCorr.inl:117) -/
def CylGeom.binForDetPair (g : CylGeom) (d1 r1 d2 r2 t : Int) : Option Bin :=
  let (v, tp, keep) := detToViewTang g.N d1 d2
  let view := v.tdiv g.mash
  if keep then (segAxOfRingPair g.R g.minSeg g.segs r1 r2).map fun (s, a) => ⟨s, view, a, tp, t⟩
  else (segAxOfRingPair g.R g.minSeg g.segs r2 r1).map fun (s, a) => ⟨s, view, a, tp, -t⟩

inductive RtResult where
  | bin (b : Bin)
  | miss
  deriving Repr, DecidableEq

/-- `ProjDataInfoCylindricalNoArcCorr::get_bin` (ProjDataInfoCylindricalNoArcCorr.cxx:554-591) applied to the LOR
    of bin `b` (`get_LOR`, ProjDataInfoCylindrical.cxx:510), in exact arithmetic: the end points are at the
    detector coordinates `x1 = mash·v + (mash-1)/2 + tp/2`, `x2 = x1 - tp + N/2` (units of 2π/N, the tilt cancels)
    and at the ring coordinates `m/spacing ∓ delta/2 + (R-1)/2`; every admissible rounding of a tie is listed.
    Repaired code (fix C12-1): when both end points round to the same detector the result is a miss (bin value -1). -/
def CylGeom.roundTrip (g : CylGeom) (b : Bin) : List RtResult :=
  match segAt g.minSeg g.segs b.seg with
  | none => []
  | some sg =>
    let c : Rat := (g.mash * b.view : Int) + ((g.mash - 1 : Int) : Rat) / 2
    let x1 := c + (b.tang : Rat) / 2
    let x2 := c - (b.tang : Rat) / 2 + ((g.N : Rat) / 2)
    let m := sg.getM 1 b.ax
    let y1 := m - sg.avgRD / 2 + ((g.R - 1 : Int) : Rat) / 2
    let y2 := m + sg.avgRD / 2 + ((g.R - 1 : Int) : Rat) / 2
    let t := match g.tof with
      | none => 0
      | some T => T.getTofBin (T.k b.tof / cHalf)
    (roundCandidates x1).flatMap fun e1 => (roundCandidates x2).flatMap fun e2 =>
    (roundCandidates y1).flatMap fun r1 => (roundCandidates y2).map fun r2 =>
      let d1 := moduloInt e1 g.N
      let d2 := moduloInt e2 g.N
      if r1 < 0 ∨ r1 ≥ g.R ∨ r2 < 0 ∨ r2 ≥ g.R then RtResult.miss
      else if d1 = d2 then RtResult.miss
      else match g.binForDetPair d1 r1 d2 r2 t with
        | none => RtResult.miss
        | some nb => if nb.tang < g.minTang ∨ nb.tang > g.maxTang then RtResult.miss else RtResult.bin nb

/-- spatial detector pairs of a bin: `get_all_det_pos_pairs_for_bin(…, ignore_non_spatial_dimensions = true)`
    (ProjDataInfoCylindricalNoArcCorr.cxx:329) -/
def CylGeom.detPairs (g : CylGeom) (b : Bin) : List ((Int × Int) × (Int × Int)) :=
  match segAt g.minSeg g.segs b.seg with
  | none => []
  | some sg =>
    match sg.axOff g.R with
    | none => []
    | some off =>
      ((List.range g.mash.toNat).map fun (k : Nat) => b.view * g.mash + (k : Int)).flatMap fun uv =>
        (sg.ringPairsOf g.R off b.ax).map fun rp => (viewTangToDet g.N uv b.tang, rp)

/-! ## LOR representations and the conversions between them (src/include/stir/LORCoordinates.inl), angles in units of π

`LORInCylinderCoordinates` = two points `(z, ψ)` on the cylinder, directed from the first to the second;
`LORInAxialAndNoArcCorrSinogramCoordinates` = `(z1, z2, φ, β, swapped)` with `0 ≤ φ < 1`, `-1/2 ≤ β < 1/2` (units of π): the points
`(z1, φ + β)`, `(z2, φ - β + 1)`, in this order unless `swapped`.  (`LORInAxialAndSinogramCoordinates` is the same with
`s = R sin β` in place of `β`; `LORAs2Points` are the Cartesian points `R (sin ψ, -cos ψ)`, and
`find_LOR_intersections_with_cylinder` gives back `(z, ψ)` of the two points in the same order.) -/

structure LorCyl where
  z1 : Rat
  psi1 : Rat
  z2 : Rat
  psi2 : Rat
  deriving Repr, DecidableEq

structure LorNA where
  z1 : Rat
  z2 : Rat
  phi : Rat
  beta : Rat
  swapped : Bool
  deriving Repr, DecidableEq

/-- constructor from explicit arguments (LORCoordinates.inl:106-122): brings `phi` into [0,π) -/
def LorNA.mk' (z1 z2 phi beta : Rat) (swapped : Bool) : LorNA :=
  let p := to02 phi
  if p ≥ 1 then ⟨z2, z1, p - 1, -beta, !swapped⟩ else ⟨z1, z2, p, beta, swapped⟩

/-- `LORInCylinderCoordinates(const LORInAxialAndNoArcCorrSinogramCoordinates&)` (LORCoordinates.inl:128-139; the constructor from
    `LORInAxialAndSinogramCoordinates`, :141-152, is the same with `beta() = asin(s/R)`) -/
def LorNA.toCyl (l : LorNA) : LorCyl :=
  let p1 := to02 (l.phi + l.beta)
  let p2 := to02 (l.phi - l.beta + 1)
  if l.swapped then ⟨l.z2, p2, l.z1, p1⟩ else ⟨l.z1, p1, l.z2, p2⟩

/-- `get_sino_coords` (LORCoordinates.inl:154-220), used by the constructors of both sinogram forms from cylinder coordinates.
    `fixed = true`: repaired code (fix C12-6): in the branch `phi < π`, `beta < -π/2` the two points are exchanged, hence
    `swapped = true` (the code had `false` there, and `true` in the branch `phi ≥ π`, `beta < -π/2` that keeps the order). -/
def LorCyl.toNA (fixed : Bool) (c : LorCyl) : LorNA :=
  let b0 := to02 ((c.psi1 - c.psi2 + 1) / 2)
  let b := if b0 > 1 then b0 - 2 else b0
  let p := to02 ((c.psi1 + c.psi2 - 1) / 2)
  if p < 1 then
    if b ≥ 1/2 then ⟨c.z2, c.z1, p, 1 - b, true⟩
    else if b < -(1/2) then ⟨c.z2, c.z1, p, -1 - b, fixed⟩
    else ⟨c.z1, c.z2, p, b, false⟩
  else
    if b ≥ 1/2 then ⟨c.z1, c.z2, p - 1, b - 1, false⟩
    else if b < -(1/2) then ⟨c.z1, c.z2, p - 1, b + 1, !fixed⟩
    else ⟨c.z2, c.z1, p - 1, -b, true⟩

/-- the same line in the opposite direction -/
def LorCyl.reverse (c : LorCyl) : LorCyl := ⟨c.z2, c.psi2, c.z1, c.psi1⟩
def LorNA.reverse (l : LorNA) : LorNA := { l with swapped := !l.swapped }

/-- `ProjDataInfoCylindrical::get_LOR` (ProjDataInfoCylindrical.cxx:510) for non-arc-corrected data, in detector units: `tilt` =
    intrinsic tilt (units of π), `φ = (2·mash·v + mash - 1)/N + tilt`, `β = tp/N`, `z` in units of the ring spacing relative to the
    scanner centre (`max_a·tan θ = Δ·spacing/2` exactly) -/
def CylGeom.lorOf (g : CylGeom) (tilt : Rat) (b : Bin) : Option LorNA :=
  (segAt g.minSeg g.segs b.seg).map fun sg =>
    let m := sg.getM 1 b.ax
    LorNA.mk' (m - sg.avgRD / 2) (m + sg.avgRD / 2) (((2 * g.mash * b.view + g.mash - 1 : Int) : Rat) / (g.N : Rat) + tilt)
      ((b.tang : Rat) / (g.N : Rat)) false

/-- `ProjDataInfoCylindricalNoArcCorr::get_bin` (ProjDataInfoCylindricalNoArcCorr.cxx:554-591) on a LOR in cylinder coordinates
    (every LOR type is first converted to these): nearest detectors `round((ψ - tilt)/(2π/N))`, nearest rings
    `round(z/spacing + (R-1)/2)`; every admissible rounding of a tie is listed; `t` = `get_tof_bin(delta_time)`.
    (`LORInCylinderCoordinates::is_swapped()` is always `false`.) -/
def CylGeom.getBinCyl (g : CylGeom) (tilt : Rat) (c : LorCyl) (t : Int) : List RtResult :=
  let x1 := (c.psi1 - tilt) * (g.N : Rat) / 2
  let x2 := (c.psi2 - tilt) * (g.N : Rat) / 2
  let y1 := c.z1 + ((g.R - 1 : Int) : Rat) / 2
  let y2 := c.z2 + ((g.R - 1 : Int) : Rat) / 2
  (roundCandidates x1).flatMap fun e1 => (roundCandidates x2).flatMap fun e2 =>
  (roundCandidates y1).flatMap fun r1 => (roundCandidates y2).map fun r2 =>
    let d1 := moduloInt e1 g.N
    let d2 := moduloInt e2 g.N
    if r1 < 0 ∨ r1 ≥ g.R ∨ r2 < 0 ∨ r2 ≥ g.R then RtResult.miss
    else if d1 = d2 then RtResult.miss
    else match g.binForDetPair d1 r1 d2 r2 t with
      | none => RtResult.miss
      | some nb => if nb.tang < g.minTang ∨ nb.tang > g.maxTang then RtResult.miss else RtResult.bin nb

/-- the LOR of a bin as the harness hands it to `get_bin`: `kind` names the LOR type and direction -/
inductive LorKind where
  | na | cyl | sino | pts | str | rev | cylrev | narev | sinorev
  deriving Repr, DecidableEq

def LorKind.ofString? : String → Option LorKind
  | "na" => some .na | "cyl" => some .cyl | "sino" => some .sino | "pts" => some .pts | "str" => some .str
  | "rev" => some .rev | "cylrev" => some .cylrev | "narev" => some .narev | "sinorev" => some .sinorev
  | _ => none

/-- is the direction of the line reversed (with respect to the bin's LOR) in this kind -/
def LorKind.reversed : LorKind → Bool
  | .rev | .cylrev | .narev | .sinorev => true
  | _ => false

/-- does the arc-corrected `get_bin` reach its sinogram coordinates through cylinder coordinates (`get_sino_coords`) for this kind -/
def LorKind.viaCylinder : LorKind → Bool
  | .cyl | .pts | .str | .rev | .cylrev => true
  | _ => false

/-- cylinder coordinates of the LOR `l` handed over as `kind` (points on the cylinder, moved along the line or not, give the
    same cylinder coordinates in exact arithmetic) -/
def LorNA.cylOfKind (l : LorNA) (k : LorKind) : LorCyl :=
  match k with
  | .narev | .sinorev => l.reverse.toCyl
  | .rev | .cylrev => l.toCyl.reverse
  | _ => l.toCyl

/-- sinogram coordinates with `s` → with the angle `β = asin(s/R)/π` that belongs to `s` (supplied by the caller) -/
def LorS.withBeta (l : LorS) (beta : Rat) : LorNA := ⟨l.z1, l.z2, l.phi, beta, l.swapped⟩

/-- … and back, `s = R sin β`: the angle is the supplied one (then `s`) or its opposite (then `-s`) -/
def LorNA.withS (n : LorNA) (beta s : Rat) : LorS := ⟨n.z1, n.z2, n.phi, if n.beta = beta then s else -s, n.swapped⟩

/-- `ProjDataInfoCylindricalArcCorr::get_bin` of the LOR `l` (with `β = asin(s/R)/π`) handed over as `kind`:
    cylinder coordinates and points are converted with `get_sino_coords`, sinogram coordinates are copied -/
def ArcGeom.getBinVia (fixDir fixWrap : Bool) (g : ArcGeom) (k : LorKind) (l : LorS) (beta dt : Rat) : Option Bin :=
  if k.viaCylinder then g.getBinCore fixWrap ((((l.withBeta beta).cylOfKind k).toNA fixDir).withS beta l.s) dt
  else g.getBinCore fixWrap (if k.reversed then { l with swapped := !l.swapped } else l) dt

/-- `get_bin ∘ (representation change) ∘ get_LOR` for non-arc-corrected data -/
def CylGeom.roundTripVia (g : CylGeom) (tilt : Rat) (k : LorKind) (b : Bin) : List RtResult :=
  match g.lorOf tilt b with
  | none => []
  | some l =>
    let t := match g.tof with
      | none => 0
      | some T => T.getTofBin (T.k b.tof / cHalf)
    g.getBinCyl tilt (l.cylOfKind k) t

/-- `find_bin_given_cartesian_coordinates_of_detection` (ProjDataInfoCylindricalNoArcCorr.cxx:560) applied to the coordinates of the
    detector pair `(d1,r1)-(d2,r2)` (or to points moved outwards along the line through them): in exact arithmetic
    `find_scanner_coordinates_given_cartesian_coordinates` finds the two detectors again, in this or in the opposite order -/
def CylGeom.findBin (g : CylGeom) (d1 r1 d2 r2 : Int) : RtResult :=
  match g.binForDetPair d1 r1 d2 r2 0 with
  | none => .miss
  | some nb => if nb.tang < g.minTang ∨ nb.tang > g.maxTang then .miss else .bin nb

/-! ## float part (binary64; used by the driver, no theorems) -/

def ratToFloat (q : Rat) : Float := Float.ofInt q.num / Float.ofNat q.den

/-- exact value of a finite binary64 number -/
def floatToRat (x : Float) : Rat :=
  let b := x.toBits
  let sign : Int := if b >>> 63 == 1 then -1 else 1
  let e : Int := ((b >>> 52) &&& 0x7ff).toNat
  let mant : Int := (b &&& 0xfffffffffffff).toNat
  if e == 0 then (sign * mant : Int) / ((2 : Rat) ^ (1074 : Nat))
  else
    let mm : Int := sign * (mant + 2 ^ (52 : Nat))
    if e ≥ 1075 then ((mm * 2 ^ (e - 1075).toNat : Int) : Rat) else (mm : Rat) / ((2 : Rat) ^ (1075 - e).toNat)

def piF : Float := 3.14159265358979323846

/-- a computed float quantity with the magnitude `mag` that its rounding-error bound is relative to -/
structure FM where
  v : Float
  mag : Float

structure CylF where
  N : Int
  V : Int
  arc : Bool
  reff : Float
  spacing : Float
  binSize : Float
  tilt : Float
  spacingQ : Rat       -- the same ring spacing, exactly

def CylF.mash (c : CylF) : Int := (c.N.tdiv 2).tdiv c.V

/-- `azimuthal_angle_offset` after the constructor (ProjDataInfoCylindrical.cxx:66-92) -/
def CylF.phiOffset (c : CylF) : Float :=
  if c.N > 2 ∧ c.V * 2 ≠ c.N ∧ c.N.tmod (c.V * 2) == 0 then
    c.tilt + piF / Float.ofInt (c.N.tdiv 2) * Float.ofInt (c.mash - 1) / 2
  else c.tilt

/-- `get_s` (ProjDataInfoCylindricalNoArcCorr.inl:82 / ProjDataInfoCylindricalArcCorr.inl:30) -/
def CylF.getS (c : CylF) (tp : Int) : Float :=
  if c.arc then Float.ofInt tp * c.binSize else c.reff * Float.sin (Float.ofInt tp * (piF / Float.ofInt c.N))

/-- `get_phi` (ProjDataInfoCylindrical.inl:65) -/
def CylF.getPhi (c : CylF) (v : Int) : Float := Float.ofInt v * (piF / Float.ofInt c.V) + c.phiOffset

/-- `get_tantheta` (ProjDataInfoCylindrical.inl:85) -/
def CylF.getTanTheta (c : CylF) (sg : Seg) (tp : Int) : Float :=
  let delta := ratToFloat sg.avgRD
  if delta.abs < 0.0001 then 0
  else delta * c.spacing / (2 * Float.sqrt (c.reff * c.reff - c.getS tp * c.getS tp))

/-- conditioning of `sqrt(R² - s²)` -/
def CylF.cond (c : CylF) (tp : Int) : Float :=
  let s := c.getS tp
  (c.reff * c.reff + s * s) / (c.reff * c.reff - s * s).abs

/-- `to_0_2pi` -/
def to02piF (x : Float) : Float :=
  let r := x - 2 * piF * Float.floor (x / (2 * piF))
  if r ≥ 2 * piF then r - 2 * piF else r

/-- `find_LOR_intersections_with_cylinder` (LORCoordinates.inl:303-372) followed by `get_sino_coords`
    (LORCoordinates.inl:158): (z1, z2, phi, beta, swapped), or `none` when the line misses the cylinder -/
def sinoCoordsOfPoints (x1 y1 z1 x2 y2 z2 radius : Float) : Option (Float × Float × Float × Float × Bool) :=
  let dx := x2 - x1; let dy := y2 - y1; let dz := z2 - z1
  let a := dx * dx + dy * dy
  let b := dx * x1 + dy * y1
  let e := x1 * x1 + y1 * y1 - radius * radius
  let arg := b * b - a * e
  if arg ≤ 0 then none
  else
    let root := Float.sqrt arg
    let l1 := (-b - root) / a
    let l2 := (-b + root) / a
    let px := dx * l1 + x1; let py := dy * l1 + y1; let pz := dz * l1 + z1
    let qx := dx * l2 + x1; let qy := dy * l2 + y1; let qz := dz * l2 + z1
    let fix := fun (p : Float) => if p ≥ 0 then p else (let r := p + 2 * piF; if r ≥ 2 * piF then r - 2 * piF else r)
    let psi1 := fix (Float.atan2 px (-py))
    let psi2 := fix (Float.atan2 qx (-qy))
    -- get_sino_coords
    let beta0 := to02piF ((psi1 - psi2 + piF) / 2)
    let beta := if beta0 > piF then beta0 - 2 * piF else beta0
    let phi := to02piF ((psi1 + psi2 - piF) / 2)
    if phi < piF then
      if beta ≥ piF / 2 then some (qz, pz, phi, piF - beta, true)
      else if beta < -piF / 2 then some (qz, pz, phi, -piF - beta, false)
      else some (pz, qz, phi, beta, false)
    else
      let phi := phi - piF
      if beta ≥ piF / 2 then some (pz, qz, phi, beta - piF, false)
      else if beta < -piF / 2 then some (pz, qz, phi, beta + piF, true)
      else some (qz, pz, phi, -beta, true)

structure BlocksF where
  N : Int
  R : Int
  reff : Float
  tilt : Float
  axBlocksPerBucket : Int
  trBlocksPerBucket : Int
  axCrystPerBlock : Int
  trCrystPerBlock : Int
  axCrystSpacing : Float
  trCrystSpacing : Float
  axBlockSpacing : Float
  trBlockSpacing : Float

/-- `GeometryBlocksOnCylindrical::build_crystal_maps` (src/buildblock/GeometryBlocksOnCylindrical.cxx:54-139):
    coordinate (x, y, z) of the crystal with the given tangential and axial index, before the rounding to 0.001 mm
    done by `DetectorCoordinateMap::set_detector_map` -/
def BlocksF.crystal (g : BlocksF) (tang ax : Int) : Float × Float × Float :=
  let perBucket := g.trBlocksPerBucket * g.trCrystPerBlock
  let nBuckets := g.N.tdiv perBucket
  let trBucket := tang.tdiv perBucket
  let trBlock := (tang.tmod perBucket).tdiv g.trCrystPerBlock
  let trCrys := tang.tmod g.trCrystPerBlock
  let axPerBucket := g.axBlocksPerBucket * g.axCrystPerBlock
  let nAxBuckets := g.R.tdiv axPerBucket
  let axBucket := ax.tdiv axPerBucket
  let axBlock := (ax.tmod axPerBucket).tdiv g.axCrystPerBlock
  let axCrys := ax.tmod g.axCrystPerBlock
  let I := Float.ofInt
  let csi := piF / I nBuckets
  let transBlocksGap := g.trBlockSpacing - I g.trCrystPerBlock * g.trCrystSpacing
  let axBlocksGap := g.axBlockSpacing - I (g.axCrystPerBlock - 1) * g.axCrystSpacing
  let csiMinus := csi - (csi / g.trBlockSpacing * 2) * (g.trCrystSpacing / 2 + transBlocksGap)
  let startZ := -(g.axBlockSpacing * I g.axBlocksPerBucket * I nAxBuckets - axBlocksGap) / 2
  let startY := -g.reff
  let startX := -(((I g.trBlocksPerBucket - 1) / 2) * g.trBlockSpacing + ((I g.trCrystPerBlock - 1) / 2) * g.trCrystSpacing)
  let tz := I (axBlock + axBucket * g.axBlocksPerBucket) * g.axBlockSpacing + I axCrys * g.axCrystSpacing
  let tx := I trBlock * g.trBlockSpacing + I trCrys * g.trCrystSpacing
  let alpha := g.tilt + I trBucket * (2 * piF) / I nBuckets + csiMinus
  let z := startZ + tz; let y := startY; let x := startX + tx
  -- rotation matrix [[1,0,0],[0,cos,sin],[0,-sin,cos]] applied to (z,y,x)
  (-Float.sin alpha * y + Float.cos alpha * x, Float.cos alpha * y + Float.sin alpha * x, z)

end StirVerif.C12
