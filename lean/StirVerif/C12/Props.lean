/-
C12 — "Bin coordinates, lines of response and detector positions agree".
Property theorems over the model of `Model.lean`.  All of them hold for every (even) number of detectors, every number
of rings / segments / views / tangential positions / TOF bins and every (rational or real) sampling distance — no bounds.
What is *not* a theorem (floating-point evaluation of the trigonometric coordinates, the LOR representation changes of
LORCoordinates.inl in floating point, detector coordinates of blocks/generic scanners) is covered by the correspondence
run of checks/c12.py only.
-/
import StirVerif.C12.ProofsTrans
import StirVerif.C12.ProofsChord
import StirVerif.C12.ProofsAxial
import StirVerif.C12.ProofsTof
import StirVerif.C12.ProofsArc
import StirVerif.C12.ProofsOverlap

namespace StirVerif.C12
open Real

/-! ## detectors of a bin: interleaving in angle units, and the chord they span -/

/-- "the azimuthal angle matches to within half a view step, exactly for even tangential positions": in units of `π/N`
    (detector `d` sits at angle `2d`) the two detectors of bin `(v, tp)` satisfy
    `d1 + d2 ≡ 2v + N/2 - (tp mod 2)` and `d1 - d2 ≡ tp - N/2 (mod N)` -/
theorem C12_interleaving_angle_units (m v tp : Int) (hm : 0 < m) (hv : 0 ≤ v ∧ v < m) (ht : -m < tp ∧ tp ≤ m) :
    ((viewTangToDet (2 * m) v tp).1 + (viewTangToDet (2 * m) v tp).2 - (2 * v + m - tp % 2)) % (2 * m) = 0 ∧
    ((viewTangToDet (2 * m) v tp).1 - (viewTangToDet (2 * m) v tp).2 - (tp - m)) % (2 * m) = 0 :=
  interleaving_mod m v tp hm hv ht

/-- the same with the multiples of `N` explicit (`d1 = v + ⌊tp/2⌋`, `d2 = v - ⌈tp/2⌉ + N/2` up to multiples of `N`) -/
theorem C12_detectors_explicit (m v tp : Int) (hm : 0 < m) (hv : 0 ≤ v ∧ v < m) (ht : -m < tp ∧ tp ≤ m) :
    ∃ k1 k2 : Int, (viewTangToDet (2 * m) v tp).1 = v + tp / 2 + 2 * m * k1 ∧
      (viewTangToDet (2 * m) v tp).2 = v - (tp + 1) / 2 + m + 2 * m * k2 :=
  viewTangToDet_explicit m v tp hm hv ht

/-- "the bin's physical coordinates agree with the straight line through the physical positions of its detectors:
    tangential offset … match … and the azimuthal angle matches to within half a view step, exactly for even tangential
    positions": both detectors of bin `(v, tp)` (ring of radius `R`, `N = 2m` detectors, any intrinsic tilt) lie on the line
    `{x cos φ + y sin φ = s}` with `s = R sin(tp·π/N)` (`get_s`) and `φ = v·2π/N + tilt - (tp mod 2)·π/N`
    (`get_phi` for even `tp`, half a view step less for odd `tp`). -/
theorem C12_chord_through_detectors (R tilt : ℝ) (m v tp : ℤ) (hm : 0 < m) (hv : 0 ≤ v ∧ v < m) (ht : -m < tp ∧ tp ≤ m) :
    let N : ℤ := 2 * m
    let φ : ℝ := 2 * π / (N : ℝ) * (v : ℝ) + tilt - ((tp % 2 : ℤ) : ℝ) * (π / (N : ℝ))
    let s : ℝ := R * sin ((tp : ℝ) * (π / (N : ℝ)))
    ringX R (detPsi tilt N (viewTangToDet N v tp).1) * cos φ + ringY R (detPsi tilt N (viewTangToDet N v tp).1) * sin φ = s ∧
    ringX R (detPsi tilt N (viewTangToDet N v tp).2) * cos φ + ringY R (detPsi tilt N (viewTangToDet N v tp).2) * sin φ = s :=
  chord_through_detectors R tilt m v tp hm hv ht

/-- "negating the tangential position negates the offset" (non-arc-corrected data) -/
theorem C12_s_noarc_antisymmetric (R : ℝ) (N tp : ℤ) :
    R * sin (((-tp : ℤ) : ℝ) * (π / (N : ℝ))) = -(R * sin ((tp : ℝ) * (π / (N : ℝ)))) :=
  s_noarc_antisym R N tp

/-- "coordinates are … monotone in the indices": the tangential offset of non-arc-corrected data is strictly increasing
    over the whole admissible range `-N/2 ≤ tp ≤ N/2` -/
theorem C12_s_noarc_monotone (R : ℝ) (hR : 0 < R) (m tp tp' : ℤ) (hm : 0 < m) (h0 : -m ≤ tp) (h1 : tp < tp') (h2 : tp' ≤ m) :
    R * sin ((tp : ℝ) * (π / ((2 * m : ℤ) : ℝ))) < R * sin ((tp' : ℝ) * (π / ((2 * m : ℤ) : ℝ))) :=
  s_noarc_strictMono R hR m tp tp' hm h0 h1 h2

/-- "for detector-based geometries it returns a bin … at most one step away in view … and tangential position (stepping
    between the last and the first view reverses the signs …)": integer side of `get_bin ∘ get_LOR` for non-arc-corrected
    data.  The end points of the LOR sit at the detector coordinates `v + tp/2`, `v - tp/2 + N/2`: on detectors for even
    `tp`, half-way between two detectors for odd `tp`, where the floating-point rounding may go either way (`e1,e2 ∈ {0,1}`;
    this — `|ψ_float - ψ| < π/(2N)` — is the stated assumption about the float evaluation).
    `StepClose`: same flag and `|Δview| ≤ 1`, `|Δtp| ≤ 1`, or detectors exchanged (segment and TOF bin change sign),
    view `N/2-1 ↔ 0` and `|tp' + tp| ≤ 1`. -/
theorem C12_nearest_detector_roundtrip (m v tp e1 e2 : Int) (hm : 0 < m) (hv : 0 ≤ v ∧ v < m) (ht : -m < tp ∧ tp < m)
    (he1 : e1 = 0 ∨ e1 = 1) (he2 : e2 = 0 ∨ e2 = 1) (hodd : tp % 2 = 1 ∨ (e1 = 0 ∧ e2 = 0))
    (hne : moduloInt ((viewTangToDet (2 * m) v tp).1 + e1) (2 * m) ≠ moduloInt ((viewTangToDet (2 * m) v tp).2 + e2) (2 * m)) :
    StepClose m v tp (detToViewTang (2 * m) (moduloInt ((viewTangToDet (2 * m) v tp).1 + e1) (2 * m))
      (moduloInt ((viewTangToDet (2 * m) v tp).2 + e2) (2 * m))) :=
  nearest_detector_roundtrip m v tp e1 e2 hm hv ht he1 he2 hodd hne

/-- the excluded case is real: at the extreme tangential position `tp = N/2 - 1` (N = 8, view 0) rounding one end point
    up makes both end points the same detector — the source then reads a table entry it never initialised
    (harness: KNOWN-CANDIDATE `roundtrip:coincident-nearest-detectors-at-extreme-tangential-position`) -/
theorem C12_coincident_detectors_witness :
    moduloInt ((viewTangToDet 8 0 3).1 + 1) 8 = moduloInt ((viewTangToDet 8 0 3).2 + 0) 8 := by decide

/-! ## axial coordinate and obliqueness -/

/-- "coordinates are antisymmetric … in the indices": `get_m` is antisymmetric about the scanner centre -/
theorem C12_m_antisymmetric (spacing : Rat) (s : Seg) (a : Int) :
    s.getM spacing (s.numAx - 1 - a) = -s.getM spacing a :=
  Seg.getM_antisym spacing s a

/-- … and strictly increasing with the axial position, by the axial sampling -/
theorem C12_m_monotone (spacing : Rat) (h : 0 < spacing) (s : Seg) (a : Int) :
    s.getM spacing (a + 1) = s.getM spacing a + s.axialSampling spacing ∧ 0 < s.axialSampling spacing :=
  ⟨Seg.getM_succ spacing s a, Seg.axialSampling_pos spacing h s⟩

/-- "axial midpoint … match": `get_m` of a bin is the mean of the two ring positions of **every** ring pair that
    contributes to it (for uncompressed data: of its ring pair) -/
theorem C12_m_is_ring_midpoint (spacing : Rat) (R : Int) (s : Seg) (off a r1 r2 : Int)
    (hoff : s.axOff R = some off) (h : (r1, r2) ∈ s.ringPairsOf R off a) :
    s.getM spacing a = (ringZ spacing R r1 + ringZ spacing R r2) / 2 :=
  Seg.getM_eq_midpoint spacing R s off a r1 r2 hoff h

/-- "… (averaged over the contributing pairs for compressed data)" -/
theorem C12_m_is_average_over_ring_pairs (spacing : Rat) (R : Int) (s : Seg) (off a : Int)
    (hoff : s.axOff R = some off) (hne : s.ringPairsOf R off a ≠ []) :
    avgMCompressed spacing R s off a = s.getM spacing a :=
  avgMCompressed_eq_getM spacing R s off a hoff hne

/-- every contributing ring difference lies in the segment's range (the nominal obliqueness uses the middle of that range;
    the harness checks the exact average for bins whose list is not cut at the axial edge) -/
theorem C12_ring_differences_in_segment (R : Int) (s : Seg) (off a r1 r2 : Int) (h : (r1, r2) ∈ s.ringPairsOf R off a) :
    s.minRD ≤ r2 - r1 ∧ r2 - r1 ≤ s.maxRD :=
  ringPairs_rd_range R s off a r1 r2 h

/-- "opposite segments have opposite obliqueness": in the table of `ProjDataInfoCTI`, segment `-k` is the mirror image of
    segment `k`: opposite average ring difference (`get_tantheta` is that times `ring_spacing / (2 sqrt(R² - s²))`),
    same axial coordinates -/
theorem C12_opposite_segments (span maxDelta R minSeg : Int) (segs : List Seg)
    (h : ctiSegments span maxDelta R = some (minSeg, segs)) (k : Int) (hk : 0 < k) :
    segAt minSeg segs (-k) = (segAt minSeg segs k).map Seg.mirror ∧
      (∀ s : Seg, s.mirror.avgRD = -s.avgRD) ∧ (∀ (sp : Rat) (s : Seg) (a : Int), s.mirror.getM sp a = s.getM sp a) :=
  ⟨cti_opposite_segments span maxDelta R minSeg segs h k hk, Seg.mirror_avgRD, Seg.mirror_getM⟩

/-! ## TOF -/

/-- "opposite TOF bins opposite distances", boundaries contiguous (`high(t) = low(t+1)`) and symmetric, distances increasing -/
theorem C12_tof_table (n : Int) (inc : Rat) (hinc : 0 < inc) (hodd : n.tmod 2 ≠ 0) (t : Int) :
    getK n inc (-t) = -getK n inc t ∧ tofHigh n inc t = tofLow n inc (t + 1) ∧
      tofLow n inc (-t) = -tofHigh n inc t ∧ tofHigh n inc (-t) = -tofLow n inc t ∧
      tofLow n inc t < tofHigh n inc t ∧ getK n inc t < getK n inc (t + 1) :=
  ⟨getK_neg n inc t hodd, tof_contiguous n inc t hodd, (tof_symmetric n inc t hodd).1, (tof_symmetric n inc t hodd).2,
    tof_low_lt_high n inc hinc hodd t, getK_strictMono n inc hinc hodd t (t + 1) (by omega)⟩

/-- what `set_tof_mash_factor` builds: an odd number `maxNum / mash` of bins, symmetric about 0, of width `mash·size·c/2` -/
theorem C12_tof_mash (maxNum : Int) (size : Rat) (mash : Int) (T : TofTable) (h : setTofMash maxNum size mash = some T)
    (hpos : 0 < T.numBins) :
    T.numBins.tmod 2 ≠ 0 ∧ T.numBins = maxNum.tdiv mash ∧ T.minPos = -T.maxPos ∧ T.inc = ((mash : Rat) * size) * cHalf :=
  ⟨(setTofMash_spec maxNum size mash T h).1, (setTofMash_spec maxNum size mash T h).2.1,
    setTofMash_symmetric_range maxNum size mash T h hpos, (setTofMash_spec maxNum size mash T h).2.2.2.2.1⟩

/-- "… returns a bin in the same … TOF bin": the time difference of a bin (and any time difference inside it) is assigned
    to that bin by `get_tof_bin` -/
theorem C12_tof_bin_found (T : TofTable) (hinc : 0 < T.inc) (hodd : T.numBins.tmod 2 ≠ 0) (t : Int)
    (ht : T.minPos ≤ t ∧ t ≤ T.maxPos) :
    T.getTofBin (T.k t / cHalf) = t ∧
      ∀ delta, T.lowPs t ≤ delta → delta < T.highPs t → T.getTofBin delta = t :=
  ⟨getTofBin_centre T hinc hodd t ht, fun delta h1 h2 => getTofBin_of_mem T hinc hodd t ht delta h1 h2⟩

/-- seen while reading (not reachable from the LOR of a bin, so not a violation of C12): a time difference beyond the last
    bin is assigned to the FIRST bin (with a warning) instead of being reported as out of range -/
theorem C12_tof_beyond_last_goes_to_first (T : TofTable) (hinc : 0 < T.inc) (hodd : T.numBins.tmod 2 ≠ 0) (delta : Rat)
    (h : T.highPs T.maxPos ≤ delta) : T.getTofBin delta = T.minPos :=
  getTofBin_beyond_last T hinc hodd delta h

/-! ## arc-corrected data -/

/-- "for every bin, converting its reported line of response back to a bin returns the same bin for arc-corrected data"
    — in exact arithmetic, for every well-formed geometry (any azimuthal offset: both the plain and the flipped
    representation of the LOR, the latter undone by the view-wrap rule of `get_bin`) and every bin with TOF position 0 -/
theorem C12_arccorr_roundtrip (g : ArcGeom) (w : g.WF) (b : Bin) (sg : Seg) (r : g.InRange b sg) (l : LorS)
    (hl : g.lorOf b = some l) : g.getBin l = some b :=
  arccorr_roundtrip g w b sg r l hl

/-- "arc-corrected data have uniform tangential sampling" (and `get_s` is antisymmetric and increasing) -/
theorem C12_arccorr_uniform_sampling (binSize : Rat) (h : 0 < binSize) (tp tp' : Int) (hlt : tp < tp') :
    sArc binSize (tp + 1) - sArc binSize tp = binSize ∧ samplingS (sArc binSize) tp = binSize ∧
      sArc binSize (-tp) = -sArc binSize tp ∧ sArc binSize tp < sArc binSize tp' :=
  ⟨(sArc_uniform binSize h tp).1, (sArc_uniform binSize h tp).2, sArc_antisym binSize tp, sArc_strictMono binSize h tp tp' hlt⟩

/-! ## non-vacuity -/

/-- a geometry satisfying the hypotheses of `C12_arccorr_roundtrip`: span 3, 5 rings (the table built by `ProjDataInfoCTI`),
    negative azimuthal offset (-π/12, as for the ECAT 953) so that the LOR of view 0 is stored in the flipped representation -/
def exGeom : ArcGeom :=
  { V := 8, binSize := 2, spacing := 4, offset := -(1 : Rat) / 12, minTang := -7, maxTang := 7, minSeg := -1,
    segs := [⟨-4, -2, 5⟩, ⟨-1, 1, 9⟩, ⟨2, 4, 5⟩] }

example : ctiSegments 3 4 5 = some (exGeom.minSeg, exGeom.segs) := by decide

theorem C12_ex_segments (s : Int) (sg : Seg) (h : exGeom.seg? s = some sg) :
    (s = -1 ∧ sg = ⟨-4, -2, 5⟩) ∨ (s = 0 ∧ sg = ⟨-1, 1, 9⟩) ∨ (s = 1 ∧ sg = ⟨2, 4, 5⟩) := by
  have hr := exGeom.seg?_range s sg h
  have : exGeom.minSeg = -1 := rfl
  have : exGeom.maxSeg = 1 := by decide
  have hs : s = -1 ∨ s = 0 ∨ s = 1 := by omega
  rcases hs with rfl | rfl | rfl
  · left; refine ⟨rfl, ?_⟩
    have : exGeom.seg? (-1) = some ⟨-4, -2, 5⟩ := by decide
    rw [this] at h; injection h with h; exact h.symm
  · right; left; refine ⟨rfl, ?_⟩
    have : exGeom.seg? 0 = some ⟨-1, 1, 9⟩ := by decide
    rw [this] at h; injection h with h; exact h.symm
  · right; right; refine ⟨rfl, ?_⟩
    have : exGeom.seg? 1 = some ⟨2, 4, 5⟩ := by decide
    rw [this] at h; injection h with h; exact h.symm

theorem C12_ex_wellformed : exGeom.WF where
  hV := by decide
  hbin := by unfold exGeom; norm_num
  hsp := by unfold exGeom; norm_num
  hmin := by decide
  hmax := by decide
  hzero := by
    intro sg h
    rcases C12_ex_segments 0 sg h with ⟨h0, _⟩ | ⟨_, rfl⟩ | ⟨h0, _⟩
    · omega
    · decide
    · omega
  hne := by
    intro s sg h
    rcases C12_ex_segments s sg h with ⟨_, rfl⟩ | ⟨_, rfl⟩ | ⟨_, rfl⟩ <;> decide
  hord := by
    intro s s' a b ha hb hlt
    rcases C12_ex_segments s a ha with ⟨rfl, rfl⟩ | ⟨rfl, rfl⟩ | ⟨rfl, rfl⟩ <;>
    rcases C12_ex_segments s' b hb with ⟨rfl, rfl⟩ | ⟨rfl, rfl⟩ | ⟨rfl, rfl⟩ <;>
    first | (exfalso; omega) | decide

/-- … and a bin of it; hence its LOR is converted back to it -/
example : ∀ l, exGeom.lorOf ⟨1, 0, 2, -3, 0⟩ = some l → exGeom.getBin l = some ⟨1, 0, 2, -3, 0⟩ :=
  fun l hl => C12_arccorr_roundtrip exGeom C12_ex_wellformed ⟨1, 0, 2, -3, 0⟩ ⟨2, 4, 5⟩
    { hseg := by decide, hv := by decide, ha := by decide, ht := by decide, htof := rfl } l hl

/-- interleaving / chord / round-trip hypotheses are satisfiable: 16 detectors, odd tangential position; rounding both end
    points up gives the next view -/
example : (0 : Int) < 8 ∧ (0 ≤ (3 : Int) ∧ (3 : Int) < 8) ∧ (-8 < (-5 : Int) ∧ (-5 : Int) ≤ 8) ∧ viewTangToDet 16 3 (-5) = (0, 13) ∧
    detToViewTang 16 (moduloInt (0 + 1) 16) (moduloInt (13 + 1) 16) = (4, -5, true) := by decide

/-- TOF: 13 unmashed bins: mashing 3 gives 4 bins and is rejected (even), mashing 1 gives -6 … 6 -/
example : setTofMash 13 312 3 = none ∧ (setTofMash 13 312 1).map (fun T => (T.minPos, T.maxPos, T.numBins)) = some (-6, 6, 13) := by
  unfold setTofMash; decide

/-- axial: span 3 on 5 rings, segment +1 (ring differences 2…4): axial position 2 collects the ring pairs (1,3) and (0,4),
    sits at the scanner centre and has average ring difference 3 = (2+4)/2 -/
example : (⟨2, 4, 5⟩ : Seg).axOff 5 = some 2 ∧ (⟨2, 4, 5⟩ : Seg).ringPairsOf 5 2 2 = [(1, 3), (0, 4)] := by decide

example : (⟨2, 4, 5⟩ : Seg).getM 4 2 = 0 ∧ (⟨2, 4, 5⟩ : Seg).avgRD = 3 := by
  norm_num [Seg.getM, Seg.axialSampling, Seg.mOffset, Seg.inc, Seg.avgRD]

end StirVerif.C12
