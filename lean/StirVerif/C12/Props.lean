/-
C12 — "Bin coordinates, lines of response and detector positions agree".
Property theorems over the model of `Model.lean`.  All of them hold for every (even) number of detectors, every number
of rings / segments / views / tangential positions / TOF bins and every (rational or real) sampling distance — no bounds.
What is *not* a theorem (floating-point evaluation of the trigonometric coordinates, the LOR representation changes of
LORCoordinates.inl in floating point, detector coordinates of blocks/generic scanners and their `get_bin`,
`overlap_interpolate` / arc correction of rows) is covered by the correspondence run and the oracle of checks/c12.py only.

The model describes the code after the fixes C12-1 … C12-8 (docs/fixes); for C12-6 (`get_sino_coords` direction) and C12-7
(`get_bin` view wrap) the model functions take a flag, so that the code before the fix has a witness of its failure
(`…_before_fix_witness`) and the driver can follow whichever code the harness finds.  Clauses of the property that the code does not
satisfy (known findings, not repaired) have a negative witness `…_fails` and the positive theorem is named `…_partial`:
* `roundtrip:miss-at-tangential-edge`            → `C12_roundtrip_miss_at_tangential_edge_fails`, `C12_roundtrip_inside_tangential_range_partial`
* `obliqueness:ring-pair-list-cut-at-axial-edge` → `C12_obliqueness_cut_at_axial_edge_fails`, `C12_obliqueness_is_average_partial`
* `obliqueness:even-number-of-ring-differences-per-segment` → `C12_obliqueness_even_span_fails`, same `_partial` theorem
* `generic:get_bin-needs-exact-crystal-coordinates`, `generic:get_bin-no-tof`, `generic:no-coordinates-for-axially-compressed-bins`
  → oracle only (the crystal map is data, its look-up is not modelled)
-/
import StirVerif.C12.ProofsTrans
import StirVerif.C12.ProofsChord
import StirVerif.C12.ProofsAxial
import StirVerif.C12.ProofsTof
import StirVerif.C12.ProofsArc
import StirVerif.C12.ProofsOverlap
import StirVerif.C12.ProofsObliq
import StirVerif.C12.ProofsRt
import StirVerif.C12.ProofsLor
import StirVerif.C12.ProofsVia
import StirVerif.C12.ProofsReuse

namespace StirVerif.C12
open Real

/-! ## detectors of a bin: interleaving in angle units, and the chord they span -/

/-- "the azimuthal angle matches to within half a view step, exactly for even tangential positions": in units of `π/N`
    (detector `d` sits at angle `2d`) the two detectors of bin `(v, tp)` satisfy
    `d1 + d2 ≡ 2v + N/2 - (tp mod 2)` and `d1 - d2 ≡ tp - N/2 (mod N)` -/
theorem C12_interleaving_angle_units (m v tp : Int) (hm : 0 < m) (hv : 0 ≤ v ∧ v < m) (ht : -m < tp ∧ tp ≤ m) :
    ((viewTangToDet (2 * m) v tp).1 + (viewTangToDet (2 * m) v tp).2 - (2 * v + m - tp % 2)) % (2 * m) = 0 ∧
    ((viewTangToDet (2 * m) v tp).1 - (viewTangToDet (2 * m) v tp).2 - (tp - m)) % (2 * m) = 0 :=
  interleaving_mod m v tp hm hv ht

/-- the same with the multiples of `N` explicit (`d1 = v + ⌊tp/2⌋`, `d2 = v - ⌈tp/2⌉ + N/2` up to multiples of `N`) -/
theorem C12_detectors_explicit (m v tp : Int) (hm : 0 < m) (hv : 0 ≤ v ∧ v < m) (ht : -m < tp ∧ tp ≤ m) :
    ∃ k1 k2 : Int, (viewTangToDet (2 * m) v tp).1 = v + tp / 2 + 2 * m * k1 ∧
      (viewTangToDet (2 * m) v tp).2 = v - (tp + 1) / 2 + m + 2 * m * k2 :=
  viewTangToDet_explicit m v tp hm hv ht

/-- "the bin's physical coordinates agree with the straight line through the physical positions of its detectors:
    tangential offset … match … and the azimuthal angle matches to within half a view step, exactly for even tangential
    positions": both detectors of bin `(v, tp)` (ring of radius `R`, `N = 2m` detectors, any intrinsic tilt) lie on the line
    `{x cos φ + y sin φ = s}` with `s = R sin(tp·π/N)` (`get_s`) and `φ = v·2π/N + tilt - (tp mod 2)·π/N`
    (`get_phi` for even `tp`, half a view step less for odd `tp`). -/
theorem C12_chord_through_detectors (R tilt : ℝ) (m v tp : ℤ) (hm : 0 < m) (hv : 0 ≤ v ∧ v < m) (ht : -m < tp ∧ tp ≤ m) :
    let N : ℤ := 2 * m
    let φ : ℝ := 2 * π / (N : ℝ) * (v : ℝ) + tilt - ((tp % 2 : ℤ) : ℝ) * (π / (N : ℝ))
    let s : ℝ := R * sin ((tp : ℝ) * (π / (N : ℝ)))
    ringX R (detPsi tilt N (viewTangToDet N v tp).1) * cos φ + ringY R (detPsi tilt N (viewTangToDet N v tp).1) * sin φ = s ∧
    ringX R (detPsi tilt N (viewTangToDet N v tp).2) * cos φ + ringY R (detPsi tilt N (viewTangToDet N v tp).2) * sin φ = s :=
  chord_through_detectors R tilt m v tp hm hv ht

/-- "negating the tangential position negates the offset" (non-arc-corrected data) -/
theorem C12_s_noarc_antisymmetric (R : ℝ) (N tp : ℤ) :
    R * sin (((-tp : ℤ) : ℝ) * (π / (N : ℝ))) = -(R * sin ((tp : ℝ) * (π / (N : ℝ)))) :=
  s_noarc_antisym R N tp

/-- "coordinates are … monotone in the indices": the tangential offset of non-arc-corrected data is strictly increasing
    over the whole admissible range `-N/2 ≤ tp ≤ N/2` -/
theorem C12_s_noarc_monotone (R : ℝ) (hR : 0 < R) (m tp tp' : ℤ) (hm : 0 < m) (h0 : -m ≤ tp) (h1 : tp < tp') (h2 : tp' ≤ m) :
    R * sin ((tp : ℝ) * (π / ((2 * m : ℤ) : ℝ))) < R * sin ((tp' : ℝ) * (π / ((2 * m : ℤ) : ℝ))) :=
  s_noarc_strictMono R hR m tp tp' hm h0 h1 h2

/-- "for detector-based geometries it returns a bin … at most one step away in view … and tangential position (stepping
    between the last and the first view reverses the signs …)": integer side of `get_bin ∘ get_LOR` for non-arc-corrected
    data.  The end points of the LOR sit at the detector coordinates `v + tp/2`, `v - tp/2 + N/2`: on detectors for even
    `tp`, half-way between two detectors for odd `tp`, where the floating-point rounding may go either way (`e1,e2 ∈ {0,1}`;
    this — `|ψ_float - ψ| < π/(2N)` — is the stated assumption about the float evaluation).
    `StepClose`: same flag and `|Δview| ≤ 1`, `|Δtp| ≤ 1`, or detectors exchanged (segment and TOF bin change sign),
    view `N/2-1 ↔ 0` and `tp' = -tp`.  (No tangential range here: whether `tp'` is inside the data is the next theorem.) -/
theorem C12_nearest_detector_roundtrip (m v tp e1 e2 : Int) (hm : 0 < m) (hv : 0 ≤ v ∧ v < m) (ht : -m < tp ∧ tp < m)
    (he1 : e1 = 0 ∨ e1 = 1) (he2 : e2 = 0 ∨ e2 = 1) (hodd : tp % 2 = 1 ∨ (e1 = 0 ∧ e2 = 0))
    (hne : moduloInt ((viewTangToDet (2 * m) v tp).1 + e1) (2 * m) ≠ moduloInt ((viewTangToDet (2 * m) v tp).2 + e2) (2 * m)) :
    StepClose m v tp (detToViewTang (2 * m) (moduloInt ((viewTangToDet (2 * m) v tp).1 + e1) (2 * m))
      (moduloInt ((viewTangToDet (2 * m) v tp).2 + e2) (2 * m))) :=
  nearest_detector_roundtrip m v tp e1 e2 hm hv ht he1 he2 hodd hne

/-- the excluded case is real: at the extreme tangential position `tp = N/2 - 1` (N = 8, view 0) rounding one end point
    up makes both end points the same detector; the repaired `get_bin` (fix C12-1) reports a miss then (it used to read a
    table entry that is never written) — see `C12_roundtrip_miss_at_tangential_edge_fails` below -/
theorem C12_coincident_detectors_witness :
    moduloInt ((viewTangToDet 8 0 3).1 + 1) 8 = moduloInt ((viewTangToDet 8 0 3).2 + 0) 8 := by decide

/-- … and it happens only there: both end points can round to the same detector only for `|tp| ≥ N/2 - 1` -/
theorem C12_coincident_only_at_extreme (m v tp e1 e2 : Int) (hm : 0 < m) (hv : 0 ≤ v ∧ v < m) (ht : -m < tp ∧ tp < m)
    (he1 : e1 = 0 ∨ e1 = 1) (he2 : e2 = 0 ∨ e2 = 1)
    (heq : moduloInt ((viewTangToDet (2 * m) v tp).1 + e1) (2 * m) = moduloInt ((viewTangToDet (2 * m) v tp).2 + e2) (2 * m)) :
    tp ≤ -(m - 1) ∨ m - 1 ≤ tp :=
  coincident_only_at_extreme m v tp e1 e2 hm hv ht he1 he2 heq

/-- "… at most one step away in view … and tangential position …, or reports that the line misses the scanner, which
    happens only for axially compressed bins at the axial edge" — transaxial part, PARTIAL: for a bin that is **not at the
    first or last tangential position of the data** (`minT < tp < maxT`; ranges as STIR builds them: `minT + maxT ∈ {-1,0}`
    (we allow 1 too), inside `(-N/2, N/2)`), whatever the rounding does, the two nearest detectors differ, the bin found is
    one step away at most, and its tangential position is inside the data: no miss for transaxial reasons.
    What is missing: the first/last tangential position, where the property's clause is false (next theorem). -/
theorem C12_roundtrip_inside_tangential_range_partial (m v tp e1 e2 minT maxT : Int) (hm : 0 < m) (hv : 0 ≤ v ∧ v < m)
    (he1 : e1 = 0 ∨ e1 = 1) (he2 : e2 = 0 ∨ e2 = 1) (hodd : tp % 2 = 1 ∨ (e1 = 0 ∧ e2 = 0))
    (hmin : -m < minT) (hmax : maxT < m) (hsym : -1 ≤ minT + maxT ∧ minT + maxT ≤ 1) (hin : minT < tp ∧ tp < maxT) :
    moduloInt ((viewTangToDet (2 * m) v tp).1 + e1) (2 * m) ≠ moduloInt ((viewTangToDet (2 * m) v tp).2 + e2) (2 * m) ∧
    StepClose m v tp (detToViewTang (2 * m) (moduloInt ((viewTangToDet (2 * m) v tp).1 + e1) (2 * m))
      (moduloInt ((viewTangToDet (2 * m) v tp).2 + e2) (2 * m))) ∧
    minT ≤ (detToViewTang (2 * m) (moduloInt ((viewTangToDet (2 * m) v tp).1 + e1) (2 * m))
      (moduloInt ((viewTangToDet (2 * m) v tp).2 + e2) (2 * m))).2.1 ∧
    (detToViewTang (2 * m) (moduloInt ((viewTangToDet (2 * m) v tp).1 + e1) (2 * m))
      (moduloInt ((viewTangToDet (2 * m) v tp).2 + e2) (2 * m))).2.1 ≤ maxT :=
  roundtrip_inside_tangential_range m v tp e1 e2 minT maxT hm hv he1 he2 hodd hmin hmax hsym hin

/-- the same for the function the driver executes for every `rt` operation: **every** answer that the model's
    `get_bin ∘ get_LOR` (`CylGeom.roundTrip`: exact angles, every admissible rounding of a half-way end point; data without
    view mashing, any number of rings / segments / TOF) lists is a miss or a bin at most one step away in view and tangential
    position (with the last-view/first-view sign reversal) whose tangential position is inside the data.
    (Segment, axial position and TOF bin of the answer are compared with the code by the correspondence and checked by the
    oracle, they are not part of this theorem.)
    Since the extension of the model by the LOR representations (`CylGeom.roundTripVia`: the LOR handed over as cylinder
    coordinates, sinogram coordinates with `s`, two points on the cylinder or moved along the line, reversed) the same `rt`-style
    comparison runs for every representation (`rtx` operations); `C12_roundtrip_via_eq_roundTrip` shows that for the
    representations that keep the direction the model's answer list is this very list, so the theorem covers them as well. -/
theorem C12_roundtrip_model_transaxial (g : CylGeom) (m : Int) (b : Bin) (hN : g.N = 2 * m) (hm : 0 < m) (hmash : g.mash = 1)
    (hv : 0 ≤ b.view ∧ b.view < m) (ht : -m < b.tang ∧ b.tang < m) (r : RtResult) (hr : r ∈ g.roundTrip b) :
    r = RtResult.miss ∨ ∃ nb flag, r = RtResult.bin nb ∧ StepClose m b.view b.tang (nb.view, nb.tang, flag) ∧
      g.minTang ≤ nb.tang ∧ nb.tang ≤ g.maxTang :=
  roundTrip_stepClose g m b hN hm hmash hv ht r hr

/-- "… converting its reported line of response back to a bin …" with the reported LOR handed over in another representation
    that keeps its direction (`LORInCylinderCoordinates`, `LORInAxialAndSinogramCoordinates`, `LORAs2Points` on the cylinder or
    moved along the line): the model's `get_bin ∘ (representation change) ∘ get_LOR`, which goes through explicit cylinder
    coordinates `ψ = φ ± β` (`LorNA.toCyl`, angles modulo 2π), lists exactly the answers of `roundTrip`, for every number of
    detectors, view mashing factor, rings, segments and TOF (`hphi`: the view is a view of the data) -/
theorem C12_roundtrip_via_eq_roundTrip (g : CylGeom) (b : Bin) (k : LorKind) (hk : k.reversed = false) (hN : 0 < g.N)
    (hphi : 0 ≤ 2 * g.mash * b.view + g.mash - 1 ∧ 2 * g.mash * b.view + g.mash - 1 < g.N) :
    g.roundTripVia 0 k b = g.roundTrip b :=
  roundTripVia_eq_roundTrip g b k hk hN hphi

/-- … hence every answer for such a representation is a miss or at most one step away in view and tangential position, inside
    the data (the statement of `C12_roundtrip_model_transaxial` for the `rtx` operations of the driver) -/
theorem C12_roundtrip_via_transaxial (g : CylGeom) (m : Int) (b : Bin) (k : LorKind) (hk : k.reversed = false)
    (hN : g.N = 2 * m) (hm : 0 < m) (hmash : g.mash = 1)
    (hv : 0 ≤ b.view ∧ b.view < m) (ht : -m < b.tang ∧ b.tang < m) (r : RtResult) (hr : r ∈ g.roundTripVia 0 k b) :
    r = RtResult.miss ∨ ∃ nb flag, r = RtResult.bin nb ∧ StepClose m b.view b.tang (nb.view, nb.tang, flag) ∧
      g.minTang ≤ nb.tang ∧ nb.tang ≤ g.maxTang := by
  rw [C12_roundtrip_via_eq_roundTrip g b k hk (by omega) (by rw [hmash, hN]; omega)] at hr
  exact roundTrip_stepClose g m b hN hm hmash hv ht r hr

/-- the smallest geometry of the known finding `roundtrip:miss-at-tangential-edge`: 8 detectors, 1 ring, span 1, 4 views,
    3 tangential positions -1 … 1 (neither axially compressed nor at an axial edge) -/
def exEdgeGeom : CylGeom :=
  { N := 8, R := 1, mash := 1, minTang := -1, maxTang := 1, minSeg := 0, segs := [⟨0, 0, 1⟩], tof := none }

/-- NEGATIVE WITNESS (known finding `roundtrip:miss-at-tangential-edge`): "reports that the line misses the scanner,
    which happens only for axially compressed bins at the axial edge" is false: `miss` is one of the results that
    `get_bin (get_LOR b)` may give (depending on how the floating-point rounding of the half-way end points goes) for the
    bin (segment 0, view 3, axial position 0, tangential position -1) of `exEdgeGeom`; the real code does return it. -/
theorem C12_roundtrip_miss_at_tangential_edge_fails :
    RtResult.miss ∈ exEdgeGeom.roundTrip ⟨0, 3, 0, -1, 0⟩ := by decide +kernel

/-! ## axial coordinate and obliqueness -/

/-- "coordinates are antisymmetric … in the indices": `get_m` is antisymmetric about the scanner centre -/
theorem C12_m_antisymmetric (spacing : Rat) (s : Seg) (a : Int) :
    s.getM spacing (s.numAx - 1 - a) = -s.getM spacing a :=
  Seg.getM_antisym spacing s a

/-- … and strictly increasing with the axial position, by the axial sampling -/
theorem C12_m_monotone (spacing : Rat) (h : 0 < spacing) (s : Seg) (a : Int) :
    s.getM spacing (a + 1) = s.getM spacing a + s.axialSampling spacing ∧ 0 < s.axialSampling spacing :=
  ⟨Seg.getM_succ spacing s a, Seg.axialSampling_pos spacing h s⟩

/-- "axial midpoint … match": `get_m` of a bin is the mean of the two ring positions of **every** ring pair that
    contributes to it (for uncompressed data: of its ring pair) -/
theorem C12_m_is_ring_midpoint (spacing : Rat) (R : Int) (s : Seg) (off a r1 r2 : Int)
    (hoff : s.axOff R = some off) (h : (r1, r2) ∈ s.ringPairsOf R off a) :
    s.getM spacing a = (ringZ spacing R r1 + ringZ spacing R r2) / 2 :=
  Seg.getM_eq_midpoint spacing R s off a r1 r2 hoff h

/-- "… (averaged over the contributing pairs for compressed data)" -/
theorem C12_m_is_average_over_ring_pairs (spacing : Rat) (R : Int) (s : Seg) (off a : Int)
    (hoff : s.axOff R = some off) (hne : s.ringPairsOf R off a ≠ []) :
    avgMCompressed spacing R s off a = s.getM spacing a :=
  avgMCompressed_eq_getM spacing R s off a hoff hne

/-- every contributing ring difference lies in the segment's range (the nominal obliqueness uses the middle of that range;
    the harness checks the exact average for bins whose list is not cut at the axial edge) -/
theorem C12_ring_differences_in_segment (R : Int) (s : Seg) (off a r1 r2 : Int) (h : (r1, r2) ∈ s.ringPairsOf R off a) :
    s.minRD ≤ r2 - r1 ∧ r2 - r1 ≤ s.maxRD :=
  ringPairs_rd_range R s off a r1 r2 h

/-- "… and obliqueness match (averaged over the contributing pairs for compressed data)" — PARTIAL: the ring difference
    averaged over the ring pairs of (segment, axial position) is the segment's nominal `(min+max)/2` (which `get_tantheta`
    multiplies by `ring_spacing / (2 sqrt(R² - s²))`) provided that (1) the segment has an odd number of ring differences
    (`max - min` even: odd span) and (2) every ring difference of the segment of the parity of the ring sum gives a ring
    pair inside the scanner (`InScanner`: the list is not cut at the axial edge).  These two hypotheses exclude exactly the
    two known findings, for which the clause is false (next two theorems). -/
theorem C12_obliqueness_is_average_partial (R : Int) (s : Seg) (off a : Int)
    (hodd : (s.maxRD - s.minRD) % 2 = 0)
    (hcomplete : ∀ rd, s.minRD ≤ rd → rd ≤ s.maxRD → (s.ringSum off a + rd) % 2 = 0 → InScanner R (s.ringSum off a) rd)
    (hne : s.ringPairsOf R off a ≠ []) :
    avgRDCompressed R s off a = s.avgRD :=
  avgRDCompressed_eq_avgRD R s off a hodd hcomplete hne

/-- NEGATIVE WITNESS (known finding `obliqueness:ring-pair-list-cut-at-axial-edge`): 5 rings, span 3, segment +1
    (ring differences 2 … 4), axial position 0: the only contributing ring pair is (0,2), ring difference 2, whereas the
    nominal value used by `get_tantheta` is 3 -/
theorem C12_obliqueness_cut_at_axial_edge_fails :
    (⟨2, 4, 5⟩ : Seg).axOff 5 = some 2 ∧ (⟨2, 4, 5⟩ : Seg).ringPairsOf 5 2 0 = [(0, 2)] ∧
      avgRDCompressed 5 ⟨2, 4, 5⟩ 2 0 = 2 ∧ (⟨2, 4, 5⟩ : Seg).avgRD = 3 := by decide +kernel

/-- NEGATIVE WITNESS (known finding `obliqueness:even-number-of-ring-differences-per-segment`): 6 rings, span 2,
    segment +1 (ring differences 2 … 3), axial position 2 in the middle of the segment: the only contributing ring pair
    is (1,3), ring difference 2, whereas the nominal value is 5/2 (axial position 3: (1,4), ring difference 3) -/
theorem C12_obliqueness_even_span_fails :
    (⟨2, 3, 7⟩ : Seg).axOff 6 = some 2 ∧ (⟨2, 3, 7⟩ : Seg).ringPairsOf 6 2 2 = [(1, 3)] ∧
      avgRDCompressed 6 ⟨2, 3, 7⟩ 2 2 = 2 ∧ avgRDCompressed 6 ⟨2, 3, 7⟩ 2 3 = 3 ∧ (⟨2, 3, 7⟩ : Seg).avgRD = 5 / 2 := by
  decide +kernel

/-- "opposite segments have opposite obliqueness", segment 0 (its own opposite): in the table of `ProjDataInfoCTI`
    (repaired code, fix C12-2: `max_delta ≥ span/2` is required) segment 0 has ring differences `-span/2 … span/2`, average 0 -/
theorem C12_segment0_symmetric (span maxDelta R minSeg : Int) (segs : List Seg)
    (h : ctiSegments span maxDelta R = some (minSeg, segs)) :
    ∃ s0, segAt minSeg segs 0 = some s0 ∧ s0.minRD = -s0.maxRD ∧ s0.avgRD = 0 :=
  cti_segment0 span maxDelta R minSeg segs h

/-- the configuration of the repaired defect (even span 4, `max_delta = span/2 - 1 = 1`, 5 rings), which used to give
    segment 0 the ring differences -2 … 1, is rejected; span 4 with `max_delta = 2` gives -2 … 2 -/
theorem C12_even_span_clipped_segment0_rejected :
    ctiSegments 4 1 5 = none ∧ ctiSegments 4 2 5 = some (0, [⟨-2, 2, 9⟩]) := by decide

/-- "opposite segments have opposite obliqueness": in the table of `ProjDataInfoCTI`, segment `-k` is the mirror image of
    segment `k`: opposite average ring difference (`get_tantheta` is that times `ring_spacing / (2 sqrt(R² - s²))`),
    same axial coordinates -/
theorem C12_opposite_segments (span maxDelta R minSeg : Int) (segs : List Seg)
    (h : ctiSegments span maxDelta R = some (minSeg, segs)) (k : Int) (hk : 0 < k) :
    segAt minSeg segs (-k) = (segAt minSeg segs k).map Seg.mirror ∧
      (∀ s : Seg, s.mirror.avgRD = -s.avgRD) ∧ (∀ (sp : Rat) (s : Seg) (a : Int), s.mirror.getM sp a = s.getM sp a) :=
  ⟨cti_opposite_segments span maxDelta R minSeg segs h k hk, Seg.mirror_avgRD, Seg.mirror_getM⟩

/-! ## TOF -/

/-- "opposite TOF bins opposite distances", boundaries contiguous (`high(t) = low(t+1)`) and symmetric, distances increasing -/
theorem C12_tof_table (n : Int) (inc : Rat) (hinc : 0 < inc) (hodd : n.tmod 2 ≠ 0) (t : Int) :
    getK n inc (-t) = -getK n inc t ∧ tofHigh n inc t = tofLow n inc (t + 1) ∧
      tofLow n inc (-t) = -tofHigh n inc t ∧ tofHigh n inc (-t) = -tofLow n inc t ∧
      tofLow n inc t < tofHigh n inc t ∧ getK n inc t < getK n inc (t + 1) :=
  ⟨getK_neg n inc t hodd, tof_contiguous n inc t hodd, (tof_symmetric n inc t hodd).1, (tof_symmetric n inc t hodd).2,
    tof_low_lt_high n inc hinc hodd t, getK_strictMono n inc hinc hodd t (t + 1) (by omega)⟩

/-- what `set_tof_mash_factor` builds: an odd number `maxNum / mash` of bins, symmetric about 0, of width `mash·size·c/2` -/
theorem C12_tof_mash (maxNum : Int) (size : Rat) (mash : Int) (T : TofTable) (h : setTofMash maxNum size mash = some T)
    (hpos : 0 < T.numBins) :
    T.numBins.tmod 2 ≠ 0 ∧ T.numBins = maxNum.tdiv mash ∧ T.minPos = -T.maxPos ∧ T.inc = ((mash : Rat) * size) * cHalf :=
  ⟨(setTofMash_spec maxNum size mash T h).1, (setTofMash_spec maxNum size mash T h).2.1,
    setTofMash_symmetric_range maxNum size mash T h hpos, (setTofMash_spec maxNum size mash T h).2.2.2.2.1⟩

/-- "… returns a bin in the same … TOF bin": the time difference of a bin (and any time difference inside it) is assigned
    to that bin by `get_tof_bin` -/
theorem C12_tof_bin_found (T : TofTable) (hinc : 0 < T.inc) (hodd : T.numBins.tmod 2 ≠ 0) (t : Int)
    (ht : T.minPos ≤ t ∧ t ≤ T.maxPos) :
    T.getTofBin (T.k t / cHalf) = t ∧
      ∀ delta, T.lowPs t ≤ delta → delta < T.highPs t → T.getTofBin delta = t :=
  ⟨getTofBin_centre T hinc hodd t ht, fun delta h1 h2 => getTofBin_of_mem T hinc hodd t ht delta h1 h2⟩

/-- seen while reading (not reachable from the LOR of a bin, so not a violation of C12): a time difference beyond the last
    bin is assigned to the FIRST bin (with a warning) instead of being reported as out of range -/
theorem C12_tof_beyond_last_goes_to_first (T : TofTable) (hinc : 0 < T.inc) (hodd : T.numBins.tmod 2 ≠ 0) (delta : Rat)
    (h : T.highPs T.maxPos ≤ delta) : T.getTofBin delta = T.minPos :=
  getTofBin_beyond_last T hinc hodd delta h

/-! ## arc-corrected data -/

/-- "for every bin, converting its reported line of response back to a bin returns the same bin for arc-corrected data"
    — in exact arithmetic, for every well-formed geometry (any azimuthal offset: both the plain and the flipped
    representation of the LOR, the latter undone by the view-wrap rule of `get_bin`), TOF or not, and every bin of the data
    (every TOF position: `get_bin` is given `get_tof_delta_time(bin)` as in the harness; repaired code, fix C12-3).
    `ArcGeom.getBin` now contains the view-wrap rule of fix C12-7 (`wrapView`); by `C12_arccorr_roundtrip_every_representation`
    below the statement extends to the LOR handed over in any of the LOR types of LORCoordinates.h. -/
theorem C12_arccorr_roundtrip (g : ArcGeom) (w : g.WF) (b : Bin) (sg : Seg) (r : g.InRange b sg) (l : LorS)
    (hl : g.lorOf b = some l) : g.getBin l (g.deltaTime b.tof) = some b :=
  arccorr_roundtrip g w b sg r l hl

/-- "arc-corrected data have uniform tangential sampling" (and `get_s` is antisymmetric and increasing) -/
theorem C12_arccorr_uniform_sampling (binSize : Rat) (h : 0 < binSize) (tp tp' : Int) (hlt : tp < tp') :
    sArc binSize (tp + 1) - sArc binSize tp = binSize ∧ samplingS (sArc binSize) tp = binSize ∧
      sArc binSize (-tp) = -sArc binSize tp ∧ sArc binSize tp < sArc binSize tp' :=
  ⟨(sArc_uniform binSize h tp).1, (sArc_uniform binSize h tp).2, sArc_antisym binSize tp, sArc_strictMono binSize h tp tp' hlt⟩

/-- "arc correction maps uniform data to uniform data": the output boxes that `ArcCorrection::set_up` gives to
    `overlap_interpolate` are `[(tp - 1/2)·sampling, (tp + 1/2)·sampling]` for every `tp`, **including the last one**
    (repaired code, fix C12-5; it used to end at `(tp + 3/2)·sampling`).  What `overlap_interpolate` does with them is
    tied to the code by correspondence and oracle only. -/
theorem C12_arccorr_boxes (minTang maxTang : Int) (sampling : Rat) (tp : Int) (h1 : minTang ≤ tp) (h2 : tp ≤ maxTang) :
    (arcCorrCoords minTang maxTang sampling)[(tp - minTang).toNat]? = some (((tp : Rat) - 1/2) * sampling) ∧
    (arcCorrCoords minTang maxTang sampling)[(tp - minTang).toNat + 1]? = some (((tp : Rat) + 1/2) * sampling) ∧
    (arcCorrCoords minTang maxTang sampling).length = (maxTang - minTang + 1).toNat + 1 :=
  ⟨(arcCorrCoords_box minTang maxTang sampling tp h1 h2).1, (arcCorrCoords_box minTang maxTang sampling tp h1 h2).2,
    arcCorrCoords_length minTang maxTang sampling⟩

/-! ## the LOR representations of LORCoordinates.inl and the conversions between them -/

/-- "converting its reported line of response back to a bin" — the reported LOR may be handed over in any LOR type; the
    conversions keep the directed line.  Sinogram coordinates `(z1, z2, φ, β, swapped)` in the standard range → cylinder
    coordinates (`LORInCylinderCoordinates(const LORInAxialAndNoArcCorrSinogramCoordinates&)`) → sinogram coordinates
    (`get_sino_coords`, repaired code, fix C12-6) is the identity — for every `φ ∈ [0,π)`, `β ∈ (-π/2, π/2)`, swapped or not -/
theorem C12_lor_sinogram_cylinder_roundtrip (l : LorNA) (h0 : 0 ≤ l.phi) (h1 : l.phi < 1) (hb0 : -(1/2) < l.beta)
    (hb1 : l.beta < 1/2) : (l.toCyl).toNA true = l :=
  toCyl_toNA l h0 h1 hb0 hb1

/-- … and cylinder coordinates → sinogram coordinates → cylinder coordinates is the identity on every non-degenerate LOR (both
    end points and their ORDER, i.e. the direction that TOF needs), the sinogram coordinates being in the standard range -/
theorem C12_lor_cylinder_sinogram_roundtrip (c : LorCyl) (h1 : 0 ≤ c.psi1 ∧ c.psi1 < 2) (h2 : 0 ≤ c.psi2 ∧ c.psi2 < 2)
    (hne : c.psi1 ≠ c.psi2) :
    (c.toNA true).toCyl = c ∧ 0 ≤ (c.toNA true).phi ∧ (c.toNA true).phi < 1 ∧
      -(1/2) < (c.toNA true).beta ∧ (c.toNA true).beta < 1/2 :=
  toNA_toCyl c h1 h2 hne

/-- WITNESS of the defect repaired by fix C12-6: with the flags as they were (`fixed = false`), the LOR from the point `ψ = 1.6π`
    (z = 1) to the point `ψ = 0.1π` (z = 2) comes back from sinogram coordinates with its two points exchanged: the direction is
    reversed (`ψ1 - ψ2 ∈ (π, 2π)`); with the repair it comes back unchanged -/
theorem C12_lor_direction_before_fix_witness :
    ((⟨1, 8/5, 2, 1/10⟩ : LorCyl).toNA false).toCyl = ⟨2, 1/10, 1, 8/5⟩ ∧
    ((⟨1, 8/5, 2, 1/10⟩ : LorCyl).toNA true).toCyl = ⟨1, 8/5, 2, 1/10⟩ := by decide +kernel

/-- the constructor from explicit arguments (any `φ`; it is brought into `[0,π)` by exchanging the end points and toggling
    `swapped`) does not change the directed line, and its result is in the standard range -/
theorem C12_lor_constructor_normalisation (z1 z2 phi beta : Rat) (sw : Bool) :
    (LorNA.mk' z1 z2 phi beta sw).toCyl = (⟨z1, z2, phi, beta, sw⟩ : LorNA).toCyl ∧
      0 ≤ (LorNA.mk' z1 z2 phi beta sw).phi ∧ (LorNA.mk' z1 z2 phi beta sw).phi < 1 :=
  ⟨mk'_toCyl z1 z2 phi beta sw, (mk'_range z1 z2 phi beta sw).1, (mk'_range z1 z2 phi beta sw).2.1⟩

/-- toggling `swapped` of the sinogram form = exchanging the two points of the cylinder form (the reversed line) -/
theorem C12_lor_reverse (l : LorNA) : l.reverse.toCyl = l.toCyl.reverse :=
  reverse_toCyl l

/-- "for every bin, converting its reported line of response back to a bin returns the same bin for arc-corrected data" — in
    EVERY representation of the reported LOR (`k`: the object returned by `get_LOR`, `LORInCylinderCoordinates`,
    `LORInAxialAndSinogramCoordinates`, `LORAs2Points` on the cylinder or moved along the line; and the same with the direction
    reversed, where the TOF position changes sign and nothing else), in exact arithmetic, for every well-formed geometry and
    every bin and TOF position of the data (repaired code, fixes C12-3, C12-6, C12-7) -/
theorem C12_arccorr_roundtrip_every_representation (g : ArcGeom) (w : g.WF) (b : Bin) (sg : Seg) (r : g.InRange b sg)
    (l : LorS) (hl : g.lorOf b = some l) (k : LorKind) (beta : Rat) (hb0 : -(1/2) < beta) (hb1 : beta < 1/2) :
    g.getBinVia true true k l beta (g.deltaTime b.tof) = some (if k.reversed then { b with tof := -b.tof } else b) :=
  arccorr_roundtrip_via g w b sg r l hl k beta hb0 hb1

/-- the view returned by the repaired arc-corrected `get_bin` (fix C12-7) is a view of the data, for EVERY line of response
    (whatever its angle, in particular an angle a rounding error below the azimuthal offset) -/
theorem C12_arccorr_getBin_view_in_range (g : ArcGeom) (hV : 0 < g.V) (l : LorS) (dt : Rat) (nb : Bin)
    (h : g.getBin l dt = some nb) : 0 ≤ nb.view ∧ nb.view < g.V :=
  getBin_view_range g hV l dt nb h

/-- reversing the direction of a LOR changes the sign of the TOF position that the arc-corrected `get_bin` returns, and
    nothing else ("stepping between the last and the first view reverses the signs of … TOF bin" relies on it) -/
theorem C12_arccorr_getBin_reverse (fix : Bool) (g : ArcGeom) (l : LorS) (dt : Rat) :
    g.getBinCore fix { l with swapped := !l.swapped } dt = (g.getBinCore fix l dt).map fun b => { b with tof := -b.tof } :=
  getBinCore_reverse fix g l dt

/-- the geometry of `exGeom` (below) with a positive azimuthal offset (π/16, as for view-mashed data) -/
def exGeomMashed : ArcGeom :=
  { V := 8, binSize := 2, spacing := 4, offset := (1 : Rat) / 16, minTang := -7, maxTang := 7, minSeg := -1,
    segs := [⟨-4, -2, 5⟩, ⟨-1, 1, 9⟩, ⟨2, 4, 5⟩] }

/-- WITNESS of the defect repaired by fix C12-7: the LOR of bin (segment 1, view 0, axial position 2, tangential position -3) of
    `exGeomMashed` with its angle a thousandth of π below the azimuthal offset: the code before the fix returns
    view 8 = `num_views` (out of range) with segment and tangential position negated; the repaired code returns the bin -/
theorem C12_arccorr_view_wrap_before_fix_witness :
    exGeomMashed.lorOf ⟨1, 0, 2, -3, 0⟩ = some ⟨-6, 6, 1/16, -6, false⟩ ∧
    exGeomMashed.getBinCore false ⟨-6, 6, 1/16 - 1/1000, -6, false⟩ 0 = some ⟨-1, 8, 2, 3, 0⟩ ∧
    exGeomMashed.getBinCore true ⟨-6, 6, 1/16 - 1/1000, -6, false⟩ 0 = some ⟨1, 0, 2, -3, 0⟩ := by decide +kernel

/-! ## non-vacuity -/

/-- a geometry satisfying the hypotheses of `C12_arccorr_roundtrip`: span 3, 5 rings (the table built by `ProjDataInfoCTI`),
    negative azimuthal offset (-π/12, as for the ECAT 953) so that the LOR of view 0 is stored in the flipped representation -/
def exGeom : ArcGeom :=
  { V := 8, binSize := 2, spacing := 4, offset := -(1 : Rat) / 12, minTang := -7, maxTang := 7, minSeg := -1,
    segs := [⟨-4, -2, 5⟩, ⟨-1, 1, 9⟩, ⟨2, 4, 5⟩] }

example : ctiSegments 3 4 5 = some (exGeom.minSeg, exGeom.segs) := by decide

theorem C12_ex_segments (s : Int) (sg : Seg) (h : exGeom.seg? s = some sg) :
    (s = -1 ∧ sg = ⟨-4, -2, 5⟩) ∨ (s = 0 ∧ sg = ⟨-1, 1, 9⟩) ∨ (s = 1 ∧ sg = ⟨2, 4, 5⟩) := by
  have hr := exGeom.seg?_range s sg h
  have : exGeom.minSeg = -1 := rfl
  have : exGeom.maxSeg = 1 := by decide
  have hs : s = -1 ∨ s = 0 ∨ s = 1 := by omega
  rcases hs with rfl | rfl | rfl
  · left; refine ⟨rfl, ?_⟩
    have : exGeom.seg? (-1) = some ⟨-4, -2, 5⟩ := by decide
    rw [this] at h; injection h with h; exact h.symm
  · right; left; refine ⟨rfl, ?_⟩
    have : exGeom.seg? 0 = some ⟨-1, 1, 9⟩ := by decide
    rw [this] at h; injection h with h; exact h.symm
  · right; right; refine ⟨rfl, ?_⟩
    have : exGeom.seg? 1 = some ⟨2, 4, 5⟩ := by decide
    rw [this] at h; injection h with h; exact h.symm

theorem C12_ex_wellformed : exGeom.WF where
  hV := by decide
  hbin := by unfold exGeom; norm_num
  hsp := by unfold exGeom; norm_num
  hmin := by decide
  hmax := by decide
  hzero := by
    intro sg h
    rcases C12_ex_segments 0 sg h with ⟨h0, _⟩ | ⟨_, rfl⟩ | ⟨h0, _⟩
    · omega
    · decide
    · omega
  hne := by
    intro s sg h
    rcases C12_ex_segments s sg h with ⟨_, rfl⟩ | ⟨_, rfl⟩ | ⟨_, rfl⟩ <;> decide
  hord := by
    intro s s' a b ha hb hlt
    rcases C12_ex_segments s a ha with ⟨rfl, rfl⟩ | ⟨rfl, rfl⟩ | ⟨rfl, rfl⟩ <;>
    rcases C12_ex_segments s' b hb with ⟨rfl, rfl⟩ | ⟨rfl, rfl⟩ | ⟨rfl, rfl⟩ <;>
    first | (exfalso; omega) | decide
  htof := by intro T h; have hn : exGeom.tof = none := rfl; rw [hn] at h; exact absurd h (by simp)

/-- … and a bin of it; hence its LOR is converted back to it -/
example : ∀ l, exGeom.lorOf ⟨1, 0, 2, -3, 0⟩ = some l → exGeom.getBin l (exGeom.deltaTime 0) = some ⟨1, 0, 2, -3, 0⟩ :=
  fun l hl => C12_arccorr_roundtrip exGeom C12_ex_wellformed ⟨1, 0, 2, -3, 0⟩ ⟨2, 4, 5⟩
    { hseg := by decide, hv := by decide, ha := by decide, ht := by decide, htof := rfl } l hl

/-- interleaving / chord / round-trip hypotheses are satisfiable: 16 detectors, odd tangential position; rounding both end
    points up gives the next view -/
example : (0 : Int) < 8 ∧ (0 ≤ (3 : Int) ∧ (3 : Int) < 8) ∧ (-8 < (-5 : Int) ∧ (-5 : Int) ≤ 8) ∧ viewTangToDet 16 3 (-5) = (0, 13) ∧
    detToViewTang 16 (moduloInt (0 + 1) 16) (moduloInt (13 + 1) 16) = (4, -5, true) := by decide

/-- TOF: 13 unmashed bins: mashing 3 gives 4 bins and is rejected (even), mashing 1 gives -6 … 6 -/
example : setTofMash 13 312 3 = none ∧ (setTofMash 13 312 1).map (fun T => (T.minPos, T.maxPos, T.numBins)) = some (-6, 6, 13) := by
  unfold setTofMash; decide

/-- axial: span 3 on 5 rings, segment +1 (ring differences 2…4): axial position 2 collects the ring pairs (1,3) and (0,4),
    sits at the scanner centre and has average ring difference 3 = (2+4)/2 -/
example : (⟨2, 4, 5⟩ : Seg).axOff 5 = some 2 ∧ (⟨2, 4, 5⟩ : Seg).ringPairsOf 5 2 2 = [(1, 3), (0, 4)] := by decide

example : (⟨2, 4, 5⟩ : Seg).getM 4 2 = 0 ∧ (⟨2, 4, 5⟩ : Seg).avgRD = 3 := by
  norm_num [Seg.getM, Seg.axialSampling, Seg.mOffset, Seg.inc, Seg.avgRD]

/-- … and the hypotheses of `C12_obliqueness_is_average_partial` hold there (ring sum 4: ring differences 2 and 4 give the
    ring pairs (1,3), (0,4) inside the 5 rings), so the averaged ring difference is the nominal 3 -/
example : avgRDCompressed 5 ⟨2, 4, 5⟩ 2 2 = (⟨2, 4, 5⟩ : Seg).avgRD :=
  C12_obliqueness_is_average_partial 5 ⟨2, 4, 5⟩ 2 2 (by decide)
    (by
      intro rd h1 h2 h3
      have hs : (⟨2, 4, 5⟩ : Seg).ringSum 2 2 = 4 := by decide
      rw [hs] at h3 ⊢
      simp only [] at h1 h2
      have : rd = 2 ∨ rd = 4 := by omega
      rcases this with rfl | rfl <;> (unfold InScanner; decide))
    (by decide)

/-- hypotheses of `C12_roundtrip_inside_tangential_range_partial` are satisfiable: 16 detectors, data range -4 … 3 (8
    tangential positions), bin at view 7 (the last), odd tangential position -3, both end points rounded up: the bin
    found is in view 0 with tangential position +3 and exchanged detectors (sign reversal), inside the range -/
example : detToViewTang 16 (moduloInt ((viewTangToDet 16 7 (-3)).1 + 1) 16) (moduloInt ((viewTangToDet 16 7 (-3)).2 + 1) 16)
    = (0, 3, false) := by decide

/-- the hypotheses of `C12_roundtrip_model_transaxial` hold for the bin of the negative witness (8 = 2·4 detectors, no
    mashing, view 3 < 4, tangential position -1): its answers are the bin itself, one step in tangential position, the
    wrapped neighbour (view 0, tangential position +1) — and the miss -/
example : exEdgeGeom.N = 2 * 4 ∧ exEdgeGeom.mash = 1 ∧
    exEdgeGeom.roundTrip ⟨0, 3, 0, -1, 0⟩ =
      [.bin ⟨0, 3, 0, -1, 0⟩, .miss, .bin ⟨0, 3, 0, 0, 0⟩, .bin ⟨0, 0, 0, 1, 0⟩] := by decide +kernel

/-- a TOF arc-corrected geometry satisfying the hypotheses of `C12_arccorr_roundtrip` (5 TOF bins -2 … 2 of 15 mm), and a
    bin with a non-zero TOF position -/
def exGeomTof : ArcGeom := { exGeom with tof := some ⟨1, -2, 2, 5, 15⟩ }

theorem C12_ex_tof_wellformed : exGeomTof.WF :=
  { C12_ex_wellformed with
    htof := by
      intro T h
      have hT : exGeomTof.tof = some ⟨1, -2, 2, 5, 15⟩ := rfl
      rw [hT] at h
      injection h with h
      subst h
      constructor
      · norm_num
      · decide }

example : ∀ l, exGeomTof.lorOf ⟨1, 0, 2, -3, -2⟩ = some l →
    exGeomTof.getBin l (exGeomTof.deltaTime (-2)) = some ⟨1, 0, 2, -3, -2⟩ :=
  fun l hl => C12_arccorr_roundtrip exGeomTof C12_ex_tof_wellformed ⟨1, 0, 2, -3, -2⟩ ⟨2, 4, 5⟩
    { hseg := by decide, hv := by decide, ha := by decide, ht := by decide,
      htof := by show (-2 : Int) ≤ -2 ∧ (-2 : Int) ≤ 2; decide } l hl

/-- `C12_roundtrip_via_transaxial` applies to the bin of the negative witness handed over as stretched points: same answers -/
example : exEdgeGeom.roundTripVia 0 .str ⟨0, 3, 0, -1, 0⟩ =
    [.bin ⟨0, 3, 0, -1, 0⟩, .miss, .bin ⟨0, 3, 0, 0, 0⟩, .bin ⟨0, 0, 0, 1, 0⟩] := by decide +kernel

/-- the hypotheses of the LOR round trips are satisfiable: a swapped LOR with negative `β` (the case that needs fix C12-6) and
    its cylinder coordinates `ψ1 = 3π/2`, `ψ2 = 0` -/
example : (⟨1, 2, 1/4, -1/4, true⟩ : LorNA).toCyl = ⟨2, 3/2, 1, 0⟩ ∧
    ((⟨1, 2, 1/4, -1/4, true⟩ : LorNA).toCyl).toNA true = ⟨1, 2, 1/4, -1/4, true⟩ ∧
    ((⟨1, 2, 1/4, -1/4, true⟩ : LorNA).toCyl).toNA false = ⟨1, 2, 1/4, -1/4, false⟩ := by decide +kernel

example : ((⟨2, 3/2, 1, 0⟩ : LorCyl).toNA true).toCyl = ⟨2, 3/2, 1, 0⟩ :=
  (C12_lor_cylinder_sinogram_roundtrip ⟨2, 3/2, 1, 0⟩ (by norm_num) (by norm_num) (by norm_num)).1

/-- `C12_arccorr_roundtrip_every_representation` on the bin of the first example, handed over as two points with the direction
    reversed (TOF position 0 stays 0) and, for the TOF geometry, in cylinder coordinates with TOF position -2 -/
example : ∀ l, exGeom.lorOf ⟨1, 0, 2, -3, 0⟩ = some l →
    exGeom.getBinVia true true .rev l (-1/5) (exGeom.deltaTime 0) = some ⟨1, 0, 2, -3, 0⟩ :=
  fun l hl => C12_arccorr_roundtrip_every_representation exGeom C12_ex_wellformed ⟨1, 0, 2, -3, 0⟩ ⟨2, 4, 5⟩
    { hseg := by decide, hv := by decide, ha := by decide, ht := by decide, htof := rfl } l hl .rev (-1/5) (by norm_num) (by norm_num)

example : ∀ l, exGeomTof.lorOf ⟨1, 0, 2, -3, -2⟩ = some l →
    exGeomTof.getBinVia true true .cylrev l (-1/5) (exGeomTof.deltaTime (-2)) = some ⟨1, 0, 2, -3, 2⟩ :=
  fun l hl => C12_arccorr_roundtrip_every_representation exGeomTof C12_ex_tof_wellformed ⟨1, 0, 2, -3, -2⟩ ⟨2, 4, 5⟩
    { hseg := by decide, hv := by decide, ha := by decide, ht := by decide,
      htof := by show (-2 : Int) ≤ -2 ∧ (-2 : Int) ≤ 2; decide } l hl .cylrev (-1/5) (by norm_num) (by norm_num)

/-! ## one `ArcCorrection` object set up more than once -/

/-- "arc correction maps uniform data to uniform data and preserves the integral over the tangential coordinate" — for whatever
    object does the arc correction, also one that was set up before for other scanners: after ANY history of `set_up` calls (any
    geometries, any of the overloads — all end in the three-argument `set_up`) followed by `set_up a`, the object is the one a fresh
    `ArcCorrection` set up with `a` would be, and `do_arc_correction` gives the same row for every input.  (`ArcCorrState.setUp`
    transcribes that `ArcCorrection::set_up` assigns every cached member; the correspondence run checks exactly this on re-used C++
    objects, whose rows the driver answers from the state it keeps.  The theorems `C12_arccorr_boxes` / `C12_arccorr_uniform_sampling`
    thereby apply to the cached boxes of a re-used object too.) -/
theorem C12_arccorrection_reused_object_eq_fresh (st : ArcCorrState) (h : List ArcSetUpArgs) (a : ArcSetUpArgs) (row : List Rat) :
    st.history (h ++ [a]) = ArcCorrState.fresh.setUp a ∧
    (st.history (h ++ [a])).correctRow row = (ArcCorrState.fresh.setUp a).correctRow row :=
  ⟨history_snoc_eq_fresh st h a, by rw [history_snoc_eq_fresh st h a]⟩

/-- what is cached after any history is what the LAST `set_up` prescribes: the edges `R sin((tp ∓ 1/2) Δφ)` of the last input
    geometry and their differences, the last bin size, and arc-corrected boxes `[(tp - 1/2)·bin size, (tp + 1/2)·bin size]` for every
    `tp` of the last arc-corrected range ("arc-corrected data have uniform tangential sampling") — nothing of earlier geometries. -/
theorem C12_arccorrection_cached_boxes_are_the_last (st : ArcCorrState) (h : List ArcSetUpArgs) (a : ArcSetUpArgs) (tp : Int)
    (h1 : (tangRangeOfNum a.numOut).1 ≤ tp) (h2 : tp ≤ (tangRangeOfNum a.numOut).2) :
    (st.history (h ++ [a])).noarcCoords = a.edges ∧
    (st.history (h ++ [a])).noarcSizes.length = a.edges.length - 1 ∧
    (∀ k x y, a.edges[k]? = some x → a.edges[k + 1]? = some y → (st.history (h ++ [a])).noarcSizes[k]? = some (y - x)) ∧
    (st.history (h ++ [a])).sampling = a.binSize ∧
    ((st.history (h ++ [a])).inMin, (st.history (h ++ [a])).inMax) = (a.inMin, a.inMax) ∧
    ((st.history (h ++ [a])).outMin, (st.history (h ++ [a])).outMax) = tangRangeOfNum a.numOut ∧
    (st.history (h ++ [a])).arcCoords[(tp - (st.history (h ++ [a])).outMin).toNat]? = some (((tp : Rat) - 1/2) * a.binSize) ∧
    (st.history (h ++ [a])).arcCoords[(tp - (st.history (h ++ [a])).outMin).toNat + 1]? = some (((tp : Rat) + 1/2) * a.binSize) := by
  rw [history_snoc_eq_fresh st h a]
  refine ⟨rfl, adjacentDiffs_length _, fun k x y hx hy => adjacentDiffs_get _ k x y hx hy, rfl, rfl, rfl, ?_, ?_⟩
  · exact (arcCorrCoords_box _ _ a.binSize tp h1 h2).1
  · exact (arcCorrCoords_box _ _ a.binSize tp h1 h2).2

/-- two input geometries with the SAME tangential range (-1 … 1) and other edges (another ring radius), same arc-corrected size -/
def exSetUpA : ArcSetUpArgs := ⟨-1, 1, [-3, -1, 1, 3], 5, 1⟩
def exSetUpB : ArcSetUpArgs := ⟨-1, 1, [-6, -2, 2, 6], 5, 1⟩

/-- non-vacuity: the two fresh objects differ (so the statement is not about a constant), the object re-used A → B → A is the fresh
    A object, and its cached input boxes are A's (widths 2, 2, 2), not B's (4, 4, 4) -/
example : ArcCorrState.fresh.setUp exSetUpA ≠ ArcCorrState.fresh.setUp exSetUpB ∧
    ArcCorrState.fresh.history [exSetUpA, exSetUpB, exSetUpA] = ArcCorrState.fresh.setUp exSetUpA ∧
    (ArcCorrState.fresh.history [exSetUpA, exSetUpB, exSetUpA]).noarcSizes = [2, 2, 2] ∧
    (ArcCorrState.fresh.history [exSetUpA, exSetUpB]).noarcSizes = [4, 4, 4] ∧
    tangRangeOfNum exSetUpA.numOut = (-2, 2) := by decide +kernel

end StirVerif.C12
