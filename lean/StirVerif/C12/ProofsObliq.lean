/-
C12 — proofs: the obliqueness (ring difference) averaged over the ring pairs contributing to an axial position of a
compressed segment equals the segment's nominal `(min+max)/2` — when the segment has an odd number of ring differences
and none of the ring pairs falls outside the scanner.
-/
import StirVerif.C12.ProofsAxial

namespace StirVerif.C12

/-- the loop body of `compute_segment_axial_pos_to_ring_pair` for ring difference `start + 2k` -/
def ringPairStep (R sum start : Int) (k : Nat) : Option (Int × Int) :=
  let rd := start + 2 * (k : Int)
  let r1 := (sum - rd).tdiv 2
  let r2 := (sum + rd).tdiv 2
  if r1 < 0 ∨ r2 < 0 ∨ r1 ≥ R ∨ r2 ≥ R then none else some (r1, r2)

theorem ringPairsOf_eq (R : Int) (s : Seg) (off a : Int) :
    s.ringPairsOf R off a =
      let sum := s.ringSum off a
      let start := s.minRD + (s.minRD + sum).tmod 2
      let cnt := if start > s.maxRD then 0 else ((s.maxRD - start) / 2).toNat + 1
      (List.range cnt).filterMap (ringPairStep R sum start) := rfl

/-- ring difference `rd` (of the parity of `sum`) gives a ring pair inside the scanner -/
def InScanner (R sum rd : Int) : Prop :=
  0 ≤ (sum - rd).tdiv 2 ∧ 0 ≤ (sum + rd).tdiv 2 ∧ (sum - rd).tdiv 2 < R ∧ (sum + rd).tdiv 2 < R

theorem ringPairStep_some (R sum start : Int) (k : Nat) (h : InScanner R sum (start + 2 * (k : Int))) :
    ringPairStep R sum start k = some ((sum - (start + 2 * (k : Int))).tdiv 2, (sum + (start + 2 * (k : Int))).tdiv 2) := by
  unfold ringPairStep
  simp only []
  unfold InScanner at h
  rw [if_neg (by omega)]

theorem tdiv_diff (sum rd : Int) (hpar : (sum + rd) % 2 = 0) : (sum + rd).tdiv 2 - (sum - rd).tdiv 2 = rd := by
  have h1 : (sum - rd) % 2 = 0 := by omega
  have a := C01.tdiv2_spec (sum + rd)
  have b := C01.tdiv2_spec (sum - rd)
  by_cases ha : 0 ≤ sum + rd <;> by_cases hb : 0 ≤ sum - rd
  · rw [a.1 ha, b.1 hb]; omega
  · rw [a.1 ha, b.2 (by omega)]; omega
  · rw [a.2 (by omega), b.1 hb]; omega
  · rw [a.2 (by omega), b.2 (by omega)]; omega

/-- the ring differences of the listed pairs are the arithmetic progression `start, start+2, …` when nothing is cut -/
theorem ringDiffs_complete (R sum start : Int) (n : Nat) (hpar : (sum + start) % 2 = 0)
    (hall : ∀ k : Nat, k < n → InScanner R sum (start + 2 * (k : Int))) :
    ((List.range n).filterMap (ringPairStep R sum start)).map (fun p => ((p.2 - p.1 : Int) : Rat)) =
      (List.range n).map (fun (k : Nat) => ((start + 2 * (k : Int) : Int) : Rat)) := by
  have h1 : (List.range n).filterMap (ringPairStep R sum start) =
      (List.range n).map (fun (k : Nat) => ((sum - (start + 2 * (k : Int))).tdiv 2, (sum + (start + 2 * (k : Int))).tdiv 2)) := by
    rw [← List.filterMap_eq_map]
    apply List.filterMap_congr
    intro k hk
    rw [List.mem_range] at hk
    exact ringPairStep_some R sum start k (hall k hk)
  rw [h1, List.map_map]
  apply List.map_congr_left
  intro k _
  simp only [Function.comp]
  congr 1
  exact tdiv_diff sum (start + 2 * (k : Int)) (by omega)

theorem foldl_add_prog (c : Rat) (n : Nat) (acc : Rat) :
    ((List.range n).map (fun (k : Nat) => c + 2 * (k : Rat))).foldl (· + ·) acc = acc + (n : Rat) * c + (n : Rat) * ((n : Rat) - 1) := by
  induction n generalizing acc with
  | zero => simp
  | succ m ih =>
    rw [List.range_succ, List.map_append, List.foldl_append, ih]
    simp only [List.map_cons, List.map_nil, List.foldl_cons, List.foldl_nil]
    push_cast
    ring

/-- mean of the arithmetic progression `c, c+2, …, c+2(n-1)` -/
theorem ratMean_prog (c : Int) (n : Nat) (hn : 0 < n) :
    ratMean ((List.range n).map (fun (k : Nat) => ((c + 2 * (k : Int) : Int) : Rat))) = (c : Rat) + ((n : Rat) - 1) := by
  unfold ratMean
  have : (List.range n).map (fun (k : Nat) => ((c + 2 * (k : Int) : Int) : Rat)) =
      (List.range n).map (fun (k : Nat) => (c : Rat) + 2 * (k : Rat)) := by
    apply List.map_congr_left; intro k _; push_cast; ring
  rw [this, foldl_add_prog]
  simp only [List.length_map, List.length_range]
  have hn' : ((n : Int) : Rat) ≠ 0 := by
    have : (0 : Rat) < ((n : Int) : Rat) := by exact_mod_cast hn
    exact ne_of_gt this
  push_cast at hn' ⊢
  field_simp
  ring

/-- `first + (n-1)` is the middle of `[mn, mx]` when the progression `first, first+2, …` (n terms) ends at `mn + mx - first` -/
theorem mean_close (mn mx first : Int) (n : Nat) (h : 2 * first + 2 * ((n : Int) - 1) = mn + mx) :
    (first : Rat) + ((n : Rat) - 1) = ((mn + mx : Int) : Rat) / 2 := by
  have : (2 : Rat) * (first : Rat) + 2 * ((n : Rat) - 1) = (mn : Rat) + (mx : Rat) := by exact_mod_cast h
  push_cast
  linarith

/-- **obliqueness averaged over the contributing ring pairs = nominal obliqueness of the segment**, for a segment with an
    odd number of ring differences (`max - min` even) at an axial position where every ring difference of the segment
    (of the parity of the ring sum) gives a ring pair inside the scanner -/
theorem avgRDCompressed_eq_avgRD (R : Int) (s : Seg) (off a : Int)
    (hodd : (s.maxRD - s.minRD) % 2 = 0)
    (hcomplete : ∀ rd, s.minRD ≤ rd → rd ≤ s.maxRD → (s.ringSum off a + rd) % 2 = 0 → InScanner R (s.ringSum off a) rd)
    (hne : s.ringPairsOf R off a ≠ []) :
    avgRDCompressed R s off a = s.avgRD := by
  unfold avgRDCompressed
  rw [ringPairsOf_eq] at hne ⊢
  simp only [] at hne ⊢
  generalize hsum : s.ringSum off a = sum at *
  have hp := C01.tmod2_spec (s.minRD + sum)
  have hd := C01.tdiv2_spec (s.minRD + sum)
  -- the three possible values of the C remainder
  have hcases : (s.minRD + sum).tmod 2 = 0 ∨ (s.minRD + sum).tmod 2 = 1 ∨ (s.minRD + sum).tmod 2 = -1 := by
    by_cases h0 : 0 ≤ s.minRD + sum
    · have := hd.1 h0; omega
    · have := hd.2 (by omega); omega
  unfold Seg.avgRD
  rcases hcases with h | h | h
  · -- start = min
    rw [h] at hne ⊢
    simp only [Int.add_zero] at hne ⊢
    by_cases hgt : s.minRD > s.maxRD
    · rw [if_pos hgt] at hne; simp at hne
    · rw [if_neg hgt] at hne ⊢
      have hpar : (sum + s.minRD) % 2 = 0 := by omega
      rw [ringDiffs_complete R sum s.minRD _ hpar]
      · rw [ratMean_prog _ _ (by omega)]
        exact mean_close s.minRD s.maxRD s.minRD _ (by push_cast; omega)
      · intro k hk
        apply hcomplete <;> omega
  · -- start = min + 1
    rw [h] at hne ⊢
    by_cases hgt : s.minRD + 1 > s.maxRD
    · rw [if_pos hgt] at hne; simp at hne
    · rw [if_neg hgt] at hne ⊢
      have hpar : (sum + (s.minRD + 1)) % 2 = 0 := by omega
      rw [ringDiffs_complete R sum (s.minRD + 1) _ hpar]
      · rw [ratMean_prog _ _ (by omega)]
        exact mean_close s.minRD s.maxRD (s.minRD + 1) _ (by push_cast; omega)
      · intro k hk
        apply hcomplete <;> omega
  · -- start = min - 1 (negative odd `min + sum`): the first pass of the loop gives a ring pair outside the scanner
    rw [h] at hne ⊢
    have hneg : s.minRD + sum < 0 := by
      by_contra hc
      have := hd.1 (by omega); omega
    by_cases hgt : s.minRD + -1 > s.maxRD
    · rw [if_pos hgt] at hne; simp at hne
    · rw [if_neg hgt] at hne ⊢
      rw [List.range_succ_eq_map, List.filterMap_cons] at hne ⊢
      have hfirst : ringPairStep R sum (s.minRD + -1) 0 = none := by
        unfold ringPairStep
        simp only []
        have hx := C01.tdiv2_spec (sum + (s.minRD + -1 + 2 * ((0 : Nat) : Int)))
        have : (sum + (s.minRD + -1 + 2 * ((0 : Nat) : Int))).tdiv 2 < 0 := by
          have := hx.2 (by omega); omega
        rw [if_pos (by omega)]
      rw [hfirst] at hne ⊢
      simp only [] at hne ⊢
      rw [List.filterMap_map] at hne ⊢
      have hstep : (ringPairStep R sum (s.minRD + -1)) ∘ Nat.succ = ringPairStep R sum (s.minRD + 1) := by
        funext k
        unfold ringPairStep
        simp only [Function.comp]
        have : s.minRD + -1 + 2 * ((k.succ : Nat) : Int) = s.minRD + 1 + 2 * (k : Int) := by push_cast; ring
        rw [this]
      rw [hstep] at hne ⊢
      have hpar : (sum + (s.minRD + 1)) % 2 = 0 := by omega
      by_cases hz : ((s.maxRD - (s.minRD + -1)) / 2).toNat = 0
      · rw [hz] at hne; simp at hne
      · rw [ringDiffs_complete R sum (s.minRD + 1) _ hpar]
        · rw [ratMean_prog _ _ (by omega)]
          exact mean_close s.minRD s.maxRD (s.minRD + 1) _ (by omega)
        · intro k hk
          apply hcomplete <;> omega

end StirVerif.C12
