/-
C12 — proofs about the boxes that `ArcCorrection::set_up` hands to `overlap_interpolate` (repaired code, fix C12-5):
the arc-corrected boxes are contiguous, all of width `tangential_sampling`, and box `tp` is centred at `tp * sampling`.
(`overlap_interpolate` itself is tied to the code by the correspondence run only.)
-/
import StirVerif.C12.Model
import Mathlib.Tactic.Ring
import Mathlib.Tactic.Linarith
import Mathlib.Tactic.NormNum
import Mathlib.Algebra.Order.Field.Rat

namespace StirVerif.C12

theorem arcCorrCoords_length (minTang maxTang : Int) (sampling : Rat) :
    (arcCorrCoords minTang maxTang sampling).length = (maxTang - minTang + 1).toNat + 1 := by
  unfold arcCorrCoords; simp

/-- `_arccorr_coords[minTang + k] = (minTang + k - 1/2) * sampling` for `k = 0 … number of bins` -/
theorem arcCorrCoords_get (minTang maxTang : Int) (sampling : Rat) (k : Nat) (hk : k ≤ (maxTang - minTang + 1).toNat) :
    (arcCorrCoords minTang maxTang sampling)[k]? = some ((((minTang + (k : Int) : Int) : Rat) - 1/2) * sampling) := by
  unfold arcCorrCoords
  rw [List.getElem?_map, List.getElem?_range (by omega)]
  rfl

/-- **every arc-corrected box has width `sampling` and box `tp` is `[(tp - 1/2)·sampling, (tp + 1/2)·sampling]`**,
    including the last one (`tp = maxTang`) -/
theorem arcCorrCoords_box (minTang maxTang : Int) (sampling : Rat) (tp : Int) (h1 : minTang ≤ tp) (h2 : tp ≤ maxTang) :
    (arcCorrCoords minTang maxTang sampling)[(tp - minTang).toNat]? = some (((tp : Rat) - 1/2) * sampling) ∧
    (arcCorrCoords minTang maxTang sampling)[(tp - minTang).toNat + 1]? = some (((tp : Rat) + 1/2) * sampling) := by
  constructor
  · rw [arcCorrCoords_get _ _ _ _ (by omega)]
    have : minTang + (((tp - minTang).toNat : Nat) : Int) = tp := by omega
    rw [this]
  · rw [arcCorrCoords_get _ _ _ _ (by omega)]
    have : minTang + (((tp - minTang).toNat + 1 : Nat) : Int) = tp + 1 := by omega
    rw [this]
    congr 1
    push_cast
    ring

end StirVerif.C12
