import StirVerif.C12.Model
namespace StirVerif.C12
end StirVerif.C12
