/-
C12 — proofs, transaxial part: interleaving in angle units and the nearest-detector round trip (integers).
Reuses the reduction lemmas of `StirVerif.C01.ProofsTrans` (the definitions are literally the same).
-/
import StirVerif.C12.Model
import StirVerif.C01.ProofsTrans

namespace StirVerif.C12

theorem viewTangToDet_eq_C01 : viewTangToDet = C01.viewTangToDet := rfl
theorem detToViewTang_eq_C01 : detToViewTang = C01.detToViewTang := rfl

/-- `viewTangToDet` at `N = 2m` in `omega`-friendly form -/
theorem viewTangToDet_eq (m v tp : Int) (hm : 0 < m) :
    viewTangToDet (2 * m) v tp =
      ((v + tp / 2 + 2 * m).tmod (2 * m), (v - (tp + 1) / 2 + m).tmod (2 * m)) := by
  rw [viewTangToDet_eq_C01]; exact C01.viewTangToDet_eq m v tp hm

theorem detToViewTang_eq (m d1 d2 tang view : Int) (hm : 0 < m)
    (htang : (d1 - d2 + 3 * m).tmod (2 * m) = tang)
    (hview : (d1 - tang / 2 + 2 * m).tmod (2 * m) = view) :
    detToViewTang (2 * m) d1 d2 =
      if view < m then
        if tang ≥ m then (view, 2 * m - tang, false) else (view, tang, true)
      else
        if tang ≥ m then (view - m, tang - 2 * m, true) else (view - m, -tang, false) := by
  rw [detToViewTang_eq_C01]; exact C01.detToViewTang_eq m d1 d2 tang view hm htang hview

/-- the two detectors of bin `(v, tp)` as explicit integers: `d1 = v + ⌊tp/2⌋` and `d2 = v - ⌈tp/2⌉ + m`, each up to a
    multiple of `N = 2m` -/
theorem viewTangToDet_explicit (m v tp : Int) (hm : 0 < m) (hv : 0 ≤ v ∧ v < m) (ht : -m < tp ∧ tp ≤ m) :
    ∃ k1 k2 : Int, (viewTangToDet (2 * m) v tp).1 = v + tp / 2 + 2 * m * k1 ∧
      (viewTangToDet (2 * m) v tp).2 = v - (tp + 1) / 2 + m + 2 * m * k2 := by
  rw [viewTangToDet_eq m v tp hm]
  simp only []
  have ha := C01.tmod_cases (v + tp / 2 + 2 * m) (2 * m) (by omega) (by omega)
  have hb := C01.tmod_cases (v - (tp + 1) / 2 + m) (2 * m) (by omega) (by omega)
  generalize (v + tp / 2 + 2 * m).tmod (2 * m) = a at *
  generalize (v - (tp + 1) / 2 + m).tmod (2 * m) = b at *
  rcases ha with ha | ha | ha <;> rcases hb with hb | hb | hb
  · exact ⟨1, 0, by omega, by omega⟩
  · exact ⟨1, -1, by omega, by omega⟩
  · exact ⟨1, -2, by omega, by omega⟩
  · exact ⟨0, 0, by omega, by omega⟩
  · exact ⟨0, -1, by omega, by omega⟩
  · exact ⟨0, -2, by omega, by omega⟩
  · exact ⟨-1, 0, by omega, by omega⟩
  · exact ⟨-1, -1, by omega, by omega⟩
  · exact ⟨-1, -2, by omega, by omega⟩

/-- **interleaving in angle units** (angles in units of `π/N`, detector `d` at angle `2d`): the sum of the detector
    angles is `2·(2v + m - (tp mod 2))` and their difference `2·(tp - m)`, modulo `2N` -/
theorem interleaving (m v tp : Int) (hm : 0 < m) (hv : 0 ≤ v ∧ v < m) (ht : -m < tp ∧ tp ≤ m) :
    (∃ k : Int, (viewTangToDet (2 * m) v tp).1 + (viewTangToDet (2 * m) v tp).2 = 2 * v + m - tp % 2 + 2 * m * k) ∧
    (∃ k : Int, (viewTangToDet (2 * m) v tp).1 - (viewTangToDet (2 * m) v tp).2 = tp - m + 2 * m * k) := by
  obtain ⟨k1, k2, h1, h2⟩ := viewTangToDet_explicit m v tp hm hv ht
  refine ⟨⟨k1 + k2, ?_⟩, ⟨k1 - k2, ?_⟩⟩
  · rw [h1, h2, Int.mul_add]; omega
  · rw [h1, h2, Int.mul_sub]; omega

/-- … in the form "congruent modulo `N`" -/
theorem interleaving_mod (m v tp : Int) (hm : 0 < m) (hv : 0 ≤ v ∧ v < m) (ht : -m < tp ∧ tp ≤ m) :
    ((viewTangToDet (2 * m) v tp).1 + (viewTangToDet (2 * m) v tp).2 - (2 * v + m - tp % 2)) % (2 * m) = 0 ∧
    ((viewTangToDet (2 * m) v tp).1 - (viewTangToDet (2 * m) v tp).2 - (tp - m)) % (2 * m) = 0 := by
  obtain ⟨⟨k, hk⟩, ⟨l, hl⟩⟩ := interleaving m v tp hm hv ht
  constructor
  · rw [hk]
    have : 2 * v + m - tp % 2 + 2 * m * k - (2 * v + m - tp % 2) = 2 * m * k := by omega
    rw [this]; exact Int.mul_emod_right _ _
  · rw [hl]
    have : tp - m + 2 * m * l - (tp - m) = 2 * m * l := by omega
    rw [this]; exact Int.mul_emod_right _ _

/-- `modulo(int,int)` on an argument in `[0, 2n]` -/
theorem moduloInt_cases (x n : Int) (hn : 0 < n) (h0 : 0 ≤ x) (h1 : x ≤ n) :
    (x < n ∧ moduloInt x n = x) ∨ (x = n ∧ moduloInt x n = 0) := by
  unfold moduloInt
  have h := C01.tmod_cases x n h0 (by omega)
  simp only []
  rcases h with h | h | h
  · left; refine ⟨h.1, ?_⟩; rw [h.2]; split <;> omega
  · right; refine ⟨by omega, ?_⟩; rw [h.2.2]; split <;> omega
  · omega

/-- what "at most one step away" means transaxially (the flag tells whether the detectors were exchanged,
    i.e. whether segment and TOF bin change sign) -/
def StepClose (m v tp : Int) (r : Int × Int × Bool) : Prop :=
  (r.2.2 = true ∧ (r.1 = v ∨ r.1 = v + 1 ∨ r.1 + 1 = v) ∧ -1 ≤ r.2.1 - tp ∧ r.2.1 - tp ≤ 1) ∨
  (r.2.2 = false ∧ ((v = m - 1 ∧ r.1 = 0) ∨ (v = 0 ∧ r.1 = m - 1)) ∧ r.2.1 + tp = 0)

set_option maxHeartbeats 2000000 in -- (a case analysis with about 300 `omega` calls)
/-- **nearest-detector round trip** (integer side of `ProjDataInfoCylindricalNoArcCorr::get_bin ∘ get_LOR`):
    the end points of the LOR of bin `(v, tp)` are at the detector coordinates `v + tp/2` and `v - tp/2 + m`;
    for even `tp` these are the detectors of the bin, for odd `tp` they lie half-way between two detectors and the
    rounding may go either way (`e1, e2 ∈ {0,1}`).  Whatever it does — unless both end points round to the same
    detector — the bin found is at most one step away in view and tangential position, the step between the last
    and the first view exchanging the detectors. -/
theorem nearest_detector_roundtrip (m v tp e1 e2 : Int) (hm : 0 < m) (hv : 0 ≤ v ∧ v < m) (ht : -m < tp ∧ tp < m)
    (he1 : e1 = 0 ∨ e1 = 1) (he2 : e2 = 0 ∨ e2 = 1) (hodd : tp % 2 = 1 ∨ (e1 = 0 ∧ e2 = 0))
    (hne : moduloInt ((viewTangToDet (2 * m) v tp).1 + e1) (2 * m) ≠ moduloInt ((viewTangToDet (2 * m) v tp).2 + e2) (2 * m)) :
    StepClose m v tp (detToViewTang (2 * m) (moduloInt ((viewTangToDet (2 * m) v tp).1 + e1) (2 * m))
      (moduloInt ((viewTangToDet (2 * m) v tp).2 + e2) (2 * m))) := by
  have hr := C01.viewTangToDet_range m v tp hm hv ht
  rw [← viewTangToDet_eq_C01] at hr
  revert hne
  rw [viewTangToDet_eq m v tp hm] at hr ⊢
  simp only [] at hr ⊢
  have ha := C01.tmod_cases (v + tp / 2 + 2 * m) (2 * m) (by omega) (by omega)
  have hb := C01.tmod_cases (v - (tp + 1) / 2 + m) (2 * m) (by omega) (by omega)
  generalize (v + tp / 2 + 2 * m).tmod (2 * m) = a at *
  generalize (v - (tp + 1) / 2 + m).tmod (2 * m) = b at *
  have hA := moduloInt_cases (a + e1) (2 * m) (by omega) (by omega) (by omega)
  have hB := moduloInt_cases (b + e2) (2 * m) (by omega) (by omega) (by omega)
  generalize moduloInt (a + e1) (2 * m) = A at *
  generalize moduloInt (b + e2) (2 * m) = B at *
  intro hne
  have hc := C01.tmod_cases (A - B + 3 * m) (2 * m) (by omega) (by omega)
  generalize htang : (A - B + 3 * m).tmod (2 * m) = tang at *
  have hd := C01.tmod_cases (A - tang / 2 + 2 * m) (2 * m) (by omega) (by omega)
  generalize hview : (A - tang / 2 + 2 * m).tmod (2 * m) = view at *
  rw [detToViewTang_eq m A B tang view hm htang hview]
  clear htang hview hr
  unfold StepClose
  rcases he1 with rfl | rfl <;> rcases he2 with rfl | rfl <;>
  rcases ha with ha | ha | ha <;> (try (exfalso; omega)) <;>
  rcases hb with hb | hb | hb <;> (try (exfalso; omega)) <;>
  rcases hA with hA | hA <;> (try (exfalso; omega)) <;>
  rcases hB with hB | hB <;> (try (exfalso; omega)) <;>
  rcases hc with hc | hc | hc <;> (try (exfalso; omega)) <;>
  rcases hd with hd | hd | hd <;> (try (exfalso; omega)) <;>
  (split <;> split <;> simp only [Bool.false_eq_true, false_and, true_and, false_or] <;> omega)

/-- both end points round to the same detector only at the extreme tangential positions `|tp| ≥ N/2 - 1` -/
theorem coincident_only_at_extreme (m v tp e1 e2 : Int) (hm : 0 < m) (hv : 0 ≤ v ∧ v < m) (ht : -m < tp ∧ tp < m)
    (he1 : e1 = 0 ∨ e1 = 1) (he2 : e2 = 0 ∨ e2 = 1)
    (heq : moduloInt ((viewTangToDet (2 * m) v tp).1 + e1) (2 * m) = moduloInt ((viewTangToDet (2 * m) v tp).2 + e2) (2 * m)) :
    tp ≤ -(m - 1) ∨ m - 1 ≤ tp := by
  have hr := C01.viewTangToDet_range m v tp hm hv ht
  rw [← viewTangToDet_eq_C01] at hr
  revert heq
  rw [viewTangToDet_eq m v tp hm] at hr ⊢
  simp only [] at hr ⊢
  have ha := C01.tmod_cases (v + tp / 2 + 2 * m) (2 * m) (by omega) (by omega)
  have hb := C01.tmod_cases (v - (tp + 1) / 2 + m) (2 * m) (by omega) (by omega)
  generalize (v + tp / 2 + 2 * m).tmod (2 * m) = a at *
  generalize (v - (tp + 1) / 2 + m).tmod (2 * m) = b at *
  have hA := moduloInt_cases (a + e1) (2 * m) (by omega) (by omega) (by omega)
  have hB := moduloInt_cases (b + e2) (2 * m) (by omega) (by omega) (by omega)
  generalize moduloInt (a + e1) (2 * m) = A at *
  generalize moduloInt (b + e2) (2 * m) = B at *
  intro heq
  rcases he1 with rfl | rfl <;> rcases he2 with rfl | rfl <;>
  rcases ha with ha | ha | ha <;> (try (exfalso; omega)) <;>
  rcases hb with hb | hb | hb <;> (try (exfalso; omega)) <;>
  rcases hA with hA | hA <;> (try (exfalso; omega)) <;>
  rcases hB with hB | hB <;> (try (exfalso; omega)) <;> omega

/-- **transaxial round trip inside the data range**: for a bin that is *not* at the first or last tangential position of
    the data (`minT < tp < maxT`, range as built by STIR: `minT + maxT ∈ {-1, 0}`, inside `(-N/2, N/2)`), whatever the
    rounding of the two end points does, they are different detectors, the bin found is at most one step away
    (`StepClose`) **and its tangential position is inside the data range** — no miss. -/
theorem roundtrip_inside_tangential_range (m v tp e1 e2 minT maxT : Int) (hm : 0 < m) (hv : 0 ≤ v ∧ v < m)
    (he1 : e1 = 0 ∨ e1 = 1) (he2 : e2 = 0 ∨ e2 = 1) (hodd : tp % 2 = 1 ∨ (e1 = 0 ∧ e2 = 0))
    (hmin : -m < minT) (hmax : maxT < m) (hsym : -1 ≤ minT + maxT ∧ minT + maxT ≤ 1) (hin : minT < tp ∧ tp < maxT) :
    moduloInt ((viewTangToDet (2 * m) v tp).1 + e1) (2 * m) ≠ moduloInt ((viewTangToDet (2 * m) v tp).2 + e2) (2 * m) ∧
    StepClose m v tp (detToViewTang (2 * m) (moduloInt ((viewTangToDet (2 * m) v tp).1 + e1) (2 * m))
      (moduloInt ((viewTangToDet (2 * m) v tp).2 + e2) (2 * m))) ∧
    minT ≤ (detToViewTang (2 * m) (moduloInt ((viewTangToDet (2 * m) v tp).1 + e1) (2 * m))
      (moduloInt ((viewTangToDet (2 * m) v tp).2 + e2) (2 * m))).2.1 ∧
    (detToViewTang (2 * m) (moduloInt ((viewTangToDet (2 * m) v tp).1 + e1) (2 * m))
      (moduloInt ((viewTangToDet (2 * m) v tp).2 + e2) (2 * m))).2.1 ≤ maxT := by
  have ht : -m < tp ∧ tp < m := by omega
  have hne : moduloInt ((viewTangToDet (2 * m) v tp).1 + e1) (2 * m) ≠ moduloInt ((viewTangToDet (2 * m) v tp).2 + e2) (2 * m) := by
    intro heq
    have := coincident_only_at_extreme m v tp e1 e2 hm hv ht he1 he2 heq
    omega
  have hs := nearest_detector_roundtrip m v tp e1 e2 hm hv ht he1 he2 hodd hne
  refine ⟨hne, hs, ?_, ?_⟩ <;>
  · unfold StepClose at hs
    rcases hs with ⟨_, _, h1, h2⟩ | ⟨_, _, h1⟩ <;> omega

end StirVerif.C12
