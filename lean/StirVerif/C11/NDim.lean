/-
C11 — N-dimensional arrays (`Array<n,elemT>`, n ≥ 1) as nested index-range maps: every level has its own first index,
rows of one level may have different ranges (irregular arrays).  Model of the checked access
`Array<n>::at(BasicCoordinate<n,int>)` = `at(c[1]).at(c[2])…` (Array.inl: each level is `VectorWithOffset::at`, which throws
`std::out_of_range` outside `[get_min_index(), get_max_index()]`), of `size_all()` and of the order in which
`begin_all()` … `end_all()` visits the elements.  Core Lean only.
-/
namespace StirVerif.C11

/-- `Array<n,int>`: `leaf lo xs` is an `Array<1>` with indices `lo … lo + xs.length - 1`; `node lo rows` an `Array<n>`, n > 1 -/
inductive RArr where
  | leaf (lo : Int) (xs : List Int)
  | node (lo : Int) (rows : List RArr)
  deriving Repr, Inhabited

/-- `VectorWithOffset::at(i)` on a vector with first index `lo`: `none` = `std::out_of_range` -/
def listAt? {α : Type} (lo : Int) (xs : List α) (i : Int) : Option α :=
  if lo ≤ i then xs[(i - lo).toNat]? else none

mutual
/-- checked access with a full coordinate, outermost index first; `none` = the exception (or a coordinate of the wrong length,
    which the C++ type `BasicCoordinate<n,int>` excludes) -/
def RArr.at? : RArr → List Int → Option Int
  | .leaf lo xs, [i] => listAt? lo xs i
  | .leaf _ _, _ => none
  | .node _ _, [] => none
  | .node lo rows, i :: cs => if lo ≤ i then RArr.atRows? rows (i - lo).toNat cs else none
def RArr.atRows? : List RArr → Nat → List Int → Option Int
  | [], _, _ => none
  | r :: _, 0, cs => r.at? cs
  | _ :: rs, k + 1, cs => RArr.atRows? rs k cs
end

/-- the elements of an `Array<1>` with their coordinates -/
def leafElems : Int → List Int → List (List Int × Int)
  | _, [] => []
  | lo, x :: xs => ([lo], x) :: leafElems (lo + 1) xs

mutual
/-- the array as a finite map: all (coordinate, value) pairs, in the order of `begin_all()` … `end_all()` -/
def RArr.elems : RArr → List (List Int × Int)
  | .leaf lo xs => leafElems lo xs
  | .node lo rows => RArr.elemsRows lo rows
def RArr.elemsRows : Int → List RArr → List (List Int × Int)
  | _, [] => []
  | lo, r :: rs => (r.elems.map fun e => (lo :: e.1, e.2)) ++ RArr.elemsRows (lo + 1) rs
end

mutual
/-- `size_all()` -/
def RArr.sizeAll : RArr → Nat
  | .leaf _ xs => xs.length
  | .node _ rows => RArr.sizeAllRows rows
def RArr.sizeAllRows : List RArr → Nat
  | [] => 0
  | r :: rs => r.sizeAll + RArr.sizeAllRows rs
end

end StirVerif.C11
