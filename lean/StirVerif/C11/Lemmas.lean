/-
C11 — helper lemmas about the memory primitives of `Model.lean`.
-/
import StirVerif.C11.Model

namespace StirVerif.C11
open Vec

/-- integer-indexed lookup -/
def getI (m : List Int) (p : Int) : Option Int := if 0 ≤ p then m[p.toNat]? else none

theorem getI_eq_some_lt {m : List Int} {p : Int} {x : Int} (h : getI m p = some x) :
    0 ≤ p ∧ p < m.length := by
  unfold getI at h
  split at h
  · have := List.getElem?_eq_some_iff.mp h
    obtain ⟨hlt, _⟩ := this
    omega
  · simp at h

theorem getI_isSome {m : List Int} {p : Int} (h0 : 0 ≤ p) (h1 : p < m.length) :
    ∃ x, getI m p = some x := by
  unfold getI
  simp only [h0, if_true]
  have : p.toNat < m.length := by omega
  exact ⟨m[p.toNat], List.getElem?_eq_getElem this⟩

theorem getI_none_of_ge {m : List Int} {p : Int} (h : (m.length : Int) ≤ p) : getI m p = none := by
  unfold getI
  split
  · apply List.getElem?_eq_none; omega
  · rfl

theorem getI_none_of_neg {m : List Int} {p : Int} (h : p < 0) : getI m p = none := by
  unfold getI; simp; omega

theorem getI_replicate (n : Nat) (a : Int) (p : Int) :
    getI (List.replicate n a) p = if 0 ≤ p ∧ p < n then some a else none := by
  unfold getI
  by_cases h0 : 0 ≤ p
  · simp only [h0, if_true, true_and]
    by_cases h1 : p < n
    · have : p.toNat < n := by omega
      simp [h1, this]
    · have : ¬ p.toNat < n := by omega
      simp [h1, this]
  · simp [h0]

theorem writeAt?_eq_some {mem : List Int} {pos : Int} {xs m : List Int}
    (h : writeAt? mem pos xs = some m) :
    0 ≤ pos ∧ pos + xs.length ≤ mem.length ∧
    m = mem.take pos.toNat ++ xs ++ mem.drop (pos.toNat + xs.length) := by
  unfold writeAt? at h
  split at h
  · rename_i hc
    injection h with h
    exact ⟨hc.1, by omega, h.symm⟩
  · simp at h

theorem writeAt?_isSome {mem : List Int} {pos : Int} {xs : List Int}
    (h0 : 0 ≤ pos) (h1 : pos + xs.length ≤ mem.length) :
    ∃ m, writeAt? mem pos xs = some m := by
  unfold writeAt?
  have : pos.toNat + xs.length ≤ mem.length := by omega
  simp [h0, this]

theorem length_writeAt {mem : List Int} {pos : Int} {xs m : List Int}
    (h : writeAt? mem pos xs = some m) : m.length = mem.length := by
  obtain ⟨h0, h1, rfl⟩ := writeAt?_eq_some h
  simp
  omega

theorem getI_writeAt {mem : List Int} {pos : Int} {xs m : List Int}
    (h : writeAt? mem pos xs = some m) (p : Int) :
    getI m p = if pos ≤ p ∧ p < pos + xs.length then getI xs (p - pos) else getI mem p := by
  obtain ⟨h0, h1, rfl⟩ := writeAt?_eq_some h
  unfold getI
  by_cases hp : 0 ≤ p
  · simp only [hp, if_true]
    by_cases hA : p < pos
    · have h2 : ¬ (pos ≤ p ∧ p < pos + xs.length) := by omega
      simp only [h2, if_false]
      rw [List.append_assoc, List.getElem?_append_left (by simp; omega)]
      rw [List.getElem?_take]
      have : p.toNat < pos.toNat := by omega
      simp [this]
    · by_cases hB : p < pos + xs.length
      · have h2 : (pos ≤ p ∧ p < pos + xs.length) := by omega
        have h3 : 0 ≤ p - pos := by omega
        simp only [h2, h3, and_self, if_true]
        rw [List.append_assoc, List.getElem?_append_right (by simp; omega)]
        rw [List.getElem?_append_left (by simp; omega)]
        congr 1
        simp
        omega
      · have h2 : ¬ (pos ≤ p ∧ p < pos + xs.length) := by omega
        simp only [h2, if_false]
        rw [List.getElem?_append_right (by simp; omega)]
        rw [List.getElem?_drop]
        congr 1
        simp
        omega
  · have h2 : ¬ (pos ≤ p ∧ p < pos + xs.length) := by omega
    simp [hp, h2]

theorem readAt?_eq_some {mem : List Int} {pos : Int} {n : Nat} {cs : List Int}
    (h : readAt? mem pos n = some cs) :
    0 ≤ pos ∧ pos + n ≤ mem.length ∧ cs.length = n := by
  unfold readAt? at h
  split at h
  · rename_i hc
    injection h with h
    subst h
    refine ⟨hc.1, by omega, ?_⟩
    simp
    omega
  · simp at h

theorem readAt?_isSome {mem : List Int} {pos : Int} {n : Nat}
    (h0 : 0 ≤ pos) (h1 : pos + n ≤ mem.length) : ∃ cs, readAt? mem pos n = some cs := by
  unfold readAt?
  have : pos.toNat + n ≤ mem.length := by omega
  simp [h0, this]

theorem getI_readAt {mem : List Int} {pos : Int} {n : Nat} {cs : List Int}
    (h : readAt? mem pos n = some cs) (k : Int) :
    getI cs k = if 0 ≤ k ∧ k < n then getI mem (pos + k) else none := by
  unfold readAt? at h
  split at h
  · rename_i hc
    injection h with h
    subst h
    unfold getI
    by_cases hk : 0 ≤ k
    · by_cases hk2 : k < n
      · have : 0 ≤ pos + k := by omega
        simp only [hk, hk2, this, and_self, if_true]
        rw [List.getElem?_take]
        have : k.toNat < n := by omega
        simp only [this, if_true]
        rw [List.getElem?_drop]
        congr 1
        omega
      · simp only [hk, hk2, and_false, if_false, if_true]
        rw [List.getElem?_take]
        have : ¬ k.toNat < n := by omega
        simp [this]
    · simp [hk]
  · simp at h

theorem raw?_eq_getI (v : Vec) (i : Int) : v.raw? i = getI v.mem (v.numOff + i) := rfl

/-- extensionality for integer-indexed lookup -/
theorem list_ext_getI {a b : List Int} (h : ∀ p, getI a p = getI b p) : a = b := by
  apply List.ext_getElem?
  intro n
  have := h n
  unfold getI at this
  simpa using this

theorem getI_zipWith (f : Int → Int → Int) (a b : List Int) (k : Int) :
    getI (List.zipWith f a b) k =
      match getI a k, getI b k with
      | some x, some y => some (f x y)
      | _, _ => none := by
  unfold getI
  by_cases hk : 0 ≤ k
  · simp only [hk, if_true]
    rw [List.getElem?_zipWith]
    cases a[k.toNat]? <;> cases b[k.toNat]? <;> rfl
  · simp [hk]

end StirVerif.C11
