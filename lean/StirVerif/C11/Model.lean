/-
C11 — executable model of `stir::VectorWithOffset<int>` / `stir::Array<1,int>`
(src/include/stir/VectorWithOffset.inl, Array.inl, NumericVectorWithOffset.inl).

Pointers enter only as integer offsets into the current allocation:
  numOff = num - begin_allocated_memory          (may be negative)
  mem    = the cells [begin_allocated_memory, end_allocated_memory)
Every operation returns `Option`: `none` means the C++ would read or write
outside `[begin_allocated_memory, end_allocated_memory)` (memory-unsafe).
The checks that are `assert`s in the C++ are compiled out in the baseline
build (NDEBUG) and are therefore absent here as well.

Core Lean only (no Mathlib): this file is linked into the `stirdriver` executable.
-/
namespace StirVerif.C11

/-- value of a freshly `new int[n]`-ed cell: indeterminate in C++; AddressSanitizer's
    malloc fill pattern 0xBE, read as a 32 bit int, is used as a recognisable stand-in.
    No theorem depends on its value. -/
def junk : Int := -1094795586

structure Vec where
  start  : Int
  len    : Nat
  numOff : Int
  mem    : List Int
  deriving Repr, DecidableEq, Inhabited

namespace Vec

/-- `VectorWithOffset::init()` / default constructor / `recycle()` -/
def empty : Vec := { start := 0, len := 0, numOff := 0, mem := [] }

def cap (v : Vec) : Nat := v.mem.length
def minIndex (v : Vec) : Int := v.start
def maxIndex (v : Vec) : Int := v.start + v.len - 1
/-- `get_capacity_min_index` = begin_allocated_memory - num -/
def capMin (v : Vec) : Int := -v.numOff
/-- `get_capacity_max_index` = end_allocated_memory - num - 1 -/
def capMax (v : Vec) : Int := (v.cap : Int) - v.numOff - 1

/-- position in `mem` of `num[start]`, i.e. of `begin()` -/
def off (v : Vec) : Int := v.numOff + v.start

/-- in-bounds read of a block of cells -/
def readAt? (mem : List Int) (pos : Int) (n : Nat) : Option (List Int) :=
  if 0 ≤ pos ∧ pos.toNat + n ≤ mem.length then some ((mem.drop pos.toNat).take n) else none

/-- in-bounds write of a block of cells -/
def writeAt? (mem : List Int) (pos : Int) (xs : List Int) : Option (List Int) :=
  if 0 ≤ pos ∧ pos.toNat + xs.length ≤ mem.length then
    some (mem.take pos.toNat ++ xs ++ mem.drop (pos.toNat + xs.length))
  else none

/-- the elements `[begin(), end())` -/
def contents? (v : Vec) : Option (List Int) := readAt? v.mem v.off v.len

/-- `num[i]` (unchecked `operator[]`): `none` if outside the allocation -/
def raw? (v : Vec) (i : Int) : Option Int :=
  let p := v.numOff + i
  if 0 ≤ p then v.mem[p.toNat]? else none

/-- `num[i] = x` -/
def setRaw? (v : Vec) (i : Int) (x : Int) : Option Vec :=
  (writeAt? v.mem (v.numOff + i) [x]).map fun m => { v with mem := m }

/-- `at(i)` : `Except`-style — `none` here means `std::out_of_range` was thrown -/
def inRange (v : Vec) (i : Int) : Bool := v.len != 0 && v.minIndex ≤ i && i ≤ v.maxIndex

/-- truncation used by `resize` to empty and by `operator=` -/
def truncate (v : Vec) : Vec := { v with len := 0, start := 0, numOff := 0 }

/-- `VectorWithOffset::set_offset(min_index)` -/
def setOffset (v : Vec) (mn : Int) : Vec :=
  if v.len = 0 then v else { v with numOff := v.numOff + (v.start - mn), start := mn }

/-- `VectorWithOffset::reserve(new_capacity_min_index, new_capacity_max_index)` -/
def reserve? (v : Vec) (mn mx : Int) : Option Vec :=
  let amin := if v.len = 0 then mn else min v.capMin mn
  let amax := if v.len = 0 then mx else max v.capMax mx
  if amin > amax then some v
  else
    let newCap := (amax - amin + 1).toNat
    if newCap ≤ v.cap then some v
    else
      let extraLeft : Nat := if v.len = 0 then 0 else (max 0 (v.minIndex - amin)).toNat
      -- std::copy(begin(), end(), new + extraLeft)
      (v.contents?).bind fun cs =>
        (writeAt? (List.replicate newCap junk) extraLeft cs).map fun m =>
          { v with mem := m, numOff := (extraLeft : Int) - (if v.len > 0 then v.start else 0) }

/-- first part of `VectorWithOffset::resize`: shrink to the overlap of old and new range
    ("determine overlapping range to avoid copying too much data when calling reserve()") -/
def shrinkToOverlap (v : Vec) (mn mx : Int) : Vec :=
  if v.len > 0 then
    let omin := max v.minIndex mn
    let omax := min v.maxIndex mx
    if omax - omin < 0 then v.truncate
    else { v with len := (omax - omin + 1).toNat, start := omin }
  else v

/-- `VectorWithOffset::resize(min_index, max_index)` (the base class one: new cells are not initialised) -/
def resizeBase? (v : Vec) (mn mx : Int) : Option Vec :=
  if mn > mx then some v.truncate
  else if v.len > 0 ∧ mn = v.minIndex ∧ mx = v.maxIndex then some v
  else
    let v1 := v.shrinkToOverlap mn mx
    (v1.reserve? mn mx).map fun v2 =>
      let len' := (mx - mn + 1).toNat
      if v1.len > 0 then { v2 with len := len', start := mn }
      else { v2 with len := len', start := mn, numOff := -mn }

/-- list of `n` zeros written by the `assign(num[i],0)` loops -/
def zeros (n : Nat) : List Int := List.replicate n 0

/-- a zero-filling loop over `n` cells starting at `pos`; a loop that does not execute
    touches nothing, wherever `pos` points -/
def writeZeros? (mem : List Int) (pos : Int) (n : Nat) : Option (List Int) :=
  if n = 0 then some mem else writeAt? mem pos (zeros n)

/-- `Array<1,int>::resize(min_index, max_index)`: base resize, then zero the newly exposed cells -/
def resize? (v : Vec) (mn mx : Int) : Option Vec :=
  let oldstart := v.minIndex
  let oldlen := v.len
  (v.resizeBase? mn mx).bind fun w =>
    if oldlen = 0 then
      -- for i in [min,max]: num[i] = 0
      (writeZeros? w.mem (w.numOff + w.minIndex) w.len).map fun m => { w with mem := m }
    else
      -- for (i = min; i < oldstart && i <= max; ++i) num[i] = 0
      let nLeft : Nat := (min oldstart (w.maxIndex + 1) - w.minIndex).toNat
      -- for (i = max(oldstart+oldlength, min); i <= max; ++i) num[i] = 0
      let rstart : Int := max (oldstart + oldlen) w.minIndex
      let nRight : Nat := (w.maxIndex + 1 - rstart).toNat
      (writeZeros? w.mem (w.numOff + w.minIndex) nLeft).bind fun m1 =>
        (writeZeros? m1 (w.numOff + rstart) nRight).map fun m2 => { w with mem := m2 }

/-- `grow` = `resize` (the range assertion is compiled out) -/
def grow? (v : Vec) (mn mx : Int) : Option Vec := v.resize? mn mx

/-- `VectorWithOffset::operator=(il)` **as in the pinned source before the fix**:
    only truncates when the capacity is too small. Kept for the regression witness. -/
def assignOld? (v il : Vec) : Option Vec :=
  let v1? : Option Vec :=
    if v.cap < il.len then (v.truncate).reserve? il.minIndex il.maxIndex else some v
  v1?.bind fun v1 =>
    let v2 := ({ v1 with len := il.len } : Vec).setOffset il.minIndex
    (il.contents?).bind fun cs =>
      (writeAt? v2.mem v2.off cs).map fun m => { v2 with mem := m }

/-- `VectorWithOffset::operator=(il)` as in the current source (after the `fix:` commit):
    always truncate first, so that the copy starts at the beginning of the allocation. -/
def assign? (v il : Vec) : Option Vec :=
  let v0 := v.truncate
  let v1? : Option Vec :=
    if v0.cap < il.len then v0.reserve? il.minIndex il.maxIndex else some v0
  v1?.bind fun v1 =>
    let v2 := ({ v1 with len := il.len } : Vec).setOffset il.minIndex
    (il.contents?).bind fun cs =>
      (writeAt? v2.mem v2.off cs).map fun m => { v2 with mem := m }

/-- `fill(n)` -/
def fill? (v : Vec) (x : Int) : Option Vec :=
  (writeAt? v.mem v.off (List.replicate v.len x)).map fun m => { v with mem := m }

/-- checked element write `at(i) = x`; outer `none` = memory unsafe, inner `none` = exception -/
def setAt? (v : Vec) (i x : Int) : Option (Option Vec) :=
  if v.inRange i then (v.setRaw? i x).map some else some none

/-- checked element read `at(i)`; same convention -/
def getAt? (v : Vec) (i : Int) : Option (Option Int) :=
  if v.inRange i then (v.raw? i).map some else some none

/-- pointwise combination `for i in [v.min, v.max]: num[i] op= v.num[i]` -/
def zipInto? (f : Int → Int → Int) (w v : Vec) : Option Vec :=
  if v.len = 0 then some w else   -- the loop does not execute
  (v.contents?).bind fun vs =>
    (readAt? w.mem (w.numOff + v.minIndex) v.len).bind fun ws =>
      (writeAt? w.mem (w.numOff + v.minIndex) (List.zipWith f ws vs)).map fun m => { w with mem := m }

/-- `NumericVectorWithOffset::operator+=(v)` on an `Array<1,int>` (virtual `grow` zero-fills) -/
def addAssign? (w v : Vec) : Option Vec :=
  if w.len = 0 then w.assign? v
  else (w.grow? (min w.minIndex v.minIndex) (max w.maxIndex v.maxIndex)).bind fun w' =>
    zipInto? (· + ·) w' v

/-- guard of the base class `VectorWithOffset::operator+=` **before the fix** (`&&`) -/
def baseArithGuardOld (w v : Vec) : Bool := !(w.minIndex != v.minIndex && w.maxIndex != v.maxIndex)
/-- guard as in the current source (`||`) -/
def baseArithGuard (w v : Vec) : Bool := !(w.minIndex != v.minIndex || w.maxIndex != v.maxIndex)

/-- base class `VectorWithOffset::operator+=`; outer `none` unsafe, inner `none` = `error()` -/
def baseAddAssign? (guard : Vec → Vec → Bool) (w v : Vec) : Option (Option Vec) :=
  if guard w v then (zipInto? (· + ·) w v).map some else some none

/-! ### arithmetic other than `+=` (NumericVectorWithOffset.inl l.141-320, VectorWithOffset.inl l.700-769) -/

/-- the scalar loops `for (i = min; i <= max; i++) num[i] = f(num[i])` of
    `NumericVectorWithOffset::operator+=(const NUMBER&)`, `-=`, `*=`, `/=`
    (NumericVectorWithOffset.inl l.215-257); a loop over an empty range touches nothing -/
def mapInPlace? (f : Int → Int) (v : Vec) : Option Vec :=
  if v.len = 0 then some v else
  (v.contents?).bind fun cs =>
    (writeAt? v.mem v.off (cs.map f)).map fun m => { v with mem := m }

/-- the four elementwise operations; C++ `int` division truncates towards zero -/
inductive Arith where
  | add | sub | mul | div
  deriving Repr, DecidableEq

def Arith.fn : Arith → Int → Int → Int
  | .add => fun x y => x + y
  | .sub => fun x y => x - y
  | .mul => fun x y => x * y
  | .div => fun x y => Int.tdiv x y

/-- the factor applied after `*this = v` when `*this` was empty:
    `+=` nothing, `-=` `*= -1`, `*=` and `/=` `*= 0` (NumericVectorWithOffset.inl l.149, 167-170, 187-191, 208-212) -/
def Arith.emptyScale : Arith → Option Int
  | .add => none
  | .sub => some (-1)
  | .mul => some 0
  | .div => some 0

/-- `NumericVectorWithOffset::operator+=, -=, *=, /= (const NumericVectorWithOffset&)` on an `Array<1,int>`:
    empty `*this` becomes a (scaled) copy of `v`; otherwise grow to the union of the ranges
    (virtual `grow` of `Array<1>` zero-fills) and combine over `v`'s range only -/
def numAssign? (a : Vec.Arith) (w v : Vec) : Option Vec :=
  if w.len = 0 then
    (w.assign? v).bind fun r =>
      match a.emptyScale with
      | none => some r
      | some c => mapInPlace? (fun x => x * c) r
  else (w.grow? (min w.minIndex v.minIndex) (max w.maxIndex v.maxIndex)).bind fun w' =>
    zipInto? a.fn w' v

/-- base class `VectorWithOffset::operator+=, -=, *=, /=` (VectorWithOffset.inl l.680-769);
    outer `none` unsafe, inner `none` = `error()` -/
def baseArith? (a : Vec.Arith) (guard : Vec → Vec → Bool) (w v : Vec) : Option (Option Vec) :=
  if guard w v then (zipInto? a.fn w v).map some else some none

/-- copy constructor `VectorWithOffset(const VectorWithOffset&)`: `init(); *this = il` (VectorWithOffset.inl l.527) -/
def copyOf? (v : Vec) : Option Vec := Vec.empty.assign? v

/-- `d = x op y` with `Array<1,int>::operator+ - * / (const base_type&)` (Array.inl l.851-883):
    `Array<1> retval(*this); return retval op= iv;` (the returned reference is copied into the
    return value), then `Array<1>::operator=` into `d` -/
def binArith? (a : Vec.Arith) (d x y : Vec) : Option Vec :=
  (copyOf? x).bind fun t => (numAssign? a t y).bind fun t2 => (copyOf? t2).bind fun t3 => d.assign? t3

/-- `d = x op c` with `Array<1,int>::operator+ - * / (const elemT)` (Array.inl l.885-919) -/
def binScalar? (f : Int → Int) (d x : Vec) : Option Vec :=
  (copyOf? x).bind fun t => (mapInPlace? f t).bind fun t2 => (copyOf? t2).bind fun t3 => d.assign? t3

/-- both ends of the index range agree -/
def sameRange (w v : Vec) : Bool := w.minIndex == v.minIndex && w.maxIndex == v.maxIndex

/-- `NumericVectorWithOffset::xapyb(x, a, y, b)` with scalar `a`, `b` (NumericVectorWithOffset.inl l.270-287):
    ranges must all agree, else `error()` (inner `none`); then `*this_iter++ = (*x_iter++) * a + (*y_iter++) * b`
    from the three `begin()`s until `this->end()`.  Operands that are the same object as `*this`
    (`sapyb`) are read and written at the same position, so reading all values first is the same. -/
def xapyb? (w x : Vec) (a : Int) (y : Vec) (b : Int) : Option (Option Vec) :=
  if !(sameRange w x && sameRange w y) then some none
  else if w.len = 0 then some (some w)
  else
    (readAt? x.mem x.off w.len).bind fun xs =>
      (readAt? y.mem y.off w.len).bind fun ys =>
        (writeAt? w.mem w.off (List.zipWith (fun p q => p * a + q * b) xs ys)).map fun m =>
          some { w with mem := m }

/-- `NumericVectorWithOffset::xapyb(x, a, y, b)` with vectors `a`, `b` (NumericVectorWithOffset.inl l.289-311) -/
def xapybVec? (w x a y b : Vec) : Option (Option Vec) :=
  if !(sameRange w x && sameRange w y && sameRange w a && sameRange w b) then some none
  else if w.len = 0 then some (some w)
  else
    (readAt? x.mem x.off w.len).bind fun xs =>
      (readAt? a.mem a.off w.len).bind fun as =>
        (readAt? y.mem y.off w.len).bind fun ys =>
          (readAt? b.mem b.off w.len).bind fun bs =>
            (writeAt? w.mem w.off
                (List.zipWith (fun p q => p + q) (List.zipWith (fun p q => p * q) xs as)
                  (List.zipWith (fun p q => p * q) ys bs))).map fun m =>
              some { w with mem := m }

/-- magnitude bound under which no 32-bit overflow can occur in any operation of the alphabet
    (`30000 * 30000 * 2 < 2^31`); operations on larger values are skipped by harness and model alike -/
def bound : Nat := 30000

def smallInt (x : Int) : Bool := x.natAbs ≤ bound

/-- all elements are small -/
def small (v : Vec) : Bool :=
  match v.contents? with
  | some cs => cs.all smallInt
  | none => false

/-- no element is zero (divisor check: integer division by zero is undefined behaviour in C++) -/
def noZero (v : Vec) : Bool :=
  match v.contents? with
  | some cs => cs.all (fun x => x != 0)
  | none => false

/-- `operator==` -/
def beq? (a b : Vec) : Option Bool :=
  if a.len != b.len || a.start != b.start then some false
  else (a.contents?).bind fun x => (b.contents?).map fun y => x == y

/-- the abstraction: index-range map -/
def abs (v : Vec) (i : Int) : Option Int :=
  if v.start ≤ i ∧ i < v.start + v.len then v.raw? i else none

end Vec

/-! ## three-register machine driven by the line protocol -/

inductive Op where
  | resize (r : Nat) (mn mx : Int)
  | grow (r : Nat) (mn mx : Int)
  | reserve (r : Nat) (mn mx : Int)
  | setOffset (r : Nat) (mn : Int)
  | assign (dst src : Nat)
  | fill (r : Nat) (x : Int)
  | setAt (r : Nat) (i x : Int)
  | getAt (r : Nat) (i : Int)
  | addAssign (dst src : Nat)
  | baseAdd (dst src : Nat)
  | recycle (r : Nat)
  | eq (a b : Nat)
  /-- `r[dst] op= r[src]` (NumericVectorWithOffset, growing) -/
  | arith (a : Vec.Arith) (dst src : Nat)
  /-- `r[dst].VectorWithOffset::operator op= (r[src])` (range-checked) -/
  | baseArith (a : Vec.Arith) (dst src : Nat)
  /-- `r[r] op= x` -/
  | scalar (a : Vec.Arith) (r : Nat) (x : Int)
  /-- `r[d] = r[x] op r[y]` -/
  | bin (a : Vec.Arith) (d x y : Nat)
  /-- `r[d] = r[x] op c` -/
  | binScalar (a : Vec.Arith) (d x : Nat) (c : Int)
  /-- `r[d].xapyb(r[x], a, r[y], b)` -/
  | xapyb (d x : Nat) (a : Int) (y : Nat) (b : Int)
  /-- `r[d].xapyb(r[x], r[a], r[y], r[b])` -/
  | xapybVec (d x a y b : Nat)
  /-- `r[d].sapyb(a, r[y], b)` -/
  | sapyb (d : Nat) (a : Int) (y : Nat) (b : Int)
  /-- `r[d].sapyb(r[a], r[y], r[b])` -/
  | sapybVec (d a y b : Nat)
  deriving Repr, DecidableEq

/-- registers: a list of vectors (index modulo its length is done by the driver) -/
abbrev Regs := List Vec

inductive Out where
  | ok
  | errRange          -- exception / error() reported
  | val (x : Int)
  | bool (b : Bool)
  | skip              -- operation not executed: an operand is too large (32-bit overflow) or a divisor is zero
  deriving Repr, DecidableEq

def getR (rs : Regs) (r : Nat) : Vec := rs.getD r Vec.empty
def setR (rs : Regs) (r : Nat) (v : Vec) : Regs := rs.set r v

/-- one step; `none` = memory-unsafe access in the C++ -/
def step (rs : Regs) : Op → Option (Regs × Out)
  | .resize r mn mx => ((getR rs r).resize? mn mx).map fun v => (setR rs r v, .ok)
  | .grow r mn mx => ((getR rs r).grow? mn mx).map fun v => (setR rs r v, .ok)
  | .reserve r mn mx => ((getR rs r).reserve? mn mx).map fun v => (setR rs r v, .ok)
  | .setOffset r mn => some (setR rs r ((getR rs r).setOffset mn), .ok)
  | .assign d s =>
      if d = s then some (rs, .ok)
      else ((getR rs d).assign? (getR rs s)).map fun v => (setR rs d v, .ok)
  | .fill r x => ((getR rs r).fill? x).map fun v => (setR rs r v, .ok)
  | .setAt r i x => ((getR rs r).setAt? i x).map fun
      | some v => (setR rs r v, .ok)
      | none => (rs, .errRange)
  | .getAt r i => ((getR rs r).getAt? i).map fun
      | some x => (rs, .val x)
      | none => (rs, .errRange)
  | .addAssign d s =>
      if d = s then none  -- not generated (aliasing `x += x` is not modelled)
      else if !((getR rs d).small && (getR rs s).small) then some (rs, .skip)
      else ((getR rs d).addAssign? (getR rs s)).map fun v => (setR rs d v, .ok)
  | .baseAdd d s =>
      if d = s then none
      else if !((getR rs d).small && (getR rs s).small) then some (rs, .skip)
      else ((getR rs d).baseAddAssign? Vec.baseArithGuard (getR rs s)).map fun
        | some v => (setR rs d v, .ok)
        | none => (rs, .errRange)
  | .recycle r => some (setR rs r Vec.empty, .ok)
  | .eq a b => ((getR rs a).beq? (getR rs b)).map fun t => (rs, .bool t)
  | .arith a d s =>
      if d = s then none  -- not generated
      else if !((getR rs d).small && (getR rs s).small && (a != .div || (getR rs s).noZero)) then some (rs, .skip)
      else ((getR rs d).numAssign? a (getR rs s)).map fun v => (setR rs d v, .ok)
  | .baseArith a d s =>
      if d = s then none
      else if !((getR rs d).small && (getR rs s).small && (a != .div || (getR rs s).noZero)) then some (rs, .skip)
      else ((getR rs d).baseArith? a Vec.baseArithGuard (getR rs s)).map fun
        | some v => (setR rs d v, .ok)
        | none => (rs, .errRange)
  | .scalar a r x =>
      if !((getR rs r).small && Vec.smallInt x && (a != .div || x != 0)) then some (rs, .skip)
      else ((getR rs r).mapInPlace? (fun e => a.fn e x)).map fun v => (setR rs r v, .ok)
  | .bin a d x y =>
      if !((getR rs x).small && (getR rs y).small && (a != .div || (getR rs y).noZero)) then some (rs, .skip)
      else (Vec.binArith? a (getR rs d) (getR rs x) (getR rs y)).map fun v => (setR rs d v, .ok)
  | .binScalar a d x c =>
      if !((getR rs x).small && Vec.smallInt c && (a != .div || c != 0)) then some (rs, .skip)
      else (Vec.binScalar? (fun e => a.fn e c) (getR rs d) (getR rs x)).map fun v => (setR rs d v, .ok)
  | .xapyb d x a y b =>
      if !((getR rs x).small && (getR rs y).small && Vec.smallInt a && Vec.smallInt b) then some (rs, .skip)
      else ((getR rs d).xapyb? (getR rs x) a (getR rs y) b).map fun
        | some v => (setR rs d v, .ok)
        | none => (rs, .errRange)
  | .xapybVec d x a y b =>
      if !((getR rs x).small && (getR rs y).small && (getR rs a).small && (getR rs b).small) then some (rs, .skip)
      else ((getR rs d).xapybVec? (getR rs x) (getR rs a) (getR rs y) (getR rs b)).map fun
        | some v => (setR rs d v, .ok)
        | none => (rs, .errRange)
  | .sapyb d a y b =>
      if !((getR rs d).small && (getR rs y).small && Vec.smallInt a && Vec.smallInt b) then some (rs, .skip)
      else ((getR rs d).xapyb? (getR rs d) a (getR rs y) b).map fun
        | some v => (setR rs d v, .ok)
        | none => (rs, .errRange)
  | .sapybVec d a y b =>
      if !((getR rs d).small && (getR rs y).small && (getR rs a).small && (getR rs b).small) then some (rs, .skip)
      else ((getR rs d).xapybVec? (getR rs d) (getR rs a) (getR rs y) (getR rs b)).map fun
        | some v => (setR rs d v, .ok)
        | none => (rs, .errRange)

def run : Regs → List Op → Option (Regs × List Out)
  | rs, [] => some (rs, [])
  | rs, op :: ops =>
    (step rs op).bind fun (rs', o) => (run rs' ops).map fun (rs'', os) => (rs'', o :: os)

end StirVerif.C11
