import StirVerif.C11.Lemmas
namespace StirVerif.C11
open Vec

def Inv (v : Vec) : Prop :=
  0 ≤ v.off ∧ v.off + v.len ≤ v.cap ∧ (v.len = 0 → v.start = 0 ∧ v.numOff = 0)

theorem contents?_isSome {v : Vec} (h : Inv v) : ∃ cs, v.contents? = some cs :=
  readAt?_isSome h.1 h.2.1

theorem reserve_spec (v : Vec) (mn mx : Int) (h : Inv v) :
    ∃ w, v.reserve? mn mx = some w ∧ Inv w ∧ w.start = v.start ∧ w.len = v.len ∧ v.cap ≤ w.cap ∧
      (∀ i, v.start ≤ i → i < v.start + v.len →
          getI w.mem (w.numOff + i) = getI v.mem (v.numOff + i)) ∧
      (mn ≤ mx → (if v.len = 0 then w.numOff = 0 ∧ mx - mn + 1 ≤ w.cap
                  else 0 ≤ w.numOff + mn ∧ w.numOff + mx < w.cap)) := by
  have hI := h
  obtain ⟨h0, h1, h2⟩ := h
  obtain ⟨cs, hcs⟩ := contents?_isSome hI
  have hcsl := (readAt?_eq_some hcs).2.2
  unfold Vec.off at h0 h1
  unfold Vec.cap at h1
  by_cases hl : v.len = 0
  · obtain ⟨hs, hn⟩ := h2 hl
    by_cases c1 : mn > mx
    · refine ⟨v, ?_, hI, rfl, rfl, Nat.le_refl _, fun _ _ _ => rfl, ?_⟩
      · simp [reserve?, hl, c1]
      · intro hm; omega
    · by_cases c2 : (mx - mn + 1).toNat ≤ v.cap
      · refine ⟨v, ?_, hI, rfl, rfl, Nat.le_refl _, fun _ _ _ => rfl, ?_⟩
        · simp [reserve?, hl, c1, c2]
        · intro hm; rw [if_pos hl]; refine ⟨hn, ?_⟩; omega
      · have hw : ∃ m, writeAt? (List.replicate (mx - mn + 1).toNat junk) (0:Int) cs = some m := by
          apply writeAt?_isSome (by omega)
          simp; omega
        obtain ⟨m, hm⟩ := hw
        have hml := length_writeAt hm
        simp at hml
        refine ⟨{ v with mem := m, numOff := 0 }, ?_, ?_, rfl, rfl, by simp [Vec.cap] at *; omega, ?_, ?_⟩
        · simp [reserve?, hl, c1, c2, hcs]; simpa using hm
        · refine ⟨?_, ?_, ?_⟩
          · simp [Vec.off]; omega
          · simp [Vec.off, Vec.cap]; omega
          · intro _; exact ⟨hs, rfl⟩
        · intro i hi1 hi2; omega
        · intro _; rw [if_pos hl]; simp [Vec.cap]; omega
  · have hlp : 0 < v.len := Nat.pos_of_ne_zero hl
    -- abbreviations
    generalize ha : min v.capMin mn = amin
    generalize hb : max v.capMax mx = amax
    have hamin : amin ≤ v.capMin ∧ amin ≤ mn := by subst ha; omega
    have hamax : v.capMax ≤ amax ∧ mx ≤ amax := by subst hb; omega
    have hcm : v.capMin = -v.numOff := rfl
    have hcM : v.capMax = (v.mem.length : Int) - v.numOff - 1 := rfl
    have c1 : ¬ amin > amax := by omega
    by_cases c2 : (amax - amin + 1).toNat ≤ v.cap
    · refine ⟨v, ?_, hI, rfl, rfl, Nat.le_refl _, fun _ _ _ => rfl, ?_⟩
      · simp [reserve?, hl, ha, hb, c1, c2]
      · intro hm; rw [if_neg hl]
        unfold Vec.cap at c2 ⊢
        have : amin = v.capMin ∨ amin = mn := by subst ha; omega
        have : amax = v.capMax ∨ amax = mx := by subst hb; omega
        omega
    · unfold Vec.cap at c2
      have hpos : 0 ≤ v.start - amin := by omega
      have hw : ∃ m, writeAt? (List.replicate (amax - amin + 1).toNat junk)
            (v.start - amin) cs = some m := by
        apply writeAt?_isSome (by omega)
        simp; omega
      obtain ⟨m, hm⟩ := hw
      have hml := length_writeAt hm
      simp at hml
      refine ⟨{ v with mem := m, numOff := -amin }, ?_, ?_, rfl, rfl, by simp [Vec.cap] at *; omega, ?_, ?_⟩
      · simp [reserve?, hl, ha, hb, c1, c2, hcs, Vec.cap, hlp, Vec.minIndex, Int.max_eq_right hpos, Int.max_eq_left hpos]
        first | exact hm | (refine ⟨hm, ?_⟩; omega)
      · refine ⟨?_, ?_, ?_⟩
        · simp [Vec.off]; omega
        · simp [Vec.off, Vec.cap]; omega
        · intro hh; exact absurd hh hl
      · intro i hi1 hi2
        simp only
        rw [getI_writeAt hm]
        have : v.start - amin ≤ -amin + i ∧ -amin + i < v.start - amin + cs.length := by omega
        rw [if_pos this, getI_readAt hcs]
        have : 0 ≤ -amin + i - (v.start - amin) ∧ -amin + i - (v.start - amin) < v.len := by omega
        rw [if_pos this]
        congr 1
        unfold Vec.off; omega
      · intro _; rw [if_neg hl]; simp [Vec.cap]; omega

theorem inv_truncate (v : Vec) : Inv v.truncate := by
  refine ⟨?_, ?_, ?_⟩ <;> simp [Vec.truncate, Vec.off, Vec.cap]

theorem shrinkToOverlap_spec (v : Vec) (mn mx : Int) (h : Inv v) :
    Inv (v.shrinkToOverlap mn mx) ∧ (v.shrinkToOverlap mn mx).cap = v.cap ∧
      ((v.shrinkToOverlap mn mx).len = 0 ∨
        ((v.shrinkToOverlap mn mx).numOff = v.numOff ∧ (v.shrinkToOverlap mn mx).mem = v.mem ∧
          (v.shrinkToOverlap mn mx).start = max v.start mn ∧
          (v.shrinkToOverlap mn mx).start + (v.shrinkToOverlap mn mx).len = min (v.start + v.len - 1) mx + 1 ∧
          v.len > 0)) ∧
      ((v.shrinkToOverlap mn mx).len = 0 →
          ∀ i, v.start ≤ i → i < v.start + v.len → mn ≤ i → i ≤ mx → False) := by
  have hI := h
  obtain ⟨h0, h1, h2⟩ := h
  unfold Vec.off at h0 h1
  by_cases hl : v.len > 0
  · by_cases ho : min (v.start + ↑v.len - 1) mx - max v.start mn < 0
    · have e : v.shrinkToOverlap mn mx = v.truncate := by
        simp [shrinkToOverlap, hl, Vec.minIndex, Vec.maxIndex, ho]
      rw [e]
      refine ⟨inv_truncate v, by simp [Vec.truncate, Vec.cap], Or.inl (by simp [Vec.truncate]), ?_⟩
      intro _ i _ _ _ _; omega
    · have e : v.shrinkToOverlap mn mx =
          { v with len := (min (v.start + ↑v.len - 1) mx - max v.start mn + 1).toNat,
                   start := max v.start mn } := by
        simp [shrinkToOverlap, hl, Vec.minIndex, Vec.maxIndex, ho]
      rw [e]
      refine ⟨⟨?_, ?_, ?_⟩, rfl, Or.inr ⟨rfl, rfl, rfl, ?_, hl⟩, ?_⟩
      · simp [Vec.off]; omega
      · simp [Vec.off, Vec.cap]; unfold Vec.cap at h1; omega
      · simp; omega
      · simp; omega
      · simp; omega
  · have e : v.shrinkToOverlap mn mx = v := by simp [shrinkToOverlap, hl]
    rw [e]
    have hl0 : v.len = 0 := by omega
    refine ⟨hI, rfl, Or.inl hl0, ?_⟩
    intro _ i _ _ _ _; omega

theorem resizeBase_spec (v : Vec) (mn mx : Int) (h : Inv v) :
    ∃ w, v.resizeBase? mn mx = some w ∧ Inv w ∧ w.cap ≥ v.cap ∧
      (mx < mn → w = v.truncate) ∧
      (mn ≤ mx → w.start = mn ∧ (w.len : Int) = mx - mn + 1 ∧
        ∀ i, v.start ≤ i → i < v.start + v.len → mn ≤ i → i ≤ mx →
          getI w.mem (w.numOff + i) = getI v.mem (v.numOff + i)) := by
  have hI := h
  obtain ⟨h0, h1, h2⟩ := h
  unfold Vec.off at h0 h1
  by_cases c0 : mn > mx
  · refine ⟨v.truncate, by simp [resizeBase?, c0], inv_truncate v, by simp [Vec.truncate, Vec.cap],
      fun _ => rfl, fun hh => by omega⟩
  · by_cases c1 : v.len > 0 ∧ mn = v.minIndex ∧ mx = v.maxIndex
    · have c1' := c1
      obtain ⟨c1a, c1b, c1c⟩ := c1
      refine ⟨v, ?_, hI, Nat.le_refl _, fun hh => by omega, fun _ => ?_⟩
      · unfold resizeBase?; rw [if_neg c0, if_pos c1']
      · unfold Vec.minIndex at c1b; unfold Vec.maxIndex at c1c
        exact ⟨c1b.symm, by omega, fun _ _ _ _ _ => rfl⟩
    · obtain ⟨hv1I, hv1c, hv1o, hv1e⟩ := shrinkToOverlap_spec v mn mx hI
      generalize hv1 : v.shrinkToOverlap mn mx = v1 at *
      obtain ⟨w2, hw2, hw2I, hw2s, hw2l, hw2cap, hw2g, hw2c⟩ := reserve_spec v1 mn mx hv1I
      have hmm : mn ≤ mx := by omega
      have hw2c := hw2c hmm
      obtain ⟨i0, i1, i2⟩ := hw2I
      unfold Vec.off at i0 i1
      by_cases hz : v1.len = 0
      · rw [if_pos hz] at hw2c
        refine ⟨{ w2 with len := (mx - mn + 1).toNat, start := mn, numOff := -mn }, ?_, ?_, ?_, ?_, ?_⟩
        · unfold resizeBase?; rw [if_neg c0, if_neg c1]
          simp [hv1, hw2, hz]
        · refine ⟨?_, ?_, ?_⟩
          · simp [Vec.off]; omega
          · simp [Vec.off, Vec.cap]; unfold Vec.cap at hw2c; omega
          · simp; omega
        · show v.cap ≤ w2.cap
          omega
        · intro hh; omega
        · intro _
          refine ⟨rfl, by simp; omega, ?_⟩
          intro i a b c d
          exact absurd (hv1e hz i a b c d) id
      · rw [if_neg hz] at hw2c
        rcases hv1o with hv1o | ⟨o1, o2, o3, o4, o5⟩
        · exact absurd hv1o hz
        refine ⟨{ w2 with len := (mx - mn + 1).toNat, start := mn }, ?_, ?_, ?_, ?_, ?_⟩
        · unfold resizeBase?; rw [if_neg c0, if_neg c1]
          have : v1.len > 0 := by omega
          simp [hv1, hw2, this]
        · refine ⟨?_, ?_, ?_⟩
          · simp [Vec.off]; omega
          · simp [Vec.off, Vec.cap]; unfold Vec.cap at hw2c; omega
          · simp; omega
        · show v.cap ≤ w2.cap
          omega
        · intro hh; omega
        · intro _
          refine ⟨rfl, by simp; omega, ?_⟩
          intro i a b c d
          show getI w2.mem (w2.numOff + i) = _
          rw [hw2g i (by omega) (by omega), o1, o2]

theorem writeZeros?_spec (mem : List Int) (pos : Int) (n : Nat)
    (h : n = 0 ∨ (0 ≤ pos ∧ pos + n ≤ mem.length)) :
    ∃ m, writeZeros? mem pos n = some m ∧ m.length = mem.length ∧
      ∀ p, getI m p = if pos ≤ p ∧ p < pos + n then some 0 else getI mem p := by
  unfold writeZeros?
  by_cases hn : n = 0
  · refine ⟨mem, by simp [hn], rfl, ?_⟩
    intro p
    have : ¬ (pos ≤ p ∧ p < pos + (n : Int)) := by omega
    rw [if_neg this]
  · rcases h with h | ⟨h0, h1⟩
    · exact absurd h hn
    rw [if_neg hn]
    have hz : (zeros n).length = n := by simp [zeros]
    obtain ⟨m, hm⟩ := writeAt?_isSome (mem := mem) (xs := zeros n) h0 (by rw [hz]; exact h1)
    refine ⟨m, hm, length_writeAt hm, ?_⟩
    intro p
    rw [getI_writeAt hm, hz]
    by_cases c : pos ≤ p ∧ p < pos + (n : Int)
    · rw [if_pos c, if_pos c]
      unfold zeros
      rw [getI_replicate]
      have : 0 ≤ p - pos ∧ p - pos < n := by omega
      rw [if_pos this]
    · rw [if_neg c, if_neg c]

theorem abs_eq_getI (v : Vec) (i : Int) :
    v.abs i = if v.start ≤ i ∧ i < v.start + v.len then getI v.mem (v.numOff + i) else none := rfl

theorem abs_isSome {v : Vec} (h : Inv v) {i : Int} (h1 : v.start ≤ i) (h2 : i < v.start + v.len) :
    ∃ x, v.abs i = some x := by
  rw [abs_eq_getI, if_pos ⟨h1, h2⟩]
  obtain ⟨a, b, _⟩ := h
  unfold Vec.off at a b
  unfold Vec.cap at b
  exact getI_isSome (by omega) (by omega)

theorem resize_spec (v : Vec) (mn mx : Int) (h : Inv v) :
    ∃ w, v.resize? mn mx = some w ∧ Inv w ∧ v.cap ≤ w.cap ∧
      (mx < mn → w.len = 0) ∧ (mn ≤ mx → w.start = mn ∧ (w.len : Int) = mx - mn + 1) ∧
      ∀ i, w.abs i = if mn ≤ i ∧ i ≤ mx then some ((v.abs i).getD 0) else none := by
  obtain ⟨w, hw, hwI, hwc, hwt, hwr⟩ := resizeBase_spec v mn mx h
  have hI := h
  obtain ⟨h0, h1, h2⟩ := h
  unfold Vec.off at h0 h1
  have hwI' := hwI
  obtain ⟨i0, i1, i2⟩ := hwI
  unfold Vec.off at i0 i1
  unfold Vec.cap at i1
  by_cases c0 : mx < mn
  · -- truncated: none of the zero loops executes
    have hwt := hwt c0
    subst hwt
    refine ⟨v.truncate, ?_, hwI', hwc, fun _ => rfl, fun hh => by omega, ?_⟩
    · unfold resize?
      simp only [hw, Option.bind_some]
      by_cases hl : v.len = 0
      · simp [hl, writeZeros?, Vec.truncate]
      · have e1 : (min v.minIndex (v.truncate.maxIndex + 1) - v.truncate.minIndex).toNat = 0 := by
          simp [Vec.truncate, Vec.minIndex, Vec.maxIndex]; omega
        have e2 : (v.truncate.maxIndex + 1 - max (v.minIndex + ↑v.len) v.truncate.minIndex).toNat = 0 := by
          simp [Vec.truncate, Vec.minIndex, Vec.maxIndex]; omega
        simp [hl, e1, e2, writeZeros?]
    · intro i
      have : ¬ (mn ≤ i ∧ i ≤ mx) := by omega
      rw [if_neg this, abs_eq_getI]
      simp [Vec.truncate]
      intro _ _; omega
  · have hmm : mn ≤ mx := by omega
    obtain ⟨ws, wl, wg⟩ := hwr hmm
    by_cases hl : v.len = 0
    · -- everything is new
      obtain ⟨m, hm, hml, hmg⟩ := writeZeros?_spec w.mem (w.numOff + w.minIndex) w.len
        (Or.inr ⟨by unfold Vec.minIndex; omega, by unfold Vec.minIndex; omega⟩)
      refine ⟨{ w with mem := m }, ?_, ?_, ?_, fun hh => by omega, fun _ => ⟨ws, wl⟩, ?_⟩
      · unfold resize?
        simp [hw, hl, hm]
      · refine ⟨?_, ?_, ?_⟩
        · simp [Vec.off]; omega
        · simp [Vec.off, Vec.cap]; omega
        · exact i2
      · simp [Vec.cap] at *; omega
      · intro i
        rw [abs_eq_getI]
        simp only
        by_cases c : mn ≤ i ∧ i ≤ mx
        · have c' : w.start ≤ i ∧ i < w.start + w.len := by omega
          rw [if_pos c, if_pos c', hmg]
          have : w.numOff + w.minIndex ≤ w.numOff + i ∧ w.numOff + i < w.numOff + w.minIndex + ↑w.len := by
            unfold Vec.minIndex; omega
          rw [if_pos this]
          have : v.abs i = none := by
            rw [abs_eq_getI]
            have : ¬ (v.start ≤ i ∧ i < v.start + v.len) := by omega
            rw [if_neg this]
          rw [this]; rfl
        · have c' : ¬ (w.start ≤ i ∧ i < w.start + w.len) := by omega
          rw [if_neg c, if_neg c']
    · have hlp : 0 < v.len := Nat.pos_of_ne_zero hl
      have hwmin : w.minIndex = mn := ws
      have hwmax : w.maxIndex = mx := by unfold Vec.maxIndex; omega
      generalize hnL : (min v.minIndex (w.maxIndex + 1) - w.minIndex).toNat = nLeft
      generalize hrs : max (v.minIndex + ↑v.len) w.minIndex = rstart
      generalize hnR : (w.maxIndex + 1 - rstart).toNat = nRight
      have hvmin : v.minIndex = v.start := rfl
      obtain ⟨m1, hm1, hm1l, hm1g⟩ := writeZeros?_spec w.mem (w.numOff + w.minIndex) nLeft
        (Or.inr ⟨by omega, by omega⟩)
      obtain ⟨m2, hm2, hm2l, hm2g⟩ := writeZeros?_spec m1 (w.numOff + rstart) nRight
        (by
          by_cases hz : nRight = 0
          · exact Or.inl hz
          · exact Or.inr ⟨by omega, by omega⟩)
      refine ⟨{ w with mem := m2 }, ?_, ?_, ?_, fun hh => by omega, fun _ => ⟨ws, wl⟩, ?_⟩
      · unfold resize?
        simp [hw, hl, hnL, hrs, hnR, hm1, hm2]
      · refine ⟨?_, ?_, ?_⟩
        · simp [Vec.off]; omega
        · simp [Vec.off, Vec.cap]; omega
        · exact i2
      · simp [Vec.cap] at *; omega
      · intro i
        rw [abs_eq_getI]
        simp only
        by_cases c : mn ≤ i ∧ i ≤ mx
        · have c' : w.start ≤ i ∧ i < w.start + w.len := by omega
          rw [if_pos c, if_pos c', hm2g, hm1g]
          by_cases cR : w.numOff + rstart ≤ w.numOff + i ∧ w.numOff + i < w.numOff + rstart + ↑nRight
          · rw [if_pos cR]
            have : v.abs i = none := by
              rw [abs_eq_getI]
              have : ¬ (v.start ≤ i ∧ i < v.start + v.len) := by omega
              rw [if_neg this]
            rw [this]; rfl
          · rw [if_neg cR]
            by_cases cL : w.numOff + w.minIndex ≤ w.numOff + i ∧ w.numOff + i < w.numOff + w.minIndex + ↑nLeft
            · rw [if_pos cL]
              have : v.abs i = none := by
                rw [abs_eq_getI]
                have : ¬ (v.start ≤ i ∧ i < v.start + v.len) := by omega
                rw [if_neg this]
              rw [this]; rfl
            · rw [if_neg cL]
              have hin : v.start ≤ i ∧ i < v.start + v.len := by omega
              rw [wg i hin.1 hin.2 c.1 c.2]
              obtain ⟨x, hx⟩ := abs_isSome hI hin.1 hin.2
              rw [hx]
              rw [abs_eq_getI, if_pos hin] at hx
              rw [hx]; rfl
        · have c' : ¬ (w.start ≤ i ∧ i < w.start + w.len) := by omega
          rw [if_neg c, if_neg c']

theorem inv_empty : Inv Vec.empty := by
  refine ⟨?_, ?_, ?_⟩ <;> simp [Vec.empty, Vec.off, Vec.cap]

theorem abs_empty (i : Int) : Vec.empty.abs i = none := by
  rw [abs_eq_getI]; simp [Vec.empty]
  intro _ _; omega

theorem setOffset_spec (v : Vec) (mn : Int) (h : Inv v) :
    Inv (v.setOffset mn) ∧ (v.setOffset mn).len = v.len ∧ (v.setOffset mn).cap = v.cap ∧
      (v.len > 0 → (v.setOffset mn).start = mn) ∧
      ∀ i, (v.setOffset mn).abs i = v.abs (i - mn + v.start) := by
  obtain ⟨h0, h1, h2⟩ := h
  unfold Vec.off at h0 h1
  unfold setOffset
  by_cases hl : v.len = 0
  · rw [if_pos hl]
    refine ⟨⟨h0, h1, h2⟩, rfl, rfl, fun hh => by omega, ?_⟩
    intro i
    rw [abs_eq_getI, abs_eq_getI]
    have a : ¬ (v.start ≤ i ∧ i < v.start + ↑v.len) := by omega
    have b : ¬ (v.start ≤ i - mn + v.start ∧ i - mn + v.start < v.start + ↑v.len) := by omega
    rw [if_neg a, if_neg b]
  · rw [if_neg hl]
    refine ⟨⟨?_, ?_, ?_⟩, rfl, rfl, fun _ => rfl, ?_⟩
    · simp [Vec.off]; omega
    · simp [Vec.off, Vec.cap]; unfold Vec.cap at h1; omega
    · intro hh; exact absurd hh hl
    · intro i
      rw [abs_eq_getI, abs_eq_getI]
      simp only
      by_cases a : mn ≤ i ∧ i < mn + ↑v.len
      · have b : v.start ≤ i - mn + v.start ∧ i - mn + v.start < v.start + ↑v.len := by omega
        rw [if_pos a, if_pos b]
        congr 1; omega
      · have b : ¬ (v.start ≤ i - mn + v.start ∧ i - mn + v.start < v.start + ↑v.len) := by omega
        rw [if_neg a, if_neg b]

theorem fill_spec (v : Vec) (x : Int) (h : Inv v) :
    ∃ w, v.fill? x = some w ∧ Inv w ∧ w.start = v.start ∧ w.len = v.len ∧ w.cap = v.cap ∧
      ∀ i, w.abs i = if v.start ≤ i ∧ i < v.start + v.len then some x else none := by
  obtain ⟨h0, h1, h2⟩ := h
  unfold Vec.cap at h1
  obtain ⟨m, hm⟩ := writeAt?_isSome (mem := v.mem) (pos := v.off) (xs := List.replicate v.len x) h0
    (by simp; omega)
  have hml := length_writeAt hm
  refine ⟨{ v with mem := m }, by simp [fill?, hm], ⟨?_, ?_, h2⟩, rfl, rfl, by simp [Vec.cap, hml], ?_⟩
  · simpa [Vec.off] using h0
  · simp [Vec.off, Vec.cap, hml]; unfold Vec.off at h1; omega
  · intro i
    rw [abs_eq_getI]
    simp only
    by_cases a : v.start ≤ i ∧ i < v.start + ↑v.len
    · rw [if_pos a, if_pos a, getI_writeAt hm]
      simp only [List.length_replicate]
      unfold Vec.off
      have : v.numOff + v.start ≤ v.numOff + i ∧ v.numOff + i < v.numOff + v.start + ↑v.len := by omega
      rw [if_pos this, getI_replicate]
      have : 0 ≤ v.numOff + i - (v.numOff + v.start) ∧ v.numOff + i - (v.numOff + v.start) < ↑v.len := by omega
      rw [if_pos this]
    · rw [if_neg a, if_neg a]

theorem inRange_iff (v : Vec) (i : Int) :
    v.inRange i = true ↔ (v.start ≤ i ∧ i < v.start + v.len) := by
  unfold inRange Vec.minIndex Vec.maxIndex
  simp
  omega

theorem getAt_spec (v : Vec) (i : Int) (h : Inv v) :
    v.getAt? i = some (v.abs i) := by
  unfold getAt?
  by_cases a : v.start ≤ i ∧ i < v.start + v.len
  · rw [if_pos ((inRange_iff v i).mpr a)]
    obtain ⟨x, hx⟩ := abs_isSome h a.1 a.2
    rw [hx]
    rw [abs_eq_getI, if_pos a] at hx
    rw [raw?_eq_getI, hx]; rfl
  · have : ¬ v.inRange i = true := fun hh => a ((inRange_iff v i).mp hh)
    rw [if_neg this, abs_eq_getI, if_neg a]

theorem setAt_spec (v : Vec) (i x : Int) (h : Inv v) :
    (¬ (v.start ≤ i ∧ i < v.start + v.len) → v.setAt? i x = some none) ∧
    ((v.start ≤ i ∧ i < v.start + v.len) →
      ∃ w, v.setAt? i x = some (some w) ∧ Inv w ∧ w.start = v.start ∧ w.len = v.len ∧ w.cap = v.cap ∧
        ∀ j, w.abs j = if j = i then some x else v.abs j) := by
  constructor
  · intro a
    have : ¬ v.inRange i = true := fun hh => a ((inRange_iff v i).mp hh)
    unfold setAt?; rw [if_neg this]
  · intro a
    obtain ⟨h0, h1, h2⟩ := h
    unfold Vec.off at h0 h1
    unfold Vec.cap at h1
    obtain ⟨m, hm⟩ := writeAt?_isSome (mem := v.mem) (pos := v.numOff + i) (xs := [x]) (by omega)
      (by simp; omega)
    have hml := length_writeAt hm
    refine ⟨{ v with mem := m }, ?_, ⟨?_, ?_, h2⟩, rfl, rfl, by simp [Vec.cap, hml], ?_⟩
    · unfold setAt?; rw [if_pos ((inRange_iff v i).mpr a)]
      simp [setRaw?, hm]
    · simpa [Vec.off] using h0
    · simp [Vec.off, Vec.cap, hml]; omega
    · intro j
      rw [abs_eq_getI, abs_eq_getI]
      simp only
      by_cases b : v.start ≤ j ∧ j < v.start + ↑v.len
      · rw [if_pos b, if_pos b, getI_writeAt hm]
        simp only [List.length_singleton]
        by_cases c : j = i
        · subst c
          have : v.numOff + j ≤ v.numOff + j ∧ v.numOff + j < v.numOff + j + ((1:Nat):Int) := by omega
          rw [if_pos this, if_pos rfl]
          simp [getI]
        · have : ¬ (v.numOff + i ≤ v.numOff + j ∧ v.numOff + j < v.numOff + i + ((1:Nat):Int)) := by omega
          rw [if_neg this, if_neg c]
      · rw [if_neg b, if_neg b]
        have : j ≠ i := by omega
        rw [if_neg this]

/-- elementwise view of `contents?` -/
theorem getI_contents {v : Vec} {cs : List Int} (h : v.contents? = some cs) (k : Int) :
    getI cs k = if 0 ≤ k ∧ k < v.len then getI v.mem (v.off + k) else none :=
  getI_readAt h k

theorem assign_spec (v il : Vec) (hil : Inv il) :
    ∃ w, v.assign? il = some w ∧ Inv w ∧ w.start = il.start ∧ w.len = il.len ∧ v.cap ≤ w.cap ∧
      ∀ i, w.abs i = il.abs i := by
  obtain ⟨cs, hcs⟩ := contents?_isSome hil
  have hcsl := (readAt?_eq_some hcs).2.2
  obtain ⟨j0, j1, j2⟩ := hil
  -- after the truncate / reserve step
  have step1 : ∃ v1, (if v.truncate.cap < il.len then v.truncate.reserve? il.minIndex il.maxIndex
        else some v.truncate) = some v1 ∧ v1.len = 0 ∧ v1.start = 0 ∧ v1.numOff = 0 ∧
        (il.len : Int) ≤ v1.cap ∧ v.cap ≤ v1.cap := by
    by_cases c : v.truncate.cap < il.len
    · rw [if_pos c]
      obtain ⟨w, hw, hwI, hws, hwl, hwcap, _, hwc⟩ := reserve_spec v.truncate il.minIndex il.maxIndex (inv_truncate v)
      have hmm : il.minIndex ≤ il.maxIndex := by unfold Vec.minIndex Vec.maxIndex; omega
      have hwc := hwc hmm
      rw [if_pos (by simp [Vec.truncate])] at hwc
      refine ⟨w, hw, by rw [hwl]; simp [Vec.truncate], by rw [hws]; simp [Vec.truncate], hwc.1, ?_, ?_⟩
      · unfold Vec.minIndex Vec.maxIndex at hwc; omega
      · simpa [Vec.truncate, Vec.cap] using hwcap
    · rw [if_neg c]
      refine ⟨v.truncate, rfl, by simp [Vec.truncate], by simp [Vec.truncate], by simp [Vec.truncate], ?_, ?_⟩
      · simp [Vec.truncate, Vec.cap] at c ⊢; omega
      · simp [Vec.truncate, Vec.cap]
  obtain ⟨v1, hv1, l1, s1, n1, c1, c1'⟩ := step1
  by_cases hz : il.len = 0
  · -- assigning an empty vector
    have hcs0 : cs = [] := List.eq_nil_of_length_eq_zero (by omega)
    refine ⟨{ v1 with len := il.len }, ?_, ?_, ?_, rfl, c1', ?_⟩
    · unfold assign?
      simp only [hv1, Option.bind_some, hcs]
      simp [setOffset, hz, hcs0, writeAt?, Vec.off, s1, n1]
    · refine ⟨?_, ?_, ?_⟩ <;> simp [Vec.off, s1, n1, hz, Vec.cap]
    · simp [s1, (j2 hz).1]
    · intro i
      rw [abs_eq_getI, abs_eq_getI]
      have a : ¬ (il.start ≤ i ∧ i < il.start + ↑il.len) := by omega
      simp only
      rw [if_neg a, if_neg (by omega)]
  · have hset : ({ v1 with len := il.len } : Vec).setOffset il.minIndex =
        { v1 with len := il.len, numOff := -il.start, start := il.start } := by
      simp [setOffset, hz, s1, n1, Vec.minIndex]
    unfold Vec.cap at c1
    obtain ⟨m, hm⟩ := writeAt?_isSome (mem := v1.mem) (pos := 0) (xs := cs) (by omega) (by omega)
    have hml := length_writeAt hm
    refine ⟨{ v1 with len := il.len, numOff := -il.start, start := il.start, mem := m }, ?_, ?_, rfl, rfl, ?_, ?_⟩
    · unfold assign?
      simp only [hv1, Option.bind_some, hcs, hset]
      have e : -il.start + il.start = 0 := by omega
      simp [Vec.off, e, hm]
    · refine ⟨?_, ?_, ?_⟩
      · simp [Vec.off]; omega
      · simp [Vec.off, Vec.cap, hml]; omega
      · intro hh; exact absurd hh hz
    · simp [Vec.cap, hml]; unfold Vec.cap at c1'; omega
    · intro i
      rw [abs_eq_getI, abs_eq_getI]
      simp only
      by_cases a : il.start ≤ i ∧ i < il.start + ↑il.len
      · rw [if_pos a, if_pos a, getI_writeAt hm]
        have : (0:Int) ≤ -il.start + i ∧ -il.start + i < 0 + ↑cs.length := by omega
        rw [if_pos this, getI_contents hcs]
        have : 0 ≤ -il.start + i - 0 ∧ -il.start + i - 0 < ↑il.len := by omega
        rw [if_pos this]
        congr 1
        unfold Vec.off; omega
      · rw [if_neg a, if_neg a]

/-- the elementwise loop `for i in [v.min, v.max]: w.num[i] = f(w.num[i], v.num[i])`
    when `v`'s range lies inside `w`'s -/
theorem zipInto_spec (f : Int → Int → Int) (w v : Vec) (hw : Inv w) (hv : Inv v)
    (hsub : v.len > 0 → w.start ≤ v.start ∧ v.start + v.len ≤ w.start + w.len) :
    ∃ r, zipInto? f w v = some r ∧ Inv r ∧ r.start = w.start ∧ r.len = w.len ∧ r.cap = w.cap ∧
      ∀ i, r.abs i =
        if v.start ≤ i ∧ i < v.start + v.len then
          (match w.abs i, v.abs i with
            | some a, some b => some (f a b)
            | _, _ => none)
        else w.abs i := by
  unfold zipInto?
  by_cases hz : v.len = 0
  · rw [if_pos hz]
    refine ⟨w, rfl, hw, rfl, rfl, rfl, ?_⟩
    intro i
    rw [if_neg (by omega)]
  · rw [if_neg hz]
    have hsub := hsub (by omega)
    obtain ⟨vs, hvs⟩ := contents?_isSome hv
    have hvsl := (readAt?_eq_some hvs).2.2
    have hwI := hw
    obtain ⟨h0, h1, h2⟩ := hw
    unfold Vec.off at h0 h1
    unfold Vec.cap at h1
    obtain ⟨ws, hws⟩ := readAt?_isSome (mem := w.mem) (pos := w.numOff + v.minIndex) (n := v.len)
      (by unfold Vec.minIndex; omega) (by unfold Vec.minIndex; omega)
    have hwsl := (readAt?_eq_some hws).2.2
    obtain ⟨m, hm⟩ := writeAt?_isSome (mem := w.mem) (pos := w.numOff + v.minIndex)
      (xs := List.zipWith f ws vs) (by unfold Vec.minIndex; omega)
      (by simp [hwsl, hvsl]; unfold Vec.minIndex; omega)
    have hml := length_writeAt hm
    refine ⟨{ w with mem := m }, ?_, ⟨?_, ?_, h2⟩, rfl, rfl, by simp [Vec.cap, hml], ?_⟩
    · simp [hvs, hws, hm]
    · simpa [Vec.off] using h0
    · simp [Vec.off, Vec.cap, hml]; omega
    · intro i
      by_cases a : v.start ≤ i ∧ i < v.start + ↑v.len
      · rw [if_pos a]
        have aw : w.start ≤ i ∧ i < w.start + ↑w.len := by omega
        rw [abs_eq_getI]
        simp only
        rw [if_pos aw, getI_writeAt hm]
        have : w.numOff + v.minIndex ≤ w.numOff + i ∧
            w.numOff + i < w.numOff + v.minIndex + ↑(List.zipWith f ws vs).length := by
          simp [hwsl, hvsl]; unfold Vec.minIndex; omega
        rw [if_pos this, getI_zipWith, getI_readAt hws, getI_contents hvs]
        have : 0 ≤ w.numOff + i - (w.numOff + v.minIndex) ∧ w.numOff + i - (w.numOff + v.minIndex) < ↑v.len := by
          unfold Vec.minIndex; omega
        rw [if_pos this, if_pos this, abs_eq_getI, abs_eq_getI, if_pos aw, if_pos a]
        have e1 : w.numOff + v.minIndex + (w.numOff + i - (w.numOff + v.minIndex)) = w.numOff + i := by omega
        have e2 : v.off + (w.numOff + i - (w.numOff + v.minIndex)) = v.numOff + i := by
          unfold Vec.off Vec.minIndex; omega
        rw [e1, e2]
        generalize getI w.mem (w.numOff + i) = A
        generalize getI v.mem (v.numOff + i) = B
        cases A <;> cases B <;> rfl
      · rw [if_neg a, abs_eq_getI, abs_eq_getI]
        simp only
        by_cases aw : w.start ≤ i ∧ i < w.start + ↑w.len
        · rw [if_pos aw, if_pos aw, getI_writeAt hm]
          have : ¬ (w.numOff + v.minIndex ≤ w.numOff + i ∧
              w.numOff + i < w.numOff + v.minIndex + ↑(List.zipWith f ws vs).length) := by
            simp [hwsl, hvsl]; unfold Vec.minIndex; omega
          rw [if_neg this]
        · rw [if_neg aw, if_neg aw]

theorem addAssign_spec (w v : Vec) (hw : Inv w) (hv : Inv v) :
    ∃ r, w.addAssign? v = some r ∧ Inv r ∧
      (w.len = 0 → ∀ i, r.abs i = v.abs i) ∧
      (w.len > 0 → ∀ i, r.abs i =
        if min w.minIndex v.minIndex ≤ i ∧ i ≤ max w.maxIndex v.maxIndex then
          some ((w.abs i).getD 0 + (v.abs i).getD 0) else none) := by
  unfold addAssign?
  by_cases hz : w.len = 0
  · rw [if_pos hz]
    obtain ⟨r, hr, hrI, _, _, _, hra⟩ := assign_spec w v hv
    exact ⟨r, hr, hrI, fun _ => hra, fun hh => by omega⟩
  · rw [if_neg hz]
    generalize hlo : min w.minIndex v.minIndex = lo
    generalize hhi : max w.maxIndex v.maxIndex = hi
    have hlohi : lo ≤ hi := by
      subst hlo; subst hhi; unfold Vec.minIndex Vec.maxIndex; omega
    obtain ⟨g, hg, hgI, _, _, hgr, hga⟩ := resize_spec w lo hi hw
    obtain ⟨gs, gl⟩ := hgr hlohi
    have hsub : v.len > 0 → g.start ≤ v.start ∧ v.start + v.len ≤ g.start + g.len := by
      intro _
      subst hlo; subst hhi; unfold Vec.minIndex Vec.maxIndex at *; omega
    obtain ⟨r, hr, hrI, _, _, _, hra⟩ := zipInto_spec (· + ·) g v hgI hv hsub
    refine ⟨r, ?_, hrI, fun hh => absurd hh hz, fun _ => ?_⟩
    · simp [grow?, hg, hr]
    · intro i
      rw [hra i]
      by_cases a : v.start ≤ i ∧ i < v.start + ↑v.len
      · have b : lo ≤ i ∧ i ≤ hi := by
          subst hlo; subst hhi; unfold Vec.minIndex Vec.maxIndex at *; omega
        rw [if_pos a, if_pos b, hga i, if_pos b]
        obtain ⟨x, hx⟩ := abs_isSome hv a.1 a.2
        rw [hx]; rfl
      · rw [if_neg a, hga i]
        by_cases b : lo ≤ i ∧ i ≤ hi
        · rw [if_pos b, if_pos b]
          have : v.abs i = none := by rw [abs_eq_getI, if_neg a]
          rw [this]; simp
        · rw [if_neg b, if_neg b]

/-- base class `VectorWithOffset::operator+=` with the guard of the current source:
    equal ranges are processed in bounds, anything else is reported as an error. -/
theorem baseAdd_spec (w v : Vec) (hw : Inv w) (hv : Inv v) :
    ((w.start = v.start ∧ w.len = v.len) →
      ∃ r, w.baseAddAssign? Vec.baseArithGuard v = some (some r) ∧ Inv r ∧
        r.start = w.start ∧ r.len = w.len ∧
        ∀ i, r.abs i = if w.start ≤ i ∧ i < w.start + w.len then
            some ((w.abs i).getD 0 + (v.abs i).getD 0) else none) ∧
    (¬ (w.minIndex = v.minIndex ∧ w.maxIndex = v.maxIndex) →
      w.baseAddAssign? Vec.baseArithGuard v = some none) := by
  constructor
  · intro ⟨es, el⟩
    have hg : Vec.baseArithGuard w v = true := by
      simp [Vec.baseArithGuard, Vec.minIndex, Vec.maxIndex, es, el]
    obtain ⟨r, hr, hrI, hrs, hrl, _, hra⟩ := zipInto_spec (· + ·) w v hw hv (by intro _; omega)
    refine ⟨r, by simp [baseAddAssign?, hg, hr], hrI, hrs, hrl, ?_⟩
    intro i
    rw [hra i]
    by_cases a : v.start ≤ i ∧ i < v.start + ↑v.len
    · have b : w.start ≤ i ∧ i < w.start + ↑w.len := by omega
      rw [if_pos a, if_pos b]
      obtain ⟨x, hx⟩ := abs_isSome hv a.1 a.2
      obtain ⟨y, hy⟩ := abs_isSome hw b.1 b.2
      rw [hx, hy]; rfl
    · have b : ¬ (w.start ≤ i ∧ i < w.start + ↑w.len) := by omega
      rw [if_neg a, if_neg b, abs_eq_getI, if_neg b]
  · intro hne
    have hg : Vec.baseArithGuard w v = false := by
      simp only [Vec.baseArithGuard, Bool.not_eq_false', Bool.or_eq_true, bne_iff_ne, ne_eq]
      by_cases a : w.minIndex = v.minIndex
      · right; intro b; exact hne ⟨a, b⟩
      · left; exact a
    simp [baseAddAssign?, hg]

theorem beq_spec (a b : Vec) (ha : Inv a) (hb : Inv b) :
    ∃ t, a.beq? b = some t ∧ (t = true ↔ ∀ i, a.abs i = b.abs i) := by
  obtain ⟨x, hx⟩ := contents?_isSome ha
  obtain ⟨y, hy⟩ := contents?_isSome hb
  have hxl := (readAt?_eq_some hx).2.2
  have hyl := (readAt?_eq_some hy).2.2
  unfold beq?
  by_cases c : (a.len != b.len || a.start != b.start) = true
  · rw [if_pos c]
    refine ⟨false, rfl, ?_⟩
    constructor
    · intro hh; exact absurd hh (by simp)
    · intro hall
      exfalso
      simp only [Bool.or_eq_true, bne_iff_ne, ne_eq] at c
      -- compare the supports of the two maps
      obtain ⟨_, _, a2⟩ := ha
      obtain ⟨_, _, b2⟩ := hb
      by_cases hal : a.len = 0
      · by_cases hbl : b.len = 0
        · have := a2 hal; have := b2 hbl; omega
        · have h1 := hall b.start
          obtain ⟨z, hz⟩ := abs_isSome ⟨‹_›, ‹_›, b2⟩ (Int.le_refl b.start) (by omega)
          rw [hz, abs_eq_getI, if_neg (by omega)] at h1
          exact absurd h1 (by simp)
      · have hs := hall a.start
        have he := hall (a.start + a.len - 1)
        obtain ⟨z, hz⟩ := abs_isSome ⟨‹_›, ‹_›, a2⟩ (Int.le_refl a.start) (by omega)
        obtain ⟨z', hz'⟩ := abs_isSome ⟨‹_›, ‹_›, a2⟩ (i := a.start + a.len - 1) (by omega) (by omega)
        rw [hz] at hs
        rw [hz'] at he
        have hs' : b.start ≤ a.start ∧ a.start < b.start + ↑b.len := by
          by_cases q : b.start ≤ a.start ∧ a.start < b.start + ↑b.len
          · exact q
          · rw [abs_eq_getI, if_neg q] at hs; exact absurd hs (by simp)
        have he' : b.start ≤ a.start + a.len - 1 ∧ a.start + a.len - 1 < b.start + ↑b.len := by
          by_cases q : b.start ≤ a.start + a.len - 1 ∧ a.start + a.len - 1 < b.start + ↑b.len
          · exact q
          · rw [abs_eq_getI, if_neg q] at he; exact absurd he (by simp)
        -- symmetric argument for b's end points
        have hbl : b.len ≠ 0 := by omega
        have hs2 := hall b.start
        have he2 := hall (b.start + b.len - 1)
        obtain ⟨u, hu⟩ := abs_isSome ⟨‹_›, ‹_›, b2⟩ (Int.le_refl b.start) (by omega)
        obtain ⟨u', hu'⟩ := abs_isSome ⟨‹_›, ‹_›, b2⟩ (i := b.start + b.len - 1) (by omega) (by omega)
        rw [hu] at hs2
        rw [hu'] at he2
        have hs2' : a.start ≤ b.start ∧ b.start < a.start + ↑a.len := by
          by_cases q : a.start ≤ b.start ∧ b.start < a.start + ↑a.len
          · exact q
          · rw [abs_eq_getI, if_neg q] at hs2; exact absurd hs2 (by simp)
        have he2' : a.start ≤ b.start + b.len - 1 ∧ b.start + b.len - 1 < a.start + ↑a.len := by
          by_cases q : a.start ≤ b.start + b.len - 1 ∧ b.start + b.len - 1 < a.start + ↑a.len
          · exact q
          · rw [abs_eq_getI, if_neg q] at he2; exact absurd he2 (by simp)
        omega
  · rw [if_neg c]
    simp only [Bool.or_eq_true, bne_iff_ne, ne_eq, not_or, Decidable.not_not] at c
    obtain ⟨cl, cs⟩ := c
    refine ⟨x == y, by simp [hx, hy], ?_⟩
    constructor
    · intro hxy i
      have hxy : x = y := by simpa using hxy
      rw [abs_eq_getI, abs_eq_getI]
      by_cases q : a.start ≤ i ∧ i < a.start + ↑a.len
      · have q' : b.start ≤ i ∧ i < b.start + ↑b.len := by omega
        rw [if_pos q, if_pos q']
        have e1 := getI_contents hx (i - a.start)
        have e2 := getI_contents hy (i - a.start)
        rw [if_pos (by omega)] at e1
        rw [if_pos (by omega)] at e2
        have : a.off + (i - a.start) = a.numOff + i := by unfold Vec.off; omega
        rw [this] at e1
        have : b.off + (i - a.start) = b.numOff + i := by unfold Vec.off; omega
        rw [this] at e2
        rw [← e1, ← e2, hxy]
      · have q' : ¬ (b.start ≤ i ∧ i < b.start + ↑b.len) := by omega
        rw [if_neg q, if_neg q']
    · intro hall
      have : x = y := by
        apply list_ext_getI
        intro k
        rw [getI_contents hx, getI_contents hy]
        by_cases q : 0 ≤ k ∧ k < ↑a.len
        · have q' : 0 ≤ k ∧ k < ↑b.len := by omega
          rw [if_pos q, if_pos q']
          have := hall (a.start + k)
          rw [abs_eq_getI, abs_eq_getI, if_pos (by omega), if_pos (by omega)] at this
          have e1 : a.off + k = a.numOff + (a.start + k) := by unfold Vec.off; omega
          have e2 : b.off + k = b.numOff + (a.start + k) := by unfold Vec.off; omega
          rw [e1, e2, this]
        · have q' : ¬ (0 ≤ k ∧ k < ↑b.len) := by omega
          rw [if_neg q, if_neg q']
      simpa using this

end StirVerif.C11
