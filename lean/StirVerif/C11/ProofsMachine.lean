import StirVerif.C11.ProofsArith
namespace StirVerif.C11
open Vec

/-! ### machine level: every history is memory safe and keeps the invariant -/

def RegsInv (rs : Regs) : Prop := ∀ v ∈ rs, Inv v

theorem inv_getR {rs : Regs} (h : RegsInv rs) (r : Nat) : Inv (getR rs r) := by
  unfold getR
  rw [List.getD_eq_getElem?_getD]
  cases hr : rs[r]? with
  | none => simpa using inv_empty
  | some v => simpa using h v (List.mem_of_getElem? hr)

theorem inv_setR {rs : Regs} (h : RegsInv rs) (r : Nat) {v : Vec} (hv : Inv v) :
    RegsInv (setR rs r v) := by
  intro x hx
  unfold setR at hx
  rcases List.mem_or_eq_of_mem_set hx with hx | hx
  · exact h x hx
  · exact hx ▸ hv

/-- aliased `x += x`, `x -= x`, … are not modelled (and not generated); the binary operators,
    `xapyb` and `sapyb` may use the same register several times -/
def Op.WF : Op → Prop
  | .addAssign d s => d ≠ s
  | .baseAdd d s => d ≠ s
  | .arith _ d s => d ≠ s
  | .baseArith _ d s => d ≠ s
  | _ => True

theorem step_safe (rs : Regs) (op : Op) (h : RegsInv rs) (hop : op.WF) :
    ∃ rs' o, step rs op = some (rs', o) ∧ RegsInv rs' := by
  cases op with
  | resize r mn mx =>
    obtain ⟨w, hw, hwI, _⟩ := resize_spec (getR rs r) mn mx (inv_getR h r)
    exact ⟨_, .ok, by simp [step, hw], inv_setR h r hwI⟩
  | grow r mn mx =>
    obtain ⟨w, hw, hwI, _⟩ := resize_spec (getR rs r) mn mx (inv_getR h r)
    exact ⟨_, .ok, by simp [step, grow?, hw], inv_setR h r hwI⟩
  | reserve r mn mx =>
    obtain ⟨w, hw, hwI, _⟩ := reserve_spec (getR rs r) mn mx (inv_getR h r)
    exact ⟨_, .ok, by simp [step, hw], inv_setR h r hwI⟩
  | setOffset r mn =>
    exact ⟨_, .ok, rfl, inv_setR h r (setOffset_spec _ mn (inv_getR h r)).1⟩
  | assign d s =>
    by_cases e : d = s
    · exact ⟨rs, .ok, by simp [step, e], h⟩
    · obtain ⟨w, hw, hwI, _⟩ := assign_spec (getR rs d) (getR rs s) (inv_getR h s)
      exact ⟨_, .ok, by simp [step, e, hw], inv_setR h d hwI⟩
  | fill r x =>
    obtain ⟨w, hw, hwI, _⟩ := fill_spec (getR rs r) x (inv_getR h r)
    exact ⟨_, .ok, by simp [step, hw], inv_setR h r hwI⟩
  | setAt r i x =>
    obtain ⟨h1, h2⟩ := setAt_spec (getR rs r) i x (inv_getR h r)
    by_cases a : (getR rs r).start ≤ i ∧ i < (getR rs r).start + (getR rs r).len
    · obtain ⟨w, hw, hwI, _⟩ := h2 a
      exact ⟨_, .ok, by simp [step, hw], inv_setR h r hwI⟩
    · exact ⟨_, .errRange, by simp [step, h1 a], h⟩
  | getAt r i =>
    have := getAt_spec (getR rs r) i (inv_getR h r)
    cases hq : (getR rs r).abs i with
    | none => exact ⟨_, .errRange, by simp [step, this, hq], h⟩
    | some x => exact ⟨_, .val x, by simp [step, this, hq], h⟩
  | addAssign d s =>
    have e : d ≠ s := hop
    by_cases g : (!((getR rs d).small && (getR rs s).small)) = true
    · exact ⟨rs, .skip, by simp [step, e, g], h⟩
    · obtain ⟨w, hw, hwI, _⟩ := addAssign_spec (getR rs d) (getR rs s) (inv_getR h d) (inv_getR h s)
      exact ⟨_, .ok, by simp [step, e, g, hw], inv_setR h d hwI⟩
  | baseAdd d s =>
    have e : d ≠ s := hop
    by_cases g : (!((getR rs d).small && (getR rs s).small)) = true
    · exact ⟨rs, .skip, by simp [step, e, g], h⟩
    · obtain ⟨h1, h2⟩ := baseAdd_spec (getR rs d) (getR rs s) (inv_getR h d) (inv_getR h s)
      by_cases a : (getR rs d).start = (getR rs s).start ∧ (getR rs d).len = (getR rs s).len
      · obtain ⟨w, hw, hwI, _⟩ := h1 a
        exact ⟨_, .ok, by simp [step, e, g, hw], inv_setR h d hwI⟩
      · have : ¬ ((getR rs d).minIndex = (getR rs s).minIndex ∧ (getR rs d).maxIndex = (getR rs s).maxIndex) := by
          unfold Vec.minIndex Vec.maxIndex; omega
        exact ⟨_, .errRange, by simp [step, e, g, h2 this], h⟩
  | recycle r =>
    exact ⟨_, .ok, rfl, inv_setR h r inv_empty⟩
  | eq a b =>
    obtain ⟨t, ht, _⟩ := beq_spec (getR rs a) (getR rs b) (inv_getR h a) (inv_getR h b)
    exact ⟨_, .bool t, by simp [step, ht], h⟩
  | arith a d s =>
    have e : d ≠ s := hop
    by_cases g : (!((getR rs d).small && (getR rs s).small && (a != .div || (getR rs s).noZero))) = true
    · exact ⟨rs, .skip, by simp [step, e, g], h⟩
    · obtain ⟨w, hw, hwI, _⟩ := numAssign_spec a (getR rs d) (getR rs s) (inv_getR h d) (inv_getR h s)
      exact ⟨_, .ok, by simp [step, e, g, hw], inv_setR h d hwI⟩
  | baseArith a d s =>
    have e : d ≠ s := hop
    by_cases g : (!((getR rs d).small && (getR rs s).small && (a != .div || (getR rs s).noZero))) = true
    · exact ⟨rs, .skip, by simp [step, e, g], h⟩
    · obtain ⟨h1, h2⟩ := baseArith_spec a (getR rs d) (getR rs s) (inv_getR h d) (inv_getR h s)
      by_cases c : (getR rs d).start = (getR rs s).start ∧ (getR rs d).len = (getR rs s).len
      · obtain ⟨w, hw, hwI, _⟩ := h1 c
        exact ⟨_, .ok, by simp [step, e, g, hw], inv_setR h d hwI⟩
      · have : ¬ ((getR rs d).minIndex = (getR rs s).minIndex ∧ (getR rs d).maxIndex = (getR rs s).maxIndex) := by
          unfold Vec.minIndex Vec.maxIndex; omega
        exact ⟨_, .errRange, by simp [step, e, g, h2 this], h⟩
  | scalar a r x =>
    by_cases g : (!((getR rs r).small && Vec.smallInt x && (a != .div || x != 0))) = true
    · exact ⟨rs, .skip, by simp [step, g], h⟩
    · obtain ⟨w, hw, hwI, _⟩ := mapInPlace_spec (fun e => a.fn e x) (getR rs r) (inv_getR h r)
      exact ⟨_, .ok, by simp [step, g, hw], inv_setR h r hwI⟩
  | bin a d x y =>
    by_cases g : (!((getR rs x).small && (getR rs y).small && (a != .div || (getR rs y).noZero))) = true
    · exact ⟨rs, .skip, by simp [step, g], h⟩
    · obtain ⟨w, hw, hwI, _⟩ := binArith_spec a (getR rs d) (getR rs x) (getR rs y) (inv_getR h x) (inv_getR h y)
      exact ⟨_, .ok, by simp [step, g, hw], inv_setR h d hwI⟩
  | binScalar a d x c =>
    by_cases g : (!((getR rs x).small && Vec.smallInt c && (a != .div || c != 0))) = true
    · exact ⟨rs, .skip, by simp [step, g], h⟩
    · obtain ⟨w, hw, hwI, _⟩ := binScalar_spec (fun e => a.fn e c) (getR rs d) (getR rs x) (inv_getR h x)
      exact ⟨_, .ok, by simp [step, g, hw], inv_setR h d hwI⟩
  | xapyb d x a y b =>
    by_cases g : (!((getR rs x).small && (getR rs y).small && Vec.smallInt a && Vec.smallInt b)) = true
    · exact ⟨rs, .skip, by simp [step, g], h⟩
    · obtain ⟨h1, h2⟩ := xapyb_spec (getR rs d) (getR rs x) a (getR rs y) b (inv_getR h d) (inv_getR h x) (inv_getR h y)
      by_cases c : sameRange (getR rs d) (getR rs x) = true ∧ sameRange (getR rs d) (getR rs y) = true
      · obtain ⟨w, hw, hwI, _⟩ := h1 c
        exact ⟨_, .ok, by simp [step, g, hw], inv_setR h d hwI⟩
      · exact ⟨_, .errRange, by simp [step, g, h2 c], h⟩
  | xapybVec d x a y b =>
    by_cases g : (!((getR rs x).small && (getR rs y).small && (getR rs a).small && (getR rs b).small)) = true
    · exact ⟨rs, .skip, by simp [step, g], h⟩
    · obtain ⟨h1, h2⟩ := xapybVec_spec (getR rs d) (getR rs x) (getR rs a) (getR rs y) (getR rs b)
        (inv_getR h d) (inv_getR h x) (inv_getR h a) (inv_getR h y) (inv_getR h b)
      by_cases c : sameRange (getR rs d) (getR rs x) = true ∧ sameRange (getR rs d) (getR rs y) = true ∧
          sameRange (getR rs d) (getR rs a) = true ∧ sameRange (getR rs d) (getR rs b) = true
      · obtain ⟨w, hw, hwI, _⟩ := h1 c
        exact ⟨_, .ok, by simp [step, g, hw], inv_setR h d hwI⟩
      · exact ⟨_, .errRange, by simp [step, g, h2 c], h⟩
  | sapyb d a y b =>
    by_cases g : (!((getR rs d).small && (getR rs y).small && Vec.smallInt a && Vec.smallInt b)) = true
    · exact ⟨rs, .skip, by simp [step, g], h⟩
    · obtain ⟨h1, h2⟩ := xapyb_spec (getR rs d) (getR rs d) a (getR rs y) b (inv_getR h d) (inv_getR h d) (inv_getR h y)
      by_cases c : sameRange (getR rs d) (getR rs d) = true ∧ sameRange (getR rs d) (getR rs y) = true
      · obtain ⟨w, hw, hwI, _⟩ := h1 c
        exact ⟨_, .ok, by simp [step, g, hw], inv_setR h d hwI⟩
      · exact ⟨_, .errRange, by simp [step, g, h2 c], h⟩
  | sapybVec d a y b =>
    by_cases g : (!((getR rs d).small && (getR rs y).small && (getR rs a).small && (getR rs b).small)) = true
    · exact ⟨rs, .skip, by simp [step, g], h⟩
    · obtain ⟨h1, h2⟩ := xapybVec_spec (getR rs d) (getR rs d) (getR rs a) (getR rs y) (getR rs b)
        (inv_getR h d) (inv_getR h d) (inv_getR h a) (inv_getR h y) (inv_getR h b)
      by_cases c : sameRange (getR rs d) (getR rs d) = true ∧ sameRange (getR rs d) (getR rs y) = true ∧
          sameRange (getR rs d) (getR rs a) = true ∧ sameRange (getR rs d) (getR rs b) = true
      · obtain ⟨w, hw, hwI, _⟩ := h1 c
        exact ⟨_, .ok, by simp [step, g, hw], inv_setR h d hwI⟩
      · exact ⟨_, .errRange, by simp [step, g, h2 c], h⟩

theorem run_safe (ops : List Op) : ∀ (rs : Regs), RegsInv rs → (∀ op ∈ ops, op.WF) →
    ∃ rs' outs, run rs ops = some (rs', outs) ∧ RegsInv rs' ∧ outs.length = ops.length := by
  induction ops with
  | nil => intro rs h _; exact ⟨rs, [], rfl, h, rfl⟩
  | cons op ops ih =>
    intro rs h hwf
    obtain ⟨rs1, o, h1, hI1⟩ := step_safe rs op h (hwf op (by simp))
    obtain ⟨rs2, os, h2, hI2, hl⟩ := ih rs1 hI1 (fun q hq => hwf q (by simp [hq]))
    exact ⟨rs2, o :: os, by simp [run, h1, h2], hI2, by simp [hl]⟩
end StirVerif.C11
