/-
C11 — "Arrays behave as index-range maps under any history and stay in bounds".

Property theorems for the 1-D core (`VectorWithOffset<int>` / `Array<1,int>` /
`NumericVectorWithOffset`), stated over the model of `Model.lean`; proofs of the
per-operation specifications are in `Proofs.lean` (storage operations, `+=`), `ProofsArith.lean`
(all other arithmetic) and `ProofsMachine.lean` (histories).  `v.abs : Int → Option Int` is the
index-range map a vector denotes; `Inv` is the storage invariant
(`begin_allocated ≤ num+start`, `num+start+length ≤ end_allocated`, empty ⇒ start = 0, num = begin).
An operation returning `none` in the model is an access outside the owned storage.
-/
import StirVerif.C11.ProofsMachine
import StirVerif.C11.ProofsNDim

namespace StirVerif.C11
open Vec

/-- **Memory safety + invariant for every history.**  From registers that satisfy the
invariant (in particular from all-empty registers) every finite sequence of operations
(resize, grow, reserve, set_offset, assignment, fill, checked get/set, `+=` of numeric
vectors, base-class `+=`, recycle, `==`, and — since the extension of the alphabet — `-= *= /=`
of numeric vectors (growing), the range-checked base-class `-= *= /=`, the scalar `+= -= *= /=`,
the binary operators `x op y` and `x op c` of `Array<1>` with assignment of the result,
`xapyb` and `sapyb` with scalar and with vector factors) runs without any access outside owned
storage and ends in registers that satisfy the invariant.  `Op` has no other constructors: the
theorem covers every operation of the alphabet of the correspondence harness.  (An arithmetic
operation — `+=` included — whose operands could overflow 32 bits or divide by zero answers `skip`
and changes nothing, in the model as in the harness.) -/
theorem C11_history_safe (ops : List Op) (rs : Regs) (h : RegsInv rs) (hwf : ∀ op ∈ ops, op.WF) :
    ∃ rs' outs, run rs ops = some (rs', outs) ∧ RegsInv rs' ∧ outs.length = ops.length :=
  run_safe ops rs h hwf

/-- non-vacuity: the start state of the harness (three empty vectors) satisfies the hypothesis -/
example : RegsInv [Vec.empty, Vec.empty, Vec.empty] := by
  intro v hv
  simp at hv
  subst hv
  exact inv_empty

/-- **resize / grow**: surviving elements keep their values, newly exposed elements are zero,
range is the requested one (empty if `max < min`). -/
theorem C11_resize_is_map_restriction (v : Vec) (mn mx : Int) (h : Inv v) :
    ∃ w, v.resize? mn mx = some w ∧ Inv w ∧
      ∀ i, w.abs i = if mn ≤ i ∧ i ≤ mx then some ((v.abs i).getD 0) else none := by
  obtain ⟨w, a, b, _, _, _, c⟩ := resize_spec v mn mx h
  exact ⟨w, a, b, c⟩

/-- **reserve** changes nothing observable. -/
theorem C11_reserve_invisible (v : Vec) (mn mx : Int) (h : Inv v) :
    ∃ w, v.reserve? mn mx = some w ∧ Inv w ∧ ∀ i, w.abs i = v.abs i := by
  obtain ⟨w, a, b, c, d, _, e, _⟩ := reserve_spec v mn mx h
  refine ⟨w, a, b, fun i => ?_⟩
  rw [abs_eq_getI, abs_eq_getI, c, d]
  by_cases q : v.start ≤ i ∧ i < v.start + ↑v.len
  · rw [if_pos q, if_pos q, e i q.1 q.2]
  · rw [if_neg q, if_neg q]

/-- **set_offset** shifts the index range and nothing else. -/
theorem C11_set_offset_shifts (v : Vec) (mn : Int) (h : Inv v) :
    Inv (v.setOffset mn) ∧ ∀ i, (v.setOffset mn).abs i = v.abs (i - mn + v.start) :=
  ⟨(setOffset_spec v mn h).1, (setOffset_spec v mn h).2.2.2.2⟩

/-- **assignment** yields an equal map, from *any* prior state of the target
(also after a shrinking `resize` that left `num+start` in the middle of the allocation). -/
theorem C11_assign_equal_map (v il : Vec) (hil : Inv il) :
    ∃ w, v.assign? il = some w ∧ Inv w ∧ ∀ i, w.abs i = il.abs i := by
  obtain ⟨w, a, b, _, _, _, c⟩ := assign_spec v il hil
  exact ⟨w, a, b, c⟩

/-- **fill**. -/
theorem C11_fill (v : Vec) (x : Int) (h : Inv v) :
    ∃ w, v.fill? x = some w ∧ Inv w ∧
      ∀ i, w.abs i = if (v.abs i).isSome then some x else none := by
  obtain ⟨w, a, b, _, _, _, c⟩ := fill_spec v x h
  refine ⟨w, a, b, fun i => ?_⟩
  rw [c i]
  by_cases q : v.start ≤ i ∧ i < v.start + ↑v.len
  · obtain ⟨y, hy⟩ := abs_isSome h q.1 q.2
    rw [if_pos q, hy]; rfl
  · rw [if_neg q, abs_eq_getI, if_neg q]; rfl

/-- **checked access**: `at(i)` returns the map's value, or reports an error exactly outside the range. -/
theorem C11_checked_get (v : Vec) (i : Int) (h : Inv v) : v.getAt? i = some (v.abs i) :=
  getAt_spec v i h

theorem C11_checked_set (v : Vec) (i x : Int) (h : Inv v) :
    ((v.abs i).isNone → v.setAt? i x = some none) ∧
    ((v.abs i).isSome → ∃ w, v.setAt? i x = some (some w) ∧ Inv w ∧
        ∀ j, w.abs j = if j = i then some x else v.abs j) := by
  obtain ⟨h1, h2⟩ := setAt_spec v i x h
  constructor
  · intro hn
    apply h1
    intro q
    obtain ⟨y, hy⟩ := abs_isSome h q.1 q.2
    rw [hy] at hn; exact absurd hn (by simp)
  · intro hs
    have q : v.start ≤ i ∧ i < v.start + ↑v.len := by
      by_cases q : v.start ≤ i ∧ i < v.start + ↑v.len
      · exact q
      · rw [abs_eq_getI, if_neg q] at hs; exact absurd hs (by simp)
    obtain ⟨w, a, b, _, _, _, c⟩ := h2 q
    exact ⟨w, a, b, c⟩

/-- **numeric `+=`** grows to the union of the ranges, new cells count as zero.
(`C11_numeric_arith` below states the same for `-= *= /=`; by `C11_numeric_add_is_arith` this
theorem is its `add` instance, and through `binArith?` it also governs `x + y`.) -/
theorem C11_numeric_add (w v : Vec) (hw : Inv w) (hv : Inv v) (hne : w.len > 0) :
    ∃ r, w.addAssign? v = some r ∧ Inv r ∧ ∀ i, r.abs i =
        if min w.minIndex v.minIndex ≤ i ∧ i ≤ max w.maxIndex v.maxIndex then
          some ((w.abs i).getD 0 + (v.abs i).getD 0) else none := by
  obtain ⟨r, a, b, _, c⟩ := addAssign_spec w v hw hv
  exact ⟨r, a, b, c hne⟩

/-- **base-class arithmetic**: operands with different index ranges are reported as an error
and nothing is touched; equal ranges are combined elementwise in bounds.
(`+=` instance; `C11_base_arith_range_errors` / `C11_base_arith_equal_ranges` below cover
`-= *= /=` as well, which the correspondence harness now also executes.) -/
theorem C11_arith_range_errors (w v : Vec) (hw : Inv w) (hv : Inv v)
    (hne : ¬ (w.minIndex = v.minIndex ∧ w.maxIndex = v.maxIndex)) :
    w.baseAddAssign? Vec.baseArithGuard v = some none :=
  (baseAdd_spec w v hw hv).2 hne

/-- negative witness (known finding `numeric-op-empty-operand`): the union in `C11_numeric_add` /
`C11_numeric_arith` is taken with the *conventional* range `0..-1` of an empty operand, so adding an
array without elements to `[3..5]` yields `[0..5]` — three new zero elements, although the operand's
map has no element.  The theorems above state what the code does (they are true of it); the
N-dimensional oracle of the harness states what an index-range map would do and reports this class. -/
theorem C11_numeric_add_empty_operand_grows :
    ((Vec.empty.resize? 3 5).bind fun w => (w.addAssign? Vec.empty).bind fun r =>
        r.contents?.map fun cs => (r.minIndex, r.maxIndex, cs)) = some (0, 5, [0, 0, 0, 0, 0, 0]) := by decide

/-! ### arithmetic other than `+=` -/

/-- `+=` is an instance of the general numeric operator of the extended model, so
`C11_numeric_add` and `C11_numeric_arith` speak about the same code path. -/
theorem C11_numeric_add_is_arith (w v : Vec) : numAssign? .add w v = w.addAssign? v :=
  numAssign_add w v

/-- **numeric `+= -= *= /=` on a non-empty vector** ("arithmetic … surviving elements keep their
values, elements newly exposed by growing a numeric array are zero"): the result has the union of
the two ranges; inside the operand's range it is `f(w_i, v_i)` with newly exposed `w_i` counting
as zero, outside the operand's range the old value, or zero where newly exposed. -/
theorem C11_numeric_arith (a : Arith) (w v : Vec) (hw : Inv w) (hv : Inv v) (hne : w.len > 0) :
    ∃ r, numAssign? a w v = some r ∧ Inv r ∧ ∀ i, r.abs i =
        if min w.minIndex v.minIndex ≤ i ∧ i ≤ max w.maxIndex v.maxIndex then
          some (match v.abs i with
            | some b => a.fn ((w.abs i).getD 0) b
            | none => (w.abs i).getD 0)
        else none := by
  obtain ⟨r, h1, h2, h3⟩ := numAssign_spec a w v hw hv
  refine ⟨r, h1, h2, fun i => ?_⟩
  rw [h3 i]
  unfold arithSpec
  rw [if_neg (by omega)]
  rfl

/-- **numeric `+= -= *= /=` on an empty vector**: the result has the operand's range and is the
operand itself (`+=`), its negation (`-=`), or zero (`*=`, `/=`), as the comments in
NumericVectorWithOffset.inl say ("an object of the same dimensions as v, but filled with 0"). -/
theorem C11_numeric_arith_empty (a : Arith) (w v : Vec) (hw : Inv w) (hv : Inv v) (he : w.len = 0) :
    ∃ r, numAssign? a w v = some r ∧ Inv r ∧ ∀ i, r.abs i =
        (v.abs i).map fun x => match a with
          | .add => x
          | .sub => -x
          | .mul => 0
          | .div => 0 := by
  obtain ⟨r, h1, h2, h3⟩ := numAssign_spec a w v hw hv
  refine ⟨r, h1, h2, fun i => ?_⟩
  rw [h3 i]
  unfold arithSpec
  rw [if_pos he]
  cases a <;> cases v.abs i <;> simp [Arith.emptyScale]

/-- concrete instance (non-empty case, ranges differing at both ends):
`[0..2]` filled with 7 `-=` `[1..4]` filled with 3 is `7 4 4 -3 -3` on `[0..4]`. -/
example : ((Vec.empty.resize? 0 2).bind fun w => (w.fill? 7).bind fun w =>
      (Vec.empty.resize? 1 4).bind fun v => (v.fill? 3).bind fun v =>
        (numAssign? .sub w v).bind fun r => r.contents?.map fun cs => (r.minIndex, r.maxIndex, cs))
    = some (0, 4, [7, 4, 4, -3, -3]) := by decide

/-- concrete instance (empty case): `[] /= [1..2]` is `0 0` on `[1..2]`. -/
example : ((Vec.empty.resize? 1 2).bind fun v => (v.fill? 3).bind fun v =>
      (numAssign? .div Vec.empty v).bind fun r => r.contents?.map fun cs => (r.minIndex, r.maxIndex, cs))
    = some (1, 2, [0, 0]) := by decide

/-- **scalar `+= -= *= /=`** act elementwise and change neither range nor anything else. -/
theorem C11_scalar_arith (a : Arith) (v : Vec) (x : Int) (h : Inv v) :
    ∃ r, mapInPlace? (fun e => a.fn e x) v = some r ∧ Inv r ∧ r.minIndex = v.minIndex ∧ r.len = v.len ∧
      ∀ i, r.abs i = (v.abs i).map fun e => a.fn e x := by
  obtain ⟨r, h1, h2, h3, h4, _, h5⟩ := mapInPlace_spec (fun e => a.fn e x) v h
  exact ⟨r, h1, h2, h3, h4, h5⟩

/-- C++ `int` division truncates towards zero: `-7 / 2 = -3`. -/
example : ((Vec.empty.resize? 0 1).bind fun v => (v.fill? (-7)).bind fun v =>
      (mapInPlace? (fun e => Arith.div.fn e 2) v).bind (·.contents?)) = some [-3, -3] := by decide

/-- **base-class `+= -= *= /=`, incompatible ranges** ("operations whose operands have incompatible
index ranges … are reported as errors"): every one of the four operators reports an error and
touches nothing as soon as the ranges differ at either end.  Extends `C11_arith_range_errors`
(the `+=` instance) to the whole family. -/
theorem C11_base_arith_range_errors (a : Arith) (w v : Vec) (hw : Inv w) (hv : Inv v)
    (hne : ¬ (w.minIndex = v.minIndex ∧ w.maxIndex = v.maxIndex)) :
    w.baseArith? a Vec.baseArithGuard v = some none :=
  (baseArith_spec a w v hw hv).2 hne

/-- **base-class `+= -= *= /=`, equal ranges**: combined elementwise, in bounds, range unchanged. -/
theorem C11_base_arith_equal_ranges (a : Arith) (w v : Vec) (hw : Inv w) (hv : Inv v)
    (he : w.minIndex = v.minIndex ∧ w.maxIndex = v.maxIndex) :
    ∃ r, w.baseArith? a Vec.baseArithGuard v = some (some r) ∧ Inv r ∧
      r.minIndex = w.minIndex ∧ r.len = w.len ∧
      ∀ i, r.abs i = match w.abs i, v.abs i with
        | some p, some q => some (a.fn p q)
        | _, _ => none := by
  have e : w.start = v.start ∧ w.len = v.len := by
    unfold Vec.minIndex Vec.maxIndex at he; omega
  obtain ⟨r, h1, h2, h3, h4, h5⟩ := (baseArith_spec a w v hw hv).1 e
  refine ⟨r, h1, h2, h3, h4, fun i => ?_⟩
  rw [h5 i]
  by_cases c : w.start ≤ i ∧ i < w.start + ↑w.len
  · obtain ⟨p, hp⟩ := abs_isSome hw c.1 c.2
    obtain ⟨q, hq⟩ := abs_isSome hv (i := i) (by omega) (by omega)
    rw [if_pos c, hp, hq]; rfl
  · rw [if_neg c, abs_eq_getI w, if_neg c]

/-- the hypotheses of both theorems are met by real operands: ranges differing at one end only
(the case the `&&` guard of the pinned source let through) are an error for `*=` as well … -/
example : ((Vec.empty.resize? 0 2).bind fun w => (Vec.empty.resize? 0 5).bind fun v =>
    w.baseArith? .mul Vec.baseArithGuard v) = some none := by decide
/-- … and equal ranges divide elementwise. -/
example : ((Vec.empty.resize? 0 1).bind fun w => (w.fill? 9).bind fun w =>
      (Vec.empty.resize? 0 1).bind fun v => (v.fill? 2).bind fun v =>
        (w.baseArith? .div Vec.baseArithGuard v).bind fun o => o.bind (·.contents?)) = some [4, 4] := by decide

/-- **binary operators** `d = x op y` of `Array<1>`: the result is the map that `x op= y` would
produce on a copy of `x` — whatever `d` held before (any capacity, any earlier shrink), and
also when `d`, `x`, `y` are the same object. -/
theorem C11_binary_arith (a : Arith) (d x y : Vec) (hx : Inv x) (hy : Inv y) :
    ∃ r t, binArith? a d x y = some r ∧ numAssign? a x y = some t ∧ Inv r ∧ ∀ i, r.abs i = t.abs i := by
  obtain ⟨r, h1, h2, h3⟩ := binArith_spec a d x y hx hy
  obtain ⟨t, g1, _, g3⟩ := numAssign_spec a x y hx hy
  exact ⟨r, t, h1, g1, h2, fun i => by rw [h3 i, g3 i]⟩

/-- **binary operators with a scalar** `d = x op c`. -/
theorem C11_binary_scalar (a : Arith) (d x : Vec) (c : Int) (hx : Inv x) :
    ∃ r, binScalar? (fun e => a.fn e c) d x = some r ∧ Inv r ∧
      ∀ i, r.abs i = (x.abs i).map fun e => a.fn e c :=
  binScalar_spec _ d x hx

/-- concrete instance: `d = x * y` with `x = [0..1]` of 3, `y = [1..2]` of 5: `3 15 0` on `[0..2]`
(outside `y`'s range `x` is kept, the newly exposed element counts as zero). -/
example : ((Vec.empty.resize? 0 1).bind fun x => (x.fill? 3).bind fun x =>
      (Vec.empty.resize? 1 2).bind fun y => (y.fill? 5).bind fun y =>
        (binArith? .mul Vec.empty x y).bind (·.contents?)) = some [3, 15, 0] := by decide

/-- **`xapyb` / `sapyb` with scalar factors, equal ranges**: `this_i = x_i * a + y_i * b` on the
common range, in bounds; `sapyb(a, y, b)` is the instance `x = *this`. -/
theorem C11_xapyb (w x : Vec) (a : Int) (y : Vec) (b : Int) (hw : Inv w) (hx : Inv x) (hy : Inv y)
    (hxr : w.minIndex = x.minIndex ∧ w.maxIndex = x.maxIndex)
    (hyr : w.minIndex = y.minIndex ∧ w.maxIndex = y.maxIndex) :
    ∃ r, w.xapyb? x a y b = some (some r) ∧ Inv r ∧ r.minIndex = w.minIndex ∧ r.len = w.len ∧
      ∀ i, r.abs i = match x.abs i, y.abs i with
        | some p, some q => some (p * a + q * b)
        | _, _ => none := by
  have ex : w.start = x.start ∧ w.len = x.len := by unfold Vec.minIndex Vec.maxIndex at hxr; omega
  have ey : w.start = y.start ∧ w.len = y.len := by unfold Vec.minIndex Vec.maxIndex at hyr; omega
  obtain ⟨r, h1, h2, h3, h4, h5⟩ :=
    (xapyb_spec w x a y b hw hx hy).1 ⟨(sameRange_iff w x).mpr ex, (sameRange_iff w y).mpr ey⟩
  refine ⟨r, h1, h2, h3, h4, fun i => ?_⟩
  rw [h5 i]
  by_cases c : w.start ≤ i ∧ i < w.start + ↑w.len
  · obtain ⟨p, hp⟩ := abs_isSome hx (i := i) (by omega) (by omega)
    obtain ⟨q, hq⟩ := abs_isSome hy (i := i) (by omega) (by omega)
    rw [if_pos c, hp, hq]; rfl
  · rw [if_neg c, abs_eq_getI x, if_neg (by omega)]

/-- **`xapyb` / `sapyb`, incompatible ranges** are reported as an error, nothing is touched. -/
theorem C11_xapyb_range_errors (w x : Vec) (a : Int) (y : Vec) (b : Int) (hw : Inv w) (hx : Inv x) (hy : Inv y)
    (hne : ¬ ((w.minIndex = x.minIndex ∧ w.maxIndex = x.maxIndex) ∧
              (w.minIndex = y.minIndex ∧ w.maxIndex = y.maxIndex))) :
    w.xapyb? x a y b = some none := by
  apply (xapyb_spec w x a y b hw hx hy).2
  intro ⟨sx, sy⟩
  apply hne
  have ex := (sameRange_iff w x).mp sx
  have ey := (sameRange_iff w y).mp sy
  unfold Vec.minIndex Vec.maxIndex
  omega

/-- **`xapyb` / `sapyb` with vector factors**: `this_i = x_i * a_i + y_i * b_i` when all five
ranges agree, an error (nothing touched) otherwise. -/
theorem C11_xapyb_vec (w x a y b : Vec) (hw : Inv w) (hx : Inv x) (ha : Inv a) (hy : Inv y) (hb : Inv b) :
    ((sameRange w x = true ∧ sameRange w y = true ∧ sameRange w a = true ∧ sameRange w b = true) →
      ∃ r, w.xapybVec? x a y b = some (some r) ∧ Inv r ∧ r.minIndex = w.minIndex ∧ r.len = w.len ∧
        ∀ i, r.abs i = if w.minIndex ≤ i ∧ i ≤ w.maxIndex then
            some ((x.abs i).getD 0 * (a.abs i).getD 0 + (y.abs i).getD 0 * (b.abs i).getD 0) else none) ∧
    (¬ (sameRange w x = true ∧ sameRange w y = true ∧ sameRange w a = true ∧ sameRange w b = true) →
      w.xapybVec? x a y b = some none) := by
  obtain ⟨h1, h2⟩ := xapybVec_spec w x a y b hw hx ha hy hb
  refine ⟨fun hs => ?_, h2⟩
  obtain ⟨r, g1, g2, g3, g4, g5⟩ := h1 hs
  refine ⟨r, g1, g2, g3, g4, fun i => ?_⟩
  rw [g5 i]
  unfold Vec.minIndex Vec.maxIndex
  by_cases c : w.start ≤ i ∧ i < w.start + ↑w.len
  · rw [if_pos c, if_pos (by omega)]
  · rw [if_neg c, if_neg (by omega)]

/-- `sameRange` is exactly "both ends of the index range agree" -/
theorem C11_sameRange_iff (w v : Vec) :
    sameRange w v = true ↔ (w.minIndex = v.minIndex ∧ w.maxIndex = v.maxIndex) := by
  unfold sameRange; simp

/-- concrete instances: `sapyb(2, y, -1)` on equal ranges, and an error when `y` is longer. -/
example : ((Vec.empty.resize? 0 1).bind fun w => (w.fill? 5).bind fun w =>
      (Vec.empty.resize? 0 1).bind fun y => (y.fill? 3).bind fun y =>
        (w.xapyb? w 2 y (-1)).bind fun o => o.bind (·.contents?)) = some [7, 7] := by decide
example : ((Vec.empty.resize? 0 1).bind fun w => (Vec.empty.resize? 0 2).bind fun y =>
      w.xapyb? w 2 y (-1)) = some none := by decide

/-- **equality reflects the contents**. -/
theorem C11_equality_reflects_contents (a b : Vec) (ha : Inv a) (hb : Inv b) :
    ∃ t, a.beq? b = some t ∧ (t = true ↔ ∀ i, a.abs i = b.abs i) :=
  beq_spec a b ha hb

/-! ### regression witnesses: the two defects of the pinned source (repaired by `fix:` commits)

`assignOld?` and `baseArithGuardOld` transcribe the code *before* the repairs.  The witnesses
below are the histories that the correspondence harness replays (corpus/C11). -/

/-- a `[0..9]` vector, shrunk on the left to `[5..9]` -/
def witnessShrunk : Option Vec := (Vec.empty.resize? 0 9).bind (·.resize? 5 9)
def witnessFull : Option Vec := Vec.empty.resize? 0 9

/-- F1: before the fix, `operator=` after a left-shrinking `resize` wrote 10 elements starting
at allocation+5 — outside the storage. -/
theorem C11_F1_assignOld_out_of_bounds :
    (witnessShrunk.bind fun v => witnessFull.bind fun il => v.assignOld? il) = none := by decide

/-- … and the repaired `operator=` is fine on the same history (instance of `C11_assign_equal_map`). -/
theorem C11_F1_assign_fixed_ok :
    (witnessShrunk.bind fun v => witnessFull.bind fun il => v.assign? il).isSome = true := by decide

/-- F2: before the fix, ranges differing at one end passed the `&&` guard and the loop ran
outside the shorter operand. -/
theorem C11_F2_baseAddOld_out_of_bounds :
    ((Vec.empty.resize? 0 2).bind fun w => (Vec.empty.resize? 0 5).bind fun v =>
        w.baseAddAssign? Vec.baseArithGuardOld v) = none := by decide

theorem C11_F2_baseAdd_fixed_reports_error :
    ((Vec.empty.resize? 0 2).bind fun w => (Vec.empty.resize? 0 5).bind fun v =>
        w.baseAddAssign? Vec.baseArithGuard v) = some none := by decide

/-- F1b: before the fix, assigning an empty vector left `start ≠ 0`, so two empty vectors
compared unequal. -/
theorem C11_F1b_assignOld_empty_unequal :
    ((Vec.empty.resize? 3 5).bind fun v => (v.assignOld? Vec.empty).bind fun r => r.beq? Vec.empty)
      = some false := by decide

theorem C11_F1b_assign_fixed_empty_equal :
    ((Vec.empty.resize? 3 5).bind fun v => (v.assign? Vec.empty).bind fun r => r.beq? Vec.empty)
      = some true := by decide

/-! ### N-dimensional arrays as nested index-range maps (model `RArr`, tied to `Array<2..4,int>` by the `nd …` lines of the
    correspondence run: the real array is serialised level by level and the real `at()` answers the same coordinate) -/

/-- "arrays behave as index-range maps … checked accesses outside the range are reported as errors": for every nesting depth,
    every shape (regular or not, empty rows included) and EVERY coordinate, `Array<n>::at(coordinate)` — the chain
    `at(c[1]).at(c[2])…` — returns the value the finite map holds at that coordinate, and throws exactly when the map has no
    such coordinate. -/
theorem C11_nd_checked_access_is_map (a : RArr) (cs : List Int) : a.at? cs = a.elems.lookup cs :=
  RArr.at?_eq_lookup a cs

/-- `size_all()` is the number of entries of the map, i.e. of the elements `begin_all()` … `end_all()` visits -/
theorem C11_nd_size_all (a : RArr) : a.elems.length = a.sizeAll := RArr.elems_length a

/-- the map is a function: no coordinate occurs twice among the elements `begin_all()` … `end_all()` visits, for every depth and
    shape — together with `C11_nd_checked_access_is_map`: the checked access returns THE element at that coordinate -/
theorem C11_nd_coordinates_unique (a : RArr) : (a.elems.map (·.1)).Nodup := RArr.elems_keys_nodup a

/-- non-vacuity: an irregular 2-D array (row 5 has indices -1..1, row 6 is empty, row 7 has index 3 only) -/
example : (RArr.node 5 [.leaf (-1) [10, 11, 12], .leaf 0 [], .leaf 3 [13]]).elems
    = [([5, -1], 10), ([5, 0], 11), ([5, 1], 12), ([7, 3], 13)] := by decide
example : (RArr.node 5 [.leaf (-1) [10, 11, 12], .leaf 0 [], .leaf 3 [13]]).at? [7, 3] = some 13 := by decide
example : (RArr.node 5 [.leaf (-1) [10, 11, 12], .leaf 0 [], .leaf 3 [13]]).at? [6, 0] = none := by decide
example : (RArr.node 5 [.leaf (-1) [10, 11, 12], .leaf 0 [], .leaf 3 [13]]).at? [5, 2] = none := by decide
example : (RArr.node 5 [.leaf (-1) [10, 11, 12], .leaf 0 [], .leaf 3 [13]]).at? [4, 0] = none := by decide

/-- a broken variant for comparison: an access that checks every level but the last (what an unchecked `operator[]` in the
    innermost `at` amounts to, with the index clamped into the allocation) answers outside the map -/
def RArr.atLastUnchecked? : RArr → List Int → Option Int
  | .leaf lo xs, [i] => xs[(i - lo).toNat]? <|> xs.getLast?
  | .node lo rows, i :: cs =>
    match listAt? lo rows i with
    | some (.leaf lo' xs) => RArr.atLastUnchecked? (.leaf lo' xs) cs
    | _ => none
  | _, _ => none

theorem C11_nd_last_level_unchecked_is_wrong :
    (RArr.node 5 [.leaf (-1) [10, 11, 12]]).atLastUnchecked? [5, 2] = some 12 ∧
    (RArr.node 5 [.leaf (-1) [10, 11, 12]]).elems.lookup [5, 2] = none := by decide

/-! ### row-major iteration of nested arrays (model of `FullArrayIterator`) -/

/-- an n-dimensional array as nested lists, flattened the way `begin_all()`…`end_all()` visits it -/
inductive NArr where
  | leaf (xs : List Int)
  | node (rows : List NArr)

mutual
def NArr.flatten : NArr → List Int
  | .leaf xs => xs
  | .node rows => NArr.flattenList rows
def NArr.flattenList : List NArr → List Int
  | [] => []
  | r :: rs => r.flatten ++ NArr.flattenList rs
end

mutual
def NArr.size : NArr → Nat
  | .leaf xs => xs.length
  | .node rows => NArr.sizeList rows
def NArr.sizeList : List NArr → Nat
  | [] => 0
  | r :: rs => r.size + NArr.sizeList rs
end

mutual
/-- full iteration visits exactly `size_all()` elements (each element once) -/
theorem NArr.length_flatten : ∀ a : NArr, a.flatten.length = a.size
  | .leaf xs => by simp [NArr.flatten, NArr.size]
  | .node rows => by simp [NArr.flatten, NArr.size, NArr.length_flattenList rows]
theorem NArr.length_flattenList : ∀ rs : List NArr, (NArr.flattenList rs).length = NArr.sizeList rs
  | [] => by simp [NArr.flattenList, NArr.sizeList]
  | r :: rs => by
    simp [NArr.flattenList, NArr.sizeList, NArr.length_flatten r, NArr.length_flattenList rs]
end

end StirVerif.C11
