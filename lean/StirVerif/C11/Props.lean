/-
C11 — "Arrays behave as index-range maps under any history and stay in bounds".

Property theorems for the 1-D core (`VectorWithOffset<int>` / `Array<1,int>` /
`NumericVectorWithOffset`), stated over the model of `Model.lean`; proofs of the
per-operation specifications are in `Proofs.lean`.  `v.abs : Int → Option Int` is the
index-range map a vector denotes; `Inv` is the storage invariant
(`begin_allocated ≤ num+start`, `num+start+length ≤ end_allocated`, empty ⇒ start = 0, num = begin).
An operation returning `none` in the model is an access outside the owned storage.
-/
import StirVerif.C11.Proofs

namespace StirVerif.C11
open Vec

/-- **Memory safety + invariant for every history.**  From registers that satisfy the
invariant (in particular from all-empty registers) every finite sequence of operations
(resize, grow, reserve, set_offset, assignment, fill, checked get/set, `+=` of numeric
vectors, base-class `+=`, recycle, `==`) runs without any access outside owned storage
and ends in registers that satisfy the invariant. -/
theorem C11_history_safe (ops : List Op) (rs : Regs) (h : RegsInv rs) (hwf : ∀ op ∈ ops, op.WF) :
    ∃ rs' outs, run rs ops = some (rs', outs) ∧ RegsInv rs' ∧ outs.length = ops.length :=
  run_safe ops rs h hwf

/-- non-vacuity: the start state of the harness (three empty vectors) satisfies the hypothesis -/
example : RegsInv [Vec.empty, Vec.empty, Vec.empty] := by
  intro v hv
  simp at hv
  subst hv
  exact inv_empty

/-- **resize / grow**: surviving elements keep their values, newly exposed elements are zero,
range is the requested one (empty if `max < min`). -/
theorem C11_resize_is_map_restriction (v : Vec) (mn mx : Int) (h : Inv v) :
    ∃ w, v.resize? mn mx = some w ∧ Inv w ∧
      ∀ i, w.abs i = if mn ≤ i ∧ i ≤ mx then some ((v.abs i).getD 0) else none := by
  obtain ⟨w, a, b, _, _, _, c⟩ := resize_spec v mn mx h
  exact ⟨w, a, b, c⟩

/-- **reserve** changes nothing observable. -/
theorem C11_reserve_invisible (v : Vec) (mn mx : Int) (h : Inv v) :
    ∃ w, v.reserve? mn mx = some w ∧ Inv w ∧ ∀ i, w.abs i = v.abs i := by
  obtain ⟨w, a, b, c, d, _, e, _⟩ := reserve_spec v mn mx h
  refine ⟨w, a, b, fun i => ?_⟩
  rw [abs_eq_getI, abs_eq_getI, c, d]
  by_cases q : v.start ≤ i ∧ i < v.start + ↑v.len
  · rw [if_pos q, if_pos q, e i q.1 q.2]
  · rw [if_neg q, if_neg q]

/-- **set_offset** shifts the index range and nothing else. -/
theorem C11_set_offset_shifts (v : Vec) (mn : Int) (h : Inv v) :
    Inv (v.setOffset mn) ∧ ∀ i, (v.setOffset mn).abs i = v.abs (i - mn + v.start) :=
  ⟨(setOffset_spec v mn h).1, (setOffset_spec v mn h).2.2.2.2⟩

/-- **assignment** yields an equal map, from *any* prior state of the target
(also after a shrinking `resize` that left `num+start` in the middle of the allocation). -/
theorem C11_assign_equal_map (v il : Vec) (hil : Inv il) :
    ∃ w, v.assign? il = some w ∧ Inv w ∧ ∀ i, w.abs i = il.abs i := by
  obtain ⟨w, a, b, _, _, _, c⟩ := assign_spec v il hil
  exact ⟨w, a, b, c⟩

/-- **fill**. -/
theorem C11_fill (v : Vec) (x : Int) (h : Inv v) :
    ∃ w, v.fill? x = some w ∧ Inv w ∧
      ∀ i, w.abs i = if (v.abs i).isSome then some x else none := by
  obtain ⟨w, a, b, _, _, _, c⟩ := fill_spec v x h
  refine ⟨w, a, b, fun i => ?_⟩
  rw [c i]
  by_cases q : v.start ≤ i ∧ i < v.start + ↑v.len
  · obtain ⟨y, hy⟩ := abs_isSome h q.1 q.2
    rw [if_pos q, hy]; rfl
  · rw [if_neg q, abs_eq_getI, if_neg q]; rfl

/-- **checked access**: `at(i)` returns the map's value, or reports an error exactly outside the range. -/
theorem C11_checked_get (v : Vec) (i : Int) (h : Inv v) : v.getAt? i = some (v.abs i) :=
  getAt_spec v i h

theorem C11_checked_set (v : Vec) (i x : Int) (h : Inv v) :
    ((v.abs i).isNone → v.setAt? i x = some none) ∧
    ((v.abs i).isSome → ∃ w, v.setAt? i x = some (some w) ∧ Inv w ∧
        ∀ j, w.abs j = if j = i then some x else v.abs j) := by
  obtain ⟨h1, h2⟩ := setAt_spec v i x h
  constructor
  · intro hn
    apply h1
    intro q
    obtain ⟨y, hy⟩ := abs_isSome h q.1 q.2
    rw [hy] at hn; exact absurd hn (by simp)
  · intro hs
    have q : v.start ≤ i ∧ i < v.start + ↑v.len := by
      by_cases q : v.start ≤ i ∧ i < v.start + ↑v.len
      · exact q
      · rw [abs_eq_getI, if_neg q] at hs; exact absurd hs (by simp)
    obtain ⟨w, a, b, _, _, _, c⟩ := h2 q
    exact ⟨w, a, b, c⟩

/-- **numeric `+=`** grows to the union of the ranges, new cells count as zero. -/
theorem C11_numeric_add (w v : Vec) (hw : Inv w) (hv : Inv v) (hne : w.len > 0) :
    ∃ r, w.addAssign? v = some r ∧ Inv r ∧ ∀ i, r.abs i =
        if min w.minIndex v.minIndex ≤ i ∧ i ≤ max w.maxIndex v.maxIndex then
          some ((w.abs i).getD 0 + (v.abs i).getD 0) else none := by
  obtain ⟨r, a, b, _, c⟩ := addAssign_spec w v hw hv
  exact ⟨r, a, b, c hne⟩

/-- **base-class arithmetic**: operands with different index ranges are reported as an error
and nothing is touched; equal ranges are combined elementwise in bounds. -/
theorem C11_arith_range_errors (w v : Vec) (hw : Inv w) (hv : Inv v)
    (hne : ¬ (w.minIndex = v.minIndex ∧ w.maxIndex = v.maxIndex)) :
    w.baseAddAssign? Vec.baseArithGuard v = some none :=
  (baseAdd_spec w v hw hv).2 hne

/-- **equality reflects the contents**. -/
theorem C11_equality_reflects_contents (a b : Vec) (ha : Inv a) (hb : Inv b) :
    ∃ t, a.beq? b = some t ∧ (t = true ↔ ∀ i, a.abs i = b.abs i) :=
  beq_spec a b ha hb

/-! ### regression witnesses: the two defects of the pinned source (repaired by `fix:` commits)

`assignOld?` and `baseArithGuardOld` transcribe the code *before* the repairs.  The witnesses
below are the histories that the correspondence harness replays (corpus/C11). -/

/-- a `[0..9]` vector, shrunk on the left to `[5..9]` -/
def witnessShrunk : Option Vec := (Vec.empty.resize? 0 9).bind (·.resize? 5 9)
def witnessFull : Option Vec := Vec.empty.resize? 0 9

/-- F1: before the fix, `operator=` after a left-shrinking `resize` wrote 10 elements starting
at allocation+5 — outside the storage. -/
theorem C11_F1_assignOld_out_of_bounds :
    (witnessShrunk.bind fun v => witnessFull.bind fun il => v.assignOld? il) = none := by decide

/-- … and the repaired `operator=` is fine on the same history (instance of `C11_assign_equal_map`). -/
theorem C11_F1_assign_fixed_ok :
    (witnessShrunk.bind fun v => witnessFull.bind fun il => v.assign? il).isSome = true := by decide

/-- F2: before the fix, ranges differing at one end passed the `&&` guard and the loop ran
outside the shorter operand. -/
theorem C11_F2_baseAddOld_out_of_bounds :
    ((Vec.empty.resize? 0 2).bind fun w => (Vec.empty.resize? 0 5).bind fun v =>
        w.baseAddAssign? Vec.baseArithGuardOld v) = none := by decide

theorem C11_F2_baseAdd_fixed_reports_error :
    ((Vec.empty.resize? 0 2).bind fun w => (Vec.empty.resize? 0 5).bind fun v =>
        w.baseAddAssign? Vec.baseArithGuard v) = some none := by decide

/-- F1b: before the fix, assigning an empty vector left `start ≠ 0`, so two empty vectors
compared unequal. -/
theorem C11_F1b_assignOld_empty_unequal :
    ((Vec.empty.resize? 3 5).bind fun v => (v.assignOld? Vec.empty).bind fun r => r.beq? Vec.empty)
      = some false := by decide

theorem C11_F1b_assign_fixed_empty_equal :
    ((Vec.empty.resize? 3 5).bind fun v => (v.assign? Vec.empty).bind fun r => r.beq? Vec.empty)
      = some true := by decide

/-! ### row-major iteration of nested arrays (model of `FullArrayIterator`) -/

/-- an n-dimensional array as nested lists, flattened the way `begin_all()`…`end_all()` visits it -/
inductive NArr where
  | leaf (xs : List Int)
  | node (rows : List NArr)

mutual
def NArr.flatten : NArr → List Int
  | .leaf xs => xs
  | .node rows => NArr.flattenList rows
def NArr.flattenList : List NArr → List Int
  | [] => []
  | r :: rs => r.flatten ++ NArr.flattenList rs
end

mutual
def NArr.size : NArr → Nat
  | .leaf xs => xs.length
  | .node rows => NArr.sizeList rows
def NArr.sizeList : List NArr → Nat
  | [] => 0
  | r :: rs => r.size + NArr.sizeList rs
end

mutual
/-- full iteration visits exactly `size_all()` elements (each element once) -/
theorem NArr.length_flatten : ∀ a : NArr, a.flatten.length = a.size
  | .leaf xs => by simp [NArr.flatten, NArr.size]
  | .node rows => by simp [NArr.flatten, NArr.size, NArr.length_flattenList rows]
theorem NArr.length_flattenList : ∀ rs : List NArr, (NArr.flattenList rs).length = NArr.sizeList rs
  | [] => by simp [NArr.flattenList, NArr.sizeList]
  | r :: rs => by
    simp [NArr.flattenList, NArr.sizeList, NArr.length_flatten r, NArr.length_flattenList rs]
end

end StirVerif.C11
