import StirVerif.C11.Proofs
/-!
C11 — specifications of the arithmetic operations other than `+=`:
scalar loops, `-= *= /=` of `NumericVectorWithOffset` (growing), the range-checked
base-class operators, the binary operators of `Array<1>` and `xapyb` / `sapyb`.
-/
namespace StirVerif.C11
open Vec

theorem getI_map (f : Int → Int) (cs : List Int) (k : Int) :
    getI (cs.map f) k = (getI cs k).map f := by
  unfold getI
  by_cases hk : 0 ≤ k
  · simp [hk]
  · simp [hk]

theorem abs_none_of_len_zero {v : Vec} (h : v.len = 0) (i : Int) : v.abs i = none := by
  rw [abs_eq_getI, if_neg (by omega)]

/-- the scalar loops act pointwise on the map and touch nothing else -/
theorem mapInPlace_spec (f : Int → Int) (v : Vec) (h : Inv v) :
    ∃ r, mapInPlace? f v = some r ∧ Inv r ∧ r.start = v.start ∧ r.len = v.len ∧ r.cap = v.cap ∧
      ∀ i, r.abs i = (v.abs i).map f := by
  unfold mapInPlace?
  by_cases hz : v.len = 0
  · rw [if_pos hz]
    refine ⟨v, rfl, h, rfl, rfl, rfl, fun i => ?_⟩
    rw [abs_none_of_len_zero hz]; rfl
  · rw [if_neg hz]
    obtain ⟨cs, hcs⟩ := contents?_isSome h
    have hcsl := (readAt?_eq_some hcs).2.2
    obtain ⟨h0, h1, h2⟩ := h
    unfold Vec.cap at h1
    obtain ⟨m, hm⟩ := writeAt?_isSome (mem := v.mem) (pos := v.off) (xs := cs.map f) h0
      (by simp [hcsl]; omega)
    have hml := length_writeAt hm
    refine ⟨{ v with mem := m }, by simp [hcs, hm], ⟨?_, ?_, h2⟩, rfl, rfl, by simp [Vec.cap, hml], ?_⟩
    · simpa [Vec.off] using h0
    · simp [Vec.off, Vec.cap, hml]; unfold Vec.off at h1; omega
    · intro i
      rw [abs_eq_getI, abs_eq_getI]
      simp only
      by_cases a : v.start ≤ i ∧ i < v.start + ↑v.len
      · rw [if_pos a, if_pos a, getI_writeAt hm]
        simp only [List.length_map, hcsl]
        unfold Vec.off
        have : v.numOff + v.start ≤ v.numOff + i ∧ v.numOff + i < v.numOff + v.start + ↑v.len := by omega
        rw [if_pos this, getI_map, getI_contents hcs]
        have : 0 ≤ v.numOff + i - (v.numOff + v.start) ∧ v.numOff + i - (v.numOff + v.start) < ↑v.len := by omega
        rw [if_pos this]
        congr 2
        unfold Vec.off; omega
      · rw [if_neg a, if_neg a]; rfl

/-- what `w op= v` of a numeric vector denotes on index-range maps:
* empty `w`: the copy of `v`, scaled (`+=`: as is, `-=`: negated, `*=` and `/=`: zero);
* otherwise the union of the two ranges; inside `v`'s range `f(w_i or 0, v_i)`, outside it `w_i or 0`. -/
def arithSpec (a : Arith) (w v : Vec) (i : Int) : Option Int :=
  if w.len = 0 then
    (v.abs i).map fun x => match a.emptyScale with
      | none => x
      | some c => x * c
  else if min w.minIndex v.minIndex ≤ i ∧ i ≤ max w.maxIndex v.maxIndex then
    some (match v.abs i with
      | some b => a.fn ((w.abs i).getD 0) b
      | none => (w.abs i).getD 0)
  else none

theorem numAssign_spec (a : Arith) (w v : Vec) (hw : Inv w) (hv : Inv v) :
    ∃ r, numAssign? a w v = some r ∧ Inv r ∧ ∀ i, r.abs i = arithSpec a w v i := by
  unfold numAssign? arithSpec
  by_cases hz : w.len = 0
  · simp only [if_pos hz]
    obtain ⟨r, hr, hrI, _, _, _, hra⟩ := assign_spec w v hv
    cases hs : a.emptyScale with
    | none =>
      refine ⟨r, by simp [hr], hrI, fun i => ?_⟩
      rw [hra i]
      cases v.abs i <;> rfl
    | some c =>
      obtain ⟨r2, hr2, hr2I, _, _, _, hr2a⟩ := mapInPlace_spec (fun x => x * c) r hrI
      refine ⟨r2, by simp [hr, hr2], hr2I, fun i => ?_⟩
      rw [hr2a i, hra i]
  · simp only [if_neg hz]
    generalize hlo : min w.minIndex v.minIndex = lo
    generalize hhi : max w.maxIndex v.maxIndex = hi
    have hlohi : lo ≤ hi := by
      subst hlo; subst hhi; unfold Vec.minIndex Vec.maxIndex; omega
    obtain ⟨g, hg, hgI, _, _, hgr, hga⟩ := resize_spec w lo hi hw
    obtain ⟨gs, gl⟩ := hgr hlohi
    have hsub : v.len > 0 → g.start ≤ v.start ∧ v.start + v.len ≤ g.start + g.len := by
      intro _
      subst hlo; subst hhi; unfold Vec.minIndex Vec.maxIndex at *; omega
    obtain ⟨r, hr, hrI, _, _, _, hra⟩ := zipInto_spec a.fn g v hgI hv hsub
    refine ⟨r, by simp [grow?, hg, hr], hrI, fun i => ?_⟩
    rw [hra i]
    by_cases c : v.start ≤ i ∧ i < v.start + ↑v.len
    · have b : lo ≤ i ∧ i ≤ hi := by
        subst hlo; subst hhi; unfold Vec.minIndex Vec.maxIndex at *; omega
      rw [if_pos c, if_pos b, hga i, if_pos b]
      obtain ⟨x, hx⟩ := abs_isSome hv c.1 c.2
      rw [hx]
    · rw [if_neg c, hga i]
      by_cases b : lo ≤ i ∧ i ≤ hi
      · rw [if_pos b, if_pos b]
        have : v.abs i = none := by rw [abs_eq_getI, if_neg c]
        rw [this]
      · rw [if_neg b, if_neg b]

/-- `+=` is the `add` instance of the general operator -/
theorem numAssign_add (w v : Vec) : numAssign? .add w v = w.addAssign? v := by
  unfold numAssign? addAssign?
  by_cases hz : w.len = 0
  · simp only [if_pos hz, Arith.emptyScale]
    cases w.assign? v <;> rfl
  · simp only [if_neg hz]; rfl

/-- base class operators with the guard of the current source: equal ranges are processed in
    bounds, anything else is reported as an error -/
theorem baseArith_spec (a : Arith) (w v : Vec) (hw : Inv w) (hv : Inv v) :
    ((w.start = v.start ∧ w.len = v.len) →
      ∃ r, w.baseArith? a Vec.baseArithGuard v = some (some r) ∧ Inv r ∧
        r.start = w.start ∧ r.len = w.len ∧
        ∀ i, r.abs i = if w.start ≤ i ∧ i < w.start + w.len then
            some (a.fn ((w.abs i).getD 0) ((v.abs i).getD 0)) else none) ∧
    (¬ (w.minIndex = v.minIndex ∧ w.maxIndex = v.maxIndex) →
      w.baseArith? a Vec.baseArithGuard v = some none) := by
  constructor
  · intro ⟨es, el⟩
    have hg : Vec.baseArithGuard w v = true := by
      simp [Vec.baseArithGuard, Vec.minIndex, Vec.maxIndex, es, el]
    obtain ⟨r, hr, hrI, hrs, hrl, _, hra⟩ := zipInto_spec a.fn w v hw hv (by intro _; omega)
    refine ⟨r, by simp [baseArith?, hg, hr], hrI, hrs, hrl, ?_⟩
    intro i
    rw [hra i]
    by_cases c : v.start ≤ i ∧ i < v.start + ↑v.len
    · have b : w.start ≤ i ∧ i < w.start + ↑w.len := by omega
      rw [if_pos c, if_pos b]
      obtain ⟨x, hx⟩ := abs_isSome hv c.1 c.2
      obtain ⟨y, hy⟩ := abs_isSome hw b.1 b.2
      rw [hx, hy]; rfl
    · have b : ¬ (w.start ≤ i ∧ i < w.start + ↑w.len) := by omega
      rw [if_neg c, if_neg b, abs_eq_getI, if_neg b]
  · intro hne
    have hg : Vec.baseArithGuard w v = false := by
      simp only [Vec.baseArithGuard, Bool.not_eq_false', Bool.or_eq_true, bne_iff_ne, ne_eq]
      by_cases c : w.minIndex = v.minIndex
      · right; intro b; exact hne ⟨c, b⟩
      · left; exact c
    simp [baseArith?, hg]

/-- the copy constructor yields an equal map in storage of its own -/
theorem copyOf_spec (v : Vec) (hv : Inv v) :
    ∃ r, copyOf? v = some r ∧ Inv r ∧ r.start = v.start ∧ r.len = v.len ∧ ∀ i, r.abs i = v.abs i := by
  obtain ⟨r, a, b, c, d, _, e⟩ := assign_spec Vec.empty v hv
  exact ⟨r, a, b, c, d, e⟩

theorem arithSpec_congr (a : Arith) {t x : Vec} (y : Vec) (hs : t.start = x.start) (hl : t.len = x.len)
    (ha : ∀ i, t.abs i = x.abs i) (i : Int) : arithSpec a t y i = arithSpec a x y i := by
  unfold arithSpec Vec.minIndex Vec.maxIndex
  rw [hs, hl, ha i]

/-- `d = x op y`: the result denotes `arithSpec a x y`, whatever `d` was before -/
theorem binArith_spec (a : Arith) (d x y : Vec) (hx : Inv x) (hy : Inv y) :
    ∃ r, binArith? a d x y = some r ∧ Inv r ∧ ∀ i, r.abs i = arithSpec a x y i := by
  obtain ⟨t, ht, htI, hts, htl, hta⟩ := copyOf_spec x hx
  obtain ⟨t2, ht2, ht2I, ht2a⟩ := numAssign_spec a t y htI hy
  obtain ⟨t3, ht3, ht3I, _, _, ht3a⟩ := copyOf_spec t2 ht2I
  obtain ⟨r, hr, hrI, _, _, _, hra⟩ := assign_spec d t3 ht3I
  refine ⟨r, by simp [binArith?, ht, ht2, ht3, hr], hrI, fun i => ?_⟩
  rw [hra i, ht3a i, ht2a i, arithSpec_congr a y hts htl hta i]

/-- `d = x op c` -/
theorem binScalar_spec (f : Int → Int) (d x : Vec) (hx : Inv x) :
    ∃ r, binScalar? f d x = some r ∧ Inv r ∧ ∀ i, r.abs i = (x.abs i).map f := by
  obtain ⟨t, ht, htI, _, _, hta⟩ := copyOf_spec x hx
  obtain ⟨t2, ht2, ht2I, _, _, _, ht2a⟩ := mapInPlace_spec f t htI
  obtain ⟨t3, ht3, ht3I, _, _, ht3a⟩ := copyOf_spec t2 ht2I
  obtain ⟨r, hr, hrI, _, _, _, hra⟩ := assign_spec d t3 ht3I
  refine ⟨r, by simp [binScalar?, ht, ht2, ht3, hr], hrI, fun i => ?_⟩
  rw [hra i, ht3a i, ht2a i, hta i]

theorem sameRange_iff (w v : Vec) : sameRange w v = true ↔ (w.start = v.start ∧ w.len = v.len) := by
  unfold sameRange Vec.minIndex Vec.maxIndex
  simp only [Bool.and_eq_true, beq_iff_eq]
  omega

/-- reading `n` cells from `begin()` of a vector with `n = len` -/
theorem read_begin {x : Vec} (hx : Inv x) {n : Nat} (hn : n = x.len) :
    ∃ xs, readAt? x.mem x.off n = some xs ∧ xs.length = n ∧
      ∀ k : Int, 0 ≤ k → k < n → getI xs k = x.abs (x.start + k) := by
  obtain ⟨h0, h1, _⟩ := hx
  unfold Vec.cap at h1
  obtain ⟨xs, hxs⟩ := readAt?_isSome (mem := x.mem) (pos := x.off) (n := n) h0 (by omega)
  refine ⟨xs, hxs, (readAt?_eq_some hxs).2.2, fun k k0 k1 => ?_⟩
  rw [getI_readAt hxs, if_pos ⟨k0, k1⟩, abs_eq_getI, if_pos (by omega)]
  congr 1
  unfold Vec.off; omega

/-- `xapyb` with scalar factors: all ranges equal ⇒ computed in bounds; otherwise an error and nothing touched -/
theorem xapyb_spec (w x : Vec) (a : Int) (y : Vec) (b : Int) (hw : Inv w) (hx : Inv x) (hy : Inv y) :
    ((sameRange w x = true ∧ sameRange w y = true) →
      ∃ r, w.xapyb? x a y b = some (some r) ∧ Inv r ∧ r.start = w.start ∧ r.len = w.len ∧
        ∀ i, r.abs i = if w.start ≤ i ∧ i < w.start + w.len then
            some ((x.abs i).getD 0 * a + (y.abs i).getD 0 * b) else none) ∧
    (¬ (sameRange w x = true ∧ sameRange w y = true) → w.xapyb? x a y b = some none) := by
  constructor
  · intro ⟨sx, sy⟩
    have ex := (sameRange_iff w x).mp sx
    have ey := (sameRange_iff w y).mp sy
    unfold xapyb?
    simp only [sx, sy, Bool.and_self, Bool.not_true, Bool.false_eq_true, if_false]
    by_cases hz : w.len = 0
    · rw [if_pos hz]
      refine ⟨w, rfl, hw, rfl, rfl, fun i => ?_⟩
      rw [abs_none_of_len_zero hz, if_neg (by omega)]
    · rw [if_neg hz]
      obtain ⟨xs, hxs, hxl, hxg⟩ := read_begin hx (n := w.len) ex.2
      obtain ⟨ys, hys, hyl, hyg⟩ := read_begin hy (n := w.len) ey.2
      have hwI := hw
      obtain ⟨h0, h1, h2⟩ := hw
      unfold Vec.cap at h1
      obtain ⟨m, hm⟩ := writeAt?_isSome (mem := w.mem) (pos := w.off)
        (xs := List.zipWith (fun p q => p * a + q * b) xs ys) h0 (by simp [hxl, hyl]; omega)
      have hml := length_writeAt hm
      refine ⟨{ w with mem := m }, by simp [hxs, hys, hm], ⟨?_, ?_, h2⟩, rfl, rfl, ?_⟩
      · simpa [Vec.off] using h0
      · simp [Vec.off, Vec.cap, hml]; unfold Vec.off at h1; omega
      · intro i
        rw [abs_eq_getI]
        simp only
        by_cases c : w.start ≤ i ∧ i < w.start + ↑w.len
        · rw [if_pos c, if_pos c, getI_writeAt hm]
          have hlen : (List.zipWith (fun p q => p * a + q * b) xs ys).length = w.len := by
            simp [hxl, hyl]
          rw [hlen]
          have : w.off ≤ w.numOff + i ∧ w.numOff + i < w.off + ↑w.len := by unfold Vec.off; omega
          rw [if_pos this, getI_zipWith]
          have k0 : 0 ≤ w.numOff + i - w.off := by unfold Vec.off; omega
          have k1 : w.numOff + i - w.off < (w.len : Int) := by unfold Vec.off; omega
          rw [hxg _ k0 k1, hyg _ k0 k1]
          have e1 : x.start + (w.numOff + i - w.off) = i := by unfold Vec.off; omega
          have e2 : y.start + (w.numOff + i - w.off) = i := by unfold Vec.off; omega
          rw [e1, e2]
          obtain ⟨p, hp⟩ := abs_isSome hx (i := i) (by omega) (by omega)
          obtain ⟨q, hq⟩ := abs_isSome hy (i := i) (by omega) (by omega)
          rw [hp, hq]; rfl
        · rw [if_neg c, if_neg c]
  · intro hne
    unfold xapyb?
    have : (!(sameRange w x && sameRange w y)) = true := by
      simp only [Bool.not_eq_true', Bool.and_eq_false_iff]
      by_cases c : sameRange w x = true
      · right
        cases hh : sameRange w y with
        | false => rfl
        | true => exact absurd ⟨c, hh⟩ hne
      · left; simpa using c
    rw [if_pos this]

/-- `xapyb` with vector factors -/
theorem xapybVec_spec (w x a y b : Vec) (hw : Inv w) (hx : Inv x) (ha : Inv a) (hy : Inv y) (hb : Inv b) :
    ((sameRange w x = true ∧ sameRange w y = true ∧ sameRange w a = true ∧ sameRange w b = true) →
      ∃ r, w.xapybVec? x a y b = some (some r) ∧ Inv r ∧ r.start = w.start ∧ r.len = w.len ∧
        ∀ i, r.abs i = if w.start ≤ i ∧ i < w.start + w.len then
            some ((x.abs i).getD 0 * (a.abs i).getD 0 + (y.abs i).getD 0 * (b.abs i).getD 0) else none) ∧
    (¬ (sameRange w x = true ∧ sameRange w y = true ∧ sameRange w a = true ∧ sameRange w b = true) →
      w.xapybVec? x a y b = some none) := by
  constructor
  · intro ⟨sx, sy, sa, sb⟩
    have ex := (sameRange_iff w x).mp sx
    have ey := (sameRange_iff w y).mp sy
    have ea := (sameRange_iff w a).mp sa
    have eb := (sameRange_iff w b).mp sb
    unfold xapybVec?
    simp only [sx, sy, sa, sb, Bool.and_self, Bool.not_true, Bool.false_eq_true, if_false]
    by_cases hz : w.len = 0
    · rw [if_pos hz]
      refine ⟨w, rfl, hw, rfl, rfl, fun i => ?_⟩
      rw [abs_none_of_len_zero hz, if_neg (by omega)]
    · rw [if_neg hz]
      obtain ⟨xs, hxs, hxl, hxg⟩ := read_begin hx (n := w.len) ex.2
      obtain ⟨ys, hys, hyl, hyg⟩ := read_begin hy (n := w.len) ey.2
      obtain ⟨as, has, hal, hag⟩ := read_begin ha (n := w.len) ea.2
      obtain ⟨bs, hbs, hbl, hbg⟩ := read_begin hb (n := w.len) eb.2
      have hwI := hw
      obtain ⟨h0, h1, h2⟩ := hw
      unfold Vec.cap at h1
      have hlen : (List.zipWith (fun p q => p + q) (List.zipWith (fun p q => p * q) xs as)
          (List.zipWith (fun p q => p * q) ys bs)).length = w.len := by
        simp [hxl, hyl, hal, hbl]
      obtain ⟨m, hm⟩ := writeAt?_isSome (mem := w.mem) (pos := w.off)
        (xs := List.zipWith (fun p q => p + q) (List.zipWith (fun p q => p * q) xs as)
          (List.zipWith (fun p q => p * q) ys bs)) h0 (by rw [hlen]; omega)
      have hml := length_writeAt hm
      refine ⟨{ w with mem := m }, by simp [hxs, hys, has, hbs, hm], ⟨?_, ?_, h2⟩, rfl, rfl, ?_⟩
      · simpa [Vec.off] using h0
      · simp [Vec.off, Vec.cap, hml]; unfold Vec.off at h1; omega
      · intro i
        rw [abs_eq_getI]
        simp only
        by_cases c : w.start ≤ i ∧ i < w.start + ↑w.len
        · rw [if_pos c, if_pos c, getI_writeAt hm, hlen]
          have : w.off ≤ w.numOff + i ∧ w.numOff + i < w.off + ↑w.len := by unfold Vec.off; omega
          rw [if_pos this, getI_zipWith, getI_zipWith, getI_zipWith]
          have k0 : 0 ≤ w.numOff + i - w.off := by unfold Vec.off; omega
          have k1 : w.numOff + i - w.off < (w.len : Int) := by unfold Vec.off; omega
          rw [hxg _ k0 k1, hyg _ k0 k1, hag _ k0 k1, hbg _ k0 k1]
          have e1 : x.start + (w.numOff + i - w.off) = i := by unfold Vec.off; omega
          have e2 : y.start + (w.numOff + i - w.off) = i := by unfold Vec.off; omega
          have e3 : a.start + (w.numOff + i - w.off) = i := by unfold Vec.off; omega
          have e4 : b.start + (w.numOff + i - w.off) = i := by unfold Vec.off; omega
          rw [e1, e2, e3, e4]
          obtain ⟨p, hp⟩ := abs_isSome hx (i := i) (by omega) (by omega)
          obtain ⟨q, hq⟩ := abs_isSome hy (i := i) (by omega) (by omega)
          obtain ⟨p', hp'⟩ := abs_isSome ha (i := i) (by omega) (by omega)
          obtain ⟨q', hq'⟩ := abs_isSome hb (i := i) (by omega) (by omega)
          rw [hp, hq, hp', hq']; rfl
        · rw [if_neg c, if_neg c]
  · intro hne
    unfold xapybVec?
    have : (!(sameRange w x && sameRange w y && sameRange w a && sameRange w b)) = true := by
      cases h1 : sameRange w x <;> cases h2 : sameRange w y <;> cases h3 : sameRange w a <;>
        cases h4 : sameRange w b <;> simp_all
    rw [if_pos this]

end StirVerif.C11
