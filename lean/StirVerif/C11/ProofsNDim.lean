/-
C11 — N-dimensional arrays: the checked access is the look-up in the index-range map, for every nesting depth, every
(irregular) shape and every coordinate.
-/
import StirVerif.C11.NDim

namespace StirVerif.C11

theorem leafElems_lookup_single (xs : List Int) : ∀ (lo i : Int),
    (leafElems lo xs).lookup [i] = listAt? lo xs i := by
  induction xs with
  | nil => intro lo i; simp [leafElems, listAt?]
  | cons x xs ih =>
    intro lo i
    simp only [leafElems, List.lookup_cons]
    by_cases h : i = lo
    · subst h
      simp [listAt?]
    · have hb : ([i] == [lo]) = false := by simpa using h
      rw [hb, ih (lo + 1) i]
      unfold listAt?
      by_cases h1 : lo + 1 ≤ i
      · have h2 : lo ≤ i := by omega
        have h3 : (i - lo).toNat = (i - (lo + 1)).toNat + 1 := by omega
        simp [h1, h2, h3]
      · have h2 : ¬ lo ≤ i := by omega
        simp [h1, h2]

theorem leafElems_lookup_other (xs : List Int) : ∀ (lo : Int) (cs : List Int), cs.length ≠ 1 →
    (leafElems lo xs).lookup cs = none := by
  induction xs with
  | nil => intro lo cs _; simp [leafElems]
  | cons x xs ih =>
    intro lo cs h
    simp only [leafElems, List.lookup_cons]
    have hb : (cs == [lo]) = false := by
      cases cs with
      | nil => rfl
      | cons c cs' =>
        cases cs' with
        | nil => simp at h
        | cons _ _ => simp
    rw [hb]
    exact ih (lo + 1) cs h

theorem lookup_map_cons (lo : Int) (es : List (List Int × Int)) (i : Int) (cs : List Int) :
    (es.map fun e => (lo :: e.1, e.2)).lookup (i :: cs) = if i = lo then es.lookup cs else none := by
  induction es with
  | nil => simp
  | cons e es ih =>
    obtain ⟨k, v⟩ := e
    simp only [List.map_cons, List.lookup_cons, ih]
    by_cases h : i = lo
    · subst h
      by_cases hc : cs = k
      · simp [hc]
      · have h1 : (i :: cs == i :: k) = false := by simp [hc]
        have h2 : (cs == k) = false := by simp [hc]
        simp [h1, h2]
    · have h1 : (i :: cs == lo :: k) = false := by simp [h]
      simp [h1, h]

theorem lookup_map_cons_nil (lo : Int) (es : List (List Int × Int)) :
    (es.map fun e => (lo :: e.1, e.2)).lookup [] = none := by
  induction es with
  | nil => simp
  | cons e es ih =>
    obtain ⟨k, v⟩ := e
    simp only [List.map_cons, List.lookup_cons, ih]
    rfl

theorem lookup_append' (l1 l2 : List (List Int × Int)) (k : List Int) :
    (l1 ++ l2).lookup k = match l1.lookup k with | some v => some v | none => l2.lookup k := by
  induction l1 with
  | nil => simp
  | cons e l1 ih =>
    obtain ⟨k', v⟩ := e
    simp only [List.cons_append, List.lookup_cons, ih]
    cases (k == k') <;> rfl

mutual
theorem RArr.at?_eq_lookup : ∀ (a : RArr) (cs : List Int), a.at? cs = a.elems.lookup cs
  | .leaf lo xs, cs => by
    cases cs with
    | nil => simp [RArr.at?, RArr.elems, leafElems_lookup_other]
    | cons i cs' =>
      cases cs' with
      | nil => simp [RArr.at?, RArr.elems, leafElems_lookup_single]
      | cons j cs'' => simp [RArr.at?, RArr.elems, leafElems_lookup_other]
  | .node lo rows, cs => by
    cases cs with
    | nil => simp [RArr.at?, RArr.elems, RArr.elemsRows_lookup_nil lo rows]
    | cons i cs' => simp [RArr.at?, RArr.elems, RArr.elemsRows_lookup rows lo i cs']
theorem RArr.elemsRows_lookup_nil : ∀ (lo : Int) (rows : List RArr), (RArr.elemsRows lo rows).lookup [] = none
  | _, [] => by simp [RArr.elemsRows]
  | lo, r :: rs => by
    simp [RArr.elemsRows, lookup_append', lookup_map_cons_nil, RArr.elemsRows_lookup_nil (lo + 1) rs]
theorem RArr.elemsRows_lookup : ∀ (rows : List RArr) (lo i : Int) (cs : List Int),
    (RArr.elemsRows lo rows).lookup (i :: cs) = if lo ≤ i then RArr.atRows? rows (i - lo).toNat cs else none
  | [], lo, i, cs => by simp [RArr.elemsRows, RArr.atRows?]
  | r :: rs, lo, i, cs => by
    simp only [RArr.elemsRows, lookup_append', lookup_map_cons]
    rw [RArr.elemsRows_lookup rs (lo + 1) i cs]
    by_cases h : i = lo
    · subst h
      have h1 : ¬ (i + 1 ≤ i) := by omega
      simp only [if_true, h1, if_false, Int.le_refl, Int.sub_self, Int.toNat_zero, RArr.atRows?]
      rw [← RArr.at?_eq_lookup r cs]
      cases r.at? cs <;> rfl
    · simp only [h, if_false]
      by_cases h1 : lo + 1 ≤ i
      · have h2 : lo ≤ i := by omega
        have h3 : (i - lo).toNat = (i - (lo + 1)).toNat + 1 := by omega
        simp [h1, h2, h3, RArr.atRows?]
      · have h2 : ¬ lo ≤ i := by omega
        simp [h1, h2]
end

theorem leafElems_length (xs : List Int) : ∀ lo, (leafElems lo xs).length = xs.length := by
  induction xs with
  | nil => intro lo; rfl
  | cons x xs ih => intro lo; simp [leafElems, ih]

mutual
theorem RArr.elems_length : ∀ a : RArr, a.elems.length = a.sizeAll
  | .leaf lo xs => by simp [RArr.elems, RArr.sizeAll, leafElems_length]
  | .node lo rows => by simp [RArr.elems, RArr.sizeAll, RArr.elemsRows_length lo rows]
theorem RArr.elemsRows_length : ∀ (lo : Int) (rows : List RArr), (RArr.elemsRows lo rows).length = RArr.sizeAllRows rows
  | _, [] => by simp [RArr.elemsRows, RArr.sizeAllRows]
  | lo, r :: rs => by
    simp [RArr.elemsRows, RArr.sizeAllRows, RArr.elems_length r, RArr.elemsRows_length (lo + 1) rs]
end

/-! every coordinate occurs once in the map: full iteration visits no element twice -/

theorem leafElems_key (xs : List Int) : ∀ lo, ∀ e ∈ leafElems lo xs, ∃ i, e.1 = [i] ∧ lo ≤ i := by
  induction xs with
  | nil => intro lo e he; simp [leafElems] at he
  | cons x xs ih =>
    intro lo e he
    simp only [leafElems, List.mem_cons] at he
    rcases he with rfl | he
    · exact ⟨lo, rfl, Int.le_refl _⟩
    · obtain ⟨i, h1, h2⟩ := ih (lo + 1) e he
      exact ⟨i, h1, by omega⟩

theorem leafElems_keys_nodup (xs : List Int) : ∀ lo, ((leafElems lo xs).map (·.1)).Nodup := by
  induction xs with
  | nil => intro lo; simp [leafElems]
  | cons x xs ih =>
    intro lo
    simp only [leafElems, List.map_cons, List.nodup_cons]
    refine ⟨?_, ih (lo + 1)⟩
    intro hm
    obtain ⟨e, he, hk⟩ := List.mem_map.1 hm
    obtain ⟨i, h1, h2⟩ := leafElems_key xs (lo + 1) e he
    rw [h1] at hk
    have : i = lo := by simpa using hk
    omega

mutual
theorem RArr.elemsRows_key : ∀ (rows : List RArr) (lo : Int), ∀ e ∈ RArr.elemsRows lo rows, ∃ i cs, e.1 = i :: cs ∧ lo ≤ i
  | [], lo => by intro e he; simp [RArr.elemsRows] at he
  | r :: rs, lo => by
    intro e he
    simp only [RArr.elemsRows, List.mem_append, List.mem_map] at he
    rcases he with ⟨e', _, rfl⟩ | he
    · exact ⟨lo, e'.1, rfl, Int.le_refl _⟩
    · obtain ⟨i, cs, h1, h2⟩ := RArr.elemsRows_key rs (lo + 1) e he
      exact ⟨i, cs, h1, by omega⟩
end

mutual
theorem RArr.elems_keys_nodup : ∀ a : RArr, (a.elems.map (·.1)).Nodup
  | .leaf lo xs => by simpa [RArr.elems] using leafElems_keys_nodup xs lo
  | .node lo rows => by simpa [RArr.elems] using RArr.elemsRows_keys_nodup rows lo
theorem RArr.elemsRows_keys_nodup : ∀ (rows : List RArr) (lo : Int), ((RArr.elemsRows lo rows).map (·.1)).Nodup
  | [], lo => by simp [RArr.elemsRows]
  | r :: rs, lo => by
    simp only [RArr.elemsRows, List.map_append, List.map_map]
    rw [List.nodup_append]
    refine ⟨?_, RArr.elemsRows_keys_nodup rs (lo + 1), ?_⟩
    · have h := RArr.elems_keys_nodup r
      have : (List.map ((fun x => x.1) ∘ fun e => (lo :: e.1, e.2)) r.elems) = (r.elems.map (·.1)).map (fun c => lo :: c) := by
        simp [List.map_map, Function.comp_def]
      rw [this]
      exact List.Pairwise.map (fun c => lo :: c) (fun a b hab h' => hab (by simpa using h')) h
    · intro a ha b hb hab
      subst hab
      obtain ⟨e, _, rfl⟩ := List.mem_map.1 ha
      obtain ⟨e2, he2, hk⟩ := List.mem_map.1 hb
      obtain ⟨i, cs, h1, h2⟩ := RArr.elemsRows_key rs (lo + 1) e2 he2
      simp only [Function.comp] at hk
      rw [h1] at hk
      have : i = lo := by simpa using congrArg List.head? hk
      omega
end
end StirVerif.C11
