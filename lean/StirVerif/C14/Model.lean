/-
C14 — executable model of list-mode histogramming: `stir::LmToProjData::set_up` / `process_data`
(src/listmode_buildblock/LmToProjData.cxx).  Core Lean only.

What is data here (supplied by the harness from the real code, property C01's business):
the bin that the event decoder returns for an event (`ListEvent::get_bin` on the template, through
`LmToProjData::get_bin_from_event`, LmToProjData.cxx:485; `none` = "bin value <= 0") — whichever decoder it is: the harness
runs `CListEventCylindricalScannerWithDiscreteDetectors`, LOR-only events (`ListEvent::get_bin`, ListEvent.cxx), events of
BlocksOnCylindrical scanners, `CListEventSAFIR` (CListRecordSAFIR.inl, records read from a real file by `CListModeDataSAFIR`)
and `CListEventECAT8_32bit` (CListRecordECAT8_32bit.cxx, real file); the record list is what `get_next_record` delivers, and
"rewind to the saved position" is `set_get_position` of that reader.

Units: time is in the unit of `ListTime::get_time_in_millisecs()` (integer milliseconds).  The C++ compares the
doubles `ms/1000.` (`ListTime::get_time_in_secs`) with the frame boundaries; the harness gives frame boundaries
as `k/1000.` for integer `k`, and correctly rounded division by 1000 is strictly monotone on integers
(|k| < 2^50), so comparing the doubles is comparing the integers.  `end_time > 0.01` becomes `endT > 10`.
Histogram values are `float` sums of `±1.f` (exact below 2^24): `Int` here.  `more_events` is `unsigned long`;
it only ever changes by ±1 and is only tested against 0, so `Int` is exact for streams shorter than 2^63.
Pre- and post-normalisation: section "Normalisation" below (the efficiencies the normalisation objects return and the
compression counts of the geometry are data).  Not modelled: `interactive`, records that are both time and event
(CListRecordROOT), the output file format.
-/
namespace StirVerif.C14

/-- `stir::Bin` coordinates.
    `unc` is not a coordinate of the output: with `do_pre_normalisation`, `get_bin_from_event` decodes every event twice
    (LmToProjData.cxx:490 for the uncompressed geometry, l.524 for the template) and the bin value it returns is
    `1 / efficiency(uncompressed bin)`; `unc` is the number of that uncompressed bin (numbering of the harness, ≥ 1), so that
    the value is a function of the model's bin.  It is 0 without pre-normalisation.  Nothing in `process_data` tests it; the
    value of an output bin is the sum over all `unc` (`valueW` below). -/
structure Bin where
  seg : Int
  view : Int
  ax : Int
  tang : Int
  tof : Int
  unc : Int := 0
  deriving DecidableEq, Repr, Inhabited

/-- a coincidence event as `process_data` sees it: the decoder's answer and `ListEvent::is_prompt()` -/
structure Event where
  bin : Option Bin
  prompt : Bool
  deriving DecidableEq, Repr, Inhabited

/-- `stir::ListRecord`: a time mark (`is_time()`, `time().get_time_in_millisecs()`) or an event (`is_event()`) -/
inductive Record where
  | time (ms : Int)
  | event (e : Event)
  deriving DecidableEq, Repr, Inhabited

/-- the ranges of the output projection data (`output_proj_data_sptr->get_min_…/get_max_…`) -/
structure Template where
  minSeg : Int
  maxSeg : Int
  minTof : Int
  maxTof : Int
  minTang : Int
  maxTang : Int
  /-- `get_min_axial_pos_num(segment)`, `get_max_axial_pos_num(segment)` -/
  axRange : Int → Int × Int

/-- the user-visible parameters of `LmToProjData` (setters / keywords) -/
structure Params where
  storePrompts : Bool := true
  storeDelayeds : Bool := true
  /-- `num_segments_in_memory` (`-1`: all) -/
  segsInMemory : Int := -1
  /-- `num_TOF_bins_in_memory` (`-1`: all) -/
  tofInMemory : Int := -1
  numEventsToStore : Int := 0
  /-- `maximum absolute segment number to process` (`-1`: all) -/
  maxSegToProcess : Int := -1
  /-- frames came from a `frame_definition file` (as opposed to `set_time_frame_definitions`) -/
  framesFromFile : Bool := false
  /-- frame (start, end) in ms -/
  frames : List (Int × Int) := []

/-- the state of the object after `set_up()` -/
structure Cfg where
  tpl : Template
  frames : List (Int × Int)
  doTimeFrame : Bool
  numEventsToStore : Int
  storePrompts : Bool
  delayedIncrement : Int
  segsInMemory : Int
  tofInMemory : Int

/-- `LmToProjData::set_up` (LmToProjData.cxx:341).  `none` = `error(...)`. -/
def setUp (t : Template) (p : Params) : Option Cfg :=
  -- l.368-374: max_segment_num_to_process / reduce_segment_range(-m, m)
  let m := if p.maxSegToProcess = -1 then t.maxSeg else min p.maxSegToProcess t.maxSeg
  let t' : Template := if p.maxSegToProcess = -1 then t else { t with minSeg := -m, maxSeg := m }
  -- l.376-393: clamp the batch sizes
  let numSegs := t'.maxSeg - t'.minSeg + 1
  let segs := if p.segsInMemory = -1 then numSegs else min p.segsInMemory numSegs
  let numTofs := t'.maxTof - t'.minTof + 1
  let tofs := if p.tofInMemory = -1 then numTofs else min p.tofInMemory numTofs
  -- l.397-412: delayed_increment
  let inc? : Option Int :=
    if p.storePrompts then (if p.storeDelayeds then some (-1) else some 0)
    else (if p.storeDelayeds then some 1 else none)
  match inc? with
  | none => none
  | some inc =>
    -- l.440-453: time frames or number of events (do_time_frame starts as false in a fresh object)
    let dtf0 := if p.numEventsToStore = 0 ∧ p.framesFromFile = false then true else false
    let dtf := if p.framesFromFile then true else dtf0
    let frames := if p.framesFromFile then p.frames else if p.frames.length < 1 then [(0, 0)] else p.frames
    some { tpl := t', frames := frames, doTimeFrame := dtf, numEventsToStore := p.numEventsToStore,
           storePrompts := p.storePrompts, delayedIncrement := inc, segsInMemory := segs, tofInMemory := tofs }

/-- one addition `segment[view][ax][tang] += bin_value * event_increment` (l.851) -/
abbrev Add := Bin × Int

/-- value of a bin after the additions (the segments are allocated as zeros, l.719) -/
def value : List Add → Bin → Int
  | [], _ => 0
  | (b', i) :: l, b => (if b' = b then i else 0) + value l b

/-- the part of the template held in memory during one pass -/
structure Batch where
  tofLo : Int
  tofHi : Int
  segLo : Int
  segHi : Int

/-- `LmToProjData::get_bin_from_event` without pre-normalisation = `event.get_bin(bin, template)`: the decoders
    only return segments of the (possibly reduced) template
    (`ProjDataInfoCylindrical::get_segment_num_for_ring_difference` returns `Succeeded::no` otherwise) -/
def getBinFromEvent (t : Template) (e : Event) : Option Bin :=
  match e.bin with
  | none => none
  | some b => if t.minSeg ≤ b.seg ∧ b.seg ≤ t.maxSeg then some b else none

/-- the range test of l.801-807 (note: neither segment nor view is tested there) -/
def inRange (t : Template) (b : Bin) : Bool :=
  t.minTang ≤ b.tang && b.tang ≤ t.maxTang &&
  (t.axRange b.seg).1 ≤ b.ax && b.ax ≤ (t.axRange b.seg).2 &&
  t.minTof ≤ b.tof && b.tof ≤ t.maxTof

/-- `event_increment` (l.813) -/
def eventIncrement (c : Cfg) (e : Event) : Int :=
  if e.prompt then (if c.storePrompts then 1 else 0) else c.delayedIncrement

/-- the batch-membership tests of l.824 and l.827 -/
def inBatch (bt : Batch) (b : Bin) : Bool :=
  bt.tofLo ≤ b.tof && b.tof ≤ bt.tofHi && bt.segLo ≤ b.seg && b.seg ≤ bt.segHi

/-- result of the inner `while (more_events)` loop -/
structure LoopOut where
  adds : List Add
  cur : Int
  rest : List Record

/-- the loop over the records of one pass (l.760-869): `more` = `more_events`, `cur` = `current_time`,
    the list = what `get_next_record` will deliver. -/
def mainLoop (c : Cfg) (endT : Int) (bt : Batch) : Int → Int → List Record → LoopOut
  | _, cur, [] => ⟨[], cur, []⟩                         -- get_next_record == Succeeded::no: break
  | more, cur, r :: rs =>
    if more = 0 then ⟨[], cur, r :: rs⟩                  -- while (more_events)
    else match r with
      | .time t =>
        if endT > 10 then                                 -- record.is_time() && end_time > 0.01
          if c.doTimeFrame && t ≥ endT then ⟨[], t, rs⟩   -- break (the record is consumed)
          else mainLoop c endT bt more t rs
        else mainLoop c endT bt more cur rs
      | .event e =>
        match getBinFromEvent c.tpl e with
        | none => mainLoop c endT bt more cur rs          -- bin value <= 0
        | some b =>
          if inRange c.tpl b then
            let inc := eventIncrement c e
            if inc = 0 then mainLoop c endT bt more cur rs   -- continue
            else
              let more' := if c.doTimeFrame then more else more - inc
              let o := mainLoop c endT bt more' cur rs
              if inBatch bt b then ⟨(b, inc) :: o.adds, o.cur, o.rest⟩ else o
          else mainLoop c endT bt more cur rs

/-- first pass: `while (current_time < start_time && get_next_record(record) == yes) if (record.is_time()) current_time = …`
    (l.750-754) -/
def skipTo (startT : Int) : Int → List Record → Int × List Record
  | cur, [] => (cur, [])
  | cur, r :: rs =>
    if cur < startT then
      match r with
      | .time t => skipTo startT t rs
      | .event _ => skipTo startT cur rs
    else (cur, r :: rs)

/-- start indices of `for (s = lo; s <= hi; s += step)` for `step ≥ 1` (for `step ≤ 0` the C++ loop does not
    terminate: see the report) -/
def batchStarts (lo hi step : Int) : List Int :=
  (List.range ((hi - lo) / step + 1).toNat).map fun (i : Nat) => lo + (i : Int) * step

/-- the batches in processing order: TOF loop (l.698) outside, segment loop (l.710) inside -/
def batches (c : Cfg) : List Batch :=
  (batchStarts c.tpl.minTof c.tpl.maxTof c.tofInMemory).flatMap fun tof =>
    (batchStarts c.tpl.minSeg c.tpl.maxSeg c.segsInMemory).map fun seg =>
      { tofLo := tof, tofHi := min (c.tpl.maxTof + 1) (tof + c.tofInMemory) - 1,
        segLo := seg, segHi := min (c.tpl.maxSeg + 1) (seg + c.segsInMemory) - 1 }

/-- state carried through the passes of one frame -/
structure PassState where
  cur : Int
  stream : List Record
  /-- `frame_start_positions[current_frame_num]` -/
  saved : List Record

/-- the passes of one frame (bodies of the two batch loops, l.731-881) -/
def passes (c : Cfg) (startT endT : Int) : List Batch → PassState → List Add × PassState
  | [], st => ([], st)
  | bt :: bts, st =>
    let more0 : Int := if c.doTimeFrame then 1 else c.numEventsToStore
    let st1 : PassState :=
      if bt.segLo ≠ c.tpl.minSeg || bt.tofLo > c.tpl.minTof then
        -- next batch: set_get_position(frame_start_positions[frame]); current_time = start_time
        { cur := startT, stream := st.saved, saved := st.saved }
      else
        let (cur', s') := skipTo startT st.cur st.stream
        { cur := cur', stream := s', saved := s' }     -- save_get_position()
    let o := mainLoop c endT bt more0 st1.cur st1.stream
    let (as, st') := passes c startT endT bts { cur := o.cur, stream := o.rest, saved := st1.saved }
    (o.adds ++ as, st')

/-- the frame loop (l.662-893): one list of additions per frame, and the final `current_time` -/
def frameLoop (c : Cfg) : List (Int × Int) → Int → List Record → List (List Add) × Int
  | [], cur, _ => ([], cur)
  | (s, e) :: fs, cur, recs =>
    let (a, st) := passes c s e (batches c) { cur := cur, stream := recs, saved := recs }
    let (as, cur') := frameLoop c fs st.cur st.stream
    (a :: as, cur')

/-- `LmToProjData::process_data` (LmToProjData.cxx:606): `current_time = 0` (l.647), the data are read from their start -/
def processData (c : Cfg) (recs : List Record) : List (List Add) × Int :=
  frameLoop c c.frames 0 recs

/-! ### Specification -/

/-- what one pass stores when nothing has to be left out for lack of memory: `mainLoop` without the two
    batch-membership tests -/
def onePass (c : Cfg) (endT : Int) : Int → Int → List Record → LoopOut
  | _, cur, [] => ⟨[], cur, []⟩
  | more, cur, r :: rs =>
    if more = 0 then ⟨[], cur, r :: rs⟩
    else match r with
      | .time t =>
        if endT > 10 then
          if c.doTimeFrame && t ≥ endT then ⟨[], t, rs⟩
          else onePass c endT more t rs
        else onePass c endT more cur rs
      | .event e =>
        match getBinFromEvent c.tpl e with
        | none => onePass c endT more cur rs
        | some b =>
          if inRange c.tpl b then
            let inc := eventIncrement c e
            if inc = 0 then onePass c endT more cur rs
            else
              let o := onePass c endT (if c.doTimeFrame then more else more - inc) cur rs
              ⟨(b, inc) :: o.adds, o.cur, o.rest⟩
          else onePass c endT more cur rs

/-- the frames, each read once: skip to the start of the frame, then one pass -/
def onePassFrames (c : Cfg) : List (Int × Int) → Int → List Record → List (List Add) × Int
  | [], cur, _ => ([], cur)
  | (s, e) :: fs, cur, recs =>
    let sk := skipTo s cur recs
    let o := onePass c e (if c.doTimeFrame then 1 else c.numEventsToStore) sk.1 sk.2
    let r := onePassFrames c fs o.cur o.rest
    (o.adds :: r.1, r.2)

/-- the run with the whole projection data in memory, read once -/
def singlePass (c : Cfg) (recs : List Record) : List (List Add) × Int :=
  onePassFrames c c.frames 0 recs

/-- the time of an event is the time of the preceding time mark (`cur` before the first one) -/
def timed : Int → List Record → List (Int × Event)
  | _, [] => []
  | _, .time t :: rs => timed t rs
  | cur, .event e :: rs => (cur, e) :: timed cur rs

/-- what one event adds: its increment at its bin if the bin is inside the output data -/
def contribution (c : Cfg) (e : Event) : Option Add :=
  match getBinFromEvent c.tpl e with
  | none => none
  | some b =>
    if inRange c.tpl b then
      if eventIncrement c e = 0 then none else some (b, eventIncrement c e)
    else none

/-- **the one-line specification**: for every event whose preceding time mark lies in `[s, e)` and whose bin is
    in range, add its increment at its bin -/
def direct (c : Cfg) (recs : List Record) (s e : Int) : List Add :=
  (timed 0 recs).filterMap fun te => if s ≤ te.1 ∧ te.1 < e then contribution c te.2 else none

/-- the same without time window (no frame definitions: the single frame `(0,0)` whose end is ignored) -/
def directAll (c : Cfg) (recs : List Record) : List Add :=
  (timed 0 recs).filterMap fun te => contribution c te.2

/-! ### The list-mode objective function

`stir::PoissonLogLikelihoodWithLinearModelForMeanAndListModeDataWithProjMatrixByBin`
(src/recon_buildblock/PoissonLogLikelihoodWithLinearModelForMeanAndListModeDataWithProjMatrixByBin.cxx, base class
…AndListModeData.cxx) and `LM_distributable_computation` (src/include/stir/recon_buildblock/distributable.txx:39).
Data here: the bin the decoder returns for an event (as above), and per bin the row of the projection matrix
(`ProjMatrixByBin::get_proj_matrix_elems_for_one_bin`, property C03/C04's business), the additive term at the bin and the
view of its basic bin under the symmetries of the matrix.  Not modelled: cache files on disk (what is written is what
is read back), OpenMP, the value/Hessian functions, `max_quotient` (dead for the gradient: the test at l.768 only
returns early inside `if (do_value)`). -/

/-- the state of the object after `set_up()` that the event reading depends on
    (…AndListModeData.cxx:268 `do_time_frame`, l.305-320 frame, …ByBin.cxx:319-334 cache size) -/
structure LmCfg where
  /-- ranges of `proj_data_info_sptr` (the list-mode geometry reduced to the processed segments) -/
  tpl : Template
  doTimeFrame : Bool
  /-- `frame_defs.get_start_time(current_frame_num)` / `get_end_time`, ms -/
  startT : Int
  endT : Int
  /-- `num_events_to_use` -/
  numEventsToUse : Int
  /-- `cache_size` (number of events of one batch; 1000000 when no cache files are used) -/
  cacheSize : Nat

/-- result of one call of `read_listmode_batch` (…ByBin.cxx:450): the events put into `record_cache`, the return value
    `stop_caching`, and what `get_next_record` will deliver next -/
structure LmBatch where
  bins : List Bin
  stop : Bool
  rest : List Record

/-- the `while (true)` loop of `read_listmode_batch` (l.477-537): `n` = `cached_events` = `record_cache.size()`,
    `cur` = `current_time`, `prev` = number of events in the earlier batches.
    `num_events_to_use` (l.527) counts the events of ALL batches, as after the proposed fix C14-5
    (`ibatch * cache_size + cached_events`); the unrepaired code compares the counter of the current batch only
    (known finding `lmobj:num_events_to_use-is-counted-per-batch`; the harness reports such runs and does not compare them) -/
def lmReadBatch (c : LmCfg) (prev : Nat) : Nat → Int → List Record → LmBatch
  | _, _, [] => ⟨[], true, []⟩                                  -- get_next_record == Succeeded::no
  | n, _, .time t :: rs =>
    if c.doTimeFrame && t ≥ c.endT then ⟨[], true, rs⟩            -- l.487
    else lmReadBatch c prev n t rs                                -- (l.493 `continue` or fall through: not an event)
  | n, cur, .event e :: rs =>
    if cur < c.startT then lmReadBatch c prev n cur rs            -- l.493
    else if e.prompt then
      match getBinFromEvent c.tpl e with                          -- bin value != 1 or segment outside (l.501-502)
      | none => lmReadBatch c prev n cur rs
      | some b =>
        if inRange c.tpl b then                                   -- l.503-508
          if c.numEventsToUse > 0 && (((prev + n : Nat) : Int) + 1 ≥ c.numEventsToUse) then ⟨[b], true, rs⟩   -- l.527
          else if n + 1 = c.cacheSize then ⟨[b], false, rs⟩       -- l.534 cache is full
          else
            let o := lmReadBatch c prev (n + 1) cur rs
            ⟨b :: o.bins, o.stop, o.rest⟩
        else lmReadBatch c prev n cur rs
    else lmReadBatch c prev n cur rs

/-- the batches in reading order (`cache_listmode_file` l.642-656, or the `while (true)` loops of the compute functions):
    the first batch starts at `current_time = 0` after `reset()`, every later one at
    `end_time_per_batch[ibatch-1]` = the END time of the frame (l.457, l.541) -/
def lmBatches (c : LmCfg) : Nat → Bool → Nat → List Record → List (List Bin)
  | 0, _, _, _ => []
  | fuel + 1, first, prev, recs =>
    let o := lmReadBatch c prev 0 (if first then 0 else c.endT) recs
    if o.stop then [o.bins] else o.bins :: lmBatches c fuel false (prev + o.bins.length) o.rest

/-- all batches of a stream (every batch that does not stop consumes at least one record) -/
def lmEvents (c : LmCfg) (recs : List Record) : List (List Bin) := lmBatches c (recs.length + 1) true 0 recs

/-- reading with an unlimited cache and without `num_events_to_use`: the specification of the batches -/
def lmReadAll (c : LmCfg) : Int → List Record → List Bin
  | _, [] => []
  | _, .time t :: rs => if c.doTimeFrame && t ≥ c.endT then [] else lmReadAll c t rs
  | cur, .event e :: rs =>
    if cur < c.startT then lmReadAll c cur rs
    else if e.prompt then
      match getBinFromEvent c.tpl e with
      | none => lmReadAll c cur rs
      | some b => if inRange c.tpl b then b :: lmReadAll c cur rs else lmReadAll c cur rs
    else lmReadAll c cur rs

section LmGradient
variable {K : Type} [_root_.Add K] [Mul K] [Div K] [OfNat K 0]   -- (`Add` is the abbreviation above)

/-- `Σ l` -/
def sumList : List K → K
  | [] => 0
  | a :: l => a + sumList l

/-- what the computation reads for a bin -/
structure LmBinData (K : Type) where
  /-- row of the projection matrix: (voxel, element) -/
  row : List (Nat × K)
  /-- `record.my_corr` as it should be: the additive term AT THE BIN of the event (0 when `has_add` is false) -/
  add : K
  /-- `view_num()` of the basic bin (`find_basic_bin`) -/
  basicView : Int

/-- `ProjMatrixElemsForOneBin::forward_project(bin, image)` -/
def lmFwd (img : Nat → K) (row : List (Nat × K)) : K := sumList (row.map fun e => e.2 * img e.1)

/-- the subset test of `LM_distributable_computation` (distributable.txx:128-138; C `%` on ints) -/
def inSubset (nsub subset : Int) (basicView : Int) : Bool := decide (nsub ≤ 1) || (Int.tmod basicView nsub == subset)

/-- `LM_gradient_and_value<true,false>` (…ByBin.cxx:755) for one event: `row.back_project(output, bin)` with bin value
    `1 / (row·image + add)`: the list of additions `output[voxel] += element · value` -/
def lmEventContribs (img : Nat → K) (d : LmBinData K) : List (Nat × K) :=
  let q := lmFwd img d.row + d.add
  d.row.map fun e => (e.1, e.2 / q)

/-- `actual_compute_subset_gradient_without_penalty(…, add_sensitivity = true)` (…ByBin.cxx:913): all additions to the
    output image, batch after batch (accumulate = icache != 0), event after event of the subset -/
def lmContribs (data : Bin → LmBinData K) (img : Nat → K) (nsub subset : Int) (batches : List (List Bin)) : List (Nat × K) :=
  batches.flatMap fun bt =>
    (bt.filter fun b => inSubset nsub subset (data b).basicView).flatMap fun b => lmEventContribs img (data b)

/-- value of the image described by a list of additions at voxel `v` (the image starts as zeros: `fill(0)` at
    distributable.txx:67 for the first batch) -/
def imageAt (cs : List (Nat × K)) (v : Nat) : K := sumList (cs.map fun e => if e.1 = v then e.2 else 0)

/-- the same, accumulated into an array of `n` voxels (what the driver executes; `accumulate_getD` in ProofsLmObj) -/
def accumulate (n : Nat) (cs : List (Nat × K)) : Array K :=
  cs.foldl (fun arr e => arr.modify e.1 (fun s => s + e.2)) (Array.replicate n 0)

/-- the list-mode gradient plus sensitivity at voxel `v` -/
def lmGps (data : Bin → LmBinData K) (img : Nat → K) (nsub subset : Int) (batches : List (List Bin)) (v : Nat) : K :=
  imageAt (lmContribs data img nsub subset batches) v

/-- the element(s) of a row at voxel `v` -/
def rowAt (row : List (Nat × K)) (v : Nat) : K := sumList (row.map fun e => if e.1 = v then e.2 else 0)

end LmGradient

/-! ### Normalisation in `LmToProjData`

`get_bin_from_event` with `do_pre_normalisation` (LmToProjData.cxx:485-535), `do_post_normalisation` (l.540-576),
`get_compression_count` (l.578-587) and the addition `segment[…] += bin.get_bin_value() * event_increment` (l.851-853).
Data: what the event decoder returns for the two geometries, the efficiencies the normalisation objects return
(`BinNormalisation::get_bin_efficiency`) and the number of ring pairs / the view mashing factor of the template geometry.
Neither function has any influence on the control flow of `process_data` other than through "bin value ≤ 0" at l.801, and
`do_post_normalisation` is called after the last test (l.829): the normalised run is the run of `processData` on the stream
as `get_bin_from_event` decodes it (`preDecode`), with the bin value applied to every addition afterwards (`weighted`).

Two statements of the code are modelled as after the proposed fixes (the harness recognises runs of the unrepaired code on
such inputs, reports them with a stable key and does not compare them):
* C14-6: l.491-492 `if (uncompressed_bin.get_bin_value() <= 0) return;` leaves the caller's bin (`Bin()` with value 1) untouched,
  so the rejected event is counted in bin (0,0,0,0,0); modelled: the event is rejected;
* C14-7: l.568 sets the bin value to −1 when the post-normalisation efficiency is < 1e-10 ("Event ignored") and l.853 adds it;
  modelled: nothing is added. -/

section Normalisation
variable {K : Type}

/-- an event as `get_bin_from_event` sees it with `do_pre_normalisation` -/
structure PreEvent (K : Type) where
  /-- `event.get_bin(bin, *template_proj_data_info_ptr)` (l.524); `none` = bin value ≤ 0 -/
  bin : Option Bin
  /-- `event.get_bin(uncompressed_bin, *proj_data_info_cyl_uncompressed_ptr)` (l.490): the number of the uncompressed bin and
      `normalisation_ptr->get_bin_efficiency(uncompressed_bin)` (l.503); `none` = bin value ≤ 0 -/
  unc : Option (Int × K)
  prompt : Bool

/-- record of a stream for a run with pre-normalisation -/
inductive PreRecord (K : Type) where
  | time (ms : Int)
  | event (e : PreEvent K)

/-- `get_bin_from_event` with `do_pre_normalisation` (l.487-530) as far as the tests of `process_data` see it:
    `tooLow eff` = `bin_efficiency < 1.E-10` (l.505) -/
def preDecode (tooLow : K → Bool) (e : PreEvent K) : Event :=
  match e.unc with
  | none => ⟨none, e.prompt⟩                                  -- l.491-492 (as after fix C14-6)
  | some (u, eff) =>
    if tooLow eff then ⟨none, e.prompt⟩                       -- l.505-515: bin value −1
    else ⟨e.bin.map fun b => { b with unc := u }, e.prompt⟩   -- l.524-529

def preStream (tooLow : K → Bool) : List (PreRecord K) → List Record
  | [] => []
  | .time t :: rs => .time t :: preStream tooLow rs
  | .event e :: rs => .event (preDecode tooLow e) :: preStream tooLow rs

/-- the normalisation of a run -/
inductive Norm (K : Type) where
  /-- `do_pre_normalisation`: efficiency of the uncompressed bin number `u`; `get_compression_count(bin)` (l.578-587:
      number of ring pairs of the sinogram × view mashing factor) -/
  | pre (eff : Int → K) (cc : Bin → Int)
  /-- otherwise: `post_normalisation_ptr->get_bin_efficiency(bin)` of the output bin (`TrivialBinNormalisation`: 1) -/
  | post (eff : Bin → K)

/-- the output bin of a model bin -/
def Bin.key (b : Bin) : Bin := { b with unc := 0 }

variable [_root_.Add K] [Mul K] [Div K] [OfNat K 0] [OfNat K 1] [IntCast K]

/-- `bin.get_bin_value()` at l.853; `none` = nothing is added (as after fix C14-7).
    pre: `1.f / bin_efficiency` (l.521, 528) divided by `get_compression_count(bin)` (l.547);
    post: `bin.get_bin_value() / bin_efficiency` (l.572) with the decoder's value 1 -/
def binValue (tooLow : K → Bool) : Norm K → Bin → Option K
  | .pre eff cc, b => some ((1 / eff b.unc) / ((cc b : Int) : K))
  | .post eff, b => if tooLow (eff b.key) then none else some (1 / eff b.key)

/-- the additions `segment[view][ax][tang] += bin.get_bin_value() * event_increment` (l.851-853) for a list of
    (bin, increment) -/
def weighted (tooLow : K → Bool) (n : Norm K) (adds : List Add) : List (Bin × K) :=
  adds.filterMap fun a => (binValue tooLow n a.1).map fun w => (a.1, w * ((a.2 : Int) : K))

/-- value of the output bin `b` after the additions -/
def valueW (l : List (Bin × K)) (b : Bin) : K := sumList (l.map fun a => if a.1.key = b then a.2 else 0)

/-- `process_data` with normalisation: per frame the weighted additions, and the final `current_time` -/
def processDataW (tooLow : K → Bool) (n : Norm K) (c : Cfg) (recs : List Record) : List (List (Bin × K)) × Int :=
  ((processData c recs).1.map (weighted tooLow n), (processData c recs).2)

end Normalisation

end StirVerif.C14
