/-
C14 — executable model of list-mode histogramming: `stir::LmToProjData::set_up` / `process_data`
(src/listmode_buildblock/LmToProjData.cxx).  Core Lean only.

What is data here (supplied by the harness from the real code, property C01's business):
the bin that the event decoder returns for an event (`ListEvent::get_bin` on the template, through
`LmToProjData::get_bin_from_event`, LmToProjData.cxx:485; `none` = "bin value <= 0").

Units: time is in the unit of `ListTime::get_time_in_millisecs()` (integer milliseconds).  The C++ compares the
doubles `ms/1000.` (`ListTime::get_time_in_secs`) with the frame boundaries; the harness gives frame boundaries
as `k/1000.` for integer `k`, and correctly rounded division by 1000 is strictly monotone on integers
(|k| < 2^50), so comparing the doubles is comparing the integers.  `end_time > 0.01` becomes `endT > 10`.
Histogram values are `float` sums of `±1.f` (exact below 2^24): `Int` here.  `more_events` is `unsigned long`;
it only ever changes by ±1 and is only tested against 0, so `Int` is exact for streams shorter than 2^63.
Not modelled: pre- and post-normalisation (`TrivialBinNormalisation`, factor 1), `interactive`, records that are
both time and event (CListRecordROOT), the output file format.
-/
namespace StirVerif.C14

/-- `stir::Bin` coordinates -/
structure Bin where
  seg : Int
  view : Int
  ax : Int
  tang : Int
  tof : Int
  deriving DecidableEq, Repr, Inhabited

/-- a coincidence event as `process_data` sees it: the decoder's answer and `ListEvent::is_prompt()` -/
structure Event where
  bin : Option Bin
  prompt : Bool
  deriving DecidableEq, Repr, Inhabited

/-- `stir::ListRecord`: a time mark (`is_time()`, `time().get_time_in_millisecs()`) or an event (`is_event()`) -/
inductive Record where
  | time (ms : Int)
  | event (e : Event)
  deriving DecidableEq, Repr, Inhabited

/-- the ranges of the output projection data (`output_proj_data_sptr->get_min_…/get_max_…`) -/
structure Template where
  minSeg : Int
  maxSeg : Int
  minTof : Int
  maxTof : Int
  minTang : Int
  maxTang : Int
  /-- `get_min_axial_pos_num(segment)`, `get_max_axial_pos_num(segment)` -/
  axRange : Int → Int × Int

/-- the user-visible parameters of `LmToProjData` (setters / keywords) -/
structure Params where
  storePrompts : Bool := true
  storeDelayeds : Bool := true
  /-- `num_segments_in_memory` (`-1`: all) -/
  segsInMemory : Int := -1
  /-- `num_TOF_bins_in_memory` (`-1`: all) -/
  tofInMemory : Int := -1
  numEventsToStore : Int := 0
  /-- `maximum absolute segment number to process` (`-1`: all) -/
  maxSegToProcess : Int := -1
  /-- frames came from a `frame_definition file` (as opposed to `set_time_frame_definitions`) -/
  framesFromFile : Bool := false
  /-- frame (start, end) in ms -/
  frames : List (Int × Int) := []

/-- the state of the object after `set_up()` -/
structure Cfg where
  tpl : Template
  frames : List (Int × Int)
  doTimeFrame : Bool
  numEventsToStore : Int
  storePrompts : Bool
  delayedIncrement : Int
  segsInMemory : Int
  tofInMemory : Int

/-- `LmToProjData::set_up` (LmToProjData.cxx:341).  `none` = `error(...)`. -/
def setUp (t : Template) (p : Params) : Option Cfg :=
  -- l.368-374: max_segment_num_to_process / reduce_segment_range(-m, m)
  let m := if p.maxSegToProcess = -1 then t.maxSeg else min p.maxSegToProcess t.maxSeg
  let t' : Template := if p.maxSegToProcess = -1 then t else { t with minSeg := -m, maxSeg := m }
  -- l.376-393: clamp the batch sizes
  let numSegs := t'.maxSeg - t'.minSeg + 1
  let segs := if p.segsInMemory = -1 then numSegs else min p.segsInMemory numSegs
  let numTofs := t'.maxTof - t'.minTof + 1
  let tofs := if p.tofInMemory = -1 then numTofs else min p.tofInMemory numTofs
  -- l.397-412: delayed_increment
  let inc? : Option Int :=
    if p.storePrompts then (if p.storeDelayeds then some (-1) else some 0)
    else (if p.storeDelayeds then some 1 else none)
  match inc? with
  | none => none
  | some inc =>
    -- l.440-453: time frames or number of events (do_time_frame starts as false in a fresh object)
    let dtf0 := if p.numEventsToStore = 0 ∧ p.framesFromFile = false then true else false
    let dtf := if p.framesFromFile then true else dtf0
    let frames := if p.framesFromFile then p.frames else if p.frames.length < 1 then [(0, 0)] else p.frames
    some { tpl := t', frames := frames, doTimeFrame := dtf, numEventsToStore := p.numEventsToStore,
           storePrompts := p.storePrompts, delayedIncrement := inc, segsInMemory := segs, tofInMemory := tofs }

/-- one addition `segment[view][ax][tang] += bin_value * event_increment` (l.851) -/
abbrev Add := Bin × Int

/-- value of a bin after the additions (the segments are allocated as zeros, l.719) -/
def value : List Add → Bin → Int
  | [], _ => 0
  | (b', i) :: l, b => (if b' = b then i else 0) + value l b

/-- the part of the template held in memory during one pass -/
structure Batch where
  tofLo : Int
  tofHi : Int
  segLo : Int
  segHi : Int

/-- `LmToProjData::get_bin_from_event` without pre-normalisation = `event.get_bin(bin, template)`: the decoders
    only return segments of the (possibly reduced) template
    (`ProjDataInfoCylindrical::get_segment_num_for_ring_difference` returns `Succeeded::no` otherwise) -/
def getBinFromEvent (t : Template) (e : Event) : Option Bin :=
  match e.bin with
  | none => none
  | some b => if t.minSeg ≤ b.seg ∧ b.seg ≤ t.maxSeg then some b else none

/-- the range test of l.801-807 (note: neither segment nor view is tested there) -/
def inRange (t : Template) (b : Bin) : Bool :=
  t.minTang ≤ b.tang && b.tang ≤ t.maxTang &&
  (t.axRange b.seg).1 ≤ b.ax && b.ax ≤ (t.axRange b.seg).2 &&
  t.minTof ≤ b.tof && b.tof ≤ t.maxTof

/-- `event_increment` (l.813) -/
def eventIncrement (c : Cfg) (e : Event) : Int :=
  if e.prompt then (if c.storePrompts then 1 else 0) else c.delayedIncrement

/-- the batch-membership tests of l.824 and l.827 -/
def inBatch (bt : Batch) (b : Bin) : Bool :=
  bt.tofLo ≤ b.tof && b.tof ≤ bt.tofHi && bt.segLo ≤ b.seg && b.seg ≤ bt.segHi

/-- result of the inner `while (more_events)` loop -/
structure LoopOut where
  adds : List Add
  cur : Int
  rest : List Record

/-- the loop over the records of one pass (l.760-869): `more` = `more_events`, `cur` = `current_time`,
    the list = what `get_next_record` will deliver. -/
def mainLoop (c : Cfg) (endT : Int) (bt : Batch) : Int → Int → List Record → LoopOut
  | _, cur, [] => ⟨[], cur, []⟩                         -- get_next_record == Succeeded::no: break
  | more, cur, r :: rs =>
    if more = 0 then ⟨[], cur, r :: rs⟩                  -- while (more_events)
    else match r with
      | .time t =>
        if endT > 10 then                                 -- record.is_time() && end_time > 0.01
          if c.doTimeFrame && t ≥ endT then ⟨[], t, rs⟩   -- break (the record is consumed)
          else mainLoop c endT bt more t rs
        else mainLoop c endT bt more cur rs
      | .event e =>
        match getBinFromEvent c.tpl e with
        | none => mainLoop c endT bt more cur rs          -- bin value <= 0
        | some b =>
          if inRange c.tpl b then
            let inc := eventIncrement c e
            if inc = 0 then mainLoop c endT bt more cur rs   -- continue
            else
              let more' := if c.doTimeFrame then more else more - inc
              let o := mainLoop c endT bt more' cur rs
              if inBatch bt b then ⟨(b, inc) :: o.adds, o.cur, o.rest⟩ else o
          else mainLoop c endT bt more cur rs

/-- first pass: `while (current_time < start_time && get_next_record(record) == yes) if (record.is_time()) current_time = …`
    (l.750-754) -/
def skipTo (startT : Int) : Int → List Record → Int × List Record
  | cur, [] => (cur, [])
  | cur, r :: rs =>
    if cur < startT then
      match r with
      | .time t => skipTo startT t rs
      | .event _ => skipTo startT cur rs
    else (cur, r :: rs)

/-- start indices of `for (s = lo; s <= hi; s += step)` for `step ≥ 1` (for `step ≤ 0` the C++ loop does not
    terminate: see the report) -/
def batchStarts (lo hi step : Int) : List Int :=
  (List.range ((hi - lo) / step + 1).toNat).map fun (i : Nat) => lo + (i : Int) * step

/-- the batches in processing order: TOF loop (l.698) outside, segment loop (l.710) inside -/
def batches (c : Cfg) : List Batch :=
  (batchStarts c.tpl.minTof c.tpl.maxTof c.tofInMemory).flatMap fun tof =>
    (batchStarts c.tpl.minSeg c.tpl.maxSeg c.segsInMemory).map fun seg =>
      { tofLo := tof, tofHi := min (c.tpl.maxTof + 1) (tof + c.tofInMemory) - 1,
        segLo := seg, segHi := min (c.tpl.maxSeg + 1) (seg + c.segsInMemory) - 1 }

/-- state carried through the passes of one frame -/
structure PassState where
  cur : Int
  stream : List Record
  /-- `frame_start_positions[current_frame_num]` -/
  saved : List Record

/-- the passes of one frame (bodies of the two batch loops, l.731-881) -/
def passes (c : Cfg) (startT endT : Int) : List Batch → PassState → List Add × PassState
  | [], st => ([], st)
  | bt :: bts, st =>
    let more0 : Int := if c.doTimeFrame then 1 else c.numEventsToStore
    let st1 : PassState :=
      if bt.segLo ≠ c.tpl.minSeg || bt.tofLo > c.tpl.minTof then
        -- next batch: set_get_position(frame_start_positions[frame]); current_time = start_time
        { cur := startT, stream := st.saved, saved := st.saved }
      else
        let (cur', s') := skipTo startT st.cur st.stream
        { cur := cur', stream := s', saved := s' }     -- save_get_position()
    let o := mainLoop c endT bt more0 st1.cur st1.stream
    let (as, st') := passes c startT endT bts { cur := o.cur, stream := o.rest, saved := st1.saved }
    (o.adds ++ as, st')

/-- the frame loop (l.662-893): one list of additions per frame, and the final `current_time` -/
def frameLoop (c : Cfg) : List (Int × Int) → Int → List Record → List (List Add) × Int
  | [], cur, _ => ([], cur)
  | (s, e) :: fs, cur, recs =>
    let (a, st) := passes c s e (batches c) { cur := cur, stream := recs, saved := recs }
    let (as, cur') := frameLoop c fs st.cur st.stream
    (a :: as, cur')

/-- `LmToProjData::process_data` (LmToProjData.cxx:606): `current_time = 0` (l.647), the data are read from their start -/
def processData (c : Cfg) (recs : List Record) : List (List Add) × Int :=
  frameLoop c c.frames 0 recs

/-! ### Specification -/

/-- what one pass stores when nothing has to be left out for lack of memory: `mainLoop` without the two
    batch-membership tests -/
def onePass (c : Cfg) (endT : Int) : Int → Int → List Record → LoopOut
  | _, cur, [] => ⟨[], cur, []⟩
  | more, cur, r :: rs =>
    if more = 0 then ⟨[], cur, r :: rs⟩
    else match r with
      | .time t =>
        if endT > 10 then
          if c.doTimeFrame && t ≥ endT then ⟨[], t, rs⟩
          else onePass c endT more t rs
        else onePass c endT more cur rs
      | .event e =>
        match getBinFromEvent c.tpl e with
        | none => onePass c endT more cur rs
        | some b =>
          if inRange c.tpl b then
            let inc := eventIncrement c e
            if inc = 0 then onePass c endT more cur rs
            else
              let o := onePass c endT (if c.doTimeFrame then more else more - inc) cur rs
              ⟨(b, inc) :: o.adds, o.cur, o.rest⟩
          else onePass c endT more cur rs

/-- the frames, each read once: skip to the start of the frame, then one pass -/
def onePassFrames (c : Cfg) : List (Int × Int) → Int → List Record → List (List Add) × Int
  | [], cur, _ => ([], cur)
  | (s, e) :: fs, cur, recs =>
    let sk := skipTo s cur recs
    let o := onePass c e (if c.doTimeFrame then 1 else c.numEventsToStore) sk.1 sk.2
    let r := onePassFrames c fs o.cur o.rest
    (o.adds :: r.1, r.2)

/-- the run with the whole projection data in memory, read once -/
def singlePass (c : Cfg) (recs : List Record) : List (List Add) × Int :=
  onePassFrames c c.frames 0 recs

/-- the time of an event is the time of the preceding time mark (`cur` before the first one) -/
def timed : Int → List Record → List (Int × Event)
  | _, [] => []
  | _, .time t :: rs => timed t rs
  | cur, .event e :: rs => (cur, e) :: timed cur rs

/-- what one event adds: its increment at its bin if the bin is inside the output data -/
def contribution (c : Cfg) (e : Event) : Option Add :=
  match getBinFromEvent c.tpl e with
  | none => none
  | some b =>
    if inRange c.tpl b then
      if eventIncrement c e = 0 then none else some (b, eventIncrement c e)
    else none

/-- **the one-line specification**: for every event whose preceding time mark lies in `[s, e)` and whose bin is
    in range, add its increment at its bin -/
def direct (c : Cfg) (recs : List Record) (s e : Int) : List Add :=
  (timed 0 recs).filterMap fun te => if s ≤ te.1 ∧ te.1 < e then contribution c te.2 else none

/-- the same without time window (no frame definitions: the single frame `(0,0)` whose end is ignored) -/
def directAll (c : Cfg) (recs : List Record) : List Add :=
  (timed 0 recs).filterMap fun te => contribution c te.2

end StirVerif.C14
