/-
C14 — proofs, part 2: reading the data once (`singlePass`) stores, for every frame, exactly the events whose
preceding time mark lies in the frame (`direct`) — for streams whose time marks never go back and never jump
over a whole frame.
-/
import StirVerif.C14.ProofsBatch

namespace StirVerif.C14

/-- the time marks (with `cur`, the time assumed before the first one) never go back, and no frame of `F` lies
    strictly inside the gap between two consecutive marks -/
def Regular (F : List (Int × Int)) : Int → List Record → Prop
  | _, [] => True
  | cur, .time t :: rs => cur ≤ t ∧ (∀ f ∈ F, ¬(cur < f.1 ∧ f.2 ≤ t)) ∧ Regular F t rs
  | cur, .event _ :: rs => Regular F cur rs

/-- executable version of `Regular` -/
def regularB (F : List (Int × Int)) : Int → List Record → Bool
  | _, [] => true
  | cur, .time t :: rs => decide (cur ≤ t) && F.all (fun f => !(decide (cur < f.1) && decide (f.2 ≤ t))) && regularB F t rs
  | cur, .event _ :: rs => regularB F cur rs

theorem regularB_iff (F : List (Int × Int)) (recs : List Record) : ∀ cur, regularB F cur recs = true ↔ Regular F cur recs := by
  induction recs with
  | nil => intro cur; simp [regularB, Regular]
  | cons r rs ih =>
    intro cur
    cases r with
    | time t =>
      simp only [regularB, Regular, Bool.and_eq_true, decide_eq_true_eq, List.all_eq_true, Bool.not_eq_true',
        Bool.and_eq_false_imp, decide_eq_false_iff_not, ih t]
      constructor
      · rintro ⟨⟨h1, h2⟩, h3⟩
        exact ⟨h1, fun f hf hc => h2 f hf hc.1 hc.2, h3⟩
      · rintro ⟨h1, h2, h3⟩
        exact ⟨⟨h1, fun f hf h4 h5 => h2 f hf ⟨h4, h5⟩⟩, h3⟩
    | event e => simp [regularB, Regular, ih cur]

/-- frames as `TimeFrameDefinitions` accepts them, non-empty, later than 0.01 s, in sequence -/
def FramesOK (F : List (Int × Int)) : Prop :=
  (∀ f ∈ F, f.1 < f.2 ∧ 10 < f.2) ∧ F.Pairwise (fun f g => f.2 ≤ g.1)

/-- the contribution of a timed event to the frame `[s,e)` -/
def win (c : Cfg) (s e : Int) (te : Int × Event) : Option Add :=
  if s ≤ te.1 ∧ te.1 < e then contribution c te.2 else none

theorem direct_eq (c : Cfg) (recs : List Record) (s e : Int) : direct c recs s e = (timed 0 recs).filterMap (win c s e) := rfl

/-- an event record in a pass (time-frame mode): its contribution is stored -/
theorem onePass_event (c : Cfg) (endT more cur : Int) (ev : Event) (rs : List Record) (hm : more ≠ 0)
    (hd : c.doTimeFrame = true) :
    onePass c endT more cur (.event ev :: rs)
      = ⟨(contribution c ev).toList ++ (onePass c endT more cur rs).adds, (onePass c endT more cur rs).cur,
          (onePass c endT more cur rs).rest⟩ := by
  rw [onePass]
  simp only [hm, if_false, contribution, hd, if_true]
  cases getBinFromEvent c.tpl ev with
  | none => simp
  | some b =>
    simp only
    by_cases hr : inRange c.tpl b = true
    · simp only [hr, if_true]
      by_cases hi : eventIncrement c ev = 0
      · simp [hi]
      · simp [hi]
    · simp [hr]

theorem onePass_time (c : Cfg) (endT more cur t : Int) (rs : List Record) (hm : more ≠ 0) (he : 10 < endT)
    (hd : c.doTimeFrame = true) :
    onePass c endT more cur (.time t :: rs)
      = if endT ≤ t then ⟨[], t, rs⟩ else onePass c endT more t rs := by
  rw [onePass]
  have : endT > 10 := he
  simp only [hm, if_false, this, if_true, hd, Bool.true_and, ge_iff_le, decide_eq_true_eq]

theorem skipTo_time {s cur t : Int} {rs : List Record} (h : cur < s) : skipTo s cur (.time t :: rs) = skipTo s t rs := by
  simp [skipTo, h]

theorem skipTo_event {s cur : Int} {e : Event} {rs : List Record} (h : cur < s) :
    skipTo s cur (.event e :: rs) = skipTo s cur rs := by
  simp [skipTo, h]

theorem skipTo_ge {s cur : Int} {r : Record} {rs : List Record} (h : ¬cur < s) : skipTo s cur (r :: rs) = (cur, r :: rs) := by
  simp [skipTo, h]

/-- **skip loop**: only events before the start of the frame are dropped -/
theorem skipTo_spec (c : Cfg) (F G : List (Int × Int)) (s : Int) (recs : List Record) :
    ∀ cur, Regular F cur recs → (∀ f ∈ G, f ∈ F ∧ s ≤ f.1) → (∀ f ∈ G, cur < f.2) →
      (∀ s' e', s ≤ s' → (timed cur recs).filterMap (win c s' e')
          = (timed (skipTo s cur recs).1 (skipTo s cur recs).2).filterMap (win c s' e')) ∧
      Regular F (skipTo s cur recs).1 (skipTo s cur recs).2 ∧
      ((skipTo s cur recs).2 = [] ∨ s ≤ (skipTo s cur recs).1) ∧
      (∀ f ∈ G, (skipTo s cur recs).1 < f.2) := by
  induction recs with
  | nil => intro cur hR hG hlt; exact ⟨fun _ _ _ => rfl, hR, Or.inl rfl, hlt⟩
  | cons r rs ih =>
    intro cur hR hG hlt
    by_cases hc : cur < s
    · cases r with
      | time t =>
        rw [skipTo_time hc]
        simp only [Regular] at hR
        obtain ⟨h1, h2, h3⟩ := hR
        have hlt' : ∀ f ∈ G, t < f.2 := by
          intro f hf
          have := h2 f (hG f hf).1
          have := (hG f hf).2
          have := hlt f hf
          omega
        obtain ⟨a, b, d, e⟩ := ih t h3 hG hlt'
        exact ⟨fun s' e' hs' => by simpa [timed] using a s' e' hs', b, d, e⟩
      | event ev =>
        rw [skipTo_event hc]
        simp only [Regular] at hR
        obtain ⟨a, b, d, e⟩ := ih cur hR hG hlt
        refine ⟨fun s' e' hs' => ?_, b, d, e⟩
        rw [timed, List.filterMap_cons]
        have : win c s' e' (cur, ev) = none := by
          simp only [win]; rw [if_neg]; omega
        rw [this]
        exact a s' e' hs'
    · rw [skipTo_ge hc]
      exact ⟨fun _ _ _ => rfl, hR, Or.inr (by omega), hlt⟩

/-- all events of a stream are at or after the current time when the marks never go back -/
theorem timed_ge (F : List (Int × Int)) (recs : List Record) :
    ∀ cur, Regular F cur recs → ∀ te ∈ timed cur recs, cur ≤ te.1 := by
  induction recs with
  | nil => intro cur _ te h; simp [timed] at h
  | cons r rs ih =>
    intro cur hR te h
    cases r with
    | time t =>
      simp only [Regular] at hR
      simp only [timed] at h
      have := ih t hR.2.2 te h
      omega
    | event ev =>
      simp only [Regular] at hR
      simp only [timed, List.mem_cons] at h
      rcases h with rfl | h
      · exact Int.le_refl _
      · exact ih cur hR te h

theorem filterMap_win_eq_nil (c : Cfg) (F : List (Int × Int)) (s e cur : Int) (recs : List Record)
    (hR : Regular F cur recs) (h : e ≤ cur) : (timed cur recs).filterMap (win c s e) = [] := by
  rw [List.filterMap_eq_nil_iff]
  intro te hte
  have := timed_ge F recs cur hR te hte
  simp only [win]; rw [if_neg]; omega

/-- **one pass over a frame** (time-frame mode) -/
theorem onePass_spec (c : Cfg) (hd : c.doTimeFrame = true) (F G : List (Int × Int)) (s e : Int) (he : 10 < e)
    (recs : List Record) :
    ∀ cur, Regular F cur recs → (recs = [] ∨ s ≤ cur) → cur < e →
      (∀ f ∈ G, f ∈ F ∧ e ≤ f.1 ∧ f.1 < f.2) →
      (onePass c e 1 cur recs).adds = (timed cur recs).filterMap (win c s e) ∧
      Regular F (onePass c e 1 cur recs).cur (onePass c e 1 cur recs).rest ∧
      (∀ s' e', e ≤ s' → (timed cur recs).filterMap (win c s' e')
          = (timed (onePass c e 1 cur recs).cur (onePass c e 1 cur recs).rest).filterMap (win c s' e')) ∧
      (∀ f ∈ G, (onePass c e 1 cur recs).cur < f.2) := by
  induction recs with
  | nil =>
    intro cur hR _ hce hG
    refine ⟨by simp [onePass, timed], by simp [onePass, Regular], fun _ _ _ => by simp [onePass], ?_⟩
    intro f hf
    have := hG f hf
    simp only [onePass]; omega
  | cons r rs ih =>
    intro cur hR hs hce hG
    have hs' : s ≤ cur := by rcases hs with h | h; exact absurd h (by simp); exact h
    cases r with
    | time t =>
      simp only [Regular] at hR
      obtain ⟨h1, h2, h3⟩ := hR
      rw [onePass_time c e 1 cur t rs (by decide) he hd]
      by_cases hb : e ≤ t
      · simp only [hb, if_true, timed]
        refine ⟨(filterMap_win_eq_nil c F s e t rs h3 hb).symm, h3, fun _ _ _ => trivial, ?_⟩
        intro f hf
        have := hG f hf
        have := h2 f this.1
        omega
      · simp only [hb, if_false, timed]
        exact ih t h3 (Or.inr (by omega)) (by omega) hG
    | event ev =>
      simp only [Regular] at hR
      rw [onePass_event c e 1 cur ev rs (by decide) hd]
      obtain ⟨a, b, d, g⟩ := ih cur hR (Or.inr hs') hce hG
      refine ⟨?_, b, fun s' e' hse => ?_, g⟩
      · simp only [timed, List.filterMap_cons]
        have : win c s e (cur, ev) = contribution c ev := by
          simp only [win]; rw [if_pos]; omega
        rw [this, a]
        cases contribution c ev <;> simp
      · simp only [timed, List.filterMap_cons]
        have : win c s' e' (cur, ev) = none := by
          simp only [win]; rw [if_neg]; omega
        rw [this]
        exact d s' e' hse

/-- **all frames** (generalised over the state at the start of a frame) -/
theorem onePassFrames_spec (c : Cfg) (hd : c.doTimeFrame = true) (F : List (Int × Int)) (recs0 : List Record)
    (L : List (Int × Int)) :
    ∀ cur recs, (∀ f ∈ L, f ∈ F ∧ f.1 < f.2 ∧ 10 < f.2) → L.Pairwise (fun f g => f.2 ≤ g.1) →
      Regular F cur recs → (∀ f ∈ L, cur < f.2) →
      (∀ f ∈ L, (timed 0 recs0).filterMap (win c f.1 f.2) = (timed cur recs).filterMap (win c f.1 f.2)) →
      (onePassFrames c L cur recs).1 = L.map fun f => direct c recs0 f.1 f.2 := by
  induction L with
  | nil => intro cur recs _ _ _ _ _; simp [onePassFrames]
  | cons f L ih =>
    obtain ⟨s, e⟩ := f
    intro cur recs hL hP hR hlt heq
    have hf := hL (s, e) (by simp)
    simp only at hf
    rw [List.pairwise_cons] at hP
    -- skip
    have hG1 : ∀ f ∈ (s, e) :: L, f ∈ F ∧ s ≤ f.1 := by
      intro f hfm
      refine ⟨(hL f hfm).1, ?_⟩
      simp only [List.mem_cons] at hfm
      rcases hfm with rfl | hfm
      · exact Int.le_refl _
      · have := hP.1 f hfm; simp only at this; omega
    obtain ⟨k1, k2, k3, k4⟩ := skipTo_spec c F ((s, e) :: L) s recs cur hR hG1 hlt
    -- one pass
    have hG2 : ∀ f ∈ L, f ∈ F ∧ e ≤ f.1 ∧ f.1 < f.2 := by
      intro f hfm
      exact ⟨(hL f (by simp [hfm])).1, hP.1 f hfm, (hL f (by simp [hfm])).2.1⟩
    have hce : (skipTo s cur recs).1 < e := k4 (s, e) (by simp)
    obtain ⟨p1, p2, p3, p4⟩ := onePass_spec c hd F L s e hf.2.2 (skipTo s cur recs).2 (skipTo s cur recs).1 k2 k3 hce hG2
    simp only [onePassFrames, hd, if_true, List.map_cons]
    congr 1
    · rw [p1, direct_eq, heq (s, e) (by simp)]
      exact (k1 s e (Int.le_refl _)).symm
    · apply ih _ _ (fun f hfm => hL f (by simp [hfm])) hP.2 p2 p4
      intro f hfm
      rw [heq f (by simp [hfm])]
      have h1 := hG2 f hfm
      rw [k1 f.1 f.2 (by omega), p3 f.1 f.2 h1.2.1]

/-- **Theorem B** -/
theorem singlePass_eq_direct (c : Cfg) (hd : c.doTimeFrame = true) (hF : FramesOK c.frames) (recs : List Record)
    (hR : Regular c.frames 0 recs) :
    (singlePass c recs).1 = c.frames.map fun f => direct c recs f.1 f.2 := by
  apply onePassFrames_spec c hd c.frames recs c.frames 0 recs
  · intro f hf; exact ⟨hf, hF.1 f hf⟩
  · exact hF.2
  · exact hR
  · intro f hf; have := (hF.1 f hf).2; omega
  · intro f _; rfl

end StirVerif.C14
