/-
C14 — proofs, part 6: normalisation in `LmToProjData` (`weighted`, `valueW`, `processDataW` of Model.lean).
The value of an output bin after the weighted additions is a linear function of the integer histogram of the model bins
(`value`), so every statement proved for `value` (batch-size independence, `processData = direct`, frames add) carries
over to the normalised histograms.
-/
import StirVerif.C14.ProofsLmObj
import Mathlib.Algebra.BigOperators.Group.Finset.Piecewise

namespace StirVerif.C14

section Field
variable {K : Type} [Field K]

/-- weight of a model bin `b'` in the output bin `b`: its bin value if it belongs to `b` and something is added, else 0 -/
def weightAt (tooLow : K → Bool) (n : Norm K) (b b' : Bin) : K :=
  if b'.key = b then (binValue tooLow n b').getD 0 else 0

/-- `Σ_a g(bin a) · increment a` -/
def wsum (g : Bin → K) (adds : List Add) : K := (adds.map fun a => g a.1 * ((a.2 : Int) : K)).sum

theorem wsum_nil (g : Bin → K) : wsum g [] = 0 := rfl

theorem wsum_cons (g : Bin → K) (a : Add) (l : List Add) : wsum g (a :: l) = g a.1 * ((a.2 : Int) : K) + wsum g l := by
  simp [wsum]

theorem wsum_append (g : Bin → K) (l1 l2 : List Add) : wsum g (l1 ++ l2) = wsum g l1 + wsum g l2 := by
  simp [wsum]

/-- the value of an output bin after the weighted additions is `wsum` with the weights `weightAt` -/
theorem valueW_weighted (tooLow : K → Bool) (n : Norm K) (adds : List Add) (b : Bin) :
    valueW (weighted tooLow n adds) b = wsum (weightAt tooLow n b) adds := by
  unfold valueW
  rw [sumList_eq_sum]
  induction adds with
  | nil => simp [weighted, wsum]
  | cons a l ih =>
    rw [wsum_cons, ← ih]
    unfold weighted
    rw [List.filterMap_cons]
    cases hv : binValue tooLow n a.1 with
    | none => simp [weightAt, hv]
    | some w =>
      simp only [Option.map_some, List.map_cons, List.sum_cons, weightAt, hv, Option.getD_some]
      by_cases hk : a.1.key = b <;> simp [hk]

/-- `wsum` over a finite set of bins that contains every bin of the list: `Σ_b g b · value b` -/
theorem wsum_eq_finset_sum (g : Bin → K) (adds : List Add) (S : Finset Bin) (hS : ∀ a ∈ adds, a.1 ∈ S) :
    wsum g adds = ∑ b ∈ S, g b * ((value adds b : Int) : K) := by
  induction adds with
  | nil => simp [wsum, value]
  | cons a l ih =>
    rw [wsum_cons, ih (fun x hx => hS x (List.mem_cons_of_mem _ hx))]
    have ha : a.1 ∈ S := hS a (List.mem_cons_self ..)
    have hsplit : ∀ b, g b * ((value (a :: l) b : Int) : K)
        = (if a.1 = b then g b * ((a.2 : Int) : K) else 0) + g b * ((value l b : Int) : K) := by
      intro b
      obtain ⟨b', i⟩ := a
      simp only [value]
      by_cases h : b' = b
      · simp [h, mul_add]
      · simp [h]
    rw [Finset.sum_congr rfl (fun b _ => hsplit b), Finset.sum_add_distrib, Finset.sum_ite_eq, if_pos ha]

/-- **lifting**: two lists of additions with the same integer histogram have the same weighted sums -/
theorem wsum_congr (g : Bin → K) (l1 l2 : List Add) (h : ∀ b, value l1 b = value l2 b) : wsum g l1 = wsum g l2 := by
  classical
  let S : Finset Bin := (l1.map (·.1)).toFinset ∪ (l2.map (·.1)).toFinset
  have h1 : ∀ a ∈ l1, a.1 ∈ S := fun a ha =>
    Finset.mem_union_left _ (List.mem_toFinset.2 (List.mem_map_of_mem ha))
  have h2 : ∀ a ∈ l2, a.1 ∈ S := fun a ha =>
    Finset.mem_union_right _ (List.mem_toFinset.2 (List.mem_map_of_mem ha))
  rw [wsum_eq_finset_sum g l1 S h1, wsum_eq_finset_sum g l2 S h2]
  exact Finset.sum_congr rfl (fun b _ => by rw [h b])

/-- the same for lists of frames -/
theorem map_wsum_congr (g : Bin → K) (L1 L2 : List (List Add))
    (h : ∀ b, L1.map (fun a => value a b) = L2.map (fun a => value a b)) : L1.map (wsum g) = L2.map (wsum g) := by
  induction L1 generalizing L2 with
  | nil =>
    cases L2 with
    | nil => rfl
    | cons y ys => have := h default; simp at this
  | cons x xs ih =>
    cases L2 with
    | nil => have := h default; simp at this
    | cons y ys =>
      simp only [List.map_cons, List.cons.injEq] at h ⊢
      exact ⟨wsum_congr g x y (fun b => (h b).1), ih ys (fun b => (h b).2)⟩

/-- the sum over frames of the weighted sums is the weighted sum of the concatenation -/
theorem sum_map_wsum (g : Bin → K) (L : List (List Add)) : (L.map (wsum g)).sum = wsum g L.flatten := by
  induction L with
  | nil => simp [wsum]
  | cons x xs ih => simp [List.flatten_cons, wsum_append, ih]

theorem value_flatten (L : List (List Add)) (b : Bin) : value L.flatten b = (L.map fun a => value a b).sum := by
  induction L with
  | nil => simp [value]
  | cons x xs ih => simp [List.flatten_cons, value_append, ih]

/-- the un-normalised content of the output bin `b`: the sum of the increments of all additions that belong to it -/
def keyValue (adds : List Add) (b : Bin) : Int := (adds.map fun a => if a.1.key = b then a.2 else 0).sum

/-- with post-normalisation the value of an output bin is its un-normalised content times the factor of the bin -/
theorem wsum_post (tooLow : K → Bool) (eff : Bin → K) (adds : List Add) (b : Bin) :
    wsum (weightAt tooLow (.post eff) b) adds
      = (if tooLow (eff b) then 0 else 1 / eff b) * ((keyValue adds b : Int) : K) := by
  induction adds with
  | nil => simp [wsum, keyValue]
  | cons a l ih =>
    rw [wsum_cons, ih]
    obtain ⟨b', i⟩ := a
    simp only [keyValue, weightAt, List.map_cons, List.sum_cons]
    by_cases h : b'.key = b
    · subst h
      simp only [if_true, binValue]
      by_cases hl : tooLow (eff b'.key) = true
      · simp [hl]
      · simp [hl, mul_add]
    · simp [h]

/-- a sum over the defined values of a partial map -/
theorem sum_filterMap {α β : Type} (f : α → Option β) (g : β → K) (l : List α) :
    ((l.filterMap f).map g).sum = (l.map fun x => (f x).elim 0 g).sum := by
  induction l with
  | nil => rfl
  | cons x l ih =>
    rw [List.filterMap_cons]
    cases h : f x with
    | none => simp [h, ih]
    | some y => simp [h, ih]

end Field

end StirVerif.C14
