/-
C14 — proofs, part 3: consequences read off the specification `direct` (one count per event, delayeds subtract,
nothing outside the data, frames add up) and the `num_events_to_store` cut-off.
-/
import StirVerif.C14.ProofsDirect

namespace StirVerif.C14

/-! ### nothing is written outside the output data -/

/-- the bin passes the decoder's segment test and the range test of `process_data` -/
def binOK (t : Template) (b : Bin) : Prop := inTemplate t b ∧ inRange t b = true

theorem contribution_some {c : Cfg} {ev : Event} {a : Add} (h : contribution c ev = some a) :
    getBinFromEvent c.tpl ev = some a.1 ∧ inRange c.tpl a.1 = true ∧ a.2 = eventIncrement c ev ∧ a.2 ≠ 0 := by
  unfold contribution at h
  cases hg : getBinFromEvent c.tpl ev with
  | none => simp [hg] at h
  | some b =>
    simp only [hg] at h
    by_cases hr : inRange c.tpl b = true
    · simp only [hr, if_true] at h
      by_cases hi : eventIncrement c ev = 0
      · simp [hi] at h
      · simp only [hi, if_false, Option.some.injEq] at h
        subst h
        exact ⟨rfl, hr, rfl, hi⟩
    · simp [hr] at h

theorem contribution_binOK {c : Cfg} {ev : Event} {a : Add} (h : contribution c ev = some a) : binOK c.tpl a.1 := by
  obtain ⟨h1, h2, _, _⟩ := contribution_some h
  have := getBinFromEvent_seg h1
  have := inRange_tof h2
  exact ⟨⟨by omega, by omega, by omega, by omega⟩, h2⟩

theorem onePass_adds_binOK (c : Cfg) (endT : Int) (recs : List Record) :
    ∀ more cur, ∀ a ∈ (onePass c endT more cur recs).adds, binOK c.tpl a.1 ∧ a.2 ≠ 0 := by
  induction recs with
  | nil => intro more cur a ha; simp [onePass] at ha
  | cons r rs ih =>
    intro more cur a ha
    unfold onePass at ha
    split at ha
    · simp at ha
    · cases r with
      | time t =>
        try simp only at ha
        split at ha
        · split at ha
          · simp at ha
          · exact ih _ _ a ha
        · exact ih _ _ a ha
      | event e =>
        try simp only at ha
        split at ha
        · exact ih _ _ a ha
        · next b hb =>
          split at ha
          · next hr =>
            try simp only at ha
            split at ha
            · exact ih _ _ a ha
            · next hi =>
              simp only [List.mem_cons] at ha
              rcases ha with rfl | ha
              · have h1 := getBinFromEvent_seg hb
                have h2 := inRange_tof hr
                exact ⟨⟨⟨h1.1, h1.2, h2.1, h2.2⟩, hr⟩, hi⟩
              · exact ih _ _ a ha
          · exact ih _ _ a ha

theorem passes_adds_binOK (c : Cfg) (s e : Int) (bts : List Batch) :
    ∀ st : PassState, ∀ a ∈ (passes c s e bts st).1, binOK c.tpl a.1 ∧ a.2 ≠ 0 := by
  induction bts with
  | nil => intro st a ha; simp [passes] at ha
  | cons bt bts ih =>
    intro st a ha
    simp only [passes, List.mem_append] at ha
    rcases ha with ha | ha
    · have hsp := fun cur s1 => (mainLoop_spec c e bt s1 (if c.doTimeFrame then 1 else c.numEventsToStore) cur cur).1
      rw [hsp] at ha
      exact onePass_adds_binOK c e _ _ _ a (List.mem_filter.1 ha).1
    · exact ih _ a ha

theorem frameLoop_adds_binOK (c : Cfg) (fs : List (Int × Int)) :
    ∀ cur recs, ∀ l ∈ (frameLoop c fs cur recs).1, ∀ a ∈ l, binOK c.tpl a.1 ∧ a.2 ≠ 0 := by
  induction fs with
  | nil => intro cur recs l hl; simp [frameLoop] at hl
  | cons f fs ih =>
    obtain ⟨s, e⟩ := f
    intro cur recs l hl a ha
    simp only [frameLoop, List.mem_cons] at hl
    rcases hl with rfl | hl
    · exact passes_adds_binOK c s e _ _ a ha
    · exact ih _ _ l hl a ha

/-! ### one count per event -/

/-- the bin an event is histogrammed into, if any (decoder + range test) -/
def accepted (c : Cfg) (ev : Event) : Option Bin :=
  match getBinFromEvent c.tpl ev with
  | none => none
  | some b => if inRange c.tpl b then some b else none

theorem contribution_eq (c : Cfg) (ev : Event) :
    contribution c ev = match accepted c ev with
      | none => none
      | some b => if eventIncrement c ev = 0 then none else some (b, eventIncrement c ev) := by
  unfold contribution accepted
  cases getBinFromEvent c.tpl ev with
  | none => rfl
  | some b => by_cases hr : inRange c.tpl b = true <;> simp [hr]

/-- the event has its time in `[s,e)` and is assigned to bin `b` -/
def inWinAt (c : Cfg) (s e : Int) (b : Bin) (te : Int × Event) : Bool :=
  decide (s ≤ te.1) && decide (te.1 < e) && decide (accepted c te.2 = some b)

/-- the value of a bin is the sum of the increments of the events of the frame that are assigned to it -/
theorem value_filterMap_win (c : Cfg) (s e : Int) (b : Bin) (l : List (Int × Event)) :
    value (l.filterMap (win c s e)) b
      = ((l.filter (inWinAt c s e b)).map fun te => eventIncrement c te.2).sum := by
  induction l with
  | nil => simp [value]
  | cons te l ih =>
    obtain ⟨t, ev⟩ := te
    rw [List.filterMap_cons, List.filter_cons]
    by_cases hw : s ≤ t ∧ t < e
    · have hwin : win c s e (t, ev) = contribution c ev := by simp only [win]; rw [if_pos hw]
      rw [hwin, contribution_eq]
      cases ha : accepted c ev with
      | none =>
        have : inWinAt c s e b (t, ev) = false := by simp [inWinAt, ha]
        simp only [this]
        exact ih
      | some b' =>
        by_cases hbb : b' = b
        · subst hbb
          have : inWinAt c s e b' (t, ev) = true := by simp [inWinAt, ha, hw.1, hw.2]
          simp only [this, if_true, List.map_cons, List.sum_cons]
          by_cases hi : eventIncrement c ev = 0
          · simp only [hi, if_true, ih]; omega
          · simp only [hi, if_false, value_cons, if_true, ih]
        · have : inWinAt c s e b (t, ev) = false := by simp [inWinAt, ha, hbb]
          simp only [this]
          by_cases hi : eventIncrement c ev = 0
          · simp only [hi, if_true]; exact ih
          · simp only [hi, if_false, value_cons, hbb, ih]; simp
    · have hwin : win c s e (t, ev) = none := by simp only [win]; rw [if_neg hw]
      have : inWinAt c s e b (t, ev) = false := by
        by_cases h1 : s ≤ t <;> by_cases h2 : t < e <;> simp [inWinAt, h1, h2] <;> exact absurd ⟨h1, h2⟩ hw
      rw [hwin]
      simp only [this]
      exact ih

/-- a sum of increments is (+1 or 0) per prompt plus `delayed_increment` per delayed -/
theorem sum_eventIncrement (c : Cfg) (l : List (Int × Event)) :
    (l.map fun te => eventIncrement c te.2).sum
      = (if c.storePrompts then 1 else 0) * (l.countP fun te => te.2.prompt)
        + c.delayedIncrement * (l.countP fun te => !te.2.prompt) := by
  induction l with
  | nil => simp
  | cons te l ih =>
    simp only [List.map_cons, List.sum_cons, ih, List.countP_cons]
    cases hp : te.2.prompt
    · simp [eventIncrement, hp, Int.mul_add]; omega
    · simp [eventIncrement, hp, Int.mul_add]; omega

/-! ### frames add up -/

theorem value_direct_split (c : Cfg) (recs : List Record) (s m e : Int) (h1 : s ≤ m) (h2 : m ≤ e) (b : Bin) :
    value (direct c recs s e) b = value (direct c recs s m) b + value (direct c recs m e) b := by
  simp only [direct_eq]
  induction timed 0 recs with
  | nil => simp [value]
  | cons te l ih =>
    simp only [List.filterMap_cons]
    obtain ⟨t, ev⟩ := te
    by_cases ha : s ≤ t ∧ t < m
    · have w1 : win c s e (t, ev) = contribution c ev := by simp only [win]; rw [if_pos]; omega
      have w2 : win c s m (t, ev) = contribution c ev := by simp only [win]; rw [if_pos]; omega
      have w3 : win c m e (t, ev) = none := by simp only [win]; rw [if_neg]; omega
      rw [w1, w2, w3]
      cases contribution c ev with
      | none => simpa using ih
      | some a => simp only [value_cons, ih]; omega
    · by_cases hb : m ≤ t ∧ t < e
      · have w1 : win c s e (t, ev) = contribution c ev := by simp only [win]; rw [if_pos]; omega
        have w2 : win c s m (t, ev) = none := by simp only [win]; rw [if_neg]; omega
        have w3 : win c m e (t, ev) = contribution c ev := by simp only [win]; rw [if_pos]; omega
        rw [w1, w2, w3]
        cases contribution c ev with
        | none => simpa using ih
        | some a => simp only [value_cons, ih]; omega
      · have w1 : win c s e (t, ev) = none := by simp only [win]; rw [if_neg]; omega
        have w2 : win c s m (t, ev) = none := by simp only [win]; rw [if_neg]; omega
        have w3 : win c m e (t, ev) = none := by simp only [win]; rw [if_neg]; omega
        rw [w1, w2, w3]
        simpa using ih

/-- frames that follow one another without gap, starting at `s0`, each non-empty -/
def IsPartitionFrom : Int → List (Int × Int) → Prop
  | _, [] => True
  | s0, (s, e) :: fs => s = s0 ∧ s ≤ e ∧ IsPartitionFrom e fs

/-- the end of the last frame (`s0` if there is none) -/
def lastEnd : Int → List (Int × Int) → Int
  | s0, [] => s0
  | _, (_, e) :: fs => lastEnd e fs

theorem lastEnd_ge (s0 : Int) (L : List (Int × Int)) : IsPartitionFrom s0 L → s0 ≤ lastEnd s0 L := by
  induction L generalizing s0 with
  | nil => intro _; exact Int.le_refl _
  | cons f fs ih =>
    obtain ⟨s, e⟩ := f
    intro h
    have := ih e h.2.2
    simp only [lastEnd]
    have := h.1; have := h.2.1
    omega

theorem direct_frames_add (c : Cfg) (recs : List Record) (b : Bin) (L : List (Int × Int)) :
    ∀ s0, IsPartitionFrom s0 L →
      (L.map fun f => value (direct c recs f.1 f.2) b).sum = value (direct c recs s0 (lastEnd s0 L)) b := by
  induction L with
  | nil =>
    intro s0 _
    simp only [List.map_nil, List.sum_nil, lastEnd, direct_eq]
    have : (timed 0 recs).filterMap (win c s0 s0) = [] := by
      rw [List.filterMap_eq_nil_iff]; intro te _; simp only [win]; rw [if_neg]; omega
    rw [this]; rfl
  | cons f fs ih =>
    obtain ⟨s, e⟩ := f
    intro s0 h
    obtain ⟨h1, h2, h3⟩ := h
    subst h1
    simp only [List.map_cons, List.sum_cons, lastEnd, ih e h3]
    rw [value_direct_split c recs s e (lastEnd e fs) h2 (lastEnd_ge e fs h3)]

/-- `Regular` only gets easier with frames that contain a frame of the original set -/
theorem Regular_mono (F G : List (Int × Int)) (h : ∀ g ∈ G, ∃ f ∈ F, g.1 ≤ f.1 ∧ f.2 ≤ g.2) (recs : List Record) :
    ∀ cur, Regular F cur recs → Regular G cur recs := by
  induction recs with
  | nil => intro _ _; trivial
  | cons r rs ih =>
    intro cur hR
    cases r with
    | time t =>
      simp only [Regular] at hR ⊢
      refine ⟨hR.1, ?_, ih t hR.2.2⟩
      intro g hg hc
      obtain ⟨f, hf, h1, h2⟩ := h g hg
      exact hR.2.1 f hf ⟨by omega, by omega⟩
    | event ev =>
      simp only [Regular] at hR ⊢
      exact ih cur hR

/-! ### `num_events_to_store` -/

/-- what an event adds to the stored total (`more_events -= event_increment`) -/
def storedInc (c : Cfg) : Record → Int
  | .time _ => 0
  | .event ev => match contribution c ev with
    | none => 0
    | some a => a.2

/-- the stored total of a list of records -/
def stored (c : Cfg) (l : List Record) : Int := (l.map (storedInc c)).sum

/-- the records read by a pass that stops when the stored total reaches `more` -/
def cutPrefix (c : Cfg) : Int → List Record → List Record
  | _, [] => []
  | more, r :: rs => if more = 0 then [] else r :: cutPrefix c (more - storedInc c r) rs

theorem cutPrefix_prefix (c : Cfg) (recs : List Record) : ∀ more, cutPrefix c more recs <+: recs := by
  induction recs with
  | nil => intro _; simp [cutPrefix]
  | cons r rs ih =>
    intro more
    simp only [cutPrefix]
    split
    · exact List.nil_prefix
    · exact (List.prefix_cons_inj r).2 (ih _)

/-- if the pass stopped before the end of the data, the stored total is exactly the requested number -/
theorem cutPrefix_total (c : Cfg) (recs : List Record) :
    ∀ more, cutPrefix c more recs ≠ recs → stored c (cutPrefix c more recs) = more := by
  induction recs with
  | nil => intro more h; simp [cutPrefix] at h
  | cons r rs ih =>
    intro more h
    simp only [cutPrefix] at h ⊢
    by_cases hm : more = 0
    · simp [hm, stored]
    · simp only [hm, if_false] at h ⊢
      have h' : cutPrefix c (more - storedInc c r) rs ≠ rs := fun heq => h (by rw [heq])
      have := ih _ h'
      simp only [stored, List.map_cons, List.sum_cons] at this ⊢
      omega

/-- … and it is reached for the first time: no shorter prefix has that total -/
theorem cutPrefix_first (c : Cfg) (recs : List Record) :
    ∀ more p, p <+: cutPrefix c more recs → p ≠ cutPrefix c more recs → stored c p ≠ more := by
  induction recs with
  | nil => intro more p hp hne; simp [cutPrefix] at hp hne; exact absurd hp hne
  | cons r rs ih =>
    intro more p hp hne
    simp only [cutPrefix] at hp hne
    by_cases hm : more = 0
    · simp only [hm, if_true] at hp hne
      exact absurd (List.prefix_nil.1 hp) hne
    · simp only [hm, if_false] at hp hne
      cases p with
      | nil => simpa [stored] using fun h => hm h.symm
      | cons q qs =>
        rw [List.cons_prefix_cons] at hp
        obtain ⟨rfl, hp'⟩ := hp
        have hne' : qs ≠ cutPrefix c (more - storedInc c q) rs := fun h => hne (by rw [h])
        have := ih _ qs hp' hne'
        simp only [stored, List.map_cons, List.sum_cons] at this ⊢
        omega

theorem onePass_event_numEvents (c : Cfg) (hd : c.doTimeFrame = false) (endT more cur : Int) (ev : Event)
    (rs : List Record) (hm : more ≠ 0) :
    onePass c endT more cur (.event ev :: rs)
      = ⟨(contribution c ev).toList ++ (onePass c endT (more - storedInc c (.event ev)) cur rs).adds,
          (onePass c endT (more - storedInc c (.event ev)) cur rs).cur,
          (onePass c endT (more - storedInc c (.event ev)) cur rs).rest⟩ := by
  rw [onePass]
  simp only [hm, if_false, contribution, hd, storedInc]
  cases getBinFromEvent c.tpl ev with
  | none => simp
  | some b =>
    simp only
    by_cases hr : inRange c.tpl b = true
    · simp only [hr, if_true]
      by_cases hi : eventIncrement c ev = 0
      · simp [hi]
      · simp [hi]
    · simp [hr]

/-- a pass in `num_events_to_store` mode whose frame end is ignored (`end_time <= 0.01`, the default frame `(0,0)`):
    it stores the contributions of exactly the records of `cutPrefix`, and stops there -/
theorem onePass_numEvents (c : Cfg) (hd : c.doTimeFrame = false) (endT : Int) (he : endT ≤ 10) (recs : List Record) :
    ∀ more cur cur',
      (onePass c endT more cur recs).adds = (timed cur' (cutPrefix c more recs)).filterMap (fun te => contribution c te.2) ∧
      (onePass c endT more cur recs).rest = recs.drop (cutPrefix c more recs).length := by
  induction recs with
  | nil => intro more cur cur'; simp [onePass, cutPrefix, timed]
  | cons r rs ih =>
    intro more cur cur'
    have hne : ¬endT > 10 := by omega
    by_cases hm : more = 0
    · subst hm
      cases r <;> simp [onePass, cutPrefix, timed]
    · cases r with
      | time t =>
        rw [onePass]
        simp only [cutPrefix, hm, if_false, hne, timed, storedInc, Int.sub_zero, List.length_cons, List.drop_succ_cons]
        exact ih more cur t
      | event ev =>
        rw [onePass_event_numEvents c hd endT more cur ev rs hm]
        simp only [cutPrefix, hm, if_false, timed, List.filterMap_cons, List.length_cons, List.drop_succ_cons]
        have := ih (more - storedInc c (.event ev)) cur cur'
        refine ⟨?_, this.2⟩
        rw [this.1]
        cases contribution c ev <;> simp

/-! ### the batch sizes are not looked at when reading once -/

/-- reading once does not look at the batch sizes -/
theorem onePass_congr (c c' : Cfg) (h1 : c'.tpl = c.tpl) (h2 : c'.doTimeFrame = c.doTimeFrame)
    (h3 : c'.storePrompts = c.storePrompts) (h4 : c'.delayedIncrement = c.delayedIncrement) (e : Int)
    (recs : List Record) : ∀ more cur, onePass c' e more cur recs = onePass c e more cur recs := by
  have hinc : ∀ ev, eventIncrement c' ev = eventIncrement c ev := by
    intro ev; simp [eventIncrement, h3, h4]
  induction recs with
  | nil => intro _ _; rfl
  | cons r rs ih =>
    intro more cur
    cases r with
    | time t => rw [onePass, onePass]; simp only [h2, ih]
    | event ev => rw [onePass, onePass]; simp only [h1, h2, hinc, ih]

theorem onePassFrames_congr (c c' : Cfg) (h1 : c'.tpl = c.tpl) (h2 : c'.doTimeFrame = c.doTimeFrame)
    (h3 : c'.storePrompts = c.storePrompts) (h4 : c'.delayedIncrement = c.delayedIncrement)
    (h5 : c'.numEventsToStore = c.numEventsToStore) (fs : List (Int × Int)) :
    ∀ cur recs, onePassFrames c' fs cur recs = onePassFrames c fs cur recs := by
  induction fs with
  | nil => intro _ _; rfl
  | cons f fs ih =>
    obtain ⟨s, e⟩ := f
    intro cur recs
    simp only [onePassFrames, onePass_congr c c' h1 h2 h3 h4, h2, h5, ih]


end StirVerif.C14
