import StirVerif.C14.Model
namespace StirVerif.C14
end StirVerif.C14
